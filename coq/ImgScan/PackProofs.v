(* ImgScan — order independence carried from the fstree (C11) through the serializer (Img / ImgPost), the data path (C02)
   and sqfs_writer_finish (Image) to the image bytes.  Every statement is function-ness of the composed model plus the
   C11 theorem for the first stage and C02's refinement theorem for the data path. *)
From Coq Require Import List NArith ZArith Bool Permutation.
From SqfsV Require Import C01.GenC01 C01.Res C01.InodeModel Img.TreeModel.
From SqfsV Require Import C11.StrOrder C11.FstreeModel C11.PostModel C11.ScanModel C11.CanonProofs C11.ScanProofs
  ImgPost.Bridge.
From SqfsV Require C02.BpModel C02.BpSpec C02.BpProofs.
From SqfsV Require Image.FinishModel.
From SqfsV Require Import ImgScan.PackModel.
Import ListNotations.
Local Open Scope N_scope.

(* the hypothesis under which C11 proves the scan order independent: the native iterator sorts (fixes/F09, the code as it
   is now), or the hard link filter cannot fire *)
Definition order_free_case (sorted : bool) (cfg : scfg) (t : hnode) : Prop :=
  sorted = true \/ c_nohl cfg = true \/ no_multilinks t.

Lemma scan_post_is_pack_with fnmatch dflt cfg sorted t fs0 :
  scan_post fnmatch dflt cfg sorted t fs0 = pack_with fnmatch dflt cfg sorted t fs0.
Proof. reflexivity. Qed.

Lemma scan_post_order_free fnmatch dflt cfg sorted t t' fs0 :
  hwf t -> hperm t t' -> order_free_case sorted cfg t ->
  scan_post fnmatch dflt cfg sorted t fs0 = scan_post fnmatch dflt cfg sorted t' fs0.
Proof.
  intros Hw Hp Hc. unfold scan_post. destruct sorted.
  - rewrite (scan_order_free_l fnmatch dflt cfg t t' fs0 Hw Hp). reflexivity.
  - assert (H : c_nohl cfg = true \/ no_multilinks t) by (destruct Hc as [E|H]; [discriminate|exact H]).
    pose proof (scan_order_free_nolinks_l fnmatch dflt cfg t t' fs0 Hw Hp H) as E.
    destruct (scan_dir fnmatch dflt cfg false t fs0) as [[a b]|], (scan_dir fnmatch dflt cfg false t' fs0) as [[a' b']|];
      simpl in *; congruence.
Qed.

(* ---- the tables ---- *)
Lemma scan_tables_order_free fnmatch dflt cfg mcompress limit fb xa sorted t t' fs0 :
  hwf t -> hperm t t' -> order_free_case sorted cfg t ->
  scan_tables fnmatch dflt cfg mcompress limit fb xa sorted t fs0 =
  scan_tables fnmatch dflt cfg mcompress limit fb xa sorted t' fs0.
Proof.
  intros Hw Hp Hc. unfold scan_tables. rewrite (scan_post_order_free fnmatch dflt cfg sorted t t' fs0 Hw Hp Hc).
  reflexivity.
Qed.

(* ---- the file list and what pack_files opens, in packing order ---- *)
Definition scan_files fnmatch dflt cfg sorted t fs0 : option (list path * list (list N)) :=
  match scan_post fnmatch dflt cfg sorted t fs0 with
  | Some (POk pp) => Some (pp_files pp, input_names pp)
  | _ => None
  end.

Lemma file_list_order_free_l fnmatch dflt cfg sorted t t' fs0 :
  hwf t -> hperm t t' -> order_free_case sorted cfg t ->
  scan_files fnmatch dflt cfg sorted t fs0 = scan_files fnmatch dflt cfg sorted t' fs0.
Proof.
  intros Hw Hp Hc. unfold scan_files. rewrite (scan_post_order_free fnmatch dflt cfg sorted t t' fs0 Hw Hp Hc).
  reflexivity.
Qed.

(* ---- the serializer's input depends on the file inodes pointwise only ---- *)
Lemma node_img_ext fb fb' xa arr root p : (forall q, fb q = fb' q) -> node_img fb xa arr root p = node_img fb' xa arr root p.
Proof.
  intro H. unfold node_img. destruct (lookup_path p root) as [[nm a ch]|]; [|reflexivity].
  destruct (a_type a); try reflexivity. rewrite H. reflexivity.
Qed.

Lemma to_img_ext fb fb' xa pp : (forall q, fb q = fb' q) -> to_img fb xa pp = to_img fb' xa pp.
Proof. intro H. unfold to_img. apply map_ext. intro p. apply node_img_ext. exact H. Qed.

Lemma fb_of_ext ino ino' files p : (forall k, ino k = ino' k) -> fb_of ino files p = fb_of ino' files p.
Proof. intro H. unfold fb_of. destruct (PostModel.index_of p files); [rewrite H|]; reflexivity. Qed.

(* ---- the whole image ---- *)
Section Image.
  Variable fnmatch : list N -> list N -> bool -> bool.
  Variable dflt : fsdefaults.
  Variable cfg : scfg.
  Variable hash : list N -> N.
  Variable dcompress : list N -> option (list N).
  Variable HT : Type.
  Variable ht_search : HT -> BpModel.blk -> option (N * N).
  Variable ht_insert : HT -> BpModel.blk -> N * N -> HT.
  Variable BW : Type.
  Variable bw_write : BW -> BpModel.blk -> BW * N.
  Variable bw_bytes : BW -> list N.
  Variable host_file : list N -> BpModel.file.
  Variable xa : path -> N.
  Variable xsec : option (list N * N).
  Variable opts : list N.
  Variable mcompress : list N -> Common.cres.
  Variable limit : N.
  Variable wc : FinishModel.wcfg.

  (* a worker pool as C09 characterises lib/util/src/threadpool.c (C02.fifo_pool): an abstraction to the list of
     submitted and not yet dequeued blocks; dequeue returns the worker's result for the oldest one *)
  Definition fifo_laws (P : Type) (p_submit : P -> BpModel.blk -> P) (p_dequeue : P -> option (BpModel.blk * P))
             (alpha : P -> list BpModel.blk) : Prop :=
    (forall p b, alpha (p_submit p b) = alpha p ++ [b]) /\
    (forall p b r, alpha p = b :: r ->
       exists p', p_dequeue p = Some (BpModel.process_block hash dcompress b, p') /\ alpha p' = r).

  Notation pack P sub deq :=
    (pack_image fnmatch dflt cfg HT ht_search ht_insert BW bw_write bw_bytes host_file xa xsec opts mcompress limit wc
                P sub deq).

  (* the one function of the post-processed tree every run computes: the data path replaced by its in-order
     specification (C02.BpSpec) *)
  Definition image_spec (ht0 : HT) (bw0 : BW) (pp : ppout) : res FinishModel.wimage :=
    let bs := FinishModel.c_block_size wc in
    let files := pack_inputs host_file pp in
    finish_image BW bw_bytes xa xsec opts mcompress limit wc pp
      (BpSpec.spec_inodes hash dcompress HT ht_search ht_insert BW bw_write bs ht0 bw0 files)
      (fst (BpSpec.bw_run BW bw_write bw0 [] (BpSpec.spec_blocks hash dcompress HT ht_search ht_insert bs ht0 files)))
      (BpSpec.spec_ftbl hash dcompress HT ht_search ht_insert BW bw_write bs ht0 bw0 files).

  Lemma pack_image_is_spec P sub deq alpha sorted q p0 ht0 bw0 t fs0 :
    fifo_laws P sub deq alpha -> alpha p0 = [] ->
    0 < FinishModel.c_block_size wc -> (forall nm, BpProofs.file_ok (host_file nm)) ->
    pack P sub deq sorted q p0 ht0 bw0 t fs0 =
    match scan_post fnmatch dflt cfg sorted t fs0 with
    | None => IScanErr
    | Some PErr => IPostErr
    | Some PFuel => IPostLoop
    | Some (POk pp) => IImage (image_spec ht0 bw0 pp)
    end.
  Proof.
    intros [L1 L2] Hp0 Hbs Hf. unfold pack_image.
    destruct (scan_post fnmatch dflt cfg sorted t fs0) as [[pp| |]|]; try reflexivity.
    assert (Hfiles : Forall BpProofs.file_ok (pack_inputs host_file pp)).
    { unfold pack_inputs. apply Forall_forall. intros f Hin. apply in_map_iff in Hin. destruct Hin as (nm & <- & _).
      apply Hf. }
    destruct (BpProofs.run_refines_spec_full hash dcompress HT ht_search ht_insert BW bw_write P sub deq
                (FinishModel.c_block_size wc) (BpModel.clamp_backlog q) bw0 alpha L1 L2 (BpProofs.clamp_ge3 q)
                p0 ht0 (pack_inputs host_file pp) Hp0 Hbs Hfiles) as (s & R & Ew & _ & Ei & Ef).
    rewrite R. f_equal. unfold image_spec, finish_image. rewrite <- Ew, Ef. cbn [fst].
    rewrite (to_img_ext _ _ xa pp (fun p => fb_of_ext _ _ (pp_files pp) p Ei)). reflexivity.
  Qed.

  (* two runs: two enumeration orders of the same directory, two pools (any worker count and schedule), two backlogs *)
  Lemma pack_image_order_free_l P1 sub1 deq1 alpha1 P2 sub2 deq2 alpha2 sorted q1 q2 p1 p2 ht0 bw0 t t' fs0 :
    fifo_laws P1 sub1 deq1 alpha1 -> alpha1 p1 = [] ->
    fifo_laws P2 sub2 deq2 alpha2 -> alpha2 p2 = [] ->
    0 < FinishModel.c_block_size wc -> (forall nm, BpProofs.file_ok (host_file nm)) ->
    hwf t -> hperm t t' -> order_free_case sorted cfg t ->
    pack P1 sub1 deq1 sorted q1 p1 ht0 bw0 t fs0 = pack P2 sub2 deq2 sorted q2 p2 ht0 bw0 t' fs0.
  Proof.
    intros F1 E1 F2 E2 Hbs Hf Hw Hp Hc.
    rewrite (pack_image_is_spec P1 sub1 deq1 alpha1 sorted q1 p1 ht0 bw0 t fs0 F1 E1 Hbs Hf).
    rewrite (pack_image_is_spec P2 sub2 deq2 alpha2 sorted q2 p2 ht0 bw0 t' fs0 F2 E2 Hbs Hf).
    rewrite (scan_post_order_free fnmatch dflt cfg sorted t t' fs0 Hw Hp Hc). reflexivity.
  Qed.

  (* ... in particular the bytes of the file *)
  Lemma image_file_order_free_l P1 sub1 deq1 alpha1 P2 sub2 deq2 alpha2 sorted q1 q2 p1 p2 ht0 bw0 t t' fs0 :
    fifo_laws P1 sub1 deq1 alpha1 -> alpha1 p1 = [] ->
    fifo_laws P2 sub2 deq2 alpha2 -> alpha2 p2 = [] ->
    0 < FinishModel.c_block_size wc -> (forall nm, BpProofs.file_ok (host_file nm)) ->
    hwf t -> hperm t t' -> order_free_case sorted cfg t ->
    image_file (pack P1 sub1 deq1 sorted q1 p1 ht0 bw0 t fs0) = image_file (pack P2 sub2 deq2 sorted q2 p2 ht0 bw0 t' fs0).
  Proof.
    intros. f_equal. eapply pack_image_order_free_l; eassumption.
  Qed.

  (* the data path of a run never fails (C02): an outcome other than an image stems from the scan or post processing *)
  Lemma pack_image_no_data_failure P sub deq alpha sorted q p0 ht0 bw0 t fs0 :
    fifo_laws P sub deq alpha -> alpha p0 = [] ->
    0 < FinishModel.c_block_size wc -> (forall nm, BpProofs.file_ok (host_file nm)) ->
    match pack P sub deq sorted q p0 ht0 bw0 t fs0 with
    | IDataErr _ | IDataCrash | IDataFuel => False
    | _ => True
    end.
  Proof.
    intros F E Hbs Hf. rewrite (pack_image_is_spec P sub deq alpha sorted q p0 ht0 bw0 t fs0 F E Hbs Hf).
    destruct (scan_post fnmatch dflt cfg sorted t fs0) as [[pp| |]|]; exact I.
  Qed.
End Image.
