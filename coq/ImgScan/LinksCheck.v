(* ImgScan — post_process_order_free and the directory scan (audit finding 4).
   C11.post_process_order_free needs [links_primary root l] (no queued hard link points at a hard link) and [NoDup l].
   Its comment said this "is what the directory scan produces"; no theorem says so, and in general it is FALSE:
   [prefix_scan_not_primary] is a scan with a target prefix (a `glob /d ...` line) whose result violates links_primary —
   dir_hl.c hands out the link target WITHOUT the prefix scan_directory puts in front of every path, so the target
   "d/q" of d/d/r names the node d/q of the image, itself a hard link.
   What is provided instead:
     - both hypotheses are decidable: [links_checkb] with soundness, so that post_process_order_free applies to every
       concrete scan result on which the (computable) check passes: [post_process_order_free_checked];
     - the check passes on the scan results of the witness trees (Example in Properties_C11.v).
   That every scan WITHOUT prefix from the empty fstree satisfies both hypotheses is proved in ScanLinks.v
   (scan_links_primary_l; invariant relating the (dev, ino) map of the hard link filter to the tree). *)
From Coq Require Import List NArith ZArith Bool Permutation.
From SqfsV Require Import C11.StrOrder C11.FstreeModel C11.PostModel C11.PostProofs C11.ScanModel C11.Witness.
Import ListNotations.
Local Open Scope N_scope.

Definition links_primaryb (root : tnode) (l : list path) : bool :=
  forallb (fun p => match lookup_path p root with
                    | Some sn =>
                        match lookup_path (a_hardtgt (node_attr sn)) root with
                        | Some nd => negb (is_hardlink nd)
                        | None => true
                        end
                    | None => true
                    end) l.

Fixpoint nodup_pathsb (l : list path) : bool :=
  match l with
  | [] => true
  | p :: r => negb (existsb (path_eqb p) r) && nodup_pathsb r
  end.

Definition links_checkb (fs : fstree) : bool :=
  nodup_pathsb (fs_unres fs) && links_primaryb (fs_root fs) (fs_unres fs).

Lemma links_primaryb_sound root l : links_primaryb root l = true -> links_primary root l.
Proof.
  unfold links_primaryb, links_primary. rewrite forallb_forall. intros H p sn nd Hin L1 L2.
  specialize (H p Hin). rewrite L1, L2 in H. apply negb_true_iff in H. exact H.
Qed.

Lemma path_eqb_refl' : forall p, path_eqb p p = true.
Proof. induction p as [|a p IH]; [reflexivity|]. cbn. rewrite str_eqb_refl, IH. reflexivity. Qed.

Lemma nodup_pathsb_sound : forall l, nodup_pathsb l = true -> NoDup l.
Proof.
  induction l as [|p r IH]; intro H; [constructor|]. cbn in H. apply andb_true_iff in H. destruct H as [H1 H2].
  constructor; [|apply IH; exact H2]. intro Hin. apply negb_true_iff in H1.
  assert (E : existsb (path_eqb p) r = true) by (apply existsb_exists; exists p; split; [exact Hin|apply path_eqb_refl']).
  congruence.
Qed.

Lemma post_process_order_free_checked_l fs l' :
  links_checkb fs = true -> Permutation (fs_unres fs) l' ->
  post_process (mkFs (fs_root fs) l') = post_process fs.
Proof.
  intros H P. unfold links_checkb in H. apply andb_true_iff in H. destruct H as [H1 H2].
  destruct fs as [root l]. cbn [fs_root fs_unres] in *. symmetry.
  apply post_process_order_free_l; [exact P|apply nodup_pathsb_sound; exact H1|apply links_primaryb_sound; exact H2].
Qed.

(* ---- the refutation with a prefix ---- *)
(* host directory: p and q two names of one file (ino 8); d/q and d/r two names of another (ino 7).
   scanned into the directory /d of the image (glob /d ...: prefix = [d], target directory created first) *)
Definition lp_p : name := [112].
Definition lp_q : name := [113].
Definition lp_r : name := [114].
Definition lp_d : name := [100].
Definition lp_tree : hnode :=
  HNode [] (st_dir 2)
    [ HNode lp_d (st_dir 3) [HNode lp_q (st_file 7) []; HNode lp_r (st_file 7) []];
      HNode lp_p (st_file 8) [];
      HNode lp_q (st_file 8) [] ].
Definition lp_cfg : scfg :=
  mkCfg false false false true  false false false false
        false false false false false false false
        0 0 0 0%Z [lp_d] None None.
Definition lp_scan : option (fstree * list sent) :=
  match glob_target w_dflt (fs_init w_dflt) [lp_d] with
  | Some fs0 => scan_dir w_fnmatch w_dflt lp_cfg true lp_tree fs0
  | None => None
  end.

Lemma prefix_scan_not_primary_l :
  match lp_scan with
  | Some (fs, _) =>
      fs_unres fs = [[lp_d; lp_q]; [lp_d; lp_d; lp_r]] /\
      ~ links_primary (fs_root fs) (fs_unres fs) /\ links_checkb fs = false
  | None => False
  end.
Proof.
  destruct lp_scan as [[fs s]|] eqn:E; [|vm_compute in E; discriminate].
  vm_compute in E. injection E as <- _.
  split; [reflexivity|]. split; [|vm_compute; reflexivity].
  intro H.
  assert (X := H [lp_d; lp_d; lp_r] _ _ (or_intror (or_introl eq_refl)) eq_refl eq_refl).
  vm_compute in X. discriminate X.
Qed.

(* the check passes on the scan of the F09 witness (a, m, sub/s, z with a and z one inode), both enumerations *)
Lemma witness_scan_checked :
  match scan_dir w_fnmatch w_dflt w_cfg true w_tree (fs_init w_dflt),
        scan_dir w_fnmatch w_dflt w_cfg false w_tree_rev (fs_init w_dflt) with
  | Some (fs, _), Some (fs', _) =>
      links_checkb fs = true /\ fs_unres fs = [[n_z]] /\ links_checkb fs' = true /\ fs_unres fs' = [[n_a]]
  | _, _ => False
  end.
Proof. vm_compute. repeat split; reflexivity. Qed.
