(* ImgScan — the directory scan is a packing run in the sense of ImgPost.Bridge: the fstree it leaves is the result of
   [run_adds] on the entries scan_directory handed to fstree_add_generic, in the order of delivery.  With that the scan
   enters the domain of post_tree_representable / pack_paths_roundtrip: what is read back from the tables of a scanned
   directory are the paths of the scanned tree. *)
From Coq Require Import List NArith ZArith Bool.
From SqfsV Require C03.Common.
From SqfsV Require Import C01.GenC01 C01.Res C01.InodeModel Img.TreeModel.
From SqfsV Require Import C11.StrOrder C11.FstreeModel C11.PostModel C11.ScanModel C11.CanonProofs.
From SqfsV Require Import ImgPost.Bridge ImgPost.InputOk ImgPost.PathsModel ImgPost.PathsProofs ImgPost.RoundTrip.
From SqfsV Require Import ImgScan.PackModel.
Import ListNotations.
Local Open Scope N_scope.

(* the fstree_add_generic calls of a scan, from the stream of entries that reached scan_directory *)
Definition ops_of_stream (l : list sent) : list op :=
  map (fun s => (s_ent s, s_extra s)) (filter s_added l).

Lemma run_adds_app d : forall ops1 ops2 fs,
  run_adds d fs (ops1 ++ ops2) =
  match run_adds d fs ops1 with Some fs' => run_adds d fs' ops2 | None => None end.
Proof.
  induction ops1 as [|[e x] r IH]; intros ops2 fs; [reflexivity|].
  cbn [app run_adds]. destruct (fs_add d fs e x); [apply IH|reflexivity].
Qed.

Lemma ops_of_stream_app l1 l2 : ops_of_stream (l1 ++ l2) = ops_of_stream l1 ++ ops_of_stream l2.
Proof. unfold ops_of_stream. rewrite filter_app, map_app. reflexivity. Qed.

Section Scan.
  Variable fnmatch : list N -> list N -> bool -> bool.
  Variable dflt : fsdefaults.
  Variable cfg : scfg.

  (* what a part of the walk did: it pushed [new] onto the stream and performed the adds among them *)
  Definition extends (st st' : wstate) : Prop :=
    exists new, w_stream st' = new ++ w_stream st /\
                run_adds dflt (w_fs st) (ops_of_stream (rev new)) = Some (w_fs st').

  Lemma extends_refl st : extends st st.
  Proof. exists []. split; reflexivity. Qed.

  Lemma extends_trans a b c : extends a b -> extends b c -> extends a c.
  Proof.
    intros (n1 & S1 & R1) (n2 & S2 & R2). exists (n2 ++ n1). split.
    - rewrite S2, S1, app_assoc. reflexivity.
    - rewrite rev_app_distr, ops_of_stream_app, run_adds_app, R1. exact R2.
  Qed.

  Lemma oiter_extends pdev pp cs :
    Forall (fun n => forall pdev pp st st', walk_node fnmatch dflt cfg pdev pp n st = Some st' -> extends st st') cs ->
    forall st st', oiter (walk_node fnmatch dflt cfg pdev pp) cs st = Some st' -> extends st st'.
  Proof.
    induction 1 as [|c r Hc _ IH]; intros st st' H; cbn [oiter] in H.
    - injection H as <-. apply extends_refl.
    - destruct (walk_node fnmatch dflt cfg pdev pp c st) as [st1|] eqn:E; [|discriminate].
      eapply extends_trans; [eapply Hc; exact E|apply IH; exact H].
  Qed.

  Lemma walk_node_extends : forall n pdev pp st st',
    walk_node fnmatch dflt cfg pdev pp n st = Some st' -> extends st st'.
  Proof.
    induction n as [nm s cs IH] using hnode_ind'. intros pdev pp st st' H. cbn [walk_node] in H.
    destruct (is_dots nm); [injection H as <-; apply extends_refl|].
    destruct (hl_step cfg s (pp ++ [nm]) (w_hl st)) as [[hard tgt] hl1].
    assert (D : forall st1 st2,
               (if enters cfg s then oiter (walk_node fnmatch dflt cfg (h_dev s) (pp ++ [nm])) cs st1 else Some st1) = Some st2 ->
               extends st1 st2).
    { intros st1 st2 E. destruct (enters cfg s); [|injection E as <-; apply extends_refl].
      eapply oiter_extends; [exact IH|exact E]. }
    destruct (classify fnmatch cfg pdev (pp ++ [nm]) s hard tgt) as [| |e extra].
    - injection H as <-. exists []. split; reflexivity.
    - eapply extends_trans; [|apply D; exact H]. exists []. split; reflexivity.
    - destruct (negb (parent_ok (e_path e) (fs_root (w_fs st)))).
      + injection H as <-. exists [mkSent e extra false]. split; reflexivity.
      + destruct (fs_add dflt (w_fs st) e extra) as [fs'|] eqn:A; [|discriminate].
        eapply extends_trans; [|apply D; exact H].
        exists [mkSent e extra true]. split; [reflexivity|]. cbn. rewrite A. reflexivity.
  Qed.

  (* scan_directory = run_adds on the delivered entries that passed the parent test *)
  Lemma scan_is_run_adds_l sorted t fs0 fs stream :
    scan_dir fnmatch dflt cfg sorted t fs0 = Some (fs, stream) ->
    run_adds dflt fs0 (ops_of_stream stream) = Some fs.
  Proof.
    unfold scan_dir, walk_list. set (h := if sorted then canon t else t).
    destruct (oiter _ (hchildren h) (mkW [] fs0 [])) as [st|] eqn:E; [|discriminate].
    intro H. injection H as <- <-.
    assert (X : extends (mkW [] fs0 []) st).
    { eapply oiter_extends; [|exact E]. apply Forall_forall. intros n _. apply walk_node_extends. }
    destruct X as (new & S1 & R1). cbn [w_stream w_fs] in *. rewrite app_nil_r in S1. rewrite S1. exact R1.
  Qed.
End Scan.

(* ---- the scanned directory, serialized, reads back as its paths ---- *)
Section ReadBack.
  Variable compress : list N -> Common.cres.
  Variable uncompress : list N -> option (list N).
  Hypothesis compress_ok :
    forall b c, compress b = Common.CData c -> Common.lenN c <= Common.lenN b /\ uncompress c = Some b.
  Variable limit : N.
  Hypothesis limit_ok : limit <= 65536.

  Lemma scan_image_reads_back_l fnmatch dflt cfg sorted t bs fs stream pp fb xa img :
    scan_dir fnmatch dflt cfg sorted t (fs_init dflt) = Some (fs, stream) ->
    input_okb bs dflt (ops_of_stream stream) = true ->
    post_process fs = POk pp ->
    attached_okb bs fb xa pp = true ->
    serialize_fstree compress limit (to_img fb xa pp) = Ok img ->
    trace_fits img = true ->
    representable bs (to_img fb xa pp) = true /\
    exists lt fl,
      read_tree uncompress bs (si_itbl img) (si_dtbl img) (si_ids img) (length (pp_inodes pp)) (si_root img) = Some lt /\
      denotes fb xa (fs_root fs) fl /\
      flat_lt [] lt = map (number (pp_inodes pp)) fl /\
      (forall x y, In x fl -> In y fl ->
         ino_of (pp_inodes pp) (snd x) = ino_of (pp_inodes pp) (snd y) -> snd x = snd y).
  Proof.
    intros Hs Hin Hp Ha Hser Hfit.
    pose proof (scan_is_run_adds_l fnmatch dflt cfg sorted t (fs_init dflt) fs stream Hs) as Hr.
    split.
    - exact (BridgeProofs.post_tree_representable_l bs dflt _ fs pp fb xa Hin Hr Hp Ha).
    - exact (pack_paths_roundtrip_l compress uncompress compress_ok limit limit_ok bs dflt _ fs pp fb xa img
               Hin Hr Hp Ha Hser Hfit).
  Qed.
End ReadBack.
