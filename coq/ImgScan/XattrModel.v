(* ImgScan — gensquashfs --pack-dir -x/--keep-xattr: apply_xattrs inside the composed packer model.  Definitions only.

   bin/gensquashfs/src/mkfs.c main():   scan_directory; fstree_post_process; apply_xattrs; pack_files; sqfs_writer_finish
   bin/gensquashfs/src/apply_xattr.c                         model
     apply_xattrs: nothing to do unless -x (pack-dir only)   [apply_xattrs]: scan_x = false leaves every xattr_idx at
       (selinux / xattr map file are not modelled)             0xFFFFFFFF and the writer empty
     apply_dfs(n): begin; xattr_from_path(packdir/path(n));  [apply_nodes]: over [xattr_paths pp] = ImgPost.all_paths of the
       end(&n->xattr_idx); if S_ISDIR(n) for (c = children)    POST-PROCESSED, SORTED tree: node first, then its children in
       apply_dfs(c)                                            list order (pre-order) — NOT the order of the scan
     xattr_from_path: llistxattr, then per key lgetxattr     [hx]: host path name -> None (a call failed) or the (key, value)
       and sqfs_xattr_writer_add_kv, in listxattr order        pairs in the order llistxattr reports the keys
     sqfs_xattr_writer_begin / add_kv / end                  C01.XattrModel.xw_set (required, not copied)
   sqfs_writer_finish: sqfs_xattr_writer_flush               ImgXattr.FlushModel.xflush at the offset the file has then
                                                             (Image.FinishProofs.o_xattr of the image without the section,
                                                             as in ImgE2E.PackAll.pack_all)

   The host's xattrs are part of the host state: [hx] is a function of the file NAME below the pack directory.  The order
   of the keys of one file is whatever llistxattr returns (it differs between file systems: tmpfs lists the newest first);
   it is a property of the file, not of the order in which readdir enumerates the directory, and is the same in both runs
   of an order-independence statement.  Two names of one host inode necessarily have the same list; the model does not
   need that. *)
From Coq Require Import List NArith ZArith Bool.
From SqfsV Require Import C01.GenC01 C01.Res C01.InodeModel C01.XattrModel Img.TreeModel.
From SqfsV Require Import C11.StrOrder C11.FstreeModel C11.PostModel C11.ScanModel ImgPost.Bridge ImgPost.PathsModel.
From SqfsV Require C02.BpModel.
From SqfsV Require Image.FinishModel Image.FinishProofs ImgXattr.FlushModel.
From SqfsV Require Import ImgScan.PackModel.
Import ListNotations.
Local Open Scope N_scope.

Definition hostx := list N -> option (list (list N * list N)).

(* the nodes in apply_dfs order (the same list ImgE2E.PackAll.xattr_paths walks) *)
Definition xattr_paths (pp : ppout) : list path := all_paths [] (pp_root pp).

Definition res_unit {A} (r : res A) : res unit :=
  match r with Ok _ => Ok tt | Err e => Err e | Crash => Crash | OutOfFuel => OutOfFuel end.

Inductive xstage :=
| XHostErr (p : path)             (* llistxattr / lgetxattr failed for this node: apply_dfs returns -1 *)
| XWriterErr (r : res unit)       (* sqfs_xattr_writer_add_kv refused a key *)
| XDone (xw : xwr) (idxs : list N).   (* writer state; the index end() stored in each node, in apply_dfs order *)

Fixpoint apply_nodes (hx : hostx) (w : xwr) (ps : list path) : xstage :=
  match ps with
  | [] => XDone w []
  | p :: r =>
    match hx (join_slash p) with
    | None => XHostErr p
    | Some kvs =>
      match xw_set w kvs with
      | Ok (w1, i) =>
        match apply_nodes hx w1 r with
        | XDone w2 is => XDone w2 (i :: is)
        | e => e
        end
      | e => XWriterErr (res_unit e)
      end
    end
  end.

Definition apply_xattrs (scan_x : bool) (hx : hostx) (pp : ppout) : xstage :=
  if scan_x then apply_nodes hx xw_empty (xattr_paths pp) else XDone xw_empty [].

(* n->xattr_idx afterwards (nodes start with 0xFFFFFFFF; same as ImgE2E.PackAll.xa_of) *)
Definition xa_of (paths : list path) (idxs : list N) (p : path) : N :=
  match PostModel.index_of p paths with
  | Some k => nth k idxs NOX
  | None => NOX
  end.

(* what the xattr stage contributes to the image: index per node, and the section sqfs_xattr_writer_flush appends when the
   file is size0 bytes long (key/value blocks, id blocks, id table header and locations; offset of the header) *)
Definition node_indices (pp : ppout) (idxs : list N) : list (path * N) :=
  map (fun p => (p, xa_of (xattr_paths pp) idxs p)) (xattr_paths pp).

Inductive xres :=
| XRScan                                   (* scan or post processing failed *)
| XRStage (e : xstage)                     (* apply_xattrs failed *)
| XRDone (idx : list (path * N)) (xw : xwr).

Definition scan_xattrs (fnmatch : list N -> list N -> bool -> bool) (dflt : fsdefaults) (cfg : scfg)
           (scan_x : bool) (hx : hostx) (sorted : bool) (t : hnode) (fs0 : fstree) : xres :=
  match scan_post fnmatch dflt cfg sorted t fs0 with
  | Some (POk pp) =>
    match apply_xattrs scan_x hx pp with
    | XDone xw idxs => XRDone (node_indices pp idxs) xw
    | e => XRStage e
    end
  | _ => XRScan
  end.

Definition xsection (mcompress : list N -> Common.cres) (size0 : N) (r : xres) : option (res (option (list N * N))) :=
  match r with
  | XRDone _ xw => Some (FlushModel.xflush mcompress size0 xw)
  | _ => None
  end.

Inductive pres_imgx :=
| IXattrHost (p : path)
| IXattrWriter (r : res unit)
| IRest (r : pres_img).

Section PackX.
  Variable fnmatch : list N -> list N -> bool -> bool.
  Variable dflt : fsdefaults.
  Variable cfg : scfg.
  Variable HT : Type.
  Variable ht_search : HT -> BpModel.blk -> option (N * N).
  Variable ht_insert : HT -> BpModel.blk -> N * N -> HT.
  Variable BW : Type.
  Variable bw_write : BW -> BpModel.blk -> BW * N.
  Variable bw_bytes : BW -> list N.
  Variable host_file : list N -> BpModel.file.
  Variable scan_x : bool.                          (* -x / --keep-xattr *)
  Variable hx : hostx.                             (* the host's xattrs per file name *)
  Variable opts : list N.
  Variable mcompress : list N -> Common.cres.
  Variable limit : N.
  Variable wc : FinishModel.wcfg.

  (* sqfs_writer_finish with the xattr writer: the section is flushed at the size the file has after the id table
     ([fin x] = the image written with section x; the offset is taken from the image without a section) *)
  Definition finish_x_gen (fin : option (list N * N) -> res FinishModel.wimage) (xw : xwr) : res FinishModel.wimage :=
    match fin None with
    | Ok w0 =>
      match FlushModel.xflush mcompress (FinishProofs.o_xattr w0) xw with
      | Ok x => fin x
      | Err e => Err e
      | Crash => Crash
      | OutOfFuel => OutOfFuel
      end
    | r => r
    end.

  Definition finish_x (pp : ppout) (xw : xwr) (idxs : list N) (ino : BpModel.itab) (bw : BW) (ftbl : list (N * N))
    : res FinishModel.wimage :=
    finish_x_gen (fun x => finish_image BW bw_bytes (xa_of (xattr_paths pp) idxs) x opts mcompress limit wc pp ino bw ftbl)
                 xw.

  Variable P : Type.
  Variable p_submit : P -> BpModel.blk -> P.
  Variable p_dequeue : P -> option (BpModel.blk * P).

  Definition pack_image_x (sorted : bool) (backlog : N) (p0 : P) (ht0 : HT) (bw0 : BW) (t : hnode) (fs0 : fstree)
    : pres_imgx :=
    match scan_post fnmatch dflt cfg sorted t fs0 with
    | None => IRest IScanErr
    | Some PErr => IRest IPostErr
    | Some PFuel => IRest IPostLoop
    | Some (POk pp) =>
      match apply_xattrs scan_x hx pp with
      | XHostErr p => IXattrHost p
      | XWriterErr r => IXattrWriter r
      | XDone xw idxs =>
        match BpModel.run HT ht_search ht_insert BW bw_write P p_submit p_dequeue
                          (FinishModel.c_block_size wc) (BpModel.clamp_backlog backlog) p0 ht0 bw0
                          (pack_inputs host_file pp) with
        | BpModel.Ok s =>
            IRest (IImage (finish_x pp xw idxs (BpModel.s_ino _ _ _ s) (BpModel.s_bw _ _ _ s) (BpModel.s_ftbl _ _ _ s)))
        | BpModel.Err e => IRest (IDataErr e)
        | BpModel.Crash => IRest IDataCrash
        | BpModel.Fuel => IRest IDataFuel
        end
      end
    end.
End PackX.

Definition image_file_x (r : pres_imgx) : option (list N) :=
  match r with IRest r' => image_file r' | _ => None end.

(* ---- the mutant the tie is aimed at: the writer driven in the order in which the scan delivers the entries (xattrs
   attached from the scan callback) instead of in the order of the sorted tree.  [s_ent] paths of the stream, root first. *)
Definition scan_order_paths (stream : list sent) : list path := [] :: map (fun s => e_path (s_ent s)) stream.

Definition apply_xattrs_scan_order (hx : hostx) (stream : list sent) : xstage :=
  apply_nodes hx xw_empty (scan_order_paths stream).
