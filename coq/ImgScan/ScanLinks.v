(* ImgScan — scan_links_primary: the fstree a directory scan WITHOUT target prefix leaves, started from the empty fstree,
   satisfies the hypotheses of C11.post_process_order_free: links_unresolved has no duplicates and no queued hard link
   points at a hard link.  (With a prefix this is false: LinksCheck.prefix_scan_not_primary_l.)

   Invariant of the walk (state: the (dev, ino) map of the hard link filter and the fstree):
     - no hard link node of the tree sits at a path recorded in the map (those were first seen as non-links),
     - every hard link node's target is a path recorded in the map,
     - every queued path is a hard link node, the queue has no duplicates, recorded paths are clean (canonicalize_name
       leaves them alone).
   It is kept because the pre-order walk never comes back to a path: when a node is visited at path q, no recorded path
   and no hard link node has q as a prefix ([Fresh]), and everything the visit adds has q as a prefix ([Grow]); sibling
   names are pairwise distinct.  Hypotheses on the host tree ([hokb], decidable): names within one directory pairwise
   distinct; every name other than "." and ".." non-empty and without '/' — what POSIX guarantees. *)
From Coq Require Import List NArith ZArith Bool Permutation Lia.
From SqfsV Require Import C11.StrOrder C11.FstreeModel C11.PostModel C11.PostProofs C11.ScanModel C11.TreeProofs.
From SqfsV Require Import ImgPost.TreeInv ImgScan.AddLookup.
Import ListNotations.
Local Open Scope N_scope.

(* ------------------------------------------------------------------ prefixes *)
Definition pfx (q v : path) : Prop := exists r, v = q ++ r.

Lemma pfx_refl q : pfx q q.
Proof. exists []. rewrite app_nil_r. reflexivity. Qed.

Lemma pfx_snoc q x v : pfx (q ++ [x]) v -> pfx q v.
Proof. intros [r ->]. exists (x :: r). rewrite <- app_assoc. reflexivity. Qed.

Lemma pfx_snoc_self q x : ~ pfx (q ++ [x]) q.
Proof.
  intros [r E]. apply (f_equal (@length name)) in E. rewrite !app_length in E. cbn in E. lia.
Qed.

Lemma pfx_snoc_inj q a b v : pfx (q ++ [a]) v -> pfx (q ++ [b]) v -> a = b.
Proof.
  intros [r1 E1] [r2 E2]. rewrite E1 in E2. rewrite <- !app_assoc in E2. apply app_inv_head in E2.
  cbn in E2. congruence.
Qed.

(* ------------------------------------------------------------------ clean names *)
Definition cleancb (c : name) : bool :=
  negb (is_empty c) && negb (existsb (N.eqb slash) c) && negb (is_dot c) && negb (is_dotdot c).
Definition cleanp (v : path) : Prop := Forall (fun c => cleancb c = true) v.

Lemma aux_noslash : forall c cur rest, existsb (N.eqb slash) c = false ->
  split_slash_aux (c ++ rest) cur = split_slash_aux rest (rev c ++ cur).
Proof.
  induction c as [|x c IH]; intros cur rest H; [reflexivity|].
  cbn [existsb] in H. apply orb_false_iff in H. destruct H as [H1 H2].
  cbn [app split_slash_aux]. rewrite N.eqb_sym, H1. rewrite IH by exact H2.
  cbn [rev]. rewrite <- app_assoc. reflexivity.
Qed.

Lemma split_join_clean : forall v, v <> [] -> cleanp v -> split_slash (join_slash v) = v.
Proof.
  unfold split_slash. induction v as [|c r IH]; intros Hn Hc; [congruence|].
  inversion Hc as [|? ? Hc1 Hc2]; subst.
  assert (Ns : existsb (N.eqb slash) c = false).
  { unfold cleancb in Hc1. rewrite !andb_true_iff in Hc1. destruct Hc1 as [[[_ H] _] _]. apply negb_true_iff in H. exact H. }
  destruct r as [|c2 r'].
  - cbn [join_slash]. rewrite <- (app_nil_r c) at 1. rewrite aux_noslash by exact Ns. cbn. rewrite app_nil_r, rev_involutive.
    reflexivity.
  - change (join_slash (c :: c2 :: r')) with (c ++ slash :: join_slash (c2 :: r')).
    rewrite aux_noslash by exact Ns. cbn [split_slash_aux]. rewrite N.eqb_refl, app_nil_r, rev_involutive.
    f_equal. apply IH; [discriminate|exact Hc2].
Qed.

Lemma canon_clean v : cleanp v -> canon_comps (join_slash v) = Some v.
Proof.
  intro Hc. unfold canon_comps. destruct v as [|c r].
  - reflexivity.
  - rewrite split_join_clean by (try discriminate; exact Hc).
    assert (E1 : existsb is_dotdot (c :: r) = false).
    { apply not_true_is_false. intro E. apply existsb_exists in E. destruct E as (x & Hx & Ex).
      unfold cleanp in Hc. rewrite Forall_forall in Hc. specialize (Hc x Hx). unfold cleancb in Hc.
      rewrite !andb_true_iff in Hc. destruct Hc as [_ H]. rewrite Ex in H. discriminate. }
    rewrite E1. f_equal.
    assert (E2 : forall l, cleanp l -> filter (fun c0 => negb (is_empty c0 || is_dot c0)) l = l).
    { induction l as [|x l IHl]; intro Hl; [reflexivity|]. inversion Hl as [|? ? Hx Hl']; subst. cbn [filter].
      unfold cleancb in Hx. rewrite !andb_true_iff in Hx. destruct Hx as [[[A _] B] _].
      apply negb_true_iff in A, B. rewrite A, B. cbn. rewrite IHl by exact Hl'. reflexivity. }
    apply E2. exact Hc.
Qed.

(* ------------------------------------------------------------------ host trees *)
Fixpoint nodup_namesb (l : list name) : bool :=
  match l with
  | [] => true
  | a :: r => negb (existsb (str_eqb a) r) && nodup_namesb r
  end.

Fixpoint hokb (n : hnode) : bool :=
  match n with
  | HNode nm _ cs => (is_dots nm || cleancb nm) && nodup_namesb (map hname cs) && forallb hokb cs
  end.

(* the directory that is scanned: its own name plays no role *)
Definition hok_rootb (n : hnode) : bool :=
  nodup_namesb (map hname (hchildren n)) && forallb hokb (hchildren n).

Lemma nodup_namesb_sound : forall l, nodup_namesb l = true -> NoDup l.
Proof.
  induction l as [|a r IH]; intro H; [constructor|]. cbn in H. apply andb_true_iff in H. destruct H as [H1 H2].
  constructor; [|apply IH; exact H2]. intro Hin. apply negb_true_iff in H1.
  assert (E : existsb (str_eqb a) r = true) by (apply existsb_exists; exists a; split; [exact Hin|apply str_eqb_refl]).
  congruence.
Qed.

Lemma hokb_inv nm s cs : hokb (HNode nm s cs) = true ->
  (is_dots nm = false -> cleancb nm = true) /\ NoDup (map hname cs) /\ Forall (fun c => hokb c = true) cs.
Proof.
  cbn [hokb]. rewrite !andb_true_iff. intros [[A B] C]. split; [|split].
  - intro D. rewrite D in A. exact A.
  - apply nodup_namesb_sound. exact B.
  - apply Forall_forall. rewrite forallb_forall in C. exact C.
Qed.

(* ------------------------------------------------------------------ the invariant *)
Definition hlpaths (hl : list ((N * N) * path)) : list path := map snd hl.

Definition islink (root : tnode) (p : path) (nd : tnode) : Prop :=
  lookup_path p root = Some nd /\ is_hardlink nd = true.

Record Inv (hl : list ((N * N) * path)) (fs : fstree) : Prop := {
  i_notlink : forall p nd, islink (fs_root fs) p nd -> ~ In p (hlpaths hl);
  i_target : forall p nd, islink (fs_root fs) p nd -> In (a_hardtgt (node_attr nd)) (hlpaths hl);
  i_unres : forall p, In p (fs_unres fs) -> exists nd, islink (fs_root fs) p nd;
  i_nodup : NoDup (fs_unres fs);
  i_clean : forall v, In v (hlpaths hl) -> cleanp v }.

Definition Fresh (hl : list ((N * N) * path)) (fs : fstree) (q : path) : Prop :=
  (forall v, In v (hlpaths hl) -> ~ pfx q v) /\ (forall p nd, islink (fs_root fs) p nd -> ~ pfx q p).

Definition Grow (hl : list ((N * N) * path)) (fs : fstree) (hl' : list ((N * N) * path)) (fs' : fstree) (q : path) : Prop :=
  (forall v, In v (hlpaths hl') -> In v (hlpaths hl) \/ pfx q v) /\
  (forall p nd, islink (fs_root fs') p nd -> islink (fs_root fs) p nd \/ pfx q p).

Lemma Grow_refl hl fs q : Grow hl fs hl fs q.
Proof. split; [intros v H; left; exact H|intros p nd H; left; exact H]. Qed.

Lemma Grow_trans hl0 fs0 hl1 fs1 hl2 fs2 q :
  Grow hl0 fs0 hl1 fs1 q -> Grow hl1 fs1 hl2 fs2 q -> Grow hl0 fs0 hl2 fs2 q.
Proof.
  intros [A1 A2] [B1 B2]. split.
  - intros v H. destruct (B1 v H) as [K|K]; [apply A1; exact K|right; exact K].
  - intros p nd H. destruct (B2 p nd H) as [K|K]; [apply A2; exact K|right; exact K].
Qed.

Lemma Grow_weaken hl0 fs0 hl1 fs1 q x : Grow hl0 fs0 hl1 fs1 (q ++ [x]) -> Grow hl0 fs0 hl1 fs1 q.
Proof.
  intros [A1 A2]. split.
  - intros v H. destruct (A1 v H) as [K|K]; [left; exact K|right; eapply pfx_snoc; exact K].
  - intros p nd H. destruct (A2 p nd H) as [K|K]; [left; exact K|right; eapply pfx_snoc; exact K].
Qed.

(* freshness for the entries below a node just visited at q *)
Lemma Fresh_below hl fs hl1 fs1 q x :
  Fresh hl fs q -> Grow hl fs hl1 fs1 q ->
  (forall v, In v (hlpaths hl1) -> In v (hlpaths hl) \/ v = q) ->
  (forall p nd, islink (fs_root fs1) p nd -> islink (fs_root fs) p nd \/ p = q) ->
  Fresh hl1 fs1 (q ++ [x]).
Proof.
  intros [F1 F2] _ H1 H2. split.
  - intros v Hv P. destruct (H1 v Hv) as [K| ->]; [exact (F1 v K (pfx_snoc _ _ _ P))|exact (pfx_snoc_self _ _ P)].
  - intros p nd Hp P. destruct (H2 p nd Hp) as [K| ->]; [exact (F2 p nd K (pfx_snoc _ _ _ P))|exact (pfx_snoc_self _ _ P)].
Qed.

(* freshness for a later sibling *)
Lemma Fresh_sibling hl fs hl1 fs1 pp a b :
  a <> b -> Fresh hl fs (pp ++ [b]) -> Grow hl fs hl1 fs1 (pp ++ [a]) -> Fresh hl1 fs1 (pp ++ [b]).
Proof.
  intros Ne [F1 F2] [G1 G2]. split.
  - intros v Hv P. destruct (G1 v Hv) as [K|K]; [exact (F1 v K P)|]. apply Ne. exact (pfx_snoc_inj _ _ _ _ K P).
  - intros p nd Hp P. destruct (G2 p nd Hp) as [K|K]; [exact (F2 p nd K P)|]. apply Ne. exact (pfx_snoc_inj _ _ _ _ K P).
Qed.

Lemma hl_lookup_in : forall k m p, hl_lookup k m = Some p -> In p (hlpaths m).
Proof.
  induction m as [|[[d i] q] r IH]; intros p H; cbn [hl_lookup] in H; [discriminate|].
  destruct (N.eqb d (fst k) && N.eqb i (snd k)); [injection H as <-; left; reflexivity|right; apply IH; exact H].
Qed.

Section Walk.
  Variable fnmatch : list N -> list N -> bool -> bool.
  Variable dflt : fsdefaults.
  Variable cfg : scfg.
  Hypothesis Hpre : c_prefix cfg = [].

  (* the hard link filter: either nothing is recorded or the path itself, and a link's target is a recorded path *)
  Lemma hl_step_cases s rel hl hard tgt hl1 :
    hl_step cfg s rel hl = (hard, tgt, hl1) ->
    (hard = false /\ (hl1 = hl \/ exists k, hl1 = (k, rel) :: hl)) \/
    (hard = true /\ hl1 = hl /\ In tgt (hlpaths hl)).
  Proof.
    unfold hl_step. destruct (c_nohl cfg || ftype_eqb (h_type s) FDir).
    - intro H. injection H as <- <- <-. left. auto.
    - destruct (hl_lookup (h_dev s, h_ino s) hl) as [t|] eqn:E; intro H; injection H as <- <- <-.
      + right. split; [reflexivity|]. split; [reflexivity|]. eapply hl_lookup_in; eauto.
      + left. split; [reflexivity|]. right. eexists. reflexivity.
  Qed.

  (* recording the path of a node that is not a link *)
  Lemma inv_record hl fs rel hl1 :
    Inv hl fs -> Fresh hl fs rel -> cleanp rel -> (hl1 = hl \/ exists k, hl1 = (k, rel) :: hl) ->
    Inv hl1 fs /\ Grow hl fs hl1 fs rel /\ (forall v, In v (hlpaths hl1) -> In v (hlpaths hl) \/ v = rel).
  Proof.
    intros I [F1 F2] C [->|[k ->]].
    - split; [exact I|]. split; [apply Grow_refl|]. intros v H. left. exact H.
    - split; [|split].
      + constructor.
        * intros p nd Hp [E|Hin]; [cbn in E; subst p; exact (F2 _ _ Hp (pfx_refl _))|exact (i_notlink _ _ I p nd Hp Hin)].
        * intros p nd Hp. right. exact (i_target _ _ I p nd Hp).
        * exact (i_unres _ _ I).
        * exact (i_nodup _ _ I).
        * intros v [E|Hin]; [cbn in E; subst v; exact C|exact (i_clean _ _ I v Hin)].
      + split; [|intros p nd H; left; exact H]. intros v [E|Hin]; [cbn in E; subst v; right; apply pfx_refl|left; exact Hin].
      + intros v [E|Hin]; [right; symmetry; exact E|left; exact Hin].
  Qed.

  (* fstree_add_generic for the entry of the node visited at rel *)
  Lemma inv_add hl fs hl1 rel e extra fs' hard tgt :
    Inv hl fs -> Fresh hl fs rel -> Inv hl1 fs -> (forall v, In v (hlpaths hl1) -> In v (hlpaths hl) \/ v = rel) ->
    (hard = true -> hl1 = hl /\ In tgt (hlpaths hl)) ->
    rel <> [] -> e_path e = rel -> e_hard e = hard -> (hard = true -> extra = Some (join_slash tgt)) ->
    fs_add dflt fs e extra = Some fs' ->
    Inv hl1 fs' /\ (forall p nd, islink (fs_root fs') p nd -> islink (fs_root fs) p nd \/ p = rel).
  Proof.
    intros I [F1 F2] I1 Hsub Hhard Hne Ep Eh Ex A.
    unfold fs_add in A. destruct (add_generic dflt (fs_root fs) e extra) as [r|] eqn:AG; [|discriminate].
    injection A as <-. cbn [fs_root fs_unres].
    unfold add_generic in AG.
    destruct (ftype_eqb (e_type e) FLnk && match extra with None => true | Some _ => false end); [discriminate|].
    rewrite Ep in *. destruct rel as [|c0 r0] eqn:Er; [congruence|]. rewrite <- Er in *. clear Hne.
    assert (AP : add_path dflt rel e extra (fs_root fs) = Some r) by exact AG. clear AG.
    assert (Src : forall p nd, islink r p nd -> islink (fs_root fs) p nd \/ (p = rel /\ hard = true /\ lookup_path rel (fs_root fs) = None)).
    { intros p nd [L Hh]. destruct (add_path_links dflt _ _ _ _ _ AP p nd L Hh) as [K|(K1 & K2 & K3)].
      - left. split; assumption.
      - right. rewrite <- Eh. auto. }
    split.
    - constructor; cbn [fs_root fs_unres].
      + intros p nd Hp Hin. destruct (Src p nd Hp) as [K|(-> & Hh & _)].
        * destruct (Hsub p Hin) as [K1| ->]; [exact (i_notlink _ _ I p nd K K1)|exact (F2 _ _ K (pfx_refl _))].
        * destruct (Hhard Hh) as [-> _]. exact (F1 _ Hin (pfx_refl _)).
      + intros p nd Hp. destruct (Src p nd Hp) as [K|(-> & Hh & Lnone)].
        * exact (i_target _ _ I1 p nd K).
        * destruct (Hhard Hh) as [-> Hin]. destruct Hp as [L _].
          destruct (add_path_new dflt _ _ _ _ _ AP Lnone) as (nd' & L' & MK). rewrite L in L'. injection L' as <-.
          unfold mknode in MK. rewrite Eh, Hh, (Ex Hh), (canon_clean tgt (i_clean _ _ I tgt Hin)) in MK.
          injection MK as <-. cbn [node_attr a_hardtgt]. exact Hin.
      + intros p Hp.
        assert (Old : In p (fs_unres fs) -> exists nd, islink r p nd).
        { intro K. destruct (i_unres _ _ I p K) as (nd & L & Hh). exists nd. split; [|exact Hh].
          exact (add_path_keeps_link dflt _ _ _ _ _ AP p nd L Hh). }
        destruct (e_hard e && is_none (lookup_path rel (fs_root fs))) eqn:Q; [|exact (Old Hp)].
        destruct Hp as [<-|Hp]; [|exact (Old Hp)].
        apply andb_true_iff in Q. destruct Q as [Q1 Q2].
        destruct (lookup_path rel (fs_root fs)) eqn:Ln; [discriminate|].
        destruct (add_path_new dflt _ _ _ _ _ AP Ln) as (nd' & L' & MK). exists nd'. split; [exact L'|].
        rewrite (mknode_hard _ _ _ _ MK). exact Q1.
      + destruct (e_hard e && is_none (lookup_path rel (fs_root fs))); [|exact (i_nodup _ _ I)].
        constructor; [|exact (i_nodup _ _ I)]. intro Hin. destruct (i_unres _ _ I rel Hin) as (nd & K).
        exact (F2 _ _ K (pfx_refl _)).
      + exact (i_clean _ _ I1).
    - intros p nd Hp. destruct (Src p nd Hp) as [K|(K & _)]; [left; exact K|right; exact K].
  Qed.

  Definition wInv (st : wstate) : Prop := Inv (w_hl st) (w_fs st).
  Definition wFresh (st : wstate) (q : path) : Prop := Fresh (w_hl st) (w_fs st) q.
  Definition wGrow (st st' : wstate) (q : path) : Prop := Grow (w_hl st) (w_fs st) (w_hl st') (w_fs st') q.

  Definition node_ok (n : hnode) : Prop :=
    forall pdev pp st st', cleanp pp ->
      walk_node fnmatch dflt cfg pdev pp n st = Some st' -> wInv st -> wFresh st (pp ++ [hname n]) ->
      wInv st' /\ wGrow st st' (pp ++ [hname n]).

  Lemma walk_list_inv pdev rel : forall cs,
    Forall node_ok cs -> NoDup (map hname cs) -> cleanp rel ->
    forall st st', oiter (walk_node fnmatch dflt cfg pdev rel) cs st = Some st' ->
      wInv st -> (forall c, In c cs -> wFresh st (rel ++ [hname c])) ->
      wInv st' /\ wGrow st st' rel.
  Proof.
    induction cs as [|c r IH]; intros Hok Hnd Hcl st st' H I F; cbn [oiter] in H.
    - injection H as <-. split; [exact I|apply Grow_refl].
    - destruct (walk_node fnmatch dflt cfg pdev rel c st) as [st1|] eqn:E; [|discriminate].
      inversion Hok as [|? ? Hc Hr]; subst. cbn [map] in Hnd. inversion Hnd as [|? ? Hn1 Hn2]; subst.
      destruct (Hc pdev rel st st1 Hcl E I (F c (or_introl eq_refl))) as [I1 G1].
      destruct (IH Hr Hn2 Hcl st1 st' H I1) as [I2 G2].
      + intros c' Hc'. apply (Fresh_sibling (w_hl st) (w_fs st) _ _ rel (hname c) (hname c')).
        * intro Eq. apply Hn1. rewrite Eq. apply in_map. exact Hc'.
        * apply F. right. exact Hc'.
        * exact G1.
      + split; [exact I2|]. eapply Grow_trans; [eapply Grow_weaken; exact G1|exact G2].
  Qed.

  Lemma walk_node_inv : forall n, hokb n = true -> node_ok n.
  Proof.
    induction n as [nm s cs IH] using CanonProofs.hnode_ind'. intro Hok.
    destruct (hokb_inv _ _ _ Hok) as (Hclean & Hnd & Hch).
    assert (Kids : Forall node_ok cs).
    { rewrite Forall_forall in *. intros c Hc. apply IH; [exact Hc|apply Hch; exact Hc]. }
    intros pdev pp st st' Hpp H I F. cbn [hname] in F. cbn [walk_node] in H.
    destruct (is_dots nm) eqn:Dots; [injection H as <-; split; [exact I|apply Grow_refl]|].
    set (rel := pp ++ [nm]) in *.
    assert (Crel : cleanp rel).
    { unfold rel, cleanp. apply Forall_app. split; [exact Hpp|constructor; [exact (Hclean eq_refl)|constructor]]. }
    assert (Nrel : rel <> []) by (unfold rel; intro E; apply app_eq_nil in E as [_ E]; discriminate).
    destruct (hl_step cfg s rel (w_hl st)) as [[hard tgt] hl1] eqn:HS.
    pose proof (hl_step_cases _ _ _ _ _ _ HS) as Cases.
    (* the map after the filter *)
    assert (Rec : wInv (mkW hl1 (w_fs st) (w_stream st)) /\ Grow (w_hl st) (w_fs st) hl1 (w_fs st) rel /\
                  (forall v, In v (hlpaths hl1) -> In v (hlpaths (w_hl st)) \/ v = rel)).
    { destruct Cases as [[_ C]|(_ & -> & _)].
      - exact (inv_record _ _ rel hl1 I F Crel C).
      - exact (inv_record _ _ rel _ I F Crel (or_introl eq_refl)). }
    destruct Rec as (I1 & G1 & Sub1).
    (* descending below the node from a state that differs from st by what the visit itself did *)
    assert (Desc : forall st1 st2,
               wInv st1 -> Grow (w_hl st) (w_fs st) (w_hl st1) (w_fs st1) rel ->
               (forall v, In v (hlpaths (w_hl st1)) -> In v (hlpaths (w_hl st)) \/ v = rel) ->
               (forall p nd, islink (fs_root (w_fs st1)) p nd -> islink (fs_root (w_fs st)) p nd \/ p = rel) ->
               (if enters cfg s then oiter (walk_node fnmatch dflt cfg (h_dev s) rel) cs st1 else Some st1) = Some st2 ->
               wInv st2 /\ wGrow st st2 rel).
    { intros st1 st2 J1 Gr S1 S2 E. destruct (enters cfg s).
      - destruct (walk_list_inv (h_dev s) rel cs Kids Hnd Crel st1 st2 E J1) as [J2 G2].
        + intros c _. exact (Fresh_below _ _ _ _ rel (hname c) F Gr S1 S2).
        + split; [exact J2|]. eapply Grow_trans; [exact Gr|exact G2].
      - injection E as <-. split; [exact J1|exact Gr]. }
    destruct (classify fnmatch cfg pdev rel s hard tgt) as [| |e extra] eqn:Cl.
    - injection H as <-. split; [exact I1|exact G1].
    - apply (Desc (mkW hl1 (w_fs st) (w_stream st)) st' I1 G1 Sub1); [|exact H]. intros p nd K. left. exact K.
    - (* delivered: what classify put into the entry *)
      assert (Ee : e_path e = rel /\ e_hard e = hard /\ (hard = true -> extra = Some (join_slash tgt))).
      { unfold classify in Cl.
        destruct ((c_onefs cfg && negb (N.eqb (h_dev s) pdev)) || type_masked cfg (if hard then FLnk else h_type s)); [discriminate|].
        destruct (ftype_eqb (h_type s) FDir && c_no_dir cfg); [discriminate|].
        destruct (negb (pattern_ok fnmatch cfg (c_prefix cfg ++ rel))); [discriminate|].
        injection Cl as <- <-. cbn [e_path e_hard]. rewrite Hpre. split; [reflexivity|]. split; [reflexivity|].
        intros ->. unfold scan_extra. reflexivity. }
      destruct Ee as (Ep & Eh & Ex).
      destruct (negb (parent_ok (e_path e) (fs_root (w_fs st)))).
      + injection H as <-. split; [exact I1|exact G1].
      + destruct (fs_add dflt (w_fs st) e extra) as [fs'|] eqn:A; [|discriminate].
        assert (Hh : hard = true -> hl1 = w_hl st /\ In tgt (hlpaths (w_hl st))).
        { intros ->. destruct Cases as [[C _]|(_ & C1 & C2)]; [discriminate|auto]. }
        destruct (inv_add (w_hl st) (w_fs st) hl1 rel e extra fs' hard tgt I F I1 Sub1 Hh Nrel Ep Eh Ex A) as [I2 S2].
        apply (Desc (mkW hl1 fs' (mkSent e extra true :: w_stream st)) st' I2); [|exact Sub1|exact S2|exact H].
        destruct G1 as [G1a _]. split; [exact G1a|].
        intros p nd K. destruct (S2 p nd K) as [K'| ->]; [left; exact K'|right; apply pfx_refl].
  Qed.
End Walk.

(* ------------------------------------------------------------------ the theorem *)
Lemma init_inv d : Inv [] (fs_init d).
Proof.
  assert (No : forall p nd, ~ islink (fs_root (fs_init d)) p nd).
  { intros p nd [L Hh]. unfold fs_init in L. cbn [fs_root] in L. destruct p as [|c q].
    - cbn in L. injection L as <-. unfold is_hardlink in Hh. cbn in Hh. discriminate.
    - cbn in L. discriminate. }
  constructor.
  - intros p nd K. exfalso. exact (No p nd K).
  - intros p nd K. exfalso. exact (No p nd K).
  - intros p [].
  - constructor.
  - intros v [].
Qed.

Lemma inv_links_primary hl fs : Inv hl fs -> NoDup (fs_unres fs) /\ links_primary (fs_root fs) (fs_unres fs).
Proof.
  intro I. split; [exact (i_nodup _ _ I)|]. intros p sn nd Hin L1 L2.
  destruct (i_unres _ _ I p Hin) as (nd0 & L0 & Hh). rewrite L1 in L0. injection L0 as <-.
  destruct (is_hardlink nd) eqn:E; [|reflexivity]. exfalso.
  exact (i_notlink _ _ I _ nd (conj L2 E) (i_target _ _ I p sn (conj L1 Hh))).
Qed.

Lemma scan_links_primary_l fnmatch dflt cfg (sorted : bool) (t : hnode) fs stream :
  c_prefix cfg = [] -> hok_rootb (if sorted then canon t else t) = true ->
  scan_dir fnmatch dflt cfg sorted t (fs_init dflt) = Some (fs, stream) ->
  NoDup (fs_unres fs) /\ links_primary (fs_root fs) (fs_unres fs).
Proof.
  intros Hpre Hok H. unfold scan_dir, walk_list in H. set (h := if sorted then canon t else t) in *.
  destruct (oiter _ (hchildren h) (mkW [] (fs_init dflt) [])) as [st|] eqn:E; [|discriminate].
  injection H as <- _. destruct h as [nm s cs]. cbn [hchildren hstat_of] in E.
  unfold hok_rootb in Hok. cbn [hchildren] in Hok. apply andb_true_iff in Hok. destruct Hok as [Hnd Hch].
  apply nodup_namesb_sound in Hnd.
  assert (Hch' : Forall (fun c => hokb c = true) cs) by (apply Forall_forall; rewrite forallb_forall in Hch; exact Hch).
  clear Hch. rename Hch' into Hch.
  assert (Kids : Forall (node_ok fnmatch dflt cfg) cs).
  { rewrite Forall_forall in *. intros c Hc. apply walk_node_inv; [exact Hpre|apply Hch; exact Hc]. }
  destruct (walk_list_inv fnmatch dflt cfg (h_dev s) [] cs Kids Hnd (Forall_nil _) _ st E) as [I _].
  - exact (init_inv dflt).
  - intros c _. split; [intros v []|]. intros p nd [L Hh] _. unfold fs_init in L. cbn [w_fs fs_root] in L.
    destruct p as [|c0 q]; cbn in L; [injection L as <-; unfold is_hardlink in Hh; cbn in Hh; discriminate|discriminate].
  - exact (inv_links_primary _ _ I).
Qed.

(* post_process_order_free composed with the scan *)
Lemma scan_post_process_order_free_l fnmatch dflt cfg (sorted : bool) (t : hnode) fs stream l' :
  c_prefix cfg = [] -> hok_rootb (if sorted then canon t else t) = true ->
  scan_dir fnmatch dflt cfg sorted t (fs_init dflt) = Some (fs, stream) ->
  Permutation (fs_unres fs) l' ->
  post_process (mkFs (fs_root fs) l') = post_process fs.
Proof.
  intros Hpre Hok H P. destruct (scan_links_primary_l fnmatch dflt cfg sorted t fs stream Hpre Hok H) as [N L].
  destruct fs as [root l]. cbn [fs_root fs_unres] in *. symmetry. apply post_process_order_free_l; assumption.
Qed.
