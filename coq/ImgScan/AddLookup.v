(* ImgScan — what fstree_add_generic does to the nodes an earlier add created, as far as hard links are concerned:
   a hard link node stays where it is (add_path_keeps_link), and the node a successful add at a free path leaves at that
   path is the one mknode built (add_path_new).  Complements ImgPost.TreeInv.add_path_links. *)
From Coq Require Import List NArith ZArith Bool.
From SqfsV Require Import C11.StrOrder C11.FstreeModel C11.PostModel C11.TreeProofs ImgPost.TreeInv.
Import ListNotations.
Local Open Scope N_scope.

Lemma add_path_name d : forall comps e x n n',
  add_path d comps e x n = Some n' -> node_name n' = node_name n /\ is_dir n' = true /\ is_dir n = true.
Proof.
  intros comps e x [nm a ch] n' H. destruct comps as [|c rest]; cbn [add_path] in H.
  - destruct (negb (ftype_eqb (a_type a) FDir)); discriminate.
  - destruct (negb (ftype_eqb (a_type a) FDir)) eqn:D; [discriminate|]. apply negb_false_iff in D.
    destruct rest; destruct (find_child c ch);
      repeat match type of H with
             | match ?X with _ => _ end = _ => destruct X; try discriminate
             end; injection H as <-; repeat split; unfold is_dir; cbn; exact D.
Qed.

Lemma fill_dir_shape y e y' : fill_dir y e = Some y' ->
  node_name y' = node_name y /\ node_children y' = node_children y /\ is_dir y' = true /\ is_dir y = true.
Proof.
  destruct y as [nm a ch]. unfold fill_dir.
  destruct (ftype_eqb (a_type a) FDir && ftype_eqb (e_type e) FDir && a_implicit a) eqn:G; [|discriminate].
  intro H. injection H as <-. rewrite !andb_true_iff in G. destruct G as [[G1 _] _].
  repeat split; unfold is_dir; cbn; try reflexivity; exact G1.
Qed.

(* looking up below two directories with the same children *)
Lemma lookup_same_children q y y' : node_children y' = node_children y -> is_dir y' = is_dir y -> q <> [] ->
  lookup_path q y' = lookup_path q y.
Proof.
  intros Hc Hd Hq. destruct q as [|c q]; [congruence|]. cbn [lookup_path]. rewrite Hc, Hd. reflexivity.
Qed.

Lemma hardlink_not_dir nd : is_hardlink nd = true -> is_dir nd = false.
Proof. apply is_hardlink_not_dir. Qed.

Lemma mknode_shape c e x y : mknode c e x = Some y -> node_name y = c /\ node_children y = [].
Proof.
  unfold mknode. destruct (if e_hard e then match x with Some x0 => canon_comps x0 | None => None end else Some []); [|discriminate].
  intro H. injection H as <-. split; reflexivity.
Qed.

(* a hard link node is not touched by an add *)
Lemma add_path_keeps_link d : forall comps e x n n',
  add_path d comps e x n = Some n' ->
  forall q nd, lookup_path q n = Some nd -> is_hardlink nd = true -> lookup_path q n' = Some nd.
Proof.
  induction comps as [|c rest IH]; intros e x n n' H q nd L Hh; destruct n as [nm a ch]; cbn [add_path] in H.
  - destruct (negb (ftype_eqb (a_type a) FDir)); discriminate.
  - destruct (negb (ftype_eqb (a_type a) FDir)) eqn:D; [discriminate|].
    destruct q as [|c' q'].
    { cbn in L. injection L as <-. apply hardlink_not_dir in Hh. unfold is_dir in Hh. cbn in Hh.
      apply negb_false_iff in D. congruence. }
    rewrite lookup_cons, D in L.
    destruct (find_child c' ch) as [z|] eqn:Fz; [|discriminate].
    destruct rest as [|c2 rest'].
    + destruct (find_child c ch) as [y|] eqn:F.
      * destruct (fill_dir y e) as [y'|] eqn:FD; [|discriminate]. injection H as <-.
        destruct (fill_dir_shape _ _ _ FD) as (N1 & C1 & D1 & D0).
        rewrite lookup_cons, D.
        destruct (list_eq_dec N.eq_dec c' c) as [->|Ne].
        -- rewrite F in Fz. injection Fz as <-.
           rewrite (find_child_replace_same c y' ch y F); [|rewrite N1; exact (find_child_name _ _ _ F)].
           destruct q' as [|c3 q3].
           ++ cbn in L. injection L as <-. apply hardlink_not_dir in Hh. congruence.
           ++ rewrite (lookup_same_children (c3 :: q3) y y' C1); [exact L|congruence|discriminate].
        -- rewrite (find_child_replace_other c' c y' ch Ne); [rewrite Fz; exact L|].
           rewrite N1. exact (find_child_name _ _ _ F).
      * destruct (mknode c e x) as [y|] eqn:MK; [|discriminate]. injection H as <-.
        destruct (mknode_shape _ _ _ _ MK) as [Ny _].
        rewrite lookup_cons. cbn [inc_links a_type]. rewrite D.
        destruct (list_eq_dec N.eq_dec c' c) as [->|Ne]; [congruence|].
        rewrite (find_child_insert_other c' y ch) by congruence. rewrite Fz. exact L.
    + destruct (find_child c ch) as [y|] eqn:F.
      * destruct (add_path d (c2 :: rest') e x y) as [y'|] eqn:AP; [|discriminate]. injection H as <-.
        destruct (add_path_name d _ _ _ _ _ AP) as (N1 & _ & _).
        rewrite lookup_cons, D.
        destruct (list_eq_dec N.eq_dec c' c) as [->|Ne].
        -- rewrite F in Fz. injection Fz as <-.
           rewrite (find_child_replace_same c y' ch y F); [|rewrite N1; exact (find_child_name _ _ _ F)].
           exact (IH e x y y' AP q' nd L Hh).
        -- rewrite (find_child_replace_other c' c y' ch Ne); [rewrite Fz; exact L|].
           rewrite N1. exact (find_child_name _ _ _ F).
      * destruct (add_path d (c2 :: rest') e x (implicit_dir d c)) as [y'|] eqn:AP; [|discriminate]. injection H as <-.
        destruct (add_path_name d _ _ _ _ _ AP) as (N1 & _ & _). cbn [implicit_dir node_name] in N1.
        rewrite lookup_cons. cbn [inc_links a_type]. rewrite D.
        destruct (list_eq_dec N.eq_dec c' c) as [->|Ne]; [congruence|].
        rewrite (find_child_insert_other c' y' ch) by congruence. rewrite Fz. exact L.
Qed.

(* the node a successful add leaves at a path that was free *)
Lemma add_path_new d : forall comps e x n n',
  add_path d comps e x n = Some n' -> lookup_path comps n = None ->
  exists nd, lookup_path comps n' = Some nd /\ mknode (last comps []) e x = Some nd.
Proof.
  induction comps as [|c rest IH]; intros e x n n' H L; destruct n as [nm a ch]; cbn [add_path] in H.
  - destruct (negb (ftype_eqb (a_type a) FDir)); discriminate.
  - destruct (negb (ftype_eqb (a_type a) FDir)) eqn:D; [discriminate|].
    rewrite lookup_cons, D in L.
    destruct rest as [|c2 rest'].
    + destruct (find_child c ch) as [y|] eqn:F; [cbn in L; discriminate|].
      destruct (mknode c e x) as [y|] eqn:MK; [|discriminate]. injection H as <-.
      destruct (mknode_shape _ _ _ _ MK) as [Ny _].
      exists y. split; [|exact MK].
      rewrite lookup_cons. cbn [inc_links a_type]. rewrite D, (find_child_insert_same c y ch Ny F). reflexivity.
    + change (last (c :: c2 :: rest') []) with (last (c2 :: rest') []).
      destruct (find_child c ch) as [y|] eqn:F.
      * destruct (add_path d (c2 :: rest') e x y) as [y'|] eqn:AP; [|discriminate]. injection H as <-.
        destruct (add_path_name d _ _ _ _ _ AP) as (N1 & _ & _).
        destruct (IH e x y y' AP L) as (nd & L' & MK). exists nd. split; [|exact MK].
        rewrite lookup_cons, D.
        rewrite (find_child_replace_same c y' ch y F); [exact L'|rewrite N1; exact (find_child_name _ _ _ F)].
      * destruct (add_path d (c2 :: rest') e x (implicit_dir d c)) as [y'|] eqn:AP; [|discriminate]. injection H as <-.
        destruct (add_path_name d _ _ _ _ _ AP) as (N1 & _ & _). cbn [implicit_dir node_name] in N1.
        assert (L0 : lookup_path (c2 :: rest') (implicit_dir d c) = None) by reflexivity.
        destruct (IH e x _ y' AP L0) as (nd & L' & MK). exists nd. split; [|exact MK].
        rewrite lookup_cons. cbn [inc_links a_type]. rewrite D, (find_child_insert_same c y' ch N1 F). exact L'.
Qed.
