(* ImgScan — the xattr stage of gensquashfs --pack-dir -x is independent of the enumeration order, and with it the image.
   apply_xattrs walks the post-processed, sorted tree; that tree is the same for every two enumeration orders (C11), the
   host's xattr lists are a function of the file; hence the writer sees the same calls in the same order. *)
From Coq Require Import List NArith ZArith Bool Permutation.
From SqfsV Require Import C01.GenC01 C01.Res C01.InodeModel C01.XattrModel Img.TreeModel.
From SqfsV Require Import C11.StrOrder C11.FstreeModel C11.PostModel C11.ScanModel C11.CanonProofs C11.ScanProofs
  ImgPost.Bridge ImgPost.PathsModel.
From SqfsV Require C02.BpModel C02.BpSpec C02.BpProofs.
From SqfsV Require Image.FinishModel Image.FinishProofs ImgXattr.FlushModel.
From SqfsV Require Import ImgScan.PackModel ImgScan.PackProofs ImgScan.XattrModel.
Import ListNotations.
Local Open Scope N_scope.

(* ---- apply_dfs over the node list IS C01's xw_sets on the host's lists (when no host call fails) ---- *)
Definition host_set (hx : hostx) (p : path) : list (list N * list N) :=
  match hx (join_slash p) with Some l => l | None => [] end.

Lemma apply_nodes_is_xw_sets hx ps : forall w,
  Forall (fun p => hx (join_slash p) <> None) ps ->
  apply_nodes hx w ps =
  match xw_sets w (map (host_set hx) ps) with
  | Ok (w', is) => XDone w' is
  | e => XWriterErr (res_unit e)
  end.
Proof.
  induction ps as [|p r IH]; intros w H; [reflexivity|].
  inversion H as [|? ? Hp Hr]; subst. cbn [apply_nodes map xw_sets]. unfold host_set at 1.
  destruct (hx (join_slash p)) as [kvs|]; [|congruence].
  destruct (xw_set w kvs) as [[w1 i]|e| |]; cbn [bind]; try reflexivity.
  rewrite (IH w1 Hr). destruct (xw_sets w1 (map (host_set hx) r)) as [[w2 is]|e| |]; reflexivity.
Qed.

(* ---- per-node indices and the writer state (hence the section, wherever it is flushed) ---- *)
Lemma scan_xattrs_order_free_l fnmatch dflt cfg scan_x hx sorted t t' fs0 :
  hwf t -> hperm t t' -> order_free_case sorted cfg t ->
  scan_xattrs fnmatch dflt cfg scan_x hx sorted t fs0 = scan_xattrs fnmatch dflt cfg scan_x hx sorted t' fs0.
Proof.
  intros Hw Hp Hc. unfold scan_xattrs. rewrite (scan_post_order_free fnmatch dflt cfg sorted t t' fs0 Hw Hp Hc).
  reflexivity.
Qed.

Lemma xsection_order_free_l fnmatch dflt cfg scan_x hx mcompress size0 sorted t t' fs0 :
  hwf t -> hperm t t' -> order_free_case sorted cfg t ->
  xsection mcompress size0 (scan_xattrs fnmatch dflt cfg scan_x hx sorted t fs0) =
  xsection mcompress size0 (scan_xattrs fnmatch dflt cfg scan_x hx sorted t' fs0).
Proof. intros. f_equal. apply scan_xattrs_order_free_l; assumption. Qed.

(* ---- the whole image ---- *)
Section ImageX.
  Variable fnmatch : list N -> list N -> bool -> bool.
  Variable dflt : fsdefaults.
  Variable cfg : scfg.
  Variable hash : list N -> N.
  Variable dcompress : list N -> option (list N).
  Variable HT : Type.
  Variable ht_search : HT -> BpModel.blk -> option (N * N).
  Variable ht_insert : HT -> BpModel.blk -> N * N -> HT.
  Variable BW : Type.
  Variable bw_write : BW -> BpModel.blk -> BW * N.
  Variable bw_bytes : BW -> list N.
  Variable host_file : list N -> BpModel.file.
  Variable scan_x : bool.
  Variable hx : hostx.
  Variable opts : list N.
  Variable mcompress : list N -> Common.cres.
  Variable limit : N.
  Variable wc : FinishModel.wcfg.

  Notation packx P sub deq :=
    (pack_image_x fnmatch dflt cfg HT ht_search ht_insert BW bw_write bw_bytes host_file scan_x hx opts mcompress limit wc
                  P sub deq).
  Notation finx := (finish_x BW bw_bytes opts mcompress limit wc).

  Lemma finish_image_ext xa x pp ino ino' bw ftbl :
    (forall k, ino k = ino' k) ->
    finish_image BW bw_bytes xa x opts mcompress limit wc pp ino bw ftbl =
    finish_image BW bw_bytes xa x opts mcompress limit wc pp ino' bw ftbl.
  Proof.
    intro E. unfold finish_image.
    rewrite (to_img_ext _ _ xa pp (fun p => fb_of_ext ino ino' (pp_files pp) p E)). reflexivity.
  Qed.

  Lemma finish_x_gen_ext f g xw : (forall x, f x = g x) -> finish_x_gen mcompress f xw = finish_x_gen mcompress g xw.
  Proof.
    intro E. unfold finish_x_gen. rewrite (E None). destruct (g None) as [w0|e| |]; try reflexivity.
    destruct (FlushModel.xflush mcompress (FinishProofs.o_xattr w0) xw); try reflexivity. apply E.
  Qed.

  Lemma finish_x_gen_ok f xw w0 x :
    f None = Ok w0 -> FlushModel.xflush mcompress (FinishProofs.o_xattr w0) xw = Ok x -> finish_x_gen mcompress f xw = f x.
  Proof. intros E1 E2. unfold finish_x_gen. rewrite E1, E2. reflexivity. Qed.

  Lemma finish_x_ext pp xw idxs ino ino' bw ftbl :
    (forall k, ino k = ino' k) -> finx pp xw idxs ino bw ftbl = finx pp xw idxs ino' bw ftbl.
  Proof. intro E. unfold finish_x. apply finish_x_gen_ext. intro x. apply finish_image_ext. exact E. Qed.

  (* the one function of the post-processed tree every run computes *)
  Definition image_spec_x (ht0 : HT) (bw0 : BW) (pp : ppout) : pres_imgx :=
    match apply_xattrs scan_x hx pp with
    | XHostErr p => IXattrHost p
    | XWriterErr r => IXattrWriter r
    | XDone xw idxs =>
      let bs := FinishModel.c_block_size wc in
      let files := pack_inputs host_file pp in
      IRest (IImage (finx pp xw idxs
        (BpSpec.spec_inodes hash dcompress HT ht_search ht_insert BW bw_write bs ht0 bw0 files)
        (fst (BpSpec.bw_run BW bw_write bw0 [] (BpSpec.spec_blocks hash dcompress HT ht_search ht_insert bs ht0 files)))
        (BpSpec.spec_ftbl hash dcompress HT ht_search ht_insert BW bw_write bs ht0 bw0 files)))
    end.

  Lemma pack_image_x_is_spec P sub deq alpha sorted q p0 ht0 bw0 t fs0 :
    fifo_laws hash dcompress P sub deq alpha -> alpha p0 = [] ->
    0 < FinishModel.c_block_size wc -> (forall nm, BpProofs.file_ok (host_file nm)) ->
    packx P sub deq sorted q p0 ht0 bw0 t fs0 =
    match scan_post fnmatch dflt cfg sorted t fs0 with
    | None => IRest IScanErr
    | Some PErr => IRest IPostErr
    | Some PFuel => IRest IPostLoop
    | Some (POk pp) => image_spec_x ht0 bw0 pp
    end.
  Proof.
    intros [L1 L2] Hp0 Hbs Hf. unfold pack_image_x.
    destruct (scan_post fnmatch dflt cfg sorted t fs0) as [[pp| |]|]; try reflexivity.
    unfold image_spec_x. destruct (apply_xattrs scan_x hx pp) as [p|r|xw idxs]; try reflexivity.
    assert (Hfiles : Forall BpProofs.file_ok (pack_inputs host_file pp)).
    { unfold pack_inputs. apply Forall_forall. intros f Hin. apply in_map_iff in Hin. destruct Hin as (nm & <- & _).
      apply Hf. }
    destruct (BpProofs.run_refines_spec_full hash dcompress HT ht_search ht_insert BW bw_write P sub deq
                (FinishModel.c_block_size wc) (BpModel.clamp_backlog q) bw0 alpha L1 L2 (BpProofs.clamp_ge3 q)
                p0 ht0 (pack_inputs host_file pp) Hp0 Hbs Hfiles) as (s & R & Ew & _ & Ei & Ef).
    rewrite R. do 2 f_equal. cbn zeta. rewrite <- Ew, Ef. cbn [fst]. apply finish_x_ext. exact Ei.
  Qed.

  Lemma pack_image_x_order_free_l P1 sub1 deq1 alpha1 P2 sub2 deq2 alpha2 sorted q1 q2 p1 p2 ht0 bw0 t t' fs0 :
    fifo_laws hash dcompress P1 sub1 deq1 alpha1 -> alpha1 p1 = [] ->
    fifo_laws hash dcompress P2 sub2 deq2 alpha2 -> alpha2 p2 = [] ->
    0 < FinishModel.c_block_size wc -> (forall nm, BpProofs.file_ok (host_file nm)) ->
    hwf t -> hperm t t' -> order_free_case sorted cfg t ->
    packx P1 sub1 deq1 sorted q1 p1 ht0 bw0 t fs0 = packx P2 sub2 deq2 sorted q2 p2 ht0 bw0 t' fs0.
  Proof.
    intros F1 E1 F2 E2 Hbs Hf Hw Hp Hc.
    rewrite (pack_image_x_is_spec P1 sub1 deq1 alpha1 sorted q1 p1 ht0 bw0 t fs0 F1 E1 Hbs Hf).
    rewrite (pack_image_x_is_spec P2 sub2 deq2 alpha2 sorted q2 p2 ht0 bw0 t' fs0 F2 E2 Hbs Hf).
    rewrite (scan_post_order_free fnmatch dflt cfg sorted t t' fs0 Hw Hp Hc). reflexivity.
  Qed.

  Lemma image_file_x_order_free_l P1 sub1 deq1 alpha1 P2 sub2 deq2 alpha2 sorted q1 q2 p1 p2 ht0 bw0 t t' fs0 :
    fifo_laws hash dcompress P1 sub1 deq1 alpha1 -> alpha1 p1 = [] ->
    fifo_laws hash dcompress P2 sub2 deq2 alpha2 -> alpha2 p2 = [] ->
    0 < FinishModel.c_block_size wc -> (forall nm, BpProofs.file_ok (host_file nm)) ->
    hwf t -> hperm t t' -> order_free_case sorted cfg t ->
    image_file_x (packx P1 sub1 deq1 sorted q1 p1 ht0 bw0 t fs0) =
    image_file_x (packx P2 sub2 deq2 sorted q2 p2 ht0 bw0 t' fs0).
  Proof. intros. f_equal. eapply pack_image_x_order_free_l; eassumption. Qed.

  (* the new model is the old one with its two parameters computed: whenever the xattr stage and the flush succeed, the
     run is [pack_image] with xa := the indices apply_xattrs stored and xsec := the section flushed at the final offset *)
  Lemma pack_image_x_is_pack_image P sub deq sorted q p0 ht0 bw0 t fs0 pp xw idxs :
    scan_post fnmatch dflt cfg sorted t fs0 = Some (POk pp) ->
    apply_xattrs scan_x hx pp = XDone xw idxs ->
    forall x,
    (forall ino bw ftbl, exists w0,
       finish_image BW bw_bytes (xa_of (xattr_paths pp) idxs) None opts mcompress limit wc pp ino bw ftbl = Ok w0 /\
       FlushModel.xflush mcompress (FinishProofs.o_xattr w0) xw = Ok x) ->
    packx P sub deq sorted q p0 ht0 bw0 t fs0 =
    IRest (pack_image fnmatch dflt cfg HT ht_search ht_insert BW bw_write bw_bytes host_file
                      (xa_of (xattr_paths pp) idxs) x opts mcompress limit wc P sub deq sorted q p0 ht0 bw0 t fs0).
  Proof.
    intros Es Ea x Hx. unfold pack_image_x, pack_image. rewrite Es, Ea.
    destruct (BpModel.run HT ht_search ht_insert BW bw_write P sub deq (FinishModel.c_block_size wc)
                          (BpModel.clamp_backlog q) p0 ht0 bw0 (pack_inputs host_file pp)) as [s|e| |]; try reflexivity.
    do 2 f_equal. unfold finish_x.
    destruct (Hx (BpModel.s_ino _ _ _ s) (BpModel.s_bw _ _ _ s) (BpModel.s_ftbl _ _ _ s)) as (w0 & E1 & E2).
    exact (finish_x_gen_ok _ xw w0 x E1 E2).
  Qed.
End ImageX.
