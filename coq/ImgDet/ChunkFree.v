(* ImgDet — the cut of a file's bytes into append calls is irrelevant.

   sqfs_istream_splice hands the block processor whatever the input stream has buffered, at most block_size bytes per
   call: the pieces depend on the buffer state of the stream stack (and would depend on how the operating system delivered
   a pipe if a stream handed short reads on; lib/sqfs/src/io/istream.c refills its buffer until it is full).  Here:
   everything the in-order specification of C02 (BpSpec: spec_blocks, spec_inodes, spec_ftbl — what every run of the
   block processor computes) says about a list of files depends on the flag word and the CONCATENATION of the chunks
   of each file only.

   Proof.  [feed]: appending byte by byte, a block submitted the moment it is full — a fold over the bytes, hence
   compositional in the data ([feed_app]).  frontend.c's append loop copies min(room, rest) bytes at a time and submits
   a full block lazily (at the next iteration, or after the loop); [loop_feed] relates the two through [norm0], the
   eager form of a state.  So sqfs_block_processor_append is [feed] on (state, submitted blocks) ([append_feed]), a
   sequence of appends is [feed] of the concatenation ([appends_feed]); begin_file / end_file read the flag word and the
   state only.  The sizes (EvSize) are covered by BpProofs.fe_files_sz. *)
From Coq Require Import List NArith ZArith Bool Lia.
From SqfsV Require Import C02.GenBlk C02.BpModel C02.BpSpec C02.BpLemmas C02.BpProofs.
Import ListNotations.
Local Open Scope N_scope.

(* two descriptions of the same files: same flag words, same bytes, cut differently *)
Definition same_bytes (a b : file) : Prop := fst a = fst b /\ concat (snd a) = concat (snd b).

Section Feed.
Variable bs : N.
Hypothesis Hbs : 0 < bs.

Definition fresh_blk (f : fe) : blk := mkB (fe_ino f) 0 (fe_flags f) 0 (fe_index f) [].

(* get_new_block for blk_current *)
Definition new_cur (f : fe) : fe :=
  mkFe (fe_begin f) (fe_ino f) (setf FIRST false (fe_flags f)) (fe_index f + 1) (Some (fresh_blk f)).

Definition put (f : fe) (cur : blk) (x : N) : fe * list blk :=
  let c' := with_data cur (b_data cur ++ [x]) in
  if bs - len (b_data c') =? 0 then (fe_with_cur f None, [c']) else (fe_with_cur f (Some c'), []).

Definition feed1 (f : fe) (x : N) : fe * list blk :=
  match fe_cur f with
  | Some cur => put f cur x
  | None => put (new_cur f) (fresh_blk f) x
  end.

Fixpoint feed (f : fe) (data : list N) : fe * list blk :=
  match data with
  | [] => (f, [])
  | x :: r => let (g, b1) := feed1 f x in let (g', b2) := feed g r in (g', b1 ++ b2)
  end.

Lemma feed_cons f x r :
  feed f (x :: r) = let (g, b1) := feed1 f x in let (g', b2) := feed g r in (g', b1 ++ b2).
Proof. reflexivity. Qed.

Lemma feed_app a : forall f b,
  feed f (a ++ b) = let (g, b1) := feed f a in let (g', b2) := feed g b in (g', b1 ++ b2).
Proof.
  induction a as [|x a IH]; intros f b; cbn [app feed].
  - destruct (feed f b). reflexivity.
  - destruct (feed1 f x) as [g b1]. rewrite IH. destruct (feed g a) as [g1 b2]. destruct (feed g1 b) as [g2 b3].
    rewrite app_assoc. reflexivity.
Qed.

(* the eager form of a state: a full current block is submitted *)
Definition norm0 (f : fe) : fe * list blk :=
  match fe_cur f with
  | Some cur => if bs - len (b_data cur) =? 0 then (fe_with_cur f None, [cur]) else (f, [])
  | None => (f, [])
  end.

Definition cur_le (f : fe) : Prop := forall cur, fe_cur f = Some cur -> len (b_data cur) <= bs.
Definition cur_lt (f : fe) : Prop := forall cur, fe_cur f = Some cur -> len (b_data cur) < bs.

Lemma norm0_lt f : cur_lt f -> norm0 f = (f, []).
Proof.
  intro H. unfold norm0. destruct (fe_cur f) as [cur|] eqn:E; [|reflexivity].
  specialize (H cur E). assert (T : bs - len (b_data cur) =? 0 = false) by (apply N.eqb_neq; lia).
  rewrite T. reflexivity.
Qed.

(* copying a piece that fits into the current block = feeding its bytes *)
Lemma feed_bulk : forall l x f cur,
  fe_cur f = Some cur -> len (b_data cur) + 1 + len l <= bs ->
  feed f (x :: l) = norm0 (fe_with_cur f (Some (with_data cur (b_data cur ++ x :: l)))).
Proof.
  induction l as [|y l IH]; intros x f cur Ec Hl.
  - cbn [feed]. unfold feed1. rewrite Ec. unfold put, norm0. cbn [fe_with_cur fe_cur with_data b_data].
    destruct (bs - len (b_data cur ++ [x]) =? 0); rewrite ?app_nil_r; reflexivity.
  - rewrite feed_cons. unfold feed1. rewrite Ec. unfold put.
    assert (T : bs - len (b_data (with_data cur (b_data cur ++ [x]))) =? 0 = false).
    { apply N.eqb_neq. cbn [with_data b_data]. rewrite len_app, !len_cons in *. rewrite len_nil. lia. }
    rewrite T.
    set (c' := with_data cur (b_data cur ++ [x])). set (f1 := fe_with_cur f (Some c')).
    rewrite (IH y f1 c' eq_refl).
    + unfold f1, c'. cbn [fe_with_cur with_data b_data b_ino b_seq b_fl b_ck b_idx fe_begin fe_ino fe_flags fe_index].
      rewrite <- app_assoc. cbn [app].
      destruct (norm0 _) as [g b2]. reflexivity.
    + unfold c'. cbn [with_data b_data]. rewrite len_app, !len_cons in *. rewrite len_nil. lia.
Qed.

Lemma len_firstn {A} (l : list A) n : (n <= length l)%nat -> len (firstn n l) = N.of_nat n.
Proof. intro H. unfold len. rewrite firstn_length. f_equal. lia. Qed.

(* the while loop of sqfs_block_processor_append against [feed] *)
Lemma loop_feed : forall fuel f data f' evs,
  cur_le f -> fe_append_loop fuel bs f data = Ok (f', evs) ->
  cur_le f' /\
  fst (norm0 f') = fst (feed (fst (norm0 f)) data) /\
  snd (norm0 f) ++ snd (feed (fst (norm0 f)) data) = dblocks evs ++ snd (norm0 f').
Proof.
  induction fuel as [|n IH]; intros f data f' evs Hle H; [discriminate H|].
  cbn [fe_append_loop] in H. destruct data as [|d0 data'].
  { injection H as <- <-. split; [exact Hle|]. cbn [feed fst snd dblocks app]. split; [reflexivity|].
    apply app_nil_r. }
  set (data := d0 :: data') in *.
  destruct (fe_cur f) as [cur|] eqn:Ec.
  - destruct (bs - len (b_data cur) =? 0) eqn:Ed.
    + (* full: submitted now *)
      match type of H with context [fe_append_loop n bs ?g ?x] =>
        destruct (fe_append_loop n bs g x) as [[f1 e1]| | |] eqn:E1; try discriminate H end.
      injection H as <- <-.
      destruct (IH (fe_with_cur f None) data f1 e1) as (A & B & C); [intros c Hc; discriminate Hc|exact E1|].
      split; [exact A|].
      assert (N0 : norm0 f = (fe_with_cur f None, [cur])) by (unfold norm0; rewrite Ec, Ed; reflexivity).
      assert (N1 : norm0 (fe_with_cur f None) = (fe_with_cur f None, [])) by reflexivity.
      rewrite N0. rewrite N1 in B, C. cbn [fst snd] in *. split; [exact B|].
      cbn [dblocks app] in *. rewrite C. reflexivity.
    + (* room left: copy min(room, rest) bytes *)
      cbv zeta in H.
      set (d := N.to_nat (N.min (bs - len (b_data cur)) (len data))) in *.
      assert (Hd : (1 <= d)%nat).
      { apply N.eqb_neq in Ed. unfold d, len in *. unfold data. cbn [length]. lia. }
      assert (Hd2 : (d <= length data)%nat) by (unfold d, len; lia).
      assert (Hd3 : N.of_nat d <= bs - len (b_data cur)) by (unfold d; lia).
      set (f2 := fe_with_cur f (Some (with_data cur (b_data cur ++ firstn d data)))) in *.
      assert (L2 : cur_le f2).
      { intros c Hc. unfold f2 in Hc. cbn [fe_with_cur fe_cur] in Hc. injection Hc as <-. cbn [with_data b_data].
        rewrite len_app, (len_firstn _ _ Hd2). apply N.eqb_neq in Ed. lia. }
      destruct (IH f2 (skipn d data) f' evs L2 H) as (A & B & C).
      split; [exact A|].
      assert (Hlt : cur_lt f).
      { intros c Hc. rewrite Ec in Hc. injection Hc as <-. apply N.eqb_neq in Ed. specialize (Hle cur Ec). lia. }
      rewrite (norm0_lt f Hlt). cbn [fst snd app].
      assert (F : feed f (firstn d data) = norm0 f2).
      { destruct (firstn d data) as [|x l] eqn:Ef.
        - exfalso. apply (f_equal (@length N)) in Ef. rewrite firstn_length in Ef. cbn [length] in Ef. lia.
        - unfold f2. try rewrite Ef. apply (feed_bulk l x f cur Ec).
          pose proof (len_firstn data d Hd2) as Lf. rewrite Ef, len_cons in Lf. apply N.eqb_neq in Ed. lia. }
      rewrite <- (firstn_skipn d data) at 1 2. rewrite feed_app, F.
      destruct (norm0 f2) as [g b1]. cbn [fst snd] in B, C.
      destruct (feed g (skipn d data)) as [g' b2]. cbn [fst snd] in *. split; [exact B|exact C].
  - (* no current block: get a new one *)
    match type of H with context [fe_append_loop n bs ?g ?x] =>
      destruct (fe_append_loop n bs g x) as [[f1 e1]| | |] eqn:E1; try discriminate H end.
    injection H as <- <-.
    change (mkFe (fe_begin f) (fe_ino f) (setf FIRST false (fe_flags f)) (fe_index f + 1)
                 (Some (mkB (fe_ino f) 0 (fe_flags f) 0 (fe_index f) []))) with (new_cur f) in E1.
    assert (Ln : cur_lt (new_cur f)).
    { intros c Hc. cbn in Hc. injection Hc as <-. cbn. exact Hbs. }
    destruct (IH (new_cur f) data f1 e1) as (A & B & C); [intros c Hc; apply N.lt_le_incl, Ln, Hc|exact E1|].
    split; [exact A|].
    rewrite (norm0_lt _ Ln) in B, C.
    assert (N0 : norm0 f = (f, [])) by (unfold norm0; rewrite Ec; reflexivity).
    rewrite N0. cbn [fst snd app dblocks] in *.
    assert (F : feed f data = feed (new_cur f) data).
    { unfold data. cbn [feed]. unfold feed1. rewrite Ec. reflexivity. }
    rewrite F. split; [exact B|exact C].
Qed.

(* sqfs_block_processor_append *)
Lemma append_feed f data f' evs :
  cur_lt f -> fe_append bs f data = Ok (f', evs) -> feed f data = (f', dblocks evs) /\ cur_lt f'.
Proof.
  intros Hlt H. unfold fe_append in H. destruct (negb (fe_begin f)); [discriminate H|].
  destruct (fe_append_loop (3 * length data + 3) bs f data) as [[f1 e1]| | |] eqn:E1; try discriminate H.
  destruct (loop_feed _ f data f1 e1 (fun c Hc => N.lt_le_incl _ _ (Hlt c Hc)) E1) as (A & B & C).
  rewrite (norm0_lt f Hlt) in B, C. cbn [fst snd app] in B, C.
  destruct (fe_cur f1) as [cur|] eqn:Ec; [|discriminate H].
  destruct (len (b_data cur) =? bs) eqn:Ef; injection H as <- <-.
  - apply N.eqb_eq in Ef.
    assert (N1 : norm0 f1 = (fe_with_cur f1 None, [cur])).
    { unfold norm0. rewrite Ec. rewrite Ef, N.sub_diag. reflexivity. }
    rewrite N1 in B, C. cbn [fst snd] in B, C.
    split; [|intros c Hc; discriminate Hc].
    cbn [dblocks]. rewrite dblocks_app. cbn [dblocks]. rewrite <- C, B. destruct (feed f data); reflexivity.
  - apply N.eqb_neq in Ef.
    assert (L1 : cur_lt f1). { intros c Hc. rewrite Ec in Hc. injection Hc as <-. specialize (A cur Ec). lia. }
    rewrite (norm0_lt f1 L1) in B, C. cbn [fst snd] in B, C. rewrite app_nil_r in C.
    split; [|exact L1]. cbn [dblocks]. rewrite <- C, B. destruct (feed f data); reflexivity.
Qed.

Lemma appends_feed : forall chunks f f' evs,
  cur_lt f -> fe_appends bs f chunks = Ok (f', evs) -> feed f (concat chunks) = (f', dblocks evs) /\ cur_lt f'.
Proof.
  induction chunks as [|c r IH]; intros f f' evs Hlt H; cbn [fe_appends] in H.
  - injection H as <- <-. split; [reflexivity|exact Hlt].
  - destruct (fe_append bs f c) as [[f1 e1]| | |] eqn:E1; try discriminate H.
    destruct (fe_appends bs f1 r) as [[f2 e2]| | |] eqn:E2; try discriminate H.
    injection H as <- <-.
    destruct (append_feed f c f1 e1 Hlt E1) as (A1 & L1).
    destruct (IH f1 f2 e2 L1 E2) as (A2 & L2).
    split; [|exact L2]. cbn [concat]. rewrite feed_app, A1, A2, dblocks_app. reflexivity.
Qed.

(* one file: begin_file, the appends, end_file *)
Lemma file_same_bytes f ino a b f1 e1 f2 e2 :
  fe_cur f = None -> same_bytes a b ->
  fe_file bs f ino a = Ok (f1, e1) -> fe_file bs f ino b = Ok (f2, e2) ->
  f1 = f2 /\ dblocks e1 = dblocks e2.
Proof.
  intros Hc [Sf Sc] H1 H2. unfold fe_file in H1, H2. rewrite <- Sf in H2.
  destruct (fe_begin_file f ino (fst a)) as [[g e0]| | |] eqn:E0; try discriminate H1.
  assert (Lg : cur_lt g).
  { unfold fe_begin_file in E0. destruct (fe_begin f); [discriminate E0|].
    destruct (negb _); [discriminate E0|]. injection E0 as <- _. intros c Hc'. cbn in Hc'. congruence. }
  assert (D0 : dblocks e0 = []).
  { unfold fe_begin_file in E0. destruct (fe_begin f); [discriminate E0|].
    destruct (negb _); [discriminate E0|]. injection E0 as _ <-. reflexivity. }
  destruct (fe_appends bs g (snd a)) as [[ga ea]| | |] eqn:Ea; try discriminate H1.
  destruct (fe_appends bs g (snd b)) as [[gb eb]| | |] eqn:Eb; try discriminate H2.
  destruct (appends_feed _ g ga ea Lg Ea) as (Fa & _).
  destruct (appends_feed _ g gb eb Lg Eb) as (Fb & _).
  rewrite Sc, Fb in Fa. injection Fa as <- Ed.
  destruct (fe_end_file gb) as [[h e3]| | |]; try discriminate H1.
  injection H1 as <- <-. injection H2 as <- <-. split; [reflexivity|].
  rewrite !dblocks_app, Ed. reflexivity.
Qed.

Lemma files_same_bytes : forall fa fb f ino f1 e1 f2 e2,
  fe_begin f = false -> fe_cur f = None -> Forall file_ok fa -> Forall2 same_bytes fa fb ->
  fe_files bs f ino fa = Ok (f1, e1) -> fe_files bs f ino fb = Ok (f2, e2) ->
  f1 = f2 /\ dblocks e1 = dblocks e2.
Proof.
  induction fa as [|a fa IH]; intros fb f ino f1 e1 f2 e2 Hb Hc Hok S H1 H2; inversion S as [|? b ? fb' Sab S']; subst.
  - cbn [fe_files] in H1, H2. injection H1 as <- <-. injection H2 as <- <-. split; reflexivity.
  - cbn [fe_files] in H1, H2. inversion Hok as [|? ? Oa Ofa]; subst.
    destruct (fe_file_ok bs Hbs f ino a Hb Hc Oa) as (ga & ea & Ea & _ & Ba & Ca).
    rewrite Ea in H1.
    destruct (fe_file bs f ino b) as [[gb eb]| | |] eqn:Eb; try discriminate H2.
    destruct (file_same_bytes f ino a b ga ea gb eb Hc Sab Ea Eb) as (<- & Ed).
    destruct (fe_files bs ga (ino + 1) fa) as [[ha e1']| | |] eqn:Fa; try discriminate H1.
    destruct (fe_files bs ga (ino + 1) fb') as [[hb e2']| | |] eqn:Fb; try discriminate H2.
    injection H1 as <- <-. injection H2 as <- <-.
    destruct (IH fb' ga (ino + 1) ha e1' hb e2' Ba Ca Ofa S' Fa Fb) as (<- & Ed').
    split; [reflexivity|]. rewrite !dblocks_app, Ed, Ed'. reflexivity.
Qed.
End Feed.

(* ---- the specification ---- *)
Lemma same_bytes_file_bytes : forall fa fb k, Forall2 same_bytes fa fb -> file_bytes fa k = file_bytes fb k.
Proof.
  intros fa fb k S. unfold file_bytes. generalize (N.to_nat k) as n.
  induction S as [|a b fa fb [_ Sc] S IH]; intro n; [reflexivity|].
  destruct n as [|n]; cbn [nth_error]; [rewrite Sc; reflexivity|apply IH].
Qed.

Section SpecChunkFree.
Variable hash : list N -> N.
Variable compress : list N -> option (list N).
Variable HT : Type.
Variable ht_search : HT -> blk -> option (N * N).
Variable ht_insert : HT -> blk -> N * N -> HT.
Variable BW : Type.
Variable bw_write : BW -> blk -> BW * N.
Variable bs : N.
Hypothesis Hbs : 0 < bs.

Theorem spec_chunk_free ht0 bw0 fa fb :
  Forall file_ok fa -> Forall file_ok fb -> Forall2 same_bytes fa fb ->
  spec_blocks hash compress HT ht_search ht_insert bs ht0 fa = spec_blocks hash compress HT ht_search ht_insert bs ht0 fb /\
  (forall k, spec_inodes hash compress HT ht_search ht_insert BW bw_write bs ht0 bw0 fa k =
             spec_inodes hash compress HT ht_search ht_insert BW bw_write bs ht0 bw0 fb k) /\
  spec_ftbl hash compress HT ht_search ht_insert BW bw_write bs ht0 bw0 fa =
  spec_ftbl hash compress HT ht_search ht_insert BW bw_write bs ht0 bw0 fb.
Proof.
  intros Oa Ob S.
  destruct (fe_files_ok bs Hbs fa fe_init 0 eq_refl eq_refl Oa) as (f1 & e1 & E1 & _).
  destruct (fe_files_ok bs Hbs fb fe_init 0 eq_refl eq_refl Ob) as (f2 & e2 & E2 & _).
  destruct (files_same_bytes bs Hbs fa fb fe_init 0 f1 e1 f2 e2 eq_refl eq_refl Oa S E1 E2) as (_ & Ed).
  assert (Fin : spec_final hash compress HT ht_search ht_insert bs ht0 fa =
                spec_final hash compress HT ht_search ht_insert bs ht0 fb).
  { unfold spec_final. rewrite E1, E2, Ed. reflexivity. }
  split; [unfold spec_blocks; rewrite Fin; reflexivity|].
  split; [|unfold spec_ftbl; rewrite Fin; reflexivity].
  intro k. unfold spec_inodes. rewrite E1, E2, Fin. unfold ino_canon.
  assert (Sz : size_canon e1 k = size_canon e2 k).
  { unfold size_canon. rewrite (fe_files_sz bs k fa fe_init 0 f1 e1 0 E1), (fe_files_sz bs k fb fe_init 0 f2 e2 0 E2).
    rewrite (same_bytes_file_bytes fa fb _ S). reflexivity. }
  rewrite Sz. reflexivity.
Qed.
End SpecChunkFree.
