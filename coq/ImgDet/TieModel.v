(* ImgDet — executable instances for the correspondence check (props/C02/check.py, leg "layout"): the DATA LAYOUT the
   composed pipelines predict for a tar archive — per regular file the inode the block processor leaves (type, size,
   sparse bytes, block start, fragment index / offset, block size words) and the fragment table — with
     compressor = "never smaller" (the check feeds incompressible bytes, so every real compressor stores the blocks),
     fragment table / block writer = C02.BpConcrete (by content, with deduplication), writing behind the 96 bytes of the
     super block, serial pool (the theorems say the pool does not matter).
   [tar_layout]:  tar2sqfs — files numbered in ARCHIVE order (ImgDet.TarPack.pt_walk).
   [gens_layout]: gensquashfs --pack-dir of a directory holding the same files — files numbered in fs->files order after
                  fstree_post_process (ImgScan.PackModel.pack_inputs), the bytes of a name taken from the archive.
   Nothing is proved about these; they make the models of TarPack / PackModel executable for the tie. *)
From Coq Require Import List NArith ZArith Bool.
From SqfsV Require C04.TarHdr C04.TarStream.
From SqfsV Require Import C11.StrOrder C11.FstreeModel C11.PostModel ImgPost.Bridge.
From SqfsV Require Import C02.GenBlk C02.BpModel C02.BpConcrete.
From SqfsV Require Image.FinishModel.
From SqfsV Require Import ImgTar.Model ImgScan.PackModel.
From SqfsV Require Import ImgDet.TarPack.
Import ListNotations.
Local Open Scope N_scope.

Definition t_nocomp (_ : list N) : option (list N) := None.
Definition t_bw0 : cbw := mkBw (repeat 0 96) [] 0.
Definition one_chunk (d : list N) : list (list N) := match d with [] => [] | _ => [d] end.

Definition layout := (list (list N * inode) * list (N * N))%type.

Definition layout_run (hash : list N -> N) (bs q : N) (paths : list path) (files : list file) : option layout :=
  match run cht cht_search cht_insert cbw cbw_write (list blk) sp_submit (sp_dequeue (process_block hash t_nocomp))
            bs (clamp_backlog q) [] [] t_bw0 files with
  | Ok s =>
      Some (combine (map join_slash paths) (map (fun k => s_ino _ _ _ s (N.of_nat k)) (seq 0 (length paths))),
            s_ftbl _ _ _ s)
  | _ => None
  end.

Definition t_wc (bs : N) : FinishModel.wcfg := FinishModel.mkCfg bs 0 1 4096 false true.

Definition tar_layout (hash : list N -> N) (o : t2s_opts) (d : fsdefaults) (ntp : bool) (bs q : N)
           (vs : list TarStream.tentry) : option layout :=
  match pt_walk o d ntp one_chunk (t_wc bs) (fs_init d) vs with
  | None => None
  | Some (_, calls) => layout_run hash bs q (map fst calls) (map snd calls)
  end.

(* the bytes a directory scan would find under the name [nm]: those of the regular entry of the archive with that path *)
Definition arch_content (vs : list TarStream.tentry) (nm : list N) : list N :=
  match find (fun t => TarStream.is_reg (t_mode t) && negb (t_hard t) &&
                       TarHdr.list_eqb (join_slash (path_of_name (t_name t))) nm) vs with
  | Some t => TarStream.te_data t
  | None => []
  end.

(* pack_file: flags = no_tail_packing && filesize > block_size ? SQFS_BLK_DONT_FRAGMENT : 0 *)
Definition arch_host_file (ntp : bool) (bs : N) (vs : list TarStream.tentry) (nm : list N) : file :=
  let c := arch_content vs nm in
  (if ntp && (bs <? len c) then c_SQFS_BLK_DONT_FRAGMENT else 0, one_chunk c).

Definition gens_layout (hash : list N -> N) (d : fsdefaults) (ntp : bool) (bs q : N) (vs : list TarStream.tentry)
  : option layout :=
  match tar2sqfs_tree opts0 d vs with
  | None => None
  | Some fs =>
      match post_process fs with
      | POk pp => layout_run hash bs q (pp_files pp) (pack_inputs (arch_host_file ntp bs vs) pp)
      | _ => None
      end
  end.
