(* ImgDet — non-vacuity.  The hypotheses of the determinism theorems are met by concrete schedules of the LTS of
   threadpool.c (1, 2 and 3 workers, pre-emptions, spurious wake-ups), and the composed pipelines compute: the same
   4096 image bytes under every one of them and under the serial pool.
     gensquashfs: the host directory of ImgScan.Example (eight entries, a sub directory with a nested one; regular files of
                  0, 300, 5000, 9000 bytes; toy compressor, fragment table by content, block writer with deduplication);
     tar2sqfs:    an archive whose ARCHIVE order differs from the sorted order of the tree (d/x before a), with a hard
                  link, a symbolic link, an empty file and a directory that is created implicitly;
     environment: SOURCE_DATE_EPOCH "1600000000" and "01600000000" give the same image, whose super block carries that
                  value in its bytes; "1600000001" gives a different one (the parameter is not ignored). *)
From Coq Require Import List NArith ZArith Bool Lia.
From SqfsV Require Import Base.Bytes Gen.Constants C03.Common.
From SqfsV Require C04.TarHdr C04.TarStream.
From SqfsV Require Import C01.GenC01 C01.Res C01.InodeModel Img.TreeModel.
From SqfsV Require Import C11.StrOrder C11.FstreeModel C11.PostModel C11.ScanModel ImgPost.Bridge.
From SqfsV Require C02.BpModel C02.BpProofs C02.BpConcrete C02.EnvModel.
From SqfsV Require C09.PoolModel.
From SqfsV Require C14.SuperModel.
From SqfsV Require Image.FinishModel Image.ValidModel Image.ReaderModel.
From SqfsV Require Import ImgTar.Model ImgScan.PackModel ImgScan.PackProofs ImgScan.Example.
From SqfsV Require Import BpPool.TpExec BpPool.Compose.
From SqfsV Require Import ImgDet.GenDet ImgDet.TarPack ImgDet.TarDet ImgDet.EnvDet ImgDet.ChunkFree ImgDet.CutDet.
Import ListNotations.
Local Open Scope N_scope.

(* ---------------- schedules ---------------- *)
Definition d_nofail : nat -> Z := fun _ => 0%Z.

(* 2 workers: worker 0 goes to sleep, is woken spuriously and goes back to sleep before the first call; the main thread
   is pre-empted between and inside its calls; every round starts with spurious wake-ups of all threads *)
Definition d_prefix2 : list choice :=
  [CWorker 0; CSpurWorker 0; CWorker 0; CMain; CWorker 1; CMain; CMain; CWorker 1; CWorker 0; CSpurMain;
   CMain; CWorker 1; CWorker 1].
Definition d_sched2 : schedule := fun k =>
  if Nat.even k
  then [CSpurMain; CSpurWorker 0; CSpurWorker 1; CWorker 1; CSpurWorker 0; CMain; CWorker 1; CSpurMain; CWorker 0]
  else [CSpurWorker 1; CSpurMain; CSpurWorker 0; CWorker 0; CMain; CSpurWorker 0; CSpurWorker 1; CWorker 0; CWorker 1; CMain].

(* 3 workers: the main thread runs ahead (three turns per round), the workers take turns in descending order *)
Definition d_prefix3 : list choice := [CMain; CMain; CWorker 2; CSpurWorker 1; CWorker 0; CMain].
Definition d_sched3 : schedule := fun k =>
  match Nat.modulo k 3 with
  | O => [CMain; CMain; CWorker 2; CMain; CWorker 1; CSpurWorker 2; CWorker 0]
  | 1%nat => [CWorker 0; CWorker 0; CMain; CSpurMain; CWorker 2; CWorker 1; CWorker 1]
  | _ => [CWorker 1; CMain; CWorker 0; CWorker 2; CWorker 2; CMain]
  end.

(* 1 worker, strict alternation *)
Definition d_sched1 : schedule := fun _ => [CMain; CWorker 0].

Lemma workers_lt3 (p : round) : In (CWorker 0) p -> In (CWorker 1) p -> In (CWorker 2) p ->
  forall w, (w < 3)%nat -> In (CWorker w) p.
Proof. intros P0 P1 P2 w Hw. destruct w as [|[|[|w]]]; auto. exfalso. lia. Qed.

Example ex_schedules_admissible :
  admissible 2 d_sched2 /\ admissible 3 d_sched3 /\ admissible 1 d_sched1 /\ nofail d_nofail.
Proof.
  split; [|split; [|split]].
  - intro k. unfold d_sched2.
    assert (W : forall p, In (CWorker 0) p -> In (CWorker 1) p -> forall w, (w < 2)%nat -> In (CWorker w) p).
    { intros p P0 P1 w Hw. destruct w as [|[|w]]; auto. exfalso. lia. }
    destruct (Nat.even k); (split; [simpl; auto 12|apply W; simpl; auto 12]).
  - intro k. unfold d_sched3.
    destruct (Nat.modulo k 3) as [|[|r]]; (split; [simpl; auto 12|apply workers_lt3; simpl; auto 12]).
  - intro k. split; [simpl; auto|]. intros w Hw. destruct w; [simpl; auto|exfalso; lia].
  - intro d. reflexivity.
Qed.

(* ---------------- gensquashfs ---------------- *)
Definition dg_tp (sched : schedule) (n : nat) (prefix : list choice) (q : N) (t : hnode) : pres_img :=
  gensquashfs_on_threadpool x_fnmatch x_dflt x_cfg x_hash BpConcrete.toy_compress
    BpConcrete.cht BpConcrete.cht_search BpConcrete.cht_insert BpConcrete.cbw BpConcrete.cbw_write x_bw_bytes
    x_host_file x_xa None [] (img_compress 3) c_id_table_limit x_wc
    d_nofail sched n prefix true q [] x_bw0 t (fs_init x_dflt).

Definition dg_serial (q : N) (t : hnode) : pres_img :=
  gensquashfs_serial x_fnmatch x_dflt x_cfg x_hash BpConcrete.toy_compress
    BpConcrete.cht BpConcrete.cht_search BpConcrete.cht_insert BpConcrete.cbw BpConcrete.cbw_write x_bw_bytes
    x_host_file x_xa None [] (img_compress 3) c_id_table_limit x_wc true q [] x_bw0 t (fs_init x_dflt).

(* the hypotheses of gensquashfs_image_deterministic that are not about the schedule *)
Example ex_gens_hyps : 0 < FinishModel.c_block_size x_wc /\ (forall nm, BpProofs.file_ok (x_host_file nm)).
Proof. split; [reflexivity|exact x_host_file_ok]. Qed.

(* the conclusion computes: 2 workers / backlog 3, 3 workers / backlog 40 (and the other enumeration order of the
   directory), 1 worker / backlog 1, serial: one image of 4096 bytes, the one of ImgScan.Example (valid, 11 inodes) *)
Example ex_gens_image_deterministic :
  image_file (dg_tp d_sched2 2 d_prefix2 3 x_tree) = image_file (dg_serial 0 x_tree) /\
  image_file (dg_tp d_sched3 3 d_prefix3 40 x_tree') = image_file (dg_serial 0 x_tree) /\
  image_file (dg_tp d_sched1 1 [] 1 x_tree) = image_file (dg_serial 0 x_tree) /\
  dg_serial 0 x_tree = x_pack 3 x_tree /\
  match image_file (dg_serial 0 x_tree) with
  | Some b => lenN b = 4096 /\ ValidModel.valid_image (img_uncompress 3) 4096 b = true
  | None => False
  end.
Proof. vm_compute. repeat split; reflexivity. Qed.

(* the two LTS runs above really are different executions: the files the packer reads, run directly on the LTS — the
   order in which the tickets went through the workers differs (and is not the submission order) *)
Definition dg_inputs : list BpModel.file :=
  match scan_post x_fnmatch x_dflt x_cfg true x_tree (fs_init x_dflt) with
  | Some (POk pp) => pack_inputs x_host_file pp
  | _ => []
  end.

Definition d_ran (sched : schedule) (n : nat) (prefix : list choice) (q : N) (files : list BpModel.file) : option (list nat) :=
  match run_on_threadpool x_hash BpConcrete.toy_compress BpConcrete.cht BpConcrete.cht_search BpConcrete.cht_insert
                          BpConcrete.cbw BpConcrete.cbw_write d_nofail sched n prefix 4096 q [] x_bw0 files with
  | BpModel.Ok s => Some (PoolModel.g_ran (tp_pool _ (BpModel.s_pool _ _ _ s)))
  | _ => None
  end.

Example ex_gens_runs_differ :
  length dg_inputs = 5%nat /\
  d_ran d_sched2 2 d_prefix2 3 dg_inputs <> d_ran d_sched3 3 d_prefix3 40 dg_inputs /\
  option_map (@length _) (d_ran d_sched2 2 d_prefix2 3 dg_inputs) = Some 10%nat /\
  d_ran d_sched3 3 d_prefix3 40 dg_inputs <> Some (rev (seq 0 10)).
Proof. vm_compute. repeat split; try reflexivity; discriminate. Qed.

(* ---------------- tar2sqfs ---------------- *)
Definition dt_mk (name : list N) (mode uid gid : N) (mtime : Z) (rdev : N) (hl : bool) (tg : option (list N))
           (data : list N) : TarStream.tentry :=
  TarStream.mkte (TarHdr.mkentry name mode uid gid (lenN data) mtime rdev hl) tg [] data.

Definition dt_REG : N := TarHdr.S_IFREG + 420.
Definition dt_LNK : N := TarHdr.S_IFLNK + 511.

(* d/x (5000 bytes)  a (300)  e/f/g (9000; e and e/f are created implicitly)  z (300, same bytes as a)  h => a
   l -> a  y (empty)  d/ (the directory entry after its content)  *)
Definition dt_vs : list TarStream.tentry :=
  [ dt_mk [100; 47; 120] dt_REG 1000 100 1600000000%Z 0 false None (repeat 7 4096 ++ repeat 9 904);
    dt_mk [97] dt_REG 1000 100 1600000000%Z 0 false None (repeat 65 300);
    dt_mk [101; 47; 102; 47; 103] dt_REG 0 0 1600000002%Z 0 false None (repeat 7 4096 ++ repeat 8 4904);
    dt_mk [122] dt_REG 1000 100 1600000000%Z 0 false None (repeat 65 300);
    dt_mk [104] dt_LNK 1000 100 1600000000%Z 0 true (Some [97]) [];
    dt_mk [108] dt_LNK 0 0 5%Z 0 false (Some [97]) [];
    dt_mk [121] dt_REG 1000 100 1600000000%Z 0 false None [];
    dt_mk [100; 47] (TarHdr.S_IFDIR + 493) 1000 100 1600000001%Z 0 false None [] ].

(* sqfs_istream_splice(in, out, block_size): pieces of at most [k] bytes (k > 0), none empty *)
Fixpoint cut (fuel : nat) (k : nat) (d : list N) : list (list N) :=
  match fuel, d with
  | O, _ | _, [] => []
  | S f, _ :: _ => firstn (S k) d :: cut f k (skipn (S k) d)
  end.
Definition d_splice (d : list N) : list (list N) := cut (length d) 4095 d.

Lemma cut_ok k : forall fuel d, Forall (fun c => c <> []) (cut fuel k d).
Proof.
  induction fuel as [|f IH]; intro d; [constructor|]. destruct d as [|x r]; [constructor|].
  cbn [cut]. constructor; [discriminate|apply IH].
Qed.

Lemma cut_lossless k : forall fuel d, (length d <= fuel)%nat -> concat (cut fuel k d) = d.
Proof.
  induction fuel as [|f IH]; intros d H.
  - destruct d; [reflexivity|cbn [length] in H; lia].
  - destruct d as [|x r]; [reflexivity|]. cbn [cut concat]. rewrite IH.
    + apply firstn_skipn.
    + rewrite skipn_length. cbn [length] in *. lia.
Qed.

(* another cut of the same bytes: the first append delivers a single byte, then pieces of 1000 bytes *)
Definition d_splice_odd (d : list N) : list (list N) :=
  match d with [] => [] | x :: r => [x] :: cut (length r) 999 r end.

Example ex_splice_ok :
  splice_ok d_splice /\ splice_lossless d_splice /\ splice_ok d_splice_odd /\ splice_lossless d_splice_odd /\
  d_splice (repeat 7 5000) <> d_splice_odd (repeat 7 5000).
Proof.
  split; [intro d; apply cut_ok|]. split; [intro d; apply cut_lossless; apply Nat.le_refl|].
  split; [|split].
  - intros [|x r]; [constructor|]. constructor; [discriminate|apply cut_ok].
  - intros [|x r]; [reflexivity|]. unfold d_splice_odd. cbn [concat app]. f_equal. apply cut_lossless. apply Nat.le_refl.
  - vm_compute. discriminate.
Qed.

Definition dt_tp_cut (splice : list N -> list (list N)) (sched : schedule) (n : nat) (prefix : list choice) (q : N)
  : pres_img :=
  tar2sqfs_on_threadpool opts0 x_dflt false x_hash BpConcrete.toy_compress
    BpConcrete.cht BpConcrete.cht_search BpConcrete.cht_insert BpConcrete.cbw BpConcrete.cbw_write x_bw_bytes
    splice x_xa None [] (img_compress 3) c_id_table_limit x_wc d_nofail sched n prefix q [] x_bw0 dt_vs.
Definition dt_tp := dt_tp_cut d_splice.

Definition dt_serial (q : N) : pres_img :=
  tar2sqfs_serial opts0 x_dflt false x_hash BpConcrete.toy_compress
    BpConcrete.cht BpConcrete.cht_search BpConcrete.cht_insert BpConcrete.cbw BpConcrete.cbw_write x_bw_bytes
    d_splice x_xa None [] (img_compress 3) c_id_table_limit x_wc q [] x_bw0 dt_vs.

(* the write_file calls: archive order (d/x first), not the order of fs->files after post processing *)
Definition dt_calls : list path :=
  map fst (tar_written opts0 x_dflt false d_splice x_wc dt_vs).
Definition dt_files_sorted : list path :=
  match tar2sqfs_tree opts0 x_dflt dt_vs with
  | Some fs => match post_process fs with POk pp => pp_files pp | _ => [] end
  | None => []
  end.

Example ex_tar_archive_order :
  dt_calls = [[[100]; [120]]; [[97]]; [[101]; [102]; [103]]; [[122]]; [[121]]] /\
  dt_files_sorted = [[[97]]; [[100]; [120]]; [[101]; [102]; [103]]; [[121]]; [[122]]].
Proof. vm_compute. split; reflexivity. Qed.

Example ex_tar_image_deterministic :
  image_file (dt_tp d_sched2 2 d_prefix2 3) = image_file (dt_serial 0) /\
  image_file (dt_tp d_sched3 3 d_prefix3 40) = image_file (dt_serial 0) /\
  image_file (dt_tp d_sched1 1 [] 1) = image_file (dt_serial 0) /\
  image_file (dt_tp_cut d_splice_odd d_sched3 3 d_prefix3 5) = image_file (dt_serial 0) /\
  match dt_serial 0 with
  | IImage (Ok w) =>
      let b := FinishModel.image_bytes w in
      lenN b = 4096 /\ ValidModel.valid_image (img_uncompress 3) 4096 b = true /\
      SuperModel.s_inode_count (FinishModel.w_super w) = 10 /\ SuperModel.s_frag_count (FinishModel.w_super w) = 1 /\
      (* what a reader finds: the data of d/x — the FIRST file of the archive — sits right behind the super block (96),
         then the two blocks of e/f/g (100); the tail ends went into the fragment block in archive order (d/x at 0, a at
         904, e/f/g at 1204, z deduplicated against a); h is a second name of a; e and e/f exist *)
      option_map (fun lt => map (fun x => (fst (fst x), snd x, PathsModel.pv_kind (snd (fst x)))) (PathsModel.flat_lt [] lt))
                 (ReaderModel.read_image_tree (img_uncompress 3) b) =
      Some [([], 10, LDir 0); ([[97]], 4, LFile 0 300 0 0 904 []); ([[100]], 5, LDir 0);
            ([[100]; [120]], 1, LFile 96 5000 0 0 0 [4]); ([[101]], 6, LDir 0); ([[101]; [102]], 3, LDir 0);
            ([[101]; [102]; [103]], 2, LFile 100 9000 0 0 1204 [4; 4]); ([[104]], 4, LFile 0 300 0 0 904 []);
            ([[108]], 7, LSlink [97]); ([[121]], 8, LFile 0 0 0 NOX NOX []); ([[122]], 9, LFile 0 300 0 0 904 [])]
  | _ => False
  end.
Proof. vm_compute. repeat split; reflexivity. Qed.

(* ---------------- environment ---------------- *)
Definition de_1600000000 : list N := [49; 54; 48; 48; 48; 48; 48; 48; 48; 48].
Definition x_cfg_nokeep : scfg :=
  ScanModel.mkCfg false true true true  false false false false
        false false false false false false false
        0 0 0 0%Z [] None None.

Definition de_gens (env : option (list N)) (optm : option N) : pres_img :=
  gensquashfs_tool x_fnmatch x_dflt x_cfg_nokeep BpConcrete.cht BpConcrete.cht_search BpConcrete.cht_insert
    BpConcrete.cbw BpConcrete.cbw_write x_bw_bytes x_host_file x_xa None [] (img_compress 3) c_id_table_limit x_wc
    tpool (tpool_submit d_nofail d_sched2) (tpool_dequeue x_hash BpConcrete.toy_compress d_nofail d_sched2)
    env optm true 3 (tpool_init 2 d_prefix2) [] x_bw0 x_tree.

Definition de_mtimes (r : pres_img) : option (N * list N) :=
  match r with
  | IImage (Ok w) =>
      let b := FinishModel.image_bytes w in
      Some (SuperModel.fld 4 off_sqfs_super_t_modification_time b,
            match ReaderModel.read_image_tree (img_uncompress 3) b with
            | Some lt => map (fun x => PathsModel.pv_mtime (snd (fst x))) (PathsModel.flat_lt [] lt)
            | None => []
            end)
  | _ => None
  end.

(* "1600000000" and "01600000000": different environments, same default_mtime, same image; every time stamp in it —
   the super block's and those of all twelve paths (scan without --keep-time) — is that value; one second later the
   image differs; with --defaults mtime=7 the environment does not matter at all *)
Example ex_env :
  EnvModel.default_mtime (Some de_1600000000) None = EnvModel.default_mtime (Some (48 :: de_1600000000)) None /\
  Some de_1600000000 <> Some (48 :: de_1600000000) /\
  image_file (de_gens (Some de_1600000000) None) = image_file (de_gens (Some (48 :: de_1600000000)) None) /\
  de_mtimes (de_gens (Some de_1600000000) None) = Some (1600000000, repeat 1600000000 12) /\
  image_file (de_gens (Some (removelast de_1600000000 ++ [49])) None) <> image_file (de_gens (Some de_1600000000) None) /\
  de_mtimes (de_gens None (Some 7)) = Some (7, repeat 7 12) /\ EnvModel.opt_ok (Some 7).
Proof. vm_compute. repeat split; try reflexivity; discriminate. Qed.
