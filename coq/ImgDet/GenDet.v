(* ImgDet — C02 stated end to end, on the image BYTES, over the transition system of lib/util/src/threadpool.c.

   gensquashfs --pack-dir:  the composed model ImgScan.PackModel.pack_image
        scan_directory -> fstree_post_process -> pack_files over the block processor (C02.BpModel.run) over a worker pool
        -> sqfs_writer_finish (Image.FinishModel.write_image) -> the bytes of the file
   instantiated with
        the pool of BpPool.TpExec / BpPool.Compose: submit / dequeue RUN C09's labelled transition system of threadpool.c
        along a scheduler oracle (any worker count n >= 1, any finite prefix of scheduler choices, then rounds in which
        every thread gets a turn; spurious wake-ups unrestricted),
   and with
        the serial pool of threadpool_serial.c (BpModel.sp_submit / sp_dequeue; C09's serial_refines_spec is the statement
        that this list IS threadpool_serial.c's queue discipline).

   [pack_image_is_spec_inv] is ImgScan.PackProofs.pack_image_is_spec for pools whose FIFO laws hold under an invariant of
   the pool state (what BpPool proves of the LTS: the laws hold in the states reachable without a call in progress).
   Everything else is instantiation. *)
From Coq Require Import List NArith ZArith Bool.
From SqfsV Require Import C01.GenC01 C01.Res C01.InodeModel Img.TreeModel.
From SqfsV Require Import C11.StrOrder C11.FstreeModel C11.PostModel C11.ScanModel C11.CanonProofs C11.ScanProofs ImgPost.Bridge.
From SqfsV Require C02.BpModel C02.BpSpec C02.BpProofs.
From SqfsV Require Image.FinishModel.
From SqfsV Require Import ImgScan.PackModel ImgScan.PackProofs.
From SqfsV Require Import BpPool.TpExec BpPool.Compose.
Import ListNotations.
Local Open Scope N_scope.

(* the callback of the pool never reports a failure (the model's compressor cannot fail; C13 / C09 own that) *)
Definition nofail (cb_st : nat -> Z) : Prop := forall d, cb_st d = 0%Z.

(* the serial pool satisfies the unconditional FIFO laws, for every hash and compressor *)
Lemma serial_fifo_laws hash dcompress :
  fifo_laws hash dcompress (list BpModel.blk) BpModel.sp_submit
            (BpModel.sp_dequeue (BpModel.process_block hash dcompress)) (fun x => x).
Proof.
  split.
  - intros p b. reflexivity.
  - intros p b r H. exact (BpProofs.serial_deq_cons (BpModel.process_block hash dcompress) p b r H).
Qed.

Section GenDet.
  Variable fnmatch : list N -> list N -> bool -> bool.
  Variable dflt : fsdefaults.
  Variable cfg : scfg.
  Variable hash : list N -> N.
  Variable dcompress : list N -> option (list N).
  Variable HT : Type.
  Variable ht_search : HT -> BpModel.blk -> option (N * N).
  Variable ht_insert : HT -> BpModel.blk -> N * N -> HT.
  Variable BW : Type.
  Variable bw_write : BW -> BpModel.blk -> BW * N.
  Variable bw_bytes : BW -> list N.
  Variable host_file : list N -> BpModel.file.
  Variable xa : path -> N.
  Variable xsec : option (list N * N).
  Variable opts : list N.
  Variable mcompress : list N -> Common.cres.
  Variable limit : N.
  Variable wc : FinishModel.wcfg.

  Notation pblock := (BpModel.process_block hash dcompress).
  Notation pack P sub deq :=
    (pack_image fnmatch dflt cfg HT ht_search ht_insert BW bw_write bw_bytes host_file xa xsec opts mcompress limit wc
                P sub deq).
  Notation ispec :=
    (image_spec hash dcompress HT ht_search ht_insert BW bw_write bw_bytes host_file xa xsec opts mcompress limit wc).

  (* the outcome every run has: the data path replaced by C02's in-order specification (no pool, no backlog, no schedule) *)
  Definition gens_outcome (sorted : bool) (ht0 : HT) (bw0 : BW) (t : hnode) (fs0 : fstree) : pres_img :=
    match scan_post fnmatch dflt cfg sorted t fs0 with
    | None => IScanErr
    | Some PErr => IPostErr
    | Some PFuel => IPostLoop
    | Some (POk pp) => IImage (ispec ht0 bw0 pp)
    end.

  Lemma pack_image_is_spec_inv P sub deq alpha (inv : P -> Prop) sorted q p0 ht0 bw0 t fs0 :
    (forall p b, inv p -> inv (sub p b) /\ alpha (sub p b) = alpha p ++ [b]) ->
    (forall p b p', inv p -> deq p = Some (b, p') -> inv p') ->
    (forall p b r, inv p -> alpha p = b :: r -> exists p', deq p = Some (pblock b, p') /\ alpha p' = r) ->
    inv p0 -> alpha p0 = [] ->
    0 < FinishModel.c_block_size wc -> (forall nm, BpProofs.file_ok (host_file nm)) ->
    pack P sub deq sorted q p0 ht0 bw0 t fs0 = gens_outcome sorted ht0 bw0 t fs0.
  Proof.
    intros L1 L2 L3 Hi Hp0 Hbs Hf. unfold pack_image, gens_outcome.
    destruct (scan_post fnmatch dflt cfg sorted t fs0) as [[pp| |]|]; try reflexivity.
    assert (Hfiles : Forall BpProofs.file_ok (pack_inputs host_file pp)).
    { unfold pack_inputs. apply Forall_forall. intros f Hin. apply in_map_iff in Hin. destruct Hin as (nm & <- & _).
      apply Hf. }
    destruct (run_refines_spec_inv hash dcompress HT ht_search ht_insert BW bw_write P sub deq alpha inv
                (FinishModel.c_block_size wc) (BpModel.clamp_backlog q) bw0 L1 L2 L3 (BpProofs.clamp_ge3 q)
                p0 ht0 (pack_inputs host_file pp) Hi Hp0 Hbs Hfiles) as (s & R & Ew & _ & Ei & Ef & _).
    rewrite R. f_equal. unfold image_spec, finish_image. rewrite <- Ew, Ef. cbn [fst].
    rewrite (to_img_ext _ _ xa pp (fun p => fb_of_ext _ _ (pp_files pp) p Ei)). reflexivity.
  Qed.

  (* gensquashfs with the worker pool of threadpool.c: [n] workers, callback status [cb_st], the schedule = [prefix]
     followed by the rounds [sched]; requested backlog (-Q) [q] *)
  Definition gensquashfs_on_threadpool (cb_st : nat -> Z) (sched : schedule) (n : nat) (prefix : list choice)
             (sorted : bool) (q : N) (ht0 : HT) (bw0 : BW) (t : hnode) (fs0 : fstree) : pres_img :=
    pack tpool (tpool_submit cb_st sched) (tpool_dequeue hash dcompress cb_st sched)
         sorted q (tpool_init n prefix) ht0 bw0 t fs0.

  (* gensquashfs built with NO_THREAD_IMPL: threadpool_serial.c *)
  Definition gensquashfs_serial (sorted : bool) (q : N) (ht0 : HT) (bw0 : BW) (t : hnode) (fs0 : fstree) : pres_img :=
    pack (list BpModel.blk) BpModel.sp_submit (BpModel.sp_dequeue pblock) sorted q [] ht0 bw0 t fs0.

  Lemma gensquashfs_on_threadpool_is_spec cb_st sched n prefix sorted q ht0 bw0 t fs0 :
    nofail cb_st -> (n >= 1)%nat -> admissible n sched ->
    0 < FinishModel.c_block_size wc -> (forall nm, BpProofs.file_ok (host_file nm)) ->
    gensquashfs_on_threadpool cb_st sched n prefix sorted q ht0 bw0 t fs0 = gens_outcome sorted ht0 bw0 t fs0.
  Proof.
    intros Hnf Hn Hadm Hbs Hf.
    destruct (threadpool_laws hash dcompress cb_st sched n Hnf Hn Hadm) as (L0 & L1 & L2 & L3).
    destruct (L0 prefix) as [I0 A0].
    exact (pack_image_is_spec_inv tpool (tpool_submit cb_st sched) (tpool_dequeue hash dcompress cb_st sched)
             (tpool_alpha hash dcompress) (tpool_inv cb_st n) sorted q (tpool_init n prefix) ht0 bw0 t fs0
             L1 L2 L3 I0 A0 Hbs Hf).
  Qed.

  Lemma gensquashfs_serial_is_spec sorted q ht0 bw0 t fs0 :
    0 < FinishModel.c_block_size wc -> (forall nm, BpProofs.file_ok (host_file nm)) ->
    gensquashfs_serial sorted q ht0 bw0 t fs0 = gens_outcome sorted ht0 bw0 t fs0.
  Proof.
    intros Hbs Hf.
    exact (pack_image_is_spec fnmatch dflt cfg hash dcompress HT ht_search ht_insert BW bw_write bw_bytes host_file xa xsec
             opts mcompress limit wc (list BpModel.blk) BpModel.sp_submit (BpModel.sp_dequeue pblock) (fun x => x)
             sorted q [] ht0 bw0 t fs0 (serial_fifo_laws hash dcompress) eq_refl Hbs Hf).
  Qed.

  (* C02 for gensquashfs.  Two runs on the LTS of threadpool.c — each with its own worker count, callback-status table,
     schedule prefix, schedule and requested backlog — and the serial reference with any backlog: the same outcome,
     which is the in-order specification's; in particular the same bytes of the image file; and the data path did not
     fail in any of them. *)
  Theorem gensquashfs_image_deterministic_l :
    forall cb1 sched1 n1 prefix1 q1 cb2 sched2 n2 prefix2 q2 qs sorted ht0 bw0 t fs0,
    nofail cb1 -> (n1 >= 1)%nat -> admissible n1 sched1 ->
    nofail cb2 -> (n2 >= 1)%nat -> admissible n2 sched2 ->
    0 < FinishModel.c_block_size wc -> (forall nm, BpProofs.file_ok (host_file nm)) ->
    let r1 := gensquashfs_on_threadpool cb1 sched1 n1 prefix1 sorted q1 ht0 bw0 t fs0 in
    let r2 := gensquashfs_on_threadpool cb2 sched2 n2 prefix2 sorted q2 ht0 bw0 t fs0 in
    let ref := gensquashfs_serial sorted qs ht0 bw0 t fs0 in
    r1 = r2 /\ r1 = ref /\
    image_file r1 = image_file r2 /\ image_file r1 = image_file ref /\
    ref = gens_outcome sorted ht0 bw0 t fs0 /\
    match r1 with IDataErr _ | IDataCrash | IDataFuel => False | _ => True end.
  Proof.
    intros cb1 sched1 n1 prefix1 q1 cb2 sched2 n2 prefix2 q2 qs sorted ht0 bw0 t fs0 F1 N1 A1 F2 N2 A2 Hbs Hf r1 r2 ref.
    assert (E1 : r1 = gens_outcome sorted ht0 bw0 t fs0)
      by (apply gensquashfs_on_threadpool_is_spec; assumption).
    assert (E2 : r2 = gens_outcome sorted ht0 bw0 t fs0)
      by (apply gensquashfs_on_threadpool_is_spec; assumption).
    assert (E3 : ref = gens_outcome sorted ht0 bw0 t fs0)
      by (apply gensquashfs_serial_is_spec; assumption).
    rewrite E1, E2, E3. repeat split; try reflexivity.
    unfold gens_outcome. destruct (scan_post fnmatch dflt cfg sorted t fs0) as [[pp| |]|]; exact I.
  Qed.

  (* ... and the order in which readdir delivers the entries of the host directories (C11's theorem, carried through):
     the two LTS runs scan two enumerations [t], [t'] of the same directory *)
  Lemma gens_outcome_order_free sorted ht0 bw0 t t' fs0 :
    hwf t -> hperm t t' -> order_free_case sorted cfg t ->
    gens_outcome sorted ht0 bw0 t fs0 = gens_outcome sorted ht0 bw0 t' fs0.
  Proof.
    intros Hw Hp Hc. unfold gens_outcome. rewrite (scan_post_order_free fnmatch dflt cfg sorted t t' fs0 Hw Hp Hc). reflexivity.
  Qed.

  Theorem gensquashfs_image_deterministic_readdir_l :
    forall cb1 sched1 n1 prefix1 q1 cb2 sched2 n2 prefix2 q2 qs sorted ht0 bw0 t t' fs0,
    nofail cb1 -> (n1 >= 1)%nat -> admissible n1 sched1 ->
    nofail cb2 -> (n2 >= 1)%nat -> admissible n2 sched2 ->
    0 < FinishModel.c_block_size wc -> (forall nm, BpProofs.file_ok (host_file nm)) ->
    hwf t -> hperm t t' -> order_free_case sorted cfg t ->
    let r1 := gensquashfs_on_threadpool cb1 sched1 n1 prefix1 sorted q1 ht0 bw0 t fs0 in
    let r2 := gensquashfs_on_threadpool cb2 sched2 n2 prefix2 sorted q2 ht0 bw0 t' fs0 in
    let ref := gensquashfs_serial sorted qs ht0 bw0 t' fs0 in
    r1 = r2 /\ r1 = ref /\ image_file r1 = image_file r2 /\ image_file r1 = image_file ref.
  Proof.
    intros cb1 sched1 n1 prefix1 q1 cb2 sched2 n2 prefix2 q2 qs sorted ht0 bw0 t t' fs0 F1 N1 A1 F2 N2 A2 Hbs Hf Hw Hp Hc
           r1 r2 ref.
    assert (E1 : r1 = gens_outcome sorted ht0 bw0 t fs0) by (apply gensquashfs_on_threadpool_is_spec; assumption).
    assert (E2 : r2 = gens_outcome sorted ht0 bw0 t' fs0) by (apply gensquashfs_on_threadpool_is_spec; assumption).
    assert (E3 : ref = gens_outcome sorted ht0 bw0 t' fs0) by (apply gensquashfs_serial_is_spec; assumption).
    rewrite E1, E2, E3, (gens_outcome_order_free sorted ht0 bw0 t t' fs0 Hw Hp Hc). repeat split; reflexivity.
  Qed.
End GenDet.
