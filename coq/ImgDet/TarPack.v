(* ImgDet — tar2sqfs from the archive entries to the image bytes, as the composition of the layer models.  Definitions only.

   bin/tar2sqfs/src/tar2sqfs.c main()                       model
   tar iterator (lib/tar)                                   the entries it delivers: list TarStream.tentry (C04)
   process_tarball: per entry                               ImgTar.Model.pt_op_of (mtime clamp, --root-becomes, -k, root
                                                            entry, fstree_add_generic)
     create_node_and_repack_data                            [pt_walk]: ONE pass over the entries that threads the fstree
       fstree_add_generic                                   (C11.FstreeModel.fs_add) and RECORDS, in archive order, the
       if (S_ISREG(ent->mode)) write_file:                  write_file calls: which node's data.file.inode the block
         flags = no_tail_pack && ent->size > block_size       processor fills (the path of the add), the flag word, and
                   ? SQFS_BLK_DONT_FRAGMENT : 0               the chunks handed to append
         sqfs_block_processor_create_ostream = begin_file
         do sqfs_istream_splice(in, out, block_size) > 0    [splice]: how the bytes of the entry are cut into append calls
         out->flush = end_file                                (an oracle, see below)
   fstree_post_process                                      C11.PostModel.post_process
   sqfs_writer_finish                                       (block processor finish is the last step of BpModel.run)
                                                            Image.FinishModel.write_image

   Unlike gensquashfs — which packs AFTER post processing, in fs->files order — tar2sqfs hands the data of a regular file
   to the block processor DURING the walk, in ARCHIVE order: file number k of the block processor run is the k-th
   regular-file entry that was added, and its inode belongs to the node at the path of that add ([fb_of ino paths]).
   The fstree and the block processor do not read each other's state, so the single pass factors into "the tree"
   (ImgTar.Model.tar2sqfs_tree) and "the list of write_file calls" ([tar_written]): lemma pt_walk_factors in TarDet.v.

   Parameters shared by the runs that are compared (ASSUMED equal):
     splice     the cut of an entry's bytes into append calls.  sqfs_istream_splice appends what get_buffered_data has
                buffered, at most block_size per call: the pieces depend on the buffer state of the stream stack (file
                istream: 128 KiB refilled until full; tar istream; decompressor).  With the present refill loop that is a
                function of the byte stream; a stream that hands on short reads would make it depend on how the OS
                delivered a pipe.  TarDet.v needs "no empty piece" only and compares runs with the SAME cut; CutDet.v
                removes that: any two lossless cuts give the same image (ChunkFree.spec_chunk_free).
     xa, xsec   xattr index per node / the xattr section (copy_xattr during the walk; abstract as in ImgScan)
     opts       compressor options;  bw_bytes: projection of the abstract block writer state to the bytes it appended.
   Not modelled: a type field that is none of the seven S_IFxxx values (the tar reader produces none); I/O errors. *)
From Coq Require Import List NArith ZArith Bool.
From SqfsV Require C04.TarHdr C04.TarStream.
From SqfsV Require Import C01.GenC01 C01.Res C01.InodeModel Img.TreeModel.
From SqfsV Require Import C11.StrOrder C11.FstreeModel C11.PostModel ImgPost.Bridge.
From SqfsV Require C02.GenBlk C02.BpModel.
From SqfsV Require Image.FinishModel.
From SqfsV Require Import ImgTar.Model ImgScan.PackModel.
Import ListNotations.
Local Open Scope N_scope.

Section TarPack.
  (* tar2sqfs options *)
  Variable o : t2s_opts.
  Variable dflt : fsdefaults.
  Variable no_tail_pack : bool.                    (* -T / --no-tail-packing *)
  (* data path: the oracles of C02 *)
  Variable HT : Type.
  Variable ht_search : HT -> BpModel.blk -> option (N * N).
  Variable ht_insert : HT -> BpModel.blk -> N * N -> HT.
  Variable BW : Type.
  Variable bw_write : BW -> BpModel.blk -> BW * N.
  Variable bw_bytes : BW -> list N.
  Variable splice : list N -> list (list N).       (* bytes of an entry -> the append calls *)
  (* the rest of the packer *)
  Variable xa : path -> N.
  Variable xsec : option (list N * N).
  Variable opts : list N.
  Variable mcompress : list N -> Common.cres.
  Variable limit : N.
  Variable wc : FinishModel.wcfg.

  (* write_file: the flag word and the append calls for the entry [t] *)
  Definition tar_file (t : TarStream.tentry) : BpModel.file :=
    (if no_tail_pack && (FinishModel.c_block_size wc <? TarHdr.e_size (TarStream.te_e t))
     then GenBlk.c_SQFS_BLK_DONT_FRAGMENT else 0,
     splice (TarStream.te_data t)).

  (* one write_file call: the path of the node whose inode is filled, and what is appended *)
  Definition wcall := (path * BpModel.file)%type.

  (* process_tarball: the loop, in one pass.  None = tar2sqfs fails *)
  Fixpoint pt_walk (fs : fstree) (vs : list TarStream.tentry) : option (fstree * list wcall) :=
    match vs with
    | [] => Some (fs, [])
    | t :: r =>
        match pt_op_of o dflt t with
        | PSkip => pt_walk fs r
        | PRootBad => None
        | PRootAttr e => pt_walk (set_root_attr (o_keep_time o) fs e) r
        | PAdd e x =>
            match fs_add dflt fs e x with
            | None => None
            | Some fs' =>
                match pt_walk fs' r with
                | Some (fs'', calls) =>
                    Some (fs'', if TarStream.is_reg (t_mode t) then (e_path e, tar_file t) :: calls else calls)
                | None => None
                end
            end
        end
    end.

  (* the write_file calls alone, as a function of the entries *)
  Definition tar_written (vs : list TarStream.tentry) : list wcall :=
    flat_map (fun t => match pt_op_of o dflt t with
                       | PAdd e _ => if TarStream.is_reg (t_mode t) then [(e_path e, tar_file t)] else []
                       | _ => []
                       end) vs.

  (* sqfs_writer_finish on what the data path left; [paths]: position k = the node of file number k *)
  Definition tar_finish_image (pp : ppout) (paths : list path) (ino : BpModel.itab) (bw : BW) (ftbl : list (N * N))
    : res FinishModel.wimage :=
    FinishModel.write_image mcompress limit wc
      (FinishModel.mkIn opts (bw_bytes bw) ftbl (to_img (PackModel.fb_of ino paths) xa pp) xsec).

  Variable P : Type.
  Variable p_submit : P -> BpModel.blk -> P.
  Variable p_dequeue : P -> option (BpModel.blk * P).

  (* the whole run.  Outcomes: IScanErr = process_tarball failed (an add was refused, a bad root entry);
     IData* = the block processor failed; IPost* = fstree_post_process failed; IImage = sqfs_writer_finish's result.
     The data of all entries has gone through append when the walk ends; the block processor's finish (flush of the
     queue and of the last fragment block) runs inside sqfs_writer_finish, after fstree_post_process: BpModel.run bundles
     appends and finish, so "the data path failed" is reported before "post processing failed" here — immaterial,
     because the data path provably never fails (TarDet.v). *)
  Definition tar_pack_image (backlog : N) (p0 : P) (ht0 : HT) (bw0 : BW) (vs : list TarStream.tentry) : pres_img :=
    match pt_walk (fs_init dflt) vs with
    | None => IScanErr
    | Some (fs, calls) =>
        match BpModel.run HT ht_search ht_insert BW bw_write P p_submit p_dequeue
                          (FinishModel.c_block_size wc) (BpModel.clamp_backlog backlog) p0 ht0 bw0 (map snd calls) with
        | BpModel.Ok s =>
            match post_process fs with
            | PErr => IPostErr
            | PFuel => IPostLoop
            | POk pp =>
                IImage (tar_finish_image pp (map fst calls) (BpModel.s_ino _ _ _ s) (BpModel.s_bw _ _ _ s)
                                         (BpModel.s_ftbl _ _ _ s))
            end
        | BpModel.Err e => IDataErr e
        | BpModel.Crash => IDataCrash
        | BpModel.Fuel => IDataFuel
        end
    end.
End TarPack.
