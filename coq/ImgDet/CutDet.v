(* ImgDet — the image does not depend on how the bytes of a file were cut into append calls (ChunkFree.spec_chunk_free
   carried through sqfs_writer_finish), combined with the determinism theorems: two runs that differ in the cut, the
   worker count, the schedule and the backlog give the same outcome.
     gensquashfs: two [host_file] oracles that agree, per file name, on the flag word and on the concatenation of the
                  chunks;
     tar2sqfs:    two [splice] oracles that are lossless (the pieces concatenate to the bytes of the entry) — no other
                  relation between them is required. *)
From Coq Require Import List NArith ZArith Bool.
From SqfsV Require C04.TarHdr C04.TarStream.
From SqfsV Require Import C01.GenC01 C01.Res C01.InodeModel Img.TreeModel.
From SqfsV Require Import C11.StrOrder C11.FstreeModel C11.PostModel C11.ScanModel ImgPost.Bridge.
From SqfsV Require C02.BpModel C02.BpSpec C02.BpProofs.
From SqfsV Require Image.FinishModel.
From SqfsV Require Import ImgTar.Model ImgScan.PackModel ImgScan.PackProofs.
From SqfsV Require Import BpPool.TpExec BpPool.Compose.
From SqfsV Require Import ImgDet.GenDet ImgDet.TarPack ImgDet.TarDet ImgDet.ChunkFree.
Import ListNotations.
Local Open Scope N_scope.

Definition splice_lossless (splice : list N -> list (list N)) : Prop := forall d, concat (splice d) = d.

Lemma Forall2_map_same {A B} (R : B -> B -> Prop) (f g : A -> B) (l : list A) :
  (forall x, R (f x) (g x)) -> Forall2 R (map f l) (map g l).
Proof. intro H. induction l; cbn [map]; constructor; auto. Qed.

Section CutDet.
  Variable fnmatch : list N -> list N -> bool -> bool.
  Variable dflt : fsdefaults.
  Variable cfg : scfg.
  Variable o : t2s_opts.
  Variable no_tail_pack : bool.
  Variable hash : list N -> N.
  Variable dcompress : list N -> option (list N).
  Variable HT : Type.
  Variable ht_search : HT -> BpModel.blk -> option (N * N).
  Variable ht_insert : HT -> BpModel.blk -> N * N -> HT.
  Variable BW : Type.
  Variable bw_write : BW -> BpModel.blk -> BW * N.
  Variable bw_bytes : BW -> list N.
  Variable xa : path -> N.
  Variable xsec : option (list N * N).
  Variable opts : list N.
  Variable mcompress : list N -> Common.cres.
  Variable limit : N.
  Variable wc : FinishModel.wcfg.
  Hypothesis Hbs : 0 < FinishModel.c_block_size wc.

  Notation bs := (FinishModel.c_block_size wc).

  (* ---- gensquashfs ---- *)
  Variables host_file host_file' : list N -> BpModel.file.
  Hypothesis Hf : forall nm, BpProofs.file_ok (host_file nm).
  Hypothesis Hf' : forall nm, BpProofs.file_ok (host_file' nm).
  Hypothesis Hsame : forall nm, same_bytes (host_file nm) (host_file' nm).

  Lemma image_spec_cut_free ht0 bw0 pp :
    image_spec hash dcompress HT ht_search ht_insert BW bw_write bw_bytes host_file xa xsec opts mcompress limit wc ht0 bw0 pp =
    image_spec hash dcompress HT ht_search ht_insert BW bw_write bw_bytes host_file' xa xsec opts mcompress limit wc ht0 bw0 pp.
  Proof.
    unfold image_spec, pack_inputs.
    assert (Oa : Forall BpProofs.file_ok (map host_file (input_names pp))).
    { apply Forall_forall. intros f Hin. apply in_map_iff in Hin. destruct Hin as (nm & <- & _). apply Hf. }
    assert (Ob : Forall BpProofs.file_ok (map host_file' (input_names pp))).
    { apply Forall_forall. intros f Hin. apply in_map_iff in Hin. destruct Hin as (nm & <- & _). apply Hf'. }
    destruct (spec_chunk_free hash dcompress HT ht_search ht_insert BW bw_write bs Hbs ht0 bw0 _ _ Oa Ob
                (Forall2_map_same same_bytes host_file host_file' (input_names pp) Hsame)) as (Eb & Ei & Et).
    cbv zeta. rewrite Eb, Et. unfold finish_image.
    rewrite (to_img_ext _ _ xa pp (fun p => fb_of_ext _ _ (pp_files pp) p Ei)). reflexivity.
  Qed.

  Lemma gens_outcome_cut_free sorted ht0 bw0 t fs0 :
    gens_outcome fnmatch dflt cfg hash dcompress HT ht_search ht_insert BW bw_write bw_bytes host_file xa xsec opts
                 mcompress limit wc sorted ht0 bw0 t fs0 =
    gens_outcome fnmatch dflt cfg hash dcompress HT ht_search ht_insert BW bw_write bw_bytes host_file' xa xsec opts
                 mcompress limit wc sorted ht0 bw0 t fs0.
  Proof.
    unfold gens_outcome. destruct (scan_post fnmatch dflt cfg sorted t fs0) as [[pp| |]|]; try reflexivity.
    rewrite image_spec_cut_free. reflexivity.
  Qed.

  Theorem gensquashfs_cut_irrelevant_l :
    forall cb1 sched1 n1 prefix1 q1 cb2 sched2 n2 prefix2 q2 qs sorted ht0 bw0 t fs0,
    nofail cb1 -> (n1 >= 1)%nat -> admissible n1 sched1 ->
    nofail cb2 -> (n2 >= 1)%nat -> admissible n2 sched2 ->
    let r1 := gensquashfs_on_threadpool fnmatch dflt cfg hash dcompress HT ht_search ht_insert BW bw_write bw_bytes
                host_file xa xsec opts mcompress limit wc cb1 sched1 n1 prefix1 sorted q1 ht0 bw0 t fs0 in
    let r2 := gensquashfs_on_threadpool fnmatch dflt cfg hash dcompress HT ht_search ht_insert BW bw_write bw_bytes
                host_file' xa xsec opts mcompress limit wc cb2 sched2 n2 prefix2 sorted q2 ht0 bw0 t fs0 in
    let ref := gensquashfs_serial fnmatch dflt cfg hash dcompress HT ht_search ht_insert BW bw_write bw_bytes
                host_file' xa xsec opts mcompress limit wc sorted qs ht0 bw0 t fs0 in
    r1 = r2 /\ r1 = ref /\ image_file r1 = image_file r2 /\ image_file r1 = image_file ref.
  Proof.
    intros cb1 sched1 n1 prefix1 q1 cb2 sched2 n2 prefix2 q2 qs sorted ht0 bw0 t fs0 F1 N1 A1 F2 N2 A2 r1 r2 ref.
    assert (E1 : r1 = r2).
    { unfold r1, r2. rewrite !gensquashfs_on_threadpool_is_spec by assumption. apply gens_outcome_cut_free. }
    assert (E2 : r1 = ref).
    { unfold r1, ref. rewrite gensquashfs_on_threadpool_is_spec, gensquashfs_serial_is_spec by assumption.
      apply gens_outcome_cut_free. }
    rewrite <- E1, <- E2. repeat split; reflexivity.
  Qed.

  (* ---- tar2sqfs ---- *)
  Variables splice splice' : list N -> list (list N).
  Hypothesis Hs : splice_ok splice.
  Hypothesis Hs' : splice_ok splice'.
  Hypothesis Hl : splice_lossless splice.
  Hypothesis Hl' : splice_lossless splice'.

  Lemma tar_written_cut_free vs :
    map fst (tar_written o dflt no_tail_pack splice wc vs) = map fst (tar_written o dflt no_tail_pack splice' wc vs) /\
    Forall2 same_bytes (map snd (tar_written o dflt no_tail_pack splice wc vs))
                       (map snd (tar_written o dflt no_tail_pack splice' wc vs)).
  Proof.
    unfold tar_written.
    induction vs as [|t r [IH1 IH2]]; [split; [reflexivity|constructor]|].
    cbn [flat_map]. rewrite !map_app.
    destruct (pt_op_of o dflt t) as [| |e|e x]; cbn [app map]; try (split; assumption).
    destruct (TarStream.is_reg (t_mode t)); cbn [app map]; [|split; assumption].
    split; [cbn [fst]; rewrite IH1; reflexivity|].
    constructor; [|exact IH2]. unfold tar_file. cbn [snd]. split; [reflexivity|]. cbn [snd]. rewrite Hl, Hl'. reflexivity.
  Qed.

  Lemma tar_outcome_cut_free ht0 bw0 vs :
    tar_outcome o dflt no_tail_pack hash dcompress HT ht_search ht_insert BW bw_write bw_bytes splice xa xsec opts
                mcompress limit wc ht0 bw0 vs =
    tar_outcome o dflt no_tail_pack hash dcompress HT ht_search ht_insert BW bw_write bw_bytes splice' xa xsec opts
                mcompress limit wc ht0 bw0 vs.
  Proof.
    unfold tar_outcome. rewrite !tar_walk_is_tree.
    destruct (tar2sqfs_tree o dflt vs) as [fs|]; [|reflexivity].
    destruct (post_process fs) as [pp| |]; try reflexivity. f_equal.
    unfold tar_image_spec. destruct (tar_written_cut_free vs) as (Ep & Es). cbv zeta.
    destruct (spec_chunk_free hash dcompress HT ht_search ht_insert BW bw_write bs Hbs ht0 bw0 _ _
                (tar_written_ok o dflt no_tail_pack splice wc vs Hs) (tar_written_ok o dflt no_tail_pack splice' wc vs Hs') Es)
      as (Eb & Ei & Et).
    rewrite Eb, Et, Ep. unfold tar_finish_image.
    rewrite (to_img_ext _ _ xa pp (fun p => fb_of_ext _ _ _ p Ei)). reflexivity.
  Qed.

  Theorem tar2sqfs_cut_irrelevant_l :
    forall cb1 sched1 n1 prefix1 q1 cb2 sched2 n2 prefix2 q2 qs ht0 bw0 vs,
    nofail cb1 -> (n1 >= 1)%nat -> admissible n1 sched1 ->
    nofail cb2 -> (n2 >= 1)%nat -> admissible n2 sched2 ->
    let r1 := tar2sqfs_on_threadpool o dflt no_tail_pack hash dcompress HT ht_search ht_insert BW bw_write bw_bytes
                splice xa xsec opts mcompress limit wc cb1 sched1 n1 prefix1 q1 ht0 bw0 vs in
    let r2 := tar2sqfs_on_threadpool o dflt no_tail_pack hash dcompress HT ht_search ht_insert BW bw_write bw_bytes
                splice' xa xsec opts mcompress limit wc cb2 sched2 n2 prefix2 q2 ht0 bw0 vs in
    let ref := tar2sqfs_serial o dflt no_tail_pack hash dcompress HT ht_search ht_insert BW bw_write bw_bytes
                splice' xa xsec opts mcompress limit wc qs ht0 bw0 vs in
    r1 = r2 /\ r1 = ref /\ image_file r1 = image_file r2 /\ image_file r1 = image_file ref.
  Proof.
    intros cb1 sched1 n1 prefix1 q1 cb2 sched2 n2 prefix2 q2 qs ht0 bw0 vs F1 N1 A1 F2 N2 A2 r1 r2 ref.
    assert (E1 : r1 = r2).
    { unfold r1, r2. rewrite !tar2sqfs_on_threadpool_is_spec by assumption. apply tar_outcome_cut_free. }
    assert (E2 : r1 = ref).
    { unfold r1, ref. rewrite tar2sqfs_on_threadpool_is_spec, tar2sqfs_serial_is_spec by assumption.
      apply tar_outcome_cut_free. }
    rewrite <- E1, <- E2. repeat split; reflexivity.
  Qed.
End CutDet.
