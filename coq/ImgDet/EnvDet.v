(* ImgDet — the process environment.

   The only thing either packer takes from its environment for the CONTENT of the image is the default time stamp:
     lib/util/src/source_date_epoch.c   getenv("SOURCE_DATE_EPOCH")
     lib/common/src/fstree_cli.c        parse_fstree_defaults: sb->mtime = get_source_date_epoch(); "mtime=" of --defaults
                                        overrides it                                   -> C02.EnvModel.default_mtime env opt
   and that ONE value [m] is copied to three places of the composed models:
     fstree_init(&fs, &defaults)        fs.defaults.mtime: the root and every implicitly created directory (fstree.c), and
                                        tar2sqfs's entries without --keep-time (process_tarball.c: ent->mtime =
                                        sqfs->fs.defaults.mtime)                        -> [with_mtime_dflt m dflt]
     bin/gensquashfs/src/mkfs.c         cfg.def_mtime = sqfs.fs.defaults.mtime: dir_tree_iterator without
                                        DIR_SCAN_KEEP_TIME                             -> [with_mtime_scfg m cfg]
     lib/common/src/writer/init.c       sqfs_super_init(&super, block_size, fs.defaults.mtime, comp_id)
                                                                                       -> [with_mtime_wcfg m wc]
   [gensquashfs_tool] / [tar2sqfs_tool] are the composed pipelines with these three copies made, started from
   fstree_init's tree; their only environment parameter is the SOURCE_DATE_EPOCH string [env].

   What this file proves: (1) the tools are functions of [default_mtime env opt] and the other (non-environment)
   parameters — by definition; that is the SIGNATURE of the model; (2) hence two environments with the same
   default_mtime (same SOURCE_DATE_EPOCH; or any two environments when --defaults mtime= is given) give the same outcome,
   also across worker counts / schedules / backlogs (composition with the determinism theorems); (3) the three copies
   really are where the value surfaces: the modification_time field of the super block in the image BYTES is m, every
   entry the directory scan delivers without --keep-time, every entry tar2sqfs adds without --keep-time, the root and
   every implicit directory carry m.

   What it does NOT prove — and cannot, inside Coq: that the C programs have no other environment input.  "No clock,
   no locale, no umask, no working directory, no time zone parameter" is a structural fact about the MODEL.  Its tie to
   the code is C02's tool-level sweep (props/C02/check.py: TZ, LC_ALL/LANG, umask, cwd, wall clock via LD_PRELOAD, -j/-Q,
   against the NO_THREAD_IMPL build) and the grep recorded in props/C02/NOTES.md. *)
From Coq Require Import List NArith ZArith Bool Lia.
From SqfsV Require Import Gen.Constants.
From SqfsV Require C04.TarHdr C04.TarStream.
From SqfsV Require Import C01.GenC01 C01.Res C01.InodeModel Img.TreeModel.
From SqfsV Require Import C11.StrOrder C11.FstreeModel C11.PostModel C11.ScanModel ImgPost.Bridge.
From SqfsV Require C02.BpModel C02.BpSpec C02.BpProofs.
From SqfsV Require Import C02.EnvModel.
From SqfsV Require C14.SuperModel C14.SuperProofs.
From SqfsV Require Image.FinishModel Image.FinishProofs.
From SqfsV Require Import ImgTar.Model ImgScan.PackModel ImgScan.PackProofs.
From SqfsV Require Import BpPool.TpExec BpPool.Compose.
From SqfsV Require Import ImgDet.GenDet ImgDet.TarPack ImgDet.TarDet.
Import ListNotations.
Local Open Scope N_scope.

(* the three copies of fs.defaults.mtime *)
Definition with_mtime_dflt (m : N) (d : fsdefaults) : fsdefaults := mkDefaults (fd_uid d) (fd_gid d) m (fd_perm d).

Definition with_mtime_scfg (m : N) (c : scfg) : scfg :=
  ScanModel.mkCfg (c_keep_time c) (c_keep_uid c) (c_keep_gid c) (c_keep_mode c)
                  (c_onefs c) (c_norec c) (c_nohl c) (c_fullpath c)
                  (c_no_sock c) (c_no_slink c) (c_no_file c) (c_no_blk c) (c_no_dir c) (c_no_chr c) (c_no_fifo c)
                  (c_def_uid c) (c_def_gid c) (c_def_perm c) (Z.of_N m)
                  (c_prefix c) (c_pattern c) (c_fileprefix c).

Definition with_mtime_wcfg (m : N) (w : FinishModel.wcfg) : FinishModel.wcfg :=
  FinishModel.mkCfg (FinishModel.c_block_size w) m (FinishModel.c_comp_id w) (FinishModel.c_devblk w)
                    (FinishModel.c_exportable w) (FinishModel.c_no_xattr w).

(* ---- where the value surfaces ---- *)

(* the root directory and every directory created implicitly *)
Lemma root_mtime_is_default m d : a_mtime (node_attr (fs_root (fs_init (with_mtime_dflt m d)))) = m.
Proof. reflexivity. Qed.

Lemma implicit_dir_mtime_is_default m d nm : a_mtime (node_attr (implicit_dir (with_mtime_dflt m d) nm)) = m.
Proof. reflexivity. Qed.

(* gensquashfs: every entry the directory scan hands to scan_directory without DIR_SCAN_KEEP_TIME *)
Lemma scan_entry_mtime_is_default fnmatch m cfg pdev rel s hard tgt e x :
  c_keep_time cfg = false ->
  classify fnmatch (with_mtime_scfg m cfg) pdev rel s hard tgt = DDeliver e x -> e_mtime e = Z.of_N m.
Proof.
  intros K H. unfold classify in H. cbn [with_mtime_scfg c_keep_time c_def_mtime c_onefs c_no_dir c_prefix c_keep_mode
    c_keep_uid c_keep_gid c_def_perm c_def_uid c_def_gid] in H.
  destruct ((c_onefs cfg && negb (h_dev s =? pdev)) || type_masked (with_mtime_scfg m cfg) (if hard then FLnk else h_type s));
    [discriminate|].
  destruct (ftype_eqb (h_type s) FDir && c_no_dir cfg); [discriminate|].
  destruct (negb (pattern_ok fnmatch (with_mtime_scfg m cfg) (c_prefix cfg ++ rel))); [discriminate|].
  injection H as <- _. cbn [e_mtime]. rewrite K. reflexivity.
Qed.

(* ... and with it the time stamp is the host's: the default is not used at all *)
Lemma scan_entry_mtime_kept fnmatch m cfg pdev rel s hard tgt e x :
  c_keep_time cfg = true ->
  classify fnmatch (with_mtime_scfg m cfg) pdev rel s hard tgt = DDeliver e x -> e_mtime e = h_mtime s.
Proof.
  intros K H. unfold classify in H. cbn [with_mtime_scfg c_keep_time c_def_mtime c_onefs c_no_dir c_prefix c_keep_mode
    c_keep_uid c_keep_gid c_def_perm c_def_uid c_def_gid] in H.
  destruct ((c_onefs cfg && negb (h_dev s =? pdev)) || type_masked (with_mtime_scfg m cfg) (if hard then FLnk else h_type s));
    [discriminate|].
  destruct (ftype_eqb (h_type s) FDir && c_no_dir cfg); [discriminate|].
  destruct (negb (pattern_ok fnmatch (with_mtime_scfg m cfg) (c_prefix cfg ++ rel))); [discriminate|].
  injection H as <- _. cbn [e_mtime]. rewrite K. reflexivity.
Qed.

(* tar2sqfs: every entry added (and a root entry) without --keep-time *)
Lemma tar_entry_mtime_is_default o m d t :
  o_keep_time o = false ->
  match pt_op_of o (with_mtime_dflt m d) t with
  | PAdd e _ | PRootAttr e => e_mtime e = Z.of_N m
  | _ => True
  end.
Proof.
  intro K. unfold pt_op_of. rewrite K. cbn [with_mtime_dflt fd_mtime].
  destruct (o_root o) as [root|].
  - destruct (TarStream.strip_root root (TarHdr.e_name (TarStream.te_e t))) as [[[|] nm]|]; [| |exact I].
    + destruct (TarHdr.e_hardlink (TarStream.te_e t) ||
                negb (TarHdr.ftype (TarHdr.e_mode (TarStream.te_e t)) =? TarHdr.S_IFDIR)); [exact I|reflexivity].
    + reflexivity.
  - destruct (TarHdr.e_name (TarStream.te_e t)); [|reflexivity].
    destruct (TarHdr.e_hardlink (TarStream.te_e t) ||
              negb (TarHdr.ftype (TarHdr.e_mode (TarStream.te_e t)) =? TarHdr.S_IFDIR)); [exact I|reflexivity].
Qed.

(* the super block *)
Lemma super_init_mtime bs m c s0 : SuperModel.super_init bs m c = SuperModel.Ok s0 -> SuperModel.s_mtime s0 = m mod 2 ^ 32.
Proof.
  unfold SuperModel.super_init. intro H.
  destruct (negb (N.land bs (bs - 1) =? 0)); [discriminate|].
  destruct (bs <? c_SQFS_MIN_BLOCK_SIZE); [discriminate|].
  destruct (c_SQFS_MAX_BLOCK_SIZE <? bs); [discriminate|].
  destruct (SuperModel.log2_loop 64 bs 0); [|discriminate].
  injection H as <-. reflexivity.
Qed.

(* sqfs_writer_finish: both super blocks written (the provisional one of init.c, the committed one of finish.c) carry
   c_mtime, and the modification_time field of the image BYTES (what sqfs_super_read decodes) is that value *)
Lemma write_image_mtime mcompress limit wc inp w :
  FinishModel.write_image mcompress limit wc inp = Ok w ->
  SuperModel.s_mtime (FinishModel.w_super0 w) = FinishModel.c_mtime wc mod 2 ^ 32 /\
  SuperModel.s_mtime (FinishModel.w_super w) = FinishModel.c_mtime wc mod 2 ^ 32 /\
  SuperModel.fld 4 off_sqfs_super_t_modification_time (FinishModel.image_bytes w) = FinishModel.c_mtime wc mod 2 ^ 32.
Proof.
  intro H. pose proof (FinishProofs.write_image_shape mcompress limit wc inp w H) as S.
  destruct S as (dwr & f1 & f2 & E0 & _ & _ & _ & _ & _ & _ & _ & _ & _ & _ & _ & _ & _ & M3 & _).
  pose proof (super_init_mtime _ _ _ _ E0) as M0.
  split; [exact M0|]. split; [rewrite M3; exact M0|].
  unfold FinishModel.image_bytes.
  rewrite (SuperProofs.fld_enc 2 4 (SuperModel.s_mtime (FinishModel.w_super w)) off_sqfs_super_t_modification_time
             (FinishModel.w_super w) _ eq_refl eq_refl).
  rewrite M3, M0. change (256 ^ N.of_nat 4) with (2 ^ 32). apply N.mod_mod. discriminate.
Qed.

Definition image_of (r : pres_img) : option FinishModel.wimage :=
  match r with IImage (Ok w) => Some w | _ => None end.

Section Tools.
  Variable fnmatch : list N -> list N -> bool -> bool.
  Variable dflt : fsdefaults.              (* uid=, gid=, mode= of --defaults; its mtime field is overwritten below *)
  Variable cfg : scfg.                     (* scan flags, forced uid / gid; its def_mtime field is overwritten below *)
  Variable o : t2s_opts.
  Variable no_tail_pack : bool.
  Variable hash : list N -> N.
  Variable dcompress : list N -> option (list N).
  Variable HT : Type.
  Variable ht_search : HT -> BpModel.blk -> option (N * N).
  Variable ht_insert : HT -> BpModel.blk -> N * N -> HT.
  Variable BW : Type.
  Variable bw_write : BW -> BpModel.blk -> BW * N.
  Variable bw_bytes : BW -> list N.
  Variable host_file : list N -> BpModel.file.
  Variable splice : list N -> list (list N).
  Variable xa : path -> N.
  Variable xsec : option (list N * N).
  Variable opts : list N.
  Variable mcompress : list N -> Common.cres.
  Variable limit : N.
  Variable wc : FinishModel.wcfg.          (* block size, compressor id, device block size, -e, -x; mtime overwritten *)

  Section AnyPool.
    Variable P : Type.
    Variable p_submit : P -> BpModel.blk -> P.
    Variable p_dequeue : P -> option (BpModel.blk * P).

    (* the pipelines as functions of the default time stamp [m] — no environment parameter at all *)
    Definition gensquashfs_core (m : N) (sorted : bool) (q : N) (p0 : P) (ht0 : HT) (bw0 : BW) (t : hnode) : pres_img :=
      pack_image fnmatch (with_mtime_dflt m dflt) (with_mtime_scfg m cfg) HT ht_search ht_insert BW bw_write bw_bytes
                 host_file xa xsec opts mcompress limit (with_mtime_wcfg m wc) P p_submit p_dequeue
                 sorted q p0 ht0 bw0 t (fs_init (with_mtime_dflt m dflt)).

    Definition tar2sqfs_core (m : N) (q : N) (p0 : P) (ht0 : HT) (bw0 : BW) (vs : list TarStream.tentry) : pres_img :=
      tar_pack_image o (with_mtime_dflt m dflt) no_tail_pack HT ht_search ht_insert BW bw_write bw_bytes splice
                     xa xsec opts mcompress limit (with_mtime_wcfg m wc) P p_submit p_dequeue q p0 ht0 bw0 vs.

    (* the tools: [env] = getenv("SOURCE_DATE_EPOCH") (None = unset), [optm] = the mtime= sub-option of --defaults *)
    Definition gensquashfs_tool (env : option (list N)) (optm : option N) :=
      gensquashfs_core (default_mtime env optm).
    Definition tar2sqfs_tool (env : option (list N)) (optm : option N) :=
      tar2sqfs_core (default_mtime env optm).

    (* (1)+(2) for one pool: the environment enters through default_mtime only *)
    Lemma tools_env_through_default_mtime env1 env2 optm :
      default_mtime env1 optm = default_mtime env2 optm ->
      gensquashfs_tool env1 optm = gensquashfs_tool env2 optm /\ tar2sqfs_tool env1 optm = tar2sqfs_tool env2 optm.
    Proof. unfold gensquashfs_tool, tar2sqfs_tool. intros ->. split; reflexivity. Qed.

    Lemma tools_mtime_option_hides_env env1 env2 v :
      gensquashfs_tool env1 (Some v) = gensquashfs_tool env2 (Some v) /\
      tar2sqfs_tool env1 (Some v) = tar2sqfs_tool env2 (Some v).
    Proof. split; reflexivity. Qed.

    (* (3) the super block: record fields and the bytes of the file *)
    Lemma gensquashfs_super_mtime env optm sorted q p0 ht0 bw0 t w :
      opt_ok optm ->
      image_of (gensquashfs_tool env optm sorted q p0 ht0 bw0 t) = Some w ->
      SuperModel.s_mtime (FinishModel.w_super0 w) = default_mtime env optm /\
      SuperModel.s_mtime (FinishModel.w_super w) = default_mtime env optm /\
      SuperModel.fld 4 off_sqfs_super_t_modification_time (FinishModel.image_bytes w) = default_mtime env optm.
    Proof.
      intros Ho H. unfold gensquashfs_tool, gensquashfs_core, pack_image in H.
      pose proof (default_mtime_bound env optm Ho) as B.
      set (m := default_mtime env optm) in *.
      destruct (scan_post _ _ _ _ _ _) as [[pp| |]|]; try discriminate.
      destruct (BpModel.run _ _ _ _ _ _ _ _ _ _ _ _ _ _) as [s| | |]; try discriminate.
      unfold finish_image in H. cbn [image_of] in H.
      match type of H with match ?X with _ => _ end = _ => destruct X as [w'| | |] eqn:E; try discriminate end.
      injection H as ->.
      destruct (write_image_mtime _ _ _ _ _ E) as (A1 & A2 & A3).
      cbn [with_mtime_wcfg FinishModel.c_mtime] in A1, A2, A3.
      rewrite (N.mod_small m (2 ^ 32)) in A1, A2, A3 by exact B. auto.
    Qed.

    Lemma tar2sqfs_super_mtime env optm q p0 ht0 bw0 vs w :
      opt_ok optm ->
      image_of (tar2sqfs_tool env optm q p0 ht0 bw0 vs) = Some w ->
      SuperModel.s_mtime (FinishModel.w_super0 w) = default_mtime env optm /\
      SuperModel.s_mtime (FinishModel.w_super w) = default_mtime env optm /\
      SuperModel.fld 4 off_sqfs_super_t_modification_time (FinishModel.image_bytes w) = default_mtime env optm.
    Proof.
      intros Ho H. unfold tar2sqfs_tool, tar2sqfs_core, tar_pack_image in H.
      pose proof (default_mtime_bound env optm Ho) as B.
      set (m := default_mtime env optm) in *.
      destruct (pt_walk _ _ _ _ _ _ _) as [[fs calls]|]; try discriminate.
      destruct (BpModel.run _ _ _ _ _ _ _ _ _ _ _ _ _ _) as [s| | |]; try discriminate.
      destruct (post_process fs) as [pp| |]; try discriminate.
      unfold tar_finish_image in H. cbn [image_of] in H.
      match type of H with match ?X with _ => _ end = _ => destruct X as [w'| | |] eqn:E; try discriminate end.
      injection H as ->.
      destruct (write_image_mtime _ _ _ _ _ E) as (A1 & A2 & A3).
      cbn [with_mtime_wcfg FinishModel.c_mtime] in A1, A2, A3.
      rewrite (N.mod_small m (2 ^ 32)) in A1, A2, A3 by exact B. auto.
    Qed.
  End AnyPool.

  (* the three statements above in the form Properties_C02.v quotes *)
  Lemma tools_signature_l P (sub : P -> BpModel.blk -> P) (deq : P -> option (BpModel.blk * P)) env optm :
    gensquashfs_tool P sub deq env optm = gensquashfs_core P sub deq (default_mtime env optm) /\
    tar2sqfs_tool P sub deq env optm = tar2sqfs_core P sub deq (default_mtime env optm) /\
    (forall env' v,
       gensquashfs_tool P sub deq env (Some v) = gensquashfs_tool P sub deq env' (Some v) /\
       tar2sqfs_tool P sub deq env (Some v) = tar2sqfs_tool P sub deq env' (Some v)).
  Proof.
    split; [reflexivity|]. split; [reflexivity|]. intros env' v.
    exact (tools_mtime_option_hides_env P sub deq env env' v).
  Qed.

  Lemma super_mtime_l P (sub : P -> BpModel.blk -> P) (deq : P -> option (BpModel.blk * P)) env optm sorted q p0 ht0 bw0 t vs w :
    opt_ok optm ->
    image_of (gensquashfs_tool P sub deq env optm sorted q p0 ht0 bw0 t) = Some w \/
    image_of (tar2sqfs_tool P sub deq env optm q p0 ht0 bw0 vs) = Some w ->
    SuperModel.s_mtime (FinishModel.w_super0 w) = default_mtime env optm /\
    SuperModel.s_mtime (FinishModel.w_super w) = default_mtime env optm /\
    SuperModel.fld 4 off_sqfs_super_t_modification_time (FinishModel.image_bytes w) = default_mtime env optm.
  Proof.
    intros Ho [H|H].
    - exact (gensquashfs_super_mtime P sub deq env optm sorted q p0 ht0 bw0 t w Ho H).
    - exact (tar2sqfs_super_mtime P sub deq env optm q p0 ht0 bw0 vs w Ho H).
  Qed.

  Lemma defaulted_timestamps_l m :
    a_mtime (node_attr (fs_root (fs_init (with_mtime_dflt m dflt)))) = m /\
    (forall nm, a_mtime (node_attr (implicit_dir (with_mtime_dflt m dflt) nm)) = m) /\
    (forall pdev rel s hard tgt e x,
       classify fnmatch (with_mtime_scfg m cfg) pdev rel s hard tgt = DDeliver e x ->
       e_mtime e = if c_keep_time cfg then h_mtime s else Z.of_N m) /\
    (forall t, o_keep_time o = false ->
       match pt_op_of o (with_mtime_dflt m dflt) t with
       | PAdd e _ | PRootAttr e => e_mtime e = Z.of_N m
       | _ => True
       end).
  Proof.
    split; [reflexivity|]. split; [reflexivity|]. split.
    - intros pdev rel s hard tgt e x H. destruct (c_keep_time cfg) eqn:K.
      + exact (scan_entry_mtime_kept fnmatch m cfg pdev rel s hard tgt e x K H).
      + exact (scan_entry_mtime_is_default fnmatch m cfg pdev rel s hard tgt e x K H).
    - intros t K. exact (tar_entry_mtime_is_default o m dflt t K).
  Qed.

  Notation pblock := (BpModel.process_block hash dcompress).

  (* C02 with all its dimensions at once: two runs that differ in the environment string (same default time stamp),
     the worker count, the callback table, the schedule and the backlog, and the serial reference in a third
     environment *)
  Theorem image_env_independent_l :
    forall env1 env2 env3 optm cb1 sched1 n1 prefix1 q1 cb2 sched2 n2 prefix2 q2 qs sorted ht0 bw0 t vs,
    default_mtime env1 optm = default_mtime env2 optm -> default_mtime env1 optm = default_mtime env3 optm ->
    nofail cb1 -> (n1 >= 1)%nat -> admissible n1 sched1 ->
    nofail cb2 -> (n2 >= 1)%nat -> admissible n2 sched2 ->
    0 < FinishModel.c_block_size wc -> (forall nm, BpProofs.file_ok (host_file nm)) -> splice_ok splice ->
    let tp1 := tpool_submit cb1 sched1 in let td1 := tpool_dequeue hash dcompress cb1 sched1 in
    let tp2 := tpool_submit cb2 sched2 in let td2 := tpool_dequeue hash dcompress cb2 sched2 in
    (gensquashfs_tool tpool tp1 td1 env1 optm sorted q1 (tpool_init n1 prefix1) ht0 bw0 t =
     gensquashfs_tool tpool tp2 td2 env2 optm sorted q2 (tpool_init n2 prefix2) ht0 bw0 t /\
     gensquashfs_tool tpool tp1 td1 env1 optm sorted q1 (tpool_init n1 prefix1) ht0 bw0 t =
     gensquashfs_tool (list BpModel.blk) BpModel.sp_submit (BpModel.sp_dequeue pblock) env3 optm sorted qs [] ht0 bw0 t) /\
    (tar2sqfs_tool tpool tp1 td1 env1 optm q1 (tpool_init n1 prefix1) ht0 bw0 vs =
     tar2sqfs_tool tpool tp2 td2 env2 optm q2 (tpool_init n2 prefix2) ht0 bw0 vs /\
     tar2sqfs_tool tpool tp1 td1 env1 optm q1 (tpool_init n1 prefix1) ht0 bw0 vs =
     tar2sqfs_tool (list BpModel.blk) BpModel.sp_submit (BpModel.sp_dequeue pblock) env3 optm qs [] ht0 bw0 vs).
  Proof.
    intros env1 env2 env3 optm cb1 sched1 n1 prefix1 q1 cb2 sched2 n2 prefix2 q2 qs sorted ht0 bw0 t vs
           E12 E13 F1 N1 A1 F2 N2 A2 Hbs Hf Hs tp1 td1 tp2 td2.
    unfold gensquashfs_tool, tar2sqfs_tool. rewrite <- E12, <- E13.
    set (m := default_mtime env1 optm).
    assert (Hbs' : 0 < FinishModel.c_block_size (with_mtime_wcfg m wc)) by exact Hbs.
    split.
    - destruct (gensquashfs_image_deterministic_l fnmatch (with_mtime_dflt m dflt) (with_mtime_scfg m cfg) hash dcompress
                  HT ht_search ht_insert BW bw_write bw_bytes host_file xa xsec opts mcompress limit (with_mtime_wcfg m wc)
                  cb1 sched1 n1 prefix1 q1 cb2 sched2 n2 prefix2 q2 qs sorted ht0 bw0 t (fs_init (with_mtime_dflt m dflt))
                  F1 N1 A1 F2 N2 A2 Hbs' Hf) as (R12 & R1s & _).
      split; [exact R12|exact R1s].
    - destruct (tar2sqfs_image_deterministic_l o (with_mtime_dflt m dflt) no_tail_pack hash dcompress
                  HT ht_search ht_insert BW bw_write bw_bytes splice xa xsec opts mcompress limit (with_mtime_wcfg m wc)
                  cb1 sched1 n1 prefix1 q1 cb2 sched2 n2 prefix2 q2 qs ht0 bw0 vs
                  F1 N1 A1 F2 N2 A2 Hbs' Hs) as (R12 & R1s & _).
      split; [exact R12|exact R1s].
  Qed.
End Tools.
