(* ImgDet — C02 for tar2sqfs, on the image bytes: the composed model ImgDet.TarPack.tar_pack_image over the LTS of
   threadpool.c (BpPool) and over the serial pool.  Proof: the single pass of process_tarball factors into the tree and
   the list of write_file calls; every write_file call is a valid block processor input (the flag word is 0 or
   SQFS_BLK_DONT_FRAGMENT; no empty append if the splice oracle delivers none); C02's refinement theorem for pools with
   an invariant replaces the data path by the in-order specification. *)
From Coq Require Import List NArith ZArith Bool.
From SqfsV Require C04.TarHdr C04.TarStream.
From SqfsV Require Import C01.GenC01 C01.Res C01.InodeModel Img.TreeModel.
From SqfsV Require Import C11.StrOrder C11.FstreeModel C11.PostModel ImgPost.Bridge.
From SqfsV Require C02.GenBlk C02.BpModel C02.BpSpec C02.BpProofs.
From SqfsV Require Image.FinishModel.
From SqfsV Require Import ImgTar.Model ImgScan.PackModel ImgScan.PackProofs.
From SqfsV Require Import BpPool.TpExec BpPool.Compose.
From SqfsV Require Import ImgDet.GenDet ImgDet.TarPack.
Import ListNotations.
Local Open Scope N_scope.

(* the splice oracle never hands an empty piece to append (sqfs_istream_splice leaves its loop at end of file without
   calling append) *)
Definition splice_ok (splice : list N -> list (list N)) : Prop := forall d, Forall (fun c => c <> []) (splice d).

Section TarDet.
  Variable o : t2s_opts.
  Variable dflt : fsdefaults.
  Variable no_tail_pack : bool.
  Variable hash : list N -> N.
  Variable dcompress : list N -> option (list N).
  Variable HT : Type.
  Variable ht_search : HT -> BpModel.blk -> option (N * N).
  Variable ht_insert : HT -> BpModel.blk -> N * N -> HT.
  Variable BW : Type.
  Variable bw_write : BW -> BpModel.blk -> BW * N.
  Variable bw_bytes : BW -> list N.
  Variable splice : list N -> list (list N).
  Variable xa : path -> N.
  Variable xsec : option (list N * N).
  Variable opts : list N.
  Variable mcompress : list N -> Common.cres.
  Variable limit : N.
  Variable wc : FinishModel.wcfg.

  Notation pblock := (BpModel.process_block hash dcompress).
  Notation walk := (pt_walk o dflt no_tail_pack splice wc).
  Notation written := (tar_written o dflt no_tail_pack splice wc).
  Notation tpack P sub deq :=
    (tar_pack_image o dflt no_tail_pack HT ht_search ht_insert BW bw_write bw_bytes splice xa xsec opts mcompress limit wc
                    P sub deq).
  Notation tfinish := (tar_finish_image BW bw_bytes xa xsec opts mcompress limit wc).

  (* ---- the single pass factors: the tree is ImgTar's tar2sqfs tree, the calls are a function of the entries ---- *)
  Lemma pt_walk_factors : forall vs fs,
    walk fs vs =
    match pt_exec (o_keep_time o) dflt fs (pt_ops o dflt vs) with
    | Some fs' => Some (fs', written vs)
    | None => None
    end.
  Proof.
    induction vs as [|t r IH]; intro fs; [reflexivity|].
    cbn [pt_walk pt_ops map pt_exec tar_written flat_map].
    destruct (pt_op_of o dflt t) as [| |e|e x]; cbn [app].
    - rewrite IH. reflexivity.
    - reflexivity.
    - rewrite IH. reflexivity.
    - destruct (fs_add dflt fs e x) as [fs'|]; [|reflexivity].
      rewrite IH. fold (pt_ops o dflt r).
      destruct (pt_exec (o_keep_time o) dflt fs' (pt_ops o dflt r)); [|reflexivity].
      destruct (TarStream.is_reg (t_mode t)); reflexivity.
  Qed.

  Lemma tar_walk_is_tree vs :
    walk (fs_init dflt) vs =
    match tar2sqfs_tree o dflt vs with Some fs => Some (fs, written vs) | None => None end.
  Proof. apply pt_walk_factors. Qed.

  (* ---- every write_file call is a valid input of the block processor ---- *)
  Lemma tar_file_ok t : splice_ok splice -> BpProofs.file_ok (tar_file no_tail_pack splice wc t).
  Proof.
    intro Hs. split; [|apply Hs]. unfold tar_file. cbn [fst].
    destruct (no_tail_pack && (FinishModel.c_block_size wc <? TarHdr.e_size (TarStream.te_e t))); reflexivity.
  Qed.

  Lemma tar_written_ok vs : splice_ok splice -> Forall BpProofs.file_ok (map snd (written vs)).
  Proof.
    intro Hs. induction vs as [|t r IH]; [constructor|].
    cbn [tar_written flat_map]. rewrite map_app. apply Forall_app. split; [|exact IH].
    destruct (pt_op_of o dflt t) as [| |e|e x]; try constructor.
    destruct (TarStream.is_reg (t_mode t)); [|constructor].
    constructor; [apply tar_file_ok; exact Hs|constructor].
  Qed.

  Lemma walk_calls_ok vs fs calls : splice_ok splice ->
    walk (fs_init dflt) vs = Some (fs, calls) -> Forall BpProofs.file_ok (map snd calls).
  Proof.
    intros Hs H. rewrite tar_walk_is_tree in H. destruct (tar2sqfs_tree o dflt vs); [|discriminate].
    injection H as _ <-. apply tar_written_ok. exact Hs.
  Qed.

  (* ---- the outcome every run has: the data path replaced by the in-order specification ---- *)
  Definition tar_image_spec (ht0 : HT) (bw0 : BW) (pp : ppout) (calls : list wcall) : res FinishModel.wimage :=
    let bs := FinishModel.c_block_size wc in
    let files := map snd calls in
    tfinish pp (map fst calls)
      (BpSpec.spec_inodes hash dcompress HT ht_search ht_insert BW bw_write bs ht0 bw0 files)
      (fst (BpSpec.bw_run BW bw_write bw0 [] (BpSpec.spec_blocks hash dcompress HT ht_search ht_insert bs ht0 files)))
      (BpSpec.spec_ftbl hash dcompress HT ht_search ht_insert BW bw_write bs ht0 bw0 files).

  Definition tar_outcome (ht0 : HT) (bw0 : BW) (vs : list TarStream.tentry) : pres_img :=
    match walk (fs_init dflt) vs with
    | None => IScanErr
    | Some (fs, calls) =>
        match post_process fs with
        | PErr => IPostErr
        | PFuel => IPostLoop
        | POk pp => IImage (tar_image_spec ht0 bw0 pp calls)
        end
    end.

  Lemma tar_pack_image_is_spec_inv P sub deq alpha (inv : P -> Prop) q p0 ht0 bw0 vs :
    (forall p b, inv p -> inv (sub p b) /\ alpha (sub p b) = alpha p ++ [b]) ->
    (forall p b p', inv p -> deq p = Some (b, p') -> inv p') ->
    (forall p b r, inv p -> alpha p = b :: r -> exists p', deq p = Some (pblock b, p') /\ alpha p' = r) ->
    inv p0 -> alpha p0 = [] ->
    0 < FinishModel.c_block_size wc -> splice_ok splice ->
    tpack P sub deq q p0 ht0 bw0 vs = tar_outcome ht0 bw0 vs.
  Proof.
    intros L1 L2 L3 Hi Hp0 Hbs Hs. unfold tar_pack_image, tar_outcome.
    destruct (walk (fs_init dflt) vs) as [[fs calls]|] eqn:W; [|reflexivity].
    pose proof (walk_calls_ok vs fs calls Hs W) as Hfiles.
    destruct (run_refines_spec_inv hash dcompress HT ht_search ht_insert BW bw_write P sub deq alpha inv
                (FinishModel.c_block_size wc) (BpModel.clamp_backlog q) bw0 L1 L2 L3 (BpProofs.clamp_ge3 q)
                p0 ht0 (map snd calls) Hi Hp0 Hbs Hfiles) as (s & R & Ew & _ & Ei & Ef & _).
    rewrite R. destruct (post_process fs) as [pp| |]; try reflexivity.
    f_equal. unfold tar_image_spec, tar_finish_image. rewrite <- Ew, Ef. cbn [fst].
    rewrite (to_img_ext _ _ xa pp (fun p => fb_of_ext _ _ (map fst calls) p Ei)). reflexivity.
  Qed.

  (* pools with unconditional laws (ImgScan.PackProofs.fifo_laws): the instance with the trivial invariant *)
  Lemma tar_pack_image_is_spec P sub deq alpha q p0 ht0 bw0 vs :
    fifo_laws hash dcompress P sub deq alpha -> alpha p0 = [] ->
    0 < FinishModel.c_block_size wc -> splice_ok splice ->
    tpack P sub deq q p0 ht0 bw0 vs = tar_outcome ht0 bw0 vs.
  Proof.
    intros [L1 L2] Hp0 Hbs Hs.
    apply (tar_pack_image_is_spec_inv P sub deq alpha (fun _ => True) q p0 ht0 bw0 vs); auto.
  Qed.

  (* tar2sqfs on the worker pool of threadpool.c / built with NO_THREAD_IMPL *)
  Definition tar2sqfs_on_threadpool (cb_st : nat -> Z) (sched : schedule) (n : nat) (prefix : list choice)
             (q : N) (ht0 : HT) (bw0 : BW) (vs : list TarStream.tentry) : pres_img :=
    tpack tpool (tpool_submit cb_st sched) (tpool_dequeue hash dcompress cb_st sched) q (tpool_init n prefix) ht0 bw0 vs.

  Definition tar2sqfs_serial (q : N) (ht0 : HT) (bw0 : BW) (vs : list TarStream.tentry) : pres_img :=
    tpack (list BpModel.blk) BpModel.sp_submit (BpModel.sp_dequeue pblock) q [] ht0 bw0 vs.

  Lemma tar2sqfs_on_threadpool_is_spec cb_st sched n prefix q ht0 bw0 vs :
    nofail cb_st -> (n >= 1)%nat -> admissible n sched ->
    0 < FinishModel.c_block_size wc -> splice_ok splice ->
    tar2sqfs_on_threadpool cb_st sched n prefix q ht0 bw0 vs = tar_outcome ht0 bw0 vs.
  Proof.
    intros Hnf Hn Hadm Hbs Hs.
    destruct (threadpool_laws hash dcompress cb_st sched n Hnf Hn Hadm) as (L0 & L1 & L2 & L3).
    destruct (L0 prefix) as [I0 A0].
    exact (tar_pack_image_is_spec_inv tpool (tpool_submit cb_st sched) (tpool_dequeue hash dcompress cb_st sched)
             (tpool_alpha hash dcompress) (tpool_inv cb_st n) q (tpool_init n prefix) ht0 bw0 vs
             L1 L2 L3 I0 A0 Hbs Hs).
  Qed.

  Lemma tar2sqfs_serial_is_spec q ht0 bw0 vs :
    0 < FinishModel.c_block_size wc -> splice_ok splice ->
    tar2sqfs_serial q ht0 bw0 vs = tar_outcome ht0 bw0 vs.
  Proof.
    intros Hbs Hs.
    exact (tar_pack_image_is_spec (list BpModel.blk) BpModel.sp_submit (BpModel.sp_dequeue pblock) (fun x => x)
             q [] ht0 bw0 vs (serial_fifo_laws hash dcompress) eq_refl Hbs Hs).
  Qed.

  (* C02 for tar2sqfs *)
  Theorem tar2sqfs_image_deterministic_l :
    forall cb1 sched1 n1 prefix1 q1 cb2 sched2 n2 prefix2 q2 qs ht0 bw0 vs,
    nofail cb1 -> (n1 >= 1)%nat -> admissible n1 sched1 ->
    nofail cb2 -> (n2 >= 1)%nat -> admissible n2 sched2 ->
    0 < FinishModel.c_block_size wc -> splice_ok splice ->
    let r1 := tar2sqfs_on_threadpool cb1 sched1 n1 prefix1 q1 ht0 bw0 vs in
    let r2 := tar2sqfs_on_threadpool cb2 sched2 n2 prefix2 q2 ht0 bw0 vs in
    let ref := tar2sqfs_serial qs ht0 bw0 vs in
    r1 = r2 /\ r1 = ref /\
    image_file r1 = image_file r2 /\ image_file r1 = image_file ref /\
    ref = tar_outcome ht0 bw0 vs /\
    match r1 with IDataErr _ | IDataCrash | IDataFuel => False | _ => True end.
  Proof.
    intros cb1 sched1 n1 prefix1 q1 cb2 sched2 n2 prefix2 q2 qs ht0 bw0 vs F1 N1 A1 F2 N2 A2 Hbs Hs r1 r2 ref.
    assert (E1 : r1 = tar_outcome ht0 bw0 vs) by (apply tar2sqfs_on_threadpool_is_spec; assumption).
    assert (E2 : r2 = tar_outcome ht0 bw0 vs) by (apply tar2sqfs_on_threadpool_is_spec; assumption).
    assert (E3 : ref = tar_outcome ht0 bw0 vs) by (apply tar2sqfs_serial_is_spec; assumption).
    rewrite E1, E2, E3. repeat split; try reflexivity.
    unfold tar_outcome. destruct (walk (fs_init dflt) vs) as [[fs calls]|]; [|exact I].
    destruct (post_process fs); exact I.
  Qed.
End TarDet.
