(* C01 — proofs about the xattr writer / reader model (XattrModel.v). *)
From Coq Require Import List NArith ZArith Bool Lia Permutation ZifyBool ZifyNat ZifyN.
From SqfsV Require Import Base.Bytes Gen.Constants C01.GenC01 C01.Res C01.XattrModel.
Import ListNotations.
Local Open Scope N_scope.

(* ------------------------------------------------------------------ *)
(* constants the proofs rely on                                         *)
(* ------------------------------------------------------------------ *)
Lemma xattr_layout_ok :
  META = 8192 /\ sizeof_sqfs_xattr_id_t = 16 /\ sizeof_sqfs_xattr_entry_t = 4 /\ sizeof_sqfs_xattr_value_t = 4 /\
  width_sqfs_xattr_entry_t_type = 2 /\ width_sqfs_xattr_entry_t_size = 2 /\ width_sqfs_xattr_value_t_size = 4 /\
  width_sqfs_xattr_id_t_xattr = 8 /\ width_sqfs_xattr_id_t_count = 4 /\ width_sqfs_xattr_id_t_size = 4 /\
  c_SQFS_XATTR_FLAG_OOL = 256 /\ c_SQFS_XATTR_PREFIX_MASK = 255.
Proof. repeat split; reflexivity. Qed.

(* ------------------------------------------------------------------ *)
(* hexadecimal value strings                                            *)
(* ------------------------------------------------------------------ *)
Lemma hex_digit_rt : forallb (fun i => hex_index (nth i hexmap 0) hexmap 0 =? N.of_nat i) (seq 0 16) = true.
Proof. vm_compute. reflexivity. Qed.

Lemma hex_digit d : d < 16 -> hex_index (nth (N.to_nat d) hexmap 0) hexmap 0 = d.
Proof.
  intro H. pose proof hex_digit_rt as A. rewrite forallb_forall in A.
  specialize (A (N.to_nat d)). rewrite N2Nat.id in A. apply N.eqb_eq, A. apply in_seq. lia.
Qed.

Lemma hex_rt l : bytes_ok l -> from_hex (to_hex l) = l.
Proof.
  induction l as [|b l IH]; intro H; [reflexivity|]. inversion H; subst. unfold byte_ok in *.
  cbn [to_hex flat_map app from_hex]. fold (to_hex l).
  rewrite !hex_digit by (apply N.mod_lt; discriminate). rewrite IH by assumption. f_equal.
  pose proof (N.div_mod b 16). pose proof (N.mod_small (b / 16) 16).
  assert (b / 16 < 16) by (apply N.div_lt_upper_bound; lia). lia.
Qed.

Lemma to_hex_inj a b : bytes_ok a -> bytes_ok b -> to_hex a = to_hex b -> a = b.
Proof. intros Ha Hb E. rewrite <- (hex_rt a Ha), <- (hex_rt b Hb), E. reflexivity. Qed.

(* ------------------------------------------------------------------ *)
(* string tables                                                        *)
(* ------------------------------------------------------------------ *)
Lemma list_eqb_eq a : forall b, list_eqb a b = true <-> a = b.
Proof.
  induction a as [|x a IH]; destruct b as [|y b]; cbn [list_eqb]; try (split; [discriminate|discriminate]).
  - tauto.
  - rewrite andb_true_iff, N.eqb_eq, IH. split; [intros [-> ->]; reflexivity|intro E; injection E; auto].
Qed.

Lemma find_str_some s l : forall i j, find_str s l i = Some j ->
  exists k, j = (i + k)%nat /\ nth_error l k = Some s.
Proof.
  induction l as [|x r IH]; intros i j H; [discriminate|]. cbn [find_str] in H.
  destruct (list_eqb x s) eqn:E.
  - injection H as <-. apply list_eqb_eq in E. subst. exists O. split; [lia|reflexivity].
  - destruct (IH _ _ H) as [k [K1 K2]]. exists (S k). split; [lia|exact K2].
Qed.

Lemma find_str_none s l : forall i, find_str s l i = None -> ~ In s l.
Proof.
  induction l as [|x r IH]; intros i H; [intros []|]. cbn [find_str] in H.
  destruct (list_eqb x s) eqn:E; [discriminate|].
  intros [A|A]; [subst; rewrite (proj2 (list_eqb_eq s s) eq_refl) in E; discriminate|exact (IH _ H A)].
Qed.

Lemma get_index_spec tbl s tbl' i :
  get_index tbl s = (tbl', i) ->
  (exists more, tbl' = tbl ++ more /\ (more = [] \/ more = [s])) /\ nth_error tbl' i = Some s /\
  (NoDup tbl -> NoDup tbl').
Proof.
  unfold get_index. destruct (find_str s tbl 0) as [j|] eqn:E; intro H; injection H as <- <-.
  - destruct (find_str_some _ _ _ _ E) as [k [K1 K2]]. cbn in K1. subst j.
    split; [exists []; rewrite app_nil_r; auto|]. split; [exact K2|auto].
  - split; [exists [s]; auto|]. split.
    + rewrite nth_error_app2, Nat.sub_diag by lia. reflexivity.
    + intro ND. pose proof (find_str_none _ _ _ E) as NI. clear E.
      induction tbl as [|x r IH]; cbn [app].
      * constructor; [intros []|constructor].
      * inversion ND; subst. constructor.
        -- rewrite in_app_iff. intros [A|[A|[]]]; [tauto|]. subst. apply NI. left. reflexivity.
        -- apply IH; [assumption|]. intro A. apply NI. right. exact A.
Qed.

(* ------------------------------------------------------------------ *)
(* prefixes                                                             *)
(* ------------------------------------------------------------------ *)
Lemma is_prefix_spec p : forall s, is_prefix p s = true -> s = p ++ skipn (length p) s.
Proof.
  induction p as [|a p IH]; intros s H; [reflexivity|].
  destruct s as [|b s]; [discriminate|]. cbn [is_prefix] in H. apply andb_true_iff in H. destruct H as [E H].
  apply N.eqb_eq in E. subst. cbn [length skipn app]. f_equal. apply IH. exact H.
Qed.

Lemma skipn_nonempty {A} n (l : list A) : (n < length l)%nat -> skipn n l <> [].
Proof. intros H Z. apply (f_equal (@length A)) in Z. rewrite skipn_length in Z. cbn [length] in Z. lia. Qed.

(* what the writer stores for a key and what the reader makes of it *)
Lemma prefix_of_spec key ty sfx :
  prefix_of key = Some (ty, sfx) ->
  exists pfx, key = pfx ++ sfx /\ sfx <> [] /\ ty < 256 /\
              prefix_by_id (N.land ty c_SQFS_XATTR_PREFIX_MASK) = Some pfx /\
              N.land ty c_SQFS_XATTR_FLAG_OOL = 0 /\
              prefix_by_id (N.land (ty + c_SQFS_XATTR_FLAG_OOL) c_SQFS_XATTR_PREFIX_MASK) = Some pfx /\
              N.land (ty + c_SQFS_XATTR_FLAG_OOL) c_SQFS_XATTR_FLAG_OOL <> 0.
Proof.
  unfold prefix_of, prefix_table. cbn [prefix_scan].
  destruct (is_prefix c_xattr_prefix_user key && (length c_xattr_prefix_user <? length key)%nat) eqn:E1.
  { intro H. injection H as <- <-. apply andb_true_iff in E1. destruct E1 as [P L]. apply Nat.ltb_lt in L.
    exists c_xattr_prefix_user. split; [exact (is_prefix_spec _ _ P)|].
    split; [exact (skipn_nonempty _ _ L)|].
    vm_compute. repeat split; try reflexivity; discriminate. }
  destruct (is_prefix c_xattr_prefix_trusted key && (length c_xattr_prefix_trusted <? length key)%nat) eqn:E2.
  { intro H. injection H as <- <-. apply andb_true_iff in E2. destruct E2 as [P L]. apply Nat.ltb_lt in L.
    exists c_xattr_prefix_trusted. split; [exact (is_prefix_spec _ _ P)|].
    split; [exact (skipn_nonempty _ _ L)|].
    vm_compute. repeat split; try reflexivity; discriminate. }
  destruct (is_prefix c_xattr_prefix_security key && (length c_xattr_prefix_security <? length key)%nat) eqn:E3.
  { intro H. injection H as <- <-. apply andb_true_iff in E3. destruct E3 as [P L]. apply Nat.ltb_lt in L.
    exists c_xattr_prefix_security. split; [exact (is_prefix_spec _ _ P)|].
    split; [exact (skipn_nonempty _ _ L)|].
    vm_compute. repeat split; try reflexivity; discriminate. }
  discriminate.
Qed.

(* ------------------------------------------------------------------ *)
(* association lists: what a set of key/value pairs means               *)
(* ------------------------------------------------------------------ *)
Fixpoint assoc (k : list N) (l : list (list N * list N)) : option (list N) :=
  match l with
  | [] => None
  | (k', v) :: r => if list_eqb k' k then Some v else assoc k r
  end.

(* the value of the LAST pair with key k *)
Fixpoint assoc_last (k : list N) (l : list (list N * list N)) : option (list N) :=
  match l with
  | [] => None
  | (k', v) :: r => match assoc_last k r with Some x => Some x | None => if list_eqb k' k then Some v else None end
  end.

Lemma assoc_last_app k a b :
  assoc_last k (a ++ b) = match assoc_last k b with Some x => Some x | None => assoc_last k a end.
Proof.
  induction a as [|[k' v] a IH]; cbn [app assoc_last].
  - destruct (assoc_last k b); reflexivity.
  - rewrite IH. destruct (assoc_last k b); reflexivity.
Qed.

(* ------------------------------------------------------------------ *)
(* reading at logical positions                                         *)
(* ------------------------------------------------------------------ *)
Lemma nlen_app {A} (a b : list A) : nlen (a ++ b) = nlen a + nlen b.
Proof. unfold nlen. rewrite app_length. lia. Qed.
Lemma nlen_le k v : nlen (le k v) = N.of_nat k.
Proof. unfold nlen. rewrite le_length. reflexivity. Qed.
Lemma nlen_nil {A} : nlen (@nil A) = 0.
Proof. reflexivity. Qed.
Lemma nlen_cons {A} (x : A) l : nlen (x :: l) = 1 + nlen l.
Proof. unfold nlen. cbn [length]. lia. Qed.

Lemma rd_at_split s a x b p n :
  s = a ++ x ++ b -> nlen a = p -> nlen x = n -> rd_at s p n = Ok x.
Proof.
  intros -> <- <-. unfold rd_at. rewrite !nlen_app.
  destruct (N.ltb_spec (nlen a + (nlen x + nlen b)) (nlen a + nlen x)); [lia|].
  unfold nlen. rewrite !Nat2N.id.
  rewrite skipn_app, skipn_all, Nat.sub_diag. cbn [skipn app].
  rewrite firstn_app, Nat.sub_diag, firstn_all. cbn [firstn]. rewrite app_nil_r. reflexivity.
Qed.

Lemma rd_at_ok_inv s p n x : rd_at s p n = Ok x -> p + n <= nlen s /\ x = firstn (N.to_nat n) (skipn (N.to_nat p) s).
Proof.
  unfold rd_at. destruct (N.ltb_spec (nlen s) (p + n)) as [L|L]; [discriminate|]. intro E. injection E as <-. split; [lia|reflexivity].
Qed.

Lemma rd_at_app s t p n x : rd_at s p n = Ok x -> rd_at (s ++ t) p n = Ok x.
Proof.
  intro H. destruct (rd_at_ok_inv _ _ _ _ H) as [L ->]. unfold rd_at. rewrite nlen_app.
  destruct (N.ltb_spec (nlen s + nlen t) (p + n)); [lia|]. f_equal.
  unfold nlen in L. rewrite skipn_app, firstn_app.
  replace (N.to_nat p - length s)%nat with O by lia. cbn [skipn].
  rewrite skipn_length.
  replace (N.to_nat n - (length s - N.to_nat p))%nat with O by lia. cbn [firstn]. rewrite app_nil_r. reflexivity.
Qed.

Lemma skipn_le_app k v (r : list N) : skipn k (le k v ++ r) = r.
Proof. rewrite skipn_app, le_length, Nat.sub_diag, skipn_all2 by (rewrite le_length; lia). reflexivity. Qed.

Lemma rd_le16 v r : v < 65536 -> rd16 (le16 v ++ r) = v.
Proof. intro H. apply rd_le. exact H. Qed.
Lemma rd_le32 v r : v < 4294967296 -> rd32 (le32 v ++ r) = v.
Proof. intro H. apply rd_le. exact H. Qed.
Lemma rd_le64 v r : v < 18446744073709551616 -> rd64 (le64 v ++ r) = v.
Proof. intro H. apply rd_le. exact H. Qed.
Lemma rd_le32' v : v < 4294967296 -> rd32 (le32 v) = v.
Proof. intro H. rewrite <- (app_nil_r (le32 v)). apply rd_le32. exact H. Qed.
Lemma rd_le64' v : v < 18446744073709551616 -> rd64 (le64 v) = v.
Proof. intro H. rewrite <- (app_nil_r (le64 v)). apply rd_le64. exact H. Qed.

(* ------------------------------------------------------------------ *)
(* flush / reader                                                       *)
(* ------------------------------------------------------------------ *)

Definition key_ok (k : list N) : Prop :=
  exists ty sfx, prefix_of k = Some (ty, sfx) /\ nlen sfx <= 65535.
Definition val_ok (v : list N) : Prop := nlen v < 4294967296.
Definition pair_ok (w : xwr) (kv : nat * nat) : Prop :=
  (fst kv < length (x_keys w))%nat /\ (snd kv < length (x_vals w))%nat.
Definition pair_kv (w : xwr) (kv : nat * nat) : list N * list N :=
  (nth (fst kv) (x_keys w) [], nth (snd kv) (x_vals w) []).

Record tables_ok (w : xwr) : Prop := {
  tk_keys : Forall key_ok (x_keys w);
  tk_vals : Forall val_ok (x_vals w)
}.

(* NOTE (session 3): the hypotheses HK (for ALL k) and HKsmall (for ALL k) of this section are jointly unsatisfiable
   (they make bsK an injection of N into [0, 2^48)), so the lemmas of this section that use both hold vacuously.
   They are no longer cited by Properties_C01.v: the satisfiable, relativised versions are in coq/ImgXattr/CodecRel.v
   (xattr_rt_rel).  The section is kept because its hypothesis-free parts are used elsewhere. *)
Section Codec.
  Variables (bsK bsT : N -> N) (bidxK bidxT : N -> option N).
  Hypothesis HK : forall k, bidxK (bsK k) = Some k.
  Hypothesis HT : forall k, bidxT (bsT k) = Some k.
  Hypothesis HT0 : bsT 0 = 0.
  Hypothesis HKsmall : forall k, bsK k < 281474976710656.      (* 2^48: block offsets fit the 64-bit reference *)

  Lemma ref_at_small p : ref_at bsK p < 18446744073709551616.
  Proof.
    unfold ref_at. pose proof (HKsmall (p / META)).
    assert (p mod META < 8192) by (apply N.mod_lt; discriminate). lia.
  Qed.

  Lemma seek_ref_at p : seek_ref bidxK (ref_at bsK p) = Ok p.
  Proof.
    unfold seek_ref, ref_at. change META with 8192.
    assert (M : p mod 8192 < 8192) by (apply N.mod_lt; discriminate).
    assert (E1 : (bsK (p / 8192) * 65536 + p mod 8192) mod 65536 = p mod 8192).
    { rewrite N.add_comm, N.mod_add by discriminate. apply N.mod_small. lia. }
    assert (E2 : (bsK (p / 8192) * 65536 + p mod 8192) / 65536 = bsK (p / 8192)).
    { rewrite N.add_comm, N.div_add by discriminate. rewrite N.div_small by lia. reflexivity. }
    rewrite E1, E2, HK. destruct (N.leb_spec 8192 (p mod 8192)); [lia|].
    f_equal. pose proof (N.div_mod p 8192). lia.
  Qed.

  (* the value behind reference r: header + bytes *)
  Definition val_at (s : list N) (q : N) (v : list N) : Prop :=
    rd_at s q 4 = Ok (le32 (nlen v)) /\ rd_at s (q + 4) (nlen v) = Ok v.

  Definition ool_inv (w : xwr) (s : list N) (ool : list (option N)) : Prop :=
    forall vi r, nth vi ool None = Some r ->
      r < 18446744073709551616 /\ exists q, seek_ref bidxK r = Ok q /\ val_at s q (nth vi (x_vals w) []).

  Lemma ool_inv_app w s t ool : ool_inv w s ool -> ool_inv w (s ++ t) ool.
  Proof.
    intros H vi r E. destruct (H vi r E) as [R [q [Q [V1 V2]]]]. split; [exact R|].
    exists q. split; [exact Q|]. split; apply rd_at_app; assumption.
  Qed.

  Lemma nth_upd_some (ool : list (option N)) i r : forall vi r',
    nth vi (upd ool i (fun _ => Some r)) None = Some r' -> (vi = i /\ r' = r) \/ nth vi ool None = Some r'.
  Proof.
    revert i. induction ool as [|x ool IH]; intros i vi r' H.
    - destruct i; cbn [upd] in H; destruct vi; discriminate.
    - destruct i as [|i]; cbn [upd] in H.
      + destruct vi as [|vi]; cbn [nth] in *; [injection H as <-; left; auto|right; exact H].
      + destruct vi as [|vi]; cbn [nth] in *; [right; exact H|].
        destruct (IH i vi r' H) as [[-> ->]|A]; [left; auto|right; exact A].
  Qed.

  Ltac nl := rewrite ?nlen_app, ?nlen_le, ?nlen_nil; cbn [N.of_nat Pos.of_succ_nat Pos.succ].

  Lemma write_pair_read w pre ool kv bytes ool' post :
    tables_ok w -> pair_ok w kv -> write_pair bsK w (nlen pre) ool kv = (bytes, ool') -> ool_inv w pre ool ->
    rd_pair bidxK (pre ++ bytes ++ post) (nlen pre) = Ok (pair_kv w kv, nlen pre + nlen bytes) /\
    ool_inv w (pre ++ bytes) ool'.
  Proof.
    intros [TK TV] [PK PV] W I. unfold write_pair in W. unfold pair_kv.
    set (key := nth (fst kv) (x_keys w) []) in *. set (v := nth (snd kv) (x_vals w) []) in *.
    assert (KO : key_ok key) by (rewrite Forall_forall in TK; apply TK, nth_In; exact PK).
    assert (VO : val_ok v) by (rewrite Forall_forall in TV; apply TV, nth_In; exact PV).
    destruct KO as [ty [sfx [P KL]]]. rewrite P in W. unfold val_ok in VO.
    destruct (prefix_of_spec _ _ _ P) as [pfx [EK [SNE [TY [PB [OF [PB2 OF2]]]]]]].
    destruct (nth (snd kv) ool None) as [r|] eqn:EO.
    - (* out of line *)
      assert (EB : bytes = enc_key (ty + c_SQFS_XATTR_FLAG_OOL) sfx ++ enc_ool r) by congruence.
      assert (EL : ool' = ool) by congruence. subst bytes ool'. clear W.
      destruct (I _ _ EO) as [R [q [Q [V1 V2]]]]. fold v in V1, V2.
      split; [|apply ool_inv_app; exact I].
      unfold rd_pair, enc_key, enc_ool.
      set (ty' := ty + c_SQFS_XATTR_FLAG_OOL) in *.
      assert (TY' : ty' < 65536) by (unfold ty'; change c_SQFS_XATTR_FLAG_OOL with 256; lia).
      set (S := pre ++ ((le16 ty' ++ le16 (nlen sfx) ++ sfx) ++ le32 8 ++ le64 r) ++ post).
      assert (R1 : rd_at S (nlen pre) 4 = Ok (le16 ty' ++ le16 (nlen sfx))).
      { apply rd_at_split with (a := pre) (b := sfx ++ le32 8 ++ le64 r ++ post);
          [unfold S; repeat rewrite <- app_assoc; reflexivity|reflexivity|unfold le16; nl; reflexivity]. }
      assert (KS : rd16 (skipn 2 (le16 ty' ++ le16 (nlen sfx))) = nlen sfx).
      { unfold le16 at 1. rewrite skipn_le_app. rewrite <- (app_nil_r (le16 _)). apply rd_le16. lia. }
      rewrite R1. cbn [bind]. rewrite KS, rd_le16 by exact TY'. rewrite PB2.
      assert (R2 : rd_at S (nlen pre + 4) (nlen sfx) = Ok sfx).
      { apply rd_at_split with (a := pre ++ le16 ty' ++ le16 (nlen sfx)) (b := le32 8 ++ le64 r ++ post);
          [unfold S; repeat rewrite <- app_assoc; reflexivity|unfold le16; nl; lia|reflexivity]. }
      rewrite R2. cbn [bind].
      assert (R3 : rd_at S (nlen pre + 4 + nlen sfx) 4 = Ok (le32 8)).
      { apply rd_at_split with (a := pre ++ le16 ty' ++ le16 (nlen sfx) ++ sfx) (b := le64 r ++ post);
          [unfold S; repeat rewrite <- app_assoc; reflexivity|unfold le16; nl; lia|unfold le32; nl; reflexivity]. }
      rewrite R3. cbn [bind].
      destruct (N.eqb_spec (N.land ty' c_SQFS_XATTR_FLAG_OOL) 0) as [Z|_]; [exfalso; exact (OF2 Z)|]. cbn [negb].
      assert (R4 : rd_at S (nlen pre + 8 + nlen sfx) 8 = Ok (le64 r)).
      { apply rd_at_split with (a := pre ++ le16 ty' ++ le16 (nlen sfx) ++ sfx ++ le32 8) (b := post);
          [unfold S; repeat rewrite <- app_assoc; reflexivity|unfold le16, le32; nl; lia|unfold le64; nl; reflexivity]. }
      rewrite R4. cbn [bind]. rewrite rd_le64' by exact R. rewrite Q. cbn [bind].
      assert (V1' : rd_at S q 4 = Ok (le32 (nlen v))) by (unfold S; apply rd_at_app; exact V1).
      assert (V2' : rd_at S (q + 4) (nlen v) = Ok v) by (unfold S; apply rd_at_app; exact V2).
      rewrite V1'. cbn [bind]. rewrite rd_le32' by exact VO. rewrite V2'. cbn [bind].
      rewrite EK. f_equal. f_equal. unfold le16, le32, le64. nl. lia.
    - (* in line *)
      assert (EB : bytes = enc_key ty sfx ++ enc_val v) by congruence.
      assert (EL : ool' = (if should_ool v (nth (snd kv) (x_refs w) 0)
                           then upd ool (snd kv) (fun _ => Some (ref_at bsK (nlen pre + nlen (enc_key ty sfx)))) else ool))
        by congruence.
      subst bytes ool'. clear W.
      set (kb := enc_key ty sfx). set (S := pre ++ (kb ++ enc_val v) ++ post).
      assert (TY' : ty < 65536) by lia.
      assert (R1 : rd_at S (nlen pre) 4 = Ok (le16 ty ++ le16 (nlen sfx))).
      { apply rd_at_split with (a := pre) (b := sfx ++ le32 (nlen v) ++ v ++ post);
          [unfold S, kb, enc_key, enc_val; repeat rewrite <- app_assoc; reflexivity|reflexivity|unfold le16; nl; reflexivity]. }
      assert (R2 : rd_at S (nlen pre + 4) (nlen sfx) = Ok sfx).
      { apply rd_at_split with (a := pre ++ le16 ty ++ le16 (nlen sfx)) (b := le32 (nlen v) ++ v ++ post);
          [unfold S, kb, enc_key, enc_val; repeat rewrite <- app_assoc; reflexivity|unfold le16; nl; lia|reflexivity]. }
      assert (R3 : rd_at S (nlen pre + 4 + nlen sfx) 4 = Ok (le32 (nlen v))).
      { apply rd_at_split with (a := pre ++ le16 ty ++ le16 (nlen sfx) ++ sfx) (b := v ++ post);
          [unfold S, kb, enc_key, enc_val; repeat rewrite <- app_assoc; reflexivity|unfold le16; nl; lia|unfold le32; nl; reflexivity]. }
      assert (R4 : rd_at S (nlen pre + 8 + nlen sfx) (nlen v) = Ok v).
      { apply rd_at_split with (a := pre ++ le16 ty ++ le16 (nlen sfx) ++ sfx ++ le32 (nlen v)) (b := post);
          [unfold S, kb, enc_key, enc_val; repeat rewrite <- app_assoc; reflexivity|unfold le16, le32; nl; lia|reflexivity]. }
      assert (KB : nlen kb = 4 + nlen sfx) by (unfold kb, enc_key, le16; nl; lia).
      split.
      + assert (KS : rd16 (skipn 2 (le16 ty ++ le16 (nlen sfx))) = nlen sfx).
        { unfold le16 at 1. rewrite skipn_le_app. rewrite <- (app_nil_r (le16 _)). apply rd_le16. lia. }
        unfold rd_pair. fold S. rewrite R1. cbn [bind]. rewrite KS, rd_le16 by exact TY'.
        rewrite PB, R2. cbn [bind]. rewrite R3. cbn [bind].
        rewrite OF, N.eqb_refl. cbn [negb]. rewrite rd_le32' by exact VO. rewrite R4. cbn [bind].
        rewrite EK. f_equal. f_equal. unfold enc_val, le32. nl. lia.
      + (* the reference recorded for a shared long value points at this value *)
        assert (I' : ool_inv w (pre ++ kb ++ enc_val v) ool) by (apply ool_inv_app; exact I).
        destruct (should_ool v (nth (snd kv) (x_refs w) 0)); [|exact I'].
        intros vi r' E. destruct (nth_upd_some _ _ _ _ _ E) as [[-> ->]|A]; [|exact (I' vi r' A)].
        split; [apply ref_at_small|]. exists (nlen pre + nlen kb). split; [apply seek_ref_at|]. fold v.
        split.
        * apply rd_at_split with (a := pre ++ kb) (b := v);
            [unfold enc_val; repeat rewrite <- app_assoc; reflexivity|nl; reflexivity|unfold le32; nl; reflexivity].
        * apply rd_at_split with (a := pre ++ kb ++ le32 (nlen v)) (b := []);
            [unfold enc_val; repeat rewrite <- app_assoc; rewrite app_nil_r; reflexivity|unfold le32; nl; lia|reflexivity].
  Qed.

  Lemma write_pairs_read w : forall l pre ool bytes ool' post,
    tables_ok w -> Forall (pair_ok w) l -> write_pairs bsK w (nlen pre) ool l = (bytes, ool') -> ool_inv w pre ool ->
    rd_pairs bidxK (pre ++ bytes ++ post) (nlen pre) (length l) = Ok (map (pair_kv w) l) /\
    ool_inv w (pre ++ bytes) ool'.
  Proof.
    induction l as [|kv l IH]; intros pre ool bytes ool' post T F W I.
    - cbn [write_pairs] in W. injection W as <- <-. split; [reflexivity|]. rewrite app_nil_r. exact I.
    - cbn [write_pairs] in W. inversion F as [|? ? Fk Fl]; subst.
      destruct (write_pair bsK w (nlen pre) ool kv) as [b ool1] eqn:E1.
      destruct (write_pairs bsK w (nlen pre + nlen b) ool1 l) as [b2 ool2] eqn:E2.
      assert (EB : bytes = b ++ b2) by congruence. assert (EO : ool' = ool2) by congruence. subst bytes ool'. clear W.
      destruct (write_pair_read w pre ool kv b ool1 (b2 ++ post) T Fk E1 I) as [R1 I1].
      rewrite <- nlen_app in E2.
      destruct (IH (pre ++ b) ool1 b2 ool2 post T Fl E2 I1) as [R2 I2].
      split.
      + cbn [length rd_pairs map]. rewrite <- app_assoc. rewrite R1. cbn [bind].
        rewrite <- nlen_app. rewrite <- app_assoc in R2. rewrite R2. reflexivity.
      + rewrite app_assoc. exact I2.
  Qed.

  (* every block of the stream reads back, from the reference its descriptor holds *)
  Lemma write_blocks_read w : forall bl pre ool kv descs post,
    tables_ok w -> Forall (Forall (pair_ok w)) bl -> write_blocks bsK w (nlen pre) ool bl = (kv, descs) ->
    ool_inv w pre ool ->
    length descs = length bl /\
    forall j b, nth_error bl j = Some b ->
      exists p sz, nth_error descs j = Some (ref_at bsK p, N.of_nat (length b), sz) /\
                   rd_pairs bidxK (pre ++ kv ++ post) p (length b) = Ok (map (pair_kv w) b).
  Proof.
    induction bl as [|b bl IH]; intros pre ool kv descs post T F W I.
    - cbn [write_blocks] in W. injection W as <- <-. split; [reflexivity|]. intros j b H. destruct j; discriminate.
    - cbn [write_blocks] in W. inversion F as [|? ? Fb Fl]; subst.
      destruct (write_pairs bsK w (nlen pre) ool b) as [bytes ool1] eqn:E1.
      destruct (write_blocks bsK w (nlen pre + nlen bytes) ool1 bl) as [rest ds] eqn:E2.
      assert (EK : kv = bytes ++ rest) by congruence.
      assert (ED : descs = (ref_at bsK (nlen pre), N.of_nat (length b), nlen bytes) :: ds) by congruence.
      subst kv descs. clear W.
      destruct (write_pairs_read w b pre ool bytes ool1 (rest ++ post) T Fb E1 I) as [R1 I1].
      rewrite <- nlen_app in E2.
      destruct (IH (pre ++ bytes) ool1 rest ds post T Fl E2 I1) as [L R2].
      split; [cbn [length]; lia|].
      intros j b' H. destruct j as [|j]; cbn [nth_error] in *.
      + injection H as <-. exists (nlen pre), (nlen bytes). split; [reflexivity|].
        rewrite <- app_assoc. exact R1.
      + destruct (R2 j b' H) as [p [sz [D R]]]. exists p, sz. split; [exact D|].
        rewrite <- !app_assoc in R. rewrite <- app_assoc. exact R.
  Qed.

  (* ---- id table and location table ---- *)

  Lemma bsT_inj a b : bsT a = bsT b -> a = b.
  Proof. intro E. pose proof (HT a) as A. rewrite E, HT in A. congruence. Qed.

  Definition seqN (n : N) : list N := map N.of_nat (seq 0 (N.to_nat n)).

  Lemma seqN_succ n : seqN (n + 1) = seqN n ++ [n].
  Proof.
    unfold seqN. replace (N.to_nat (n + 1)) with (S (N.to_nat n)) by lia.
    rewrite seq_S, map_app. cbn [map Nat.add]. rewrite N2Nat.id. reflexivity.
  Qed.

  Lemma seqN_len n : nlen (seqN n) = n.
  Proof. unfold nlen, seqN. rewrite map_length, seq_length. lia. Qed.

  Lemma seqN_nth n k : k < n -> nth_error (seqN n) (N.to_nat k) = Some k.
  Proof.
    intro H. unfold seqN. rewrite nth_error_map, nth_error_nth' with (d := O) by (rewrite seq_length; lia).
    rewrite seq_nth by lia. cbn [option_map Nat.add]. rewrite N2Nat.id. reflexivity.
  Qed.

  Lemma last_map_seqN m : 1 <= m -> last (map bsT (seqN m)) 0 = bsT (m - 1).
  Proof.
    intro H. replace m with (m - 1 + 1) at 1 by lia. rewrite seqN_succ, map_app. cbn [map]. apply last_last.
  Qed.

  Ltac Zify.zify_post_hook ::= Z.div_mod_to_equations.

  (* the location table holds the start of every block of the id stream, and nothing is stored outside it
     (tot = number of descriptors, cap = number of slots that alloc_location_table provides) *)
  Lemma id_locs_spec tot cap :
    1 <= tot -> cap = 16 * tot / 8192 + (if (16 * tot) mod 8192 =? 0 then 0 else 1) ->
    forall n written,
      written mod 16 = 0 -> written + 16 * N.of_nat n = 16 * tot ->
      id_locs bsT true cap n written (map bsT (seqN (N.min (written / 8192 + 1) cap))) = Ok (map bsT (seqN cap)).
  Proof.
    intros Ht Hc. assert (C1 : 1 <= cap) by (destruct ((16 * tot) mod 8192 =? 0) eqn:E; [apply N.eqb_eq in E|]; lia).
    induction n as [|n IH]; intros written M B.
    - cbn [id_locs]. f_equal. f_equal. f_equal.
      destruct ((16 * tot) mod 8192 =? 0) eqn:E; [apply N.eqb_eq in E|apply N.eqb_neq in E]; lia.
    - cbn [id_locs]. change sizeof_sqfs_xattr_id_t with 16. change META with 8192.
      assert (Hlt : written / 8192 + 1 <= cap).
      { destruct ((16 * tot) mod 8192 =? 0) eqn:E; [apply N.eqb_eq in E|apply N.eqb_neq in E]; lia. }
      rewrite N.min_l by exact Hlt.
      rewrite last_map_seqN by lia. replace (written / 8192 + 1 - 1) with (written / 8192) by lia.
      assert (M' : (written + 16) mod 16 = 0) by lia.
      assert (B' : written + 16 + 16 * N.of_nat n = 16 * tot) by lia.
      specialize (IH (written + 16) M' B').
      destruct (N.eq_dec ((written + 16) / 8192) (written / 8192)) as [Same|Cross].
      + rewrite Same, N.eqb_refl. rewrite Same in IH. rewrite N.min_l in IH by exact Hlt. exact IH.
      + assert (Nx : (written + 16) / 8192 = written / 8192 + 1) by lia.
        rewrite Nx in *.
        destruct (N.eqb_spec (bsT (written / 8192 + 1)) (bsT (written / 8192))) as [E|_];
          [apply bsT_inj in E; lia|].
        unfold nlen at 1. rewrite map_length. fold (nlen (seqN (written / 8192 + 1))). rewrite seqN_len.
        destruct (N.ltb_spec (written / 8192 + 1) cap) as [L|L].
        * rewrite N.min_l in IH by lia. rewrite seqN_succ, map_app in IH. exact IH.
        * rewrite N.min_r in IH by lia. replace (written / 8192 + 1) with cap by lia. exact IH.
  Qed.

  Lemma nth_map_none {A} (l : list A) vi : nth vi (map (fun _ => @None N) l) None = None.
  Proof. revert vi. induction l as [|x l IH]; intro vi; destruct vi; cbn; auto. Qed.

  Lemma enc_desc_len d : nlen (enc_desc d) = 16.
  Proof. destruct d as [[r c] sz]. unfold enc_desc, le64, le32. rewrite !nlen_app, !nlen_le. reflexivity. Qed.

  Lemma flat_desc_len l : nlen (flat_map enc_desc l) = 16 * nlen l.
  Proof.
    induction l as [|d l IH]; [reflexivity|]. cbn [flat_map]. rewrite nlen_app, enc_desc_len, IH, nlen_cons. lia.
  Qed.

  Lemma rd_desc_at descs : forall j d, nth_error descs j = Some d ->
    rd_at (flat_map enc_desc descs) (16 * N.of_nat j) 16 = Ok (enc_desc d).
  Proof.
    intros j d H. apply nth_error_split in H. destruct H as [l1 [l2 [-> L]]].
    rewrite flat_map_app. cbn [flat_map].
    apply rd_at_split with (a := flat_map enc_desc l1) (b := flat_map enc_desc l2); [reflexivity| |apply enc_desc_len].
    rewrite flat_desc_len. unfold nlen. rewrite L. reflexivity.
  Qed.

  Theorem flush_read w :
    tables_ok w -> Forall (Forall (pair_ok w)) (x_blocks w) -> x_blocks w <> [] ->
    nlen (x_blocks w) < NOIDX -> Forall (fun b => nlen b < 4294967296) (x_blocks w) ->
    exists img, flush bsK bsT true w = Ok (Some img) /\
      forall j b, nth_error (x_blocks w) j = Some b ->
        rd_all bidxK bidxT img (N.of_nat j) = Ok (map (pair_kv w) b).
  Proof.
    intros T F NE NB CB. unfold flush. destruct (x_blocks w) as [|b0 bl0] eqn:EB; [congruence|]. rewrite <- EB in *.
    destruct (write_blocks bsK w 0 (map (fun _ => None) (x_vals w)) (x_blocks w)) as [kv descs] eqn:EW.
    assert (I0 : ool_inv w [] (map (fun _ => None) (x_vals w))).
    { intros vi r E. rewrite nth_map_none in E. discriminate. }
    change 0 with (nlen (@nil N)) in EW.
    destruct (write_blocks_read w (x_blocks w) [] _ kv descs [] T F EW I0) as [LD RD].
    cbn [app] in RD. rewrite app_nil_r in RD.
    set (tot := nlen (x_blocks w)) in *.
    assert (Tpos : 1 <= tot).
    { unfold tot. rewrite EB. rewrite nlen_cons. lia. }
    assert (LC : loc_count tot = 16 * tot / 8192 + (if (16 * tot) mod 8192 =? 0 then 0 else 1)).
    { unfold loc_count. change sizeof_sqfs_xattr_id_t with 16. change META with 8192. rewrite (N.mul_comm tot 16). reflexivity. }
    pose proof (id_locs_spec tot (loc_count tot) Tpos LC (length descs) 0) as IL.
    assert (C1 : 1 <= loc_count tot).
    { rewrite LC. destruct ((16 * tot) mod 8192 =? 0) eqn:E; [apply N.eqb_eq in E|]; lia. }
    change (0 / 8192 + 1) with 1 in IL. rewrite N.min_l in IL by exact C1.
    change (map bsT (seqN 1)) with [bsT 0] in IL. rewrite HT0 in IL.
    rewrite IL; [|reflexivity|rewrite LD; unfold tot, nlen; lia]. cbn [bind].
    eexists. split; [reflexivity|].
    intros j b Hj. unfold rd_all.
    assert (Jlt : N.of_nat j < tot).
    { unfold tot, nlen.
      assert (j < length (x_blocks w))%nat by (apply nth_error_Some; congruence). lia. }
    destruct (N.eqb_spec (N.of_nat j) NOIDX) as [E|_]; [lia|].
    destruct (RD j b Hj) as [p [sz [D R]]].
    unfold rd_desc. cbn [xi_num xi_locs xi_ids xi_kv].
    destruct (N.leb_spec tot (N.of_nat j)) as [L|_]; [lia|].
    change sizeof_sqfs_xattr_id_t with 16. change META with 8192.
    assert (Kc : N.of_nat j * 16 / 8192 < loc_count tot).
    { rewrite LC. destruct ((16 * tot) mod 8192 =? 0) eqn:E; [apply N.eqb_eq in E|apply N.eqb_neq in E]; lia. }
    rewrite nth_error_map, (seqN_nth _ _ Kc). cbn [option_map]. rewrite HT.
    replace (N.of_nat j * 16 / 8192 * 8192 + (N.of_nat j * 16) mod 8192) with (16 * N.of_nat j) by lia.
    rewrite (rd_desc_at descs j _ D). cbn [bind]. unfold enc_desc.
    rewrite rd_le64 by apply ref_at_small.
    unfold le64 at 1. rewrite skipn_le_app.
    assert (Cb : N.of_nat (length b) < 4294967296).
    { rewrite Forall_forall in CB. apply (CB b). eapply nth_error_In. exact Hj. }
    rewrite rd_le32 by exact Cb. cbn [bind].
    rewrite seek_ref_at. cbn [bind]. rewrite Nat2N.id. exact R.
  Qed.
End Codec.
