(* C01 — proofs about the inode codec model (InodeModel.v). *)
From Coq Require Import List NArith ZArith Bool Lia.
From SqfsV Require Import Base.Bytes Gen.Constants C01.GenC01 C01.Res C01.InodeModel.
Import ListNotations.
Local Open Scope N_scope.

(* ------------------------------------------------------------------ *)
(* the model's literal widths are the widths of the headers             *)
(* ------------------------------------------------------------------ *)

Lemma layout_ok :
  sizeof_sqfs_inode_t = 16 /\ sizeof_sqfs_inode_dir_t = 16 /\ sizeof_sqfs_inode_dir_ext_t = 24 /\
  sizeof_sqfs_inode_file_t = 16 /\ sizeof_sqfs_inode_file_ext_t = 40 /\
  sizeof_sqfs_inode_slink_t = 8 /\ sizeof_sqfs_inode_dev_t = 8 /\ sizeof_sqfs_inode_dev_ext_t = 12 /\
  sizeof_sqfs_inode_ipc_t = 4 /\ sizeof_sqfs_inode_ipc_ext_t = 8 /\ sizeof_sqfs_dir_index_t = 12 /\
  [width_sqfs_inode_t_type; width_sqfs_inode_t_mode; width_sqfs_inode_t_uid_idx; width_sqfs_inode_t_gid_idx;
   width_sqfs_inode_t_mod_time; width_sqfs_inode_t_inode_number] = [2; 2; 2; 2; 4; 4] /\
  [width_sqfs_inode_dir_t_start_block; width_sqfs_inode_dir_t_nlink; width_sqfs_inode_dir_t_size;
   width_sqfs_inode_dir_t_offset; width_sqfs_inode_dir_t_parent_inode] = [4; 4; 2; 2; 4] /\
  [width_sqfs_inode_dir_ext_t_nlink; width_sqfs_inode_dir_ext_t_size; width_sqfs_inode_dir_ext_t_start_block;
   width_sqfs_inode_dir_ext_t_parent_inode; width_sqfs_inode_dir_ext_t_inodex_count;
   width_sqfs_inode_dir_ext_t_offset; width_sqfs_inode_dir_ext_t_xattr_idx] = [4; 4; 4; 4; 2; 2; 4] /\
  [width_sqfs_inode_file_t_blocks_start; width_sqfs_inode_file_t_fragment_index;
   width_sqfs_inode_file_t_fragment_offset; width_sqfs_inode_file_t_file_size] = [4; 4; 4; 4] /\
  [width_sqfs_inode_file_ext_t_blocks_start; width_sqfs_inode_file_ext_t_file_size;
   width_sqfs_inode_file_ext_t_sparse; width_sqfs_inode_file_ext_t_nlink; width_sqfs_inode_file_ext_t_fragment_idx;
   width_sqfs_inode_file_ext_t_fragment_offset; width_sqfs_inode_file_ext_t_xattr_idx] = [8; 8; 8; 4; 4; 4; 4] /\
  [width_sqfs_inode_slink_t_nlink; width_sqfs_inode_slink_t_target_size; width_sqfs_inode_dev_t_nlink;
   width_sqfs_inode_dev_t_devno; width_sqfs_inode_dev_ext_t_xattr_idx; width_sqfs_inode_ipc_t_nlink;
   width_sqfs_inode_ipc_ext_t_xattr_idx] = [4; 4; 4; 4; 4; 4; 4] /\
  (* make_extended on FIFO/socket really misses ipc_ext.xattr_idx (BIpc slack) *)
  off_sqfs_inode_ipc_ext_t_xattr_idx <> off_sqfs_inode_dev_ext_t_xattr_idx /\
  c_S_IFMT = c_SQFS_INODE_MODE_MASK.
Proof. repeat split; try reflexivity. discriminate. Qed.

Lemma layout_sizes :
  sizeof_sqfs_inode_t = 16 /\ sizeof_sqfs_inode_dir_t = 16 /\ sizeof_sqfs_inode_dir_ext_t = 24 /\
  sizeof_sqfs_inode_file_t = 16 /\ sizeof_sqfs_inode_file_ext_t = 40 /\
  sizeof_sqfs_inode_slink_t = 8 /\ sizeof_sqfs_inode_dev_t = 8 /\ sizeof_sqfs_inode_dev_ext_t = 12 /\
  sizeof_sqfs_inode_ipc_t = 4 /\ sizeof_sqfs_inode_ipc_ext_t = 8 /\ sizeof_sqfs_dir_index_t = 12.
Proof. repeat split; apply layout_ok. Qed.

(* ------------------------------------------------------------------ *)
(* well-formedness: every field fits the C type it is stored in        *)
(* ------------------------------------------------------------------ *)

Definition fitsb (fs : list fld) : bool := forallb (fun f => snd f <? 256 ^ N.of_nat (fst f)) fs.
Definition bytesb (l : list N) : bool := forallb (fun b => b <? 256) l.
Definition wordsb (l : list N) : bool := forallb (fun w => w <? 4294967296) l.

Definition mode_okb (ty m : N) : bool :=
  match ifmt_of_type ty with
  | Some f => (f <=? m) && (m <? f + 4096)
  | None => false
  end.

Definition base_wfb (ty : N) (b : ibase) : bool :=
  mode_okb ty (ib_mode b) && (ib_uid b <? 65536) && (ib_gid b <? 65536)
  && (ib_mtime b <? 4294967296) && (ib_ino b <? 4294967296).

Definition idx_wfb (e : dir_idx) : bool :=
  (dx_index e <? 4294967296) && (dx_start e <? 4294967296) && negb (nlen (dx_name e) =? 0)
  && (nlen (dx_name e) <=? 4294967296) && bytesb (dx_name e).

Definition body_wfb (bs : N) (b : ibody) : bool :=
  fitsb (body_fields b) &&
  match b with
  | BFile _ fi fo fs bl => wordsb bl && (nlen bl =? block_count fs bs fi fo)
  | BFileX _ fs _ _ fi fo _ bl => wordsb bl && (nlen bl =? block_count fs bs fi fo)
  | BSlink _ t => bytesb t
  | BSlinkX _ t xa => bytesb t && (xa <? 4294967296)
  | BIpc _ _ slack => slack <? 4294967296
  | BDirX _ sz _ _ ic _ _ idx =>
      (ic =? nlen idx) && forallb idx_wfb idx && (negb (sz =? 0) || (nlen idx =? 0))
  | _ => true
  end.

Definition inode_wfb (bs : N) (i : inode) : bool :=
  base_wfb (type_of (i_body i)) (i_base i) && body_wfb bs (i_body i).

(* decode forgets the bytes behind ipc.nlink *)
Definition clear_slack (i : inode) : inode :=
  match i_body i with
  | BIpc s nl _ => mkInode (i_base i) (BIpc s nl 0)
  | _ => i
  end.

(* ------------------------------------------------------------------ *)
(* generic lemmas on field lists                                        *)
(* ------------------------------------------------------------------ *)

Fixpoint widths (fs : list fld) : nat :=
  match fs with [] => O | (k, _) :: r => (k + widths r)%nat end.

Lemma encf_length fs : length (encf fs) = widths fs.
Proof.
  induction fs as [|[k v] r IH]; [reflexivity|]. cbn [encf widths].
  rewrite app_length, le_length, IH. reflexivity.
Qed.

Lemma take_app n (a r : list N) e : nlen a = n -> take n (a ++ r) e = Ok (a, r).
Proof.
  intro H. unfold take, nlen in *. rewrite app_length.
  destruct (N.ltb_spec (N.of_nat (length a + length r)) n) as [L|L]; [lia|].
  subst n. rewrite Nat2N.id.
  rewrite firstn_app, Nat.sub_diag, firstn_all2 by lia. cbn [firstn]. rewrite app_nil_r.
  rewrite skipn_app, Nat.sub_diag, skipn_all2 by lia. reflexivity.
Qed.

Lemma take_encf fs n r e : N.of_nat (widths fs) = n -> take n (encf fs ++ r) e = Ok (encf fs, r).
Proof. intro H. apply take_app. unfold nlen. rewrite encf_length. exact H. Qed.

Lemma take_short n (l : list N) e : nlen l < n -> take n l e = Err e.
Proof. intro H. unfold take, nlen in *. destruct (N.ltb_spec (N.of_nat (length l)) n); [reflexivity|lia]. Qed.

Fixpoint getf (fs : list fld) (off k : nat) : option N :=
  match fs with
  | [] => None
  | (k', v) :: r =>
    if Nat.eqb off 0 then (if Nat.eqb k k' then Some v else None)
    else if Nat.leb k' off then getf r (off - k') k else None
  end.

Lemma fitsb_cons k v r : fitsb ((k, v) :: r) = true -> v < 256 ^ N.of_nat k /\ fitsb r = true.
Proof.
  unfold fitsb. cbn [forallb fst snd]. rewrite andb_true_iff, N.ltb_lt. tauto.
Qed.

Lemma rdf_encf fs : forall off k v r, fitsb fs = true -> getf fs off k = Some v -> rdf k off (encf fs ++ r) = v.
Proof.
  induction fs as [|[k' v'] fs IH]; intros off k v r F G; [discriminate|].
  apply fitsb_cons in F. destruct F as [Fv Fr]. cbn [getf] in G. cbn [encf]. unfold rdf.
  destruct (Nat.eqb_spec off 0) as [->|Hoff].
  - destruct (Nat.eqb_spec k k') as [->|]; [|discriminate]. injection G as <-.
    cbn [skipn]. rewrite <- app_assoc. apply rd_le. exact Fv.
  - destruct (Nat.leb_spec k' off) as [Hle|]; [|discriminate].
    rewrite <- app_assoc, skipn_app, le_length, skipn_all2 by (rewrite le_length; lia).
    cbn [app]. apply (IH _ _ _ r Fr G).
Qed.

Lemma rdf_encf0 fs off k v : fitsb fs = true -> getf fs off k = Some v -> rdf k off (encf fs) = v.
Proof. intros F G. rewrite <- (app_nil_r (encf fs)). apply rdf_encf; assumption. Qed.

Ltac pows :=
  unfold W2, W4, W8 in *;
  change (256 ^ N.of_nat 2) with 65536 in *;
  change (256 ^ N.of_nat 4) with 4294967296 in *;
  change (256 ^ N.of_nat 8) with 18446744073709551616 in *.

Ltac rdfs F := repeat (erewrite rdf_encf0; [ | exact F | reflexivity ]).

(* ------------------------------------------------------------------ *)
(* mode bits: exhaustive over the 12 permission bits x 7 file types     *)
(* ------------------------------------------------------------------ *)

Definition fmts : list N := [c_S_IFSOCK; c_S_IFLNK; c_S_IFREG; c_S_IFBLK; c_S_IFDIR; c_S_IFCHR; c_S_IFIFO].

Definition mode_check (f p : N) : bool :=
  (N.ldiff (p + f) c_SQFS_INODE_MODE_MASK =? p) && (N.lor (N.ldiff p c_S_IFMT) f =? p + f).

Lemma mode_check_all : forallb (fun f => forallb (mode_check f) (map N.of_nat (seq 0 4096))) fmts = true.
Proof. vm_compute. reflexivity. Qed.

Lemma mode_check_ok f p : In f fmts -> p < 4096 -> mode_check f p = true.
Proof.
  intros Hf Hp. pose proof mode_check_all as A. rewrite forallb_forall in A.
  specialize (A f Hf). rewrite forallb_forall in A. apply A.
  rewrite <- (N2Nat.id p). apply in_map. apply in_seq. lia.
Qed.

Lemma ifmt_in ty f : ifmt_of_type ty = Some f -> In f fmts.
Proof.
  unfold ifmt_of_type, fmts. intro H.
  repeat match type of H with
         | (if ?c then _ else _) = _ => destruct c; [injection H as <-; cbn; tauto|]
         end.
  discriminate.
Qed.

Lemma mode_rt ty m :
  mode_okb ty m = true ->
  exists p, p < 4096 /\ N.ldiff m c_SQFS_INODE_MODE_MASK = p /\ set_mode ty p = Some m.
Proof.
  unfold mode_okb, set_mode. destruct (ifmt_of_type ty) as [f|] eqn:E; [|discriminate].
  rewrite andb_true_iff, N.leb_le, N.ltb_lt. intros [H1 H2].
  exists (m - f). assert (Hp : m - f < 4096) by lia. split; [exact Hp|].
  pose proof (mode_check_ok f (m - f) (ifmt_in _ _ E) Hp) as C.
  unfold mode_check in C. rewrite andb_true_iff, !N.eqb_eq in C. destruct C as [C1 C2].
  replace (m - f + f) with m in * by lia. split; [exact C1|]. rewrite C2. reflexivity.
Qed.

(* ------------------------------------------------------------------ *)
(* payload lemmas                                                       *)
(* ------------------------------------------------------------------ *)

Lemma enc_words_length bl : nlen (enc_words bl) = nlen bl * 4.
Proof.
  unfold nlen. induction bl as [|a bl IH]; [reflexivity|].
  cbn [enc_words flat_map]. rewrite app_length. unfold le32 at 1. rewrite le_length.
  fold (enc_words bl). cbn [length]. lia.
Qed.

Lemma words_of_enc bl : wordsb bl = true -> words_of (enc_words bl) = bl.
Proof.
  induction bl as [|a bl IH]; intro W; [reflexivity|].
  cbn [wordsb forallb] in W. apply andb_true_iff in W. destruct W as [Wa Wr]. apply N.ltb_lt in Wa.
  cbn [enc_words flat_map]. fold (enc_words bl).
  pose proof (rd_le 4 a [] Wa) as R. unfold le32. cbn [le app] in *.
  cbn [words_of]. unfold rd32. rewrite R. f_equal. apply IH. exact Wr.
Qed.

Lemma dec_index_enc idx : forall rest,
  forallb idx_wfb idx = true ->
  dec_index (length idx) (flat_map enc_idx idx ++ rest) = Ok (idx, rest).
Proof.
  induction idx as [|e idx IH]; intros rest W; [reflexivity|].
  cbn [forallb] in W. apply andb_true_iff in W. destruct W as [We Wr].
  unfold idx_wfb in We. rewrite !andb_true_iff, !N.ltb_lt, negb_true_iff, N.eqb_neq, N.leb_le in We.
  destruct We as [[[[E1 E2] E3] E4] E5].
  cbn [length flat_map dec_index]. unfold enc_idx at 1. rewrite <- !app_assoc.
  set (fs := [(W4, dx_index e); (W4, dx_start e); (W4, nlen (dx_name e) - 1)]).
  assert (F : fitsb fs = true).
  { unfold fitsb, fs. cbn [forallb fst snd]. rewrite !andb_true_iff, !N.ltb_lt. pows.
    repeat split; try assumption; lia. }
  rewrite take_encf by reflexivity. cbn [bind]. rdfs F.
  replace (nlen (dx_name e) - 1 + 1) with (nlen (dx_name e)) by lia.
  rewrite take_app by reflexivity. cbn [bind]. rewrite IH by exact Wr. cbn [bind].
  destruct e; reflexivity.
Qed.

Lemma idx_names_ok_of_wf idx : forallb idx_wfb idx = true -> idx_names_ok idx = true.
Proof.
  unfold idx_names_ok. rewrite !forallb_forall. intros H e He. specialize (H e He).
  unfold idx_wfb in H. rewrite !andb_true_iff in H. tauto.
Qed.

(* ------------------------------------------------------------------ *)
(* round trip                                                           *)
(* ------------------------------------------------------------------ *)

Lemma base_fits ty b p :
  base_wfb ty b = true -> N.ldiff (ib_mode b) c_SQFS_INODE_MODE_MASK = p -> p < 4096 -> ty < 65536 ->
  fitsb (base_fields ty b) = true.
Proof.
  unfold base_wfb. rewrite !andb_true_iff, !N.ltb_lt. intros [[[[_ U] G] M] I] Hp Hp' Hty.
  unfold fitsb, base_fields. cbn [forallb fst snd]. rewrite Hp. pows.
  rewrite !andb_true_iff, !N.ltb_lt. repeat split; try assumption; lia.
Qed.

Lemma type_of_small b : type_of b < 65536.
Proof. destruct b; cbn [type_of]; try destruct chr; try destruct sock; vm_compute; reflexivity. Qed.

Lemma decode_header bs ty b X :
  base_wfb ty b = true -> ty < 65536 ->
  decode bs (encf (base_fields ty b) ++ X) =
  (do (body, l2) <- decode_body bs ty X; Ok (mkInode b body, l2)).
Proof.
  intros W Hty. pose proof W as W0. unfold base_wfb in W0. rewrite !andb_true_iff in W0.
  destruct W0 as [[[[Wm _] _] _] _]. destruct (mode_rt _ _ Wm) as [p [Hp [Hl Hs]]].
  pose proof (base_fits ty b p W Hl Hp Hty) as F.
  unfold decode. rewrite take_encf by reflexivity. cbn [bind]. rdfs F.
  rewrite Hl, Hs. destruct b; reflexivity.
Qed.

Ltac type_tests :=
  unfold decode_body, c_SQFS_INODE_DIR, c_SQFS_INODE_FILE, c_SQFS_INODE_SLINK, c_SQFS_INODE_BDEV,
    c_SQFS_INODE_CDEV, c_SQFS_INODE_FIFO, c_SQFS_INODE_SOCKET, c_SQFS_INODE_EXT_DIR, c_SQFS_INODE_EXT_FILE,
    c_SQFS_INODE_EXT_SLINK, c_SQFS_INODE_EXT_BDEV, c_SQFS_INODE_EXT_CDEV, c_SQFS_INODE_EXT_FIFO,
    c_SQFS_INODE_EXT_SOCKET;
  cbn [N.eqb Pos.eqb orb].

Lemma decode_body_rt bs b p rest :
  bs <> 0 -> body_wfb bs b = true -> body_payload b = Ok p ->
  decode_body bs (type_of b) (encf (body_fields b) ++ p ++ rest) =
  Ok (i_body (clear_slack (mkInode (mkBase 0 0 0 0 0) b)), rest).
Proof.
  intros Hbs W P. unfold body_wfb in W. apply andb_true_iff in W. destruct W as [F W].
  apply N.eqb_neq in Hbs.
  destruct b; cbn [type_of body_payload clear_slack i_body] in *;
    try (injection P as <-); try destruct chr; try destruct sock; type_tests.
  - (* dir *) rewrite take_encf by reflexivity. cbn [bind]. rdfs F. reflexivity.
  - (* file *)
    apply andb_true_iff in W. destruct W as [W1 W2]. apply N.eqb_eq in W2.
    rewrite take_encf by reflexivity. cbn [bind]. rdfs F. rewrite Hbs.
    rewrite take_app by (rewrite enc_words_length, W2; reflexivity). cbn [bind].
    rewrite words_of_enc by exact W1. reflexivity.
  - (* slink *)
    rewrite take_encf by reflexivity. cbn [bind]. rdfs F.
    rewrite take_app by reflexivity. cbn [bind]. reflexivity.
  - rewrite take_encf by reflexivity. cbn [bind]. rdfs F. reflexivity.
  - rewrite take_encf by reflexivity. cbn [bind]. rdfs F. reflexivity.
  - (* fifo/sock: 4 bytes read with rd32 *)
    rewrite take_encf by reflexivity. cbn [bind].
    change (rd32 (encf (body_fields (BIpc true nlink slack)))) with (rdf 4 0 (encf (body_fields (BIpc true nlink slack)))).
    rdfs F. reflexivity.
  - rewrite take_encf by reflexivity. cbn [bind].
    change (rd32 (encf (body_fields (BIpc false nlink slack)))) with (rdf 4 0 (encf (body_fields (BIpc false nlink slack)))).
    rdfs F. reflexivity.
  - (* ext dir *)
    rewrite !andb_true_iff in W. destruct W as [[W1 W2] W3]. apply N.eqb_eq in W1.
    rewrite (idx_names_ok_of_wf _ W2) in P. injection P as <-.
    rewrite take_encf by reflexivity. cbn [bind]. rdfs F.
    destruct (size =? 0) eqn:Z.
    + cbn [negb orb] in W3. apply N.eqb_eq in W3. destruct index; [|discriminate]. reflexivity.
    + subst icount. unfold nlen. rewrite Nat2N.id. rewrite dec_index_enc by exact W2. reflexivity.
  - (* ext file *)
    apply andb_true_iff in W. destruct W as [W1 W2]. apply N.eqb_eq in W2.
    rewrite take_encf by reflexivity. cbn [bind]. rdfs F. rewrite Hbs.
    rewrite take_app by (rewrite enc_words_length, W2; reflexivity). cbn [bind].
    rewrite words_of_enc by exact W1. reflexivity.
  - (* ext slink *)
    apply andb_true_iff in W. destruct W as [W1 W2]. apply N.ltb_lt in W2.
    rewrite take_encf by reflexivity. cbn [bind]. rdfs F.
    rewrite <- app_assoc. rewrite take_app by reflexivity. cbn [bind].
    rewrite take_app by reflexivity. cbn [bind].
    pose proof (rd_le 4 xattr [] W2) as R. rewrite app_nil_r in R. unfold rd32, le32. rewrite R. reflexivity.
  - rewrite take_encf by reflexivity. cbn [bind]. rdfs F. reflexivity.
  - rewrite take_encf by reflexivity. cbn [bind]. rdfs F. reflexivity.
  - rewrite take_encf by reflexivity. cbn [bind]. rdfs F. reflexivity.
  - rewrite take_encf by reflexivity. cbn [bind]. rdfs F. reflexivity.
Qed.

Lemma inode_rt_l bs i rest :
  bs <> 0 -> inode_wfb bs i = true ->
  exists bytes, encode i = Ok bytes /\ decode bs (bytes ++ rest) = Ok (clear_slack i, rest).
Proof.
  intros Hbs W. unfold inode_wfb in W. apply andb_true_iff in W. destruct W as [Wb Wd].
  destruct i as [b body]. cbn [i_base i_body] in *.
  assert (P : exists p, body_payload body = Ok p).
  { destruct body; cbn [body_payload]; try (eexists; reflexivity).
    unfold body_wfb in Wd. rewrite !andb_true_iff in Wd. destruct Wd as [_ [[_ W2] _]].
    rewrite (idx_names_ok_of_wf _ W2). eexists; reflexivity. }
  destruct P as [p P]. unfold encode. cbn [i_base i_body]. rewrite P. cbn [bind].
  eexists. split; [reflexivity|].
  rewrite <- !app_assoc. rewrite decode_header by (try exact Wb; apply type_of_small).
  rewrite (decode_body_rt bs body p rest Hbs Wd P). cbn [bind].
  destruct body; reflexivity.
Qed.

(* ------------------------------------------------------------------ *)
(* inode.c mutators keep "every field fits the current form"           *)
(* ------------------------------------------------------------------ *)

Definition is_file (b : ibody) : bool :=
  match b with BFile _ _ _ _ _ | BFileX _ _ _ _ _ _ _ _ => true | _ => false end.

Definition blocks_of (b : ibody) : list N :=
  match b with BFile _ _ _ _ bl => bl | BFileX _ _ _ _ _ _ _ bl => bl | _ => [] end.

(* field ranges only (no block-count relation): what inode.c alone is responsible for *)
Definition file_fits (b : ibody) : Prop :=
  is_file b = true /\ fitsb (body_fields b) = true /\ wordsb (blocks_of b) = true.

Lemma fits2 v r : fitsb ((W2, v) :: r) = true <-> v < 65536 /\ fitsb r = true.
Proof. unfold fitsb. cbn [forallb fst snd]. rewrite andb_true_iff, N.ltb_lt. reflexivity. Qed.
Lemma fits4 v r : fitsb ((W4, v) :: r) = true <-> v < 4294967296 /\ fitsb r = true.
Proof. unfold fitsb. cbn [forallb fst snd]. rewrite andb_true_iff, N.ltb_lt. reflexivity. Qed.
Lemma fits8 v r : fitsb ((W8, v) :: r) = true <-> v < 18446744073709551616 /\ fitsb r = true.
Proof. unfold fitsb. cbn [forallb fst snd]. rewrite andb_true_iff, N.ltb_lt. reflexivity. Qed.
Lemma fits0 : fitsb [] = true <-> True.
Proof. unfold fitsb. cbn. tauto. Qed.

Ltac fits_goal :=
  cbn [body_fields]; repeat (rewrite fits2 || rewrite fits4 || rewrite fits8 || rewrite fits0);
  repeat split; try assumption; try lia.

Ltac fits_hyp F :=
  cbn [body_fields] in F;
  repeat (rewrite fits2 in F || rewrite fits4 in F || rewrite fits8 in F || rewrite fits0 in F).

Ltac ltb_cases :=
  repeat match goal with
         | |- context [?a <? ?b] => destruct (N.ltb_spec a b)
         | |- context [?a <=? ?b] => destruct (N.leb_spec a b)
         | |- context [?a =? ?b] => destruct (N.eqb_spec a b)
         end.

Lemma file_fits_new : file_fits new_file_inode.
Proof.
  unfold file_fits, new_file_inode. cbn [is_file blocks_of wordsb forallb].
  split; [reflexivity|split; [|reflexivity]]. unfold NOX. fits_goal.
Qed.

Lemma file_fits_make_basic b : file_fits b -> file_fits (make_basic b).
Proof.
  intros [I [F W]]. destruct b; try discriminate; unfold make_basic; cbn [get_xattr_index].
  - cbn. repeat split; assumption.
  - cbn [blocks_of] in W. pose proof F as F0. fits_hyp F. unfold U32MAX.
    destruct (negb (xattr =? NOX)); [repeat split; assumption|].
    destruct (N.ltb_spec 4294967295 blocks_start); cbn [orb]; [repeat split; assumption|].
    destruct (N.ltb_spec 4294967295 file_size); cbn [orb]; [repeat split; assumption|].
    destruct (0 <? sparse); cbn [orb]; [repeat split; assumption|].
    destruct (1 <? nlink); cbn [orb]; [repeat split; assumption|].
    unfold file_fits. cbn [is_file blocks_of]. split; [reflexivity|split; [|assumption]]. fits_goal.
Qed.

Lemma file_fits_set_size b sz b' :
  file_fits b -> sz < 18446744073709551616 -> set_file_size b sz = Ok b' -> file_fits b'.
Proof.
  intros [I [F W]] Hs E. destruct b; try discriminate; cbn [set_file_size] in E; cbn [blocks_of] in W.
  - fits_hyp F. revert E. unfold U32MAX, NOX. destruct (N.ltb_spec 4294967295 sz); intro E; injection E as <-;
      unfold file_fits; cbn [is_file blocks_of]; (split; [reflexivity|split; [|assumption]]); fits_goal.
  - assert (X : file_fits (BFileX blocks_start sz sparse nlink frag_idx frag_off xattr blocks)).
    { fits_hyp F. unfold file_fits. cbn [is_file blocks_of]. split; [reflexivity|split; [|assumption]]. fits_goal. }
    destruct (sz <? U32MAX); injection E as <-; [apply file_fits_make_basic|]; exact X.
Qed.

Lemma file_fits_set_start b loc b' :
  file_fits b -> loc < 18446744073709551616 -> set_file_block_start b loc = Ok b' -> file_fits b'.
Proof.
  intros [I [F W]] Hs E. destruct b; try discriminate; cbn [set_file_block_start] in E; cbn [blocks_of] in W.
  - fits_hyp F. revert E. unfold U32MAX, NOX. destruct (N.ltb_spec 4294967295 loc); intro E; injection E as <-;
      unfold file_fits; cbn [is_file blocks_of]; (split; [reflexivity|split; [|assumption]]); fits_goal.
  - assert (X : file_fits (BFileX loc file_size sparse nlink frag_idx frag_off xattr blocks)).
    { fits_hyp F. unfold file_fits. cbn [is_file blocks_of]. split; [reflexivity|split; [|assumption]]. fits_goal. }
    destruct (loc <? U32MAX); injection E as <-; [apply file_fits_make_basic|]; exact X.
Qed.

Lemma file_fits_set_frag b i o b' :
  file_fits b -> i < 4294967296 -> o < 4294967296 -> set_frag_location b i o = Ok b' -> file_fits b'.
Proof.
  intros [I [F W]] Hi Ho E. destruct b; try discriminate; cbn [set_frag_location] in E; cbn [blocks_of] in W;
    injection E as <-; fits_hyp F; unfold file_fits; cbn [is_file blocks_of];
    (split; [reflexivity|split; [|assumption]]); fits_goal.
Qed.

Definition sparse_of (b : ibody) : N := match b with BFileX _ _ sp _ _ _ _ _ => sp | _ => 0 end.

Lemma file_fits_add_sparse b n :
  file_fits b -> sparse_of b + n < 18446744073709551616 -> file_fits (add_sparse b n).
Proof.
  intros [I [F W]] Hn. destruct b; try discriminate; cbn [add_sparse make_extended sparse_of] in *;
    cbn [blocks_of] in W; fits_hyp F; unfold file_fits; cbn [is_file blocks_of]; unfold NOX;
    (split; [reflexivity|split; [|assumption]]); fits_goal.
Qed.

Lemma file_fits_put_blocks b bl : file_fits b -> wordsb bl = true -> file_fits (put_blocks b bl).
Proof.
  intros [I [F W]] Hb. destruct b; try discriminate; cbn [put_blocks]; unfold file_fits;
    cbn [is_file blocks_of]; (split; [reflexivity|split; [exact F|exact Hb]]).
Qed.

(* every inode the block processor can leave behind through the inode.c API *)
Inductive file_reach : ibody -> Prop :=
| fr_new : file_reach new_file_inode
| fr_size b sz b' : file_reach b -> sz < 18446744073709551616 -> set_file_size b sz = Ok b' -> file_reach b'
| fr_start b loc b' : file_reach b -> loc < 18446744073709551616 -> set_file_block_start b loc = Ok b' -> file_reach b'
| fr_frag b i o b' : file_reach b -> i < 4294967296 -> o < 4294967296 -> set_frag_location b i o = Ok b' -> file_reach b'
| fr_sparse b n : file_reach b -> sparse_of b + n < 18446744073709551616 -> file_reach (add_sparse b n)
| fr_blocks b bl : file_reach b -> wordsb bl = true -> file_reach (put_blocks b bl).

Lemma file_reach_fits b : file_reach b -> file_fits b.
Proof.
  induction 1.
  - apply file_fits_new.
  - eapply file_fits_set_size; eassumption.
  - eapply file_fits_set_start; eassumption.
  - apply (file_fits_set_frag b i o b'); assumption.
  - apply file_fits_add_sparse; assumption.
  - apply file_fits_put_blocks; assumption.
Qed.

(* ------------------------------------------------------------------ *)
(* serialize_tree_node: the chosen form holds every field              *)
(* ------------------------------------------------------------------ *)

Definition kind_fmt (k : nkind) : N :=
  match k with
  | KDir _ _ _ _ _ => c_S_IFDIR
  | KFile _ => c_S_IFREG
  | KSlink _ => c_S_IFLNK
  | KDev c _ => if c then c_S_IFCHR else c_S_IFBLK
  | KIpc s => if s then c_S_IFSOCK else c_S_IFIFO
  end.

(* what the tree and the earlier stages guarantee about a node (all in the C types of tree_node_t) *)
Definition kind_ok (bs : N) (k : nkind) : Prop :=
  match k with
  | KDir r s c idx par =>
      r / 65536 < 4294967296 /\ s + 3 < 4294967296 /\ c + 2 < 4294967296 /\ par < 4294967296 /\
      nlen idx < 65536 /\ forallb idx_wfb idx = true
  | KFile b => file_fits b /\ nlen (blocks_of b) = block_count (match kind_of b with VFile s => s | _ => 0 end) bs
                                       (match b with BFile _ fi _ _ _ => fi | BFileX _ _ _ _ fi _ _ _ => fi | _ => 0 end)
                                       (match b with BFile _ _ fo _ _ => fo | BFileX _ _ _ _ _ fo _ _ => fo | _ => 0 end)
  | KSlink t => bytesb t = true /\ nlen t < 4294967296
  | KDev _ d => d < 4294967296
  | KIpc _ => True
  end.

Definition node_ok (bs : N) (n : tnode) : Prop :=
  kind_fmt (tn_kind n) <= tn_mode n < kind_fmt (tn_kind n) + 4096 /\
  tn_mtime n < 4294967296 /\ tn_ino n < 4294967296 /\
  1 <= tn_nlink n < 4294967296 /\ tn_xattr n < 4294967296 /\
  kind_ok bs (tn_kind n).

Lemma shape_fmt n :
  (match tn_kind n with KFile b => is_file b = true | _ => True end) ->
  ifmt_of_type (type_of (shape n)) = Some (kind_fmt (tn_kind n)).
Proof.
  intro Hf. unfold shape, set_xattr_index, dir_create_inode.
  destruct (tn_kind n) as [r s c idx par|b|t|ch d|so]; cbn [is_kdir negb andb kind_fmt].
  - destruct (tn_xattr n =? NOX); cbn [negb orb andb];
      repeat match goal with |- context [if ?c then _ else _] => destruct c end; reflexivity.
  - destruct b; try discriminate; unfold make_basic;
      repeat match goal with |- context [if ?c then _ else _] => destruct c; cbn [put_nlink make_extended put_xattr get_xattr_index] end;
      reflexivity.
  - unfold make_basic. destruct (tn_xattr n =? NOX) eqn:E; cbn [make_extended put_xattr andb get_xattr_index].
    + cbn. reflexivity.
    + reflexivity.
  - unfold make_basic. destruct (tn_xattr n =? NOX) eqn:E; cbn [make_extended put_xattr andb get_xattr_index];
      destruct ch; reflexivity.
  - unfold make_basic. destruct (tn_xattr n =? NOX) eqn:E; cbn [make_extended put_xattr andb get_xattr_index];
      destruct so; reflexivity.
Qed.

(* ---- body_wfb is preserved by the shaping steps ---- *)

Ltac wf_split W :=
  unfold body_wfb in W; apply andb_true_iff in W; destruct W as [?F ?W].

Lemma wf_make_extended bs b : body_wfb bs b = true -> body_wfb bs (make_extended b) = true.
Proof.
  intro W. destruct b; cbn [make_extended]; try exact W; wf_split W; unfold body_wfb; apply andb_true_iff;
    fits_hyp F.
  - split; [unfold NOX; fits_goal|]. change (nlen (@nil dir_idx)) with 0. cbn [N.eqb forallb andb]. apply orb_true_r.
  - split; [unfold NOX; fits_goal|]. exact W.
  - split; [unfold NOX; fits_goal|]. rewrite W. reflexivity.
  - split; [|reflexivity]. apply N.ltb_lt in W. fits_goal.
Qed.

Lemma wf_make_basic bs b : body_wfb bs b = true -> body_wfb bs (make_basic b) = true.
Proof.
  intro W. unfold make_basic. destruct (negb (get_xattr_index b =? NOX)) eqn:X; [exact W|].
  apply negb_false_iff, N.eqb_eq in X.
  destruct b; try exact W; cbn [get_xattr_index] in X; subst.
  - (* ext dir *)
    unfold U16MAX. destruct (N.ltb_spec 65535 size); [exact W|].
    wf_split W. fits_hyp F. unfold body_wfb. apply andb_true_iff. split; [fits_goal|reflexivity].
  - (* ext file *)
    unfold U32MAX.
    destruct (N.ltb_spec 4294967295 blocks_start); cbn [orb]; [exact W|].
    destruct (N.ltb_spec 4294967295 file_size); cbn [orb]; [exact W|].
    destruct (0 <? sparse); cbn [orb]; [exact W|].
    destruct (1 <? nlink); cbn [orb]; [exact W|].
    wf_split W. fits_hyp F. unfold body_wfb. apply andb_true_iff. split; [fits_goal|exact W].
  - wf_split W. fits_hyp F. apply andb_true_iff in W. destruct W as [W1 _].
    unfold body_wfb. apply andb_true_iff. split; [fits_goal|exact W1].
  - wf_split W. fits_hyp F. unfold body_wfb. apply andb_true_iff. split; [fits_goal|reflexivity].
  - wf_split W. fits_hyp F. unfold body_wfb. apply andb_true_iff. split; [fits_goal|].
    apply N.ltb_lt. unfold NOX. lia.
Qed.

Lemma wf_put_xattr bs b x : x < 4294967296 -> body_wfb bs b = true -> body_wfb bs (put_xattr b x) = true.
Proof.
  intros Hx W. destruct b; cbn [put_xattr]; try exact W; wf_split W; unfold body_wfb; apply andb_true_iff;
    fits_hyp F.
  - split; [fits_goal|exact W].
  - split; [fits_goal|exact W].
  - split; [fits_goal|]. apply andb_true_iff in W. destruct W as [W1 _]. rewrite W1. apply N.ltb_lt. exact Hx.
  - split; [fits_goal|reflexivity].
  - split; [fits_goal|reflexivity].
Qed.

Lemma wf_put_nlink bs b n : n < 4294967296 -> body_wfb bs b = true -> body_wfb bs (put_nlink b n) = true.
Proof.
  intros Hx W. destruct b; cbn [put_nlink]; try exact W; wf_split W; unfold body_wfb; apply andb_true_iff;
    fits_hyp F.
  - split; [fits_goal|reflexivity].
  - split; [fits_goal|exact W].
  - split; [fits_goal|exact W].
Qed.

Lemma wf_set_xattr_index bs b x :
  x < 4294967296 -> body_wfb bs b = true -> body_wfb bs (set_xattr_index b x) = true.
Proof.
  intros Hx W. unfold set_xattr_index. apply wf_put_xattr; [exact Hx|].
  destruct (x =? NOX); [exact W|apply wf_make_extended; exact W].
Qed.

Lemma wf_dir_create bs r s c x par idx :
  r / 65536 < 4294967296 -> s + 3 < 4294967296 -> c + 2 < 4294967296 -> par < 4294967296 ->
  nlen idx < 65536 -> forallb idx_wfb idx = true -> x < 4294967296 ->
  body_wfb bs (dir_create_inode r s c 0 x par idx) = true.
Proof.
  intros Hr Hs Hc Hp Hi Hw Hx. unfold dir_create_inode.
  assert (Hm : r mod 65536 < 65536) by (apply N.mod_lt; discriminate).
  unfold U32MAX, U16MAX. change (65535 - 3) with 65532.
  destruct (negb (x =? NOX) || (4294967295 <? r / 65536) || (65532 <? s) || (c_DIR_INDEX_THRESHOLD <=? c)) eqn:E.
  - unfold body_wfb. apply andb_true_iff. split; [fits_goal|].
    rewrite N.eqb_refl, Hw. cbn [andb]. destruct (N.eqb_spec (s + 3) 0); [lia|reflexivity].
  - rewrite !orb_false_iff in E. destruct E as [[[_ _] E3] _]. apply N.ltb_ge in E3.
    unfold body_wfb. apply andb_true_iff. split; [fits_goal|reflexivity].
Qed.

Lemma wf_of_file_fits bs b fs fi fo :
  file_fits b -> kind_of b = VFile fs ->
  (match b with BFile _ i _ _ _ => i | BFileX _ _ _ _ i _ _ _ => i | _ => 0 end) = fi ->
  (match b with BFile _ _ o _ _ => o | BFileX _ _ _ _ _ o _ _ => o | _ => 0 end) = fo ->
  nlen (blocks_of b) = block_count fs bs fi fo -> body_wfb bs b = true.
Proof.
  intros [I [F W]] K Hi Ho Hc. destruct b; try discriminate; cbn [kind_of blocks_of] in *;
    injection K as <-; subst; unfold body_wfb; rewrite F, W, Hc, N.eqb_refl; reflexivity.
Qed.

Lemma shape_wf bs n : node_ok bs n -> body_wfb bs (shape n) = true.
Proof.
  intros [Hm [Ht [Hi [[Hn1 Hn2] [Hx Hk]]]]]. unfold shape.
  assert (B0 : body_wfb bs
    match tn_kind n with
    | KDir r s c idx par => put_nlink (dir_create_inode r s c 0 (tn_xattr n) par idx) (tn_nlink n)
    | KFile b =>
        match b with
        | BFile _ _ _ _ _ => if 1 <? tn_nlink n then put_nlink (make_extended b) (tn_nlink n) else put_nlink b (tn_nlink n)
        | _ => put_nlink b (tn_nlink n)
        end
    | KSlink t => BSlink (tn_nlink n) t
    | KDev c d => BDev c (tn_nlink n) d
    | KIpc s => BIpc s (tn_nlink n) 0
    end = true).
  { destruct (tn_kind n) as [r s c idx par|b|t|ch d|so]; cbn [kind_ok] in Hk.
    - destruct Hk as [K1 [K2 [K3 [K4 [K5 K6]]]]]. apply wf_put_nlink; [exact Hn2|].
      apply wf_dir_create; assumption.
    - destruct Hk as [Kf Kc].
      assert (Wb : body_wfb bs b = true).
      { destruct Kf as [I FW].
        destruct b as [| bs0 fi fo fs bl | | | | | bs0 fs sp nl fi fo xa bl | | |]; try discriminate;
          cbn [kind_of blocks_of] in Kc.
        - exact (wf_of_file_fits bs _ fs fi fo (conj I FW) eq_refl eq_refl eq_refl Kc).
        - exact (wf_of_file_fits bs _ fs fi fo (conj I FW) eq_refl eq_refl eq_refl Kc). }
      destruct b; try (apply wf_put_nlink; [exact Hn2|exact Wb]).
      destruct (1 <? tn_nlink n); apply wf_put_nlink; try exact Hn2; [apply wf_make_extended|]; exact Wb.
    - destruct Hk as [K1 K2]. unfold body_wfb. apply andb_true_iff. split; [fits_goal|exact K1].
    - unfold body_wfb. apply andb_true_iff. split; [fits_goal|reflexivity].
    - unfold body_wfb. apply andb_true_iff. split; [fits_goal|reflexivity]. }
  destruct ((tn_xattr n =? NOX) && negb (is_kdir (tn_kind n))).
  - apply wf_make_basic, wf_set_xattr_index; assumption.
  - apply wf_set_xattr_index; assumption.
Qed.

(* ------------------------------------------------------------------ *)
(* id table                                                            *)
(* ------------------------------------------------------------------ *)

Lemma find_id_some id l : forall i j, find_id id l i = Some j ->
  exists k, j = i + N.of_nat k /\ nth_error l k = Some id /\ (k < length l)%nat.
Proof.
  induction l as [|x r IH]; intros i j H; [discriminate|]. cbn [find_id] in H.
  destruct (N.eqb_spec x id) as [->|Hne].
  - injection H as <-. exists O. cbn. split; [lia|split; [reflexivity|lia]].
  - destruct (IH _ _ H) as [k [K1 [K2 K3]]]. exists (S k). cbn [nth_error length]. split; [lia|split; [exact K2|lia]].
Qed.

Lemma find_id_none id l : forall i, find_id id l i = None -> ~ In id l.
Proof.
  induction l as [|x r IH]; intros i H; [intros []|]. cbn [find_id] in H.
  destruct (N.eqb_spec x id) as [->|Hne]; [discriminate|].
  intros [E|E]; [congruence|]. exact (IH _ H E).
Qed.

Lemma index_to_id_app tbl more i id : index_to_id tbl i = Some id -> index_to_id (tbl ++ more) i = Some id.
Proof.
  unfold index_to_id, nlen. rewrite app_length.
  destruct (N.ltb_spec i (N.of_nat (length tbl))) as [L|L]; [|discriminate]. intro H.
  destruct (N.ltb_spec i (N.of_nat (length tbl + length more))); [|lia].
  rewrite nth_error_app1 by lia. exact H.
Qed.

Lemma id_to_index_spec limit tbl id tbl' i :
  id_to_index limit tbl id = Ok (tbl', i) ->
  (exists more, tbl' = tbl ++ more) /\ index_to_id tbl' i = Some id /\ i < nlen tbl' /\
  (nlen tbl <= limit -> nlen tbl' <= limit) /\ (NoDup tbl -> NoDup tbl').
Proof.
  unfold id_to_index. destruct (find_id id tbl 0) as [j|] eqn:E.
  - intro H. injection H as <- <-. destruct (find_id_some _ _ _ _ E) as [k [K1 [K2 K3]]].
    split; [exists []; rewrite app_nil_r; reflexivity|].
    assert (Hj : j < nlen tbl) by (unfold nlen; lia).
    split; [|split; [exact Hj|tauto]].
    unfold index_to_id. destruct (N.ltb_spec j (nlen tbl)); [|lia].
    replace (N.to_nat j) with k by lia. exact K2.
  - destruct (N.leb_spec limit (nlen tbl)) as [L|L]; [discriminate|]. intro H. injection H as <- <-.
    split; [exists [id]; reflexivity|].
    assert (Hl : nlen (tbl ++ [id]) = nlen tbl + 1) by (unfold nlen; rewrite app_length; cbn [length]; lia).
    split; [|split; [lia|split; [lia|]]].
    + unfold index_to_id. rewrite Hl. destruct (N.ltb_spec (nlen tbl) (nlen tbl + 1)); [|lia].
      unfold nlen. rewrite Nat2N.id, nth_error_app2, Nat.sub_diag by lia. reflexivity.
    + intro ND.
      assert (NI : ~ In id tbl) by exact (find_id_none _ _ _ E).
      clear - ND NI. induction tbl as [|x r IH]; cbn [app].
      * constructor; [intros []|constructor].
      * inversion ND; subst. constructor.
        -- rewrite in_app_iff. intros [A|[A|[]]]; [tauto|]. subst. apply NI. left. reflexivity.
        -- apply IH; [assumption|]. intro A. apply NI. right. exact A.
Qed.

(* ------------------------------------------------------------------ *)
(* serialize_tree_node                                                  *)
(* ------------------------------------------------------------------ *)

Lemma node_file_ok bs n : node_ok bs n -> match tn_kind n with KFile b => is_file b = true | _ => True end.
Proof.
  intros [_ [_ [_ [_ [_ Hk]]]]]. destruct (tn_kind n); try exact I. cbn [kind_ok] in Hk. destruct Hk as [[I _] _]. exact I.
Qed.

Lemma serialize_choice_ok_l bs limit tbl n tbl' i :
  node_ok bs n -> limit <= 65536 -> nlen tbl <= limit ->
  serialize limit tbl n = Ok (tbl', i) ->
  inode_wfb bs i = true /\ nlen tbl' <= limit /\ (exists more, tbl' = tbl ++ more) /\
  index_to_id tbl' (ib_uid (i_base i)) = Some (tn_uid n) /\
  index_to_id tbl' (ib_gid (i_base i)) = Some (tn_gid n).
Proof.
  intros Hn Hl Ht. unfold serialize.
  destruct (id_to_index limit tbl (tn_uid n)) as [[t1 ui]| | |] eqn:E1; try discriminate. cbn [bind].
  destruct (id_to_index limit t1 (tn_gid n)) as [[t2 gi]| | |] eqn:E2; try discriminate. cbn [bind].
  intro H. injection H as <- <-.
  destruct (id_to_index_spec _ _ _ _ _ E1) as [[m1 M1] [U1 [U2 [U3 _]]]].
  destruct (id_to_index_spec _ _ _ _ _ E2) as [[m2 M2] [G1 [G2 [G3 _]]]].
  specialize (U3 Ht). specialize (G3 U3).
  assert (Hui : ui < nlen t2).
  { subst t2. unfold nlen in *. rewrite app_length. lia. }
  split; [|split; [exact G3|split; [|split]]].
  - unfold inode_wfb. cbn [i_base i_body]. rewrite (shape_wf bs n Hn), andb_true_r.
    unfold base_wfb, mode_okb. cbn [ib_mode ib_uid ib_gid ib_mtime ib_ino].
    rewrite (shape_fmt n (node_file_ok bs n Hn)).
    destruct Hn as [[Hm1 Hm2] [Hmt [Hi _]]].
    rewrite !andb_true_iff, N.leb_le, !N.ltb_lt. repeat split; try assumption; lia.
  - exists (m1 ++ m2). subst. rewrite app_assoc. reflexivity.
  - cbn [i_base ib_uid]. subst t2. apply index_to_id_app. exact U1.
  - exact G1.
Qed.

Lemma shape_view n :
  1 <= tn_nlink n -> (match tn_kind n with KFile b => is_file b = true | _ => True end) ->
  kind_of (shape n) = kind_of_node n /\ nlink_of (shape n) = tn_nlink n /\ get_xattr_index (shape n) = tn_xattr n.
Proof.
  intros Hn Hf. unfold shape, kind_of_node, set_xattr_index, dir_create_inode.
  destruct (tn_kind n) as [r s c idx par|b|t|ch d|so]; cbn [is_kdir negb andb].
  - rewrite andb_false_r.
    destruct (N.eqb_spec (tn_xattr n) NOX) as [E|E]; cbn [negb orb].
    + rewrite E. destruct ((U32MAX <? r / 65536) || (U16MAX - 3 <? s) || (c_DIR_INDEX_THRESHOLD <=? c));
        cbn; repeat split; reflexivity.
    + cbn. repeat split; reflexivity.
  - destruct b; try discriminate; unfold make_basic, U32MAX.
    + destruct (N.ltb_spec 1 (tn_nlink n)); destruct (N.eqb_spec (tn_xattr n) NOX) as [E|E];
        cbn [put_nlink make_extended put_xattr get_xattr_index andb negb N.eqb];
        try rewrite E; try rewrite N.eqb_refl; cbn [negb];
        repeat match goal with |- context [?a <? ?b] => destruct (N.ltb_spec a b); cbn [orb] end;
        cbn [kind_of nlink_of get_xattr_index]; repeat split; try reflexivity; try lia.
    + destruct (N.eqb_spec (tn_xattr n) NOX) as [E|E];
        cbn [put_nlink make_extended put_xattr get_xattr_index andb negb N.eqb];
        try rewrite E; try rewrite N.eqb_refl; cbn [negb];
        repeat match goal with |- context [?a <? ?b] => destruct (N.ltb_spec a b); cbn [orb] end;
        cbn [kind_of nlink_of get_xattr_index]; repeat split; try reflexivity; try lia.
  - unfold make_basic. destruct (N.eqb_spec (tn_xattr n) NOX) as [E|E];
      cbn [make_extended put_xattr get_xattr_index andb]; try rewrite E; try rewrite N.eqb_refl; cbn [negb];
      cbn [kind_of nlink_of get_xattr_index]; repeat split; reflexivity.
  - unfold make_basic. destruct (N.eqb_spec (tn_xattr n) NOX) as [E|E];
      cbn [make_extended put_xattr get_xattr_index andb]; try rewrite E; try rewrite N.eqb_refl; cbn [negb];
      cbn [kind_of nlink_of get_xattr_index]; repeat split; reflexivity.
  - unfold make_basic. destruct (N.eqb_spec (tn_xattr n) NOX) as [E|E];
      cbn [make_extended put_xattr get_xattr_index andb]; try rewrite E; try rewrite N.eqb_refl; cbn [negb];
      cbn [kind_of nlink_of get_xattr_index]; repeat split; reflexivity.
Qed.

Lemma view_clear_slack tbl i : view_of tbl (clear_slack i) = view_of tbl i.
Proof. destruct i as [b body]. destruct body; reflexivity. Qed.

Lemma node_rt_l bs limit tbl n tbl' i rest more :
  bs <> 0 -> node_ok bs n -> limit <= 65536 -> nlen tbl <= limit ->
  serialize limit tbl n = Ok (tbl', i) ->
  exists bytes i', encode i = Ok bytes /\ decode bs (bytes ++ rest) = Ok (i', rest) /\
                   view_of (tbl' ++ more) i' = view_of_node n.
Proof.
  intros Hbs Hn Hl Ht S.
  destruct (serialize_choice_ok_l bs limit tbl n tbl' i Hn Hl Ht S) as [W [_ [_ [U G]]]].
  destruct (inode_rt_l bs i rest Hbs W) as [bytes [E D]].
  exists bytes, (clear_slack i). split; [exact E|split; [exact D|]].
  rewrite view_clear_slack.
  unfold serialize in S.
  destruct (id_to_index limit tbl (tn_uid n)) as [[t1 ui]| | |]; try discriminate. cbn [bind] in S.
  destruct (id_to_index limit t1 (tn_gid n)) as [[t2 gi]| | |]; try discriminate. cbn [bind] in S.
  injection S as <- <-. cbn [i_base ib_uid ib_gid] in U, G.
  pose proof Hn as [_ [_ [_ [[Hn1 _] _]]]].
  destruct (shape_view n Hn1 (node_file_ok bs n Hn)) as [V1 [V2 V3]].
  unfold view_of, view_of_node. cbn [i_base i_body ib_mode ib_uid ib_gid ib_mtime ib_ino].
  rewrite V1, V2, V3, (index_to_id_app _ more _ _ U), (index_to_id_app _ more _ _ G). reflexivity.
Qed.
