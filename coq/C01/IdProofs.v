(* C01 — id table (lib/sqfs/src/id_table.c): every id maps to an index that reads back to it;
   more distinct ids than the 16-bit count field can hold are refused. *)
From Coq Require Import List NArith ZArith Bool Lia FinFun.
From SqfsV Require Import Base.Bytes Gen.Constants C01.GenC01 C01.Res C01.InodeModel C01.InodeProofs.
Import ListNotations.
Local Open Scope N_scope.

(* a packing run: ids are looked up one after the other *)
Fixpoint id_run (limit : N) (tbl : list N) (ids : list N) : res (list N * list N) :=
  match ids with
  | [] => Ok (tbl, [])
  | id :: r =>
    do (t1, i) <- id_to_index limit tbl id;
    do (t2, is) <- id_run limit t1 r;
    Ok (t2, i :: is)
  end.

Lemma id_run_spec limit : forall ids tbl t idxs,
  id_run limit tbl ids = Ok (t, idxs) -> nlen tbl <= limit -> NoDup tbl ->
  nlen t <= limit /\ NoDup t /\ (exists more, t = tbl ++ more) /\
  length idxs = length ids /\
  forall k id, nth_error ids k = Some id ->
    exists i, nth_error idxs k = Some i /\ index_to_id t i = Some id /\ i < nlen t.
Proof.
  induction ids as [|id r IH]; intros tbl t idxs H L ND.
  - injection H as <- <-. split; [exact L|split; [exact ND|split; [exists []; rewrite app_nil_r; reflexivity|]]].
    split; [reflexivity|]. intros k id Hk. destruct k; discriminate.
  - cbn [id_run] in H.
    destruct (id_to_index limit tbl id) as [[t1 i]| | |] eqn:E1; try discriminate. cbn [bind] in H.
    destruct (id_run limit t1 r) as [[t2 is]| | |] eqn:E2; try discriminate. cbn [bind] in H.
    injection H as <- <-.
    destruct (id_to_index_spec _ _ _ _ _ E1) as [[m1 M1] [U1 [U2 [U3 U4]]]].
    destruct (IH _ _ _ E2 (U3 L) (U4 ND)) as [A [B [[m2 M2] [C D]]]].
    split; [exact A|split; [exact B|split; [exists (m1 ++ m2); subst; rewrite app_assoc; reflexivity|]]].
    split; [cbn [length]; lia|].
    intros k id' Hk. destruct k as [|k].
    + injection Hk as <-. exists i. split; [reflexivity|]. subst t2.
      split; [apply index_to_id_app; exact U1|]. unfold nlen in *. rewrite app_length. lia.
    + cbn [nth_error] in Hk |- *. exact (D k id' Hk).
Qed.

Lemma index_to_id_in t i id : index_to_id t i = Some id -> In id t.
Proof.
  unfold index_to_id. destruct (i <? nlen t); [|discriminate]. apply nth_error_In.
Qed.

(* the count field does not wrap, and the table payload reads back *)
Lemma words_of_ids t : Forall (fun x => x < 4294967296) t -> words_of (id_table_bytes t) = t.
Proof.
  intro F. apply words_of_enc. unfold wordsb. apply forallb_forall. intros x Hx.
  apply N.ltb_lt. rewrite Forall_forall in F. exact (F x Hx).
Qed.

Lemma id_table_rt t rest :
  t <> [] -> nlen t <= 65535 -> Forall (fun x => x < 4294967296) t ->
  id_count_field t = nlen t /\
  id_table_read (id_count_field t) (id_table_bytes t ++ rest) = Ok t.
Proof.
  intros Hne L F. assert (C : id_count_field t = nlen t).
  { unfold id_count_field. apply N.mod_small. lia. }
  split; [exact C|]. unfold id_table_read. rewrite C.
  destruct (N.eqb_spec (nlen t) 0) as [Z|Z].
  - destruct t; [congruence|]. unfold nlen in Z. cbn [length] in Z. lia.
  - rewrite take_app by (apply enc_words_length). cbn [bind]. rewrite words_of_ids by exact F. reflexivity.
Qed.

Lemma id_run_range limit : forall ids tbl t idxs,
  Forall (fun x => x < 4294967296) ids -> Forall (fun x => x < 4294967296) tbl ->
  id_run limit tbl ids = Ok (t, idxs) -> Forall (fun x => x < 4294967296) t.
Proof.
  induction ids as [|id r IH]; intros tbl t idxs F Ft H.
  - injection H as <- <-. exact Ft.
  - cbn [id_run] in H.
    destruct (id_to_index limit tbl id) as [[t1 i]| | |] eqn:E1; try discriminate. cbn [bind] in H.
    destruct (id_run limit t1 r) as [[t2 is]| | |] eqn:E2; try discriminate. cbn [bind] in H.
    injection H as <- <-. inversion F; subst. apply (IH t1 t2 is H2); [|exact E2].
    unfold id_to_index in E1. destruct (find_id id tbl 0).
    + injection E1 as <- <-. exact Ft.
    + destruct (limit <=? nlen tbl); [discriminate|]. injection E1 as <- <-.
      apply Forall_app. split; [exact Ft|constructor; [exact H1|constructor]].
Qed.

(* id_rt: for every sequence of lookups that the table accepts *)
Lemma id_rt_l limit ids t idxs rest :
  limit <= 65535 -> Forall (fun x => x < 4294967296) ids -> ids <> [] ->
  id_run limit [] ids = Ok (t, idxs) ->
  id_count_field t = nlen t /\
  id_table_read (id_count_field t) (id_table_bytes t ++ rest) = Ok t /\
  length idxs = length ids /\
  forall k id, nth_error ids k = Some id ->
    exists i, nth_error idxs k = Some i /\ i < 65536 /\ index_to_id t i = Some id.
Proof.
  intros Hl F Hne H.
  assert (L0 : nlen (@nil N) <= limit) by (unfold nlen; cbn; lia).
  destruct (id_run_spec limit ids [] t idxs H L0 (NoDup_nil _)) as [A [B [[m M] [C D]]]].
  assert (Ft : Forall (fun x => x < 4294967296) t) by (exact (id_run_range limit ids [] t idxs F (Forall_nil _) H)).
  assert (Tne : t <> []).
  { destruct ids as [|id r]; [congruence|]. destruct (D O id eq_refl) as [i [_ [I _]]].
    intro Z. apply index_to_id_in in I. rewrite Z in I. exact I. }
  destruct (id_table_rt t rest Tne ltac:(lia) Ft) as [R1 R2].
  split; [exact R1|split; [exact R2|split; [exact C|]]].
  intros k id Hk. destruct (D k id Hk) as [i [I1 [I2 I3]]]. exists i. split; [exact I1|split; [lia|exact I2]].
Qed.

(* refusal: more distinct ids than [limit] are never all accepted *)
Lemma id_run_no_crash limit : forall ids tbl, id_run limit tbl ids <> Crash /\ id_run limit tbl ids <> OutOfFuel.
Proof.
  induction ids as [|id r IH]; intro tbl; [split; discriminate|]. cbn [id_run].
  unfold id_to_index. destruct (find_id id tbl 0); cbn [bind].
  - destruct (IH tbl) as [A B]. destruct (id_run limit tbl r) as [[? ?]| | |]; cbn [bind]; split; congruence.
  - destruct (limit <=? nlen tbl); cbn [bind]; [split; discriminate|].
    destruct (IH (tbl ++ [id])) as [A B].
    destruct (id_run limit (tbl ++ [id]) r) as [[? ?]| | |]; cbn [bind]; split; congruence.
Qed.

Lemma id_refuses_l limit ids l :
  NoDup l -> incl l ids -> limit < nlen l -> exists e, id_run limit [] ids = Err e.
Proof.
  intros ND Inc Big. destruct (id_run limit [] ids) as [[t idxs]|e| |] eqn:E.
  - exfalso. assert (L0 : nlen (@nil N) <= limit) by (unfold nlen; cbn; lia).
    destruct (id_run_spec limit ids [] t idxs E L0 (NoDup_nil _)) as [A [B [_ [_ D]]]].
    assert (I : incl l t).
    { intros x Hx. destruct (In_nth_error _ _ (Inc x Hx)) as [k Hk].
      destruct (D k x Hk) as [i [_ [Hi _]]]. exact (index_to_id_in _ _ _ Hi). }
    pose proof (NoDup_incl_length ND I). unfold nlen in *. lia.
  - exists e. reflexivity.
  - exfalso. exact (proj1 (id_run_no_crash limit ids []) E).
  - exfalso. exact (proj2 (id_run_no_crash limit ids []) E).
Qed.

(* ---- the behaviour before the repair: a table that accepts 65536 ids (F04) ---- *)

Definition seqN (n : nat) : list N := map N.of_nat (seq 0 n).

Lemma find_id_seqN_none n : forall i, find_id (N.of_nat n) (seqN n) i = None.
Proof.
  unfold seqN. intro i. destruct (find_id (N.of_nat n) (map N.of_nat (seq 0 n)) i) eqn:E; [|reflexivity].
  exfalso. destruct (find_id_some _ _ _ _ E) as [k [_ [K _]]].
  apply nth_error_In in K. apply in_map_iff in K. destruct K as [x [X1 X2]]. apply in_seq in X2. lia.
Qed.

Lemma seqN_S n : seqN (S n) = seqN n ++ [N.of_nat n].
Proof. unfold seqN. rewrite seq_S, map_app. reflexivity. Qed.

Lemma seqN_len n : nlen (seqN n) = N.of_nat n.
Proof. unfold nlen, seqN. rewrite map_length, seq_length. reflexivity. Qed.

(* looking up 0,1,...,n-1 in a table that already holds 0..m-1 (ids m..m+n-1) *)
Lemma id_run_fresh limit : forall n m,
  N.of_nat (m + n) <= limit ->
  exists idxs, id_run limit (seqN m) (map N.of_nat (seq m n)) = Ok (seqN (m + n), idxs).
Proof.
  induction n as [|n IH]; intros m L.
  - exists []. rewrite Nat.add_0_r. reflexivity.
  - cbn [seq map id_run]. unfold id_to_index. rewrite find_id_seqN_none, seqN_len.
    destruct (N.leb_spec limit (N.of_nat m)); [lia|]. cbn [bind]. rewrite <- seqN_S.
    destruct (IH (S m)) as [idxs E]; [lia|]. rewrite E. cbn [bind].
    replace (S m + n)%nat with (m + S n)%nat by lia. eexists. reflexivity.
Qed.

Lemma id_old_limit_refuted_l :
  exists ids t idxs, NoDup ids /\ id_run 65536 [] ids = Ok (t, idxs) /\ id_count_field t = 0 /\
    forall payload, id_table_read (id_count_field t) payload = Err c_SQFS_ERROR_CORRUPTED.
Proof.
  remember (N.to_nat 65536) as n eqn:Hn'.
  assert (Hn : N.of_nat n = 65536) by (subst n; apply N2Nat.id). clear Hn'.
  destruct (id_run_fresh 65536 n 0) as [idxs E]; [rewrite Nat.add_0_l, Hn; lia|].
  rewrite Nat.add_0_l in E.
  exists (map N.of_nat (seq 0 n)), (seqN n), idxs.
  split; [|split; [exact E|]].
  - apply Injective_map_NoDup; [intros a b; apply Nat2N.inj|apply seq_NoDup].
  - assert (C : id_count_field (seqN n) = 0).
    { unfold id_count_field. rewrite seqN_len, Hn. reflexivity. }
    split; [exact C|]. intro p. rewrite C. reflexivity.
Qed.
