(* C01 — model of the xattr writer and reader.

   lib/sqfs/src/xattr/xattr.c                sqfs_get_xattr_prefix_id / sqfs_get_xattr_prefix        -> prefix_of / prefix_by_id
   lib/util/src/str_table.c                  str_table_get_index / add_ref / del_ref / get_ref_count -> get_index, add_ref, del_ref
   lib/sqfs/src/xattr/xattr_writer_record.c  begin / add_kv / end (block de-duplication)             -> xw_begin, xw_add_kv, xw_end
   lib/sqfs/src/xattr/xattr_writer_flush.c   write_key / write_value / write_value_ool / should_store_ool /
                                             write_block_pairs / write_kv_pairs / write_id_table /
                                             alloc_location_table / flush                            -> flush_*
   lib/sqfs/src/xattr/xattr_reader.c         load (counts), get_desc, seek_kv, read (key, value, out-of-line jump),
                                             read_all                                                -> rd_*

   Representation.  The C writer keeps one array kv_pairs plus a list of (start,count) descriptors into it; the
   pairs of the set under construction live behind kv_start.  Here the finished blocks are a list of their
   slices (x_blocks) and the set under construction is x_cur; the array is the concatenation.  The red-black
   tree that finds an equal block and the hash table of the string tables are lookups by equality.  Values are
   kept as byte strings: the C code keeps them as hexadecimal strings (to_base32 / from_base32, modelled and
   proved inverse below), equal strings <-> equal values.

   The metadata layer is abstracted: a metadata writer/reader pair is a logical byte stream whose k-th 8 KiB
   block starts at on-disk offset [bs k] (relative to the start of the table); [bidx] is "the block found when
   seeking to an on-disk offset".  meta_writer.c flushes eagerly, so the position after p logical bytes is
   (bs (p / 8192), p mod 8192).  Definitions only. *)
From Coq Require Import List NArith ZArith Bool.
From SqfsV Require Import Base.Bytes Gen.Constants C01.GenC01 C01.Res.
Import ListNotations.
Local Open Scope N_scope.

Definition NOIDX : N := 4294967295.
Definition META : N := c_SQFS_META_BLOCK_SIZE.

(* ---- hexadecimal strings of the value table (to_base32 / from_base32; low nibble first) ---- *)
Definition hexmap : list N := [48; 49; 50; 51; 52; 53; 54; 55; 56; 57; 65; 66; 67; 68; 69; 70].
Definition to_hex (l : list N) : list N :=
  flat_map (fun b => [nth (N.to_nat (b mod 16)) hexmap 0; nth (N.to_nat (b / 16 mod 16)) hexmap 0]) l.
Fixpoint hex_index (c : N) (m : list N) (i : N) : N :=       (* strchr(hexmap, c) - hexmap *)
  match m with [] => i | x :: r => if x =? c then i else hex_index c r (i + 1) end.
Fixpoint from_hex (l : list N) : list N :=
  match l with
  | lo :: hi :: r => (hex_index lo hexmap 0 + 16 * hex_index hi hexmap 0) :: from_hex r
  | _ => []
  end.

(* ---- prefixes ---- *)
Fixpoint is_prefix (p s : list N) : bool :=
  match p, s with
  | [], _ => true
  | a :: p', b :: s' => (a =? b) && is_prefix p' s'
  | _ :: _, [] => false
  end.

Definition prefix_table : list (list N * N) :=
  [(c_xattr_prefix_user, c_SQFS_XATTR_USER); (c_xattr_prefix_trusted, c_SQFS_XATTR_TRUSTED);
   (c_xattr_prefix_security, c_SQFS_XATTR_SECURITY)].

(* sqfs_get_xattr_prefix_id + the strchr(key,'.')+1 of write_key: (type id, key without prefix) *)
Fixpoint prefix_scan (t : list (list N * N)) (key : list N) : option (N * list N) :=
  match t with
  | [] => None
  | (p, id) :: r =>
    if is_prefix p key && (length p <? length key)%nat then Some (id, skipn (length p) key)
    else prefix_scan r key
  end.
Definition prefix_of (key : list N) : option (N * list N) := prefix_scan prefix_table key.

(* sqfs_get_xattr_prefix *)
Fixpoint prefix_by_id_scan (t : list (list N * N)) (id : N) : option (list N) :=
  match t with
  | [] => None
  | (p, i) :: r => if i =? id then Some p else prefix_by_id_scan r id
  end.
Definition prefix_by_id (id : N) : option (list N) := prefix_by_id_scan prefix_table id.

(* ---- string tables ---- *)
Fixpoint list_eqb (a b : list N) : bool :=
  match a, b with
  | [], [] => true
  | x :: a', y :: b' => (x =? y) && list_eqb a' b'
  | _, _ => false
  end.

Fixpoint find_str (s : list N) (l : list (list N)) (i : nat) : option nat :=
  match l with
  | [] => None
  | x :: r => if list_eqb x s then Some i else find_str s r (S i)
  end.

(* str_table_get_index: index of the string, appended when new *)
Definition get_index (tbl : list (list N)) (s : list N) : list (list N) * nat :=
  match find_str s tbl 0 with
  | Some i => (tbl, i)
  | None => (tbl ++ [s], length tbl)
  end.

Record xwr := mkX {
  x_keys : list (list N);            (* key table *)
  x_vals : list (list N);            (* value table (byte strings) *)
  x_refs : list N;                   (* reference counts of the values, same indices *)
  x_cur : list (nat * nat);          (* pairs of the set under construction (kv_pairs[kv_start..]) *)
  x_blocks : list (list (nat * nat)) (* finished, pairwise different blocks in creation order *)
}.

Definition xw_empty : xwr := mkX [] [] [] [] [].

Fixpoint upd {A} (l : list A) (i : nat) (f : A -> A) : list A :=
  match l, i with
  | [], _ => []
  | x :: r, O => f x :: r
  | x :: r, S i' => x :: upd r i' f
  end.

Definition add_ref (refs : list N) (i : nat) := upd refs i (fun c => c + 1).
Definition del_ref (refs : list N) (i : nat) := upd refs i (fun c => if 0 <? c then c - 1 else c).

Definition xw_begin (w : xwr) : xwr := mkX (x_keys w) (x_vals w) (x_refs w) [] (x_blocks w).

(* the scan of add_kv over the pairs of the current set *)
Inductive scan_res := ScSame | ScReplace (pos old : nat) | ScNone.
Fixpoint scan_cur (cur : list (nat * nat)) (ki vi : nat) (i : nat) : scan_res :=
  match cur with
  | [] => ScNone
  | (k, v) :: r =>
    if Nat.eqb k ki && Nat.eqb v vi then ScSame
    else if Nat.eqb k ki then ScReplace i v
    else scan_cur r ki vi (S i)
  end.

Definition KEY_MAX : N := 65535.    (* sqfs_xattr_entry_t.size is 16 bit *)

Definition xw_add_kv (w : xwr) (key value : list N) : res xwr :=
  match prefix_of key with
  | None => Err c_SQFS_ERROR_UNSUPPORTED
  | Some (_, suffix) =>
    if KEY_MAX <? nlen suffix then Err c_SQFS_ERROR_OVERFLOW else
    let (keys, ki) := get_index (x_keys w) key in
    let (vals, vi) := get_index (x_vals w) value in
    let refs0 := if Nat.ltb (length (x_refs w)) (length vals) then x_refs w ++ [0] else x_refs w in
    let refs := add_ref refs0 vi in
    match scan_cur (x_cur w) ki vi 0 with
    | ScSame => Ok (mkX keys vals refs (x_cur w) (x_blocks w))     (* "return 0" after the add_ref *)
    | ScReplace pos old =>
        Ok (mkX keys vals (del_ref refs old) (upd (x_cur w) pos (fun _ => (ki, vi))) (x_blocks w))
    | ScNone => Ok (mkX keys vals refs (x_cur w ++ [(ki, vi)]) (x_blocks w))
    end
  end.

(* compare_u64 on (key << 32 | value): lexicographic *)
Definition pair_leb (a b : nat * nat) : bool :=
  Nat.ltb (fst a) (fst b) || (Nat.eqb (fst a) (fst b) && Nat.leb (snd a) (snd b)).

Fixpoint insert_pair (p : nat * nat) (l : list (nat * nat)) : list (nat * nat) :=
  match l with
  | [] => [p]
  | x :: r => if pair_leb p x then p :: l else x :: insert_pair p r
  end.
Fixpoint sort_pairs (l : list (nat * nat)) : list (nat * nat) :=
  match l with [] => [] | x :: r => insert_pair x (sort_pairs r) end.

Fixpoint pairs_eqb (a b : list (nat * nat)) : bool :=
  match a, b with
  | [], [] => true
  | (k, v) :: a', (k', v') :: b' => Nat.eqb k k' && Nat.eqb v v' && pairs_eqb a' b'
  | _, _ => false
  end.

Fixpoint find_block (blk : list (nat * nat)) (l : list (list (nat * nat))) (i : nat) : option nat :=
  match l with
  | [] => None
  | x :: r => if pairs_eqb x blk then Some i else find_block blk r (S i)
  end.

Definition xw_end (w : xwr) : xwr * N :=
  match x_cur w with
  | [] => (w, NOIDX)
  | _ =>
    let blk := sort_pairs (x_cur w) in
    match find_block blk (x_blocks w) 0 with
    | Some i => (mkX (x_keys w) (x_vals w) (x_refs w) [] (x_blocks w), N.of_nat i)
    | None => (mkX (x_keys w) (x_vals w) (x_refs w) [] (x_blocks w ++ [blk]), N.of_nat (length (x_blocks w)))
    end
  end.

(* apply_dfs for one node: begin, add every pair, end *)
Fixpoint xw_add_all (w : xwr) (kvs : list (list N * list N)) : res xwr :=
  match kvs with
  | [] => Ok w
  | (k, v) :: r => do w1 <- xw_add_kv w k v; xw_add_all w1 r
  end.

Definition xw_set (w : xwr) (kvs : list (list N * list N)) : res (xwr * N) :=
  do w1 <- xw_add_all (xw_begin w) kvs;
  Ok (xw_end w1).

Fixpoint xw_sets (w : xwr) (sets : list (list (list N * list N))) : res (xwr * list N) :=
  match sets with
  | [] => Ok (w, [])
  | s :: r =>
    do (w1, i) <- xw_set w s;
    do (w2, is) <- xw_sets w1 r;
    Ok (w2, i :: is)
  end.

(* ------------------------------------------------------------------ *)
(* flush and reader, over the abstract metadata layer                   *)
(* ------------------------------------------------------------------ *)

Section Meta.
  Variable bsK : N -> N.          (* start of the k-th block of the key/value stream, relative to its start *)
  Variable bsT : N -> N.          (* same for the id table stream *)
  Variable bidxK : N -> option N. (* block reached by seeking to a relative offset, key/value stream *)
  Variable bidxT : N -> option N.

  (* (block << 16) | (offset & 0xFFFF) of the position after p logical bytes *)
  Definition ref_at (bs : N -> N) (p : N) : N := bs (p / META) * 65536 + p mod META.

  (* sqfs_xattr_entry_t (type, size) + key without prefix *)
  Definition enc_key (ty : N) (suffix : list N) : list N := le16 ty ++ le16 (nlen suffix) ++ suffix.
  (* sqfs_xattr_value_t (size) + value *)
  Definition enc_val (v : list N) : list N := le32 (nlen v) ++ v.
  Definition enc_ool (r : N) : list N := le32 8 ++ le64 r.

  (* should_store_ool *)
  Definition should_ool (v : list N) (refcount : N) : bool := (2 <=? refcount) && (8 <? nlen v).

  (* write_block_pairs for one pair at logical position pos; ool = per value index the out-of-line reference *)
  Definition write_pair (w : xwr) (pos : N) (ool : list (option N)) (kv : nat * nat) : list N * list (option N) :=
    let key := nth (fst kv) (x_keys w) [] in
    let v := nth (snd kv) (x_vals w) [] in
    let (ty, suffix) := match prefix_of key with Some x => x | None => (0, []) end in   (* assert(type >= 0) *)
    match nth (snd kv) ool None with
    | None =>
      let kb := enc_key ty suffix in
      let r := ref_at bsK (pos + nlen kb) in
      let ool' := if should_ool v (nth (snd kv) (x_refs w) 0) then upd ool (snd kv) (fun _ => Some r) else ool in
      (kb ++ enc_val v, ool')
    | Some r => (enc_key (ty + c_SQFS_XATTR_FLAG_OOL) suffix ++ enc_ool r, ool)
    end.

  Fixpoint write_pairs (w : xwr) (pos : N) (ool : list (option N)) (l : list (nat * nat)) : list N * list (option N) :=
    match l with
    | [] => ([], ool)
    | kv :: r =>
      let (b, ool1) := write_pair w pos ool kv in
      let (b2, ool2) := write_pairs w (pos + nlen b) ool1 r in
      (b ++ b2, ool2)
    end.

  (* descriptor of a block: (start_ref, count, size_bytes) *)
  Fixpoint write_blocks (w : xwr) (pos : N) (ool : list (option N)) (bl : list (list (nat * nat)))
    : list N * list (N * N * N) :=
    match bl with
    | [] => ([], [])
    | b :: r =>
      let (bytes, ool1) := write_pairs w pos ool b in
      let (rest, descs) := write_blocks w (pos + nlen bytes) ool1 r in
      (bytes ++ rest, (ref_at bsK pos, N.of_nat (length b), nlen bytes) :: descs)
    end.

  (* sqfs_xattr_id_t *)
  Definition enc_desc (d : N * N * N) : list N :=
    let '(r, c, s) := d in le64 r ++ le32 c ++ le32 s.

  (* alloc_location_table: number of sqfs_u64 slots *)
  Definition loc_count (nblocks : N) : N :=
    let size := nblocks * sizeof_sqfs_xattr_id_t in
    size / META + (if size mod META =? 0 then 0 else 1).

  (* write_id_table: locations[0] = 0; after every entry the block of the writer position is compared with the last
     stored one and stored when different.  [bounded] = the store is guarded by i < loc_count (repaired code);
     without the guard a store at i >= loc_count is outside the array: Crash. *)
  Fixpoint id_locs (bounded : bool) (cap : N) (n : nat) (written : N) (locs : list N) : res (list N) :=
    match n with
    | O => Ok locs
    | S n' =>
      let written' := written + sizeof_sqfs_xattr_id_t in
      let blk := bsT (written' / META) in
      if blk =? last locs 0 then id_locs bounded cap n' written' locs
      else if nlen locs <? cap then id_locs bounded cap n' written' (locs ++ [blk])
      else if bounded then id_locs bounded cap n' written' locs
      else Crash
    end.

  Record ximg := mkImg {
    xi_kv : list N;            (* logical key/value stream *)
    xi_ids : list N;           (* logical id table stream *)
    xi_num : N;                (* xattr_ids of the table header *)
    xi_locs : list N           (* location table, relative to the start of the id table stream *)
  }.

  (* sqfs_xattr_writer_flush; None = "no xattrs" (SQFS_FLAG_NO_XATTRS) *)
  Definition flush (bounded : bool) (w : xwr) : res (option ximg) :=
    match x_blocks w with
    | [] => Ok None
    | _ =>
      let '(kv, descs) := write_blocks w 0 (map (fun _ => None) (x_vals w)) (x_blocks w) in
      let n := nlen (x_blocks w) in
      do locs <- id_locs bounded (loc_count n) (length descs) 0 [0];
      Ok (Some (mkImg kv (flat_map enc_desc descs) n locs))
    end.

  (* ---- reader ---- *)

  Definition rd_at (s : list N) (p n : N) : res (list N) :=
    if nlen s <? p + n then Err c_SQFS_ERROR_OUT_OF_BOUNDS
    else Ok (firstn (N.to_nat n) (skipn (N.to_nat p) s)).

  (* seek to the position named by a reference *)
  Definition seek_ref (bidx : N -> option N) (r : N) : res N :=
    if META <=? r mod 65536 then Err c_SQFS_ERROR_OUT_OF_BOUNDS else
    match bidx (r / 65536) with
    | Some k => Ok (k * META + r mod 65536)
    | None => Err c_SQFS_ERROR_OUT_OF_BOUNDS
    end.

  (* sqfs_xattr_reader_get_desc *)
  Definition rd_desc (img : ximg) (idx : N) : res (N * N * N) :=
    if xi_num img <=? idx then Err c_SQFS_ERROR_OUT_OF_BOUNDS else
    let byte := idx * sizeof_sqfs_xattr_id_t in
    match nth_error (xi_locs img) (N.to_nat (byte / META)) with
    | None => Crash                                     (* id_block_starts[block] outside the array *)
    | Some loc =>
      match bidxT loc with
      | None => Err c_SQFS_ERROR_OUT_OF_BOUNDS
      | Some k =>
        do b <- rd_at (xi_ids img) (k * META + byte mod META) sizeof_sqfs_xattr_id_t;
        Ok (rd64 b, rd32 (skipn 8 b), rd32 (skipn 12 b))
      end
    end.

  (* sqfs_xattr_reader_read: one pair at logical position p; returns key, value, position behind the pair *)
  Definition rd_pair (s : list N) (p : N) : res (list N * list N * N) :=
    do h <- rd_at s p 4;
    let ty := rd16 h in let ksz := rd16 (skipn 2 h) in
    match prefix_by_id (N.land ty c_SQFS_XATTR_PREFIX_MASK) with
    | None => Err c_SQFS_ERROR_UNSUPPORTED
    | Some pfx =>
      do kb <- rd_at s (p + 4) ksz;
      do vh <- rd_at s (p + 4 + ksz) 4;
      if negb (N.land ty c_SQFS_XATTR_FLAG_OOL =? 0) then
        do rb <- rd_at s (p + 8 + ksz) 8;
        do q <- seek_ref bidxK (rd64 rb);
        do vh2 <- rd_at s q 4;
        do v <- rd_at s (q + 4) (rd32 vh2);
        Ok (pfx ++ kb, v, p + 16 + ksz)                 (* seek back to the saved position *)
      else
        do v <- rd_at s (p + 8 + ksz) (rd32 vh);
        Ok (pfx ++ kb, v, p + 8 + ksz + rd32 vh)
    end.

  Fixpoint rd_pairs (s : list N) (p : N) (n : nat) : res (list (list N * list N)) :=
    match n with
    | O => Ok []
    | S n' =>
      do (k, v, p') <- rd_pair s p;
      do rest <- rd_pairs s p' n';
      Ok ((k, v) :: rest)
    end.

  (* sqfs_xattr_reader_read_all *)
  Definition rd_all (img : ximg) (idx : N) : res (list (list N * list N)) :=
    if idx =? NOIDX then Ok [] else
    do (r, c, _) <- rd_desc img idx;
    do p <- seek_ref bidxK r;
    rd_pairs (xi_kv img) p (N.to_nat c).
End Meta.
