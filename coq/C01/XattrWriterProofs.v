(* C01 — the recording half of the xattr writer (begin / add_kv / end): what a returned index stands for. *)
From Coq Require Import List NArith ZArith Bool Lia Permutation.
From SqfsV Require Import Base.Bytes Gen.Constants C01.GenC01 C01.Res C01.XattrModel C01.XattrProofs.
Import ListNotations.
Local Open Scope N_scope.

(* ---- meaning of a sequence of add_kv calls: a later pair replaces the value of an earlier one with the same key ---- *)
Fixpoint set_put (k v : list N) (l : list (list N * list N)) : list (list N * list N) :=
  match l with
  | [] => [(k, v)]
  | (k', v') :: r => if list_eqb k' k then (k', v) :: r else (k', v') :: set_put k v r
  end.

Definition set_spec (kvs : list (list N * list N)) : list (list N * list N) :=
  fold_left (fun l kv => set_put (fst kv) (snd kv) l) kvs [].

Lemma list_eqb_refl a : list_eqb a a = true.
Proof. apply list_eqb_eq. reflexivity. Qed.

Lemma set_put_length k v l : (length (set_put k v l) <= S (length l))%nat /\ (1 <= length (set_put k v l))%nat.
Proof.
  induction l as [|[k' v'] r IH]; cbn [set_put length]; [lia|].
  destruct (list_eqb k' k); cbn [length]; lia.
Qed.

Lemma set_spec_length_aux kvs : forall l,
  (length (fold_left (fun l kv => set_put (fst kv) (snd kv) l) kvs l) <= length l + length kvs)%nat /\
  (kvs <> [] -> 1 <= length (fold_left (fun l kv => set_put (fst kv) (snd kv) l) kvs l))%nat.
Proof.
  induction kvs as [|kv r IH]; intro l; cbn [fold_left length]; [split; [lia|congruence]|].
  destruct (IH (set_put (fst kv) (snd kv) l)) as [A B]. pose proof (set_put_length (fst kv) (snd kv) l) as [C D].
  split; [lia|]. intros _. destruct r as [|x r']; [cbn [fold_left]; lia|]. apply B. discriminate.
Qed.

(* assoc view of the spec: the value of the last pair with that key *)
Lemma assoc_set_put k v l k0 :
  assoc k0 (set_put k v l) = if list_eqb k k0 then Some v else assoc k0 l.
Proof.
  induction l as [|[k' v'] r IH]; cbn [set_put assoc].
  - reflexivity.
  - destruct (list_eqb k' k) eqn:E; cbn [assoc].
    + apply list_eqb_eq in E. subst k'. destruct (list_eqb k k0); reflexivity.
    + destruct (list_eqb k' k0) eqn:E0.
      * destruct (list_eqb k k0) eqn:E1; [|reflexivity].
        apply list_eqb_eq in E0, E1. subst. rewrite list_eqb_refl in E. discriminate.
      * exact IH.
Qed.

Lemma assoc_set_spec_aux kvs : forall l k0,
  assoc k0 (fold_left (fun l kv => set_put (fst kv) (snd kv) l) kvs l) =
  match assoc_last k0 kvs with Some x => Some x | None => assoc k0 l end.
Proof.
  induction kvs as [|[k v] r IH]; intros l k0; cbn [fold_left assoc_last fst snd]; [reflexivity|].
  rewrite IH, assoc_set_put. destruct (assoc_last k0 r); [reflexivity|]. destruct (list_eqb k k0); reflexivity.
Qed.

Lemma assoc_set_spec kvs k0 : assoc k0 (set_spec kvs) = assoc_last k0 kvs.
Proof. unfold set_spec. rewrite assoc_set_spec_aux. destruct (assoc_last k0 kvs); reflexivity. Qed.

Lemma set_put_keys k v l : NoDup (map fst l) -> NoDup (map fst (set_put k v l)).
Proof.
  induction l as [|[k' v'] r IH]; intro ND; cbn [set_put map fst].
  - constructor; [intros []|constructor].
  - cbn [map fst] in ND. inversion ND as [|? ? NI ND']; subst.
    destruct (list_eqb k' k) eqn:E; cbn [map fst]; [constructor; assumption|].
    constructor; [|apply IH; exact ND'].
    intro A. apply in_map_iff in A. destruct A as [[k1 v1] [E1 A]]. cbn [fst] in E1. subst k1.
    (* keys of set_put k v r are keys of r, or k *)
    assert (K : forall r, In (k', v1) (set_put k v r) -> In k' (map fst r) \/ k' = k).
    { clear. induction r as [|[a b] r IH]; cbn [set_put]; intro H.
      - destruct H as [H|[]]. injection H as -> _. right; reflexivity.
      - destruct (list_eqb a k) eqn:E.
        + destruct H as [H|H]; [injection H as -> _; left; left; reflexivity|left; right; apply in_map_iff; exists (k', v1); auto].
        + destruct H as [H|H]; [injection H as -> _; left; left; reflexivity|].
          destruct (IH H) as [A|A]; [left; right; exact A|right; exact A]. }
    destruct (K r A) as [B|B]; [exact (NI B)|]. subst k'. rewrite list_eqb_refl in E. discriminate.
Qed.

Lemma set_spec_keys kvs : NoDup (map fst (set_spec kvs)).
Proof.
  unfold set_spec. assert (G : forall l, NoDup (map fst l) ->
    NoDup (map fst (fold_left (fun l kv => set_put (fst kv) (snd kv) l) kvs l))).
  { induction kvs as [|kv r IH]; intros l H; cbn [fold_left]; [exact H|]. apply IH, set_put_keys, H. }
  apply G. constructor.
Qed.

(* ---- writer invariant ---- *)
Definition kv_ok (kv : list N * list N) : Prop := key_ok (fst kv) /\ val_ok (snd kv).
Definition kmap (w : xwr) (l : list (nat * nat)) : list (list N * list N) := map (pair_kv w) l.

Record winv (w : xwr) : Prop := {
  wi_kn : NoDup (x_keys w);
  wi_vn : NoDup (x_vals w);
  wi_t : tables_ok w;
  wi_cur : Forall (pair_ok w) (x_cur w);
  wi_curk : NoDup (map fst (x_cur w));
  wi_blk : Forall (Forall (pair_ok w)) (x_blocks w)
}.

Definition stable (w w' : xwr) : Prop :=
  (exists m, x_keys w' = x_keys w ++ m) /\ (exists m, x_vals w' = x_vals w ++ m) /\
  (exists m, x_blocks w' = x_blocks w ++ m).

Lemma stable_refl w : stable w w.
Proof. repeat split; exists []; rewrite app_nil_r; reflexivity. Qed.

Lemma stable_trans a b c : stable a b -> stable b c -> stable a c.
Proof.
  intros [[k1 K1] [[v1 V1] [b1 B1]]] [[k2 K2] [[v2 V2] [b2 B2]]]. repeat split.
  - exists (k1 ++ k2). rewrite K2, K1, app_assoc. reflexivity.
  - exists (v1 ++ v2). rewrite V2, V1, app_assoc. reflexivity.
  - exists (b1 ++ b2). rewrite B2, B1, app_assoc. reflexivity.
Qed.

Lemma pair_stable w w' kv : stable w w' -> pair_ok w kv -> pair_ok w' kv /\ pair_kv w' kv = pair_kv w kv.
Proof.
  intros [[k K] [[v V] _]] [A B]. unfold pair_ok, pair_kv. rewrite K, V, !app_length, !app_nth1 by assumption.
  split; [split; lia|reflexivity].
Qed.

Lemma kmap_stable w w' l : stable w w' -> Forall (pair_ok w) l -> Forall (pair_ok w') l /\ kmap w' l = kmap w l.
Proof.
  intros S F. induction F as [|kv l H F IH]; [split; [constructor|reflexivity]|].
  destruct IH as [A B]. destruct (pair_stable w w' kv S H) as [C D].
  split; [constructor; assumption|]. unfold kmap in *. cbn [map]. rewrite D, B. reflexivity.
Qed.

(* ---- add_kv ---- *)
Section Scan.
  Variables (K V : list (list N)) (ki vi : nat).
  Hypothesis NK : NoDup K.
  Hypothesis NV : NoDup V.
  Hypothesis Hki : (ki < length K)%nat.
  Hypothesis Hvi : (vi < length V)%nat.
  Let f (kv : nat * nat) : list N * list N := (nth (fst kv) K [], nth (snd kv) V []).
  Let inr (kv : nat * nat) : Prop := (fst kv < length K)%nat /\ (snd kv < length V)%nat.

  Lemma key_eqb_idx k : (k < length K)%nat -> list_eqb (nth k K []) (nth ki K []) = Nat.eqb k ki.
  Proof.
    intro H. destruct (Nat.eqb_spec k ki) as [->|NE]; [apply list_eqb_refl|].
    destruct (list_eqb (nth k K []) (nth ki K [])) eqn:E; [|reflexivity].
    apply list_eqb_eq in E. exfalso. apply NE. exact (proj1 (NoDup_nth K []) NK k ki H Hki E).
  Qed.

  Lemma scan_put : forall cur i, Forall inr cur ->
    match scan_cur cur ki vi i with
    | ScSame => set_put (nth ki K []) (nth vi V []) (map f cur) = map f cur
    | ScReplace pos old =>
        exists p, pos = (i + p)%nat /\ (exists o, nth_error cur p = Some (ki, o)) /\
                  set_put (nth ki K []) (nth vi V []) (map f cur) = map f (upd cur p (fun _ => (ki, vi)))
    | ScNone => ~ In ki (map fst cur) /\
                set_put (nth ki K []) (nth vi V []) (map f cur) = map f (cur ++ [(ki, vi)])
    end.
  Proof.
    induction cur as [|[k v] r IH]; intros i F.
    - cbn [scan_cur map set_put app]. split; [intros []|reflexivity].
    - inversion F as [|? ? [Fk Fv] Fr]; subst. cbn [fst snd] in Fk, Fv.
      cbn [scan_cur map]. change (f (k, v)) with (nth k K [], nth v V []). cbn [set_put].
      rewrite (key_eqb_idx k Fk).
      destruct (Nat.eqb_spec k ki) as [->|NE]; cbn [andb].
      + destruct (Nat.eqb_spec v vi) as [->|NV'].
        * reflexivity.
        * exists O. split; [lia|]. split; [exists v; reflexivity|]. cbn [upd map].
          change (f (ki, vi)) with (nth ki K [], nth vi V []). reflexivity.
      + specialize (IH (S i) Fr). destruct (scan_cur r ki vi (S i)) as [|pos old|].
        * rewrite IH. reflexivity.
        * destruct IH as [p [P1 [[o P2] P3]]]. exists (S p). split; [lia|]. split; [exists o; exact P2|].
          cbn [upd map]. rewrite P3. change (f (k, v)) with (nth k K [], nth v V []). reflexivity.
        * destruct IH as [NI P]. split; [cbn [map fst]; intros [A|A]; [congruence|exact (NI A)]|].
          cbn [app map]. rewrite P. change (f (k, v)) with (nth k K [], nth v V []). reflexivity.
  Qed.
End Scan.

Lemma upd_map_fst (cur : list (nat * nat)) p ki vi o :
  nth_error cur p = Some (ki, o) -> map fst (upd cur p (fun _ => (ki, vi))) = map fst cur.
Proof.
  revert p. induction cur as [|x r IH]; intros p H; destruct p; try discriminate; cbn [nth_error upd map] in *.
  - injection H as ->. reflexivity.
  - rewrite (IH _ H). reflexivity.
Qed.

Lemma upd_forall {A} (P : A -> Prop) (l : list A) p x : Forall P l -> P x -> Forall P (upd l p (fun _ => x)).
Proof.
  intros F Hx. revert p. induction F as [|y l Hy F IH]; intro p; destruct p; cbn [upd]; constructor; auto.
Qed.

Lemma get_index_lt tbl s tbl' i : get_index tbl s = (tbl', i) -> (i < length tbl')%nat /\ nth i tbl' [] = s.
Proof.
  intro H. destruct (get_index_spec _ _ _ _ H) as [_ [N _]].
  split; [apply nth_error_Some; congruence|apply nth_error_nth; exact N].
Qed.

Lemma forall_app_r {A} (P : A -> Prop) l x : Forall P l -> P x -> Forall P (l ++ [x]).
Proof. intros. apply Forall_app. split; [assumption|constructor; [assumption|constructor]]. Qed.

Lemma add_kv_spec w key value :
  winv w -> kv_ok (key, value) ->
  exists w', xw_add_kv w key value = Ok w' /\ winv w' /\ stable w w' /\ x_blocks w' = x_blocks w /\
             kmap w' (x_cur w') = set_put key value (kmap w (x_cur w)).
Proof.
  intros [KN VN [TK TV] CR CK BR] [KO VO]. cbn [fst snd] in KO, VO.
  destruct KO as [ty [sfx [P L]]]. unfold xw_add_kv. rewrite P.
  destruct (N.ltb_spec KEY_MAX (nlen sfx)) as [X|_]; [unfold KEY_MAX in X; lia|].
  destruct (get_index (x_keys w) key) as [keys ki] eqn:EK.
  destruct (get_index (x_vals w) value) as [vals vi] eqn:EV.
  destruct (get_index_spec _ _ _ _ EK) as [[mk [MK MK']] [_ KN']].
  destruct (get_index_spec _ _ _ _ EV) as [[mv [MV MV']] [_ VN']].
  destruct (get_index_lt _ _ _ _ EK) as [Lk Nk]. destruct (get_index_lt _ _ _ _ EV) as [Lv Nv].
  specialize (KN' KN). specialize (VN' VN).
  set (refs0 := if Nat.ltb (length (x_refs w)) (length vals) then x_refs w ++ [0] else x_refs w).
  (* tables of the new state *)
  assert (TK' : Forall key_ok keys).
  { subst keys. apply Forall_app. split; [exact TK|]. destruct MK' as [->| ->]; [constructor|].
    constructor; [exists ty, sfx; auto|constructor]. }
  assert (TV' : Forall val_ok vals).
  { subst vals. apply Forall_app. split; [exact TV|]. destruct MV' as [->| ->]; [constructor|]. constructor; [exact VO|constructor]. }
  assert (ST : forall refs cur, stable w (mkX keys vals refs cur (x_blocks w))).
  { intros. repeat split; cbn [x_keys x_vals x_blocks]; [exists mk; exact MK|exists mv; exact MV|exists []; rewrite app_nil_r; reflexivity]. }
  assert (INR : Forall (fun kv => (fst kv < length keys)%nat /\ (snd kv < length vals)%nat) (x_cur w)).
  { eapply Forall_impl; [|exact CR]. intros kv [A B]. subst keys vals. rewrite !app_length. lia. }
  pose proof (scan_put keys vals ki vi KN' Lk Lv (x_cur w) O INR) as SP. rewrite Nk, Nv in SP.
  assert (KM : forall refs cur, kmap (mkX keys vals refs cur (x_blocks w)) (x_cur w) = kmap w (x_cur w)).
  { intros. apply (kmap_stable w _ (x_cur w) (ST refs cur) CR). }
  assert (BR' : forall refs cur, Forall (Forall (pair_ok (mkX keys vals refs cur (x_blocks w)))) (x_blocks w)).
  { intros. eapply Forall_impl; [|exact BR]. intros b Fb. apply (kmap_stable w _ b (ST refs cur) Fb). }
  assert (CR' : forall refs cur, Forall (pair_ok (mkX keys vals refs cur (x_blocks w))) (x_cur w)).
  { intros. apply (kmap_stable w _ (x_cur w) (ST refs cur) CR). }
  assert (NEW : forall refs cur, pair_ok (mkX keys vals refs cur (x_blocks w)) (ki, vi)).
  { intros. split; cbn [fst snd x_keys x_vals]; assumption. }
  assert (E0 : kmap w (x_cur w) = map (fun kv : nat * nat => (nth (fst kv) keys [], nth (snd kv) vals [])) (x_cur w)).
  { rewrite <- (KM [] []). reflexivity. }
  destruct (scan_cur (x_cur w) ki vi 0) as [|pos old|].
  - eexists. split; [reflexivity|]. split; [|split; [apply ST|split; [reflexivity|]]].
    + constructor; cbn [x_keys x_vals x_cur x_blocks]; auto. constructor; assumption.
    + rewrite E0. unfold kmap, pair_kv. cbn [x_keys x_vals x_cur]. symmetry. exact SP.
  - destruct SP as [p [Pp [[o Po] SP]]]. cbn in Pp. subst pos.
    eexists. split; [reflexivity|]. split; [|split; [apply ST|split; [reflexivity|]]].
    + constructor; cbn [x_keys x_vals x_cur x_blocks]; auto.
      * constructor; assumption.
      * apply upd_forall; [apply CR'|apply NEW].
      * rewrite (upd_map_fst _ _ _ _ _ Po). exact CK.
    + rewrite E0. unfold kmap, pair_kv. cbn [x_keys x_vals x_cur]. symmetry. exact SP.
  - destruct SP as [NI SP].
    eexists. split; [reflexivity|]. split; [|split; [apply ST|split; [reflexivity|]]].
    + constructor; cbn [x_keys x_vals x_cur x_blocks]; auto.
      * constructor; assumption.
      * apply forall_app_r; [apply CR'|apply NEW].
      * rewrite map_app. cbn [map fst].
        clear - CK NI. induction (x_cur w) as [|x r IH]; cbn [map app] in *.
        -- constructor; [intros []|constructor].
        -- inversion CK; subst. constructor.
           ++ rewrite in_app_iff. intros [A|[A|[]]]; [tauto|]. apply NI. left. symmetry. exact A.
           ++ apply IH; [assumption|]. intro A. apply NI. right. exact A.
    + rewrite E0. unfold kmap, pair_kv. cbn [x_keys x_vals x_cur]. symmetry. exact SP.
Qed.

Lemma add_all_spec : forall kvs w,
  winv w -> Forall kv_ok kvs ->
  exists w', xw_add_all w kvs = Ok w' /\ winv w' /\ stable w w' /\ x_blocks w' = x_blocks w /\
             kmap w' (x_cur w') = fold_left (fun l kv => set_put (fst kv) (snd kv) l) kvs (kmap w (x_cur w)).
Proof.
  induction kvs as [|[k v] r IH]; intros w I F.
  - exists w. split; [reflexivity|]. split; [exact I|]. split; [apply stable_refl|]. split; reflexivity.
  - inversion F as [|? ? Fk Fr]; subst.
    destruct (add_kv_spec w k v I Fk) as [w1 [E1 [I1 [S1 [B1 K1]]]]].
    destruct (IH w1 I1 Fr) as [w2 [E2 [I2 [S2 [B2 K2]]]]].
    exists w2. cbn [xw_add_all]. rewrite E1. cbn [bind]. split; [exact E2|]. split; [exact I2|].
    split; [eapply stable_trans; eassumption|]. split; [congruence|].
    cbn [fold_left fst snd]. rewrite K2, K1. reflexivity.
Qed.

(* ---- end: sorting and de-duplication ---- *)
Lemma insert_pair_perm p l : Permutation (insert_pair p l) (p :: l).
Proof.
  induction l as [|x r IH]; cbn [insert_pair]; [reflexivity|].
  destruct (pair_leb p x); [reflexivity|]. rewrite IH. apply perm_swap.
Qed.

Lemma sort_pairs_perm l : Permutation (sort_pairs l) l.
Proof.
  induction l as [|x r IH]; cbn [sort_pairs]; [reflexivity|]. rewrite insert_pair_perm. constructor. exact IH.
Qed.

Lemma pairs_eqb_eq a : forall b, pairs_eqb a b = true <-> a = b.
Proof.
  induction a as [|[k v] a IH]; destruct b as [|[k' v'] b]; cbn [pairs_eqb]; try (split; discriminate); [tauto|].
  rewrite !andb_true_iff, !Nat.eqb_eq, IH. split; [intros [[-> ->] ->]; reflexivity|intro E; injection E; auto].
Qed.

Lemma find_block_some blk l : forall i j, find_block blk l i = Some j ->
  exists k, j = (i + k)%nat /\ nth_error l k = Some blk.
Proof.
  induction l as [|x r IH]; intros i j H; [discriminate|]. cbn [find_block] in H.
  destruct (pairs_eqb x blk) eqn:E.
  - injection H as <-. apply pairs_eqb_eq in E. subst. exists O. split; [lia|reflexivity].
  - destruct (IH _ _ H) as [k [K1 K2]]. exists (S k). split; [lia|exact K2].
Qed.

Lemma end_spec w :
  winv w ->
  winv (fst (xw_end w)) /\ stable w (fst (xw_end w)) /\ x_cur (fst (xw_end w)) = [] /\
  ((x_cur w = [] /\ snd (xw_end w) = NOIDX /\ x_blocks (fst (xw_end w)) = x_blocks w) \/
   (x_cur w <> [] /\ exists k blk, snd (xw_end w) = N.of_nat k /\ nth_error (x_blocks (fst (xw_end w))) k = Some blk /\
                                   Permutation blk (x_cur w) /\
                                   (x_blocks (fst (xw_end w)) = x_blocks w \/ x_blocks (fst (xw_end w)) = x_blocks w ++ [blk]))).
Proof.
  intros [KN VN [TK TV] CR CK BR]. unfold xw_end. destruct (x_cur w) as [|c0 cr] eqn:EC.
  - cbn [fst snd]. split; [constructor; auto; [constructor; assumption|rewrite EC; constructor|rewrite EC; constructor]|]. split; [apply stable_refl|].
    split; [exact EC|]. left. auto.
  - rewrite <- EC in *. set (blk := sort_pairs (x_cur w)).
    pose proof (sort_pairs_perm (x_cur w)) as PB. fold blk in PB.
    assert (NE : x_cur w <> []) by (rewrite EC; discriminate).
    destruct (find_block blk (x_blocks w) 0) as [i|] eqn:EF; cbn [fst snd].
    + destruct (find_block_some _ _ _ _ EF) as [k [K1 K2]]. cbn in K1. subst i.
      split; [constructor; cbn [x_keys x_vals x_cur x_blocks]; [exact KN|exact VN|constructor; [exact TK|exact TV]|constructor|constructor|exact BR]|].
      split; [split; [|split]; cbn [x_keys x_vals x_blocks]; exists []; rewrite app_nil_r; reflexivity|].
      split; [reflexivity|]. right. split; [exact NE|].
      exists k, blk. split; [reflexivity|]. split; [exact K2|]. split; [exact PB|left; reflexivity].
    + split.
      * constructor; cbn [x_keys x_vals x_cur x_blocks]; [exact KN|exact VN|constructor; [exact TK|exact TV]|constructor|constructor|].
        apply forall_app_r; [exact BR|]. eapply Permutation_Forall; [symmetry; exact PB|exact CR].
      * split; [split; [|split]; cbn [x_keys x_vals x_blocks]; [exists []|exists []|exists [blk]]; rewrite ?app_nil_r; reflexivity|].
        split; [reflexivity|]. right. split; [exact NE|].
        exists (length (x_blocks w)), blk. split; [reflexivity|]. split; [|split; [exact PB|right; reflexivity]].
        cbn [x_blocks]. rewrite nth_error_app2, Nat.sub_diag by lia. reflexivity.
Qed.

(* ---- one node (begin, adds, end) and a whole run ---- *)
Definition set_ok (kvs : list (list N * list N)) : Prop := Forall kv_ok kvs /\ nlen kvs < 4294967296.
Definition blen (w : xwr) : Prop := Forall (fun b : list (nat * nat) => nlen b < 4294967296) (x_blocks w).

(* what an index returned by end stands for in a (later) writer state *)
Definition denotes (w : xwr) (kvs : list (list N * list N)) (idx : N) : Prop :=
  (kvs = [] /\ idx = NOIDX) \/
  (exists k blk, idx = N.of_nat k /\ nth_error (x_blocks w) k = Some blk /\ Permutation (kmap w blk) (set_spec kvs)).

Lemma denotes_stable w w' kvs idx : winv w -> stable w w' -> denotes w kvs idx -> denotes w' kvs idx.
Proof.
  intros I S [A|[k [blk [E [Nb P]]]]]; [left; exact A|right].
  exists k, blk. split; [exact E|]. destruct S as [SK [SV [mb SB]]]. split.
  - rewrite SB. rewrite nth_error_app1 by (apply nth_error_Some; congruence). exact Nb.
  - assert (F : Forall (pair_ok w) blk).
    { destruct I as [_ _ _ _ _ BR]. rewrite Forall_forall in BR. apply BR. eapply nth_error_In. exact Nb. }
    destruct (kmap_stable w w' blk (conj SK (conj SV (ex_intro _ mb SB))) F) as [_ E2]. rewrite E2. exact P.
Qed.

Lemma xw_set_spec w kvs :
  winv w -> blen w -> set_ok kvs ->
  exists w' idx, xw_set w kvs = Ok (w', idx) /\ winv w' /\ blen w' /\ stable w w' /\ denotes w' kvs idx.
Proof.
  intros I BL [F LN].
  assert (I0 : winv (xw_begin w)).
  { destruct I as [KN VN [TK TV] CR CK BR]. constructor; cbn [xw_begin x_keys x_vals x_cur x_blocks]; auto; constructor; assumption. }
  assert (S0 : stable w (xw_begin w)).
  { split; [|split]; cbn [xw_begin x_keys x_vals x_blocks]; exists []; rewrite app_nil_r; reflexivity. }
  destruct (add_all_spec kvs (xw_begin w) I0 F) as [w1 [E1 [I1 [S1 [B1 K1]]]]].
  cbn [xw_begin x_cur kmap map] in K1. fold (set_spec kvs) in K1.
  unfold xw_set. rewrite E1. cbn [bind].
  destruct (end_spec w1 I1) as [I2 [S2 [C2 D]]].
  destruct (xw_end w1) as [w2 idx] eqn:EE. cbn [fst snd] in *.
  exists w2, idx. split; [reflexivity|]. split; [exact I2|].
  assert (ST : stable w w2) by (eapply stable_trans; [exact S0|eapply stable_trans; eassumption]).
  pose proof (proj1 (set_spec_length_aux kvs [])) as LS. cbn [length] in LS. fold (set_spec kvs) in LS.
  destruct D as [[C1 [Ei Eb]]|[NE [k [blk [Ei [Nb [P Eb]]]]]]].
  - split; [unfold blen; rewrite Eb, B1; exact BL|]. split; [exact ST|]. left. split; [|exact Ei].
    destruct kvs as [|kv r]; [reflexivity|exfalso].
    pose proof (proj2 (set_spec_length_aux (kv :: r) []) ltac:(discriminate)) as L1.
    fold (set_spec (kv :: r)) in L1. rewrite <- K1, C1 in L1. cbn in L1. lia.
  - assert (LB : nlen blk < 4294967296).
    { unfold nlen. rewrite (Permutation_length P). replace (length (x_cur w1)) with (length (set_spec kvs))
        by (rewrite <- K1; unfold kmap; rewrite map_length; reflexivity). unfold nlen in LN. lia. }
    split.
    + unfold blen. destruct Eb as [-> | ->]; rewrite B1; [exact BL|]. apply forall_app_r; [exact BL|exact LB].
    + split; [exact ST|]. right. exists k, blk. split; [exact Ei|]. split; [exact Nb|].
      assert (F1 : Forall (pair_ok w1) (x_cur w1)) by (destruct I1; assumption).
      destruct (kmap_stable w1 w2 (x_cur w1) S2 F1) as [_ E2].
      rewrite <- K1, <- E2. unfold kmap. apply Permutation_map. exact P.
Qed.

Lemma xw_sets_spec : forall sets w,
  winv w -> blen w -> Forall set_ok sets ->
  exists w' idxs, xw_sets w sets = Ok (w', idxs) /\ winv w' /\ blen w' /\ stable w w' /\
    length idxs = length sets /\
    forall i kvs idx, nth_error sets i = Some kvs -> nth_error idxs i = Some idx -> denotes w' kvs idx.
Proof.
  induction sets as [|s r IH]; intros w I BL F.
  - exists w, []. split; [reflexivity|]. split; [exact I|]. split; [exact BL|]. split; [apply stable_refl|].
    split; [reflexivity|]. intros i kvs idx H. destruct i; discriminate.
  - inversion F as [|? ? Fs Fr]; subst.
    destruct (xw_set_spec w s I BL Fs) as [w1 [i1 [E1 [I1 [B1 [S1 D1]]]]]].
    destruct (IH w1 I1 B1 Fr) as [w2 [is [E2 [I2 [B2 [S2 [L2 D2]]]]]]].
    exists w2, (i1 :: is). cbn [xw_sets]. rewrite E1. cbn [bind]. rewrite E2. cbn [bind].
    split; [reflexivity|]. split; [exact I2|]. split; [exact B2|]. split; [eapply stable_trans; eassumption|].
    split; [cbn [length]; lia|].
    intros i kvs idx Hs Hi. destruct i as [|i]; cbn [nth_error] in *.
    + injection Hs as <-. injection Hi as <-. exact (denotes_stable w1 w2 s i1 I1 S2 D1).
    + exact (D2 i kvs idx Hs Hi).
Qed.

Lemma winv_empty : winv xw_empty /\ blen xw_empty.
Proof. split; [constructor; cbn; try constructor; constructor|constructor]. Qed.

(* ---- the whole path: record, flush, read ---- *)
(* NOTE (session 3): the hypotheses HK (for ALL k) and HKsmall (for ALL k) of this section are jointly unsatisfiable
   (they make bsK an injection of N into [0, 2^48)), so the lemmas of this section that use both hold vacuously.
   They are no longer cited by Properties_C01.v: the satisfiable, relativised versions are in coq/ImgXattr/CodecRel.v
   (xattr_rt_rel).  The section is kept because its hypothesis-free parts are used elsewhere. *)
Section RoundTrip.
  Variables (bsK bsT : N -> N) (bidxK bidxT : N -> option N).
  Hypothesis HK : forall k, bidxK (bsK k) = Some k.
  Hypothesis HT : forall k, bidxT (bsT k) = Some k.
  Hypothesis HT0 : bsT 0 = 0.
  Hypothesis HKsmall : forall k, bsK k < 281474976710656.

  Theorem xattr_rt_l sets w idxs :
    Forall set_ok sets -> xw_sets xw_empty sets = Ok (w, idxs) -> nlen (x_blocks w) < NOIDX ->
    length idxs = length sets /\
    match flush bsK bsT true w with
    | Ok None => forall i kvs, nth_error sets i = Some kvs -> kvs = [] /\ nth_error idxs i = Some NOIDX
    | Ok (Some img) =>
        forall i kvs idx, nth_error sets i = Some kvs -> nth_error idxs i = Some idx ->
          exists l, rd_all bidxK bidxT img idx = Ok l /\ Permutation l (set_spec kvs)
    | _ => False
    end.
  Proof.
    intros F E NB. destruct winv_empty as [I0 B0].
    destruct (xw_sets_spec sets xw_empty I0 B0 F) as [w' [idxs' [E' [I [BL [_ [L D]]]]]]].
    rewrite E in E'. injection E' as <- <-. split; [exact L|].
    destruct (x_blocks w) as [|b0 bl0] eqn:EB.
    - unfold flush. rewrite EB. intros i kvs Hs.
      assert (Hi : exists idx, nth_error idxs i = Some idx).
      { destruct (nth_error idxs i) eqn:X; [eauto|]. apply nth_error_None in X.
        assert (i < length sets)%nat by (apply nth_error_Some; congruence). lia. }
      destruct Hi as [idx Hi]. destruct (D i kvs idx Hs Hi) as [[A B]|[k [blk [_ [Nb _]]]]].
      + subst. auto.
      + rewrite EB in Nb. destruct k; discriminate.
    - assert (NE : x_blocks w <> []) by (rewrite EB; discriminate). rewrite <- EB in *.
      destruct I as [KN VN T CR CK BR].
      destruct (flush_read bsK bsT bidxK bidxT HK HT HT0 HKsmall w T BR NE NB BL) as [img [EF RD]].
      rewrite EF. intros i kvs idx Hs Hi.
      destruct (D i kvs idx Hs Hi) as [[A B]|[k [blk [Ek [Nb P]]]]].
      + subst. exists []. split; [reflexivity|]. reflexivity.
      + subst idx. exists (kmap w blk). split; [exact (RD k blk Nb)|exact P].
  Qed.
End RoundTrip.

(* ---- refusals of add_kv ---- *)
Lemma add_kv_bad_prefix w key value : prefix_of key = None -> xw_add_kv w key value = Err c_SQFS_ERROR_UNSUPPORTED.
Proof. intro H. unfold xw_add_kv. rewrite H. reflexivity. Qed.

Lemma add_kv_long_key w key value ty sfx :
  prefix_of key = Some (ty, sfx) -> 65535 < nlen sfx -> xw_add_kv w key value = Err c_SQFS_ERROR_OVERFLOW.
Proof.
  intros H L. unfold xw_add_kv. rewrite H. unfold KEY_MAX. destruct (N.ltb_spec 65535 (nlen sfx)); [reflexivity|lia].
Qed.

(* ---- F06, the code before the repair: the store into the location table is not guarded ---- *)
Definition store_bs (k : N) : N := k * 8194.       (* block starts when no block shrinks: 2 byte header + 8192 *)
Definition w512 : xwr := mkX [[117; 115; 101; 114; 46; 97]] [[118]] [1] [] (repeat [(O, O)] 512).

Lemma flush_unbounded_refuted_l :
  nlen (x_blocks w512) = 512 /\ loc_count 512 = 1 /\
  flush store_bs store_bs false w512 = Crash /\ is_ok (flush store_bs store_bs true w512) = true.
Proof. vm_compute. repeat split; reflexivity. Qed.

(* ---- a concrete run (non-vacuity) ---- *)
Definition store_bidx (off : N) : option N := if off mod 8194 =? 0 then Some (off / 8194) else None.
Definition ex_key_a : list N := [117; 115; 101; 114; 46; 97].                 (* "user.a" *)
Definition ex_key_t : list N := [116; 114; 117; 115; 116; 101; 100; 46; 98].   (* "trusted.b" *)
Definition ex_long : list N := repeat 76 20.
Definition ex_sets : list (list (list N * list N)) :=
  [[(ex_key_a, [49]); (ex_key_t, ex_long)]; []; [(ex_key_t, ex_long); (ex_key_a, [50]); (ex_key_a, [49])];
   [(ex_key_a, ex_long)]].

(* ---- statements used by Properties_C01.v ---- *)
Lemma set_meaning_l kvs k : assoc k (set_spec kvs) = assoc_last k kvs /\ NoDup (map fst (set_spec kvs)).
Proof. split; [exact (assoc_set_spec kvs k)|exact (set_spec_keys kvs)]. Qed.

Lemma sets_accepted_l sets : Forall set_ok sets -> exists w idxs, xw_sets xw_empty sets = Ok (w, idxs).
Proof.
  intro F. destruct (xw_sets_spec sets xw_empty (proj1 winv_empty) (proj2 winv_empty) F) as [w [i [E _]]].
  exists w, i. exact E.
Qed.

Lemma refuses_keys_l w key value :
  (prefix_of key = None -> xw_add_kv w key value = Err c_SQFS_ERROR_UNSUPPORTED) /\
  (forall ty sfx, prefix_of key = Some (ty, sfx) -> 65535 < nlen sfx -> xw_add_kv w key value = Err c_SQFS_ERROR_OVERFLOW).
Proof. split; [apply add_kv_bad_prefix|apply add_kv_long_key]. Qed.
