(* Result type shared by the C01 models (FRAMEWORK.md modelling conventions):
   Ok v | Err e (graceful refusal, e = libsquashfs error code) | Crash (the C code would access
   memory out of bounds here) | OutOfFuel (never produced by a structurally recursive model). *)
From Coq Require Import List NArith ZArith.
Import ListNotations.

Inductive res (A : Type) : Type :=
| Ok (v : A)
| Err (e : Z)
| Crash
| OutOfFuel.
Arguments Ok {A} v.
Arguments Err {A} e.
Arguments Crash {A}.
Arguments OutOfFuel {A}.

Definition bind {A B} (r : res A) (f : A -> res B) : res B :=
  match r with
  | Ok v => f v
  | Err e => Err e
  | Crash => Crash
  | OutOfFuel => OutOfFuel
  end.

Notation "'do' x <- r ; k" := (bind r (fun x => k)) (at level 200, x pattern, r at level 100, k at level 200).

Definition is_ok {A} (r : res A) : bool := match r with Ok _ => true | _ => false end.
Definition is_err {A} (r : res A) : bool := match r with Err _ => true | _ => false end.

Local Open Scope N_scope.

(* the abstract metadata reader: "read n bytes from the current position"; a short read is an error
   (sqfs_meta_reader_read fails when the stream ends).  The length test comes first so that a huge n
   taken from untrusted bytes is never converted to nat. *)
Definition take (n : N) (l : list N) (e : Z) : res (list N * list N) :=
  if N.of_nat (length l) <? n then Err e
  else Ok (firstn (N.to_nat n) l, skipn (N.to_nat n) l).

Definition nlen {A} (l : list A) : N := N.of_nat (length l).
