(* C01 — model of the inode codec and of the inode shaping done while serialising the tree.

   lib/sqfs/src/write_inode.c   sqfs_meta_writer_write_inode, write_block_sizes, write_dir_index   -> encode
   lib/sqfs/src/read_inode.c    sqfs_meta_reader_read_inode and its helpers, set_mode, get_block_count -> decode
   lib/sqfs/src/inode.c         get/set_xattr_index, make_extended, make_basic, set_file_size,
                                set_file_block_start, set_frag_location                              -> same names
   lib/sqfs/src/dir_writer.c    sqfs_dir_writer_create_inode (basic/extended choice only)           -> dir_create_inode
   lib/common/src/writer/serialize_fstree.c  tree_node_to_inode, write_dir_entries (inode part),
                                serialize_tree_node (inode part)                                    -> shape, serialize

   A generic inode (tag + union + flexible payload) is a tagged variant; the payload ("extra") is the block-size
   list of a file, the target of a symlink, the list of index entries of an extended directory.  The one place
   where the C code looks at union bytes outside the active member (make_extended on FIFO/socket stores
   dev_ext.xattr_idx, leaving ipc_ext.xattr_idx = the 4 bytes behind ipc.nlink) is kept: BIpc carries those bytes
   as [slack].  Integers are unbounded; "fits its C type" is the predicate inode_wf of InodeProofs.v, and the
   encoders truncate exactly where the C stores truncate (le16/le32/le64 = htoleNN of a field of that width).
   Definitions only. *)
From Coq Require Import List NArith ZArith Bool.
From SqfsV Require Import Base.Bytes Gen.Constants C01.GenC01 C01.Res.
Import ListNotations.
Local Open Scope N_scope.

Definition NOX : N := 4294967295.       (* 0xFFFFFFFF: "no xattr" / "no fragment" *)
Definition U32MAX : N := 4294967295.
Definition U16MAX : N := 65535.

Record ibase := mkBase { ib_mode : N; ib_uid : N; ib_gid : N; ib_mtime : N; ib_ino : N }.

(* sqfs_dir_index_t + name; the on-disk/in-memory size field is (length name - 1) *)
Record dir_idx := mkIdx { dx_index : N; dx_start : N; dx_name : list N }.

Inductive ibody :=
| BDir (start_block nlink size offset parent : N)
| BFile (blocks_start frag_idx frag_off file_size : N) (blocks : list N)
| BSlink (nlink : N) (target : list N)
| BDev (chr : bool) (nlink devno : N)
| BIpc (sock : bool) (nlink slack : N)
| BDirX (nlink size start_block parent icount offset xattr : N) (index : list dir_idx)
| BFileX (blocks_start file_size sparse nlink frag_idx frag_off xattr : N) (blocks : list N)
| BSlinkX (nlink : N) (target : list N) (xattr : N)
| BDevX (chr : bool) (nlink devno xattr : N)
| BIpcX (sock : bool) (nlink xattr : N).

Record inode := mkInode { i_base : ibase; i_body : ibody }.

Definition type_of (b : ibody) : N :=
  match b with
  | BDir _ _ _ _ _ => c_SQFS_INODE_DIR
  | BFile _ _ _ _ _ => c_SQFS_INODE_FILE
  | BSlink _ _ => c_SQFS_INODE_SLINK
  | BDev c _ _ => if c then c_SQFS_INODE_CDEV else c_SQFS_INODE_BDEV
  | BIpc s _ _ => if s then c_SQFS_INODE_SOCKET else c_SQFS_INODE_FIFO
  | BDirX _ _ _ _ _ _ _ _ => c_SQFS_INODE_EXT_DIR
  | BFileX _ _ _ _ _ _ _ _ => c_SQFS_INODE_EXT_FILE
  | BSlinkX _ _ _ => c_SQFS_INODE_EXT_SLINK
  | BDevX c _ _ _ => if c then c_SQFS_INODE_EXT_CDEV else c_SQFS_INODE_EXT_BDEV
  | BIpcX s _ _ => if s then c_SQFS_INODE_EXT_SOCKET else c_SQFS_INODE_EXT_FIFO
  end.

(* S_IFxxx that belongs to an inode type (read_inode.c set_mode); None = SQFS_ERROR_UNSUPPORTED *)
Definition ifmt_of_type (ty : N) : option N :=
  if (ty =? c_SQFS_INODE_SOCKET) || (ty =? c_SQFS_INODE_EXT_SOCKET) then Some c_S_IFSOCK
  else if (ty =? c_SQFS_INODE_SLINK) || (ty =? c_SQFS_INODE_EXT_SLINK) then Some c_S_IFLNK
  else if (ty =? c_SQFS_INODE_FILE) || (ty =? c_SQFS_INODE_EXT_FILE) then Some c_S_IFREG
  else if (ty =? c_SQFS_INODE_BDEV) || (ty =? c_SQFS_INODE_EXT_BDEV) then Some c_S_IFBLK
  else if (ty =? c_SQFS_INODE_DIR) || (ty =? c_SQFS_INODE_EXT_DIR) then Some c_S_IFDIR
  else if (ty =? c_SQFS_INODE_CDEV) || (ty =? c_SQFS_INODE_EXT_CDEV) then Some c_S_IFCHR
  else if (ty =? c_SQFS_INODE_FIFO) || (ty =? c_SQFS_INODE_EXT_FIFO) then Some c_S_IFIFO
  else None.

(* ------------------------------------------------------------------ *)
(* write_inode.c                                                       *)
(* ------------------------------------------------------------------ *)

(* an on-disk struct is a list of (width in bytes, value) fields, stored little endian in order *)
Definition fld := (nat * N)%type.
Definition W2 : nat := 2.  Definition W4 : nat := 4.  Definition W8 : nat := 8.
Fixpoint encf (fs : list fld) : list N :=
  match fs with
  | [] => []
  | (k, v) :: r => le k v ++ encf r
  end.

(* sqfs_inode_t *)
Definition base_fields (ty : N) (b : ibase) : list fld :=
  [(W2, ty); (W2, N.ldiff (ib_mode b) c_SQFS_INODE_MODE_MASK); (W2, ib_uid b); (W2, ib_gid b);
   (W4, ib_mtime b); (W4, ib_ino b)].

(* the type specific struct that follows (field order of include/sqfs/inode.h) *)
Definition body_fields (b : ibody) : list fld :=
  match b with
  | BDir sb nl sz off par => [(W4, sb); (W4, nl); (W2, sz); (W2, off); (W4, par)]
  | BFile bs fi fo fs _ => [(W4, bs); (W4, fi); (W4, fo); (W4, fs)]
  | BSlink nl t => [(W4, nl); (W4, nlen t)]
  | BDev _ nl d => [(W4, nl); (W4, d)]
  | BIpc _ nl _ => [(W4, nl)]
  | BDirX nl sz sb par ic off xa _ => [(W4, nl); (W4, sz); (W4, sb); (W4, par); (W2, ic); (W2, off); (W4, xa)]
  | BFileX bs fs sp nl fi fo xa _ => [(W8, bs); (W8, fs); (W8, sp); (W4, nl); (W4, fi); (W4, fo); (W4, xa)]
  | BSlinkX nl t _ => [(W4, nl); (W4, nlen t)]
  | BDevX _ nl d xa => [(W4, nl); (W4, d); (W4, xa)]
  | BIpcX _ nl xa => [(W4, nl); (W4, xa)]
  end.

(* write_block_sizes: the list of htole32 words *)
Definition enc_words (l : list N) : list N := flat_map le32 l.

(* write_dir_index: one entry (sqfs_dir_index_t: index, start_block, size) + name *)
Definition enc_idx (e : dir_idx) : list N :=
  encf [(W4, dx_index e); (W4, dx_start e); (W4, nlen (dx_name e) - 1)] ++ dx_name e.

Definition idx_names_ok (l : list dir_idx) : bool :=
  forallb (fun e => negb (nlen (dx_name e) =? 0)) l.

(* what follows the fixed struct *)
Definition body_payload (b : ibody) : res (list N) :=
  match b with
  | BFile _ _ _ _ bl => Ok (enc_words bl)
  | BFileX _ _ _ _ _ _ _ bl => Ok (enc_words bl)
  | BSlink _ t => Ok t
  | BSlinkX _ t xa => Ok (t ++ le32 xa)
  | BDirX _ _ _ _ _ _ _ idx =>
      (* an index entry with an empty name cannot be built through sqfs_dir_writer (add_entry refuses
         empty names); the byte-level behaviour of write_dir_index on such a blob is not modelled *)
      if idx_names_ok idx then Ok (flat_map enc_idx idx) else Err c_SQFS_ERROR_CORRUPTED
  | _ => Ok []
  end.

Definition encode (i : inode) : res (list N) :=
  do p <- body_payload (i_body i);
  Ok (encf (base_fields (type_of (i_body i)) (i_base i)) ++ encf (body_fields (i_body i)) ++ p).

(* ------------------------------------------------------------------ *)
(* read_inode.c                                                        *)
(* ------------------------------------------------------------------ *)

Definition E_READ : Z := c_SQFS_ERROR_OUT_OF_BOUNDS.   (* whatever sqfs_meta_reader_read reports at the end *)

Definition rdf (k off : nat) (h : list N) : N := rd k (skipn off h).

Definition set_mode (ty mode : N) : option N :=
  match ifmt_of_type ty with
  | Some f => Some (N.lor (N.ldiff mode c_S_IFMT) f)
  | None => None
  end.

(* get_block_count *)
Definition block_count (size bs fi fo : N) : N :=
  size / bs + (if negb (size mod bs =? 0) && ((fi =? NOX) || (fo =? NOX)) then 1 else 0).

Fixpoint words_of (l : list N) : list N :=
  match l with
  | a :: b :: c :: d :: r => rd32 [a; b; c; d] :: words_of r
  | _ => []
  end.

(* the inodex_count loop of read_inode_dir_ext *)
Fixpoint dec_index (n : nat) (l : list N) : res (list dir_idx * list N) :=
  match n with
  | O => Ok ([], l)
  | S n' =>
    do (h, l1) <- take 12 l E_READ;
    do (nm, l2) <- take (rdf 4 8 h + 1) l1 E_READ;
    do (rest, l3) <- dec_index n' l2;
    Ok (mkIdx (rdf 4 0 h) (rdf 4 4 h) nm :: rest, l3)
  end.

Definition decode_body (bs ty : N) (l : list N) : res (ibody * list N) :=
  if ty =? c_SQFS_INODE_FILE then
    do (h, l1) <- take 16 l E_READ;
    let b := rdf 4 0 h in let fi := rdf 4 4 h in let fo := rdf 4 8 h in let fs := rdf 4 12 h in
    if bs =? 0 then Crash else
    do (w, l2) <- take (block_count fs bs fi fo * 4) l1 E_READ;
    Ok (BFile b fi fo fs (words_of w), l2)
  else if ty =? c_SQFS_INODE_SLINK then
    do (h, l1) <- take 8 l E_READ;
    do (t, l2) <- take (rdf 4 4 h) l1 E_READ;
    Ok (BSlink (rdf 4 0 h) t, l2)
  else if ty =? c_SQFS_INODE_EXT_FILE then
    do (h, l1) <- take 40 l E_READ;
    let b := rdf 8 0 h in let fs := rdf 8 8 h in let sp := rdf 8 16 h in let nl := rdf 4 24 h in
    let fi := rdf 4 28 h in let fo := rdf 4 32 h in let xa := rdf 4 36 h in
    if bs =? 0 then Crash else
    do (w, l2) <- take (block_count fs bs fi fo * 4) l1 E_READ;
    Ok (BFileX b fs sp nl fi fo xa (words_of w), l2)
  else if ty =? c_SQFS_INODE_EXT_SLINK then
    do (h, l1) <- take 8 l E_READ;
    do (t, l2) <- take (rdf 4 4 h) l1 E_READ;
    do (x, l3) <- take 4 l2 E_READ;
    Ok (BSlinkX (rdf 4 0 h) t (rd32 x), l3)
  else if ty =? c_SQFS_INODE_EXT_DIR then
    do (h, l1) <- take 24 l E_READ;
    let nl := rdf 4 0 h in let sz := rdf 4 4 h in let sb := rdf 4 8 h in let par := rdf 4 12 h in
    let ic := rdf 2 16 h in let off := rdf 2 18 h in let xa := rdf 4 20 h in
    if sz =? 0 then Ok (BDirX nl sz sb par ic off xa [], l1) else
    do (ix, l2) <- dec_index (N.to_nat ic) l1;
    Ok (BDirX nl sz sb par ic off xa ix, l2)
  else if ty =? c_SQFS_INODE_DIR then
    do (h, l1) <- take 16 l E_READ;
    Ok (BDir (rdf 4 0 h) (rdf 4 4 h) (rdf 2 8 h) (rdf 2 10 h) (rdf 4 12 h), l1)
  else if (ty =? c_SQFS_INODE_BDEV) || (ty =? c_SQFS_INODE_CDEV) then
    do (h, l1) <- take 8 l E_READ;
    Ok (BDev (ty =? c_SQFS_INODE_CDEV) (rdf 4 0 h) (rdf 4 4 h), l1)
  else if (ty =? c_SQFS_INODE_FIFO) || (ty =? c_SQFS_INODE_SOCKET) then
    do (h, l1) <- take 4 l E_READ;
    Ok (BIpc (ty =? c_SQFS_INODE_SOCKET) (rd32 h) 0, l1)      (* calloc: bytes behind nlink are 0 *)
  else if (ty =? c_SQFS_INODE_EXT_BDEV) || (ty =? c_SQFS_INODE_EXT_CDEV) then
    do (h, l1) <- take 12 l E_READ;
    Ok (BDevX (ty =? c_SQFS_INODE_EXT_CDEV) (rdf 4 0 h) (rdf 4 4 h) (rdf 4 8 h), l1)
  else if (ty =? c_SQFS_INODE_EXT_FIFO) || (ty =? c_SQFS_INODE_EXT_SOCKET) then
    do (h, l1) <- take 8 l E_READ;
    Ok (BIpcX (ty =? c_SQFS_INODE_EXT_SOCKET) (rdf 4 0 h) (rdf 4 4 h), l1)
  else Err c_SQFS_ERROR_UNSUPPORTED.

(* sqfs_meta_reader_read_inode after the seek: bytes at the inode's position -> inode, remaining bytes *)
Definition decode (bs : N) (l : list N) : res (inode * list N) :=
  do (h, l1) <- take 16 l E_READ;
  let ty := rdf 2 0 h in
  match set_mode ty (rdf 2 2 h) with
  | None => Err c_SQFS_ERROR_UNSUPPORTED
  | Some m =>
    do (b, l2) <- decode_body bs ty l1;
    Ok (mkInode (mkBase m (rdf 2 4 h) (rdf 2 6 h) (rdf 4 8 h) (rdf 4 12 h)) b, l2)
  end.

(* ------------------------------------------------------------------ *)
(* inode.c                                                             *)
(* ------------------------------------------------------------------ *)

Definition get_xattr_index (b : ibody) : N :=
  match b with
  | BDirX _ _ _ _ _ _ xa _ => xa
  | BFileX _ _ _ _ _ _ xa _ => xa
  | BSlinkX _ _ xa => xa
  | BDevX _ _ _ xa => xa
  | BIpcX _ _ xa => xa
  | _ => NOX
  end.

Definition make_extended (b : ibody) : ibody :=
  match b with
  | BDir sb nl sz off par => BDirX nl sz sb par 0 off NOX []
  | BFile bs fi fo fs bl => BFileX bs fs 0 1 fi fo NOX bl
  | BSlink nl t => BSlinkX nl t NOX
  | BDev c nl d => BDevX c nl d NOX
  | BIpc s nl slack => BIpcX s nl slack   (* stores dev_ext.xattr_idx (union offset 8): ipc_ext.xattr_idx keeps its bytes *)
  | _ => b
  end.

Definition make_basic (b : ibody) : ibody :=
  if negb (get_xattr_index b =? NOX) then b else
  match b with
  | BDirX nl sz sb par ic off xa idx => if U16MAX <? sz then b else BDir sb nl sz off par
  | BFileX bs fs sp nl fi fo xa bl =>
      if (U32MAX <? bs) || (U32MAX <? fs) || (0 <? sp) || (1 <? nl) then b else BFile bs fi fo fs bl
  | BSlinkX nl t xa => BSlink nl t
  | BDevX c nl d xa => BDev c nl d
  | BIpcX s nl xa => BIpc s nl xa
  | _ => b
  end.

Definition put_xattr (b : ibody) (x : N) : ibody :=
  match b with
  | BDirX nl sz sb par ic off _ idx => BDirX nl sz sb par ic off x idx
  | BFileX bs fs sp nl fi fo _ bl => BFileX bs fs sp nl fi fo x bl
  | BSlinkX nl t _ => BSlinkX nl t x
  | BDevX c nl d _ => BDevX c nl d x
  | BIpcX s nl _ => BIpcX s nl x
  | _ => b
  end.

Definition set_xattr_index (b : ibody) (x : N) : ibody :=
  put_xattr (if x =? NOX then b else make_extended b) x.

Definition set_file_size (b : ibody) (size : N) : res ibody :=
  match b with
  | BFileX bs _ sp nl fi fo xa bl =>
      let b' := BFileX bs size sp nl fi fo xa bl in
      Ok (if size <? U32MAX then make_basic b' else b')
  | BFile bs fi fo _ bl =>
      if U32MAX <? size then Ok (BFileX bs size 0 1 fi fo NOX bl) else Ok (BFile bs fi fo size bl)
  | _ => Err c_SQFS_ERROR_NOT_FILE
  end.

Definition set_file_block_start (b : ibody) (loc : N) : res ibody :=
  match b with
  | BFileX _ fs sp nl fi fo xa bl =>
      let b' := BFileX loc fs sp nl fi fo xa bl in
      Ok (if loc <? U32MAX then make_basic b' else b')
  | BFile _ fi fo fs bl =>
      if U32MAX <? loc then Ok (BFileX loc fs 0 1 fi fo NOX bl) else Ok (BFile loc fi fo fs bl)
  | _ => Err c_SQFS_ERROR_NOT_FILE
  end.

Definition set_frag_location (b : ibody) (idx off : N) : res ibody :=
  match b with
  | BFileX bs fs sp nl _ _ xa bl => Ok (BFileX bs fs sp nl idx off xa bl)
  | BFile bs _ _ fs bl => Ok (BFile bs idx off fs bl)
  | _ => Err c_SQFS_ERROR_NOT_FILE
  end.

(* backend.c: sqfs_inode_make_extended + data.file_ext.sparse += n (sparse blocks) *)
Definition add_sparse (b : ibody) (n : N) : ibody :=
  match make_extended b with
  | BFileX bs fs sp nl fi fo xa bl => BFileX bs fs (sp + n) nl fi fo xa bl
  | x => x
  end.

(* replace the block list (set_block_size calls of backend.c, abstracted to their final result) *)
Definition put_blocks (b : ibody) (bl : list N) : ibody :=
  match b with
  | BFileX bs fs sp nl fi fo xa _ => BFileX bs fs sp nl fi fo xa bl
  | BFile bs fi fo fs _ => BFile bs fi fo fs bl
  | x => x
  end.

(* frontend.c sqfs_block_processor_begin_file: calloc, type FILE, set_frag_location(NONE, NONE) *)
Definition new_file_inode : ibody := BFile 0 NOX NOX 0 [].

(* ------------------------------------------------------------------ *)
(* dir_writer.c sqfs_dir_writer_create_inode: type choice and fields    *)
(* ------------------------------------------------------------------ *)

Definition dir_create_inode (dir_ref dir_size ent_count hlinks xattr parent : N) (index : list dir_idx) : ibody :=
  let start_block := dir_ref / 65536 in
  let block_offset := dir_ref mod 65536 in
  let ext := negb (xattr =? NOX) || (U32MAX <? start_block) || (U16MAX - 3 <? dir_size)
             || (c_DIR_INDEX_THRESHOLD <=? ent_count) in
  if ext then BDirX (ent_count + hlinks + 2) (dir_size + 3) start_block parent (nlen index) block_offset xattr index
  else BDir start_block (ent_count + hlinks + 2) (dir_size + 3) block_offset parent.

(* ------------------------------------------------------------------ *)
(* serialize_fstree.c                                                  *)
(* ------------------------------------------------------------------ *)

Inductive nkind :=
| KDir (dir_ref dir_size ent_count : N) (index : list dir_idx) (parent_ino : N)   (* what the dir writer reports *)
| KFile (b : ibody)                                                           (* inode left by the block processor *)
| KSlink (target : list N)
| KDev (chr : bool) (devno : N)
| KIpc (sock : bool).

Record tnode := mkNode {
  tn_mode : N; tn_uid : N; tn_gid : N; tn_mtime : N; tn_ino : N; tn_nlink : N; tn_xattr : N; tn_kind : nkind }.

Definition put_nlink (b : ibody) (n : N) : ibody :=
  match b with
  | BDir sb _ sz off par => BDir sb n sz off par
  | BDirX _ sz sb par ic off xa idx => BDirX n sz sb par ic off xa idx
  | BFileX bs fs sp _ fi fo xa bl => BFileX bs fs sp n fi fo xa bl
  | BFile _ _ _ _ _ => b     (* data.file_ext.nlink lies behind the 16 bytes of data.file: no visible effect *)
  | x => x
  end.

Definition is_kdir (k : nkind) : bool := match k with KDir _ _ _ _ _ => true | _ => false end.

(* the inode handed to sqfs_id_table_id_to_index / write_inode, before the id indices are filled in *)
Definition shape (n : tnode) : ibody :=
  let nl := tn_nlink n in
  let b0 :=
    match tn_kind n with
    | KDir r s c idx par => put_nlink (dir_create_inode r s c 0 (tn_xattr n) par idx) nl
    | KFile b =>
        match b with
        | BFile _ _ _ _ _ => if 1 <? nl then put_nlink (make_extended b) nl else put_nlink b nl
        | _ => put_nlink b nl
        end
    | KSlink t => BSlink nl t
    | KDev c d => BDev c nl d
    | KIpc s => BIpc s nl 0          (* calloc *)
    end in
  let b1 := set_xattr_index b0 (tn_xattr n) in
  if (tn_xattr n =? NOX) && negb (is_kdir (tn_kind n)) then make_basic b1 else b1.

(* ---- id table (id_table.c), needed by serialize ---- *)

Fixpoint find_id (id : N) (l : list N) (i : N) : option N :=
  match l with
  | [] => None
  | x :: r => if x =? id then Some i else find_id id r (i + 1)
  end.

(* sqfs_id_table_id_to_index with the refusal threshold [limit] (the number of ids a table accepts) *)
Definition id_to_index (limit : N) (tbl : list N) (id : N) : res (list N * N) :=
  match find_id id tbl 0 with
  | Some i => Ok (tbl, i)
  | None => if limit <=? nlen tbl then Err c_SQFS_ERROR_OVERFLOW else Ok (tbl ++ [id], nlen tbl)
  end.

Definition serialize (limit : N) (tbl : list N) (n : tnode) : res (list N * inode) :=
  do (t1, ui) <- id_to_index limit tbl (tn_uid n);
  do (t2, gi) <- id_to_index limit t1 (tn_gid n);
  Ok (t2, mkInode (mkBase (tn_mode n) ui gi (tn_mtime n) (tn_ino n)) (shape n)).

(* ---- what a reader reports about an inode (rdsquashfs stat / describe; sqfs_dir_entry_from_inode) ---- *)

Inductive vkind :=
| VDir | VFile (size : N) | VSlink (target : list N) | VDev (chr : bool) (devno : N) | VIpc (sock : bool).

Record view := mkView { v_kind : vkind; v_mode : N; v_uid : option N; v_gid : option N; v_mtime : N;
                        v_ino : N; v_nlink : N; v_xattr : N }.

Definition nlink_of (b : ibody) : N :=
  match b with
  | BDir _ nl _ _ _ => nl | BFile _ _ _ _ _ => 1 | BSlink nl _ => nl | BDev _ nl _ => nl | BIpc _ nl _ => nl
  | BDirX nl _ _ _ _ _ _ _ => nl | BFileX _ _ _ nl _ _ _ _ => nl | BSlinkX nl _ _ => nl
  | BDevX _ nl _ _ => nl | BIpcX _ nl _ => nl
  end.

Definition kind_of (b : ibody) : vkind :=
  match b with
  | BDir _ _ _ _ _ | BDirX _ _ _ _ _ _ _ _ => VDir
  | BFile _ _ _ fs _ => VFile fs | BFileX _ fs _ _ _ _ _ _ => VFile fs
  | BSlink _ t | BSlinkX _ t _ => VSlink t
  | BDev c _ d | BDevX c _ d _ => VDev c d
  | BIpc s _ _ | BIpcX s _ _ => VIpc s
  end.

(* sqfs_id_table_index_to_id *)
Definition index_to_id (tbl : list N) (i : N) : option N :=
  if i <? nlen tbl then nth_error tbl (N.to_nat i) else None.

Definition view_of (tbl : list N) (i : inode) : view :=
  mkView (kind_of (i_body i)) (ib_mode (i_base i)) (index_to_id tbl (ib_uid (i_base i)))
         (index_to_id tbl (ib_gid (i_base i))) (ib_mtime (i_base i)) (ib_ino (i_base i))
         (nlink_of (i_body i)) (get_xattr_index (i_body i)).

Definition kind_of_node (n : tnode) : vkind :=
  match tn_kind n with
  | KDir _ _ _ _ _ => VDir
  | KFile b => kind_of b
  | KSlink t => VSlink t
  | KDev c d => VDev c d
  | KIpc s => VIpc s
  end.

Definition view_of_node (n : tnode) : view :=
  mkView (kind_of_node n) (tn_mode n) (Some (tn_uid n)) (Some (tn_gid n)) (tn_mtime n) (tn_ino n)
         (tn_nlink n) (tn_xattr n).

(* ---- id table on disk (sqfs_id_table_write / _read, table payload only; the table writer is C03's) ---- *)

Definition id_count_field (tbl : list N) : N := nlen tbl mod 65536.     (* super->id_count is 16 bit *)
Definition id_table_bytes (tbl : list N) : list N := flat_map le32 tbl.

Definition id_table_read (count : N) (payload : list N) : res (list N) :=
  if count =? 0 then Err c_SQFS_ERROR_CORRUPTED else
  do (b, _) <- take (count * 4) payload E_READ;
  Ok (words_of b).
