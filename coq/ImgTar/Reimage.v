(* ImgTar — for an archive in the shape sqfs2tar emits (tree_shapeb), what sqfs2tar's iterators deliver for the image
   tar2sqfs builds from it is the archive's own entry list as C04's [reimage] describes it (metadata level). *)
From Coq Require Import List NArith ZArith Bool Lia Sorted.
From SqfsV Require C04.TarNum C04.TarHdr C04.TarHdrProofs C04.TarStream C04.TarArchiveProofs.
From SqfsV Require Import C01.GenC01 C01.InodeModel Img.TreeModel.
From SqfsV Require Import C11.StrOrder C11.FstreeModel C11.PostModel C11.TreeProofs C11.PostProofs.
From SqfsV Require Import ImgPost.Bridge ImgPost.TreeInv ImgPost.StructInv ImgPost.ResolveInv ImgPost.BridgeProofs
  ImgPost.PathsModel ImgPost.PathsProofs.
From SqfsV Require Import ImgTar.Model ImgTar.AddLookup ImgTar.Semantics.
Import ListNotations.
Local Open Scope N_scope.

Notation tentry := TarStream.tentry.
Notation te_e := TarStream.te_e.
Notation te_target := TarStream.te_target.

(* ------------------------------------------------------------------ one item of the view, seen from its entry *)
Definition item_ok (t : tentry) (x : path * pview * path) : Prop :=
  let '(p, v, k) := x in
  p = ent_path t /\ pv_uid v = Some (TarHdr.e_uid (te_e t)) /\ pv_gid v = Some (TarHdr.e_gid (te_e t)) /\
  Z.of_N (pv_mtime v) = TarStream.clamp_mtime (TarHdr.e_mtime (te_e t)) /\
  if t_hard t then
    (exists tg, te_target t = Some tg /\ k = path_of_name tg) /\ mode_is_dir (pv_mode v) = false
  else
    k = ent_path t /\ pv_mode v = t_mode t /\
    (TarStream.is_reg (t_mode t) = true -> kind_size (pv_kind v) = TarHdr.e_size (te_e t)) /\
    (TarArchiveProofs.is_dev (t_mode t) = true -> kind_rdev (pv_kind v) = TarHdr.e_rdev (te_e t)) /\
    (TarHdr.ftype (t_mode t) = TarHdr.S_IFLNK -> kind_target (pv_kind v) = te_target t).

Definition seen_inv (earlier : list tentry) (seen : list (path * list N)) : Prop :=
  (forall u, In u earlier -> t_hard u = false -> mode_is_dir (t_mode u) = false ->
             seen_find path path_eqb (ent_path u) seen = Some (t_name u)) /\
  (forall k nm, seen_find path path_eqb k seen = Some nm -> exists u, In u earlier /\ k = ent_path u).

Lemma tname_ok_facts t : tname_okb t = true ->
  ent_path t <> [] /\ join_slash (ent_path t) = t_name t /\ canon_comps (t_name t) = Some (ent_path t).
Proof.
  unfold tname_okb. intro H. apply andb_prop in H. destruct H as [H H3]. apply andb_prop in H. destruct H as [H1 H2].
  split; [|split].
  - destruct (ent_path t); [discriminate|discriminate].
  - apply TarArchiveProofs.list_eqb_true. exact H2.
  - destruct (canon_comps (t_name t)) as [q|]; [|discriminate]. apply path_eqb_eq in H3. congruence.
Qed.

Lemma linkmode_facts : TarStream.is_reg (TarHdr.S_IFLNK + 511) = false /\ mode_is_dir (TarHdr.S_IFLNK + 511) = false /\
  TarArchiveProofs.is_dev (TarHdr.S_IFLNK + 511) = false.
Proof. repeat split. Qed.

(* ------------------------------------------------------------------ the walk over a view in that shape *)
Lemma s2t_shape : forall vs earlier seen items tbl,
  shape_go earlier vs = true ->
  NoDup (map ent_path (rev earlier ++ vs)) ->
  seen_inv earlier seen ->
  Forall2 item_ok vs items ->
  exists out, s2t_go path path_eqb false seen items = Some out /\
              Forall2 meq out (TarStream.reimage_all tbl vs).
Proof.
  induction vs as [|t r IH]; intros earlier seen items tbl Sh ND Si Fi.
  - inversion Fi; subst. exists []. split; [reflexivity|constructor].
  - inversion Fi as [|? x ? items' Ix Fi']; subst. destruct x as [[p v] k].
    cbn [shape_go] in Sh. apply andb_prop in Sh. destruct Sh as [Se Sh].
    unfold entry_shapeb in Se. apply andb_prop in Se. destruct Se as [Se _]. apply andb_prop in Se.
    destruct Se as [Se Sk]. apply andb_prop in Se. destruct Se as [Sn Sm].
    destruct (tname_ok_facts t Sn) as (Pne & Jn & _).
    destruct Ix as (-> & Eu & Eg & Em & Ix).
    assert (ND' : NoDup (map ent_path (rev (t :: earlier) ++ r))).
    { cbn [rev]. rewrite <- app_assoc. exact ND. }
    assert (Fresh : forall u, In u earlier -> ent_path u <> ent_path t).
    { intros u Hu E. rewrite map_app in ND. cbn [map] in ND. apply NoDup_remove_2 in ND. apply ND. apply in_or_app. left.
      rewrite <- E. apply in_map. apply -> in_rev. exact Hu. }
    cbn [s2t_go]. destruct (ent_path t) as [|c0 p0] eqn:Ep; [contradiction|]. rewrite <- Ep in *.
    cbn [orb]. unfold s2t_item. rewrite Eu, Eg. cbn [TarStream.reimage_all].
    set (xs := snd (TarStream.store_xattrs tbl (TarStream.te_xattr t))).
    set (tbl' := fst (TarStream.store_xattrs tbl (TarStream.te_xattr t))).
    destruct (t_hard t) eqn:Hh.
    + (* a hard link record: the inode was seen under the name it points to *)
      destruct Ix as ((tg & Etg & ->) & Nd). rewrite Nd.
      apply andb_prop in Sk. destruct Sk as [Smode Sk]. apply N.eqb_eq in Smode.
      rewrite Etg in Sk. apply existsb_exists in Sk. destruct Sk as (u & Hu & Su).
      apply andb_prop in Su. destruct Su as [Su Sf]. apply andb_prop in Su. destruct Su as [Su Sun].
      apply andb_prop in Su. destruct Su as [Su Sd]. apply andb_prop in Su. destruct Su as [Sname Shu].
      apply TarArchiveProofs.list_eqb_true in Sname. apply negb_true_iff in Shu, Sd.
      destruct (tname_ok_facts u Sun) as (_ & _ & _).
      assert (Ek : path_of_name tg = ent_path u) by (unfold ent_path; rewrite Sname; reflexivity).
      rewrite Ek. destruct Si as [Si1 Si2]. rewrite (Si1 u Hu Shu Sd).
      destruct (IH (t :: earlier) seen items' tbl' Sh ND') as (out & Eo & Fo).
      { split.
        - intros u' [<-|Hu'] H1 H2; [congruence|apply Si1; assumption].
        - intros k nm Hk. destruct (Si2 k nm Hk) as (u' & Hu' & Eu'). exists u'. split; [right; exact Hu'|exact Eu']. }
      { exact Fi'. }
      rewrite Eo. eexists. split; [reflexivity|]. constructor; [|exact Fo].
      unfold meq, TarStream.reimage. unfold t_hard, t_mode in *. cbn [fst snd TarStream.te_e TarStream.te_target TarHdr.e_name TarHdr.e_hardlink TarHdr.e_mode
        TarHdr.e_uid TarHdr.e_gid TarHdr.e_mtime TarHdr.e_size TarHdr.e_rdev].
      rewrite Smode. destruct linkmode_facts as (L1 & L2 & L3). unfold mode_is_dir in L2. unfold TarStream.is_dir. rewrite L2.
      repeat split; try assumption; try congruence;
        try (rewrite Jn; reflexivity); try (rewrite L1; discriminate); try (intro X; vm_compute in X; discriminate).
    + destruct Ix as (-> & Emode & Ksz & Kdev & Ktg).
      assert (Enone : mode_is_dir (pv_mode v) = false -> seen_find path path_eqb (ent_path t) seen = None).
      { intros _. destruct (seen_find path path_eqb (ent_path t) seen) as [nm|] eqn:F; [|reflexivity].
        destruct Si as [_ Si2]. destruct (Si2 _ _ F) as (u & Hu & E). exfalso. apply (Fresh u Hu). congruence. }
      set (seen' := if mode_is_dir (pv_mode v) then seen else (ent_path t, join_slash (ent_path t)) :: seen).
      assert (Si' : seen_inv (t :: earlier) seen').
      { destruct Si as [Si1 Si2]. unfold seen'. split.
        - intros u' [<-|Hu'] H1 H2.
          + rewrite Emode, H2. cbn [seen_find]. rewrite path_eqb_refl, Jn. reflexivity.
          + destruct (mode_is_dir (pv_mode v)); [apply Si1; assumption|]. cbn [seen_find].
            assert (E : path_eqb (ent_path t) (ent_path u') = false).
            { apply path_eqb_neq. intro E. apply (Fresh u' Hu'). congruence. }
            rewrite E. apply Si1; assumption.
        - intros k0 nm Hk. destruct (mode_is_dir (pv_mode v)).
          + destruct (Si2 k0 nm Hk) as (u' & Hu' & Eu'). exists u'. split; [right; exact Hu'|exact Eu'].
          + cbn [seen_find] in Hk. destruct (path_eqb (ent_path t) k0) eqn:E.
            * apply path_eqb_eq in E. exists t. split; [left; reflexivity|congruence].
            * destruct (Si2 k0 nm Hk) as (u' & Hu' & Eu'). exists u'. split; [right; exact Hu'|exact Eu']. }
      destruct (IH (t :: earlier) seen' items' tbl' Sh ND' Si' Fi') as (out & Eo & Fo).
      assert (Estep : (if mode_is_dir (pv_mode v) then None else seen_find path path_eqb (ent_path t) seen) = None).
      { destruct (mode_is_dir (pv_mode v)) eqn:D; [reflexivity|apply Enone; reflexivity]. }
      rewrite Estep. fold seen'. rewrite Eo. eexists. split; [reflexivity|]. constructor; [|exact Fo].
      unfold meq, TarStream.reimage. unfold t_hard, t_mode in *. cbn [fst snd TarStream.te_e TarStream.te_target TarHdr.e_name TarHdr.e_hardlink TarHdr.e_mode
        TarHdr.e_uid TarHdr.e_gid TarHdr.e_mtime TarHdr.e_size TarHdr.e_rdev].
      rewrite Emode, Jn. unfold mode_is_dir, TarStream.is_dir.
      repeat split; try assumption; try congruence.
      intros [H|H]; [discriminate|]. apply Ktg. exact H.
Qed.

(* ------------------------------------------------------------------ the key of the hard link filter *)
Section Rekey.
  Context {K1 K2 : Type} (eqb1 : K1 -> K1 -> bool) (eqb2 : K2 -> K2 -> bool) (f : K1 -> K2) (P : K1 -> Prop).
  Hypothesis f_inj : forall k k', P k -> P k' -> eqb2 (f k) (f k') = eqb1 k k'.

  Definition rk_seen (s : K1 * list N) : K2 * list N := (f (fst s), snd s).
  Definition rk_item (x : path * pview * K1) : path * pview * K2 := let '(p, v, k) := x in (p, v, f k).

  Lemma seen_find_rekey k seen : P k -> Forall (fun s => P (fst s)) seen ->
    seen_find K2 eqb2 (f k) (map rk_seen seen) = seen_find K1 eqb1 k seen.
  Proof.
    intros Pk. induction seen as [|[k' nm] r IH]; intro F; [reflexivity|]. inversion F as [|? ? Pk' F']; subst.
    cbn [map rk_seen seen_find fst snd]. rewrite (f_inj k' k Pk' Pk). destruct (eqb1 k' k); [reflexivity|apply IH; exact F'].
  Qed.

  Lemma s2t_go_rekey nl : forall l seen,
    Forall (fun x => P (snd x)) l -> Forall (fun s => P (fst s)) seen ->
    s2t_go K2 eqb2 nl (map rk_seen seen) (map rk_item l) = s2t_go K1 eqb1 nl seen l.
  Proof.
    induction l as [|[[p v] k] r IH]; intros seen Fl Fs; [reflexivity|].
    inversion Fl as [|? ? Pk Fl']; subst. cbn [snd] in Pk.
    cbn [map rk_item s2t_go]. destruct p as [|c p]; [apply IH; assumption|].
    rewrite (seen_find_rekey k seen Pk Fs).
    destruct (nl || mode_is_dir (pv_mode v)).
    - rewrite (IH seen Fl' Fs). reflexivity.
    - destruct (seen_find K1 eqb1 k seen).
      + rewrite (IH seen Fl' Fs). reflexivity.
      + change ((f k, join_slash (c :: p)) :: map rk_seen seen) with (map rk_seen ((k, join_slash (c :: p)) :: seen)).
        rewrite IH; [reflexivity|exact Fl'|]. constructor; [exact Pk|exact Fs].
  Qed.

  Lemma s2t_go_rekey_nil nl l : Forall (fun x => P (snd x)) l ->
    s2t_go K2 eqb2 nl [] (map rk_item l) = s2t_go K1 eqb1 nl [] l.
  Proof. intro F. exact (s2t_go_rekey nl l [] F (Forall_nil _)). Qed.
End Rekey.

(* ------------------------------------------------------------------ arithmetic of modes and time stamps *)
Lemma clamp_ts_clamp z : Z.of_N (clamp_ts (TarStream.clamp_mtime z)) = TarStream.clamp_mtime z.
Proof.
  unfold clamp_ts, TarStream.clamp_mtime.
  destruct (z <? 0)%Z eqn:A; [reflexivity|]. destruct (4294967295 <? z)%Z eqn:B.
  - reflexivity.
  - rewrite A. apply Z.ltb_ge in A, B. destruct (z >? 4294967295)%Z eqn:C.
    + apply Z.gtb_lt in C. lia.
    + apply Z2N.id. exact A.
Qed.

Lemma clamp_ts_trunc z : clamp_ts (TarStream.clamp_mtime z) = trunc_u32 (TarStream.clamp_mtime z).
Proof.
  assert (R : (0 <= TarStream.clamp_mtime z <= 4294967295)%Z).
  { unfold TarStream.clamp_mtime. destruct (z <? 0)%Z eqn:A; [lia|]. destruct (4294967295 <? z)%Z eqn:B; [lia|].
    apply Z.ltb_ge in A, B. lia. }
  unfold clamp_ts, trunc_u32. destruct (TarStream.clamp_mtime z <? 0)%Z eqn:A; [apply Z.ltb_lt in A; lia|].
  destruct (TarStream.clamp_mtime z >? 4294967295)%Z eqn:B; [apply Z.gtb_lt in B; lia|].
  rewrite Z.mod_small by lia. reflexivity.
Qed.

Lemma mode_of_type m : m < 65536 -> TarHdr.type_of_mode m <> None ->
  type_bits (ftype_of_mode m) + TarHdr.perm m = m.
Proof.
  intros Hm Ht. pose proof (TarHdrProofs.mode_recompose m Hm) as R.
  unfold TarHdr.type_of_mode in Ht. cbv zeta in *.
  assert (G : forall c t, TarHdr.ftype m = c -> ftype_of_mode m = t -> type_bits t = c ->
                          type_bits (ftype_of_mode m) + TarHdr.perm m = m).
  { intros c t E1 E2 E3. rewrite E2, E3, <- E1. lia. }
  destruct (TarHdr.ftype m =? TarHdr.S_IFCHR) eqn:E1.
  { apply N.eqb_eq in E1. apply (G _ FChr E1); [unfold ftype_of_mode; rewrite E1|]; reflexivity. }
  destruct (TarHdr.ftype m =? TarHdr.S_IFBLK) eqn:E2.
  { apply N.eqb_eq in E2. apply (G _ FBlk E2); [unfold ftype_of_mode; rewrite E2|]; reflexivity. }
  destruct (TarHdr.ftype m =? TarHdr.S_IFLNK) eqn:E3.
  { apply N.eqb_eq in E3. apply (G _ FLnk E3); [unfold ftype_of_mode; rewrite E3|]; reflexivity. }
  destruct (TarHdr.ftype m =? TarHdr.S_IFREG) eqn:E4.
  { apply N.eqb_eq in E4. apply (G _ FReg E4); [unfold ftype_of_mode; rewrite E4|]; reflexivity. }
  destruct (TarHdr.ftype m =? TarHdr.S_IFDIR) eqn:E5.
  { apply N.eqb_eq in E5. apply (G _ FDir E5); [unfold ftype_of_mode; rewrite E5|]; reflexivity. }
  destruct (TarHdr.ftype m =? TarHdr.S_IFIFO) eqn:E6.
  { apply N.eqb_eq in E6. apply (G _ FFifo E6); [unfold ftype_of_mode; rewrite E6|]; reflexivity. }
  contradiction.
Qed.

Lemma ftype_of_reg m : TarStream.is_reg m = true -> ftype_of_mode m = FReg.
Proof. unfold TarStream.is_reg, ftype_of_mode. intro H. apply N.eqb_eq in H. rewrite H. reflexivity. Qed.

Lemma ftype_of_lnk m : TarHdr.ftype m = TarHdr.S_IFLNK -> ftype_of_mode m = FLnk.
Proof. unfold ftype_of_mode. intro H. rewrite H. reflexivity. Qed.

Lemma ftype_of_dev m : TarArchiveProofs.is_dev m = true -> ftype_of_mode m = FBlk \/ ftype_of_mode m = FChr.
Proof.
  unfold TarArchiveProofs.is_dev, ftype_of_mode. intro H. apply orb_prop in H. destruct H as [H|H]; apply N.eqb_eq in H; rewrite H.
  - right. reflexivity.
  - left. reflexivity.
Qed.

Lemma ftype_of_lnk_inv m : ftype_of_mode m = FLnk -> TarHdr.ftype m = TarHdr.S_IFLNK.
Proof.
  unfold ftype_of_mode. destruct (TarHdr.ftype m =? TarHdr.S_IFDIR); [discriminate|].
  destruct (TarHdr.ftype m =? TarHdr.S_IFLNK) eqn:E; [intros _; apply N.eqb_eq; exact E|].
  destruct (TarHdr.ftype m =? TarHdr.S_IFBLK); [discriminate|]. destruct (TarHdr.ftype m =? TarHdr.S_IFCHR); [discriminate|].
  destruct (TarHdr.ftype m =? TarHdr.S_IFIFO); [discriminate|]. destruct (TarHdr.ftype m =? TarHdr.S_IFSOCK); discriminate.
Qed.

(* ------------------------------------------------------------------ the adds of an archive in that shape *)
Definition op_of (t : tentry) : op :=
  (gent_of (ent_path t) (te_e t) (TarStream.clamp_mtime (TarHdr.e_mtime (te_e t))),
   if TarHdr.ftype (t_mode t) =? TarHdr.S_IFLNK then te_target t else None).

Lemma op_of_path t : op_path (op_of t) = ent_path t.
Proof. reflexivity. Qed.

Lemma pt_op_shape d t : tname_okb t = true -> pt_op_of opts0 d t = PAdd (fst (op_of t)) (snd (op_of t)).
Proof.
  intro H. destruct (tname_ok_facts t H) as (Pne & _ & _).
  unfold pt_op_of, opts0, op_of. cbn [o_root o_keep_time fst snd].
  destruct (TarHdr.e_name (te_e t)) eqn:En.
  - exfalso. apply Pne. unfold ent_path, t_name. rewrite En. reflexivity.
  - unfold ent_path, t_name, t_mode. rewrite En. reflexivity.
Qed.

Lemma adds_shape d vs : Forall (fun t => tname_okb t = true) vs -> adds_of_entries opts0 d vs = map op_of vs.
Proof.
  unfold adds_of_entries, pt_ops, adds_of. induction vs as [|t r IH]; intro F; [reflexivity|].
  inversion F as [|? ? Ht Fr]; subst. cbn [map flat_map]. rewrite (pt_op_shape d t Ht), (IH Fr).
  destruct (op_of t). reflexivity.
Qed.

Record ent_facts (vs : list tentry) (t : tentry) : Prop := {
  ef_name : tname_okb t = true;
  ef_mode : t_mode t < 65536;
  ef_hard : t_hard t = true ->
            t_mode t = TarHdr.S_IFLNK + 511 /\
            exists u, In u vs /\ te_target t = Some (t_name u) /\ t_hard u = false /\ mode_is_dir (t_mode u) = false /\
                      tname_okb u = true /\ same_inode_fields u t = true;
  ef_plain : t_hard t = false ->
             TarHdr.type_of_mode (t_mode t) <> None /\
             (TarHdr.ftype (t_mode t) = TarHdr.S_IFLNK ->
              t_mode t = TarHdr.S_IFLNK + 511 /\ exists tg, te_target t = Some tg);
  ef_parents : forall q, In q (proper_prefixes (ent_path t)) -> exists u, In u vs /\ ent_path u = q
}.

Lemma entry_shape_facts all earlier t : (forall u, In u earlier -> In u all) ->
  entry_shapeb earlier t = true -> ent_facts all t.
Proof.
  intros Sub Se. unfold entry_shapeb in Se. apply andb_prop in Se. destruct Se as [Se Sp]. apply andb_prop in Se.
  destruct Se as [Se Sk]. apply andb_prop in Se. destruct Se as [Sn Sm]. apply N.ltb_lt in Sm.
  constructor; [exact Sn|exact Sm| | |].
  - intro Hh. rewrite Hh in Sk. apply andb_prop in Sk. destruct Sk as [Smode Sk]. apply N.eqb_eq in Smode.
    split; [exact Smode|]. destruct (te_target t) as [tg|]; [|discriminate].
    apply existsb_exists in Sk. destruct Sk as (u & Hu & Su).
    apply andb_prop in Su. destruct Su as [Su Sf]. apply andb_prop in Su. destruct Su as [Su Sun].
    apply andb_prop in Su. destruct Su as [Su Sd]. apply andb_prop in Su. destruct Su as [Sname Shu].
    apply TarArchiveProofs.list_eqb_true in Sname. apply negb_true_iff in Shu, Sd.
    exists u. repeat split; auto. congruence.
  - intro Hh. rewrite Hh in Sk. apply andb_prop in Sk. destruct Sk as [St Sl]. split.
    + destruct (TarHdr.type_of_mode (t_mode t)); [discriminate|discriminate].
    + intro El. apply N.eqb_eq in El. rewrite El in Sl. apply andb_prop in Sl. destruct Sl as [S1 S2].
      apply N.eqb_eq in S1. split; [exact S1|]. destruct (te_target t) as [tg|]; [eauto|discriminate].
  - intros q Hq. rewrite forallb_forall in Sp. specialize (Sp q Hq). apply existsb_exists in Sp.
    destruct Sp as (u & Hu & Eu). apply path_eqb_eq in Eu. exists u. split; [apply Sub; exact Hu|exact Eu].
Qed.

Lemma shape_facts all : forall vs earlier, shape_go earlier vs = true ->
  (forall u, In u earlier -> In u all) -> (forall u, In u vs -> In u all) ->
  forall t, In t vs -> ent_facts all t.
Proof.
  induction vs as [|t0 r IH]; intros earlier Sh S1 S2 t Ht; [destruct Ht|].
  cbn [shape_go] in Sh. apply andb_prop in Sh. destruct Sh as [Se Sh]. destruct Ht as [<-|Ht].
  - exact (entry_shape_facts all earlier t0 S1 Se).
  - apply (IH (t0 :: earlier) Sh); [|intros u Hu; apply S2; right; exact Hu|exact Ht].
    intros u [<-|Hu]; [apply S2; left; reflexivity|apply S1; exact Hu].
Qed.

Lemma ssortedb_sound l : ssortedb l = true -> StronglySorted path_lt l.
Proof.
  induction l as [|p r IH]; cbn; intro H; [constructor|]. apply andb_prop in H. destruct H as [H1 H2].
  constructor; [apply IH; exact H2|]. apply Forall_forall. intros q Hq. rewrite forallb_forall in H1.
  apply path_ltb_lt. apply H1. exact Hq.
Qed.

Lemma sorted_nodup l : StronglySorted path_lt l -> NoDup l.
Proof.
  induction 1 as [|p r S IH F]; constructor; [|exact IH]. intro I. rewrite Forall_forall in F.
  exact (path_lt_irrefl p (F p I)).
Qed.

Lemma nodup_paths_complete l : NoDup l -> nodup_paths l = true.
Proof.
  induction 1 as [|p r N ND IH]; [reflexivity|]. cbn [nodup_paths]. rewrite IH, andb_true_r. apply negb_true_iff.
  destruct (existsb (path_eqb p) r) eqn:E; [|reflexivity]. apply existsb_exists in E. destruct E as (q & Hq & E).
  apply path_eqb_eq in E. subst q. contradiction.
Qed.

Lemma nodup_map_inj {A B} (f : A -> B) l : NoDup (map f l) -> forall x y, In x l -> In y l -> f x = f y -> x = y.
Proof.
  induction l as [|a r IH]; intros ND x y Hx Hy E; [destruct Hx|]. cbn [map] in ND. inversion ND as [|? ? N1 N2]; subst.
  destruct Hx as [<-|Hx]; destruct Hy as [<-|Hy]; auto.
  - exfalso. apply N1. rewrite E. apply in_map. exact Hy.
  - exfalso. apply N1. rewrite <- E. apply in_map. exact Hx.
Qed.

Lemma find_op_of vs : NoDup (map ent_path vs) -> forall t, In t vs -> find_op (ent_path t) (map op_of vs) = Some (op_of t).
Proof.
  intros ND t Ht.
  destruct (find_op_in (ent_path t) (map op_of vs)) as (o & F).
  { rewrite map_map. apply in_map_iff. exists t. split; [reflexivity|exact Ht]. }
  rewrite F. destruct (find_op_some _ _ _ F) as (Io & Ep). apply in_map_iff in Io. destruct Io as (t' & <- & Ht').
  rewrite op_of_path in Ep. rewrite (nodup_map_inj ent_path vs ND t' t Ht' Ht Ep). reflexivity.
Qed.

Lemma hard_type m : m = TarHdr.S_IFLNK + 511 -> ftype_of_mode m = FLnk /\ TarHdr.ftype m = TarHdr.S_IFLNK.
Proof. intros ->. split; reflexivity. Qed.

Section Shape.
  Variable vs : list tentry.
  Hypothesis Facts : forall t, In t vs -> ent_facts vs t.
  Hypothesis ND : NoDup (map ent_path vs).
  Let ops := map op_of vs.

  Lemma shape_ops_ok : ops_okb ops = true.
  Proof.
    unfold ops_okb. apply andb_true_intro. split.
    - apply forallb_forall. intros o Ho. apply in_map_iff in Ho. destruct Ho as (t & <- & Ht).
      pose proof (Facts t Ht) as F. destruct (tname_ok_facts t (ef_name _ _ F)) as (Pne & _ & _).
      unfold op_okb, op_of. cbn [fst gent_of e_path e_hard e_type e_mtime].
      destruct (ent_path t) eqn:Ep; [contradiction|]. cbn [negb andb].
      apply andb_true_intro. split.
      + fold (t_hard t). destruct (t_hard t) eqn:Hh; [|reflexivity].
        destruct (ef_hard _ _ F Hh) as (Em & _). fold (t_mode t). rewrite Em. reflexivity.
      + destruct (ftype_eqb _ FDir); [|reflexivity]. apply N.eqb_eq. apply clamp_ts_trunc.
    - unfold ops. rewrite map_map. apply nodup_paths_complete. exact ND.
  Qed.

  Lemma shape_resolve t : In t vs ->
    spec_resolve (S (length ops)) ops (ent_path t) =
    Some (if t_hard t then match te_target t with Some tg => path_of_name tg | None => [] end else ent_path t).
  Proof.
    intro Ht. pose proof (Facts t Ht) as F. cbn [spec_resolve]. unfold ops. rewrite (find_op_of vs ND t Ht).
    unfold op_of at 1. cbn [gent_of e_hard]. fold (t_hard t). destruct (t_hard t) eqn:Hh; [|reflexivity].
    destruct (ef_hard _ _ F Hh) as (Em & u & Hu & Etg & Hhu & _ & Nu & _).
    destruct (hard_type _ Em) as (_ & El). rewrite El, N.eqb_refl, Etg.
    destruct (tname_ok_facts u Nu) as (_ & _ & Cu). rewrite Cu.
    assert (Len : exists n, length (map op_of vs) = S n).
    { rewrite map_length. destruct (length vs) eqn:L; [|eauto].
      apply length_zero_iff_nil in L. rewrite L in Ht. destruct Ht. }
    destruct Len as (n & ->). cbn [spec_resolve]. rewrite (find_op_of vs ND u Hu).
    unfold op_of. cbn [gent_of e_hard]. fold (t_hard u). rewrite Hhu. reflexivity.
  Qed.

  Lemma shape_links : links_resolveb ops = true.
  Proof.
    unfold links_resolveb. apply forallb_forall. intros o Ho. unfold ops in Ho. apply in_map_iff in Ho.
    destruct Ho as (t & <- & Ht). rewrite op_of_path, (shape_resolve t Ht). reflexivity.
  Qed.

  Lemma prefix_cases : forall q p, is_prefix_path q p = true -> q = [] \/ q = p \/ In q (proper_prefixes p).
  Proof.
    induction q as [|a q IH]; intros p H; [left; reflexivity|]. right.
    destruct p as [|b p]; [discriminate|]. apply is_prefix_path_cons in H. destruct H as [-> H].
    destruct (IH p H) as [->|[->|I]].
    - destruct p as [|c p]; [left; reflexivity|]. right. cbn [proper_prefixes]. left. reflexivity.
    - left. reflexivity.
    - right. cbn [proper_prefixes]. destruct p as [|c p]; [destruct I|]. right. apply in_map. exact I.
  Qed.

  Lemma shape_closure q : q = [] \/ in_closure q ops <-> In q ([] :: map ent_path vs).
  Proof.
    split.
    - intros [->|(o & Ho & P)]; [left; reflexivity|]. unfold ops in Ho. apply in_map_iff in Ho.
      destruct Ho as (t & <- & Ht). rewrite op_of_path in P.
      destruct (prefix_cases q _ P) as [->|[->|I]].
      + left. reflexivity.
      + right. apply in_map. exact Ht.
      + right. destruct (ef_parents _ _ (Facts t Ht) q I) as (u & Hu & <-). apply in_map. exact Hu.
    - intros [<-|I]; [left; reflexivity|]. right. apply in_map_iff in I. destruct I as (t & <- & Ht).
      exists (op_of t). split; [apply in_map; exact Ht|]. rewrite op_of_path. apply is_prefix_path_refl.
  Qed.

  (* the view of the node a plain (not hard link) entry created *)
  Lemma shape_pview d fb xa u : In u vs -> t_hard u = false -> files_attached fb vs ->
    let v := spec_pview fb xa d ops (ent_path u) in
    pv_mode v = t_mode u /\ pv_uid v = Some (TarHdr.e_uid (te_e u)) /\ pv_gid v = Some (TarHdr.e_gid (te_e u)) /\
    Z.of_N (pv_mtime v) = TarStream.clamp_mtime (TarHdr.e_mtime (te_e u)) /\
    (TarStream.is_reg (t_mode u) = true -> kind_size (pv_kind v) = TarHdr.e_size (te_e u)) /\
    (TarArchiveProofs.is_dev (t_mode u) = true -> kind_rdev (pv_kind v) = TarHdr.e_rdev (te_e u)) /\
    (TarHdr.ftype (t_mode u) = TarHdr.S_IFLNK -> kind_target (pv_kind v) = te_target u).
  Proof.
    intros Hu Hh Fa. pose proof (Facts u Hu) as F. destruct (ef_plain _ _ F Hh) as (Ty & Lk).
    cbv zeta. unfold spec_pview, spec_attr, ops. rewrite (find_op_of vs ND u Hu).
    unfold op_of, op_attr, pview_of_node. cbn [gent_of e_hard e_type e_perm e_uid e_gid e_mtime e_rdev node_attr].
    fold (t_hard u) (t_mode u). rewrite Hh.
    cbn [a_type a_perm a_uid a_gid a_mtime a_target a_devno pv_mode pv_uid pv_gid pv_mtime pv_kind].
    split; [|split; [reflexivity|split; [reflexivity|split; [apply clamp_ts_clamp|]]]].
    - destruct (ftype_eqb (ftype_of_mode (t_mode u)) FLnk) eqn:El.
      + apply ftype_eqb_eq in El. destruct (Lk (ftype_of_lnk_inv _ El)) as (Em & _). rewrite Em. reflexivity.
      + apply mode_of_type; [exact (ef_mode _ _ F)|exact Ty].
    - split; [|split].
      + intro R. rewrite (ftype_of_reg _ R). apply (Fa u Hu R Hh).
      + intro D. destruct (ftype_of_dev _ D) as [E|E]; rewrite E; reflexivity.
      + intro L. rewrite (ftype_of_lnk _ L). cbn [ftype_eqb andb negb kind_target].
        apply N.eqb_eq in L. rewrite L. destruct (Lk ltac:(apply N.eqb_eq; exact L)) as (_ & tg & ->). reflexivity.
  Qed.
End Shape.

(* ------------------------------------------------------------------ the items of the view, entry by entry *)
Lemma items_of_view d fb xa vs : 
  (forall t, In t vs -> ent_facts vs t) -> NoDup (map ent_path vs) -> files_attached fb vs ->
  forall vs' fl', map fst3 fl' = map ent_path vs' -> (forall t, In t vs' -> In t vs) ->
    Forall (fun x => let '(p, v, id) := x in
                     spec_resolve (S (length (map op_of vs))) (map op_of vs) p = Some id /\
                     v = spec_pview fb xa d (map op_of vs) id) fl' ->
    Forall2 item_ok vs' fl'.
Proof.
  intros Facts ND Fa. induction vs' as [|t r IH]; intros fl' Em Sub Fp.
  - destruct fl'; [constructor|discriminate].
  - destruct fl' as [|[[p v] id] fr]; [discriminate|]. cbn [map] in Em. injection Em as Ep Er.
    unfold fst3 in Ep. cbn [fst] in Ep. subst p. inversion Fp as [|? ? Hx Fr]; subst. destruct Hx as (Rs & Ev). subst v.
    assert (Ht : In t vs) by (apply Sub; left; reflexivity).
    constructor; [|apply IH; [exact Er|intros u Hu; apply Sub; right; exact Hu|exact Fr]].
    rewrite (shape_resolve vs Facts ND t Ht) in Rs. injection Rs as Rs.
    pose proof (Facts t Ht) as F. unfold item_ok.
    destruct (t_hard t) eqn:Hh.
    + destruct (ef_hard _ _ F Hh) as (_ & u & Hu & Etg & Hhu & Du & Nu & Same). rewrite Etg in Rs.
      assert (Eid : id = ent_path u) by (rewrite <- Rs; reflexivity).
      destruct (shape_pview vs Facts ND d fb xa u Hu Hhu Fa) as (Pm & Pu & Pg & Pt & _).
      rewrite <- Eid in Pm, Pu, Pg, Pt.
      unfold same_inode_fields in Same. apply andb_prop in Same. destruct Same as [Same S3]. apply andb_prop in Same.
      destruct Same as [S1 S2]. apply N.eqb_eq in S1, S2. apply Z.eqb_eq in S3.
      split; [reflexivity|]. split; [congruence|]. split; [congruence|]. split; [congruence|].
      split; [exists (t_name u); split; [exact Etg|rewrite <- Rs; reflexivity]|]. rewrite Pm. exact Du.
    + subst id. destruct (shape_pview vs Facts ND d fb xa t Ht Hh Fa) as (Pm & Pu & Pg & Pt & Ps & Pd & Pl).
      repeat split; assumption.
Qed.

Lemma number_rk arr fl : map (number arr) fl = map (rk_item (ino_of arr)) fl.
Proof. apply map_ext. intros [[p v] k]. reflexivity. Qed.

(* for an archive in the shape sqfs2tar emits, the walk over the image tar2sqfs builds delivers the entries of
   C04's [reimage_all], up to the fields write_tar_header ignores *)
Theorem reimage_meta_l d vs fs fb xa fl arr tbl :
  tree_shapeb vs = true ->
  run_adds d (fs_init d) (adds_of_entries opts0 d vs) = Some fs ->
  denotes fb xa (fs_root fs) fl ->
  files_attached fb vs ->
  (forall x y, In x fl -> In y fl -> ino_of arr (snd x) = ino_of arr (snd y) -> snd x = snd y) ->
  exists out, sqfs2tar_entries false (map (number arr) fl) = Some out /\
              Forall2 meq out (TarStream.reimage_all tbl vs).
Proof.
  intros Ts Run Den Fa Inj. unfold tree_shapeb in Ts. apply andb_prop in Ts. destruct Ts as [Sh So].
  pose proof (ssortedb_sound _ So) as Sorted.
  assert (Facts : forall t, In t vs -> ent_facts vs t).
  { apply (shape_facts vs vs [] Sh); [intros u []|auto]. }
  assert (ND : NoDup (map ent_path vs)).
  { apply sorted_nodup. apply StronglySorted_inv in Sorted. apply Sorted. }
  assert (Eops : adds_of_entries opts0 d vs = map op_of vs).
  { apply adds_shape. apply Forall_forall. intros t Ht. apply (ef_name _ _ (Facts t Ht)). }
  rewrite Eops in Run.
  destruct (adds_denote_l d (map op_of vs) fs fb xa fl (shape_ops_ok vs Facts ND) (shape_links vs Facts ND) Run Den)
    as (S1 & S2 & S3).
  assert (Epaths : map fst3 fl = [] :: map ent_path vs).
  { apply (sorted_unique path_lt path_lt_irrefl path_lt_asym); [exact S1|exact Sorted|].
    intro p. rewrite S2. apply (shape_closure vs Facts). }
  destruct fl as [|[[p0 v0] k0] fl']; [discriminate|]. cbn [map] in Epaths. injection Epaths as E0 Epaths.
  unfold fst3 in E0. cbn [fst] in E0. subst p0.
  inversion S3 as [|? ? _ S3']; subst.
  pose proof (items_of_view d fb xa vs Facts ND Fa vs fl' Epaths (fun t H => H) S3') as Items.
  unfold sqfs2tar_entries, s2t_entries. rewrite number_rk.
  set (all := (([] : path), v0, k0) :: fl') in *.
  assert (Hinj : forall k k', (exists x, In x all /\ snd x = k) -> (exists x, In x all /\ snd x = k') ->
                              N.eqb (ino_of arr k) (ino_of arr k') = path_eqb k k').
  { intros k k' (x & Hx & <-) (y & Hy & <-). destruct (path_eqb (snd x) (snd y)) eqn:E.
    - apply path_eqb_eq in E. rewrite E. apply N.eqb_refl.
    - apply N.eqb_neq. intro E'. apply path_eqb_neq in E. apply E. apply Inj; assumption. }
  rewrite (s2t_go_rekey_nil path_eqb N.eqb (ino_of arr) _ Hinj false).
  - unfold all. cbn [s2t_go]. apply (s2t_shape vs [] [] fl' tbl Sh); [exact ND| |exact Items].
    split; [intros u []|intros k nm H; discriminate].
  - apply Forall_forall. intros x Hx. exists x. auto.
Qed.
