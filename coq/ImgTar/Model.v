(* ImgTar — the two front ends between a tar archive and the fstree / image models.  Definitions only.

   bin/tar2sqfs/src/process_tarball.c   process_tarball's per-entry step          -> [pt_op_of] / [pt_ops] / [pt_exec]
                                        (mtime clamp, --root-becomes strip and retarget, -k, root entry =
                                        set_root_attribs, everything else = fstree_add_generic with the entry's
                                        type / mode / uid / gid / mtime / device number and, for symbolic and hard
                                        links, the link target as the extra string)
   bin/sqfs2tar/src/iterator.c          tar_compat_iterator next() without --subdir / --root-becomes:
   lib/sqfs/src/io/dir_rec.c            the recursive walk = the flattened reader view in directory order, root omitted,
   lib/sqfs/src/io/dir_hl.c             trailing '/' on directories, sqfs_hard_link_filter (keyed by inode reference:
                                        the second and later paths of an inode that is not a directory become tar hard
                                        links to the first path)                   -> [s2t_entries]

   In between sit coq/C11 (fs_add, post_process) and coq/ImgPost / coq/Img (to_img, serialize_fstree, read_tree); the
   reader view a walk sees is [ImgPost.PathsModel.flat_lt].

   What a list of add operations means without any tree ([spec_attr], [spec_resolve], [in_closure]) is defined here
   too; Semantics.v proves that the reader view of the packed image is exactly that. *)
From Coq Require Import List NArith ZArith Bool.
From SqfsV Require C04.TarNum C04.TarHdr C04.TarStream C18.CanonModel.
From SqfsV Require Import C01.GenC01 C01.InodeModel Img.TreeModel.
From SqfsV Require Import C11.StrOrder C11.FstreeModel C11.PostModel ImgPost.Bridge ImgPost.PathsModel.
Import ListNotations.
Local Open Scope N_scope.

(* ------------------------------------------------------------------ names and paths *)

(* fstree_get_node_by_path walks the '/' separated components and skips runs of '/' *)
Definition path_of_name (s : list N) : path := filter (fun c => negb (is_empty c)) (split_slash s).

(* directory order of a recursive walk over sorted directories: a directory in front of its contents, siblings by
   strcmp on unsigned bytes *)
Fixpoint path_cmp (p q : path) : comparison :=
  match p, q with
  | [], [] => Eq
  | [], _ :: _ => Lt
  | _ :: _, [] => Gt
  | a :: p', b :: q' => match str_cmp a b with Eq => path_cmp p' q' | c => c end
  end.
Definition path_lt (p q : path) : Prop := path_cmp p q = Lt.
Definition path_ltb (p q : path) : bool := match path_cmp p q with Lt => true | _ => false end.

Fixpoint is_prefix_path (q p : path) : bool :=
  match q, p with
  | [], _ => true
  | a :: q', b :: p' => str_eqb a b && is_prefix_path q' p'
  | _ :: _, [] => false
  end.

(* ------------------------------------------------------------------ tar2sqfs: process_tarball *)

Record t2s_opts := mkOpts {
  o_root : option (list N);       (* --root-becomes <dir> *)
  o_no_retarget : bool;           (* -S / --no-symlink-retarget *)
  o_keep_time : bool              (* false = -k / --no-keep-time *)
}.

Definition t_mode (t : TarStream.tentry) : N := TarHdr.e_mode (TarStream.te_e t).
Definition t_name (t : TarStream.tentry) : list N := TarHdr.e_name (TarStream.te_e t).
Definition t_hard (t : TarStream.tentry) : bool := TarHdr.e_hardlink (TarStream.te_e t).

(* S_IFMT bits of a mode as the node type (the tar iterator only produces the first six) *)
Definition ftype_of_mode (m : N) : ftype :=
  let t := TarHdr.ftype m in
  if t =? TarHdr.S_IFDIR then FDir
  else if t =? TarHdr.S_IFLNK then FLnk
  else if t =? TarHdr.S_IFBLK then FBlk
  else if t =? TarHdr.S_IFCHR then FChr
  else if t =? TarHdr.S_IFIFO then FFifo
  else if t =? TarHdr.S_IFSOCK then FSock
  else FReg.

(* the sqfs_dir_entry_t handed on: name replaced, mtime already clamped / defaulted *)
Definition gent_of (path : path) (e : TarHdr.entry) (mtime : Z) : gent :=
  mkEnt path (ftype_of_mode (TarHdr.e_mode e)) (TarHdr.perm (TarHdr.e_mode e)) (TarHdr.e_uid e) (TarHdr.e_gid e)
        mtime (TarHdr.e_rdev e) (TarHdr.e_hardlink e).

Inductive pt_op :=
| PSkip                                       (* name not below --root-becomes: entry dropped *)
| PRootBad                                    (* root entry that is a hard link or not a directory: tar2sqfs fails *)
| PRootAttr (e : gent)                        (* set_root_attribs *)
| PAdd (e : gent) (extra : option (list N)).  (* create_node_and_repack_data -> fstree_add_generic *)

(* one iteration of process_tarball's loop for the entry the tar iterator delivered *)
Definition pt_op_of (o : t2s_opts) (d : fsdefaults) (t : TarStream.tentry) : pt_op :=
  let e := TarStream.te_e t in
  let mt := TarStream.clamp_mtime (TarHdr.e_mtime e) in
  let link := if TarHdr.ftype (TarHdr.e_mode e) =? TarHdr.S_IFLNK then TarStream.te_target t else None in
  let mt' := if o_keep_time o then mt else Z.of_N (fd_mtime d) in
  let go (is_root : bool) (name : list N) (link : option (list N)) :=
      if is_root then
        if TarHdr.e_hardlink e || negb (TarHdr.ftype (TarHdr.e_mode e) =? TarHdr.S_IFDIR) then PRootBad
        else PRootAttr (gent_of [] e mt')
      else PAdd (gent_of (path_of_name name) e mt') link in
  match o_root o with
  | Some root =>
      match TarStream.strip_root root (TarHdr.e_name e) with
      | None => PSkip
      | Some (is_root, name) =>
          let link' := match link with
                       | Some l => if TarHdr.e_hardlink e || negb (o_no_retarget o)
                                   then Some (TarStream.retarget root l) else Some l
                       | None => None
                       end in
          go is_root name link'
      end
  | None => go (match TarHdr.e_name e with [] => true | _ => false end) (TarHdr.e_name e) link
  end.

Definition pt_ops (o : t2s_opts) (d : fsdefaults) (vs : list TarStream.tentry) : list pt_op := map (pt_op_of o d) vs.

(* set_root_attribs: uid, gid, mode of the root node; its mod_time only with keep_time; the
   FLAG_DIR_CREATED_IMPLICITLY of the root is left alone (a second root entry is accepted) *)
Definition set_root_attr (keep_time : bool) (fs : fstree) (e : gent) : fstree :=
  match fs_root fs with
  | TNode nm a ch =>
      mkFs (TNode nm (mkAttr FDir (e_perm e) (e_uid e) (e_gid e)
                             (if keep_time then trunc_u32 (e_mtime e) else a_mtime a)
                             (a_links a) (a_implicit a) (a_hard a) (a_input a) (a_target a) (a_hardtgt a) (a_devno a)
                             (a_resolved a)) ch)
           (fs_unres fs)
  end.

(* the loop; None = tar2sqfs fails *)
Fixpoint pt_exec (keep_time : bool) (d : fsdefaults) (fs : fstree) (ops : list pt_op) : option fstree :=
  match ops with
  | [] => Some fs
  | PSkip :: r => pt_exec keep_time d fs r
  | PRootBad :: _ => None
  | PRootAttr e :: r => pt_exec keep_time d (set_root_attr keep_time fs e) r
  | PAdd e x :: r => match fs_add d fs e x with Some fs' => pt_exec keep_time d fs' r | None => None end
  end.

Definition tar2sqfs_tree (o : t2s_opts) (d : fsdefaults) (vs : list TarStream.tentry) : option fstree :=
  pt_exec (o_keep_time o) d (fs_init d) (pt_ops o d vs).

(* the fstree_add_generic calls of a run *)
Definition adds_of (ops : list pt_op) : list op :=
  flat_map (fun o => match o with PAdd e x => [(e, x)] | _ => [] end) ops.

Definition adds_of_entries (o : t2s_opts) (d : fsdefaults) (vs : list TarStream.tentry) : list op :=
  adds_of (pt_ops o d vs).

Definition no_root_op (o : pt_op) : bool := match o with PRootBad | PRootAttr _ => false | _ => true end.

(* ------------------------------------------------------------------ what a list of adds means *)

Definition op_path (o : op) : path := e_path (fst o).

Definition find_op (p : path) (ops : list op) : option op := find (fun o => path_eqb (op_path o) p) ops.

Definition in_closure (q : path) (ops : list op) : Prop :=
  exists o, In o ops /\ is_prefix_path q (op_path o) = true.

(* the attributes mknode gives the node of an add *)
Definition op_attr (e : gent) (extra : option (list N)) : tattr :=
  let hard := e_hard e in
  let typ := if hard then FLnk else e_type e in
  let islnk := ftype_eqb typ FLnk in
  mkAttr typ
         (if islnk then 511 else e_perm e)
         (e_uid e) (e_gid e) (clamp_ts (e_mtime e))
         (if ftype_eqb typ FDir then 2 else 1)
         false hard
         (if ftype_eqb typ FReg then extra else None)
         (if islnk && negb hard then match extra with Some x => x | None => [] end else [])
         (if hard then match extra with
                       | Some x => match canon_comps x with Some h => h | None => [] end
                       | None => []
                       end else [])
         (if ftype_eqb typ FBlk || ftype_eqb typ FChr then e_rdev e else 0)
         None.

Definition implicit_attr (d : fsdefaults) : tattr := node_attr (implicit_dir d []).

(* the attributes of the node named [id]: those of its add; a path no add names is a directory that exists only
   because something was added below it (or the root) *)
Definition spec_attr (d : fsdefaults) (ops : list op) (id : path) : tattr :=
  match find_op id ops with
  | Some (e, x) => op_attr e x
  | None => implicit_attr d
  end.

(* the node a path stands for: hard link adds are followed through their (canonicalised) targets *)
Fixpoint spec_resolve (fuel : nat) (ops : list op) (p : path) : option path :=
  match fuel with
  | O => None
  | S f =>
      match find_op p ops with
      | Some (e, x) =>
          if e_hard e then
            match x with
            | Some s => match canon_comps s with Some tp => spec_resolve f ops tp | None => None end
            | None => None
            end
          else Some p
      | None => Some p
      end
  end.

Definition spec_pview (fb : path -> ibody) (xa : path -> N) (d : fsdefaults) (ops : list op) (id : path) : pview :=
  pview_of_node fb xa id (TNode [] (spec_attr d ops id) []).

(* what pview_of_node and resolves read of a node *)
Definition attr_sim (a b : tattr) : Prop :=
  a_type a = a_type b /\ a_perm a = a_perm b /\ a_uid a = a_uid b /\ a_gid a = a_gid b /\ a_mtime a = a_mtime b /\
  (a_type a = FLnk -> a_hard a = a_hard b /\ a_target a = a_target b /\ a_hardtgt a = a_hardtgt b) /\
  (a_type a = FBlk \/ a_type a = FChr -> a_devno a = a_devno b).

(* ------------------------------------------------------------------ sqfs2tar: what its iterator stack delivers *)

(* entry + link target as write_entry gets them (xattrs and file contents are attached elsewhere) *)
Definition mentry := (TarHdr.entry * option (list N))%type.

Definition kind_size (k : lkind) : N :=
  match k with
  | LFile _ fsz _ _ _ _ => fsz
  | LSlink t => N.of_nat (length t)
  | _ => 0
  end.
Definition kind_rdev (k : lkind) : N := match k with LDev _ dv => dv | _ => 0 end.
Definition kind_target (k : lkind) : option (list N) := match k with LSlink t => Some t | _ => None end.

Definition mode_is_dir (m : N) : bool := TarHdr.ftype m =? TarHdr.S_IFDIR.

Section S2T.
  Variable K : Type.
  Variable keqb : K -> K -> bool.

  Fixpoint seen_find (k : K) (seen : list (K * list N)) : option (list N) :=
    match seen with
    | [] => None
    | (k', nm) :: r => if keqb k' k then Some nm else seen_find k r
    end.

  (* sqfs_dir_entry_from_inode + tar_compat_iterator (trailing '/') + hl_iterator next() for one path;
     None = the id table has no such index (SQFS_ERROR_OUT_OF_BOUNDS) *)
  Definition s2t_item (name : list N) (v : pview) (hl : option (list N)) : option mentry :=
    match pv_uid v, pv_gid v with
    | Some u, Some g =>
        Some (match hl with
              | Some tg =>
                  (TarHdr.mkentry name (TarHdr.S_IFLNK + 511) u g (N.of_nat (length tg)) (Z.of_N (pv_mtime v))
                                  (kind_rdev (pv_kind v)) true, Some tg)
              | None =>
                  (TarHdr.mkentry (if mode_is_dir (pv_mode v) then name ++ [47] else name) (pv_mode v) u g
                                  (kind_size (pv_kind v)) (Z.of_N (pv_mtime v)) (kind_rdev (pv_kind v)) false,
                   kind_target (pv_kind v))
              end)
    | _, _ => None
    end.

  (* [seen] = the inumtree of the hard link filter: inode key -> first path.  detect_hard_link never matches a
     directory; store_hard_link stores everything else that was not detected (sockets included: the refusal happens
     later, in write_tar_header).  [no_links] = sqfs2tar -L: no filter at all. *)
  Fixpoint s2t_go (no_links : bool) (seen : list (K * list N)) (l : list (path * pview * K)) : option (list mentry) :=
    match l with
    | [] => Some []
    | (p, v, k) :: r =>
        match p with
        | [] => s2t_go no_links seen r                      (* the root directory has no entry of its own *)
        | _ =>
            let name := join_slash p in
            let plain := no_links || mode_is_dir (pv_mode v) in
            let hl := if plain then None else seen_find k seen in
            let seen' := match hl with
                         | Some _ => seen
                         | None => if plain then seen else (k, name) :: seen
                         end in
            match s2t_item name v hl, s2t_go no_links seen' r with
            | Some e, Some es => Some (e :: es)
            | _, _ => None
            end
        end
    end.

  Definition s2t_entries (no_links : bool) (l : list (path * pview * K)) : option (list mentry) :=
    s2t_go no_links [] l.
End S2T.

(* on the reader's view the key is the inode number (one inode reference per inode number in an image: Img.read_tree
   reaches every inode through its reference and reports the number stored in it) *)
Definition sqfs2tar_entries (no_links : bool) (view : list (path * pview * N)) : option (list mentry) :=
  s2t_entries N N.eqb no_links view.

(* ------------------------------------------------------------------ the executable composition (for the tie) *)

(* file inode as the block processor leaves it, as far as the walk reads it: the size *)
Definition body_of_size (sz : N) : ibody := BFile 0 4294967295 0 sz [].

Definition fb_of (sizes : list (path * N)) (p : path) : ibody :=
  body_of_size (match find (fun x => path_eqb (fst x) p) sizes with Some (_, s) => s | None => 0 end).

(* the reader view of the post-processed tree, computed on the tree (PathsProofs.flat_pp is the same function;
   RoundTrip.pack_paths_roundtrip says that this is what read_tree returns for the serialized image) *)
Section View.
  Variable fb : path -> ibody.
  Variable xa : path -> N.
  Variable root : tnode.
  Variable arr : list path.

  Definition nview (id : path) : pview :=
    match lookup_path id root with
    | Some nd => pview_of_node fb xa id nd
    | None => mkPv 0 None None 0 0 (LIpc false)
    end.

  Fixpoint tree_view (p : path) (n : tnode) : list (path * pview * N) :=
    match n with
    | TNode _ a ch =>
        (p, nview p, ino_of arr p) ::
        (if ftype_eqb (a_type a) FDir
         then concat (map (fun c => if is_hardlink c
                                    then let tg := match a_resolved (node_attr c) with Some tg => tg | None => [] end in
                                         [(p ++ [node_name c], nview tg, ino_of arr tg)]
                                    else tree_view (p ++ [node_name c]) c) ch)
         else [])
    end.
End View.

(* the sizes of the files the adds of a run create (ent->size of the entry handed to write_file) *)
Definition sizes_of (o : t2s_opts) (d : fsdefaults) (vs : list TarStream.tentry) : list (path * N) :=
  flat_map (fun t => match pt_op_of o d t with
                     | PAdd e _ => [(e_path e, TarHdr.e_size (TarStream.te_e t))]
                     | _ => []
                     end) vs.

(* tar entries -> tar2sqfs -> fstree_post_process -> (image, reader) -> sqfs2tar's entry sequence *)
Definition tar_roundtrip_entries (o : t2s_opts) (d : fsdefaults) (no_links : bool) (vs : list TarStream.tentry)
  : option (list mentry) :=
  match tar2sqfs_tree o d vs with
  | None => None
  | Some fs =>
      match post_process fs with
      | POk pp =>
          sqfs2tar_entries no_links
            (tree_view (fb_of (sizes_of o d vs)) (fun _ => 4294967295) (pp_root pp) (pp_inodes pp) [] (pp_root pp))
      | _ => None
      end
  end.

(* ------------------------------------------------------------------ archives in the shape sqfs2tar emits *)

Definition opts0 : t2s_opts := mkOpts None false true.       (* tar2sqfs without --root-becomes / -S / -k *)

Definition ent_path (t : TarStream.tentry) : path := path_of_name (t_name t).

(* the name is what canonicalize_name leaves and names a node below the root *)
Definition tname_okb (t : TarStream.tentry) : bool :=
  let p := ent_path t in
  negb (match p with [] => true | _ => false end) &&
  TarHdr.list_eqb (join_slash p) (t_name t) &&
  match canon_comps (t_name t) with Some q => path_eqb q p | None => false end.

(* proper, non-empty prefixes *)
Fixpoint proper_prefixes (p : path) : list path :=
  match p with
  | [] => []
  | c :: r => match r with [] => [] | _ => [c] :: map (cons c) (proper_prefixes r) end
  end.

Definition same_inode_fields (u t : TarStream.tentry) : bool :=
  (TarHdr.e_uid (TarStream.te_e u) =? TarHdr.e_uid (TarStream.te_e t)) &&
  (TarHdr.e_gid (TarStream.te_e u) =? TarHdr.e_gid (TarStream.te_e t)) &&
  Z.eqb (TarStream.clamp_mtime (TarHdr.e_mtime (TarStream.te_e u)))
        (TarStream.clamp_mtime (TarHdr.e_mtime (TarStream.te_e t))).

(* one entry, given the entries in front of it:
   - a hard link record names an EARLIER entry that is neither a hard link record nor a directory, and repeats the
     owner and time stamp of that inode (sqfs2tar fills the record from the inode both names share),
   - everything else has a type tar can express; symbolic links carry the mode every reader forces on them,
   - every directory above the entry has its own, earlier, entry (nothing is created implicitly) *)
Definition entry_shapeb (earlier : list TarStream.tentry) (t : TarStream.tentry) : bool :=
  tname_okb t && (t_mode t <? 65536) &&
  (if t_hard t then
     (t_mode t =? TarHdr.S_IFLNK + 511) &&
     match TarStream.te_target t with
     | Some tg => existsb (fun u => TarHdr.list_eqb (t_name u) tg && negb (t_hard u) && negb (mode_is_dir (t_mode u)) &&
                                    tname_okb u && same_inode_fields u t) earlier
     | None => false
     end
   else
     match TarHdr.type_of_mode (t_mode t) with Some _ => true | None => false end &&
     (if TarHdr.ftype (t_mode t) =? TarHdr.S_IFLNK
      then (t_mode t =? TarHdr.S_IFLNK + 511) && match TarStream.te_target t with Some _ => true | None => false end
      else true)) &&
  forallb (fun q => existsb (fun u => path_eqb (ent_path u) q) earlier) (proper_prefixes (ent_path t)).

Fixpoint shape_go (earlier vs : list TarStream.tentry) : bool :=
  match vs with
  | [] => true
  | t :: r => entry_shapeb earlier t && shape_go (t :: earlier) r
  end.

Fixpoint ssortedb (l : list path) : bool :=
  match l with
  | [] => true
  | p :: r => forallb (path_ltb p) r && ssortedb r
  end.

(* the listing of an image as sqfs2tar's iterators deliver it, seen through the tar reader: directory order (a
   directory in front of its contents, siblings by strcmp), every directory listed, later names of an inode as hard
   link records pointing at the first *)
Definition tree_shapeb (vs : list TarStream.tentry) : bool :=
  shape_go [] vs && ssortedb ([] :: map ent_path vs).

(* what the block processor left for the regular files: the size the entry announced (contents: C08) *)
Definition files_attached (fb : path -> ibody) (vs : list TarStream.tentry) : Prop :=
  forall t, In t vs -> TarStream.is_reg (t_mode t) = true -> t_hard t = false ->
            kind_size (lkind_of_body (fb (ent_path t))) = TarHdr.e_size (TarStream.te_e t).

(* two descriptions of an entry from which write_tar_header produces the same bytes (C04 write_tar_header_irrel):
   the size only counts for regular files, the device number for devices, the target for links *)
Definition meq (m : mentry) (r : TarStream.tentry) : Prop :=
  let e1 := fst m in let e2 := TarStream.te_e r in
  TarHdr.e_name e1 = TarHdr.e_name e2 /\ TarHdr.e_hardlink e1 = TarHdr.e_hardlink e2 /\
  TarHdr.e_mode e1 = TarHdr.e_mode e2 /\ TarHdr.e_uid e1 = TarHdr.e_uid e2 /\ TarHdr.e_gid e1 = TarHdr.e_gid e2 /\
  TarHdr.e_mtime e1 = TarHdr.e_mtime e2 /\
  (TarStream.is_reg (TarHdr.e_mode e1) = true -> TarHdr.e_size e1 = TarHdr.e_size e2) /\
  ((TarHdr.ftype (TarHdr.e_mode e1) =? TarHdr.S_IFCHR) || (TarHdr.ftype (TarHdr.e_mode e1) =? TarHdr.S_IFBLK) = true ->
   TarHdr.e_rdev e1 = TarHdr.e_rdev e2) /\
  (TarHdr.e_hardlink e1 = true \/ TarHdr.ftype (TarHdr.e_mode e1) = TarHdr.S_IFLNK -> snd m = TarStream.te_target r).

(* ------------------------------------------------------------------ for the tie: the attempted adds of a run *)
(* the fstree_add_generic calls process_tarball makes until it stops (the failing call included), the root node's
   attributes afterwards, and whether the loop finished *)
Fixpoint pt_trace (keep_time : bool) (d : fsdefaults) (fs : fstree) (ops : list pt_op) (acc : list op)
  : list op * fstree * bool :=
  match ops with
  | [] => (rev acc, fs, true)
  | PSkip :: r => pt_trace keep_time d fs r acc
  | PRootBad :: _ => (rev acc, fs, false)
  | PRootAttr e :: r => pt_trace keep_time d (set_root_attr keep_time fs e) r acc
  | PAdd e x :: r =>
      match fs_add d fs e x with
      | Some fs' => pt_trace keep_time d fs' r ((e, x) :: acc)
      | None => (rev ((e, x) :: acc), fs, false)
      end
  end.

Definition tar2sqfs_trace (o : t2s_opts) (d : fsdefaults) (vs : list TarStream.tentry) : list op * fstree * bool :=
  pt_trace (o_keep_time o) d (fs_init d) (pt_ops o d vs) [].

(* an entry of the walk as a tar entry without xattrs, regular files filled with zeros (metadata only) *)
Definition bare_entry (m : mentry) : TarStream.tentry :=
  TarStream.mkte (fst m) (snd m) []
    (if TarStream.is_reg (TarHdr.e_mode (fst m)) && negb (TarHdr.e_hardlink (fst m))
     then repeat 0 (N.to_nat (TarHdr.e_size (fst m))) else []).
