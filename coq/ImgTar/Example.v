(* ImgTar — non-vacuity.  [it_es]: the listing of an image as sqfs2tar's iterators deliver it (directory with its
   trailing '/', regular file, a second name of that file, a symbolic link, a device, a second name of the SYMBOLIC
   LINK).  It meets every hypothesis of conv_fixpoint_composed, and the conclusion computes.
   [it_rough]: an archive as a user may write it (no entry for d or d/sub, the hard link in front of its target, a
   chain of hard links, a hard link to a symbolic link with another owner in its header): the hypotheses of
   image_view_of_adds hold; what comes out of the composed models is NOT C04's reimage_all of it. *)
From Coq Require Import List NArith ZArith Bool.
From SqfsV Require Import Gen.Constants C03.Common C03.MetaModel C03.DirModel.
From SqfsV Require C04.TarNum C04.TarHdr C04.TarStream C04.TarArchiveProofs.
From SqfsV Require Import C01.GenC01 C01.Res C01.InodeModel Img.TreeModel.
From SqfsV Require Import C11.StrOrder C11.FstreeModel C11.PostModel.
From SqfsV Require Import ImgPost.Bridge ImgPost.InputOk ImgPost.PathsModel ImgPost.PathsProofs.
From SqfsV Require Import ImgTar.Model ImgTar.Semantics ImgTar.Reimage ImgTar.Compose.
Import ListNotations.
Local Open Scope N_scope.

Definition it_mk (name : list N) (mode uid gid size : N) (mtime : Z) (rdev : N) (hl : bool)
           (tg : option (list N)) (xs : list TarHdr.xattr) (data : list N) : TarStream.tentry :=
  TarStream.mkte (TarHdr.mkentry name mode uid gid size mtime rdev hl) tg xs data.

Definition it_LNK : N := TarHdr.S_IFLNK + 511.

(* d/  d/f  d/h => d/f  d/l -> f  dev  z => d/l *)
Definition it_es : list TarStream.tentry :=
  [ it_mk [100; 47] (TarHdr.S_IFDIR + 493) 0 0 0 0%Z 0 false None [] [];
    it_mk [100; 47; 102] (TarHdr.S_IFREG + 420) 1000 1000 3 1700000000%Z 0 false None
       [TarArchiveProofs.x_user_a; TarArchiveProofs.x_user_b] [104; 105; 10];
    it_mk [100; 47; 104] it_LNK 1000 1000 0 1700000000%Z 0 true (Some [100; 47; 102]) [] [];
    it_mk [100; 47; 108] it_LNK 0 0 1 7%Z 0 false (Some [102]) [TarArchiveProofs.x_user_b] [];
    it_mk [100; 101; 118] (TarHdr.S_IFCHR + 384) 0 0 0 1%Z 259 false None [] [];
    it_mk [122] it_LNK 0 0 0 7%Z 0 true (Some [100; 47; 108]) [] [] ].

Definition it_vs : list TarStream.tentry := TarArchiveProofs.views it_es.
Definition it_d : fsdefaults := mkDefaults 0 0 0 493.

Definition it_fb (p : path) : ibody :=
  if path_eqb p [[100]; [102]] then BFile 96 NOX NOX 3 [3] else BFile 0 NOX NOX 0 [].
Definition it_xa (p : path) : N := if path_eqb p [[100]; [102]] then 0 else if path_eqb p [[100]; [108]] then 1 else NOX.

Definition it_run : option (bool * bool * bool * ltree * ppout) :=
  match tar2sqfs_tree opts0 it_d it_vs with
  | Some fs =>
      match post_process fs with
      | POk pp =>
          match serialize_fstree (img_compress 3) c_id_table_limit (to_img it_fb it_xa pp) with
          | Ok img =>
              match read_tree (img_uncompress 3) 4096 (si_itbl img) (si_dtbl img) (si_ids img)
                              (length (pp_inodes pp)) (si_root img) with
              | Some lt => Some (input_okb 4096 it_d (adds_of_entries opts0 it_d it_vs),
                                 attached_okb 4096 it_fb it_xa pp, trace_fits img, lt, pp)
              | None => None
              end
          | _ => None
          end
      | _ => None
      end
  | None => None
  end.

Lemma it_files_attached : files_attached it_fb it_vs.
Proof.
  intros t Ht R H. vm_compute in Ht.
  repeat (destruct Ht as [<-|Ht]; [try (vm_compute in R; discriminate); try (vm_compute in H; discriminate); vm_compute; reflexivity|]).
  destruct Ht.
Qed.

(* the hypotheses of conv_fixpoint_composed *)
Lemma it_hyps :
  Forall TarArchiveProofs.entry_ok it_es /\ Forall TarArchiveProofs.img_shape it_es /\ TarArchiveProofs.settled [] it_es /\
  tree_shapeb it_vs = true /\ files_attached it_fb it_vs /\
  match it_run with
  | Some (inp, att, fits, _, _) => inp = true /\ att = true /\ fits = true
  | None => False
  end.
Proof.
  split; [|split; [|split; [|split; [|split]]]].
  - apply Forall_forall. intros t Ht. apply TarArchiveProofs.entry_okb_sound.
    cbn [it_es In] in Ht. repeat (destruct Ht as [<-|Ht]; [vm_compute; reflexivity|]). contradiction.
  - apply Forall_forall. intros t Ht. apply TarArchiveProofs.img_shapeb_sound.
    cbn [it_es In] in Ht. repeat (destruct Ht as [<-|Ht]; [vm_compute; reflexivity|]). contradiction.
  - apply TarArchiveProofs.settledb_sound. vm_compute. reflexivity.
  - vm_compute. reflexivity.
  - exact it_files_attached.
  - vm_compute. repeat split; reflexivity.
Qed.

(* ... and its conclusion on this instance: the walk delivers six entries, second names as hard link records (the one
   to the symbolic link too), and sqfs2tar writes the archive it was started from *)
Lemma it_concl :
  match it_run with
  | Some (_, _, _, lt, _) =>
      match sqfs2tar_entries false (flat_lt [] lt) with
      | Some out =>
          map (fun m => (TarHdr.e_name (fst m), TarHdr.e_hardlink (fst m), snd m)) out =
            [ ([100; 47], false, None); ([100; 47; 102], false, None); ([100; 47; 104], true, Some [100; 47; 102]);
              ([100; 47; 108], false, Some [102]); ([100; 101; 118], false, None); ([122], true, Some [100; 47; 108]) ] /\
          TarStream.write_archive (attach_all out (TarStream.reimage_all [] it_vs)) = TarStream.write_archive it_es
      | None => False
      end
  | None => False
  end.
Proof. vm_compute. split; reflexivity. Qed.

(* the executable composition the tie runs computes the same entries *)
Lemma it_exec :
  match it_run, tar_roundtrip_entries opts0 it_d false it_vs with
  | Some (_, _, _, lt, _), Some out' =>
      match sqfs2tar_entries false (flat_lt [] lt) with
      | Some out => map (fun m => (TarHdr.e_name (fst m), TarHdr.e_mode (fst m), TarHdr.e_uid (fst m), TarHdr.e_mtime (fst m),
                                  TarHdr.e_size (fst m), TarHdr.e_rdev (fst m), TarHdr.e_hardlink (fst m), snd m)) out =
                    map (fun m => (TarHdr.e_name (fst m), TarHdr.e_mode (fst m), TarHdr.e_uid (fst m), TarHdr.e_mtime (fst m),
                                  TarHdr.e_size (fst m), TarHdr.e_rdev (fst m), TarHdr.e_hardlink (fst m), snd m)) out'
      | None => False
      end
  | _, _ => False
  end.
Proof. vm_compute. reflexivity. Qed.

(* ------------------------------------------------------------------ a first-round archive *)
(* d/sub/f (no entry for d, d/sub), a => d/l2 (chain, before its target), d/ with mtime 2^32+5, d/l2 => d/sub/f,
   s -> tgt owned by 5:6, b => s with owner 9:9 in its own header, B/ *)
Definition it_rough : list TarStream.tentry :=
  [ it_mk [100; 47; 115; 117; 98; 47; 102] (TarHdr.S_IFREG + 420) 1000 100 2 1600000000%Z 0 false None [] [1; 2];
    it_mk [97] it_LNK 0 0 0 0%Z 0 true (Some [100; 47; 108; 50]) [] [];
    it_mk [100] (TarHdr.S_IFDIR + 448) 1 2 0 4294967301%Z 0 false None [] [];
    it_mk [100; 47; 108; 50] it_LNK 0 0 0 0%Z 0 true (Some [46; 47; 100; 47; 47; 115; 117; 98; 47; 102]) [] [];
    it_mk [115] it_LNK 5 6 3 (-7)%Z 0 false (Some [116; 103; 116]) [] [];
    it_mk [98] it_LNK 9 9 0 3%Z 0 true (Some [115]) [] [];
    it_mk [66] (TarHdr.S_IFDIR + 493) 0 0 0 1%Z 0 false None [] [] ].

Definition it_rough_ops : list op := adds_of_entries opts0 it_d it_rough.

Lemma it_rough_hyps :
  forallb no_root_op (pt_ops opts0 it_d it_rough) = true /\ ops_okb it_rough_ops = true /\
  links_resolveb it_rough_ops = true /\ input_okb 4096 it_d it_rough_ops = true /\
  tree_shapeb it_rough = false /\
  match tar2sqfs_tree opts0 it_d it_rough with
  | Some fs => match post_process fs with POk _ => True | _ => False end
  | None => False
  end.
Proof. vm_compute. repeat split; reflexivity. Qed.

(* directory order, d and d/sub listed (d/sub with the defaults), the first name in directory order carries the inode
   (a, not d/sub/f; b, not s) and the records of the others point at it; the hard link record repeats the owner of
   the inode (5:6), not the 9:9 of the archive's own record: none of this is [reimage_all] of the archive *)
Lemma it_rough_out :
  match tar_roundtrip_entries opts0 it_d false it_rough with
  | Some out =>
      map (fun m => (TarHdr.e_name (fst m), TarHdr.e_hardlink (fst m), TarHdr.e_uid (fst m), snd m)) out =
        [ ([66; 47], false, 0, None);
          ([97], false, 1000, None);
          ([98], false, 5, Some [116; 103; 116]);
          ([100; 47], false, 1, None);
          ([100; 47; 108; 50], true, 1000, Some [97]);
          ([100; 47; 115; 117; 98; 47], false, 0, None);
          ([100; 47; 115; 117; 98; 47; 102], true, 1000, Some [97]);
          ([115], true, 5, Some [98]) ] /\
      map (fun m => TarHdr.e_name (fst m)) out <>
      map (fun t => TarHdr.e_name (TarStream.te_e t)) (TarStream.reimage_all [] it_rough)
  | None => False
  end.
Proof. vm_compute. split; [reflexivity|discriminate]. Qed.

(* ------------------------------------------------------------------ a socket with two names (image side only) *)
(* s (socket, inode 1), t (the same inode), f: the walk turns t into a hard link record to s, write_entries skips s
   (tar cannot express it) and keeps the record: the archive names a link target it does not contain *)
Definition it_sock_view : list (path * pview * N) :=
  [ ([], mkPv (TarHdr.S_IFDIR + 493) (Some 0) (Some 0) 0 NOX (LDir 0), 3);
    ([[102]], mkPv (TarHdr.S_IFREG + 420) (Some 0) (Some 0) 0 NOX (LFile 0 0 0 NOX NOX []), 2);
    ([[115]], mkPv (TarHdr.S_IFSOCK + 420) (Some 0) (Some 0) 0 NOX (LIpc true), 1);
    ([[116]], mkPv (TarHdr.S_IFSOCK + 420) (Some 0) (Some 0) 0 NOX (LIpc true), 1) ].

Lemma it_sock_dangling :
  match sqfs2tar_entries false it_sock_view with
  | Some out =>
      let es := map (fun m => TarStream.mkte (fst m) (snd m) [] []) out in
      match TarStream.read_archive (TarStream.write_archive es) with
      | TarStream.RA_Ok vs =>
          map (fun t => (TarHdr.e_name (TarStream.te_e t), TarHdr.e_hardlink (TarStream.te_e t), TarStream.te_target t)) vs =
            [([102], false, None); ([116], true, Some [115])] /\
          tar2sqfs_tree opts0 it_d vs <> None /\
          match tar2sqfs_tree opts0 it_d vs with
          | Some fs => post_process fs = PErr
          | None => False
          end
      | _ => False
      end
  | None => False
  end.
Proof. vm_compute. repeat split; try reflexivity; discriminate. Qed.

(* ------------------------------------------------------------------ the auditor's list *)
(* the same name twice with different contents, a child in front of its directory, names out of order: C04's
   conv_fixpoint accepts this list as an "image" (entry_ok, img_shape, settled hold; convert returns it unchanged).
   It is no listing of any image: the shape test refuses it, and so does the model of tar2sqfs (the second z is EEXIST) *)
Definition it_weird : list TarStream.tentry :=
  [ it_mk [122] (TarHdr.S_IFREG + 420) 0 0 1 0%Z 0 false None [] [1];
    it_mk [100; 47; 102] (TarHdr.S_IFREG + 420) 0 0 1 0%Z 0 false None [] [2];
    it_mk [122] (TarHdr.S_IFREG + 420) 0 0 1 0%Z 0 false None [] [3];
    it_mk [100; 47] (TarHdr.S_IFDIR + 493) 0 0 0 0%Z 0 false None [] [] ].

Lemma it_weird_refused :
  forallb TarArchiveProofs.entry_okb it_weird && forallb TarArchiveProofs.img_shapeb it_weird &&
    TarArchiveProofs.settledb [] it_weird = true /\
  TarStream.convert it_weird = TarStream.RA_Ok it_weird /\
  tree_shapeb (TarArchiveProofs.views it_weird) = false /\
  tar2sqfs_tree opts0 it_d (TarArchiveProofs.views it_weird) = None.
Proof. vm_compute. repeat split; reflexivity. Qed.
