(* ImgTar — the tree a list of successful fstree_add_generic calls builds, described without the tree: which paths
   exist ([in_closure]: the added paths and their prefixes), what attributes the node at a path carries ([spec_attr]:
   those of its add, defaults for a directory nobody added), which node a hard link stands for ([spec_resolve]). *)
From Coq Require Import List NArith ZArith Bool Lia Sorted.
From SqfsV Require Import C11.StrOrder C11.FstreeModel C11.PostModel C11.TreeProofs C11.PostProofs.
From SqfsV Require Import ImgPost.Bridge ImgPost.TreeInv ImgPost.StructInv ImgPost.ResolveInv ImgPost.BridgeProofs ImgPost.PathsModel
  ImgPost.PathsProofs.
From SqfsV Require Import ImgTar.Model ImgTar.AddLookup.
Import ListNotations.

(* ------------------------------------------------------------------ the domain *)
(* every add names a path below the root (the root entry of an archive is not an add: set_root_attribs), no path is
   added twice, a hard link entry has the link type (the tar iterator forces S_IFLNK | 0777 on it), the time stamp of
   a directory is inside the 32 bit range (process_tarball clamps every time stamp before the add; the "fill in an
   implicit directory" branch stores it unclamped) *)
Definition op_okb (o : op) : bool :=
  let e := fst o in
  negb (match e_path e with [] => true | _ => false end) &&
  (if e_hard e then ftype_eqb (e_type e) FLnk else true) &&
  (if ftype_eqb (e_type e) FDir then N.eqb (clamp_ts (e_mtime e)) (trunc_u32 (e_mtime e)) else true).

Fixpoint nodup_paths (l : list path) : bool :=
  match l with
  | [] => true
  | p :: r => negb (existsb (path_eqb p) r) && nodup_paths r
  end.

Definition ops_okb (ops : list op) : bool := forallb op_okb ops && nodup_paths (map op_path ops).

Lemma nodup_paths_sound l : nodup_paths l = true -> NoDup l.
Proof.
  induction l as [|p r IH]; cbn; intro H; [constructor|]. apply andb_prop in H. destruct H as [H1 H2].
  constructor; [|apply IH; exact H2]. intro I. apply negb_true_iff in H1.
  assert (E : existsb (path_eqb p) r = true) by (apply existsb_exists; exists p; split; [exact I|apply path_eqb_refl]).
  congruence.
Qed.

(* ------------------------------------------------------------------ small facts *)
Lemma attr_sim_refl a : attr_sim a a.
Proof. unfold attr_sim. repeat split; reflexivity. Qed.

Lemma attr_sim_trans a b c : attr_sim a b -> attr_sim b c -> attr_sim a c.
Proof.
  unfold attr_sim. intros (T1 & P1 & U1 & G1 & M1 & L1 & D1) (T2 & P2 & U2 & G2 & M2 & L2 & D2).
  assert (LL : a_type a = FLnk -> a_hard a = a_hard c /\ a_target a = a_target c /\ a_hardtgt a = a_hardtgt c).
  { intro H. destruct (L1 H) as (X1 & X2 & X3). destruct (L2 ltac:(congruence)) as (Y1 & Y2 & Y3).
    repeat split; congruence. }
  assert (DD : a_type a = FBlk \/ a_type a = FChr -> a_devno a = a_devno c).
  { intro H. rewrite (D1 H). apply D2. rewrite <- T1. exact H. }
  split; [congruence|]. split; [congruence|]. split; [congruence|]. split; [congruence|]. split; [congruence|].
  split; assumption.
Qed.

Lemma links_only_sim a' a : links_only a' a -> attr_sim a' a.
Proof. intros [->| ->]; [apply attr_sim_refl|]. unfold attr_sim, inc_links. cbn. repeat split; reflexivity. Qed.

Lemma mknode_attr nm e x n : mknode nm e x = Some n -> node_attr n = op_attr e x.
Proof.
  unfold mknode, op_attr. destruct (e_hard e) eqn:Hh.
  - destruct x as [s|]; [|discriminate]. destruct (canon_comps s) as [h|]; [|discriminate].
    intro H. injection H as <-. reflexivity.
  - intro H. injection H as <-. reflexivity.
Qed.

Lemma fill_dir_attr c e x c' : op_okb (e, x) = true -> fill_dir c e = Some c' -> attr_sim (node_attr c') (op_attr e x).
Proof.
  intros Ok H. destruct c as [nm a ch]. unfold fill_dir in H.
  destruct (ftype_eqb (a_type a) FDir && ftype_eqb (e_type e) FDir && a_implicit a) eqn:E; [|discriminate].
  injection H as <-. apply andb_prop in E. destruct E as [E _]. apply andb_prop in E. destruct E as [_ Ed].
  unfold op_okb in Ok. cbn [fst] in Ok. apply andb_prop in Ok. destruct Ok as [Ok Om]. apply andb_prop in Ok.
  destruct Ok as [_ Oh]. rewrite Ed in Om. apply N.eqb_eq in Om.
  assert (Hh : e_hard e = false).
  { destruct (e_hard e); [|reflexivity]. apply ftype_eqb_eq in Ed. rewrite Ed in Oh. discriminate. }
  apply ftype_eqb_eq in Ed.
  unfold attr_sim, op_attr. rewrite Hh, Ed. cbn. repeat split; try reflexivity; try discriminate.
  - symmetry. exact Om.
  - intros [H|H]; discriminate.
Qed.

Lemma find_op_app p ops1 ops2 :
  find_op p (ops1 ++ ops2) = match find_op p ops1 with Some o => Some o | None => find_op p ops2 end.
Proof.
  unfold find_op. induction ops1 as [|o r IH]; [reflexivity|]. cbn [app find].
  destruct (path_eqb (op_path o) p); [reflexivity|exact IH].
Qed.

Lemma find_op_one q e x : find_op q [(e, x)] = if path_eqb (e_path e) q then Some (e, x) else None.
Proof. reflexivity. Qed.

Lemma find_op_none p ops : ~ In p (map op_path ops) -> find_op p ops = None.
Proof.
  unfold find_op. induction ops as [|o r IH]; intro H; [reflexivity|]. cbn [find].
  destruct (path_eqb (op_path o) p) eqn:E.
  - apply path_eqb_eq in E. exfalso. apply H. left. exact E.
  - apply IH. intro I. apply H. right. exact I.
Qed.

Lemma find_op_some p ops o : find_op p ops = Some o -> In o ops /\ op_path o = p.
Proof.
  unfold find_op. intro H. apply find_some in H. destruct H as [H1 H2]. apply path_eqb_eq in H2. auto.
Qed.

Lemma find_op_in p ops : In p (map op_path ops) -> exists o, find_op p ops = Some o.
Proof.
  unfold find_op. induction ops as [|o r IH]; [intros []|]. cbn [map In find]. intros [E|I].
  - rewrite E, path_eqb_refl. eauto.
  - destruct (path_eqb (op_path o) p); [eauto|apply IH; exact I].
Qed.

Lemma in_closure_app q ops1 ops2 : in_closure q (ops1 ++ ops2) <-> in_closure q ops1 \/ in_closure q ops2.
Proof.
  unfold in_closure. split.
  - intros (o & I & P). apply in_app_or in I. destruct I; [left|right]; eauto.
  - intros [(o & I & P)|(o & I & P)]; exists o; split; auto; apply in_or_app; auto.
Qed.

Lemma in_closure_one q o : in_closure q [o] <-> is_prefix_path q (op_path o) = true.
Proof.
  unfold in_closure. split.
  - intros (o' & [<-|[]] & P). exact P.
  - intro P. exists o. split; [left; reflexivity|exact P].
Qed.

Lemma run_adds_snoc d : forall ops fs e x,
  run_adds d fs (ops ++ [(e, x)]) = obind (run_adds d fs ops) (fun fs' => fs_add d fs' e x).
Proof.
  induction ops as [|[e0 x0] r IH]; intros fs e x; cbn [app run_adds obind].
  - destruct (fs_add d fs e x); reflexivity.
  - destruct (fs_add d fs e0 x0); [apply IH|reflexivity].
Qed.

(* ------------------------------------------------------------------ the invariant *)
Record sem_inv (d : fsdefaults) (ops : list op) (root : tnode) : Prop := {
  si_exists : forall q, exists_at q root <-> q = [] \/ in_closure q ops;
  si_attr : forall q nd, lookup_path q root = Some nd -> attr_sim (node_attr nd) (spec_attr d ops q)
}.

Lemma sem_inv_init d : sem_inv d [] (fs_root (fs_init d)).
Proof.
  constructor.
  - intro q. split.
    + intros (nd & L). destruct q as [|c q]; [left; reflexivity|]. cbn in L. discriminate.
    + intros [->|(o & [] & _)]. eexists. reflexivity.
  - intros q nd L. destruct q as [|c q]; [|cbn in L; discriminate]. cbn in L. injection L as <-.
    apply attr_sim_refl.
Qed.

Lemma sem_inv_step d ops root e x root' :
  sem_inv d ops root -> op_okb (e, x) = true -> ~ In (e_path e) (map op_path ops) ->
  add_path d (e_path e) e x root = Some root' -> sem_inv d (ops ++ [(e, x)]) root'.
Proof.
  intros [Ie Ia] Ok Nd A. constructor.
  - intro q. rewrite (add_path_exists d _ _ _ _ _ A q), Ie, in_closure_app, in_closure_one. cbn [op_path fst]. tauto.
  - intros q nd'' L. unfold spec_attr. rewrite find_op_app.
    destruct (is_prefix_path q (e_path e)) eqn:P.
    + destruct (add_path_prefix d _ _ _ _ _ A q P) as (nd' & L' & R). rewrite L in L'. injection L' as <-.
      destruct (path_eqb q (e_path e)) eqn:E.
      * apply path_eqb_eq in E. subst q. rewrite (find_op_none _ _ Nd).
        rewrite find_op_one, path_eqb_refl.
        destruct (lookup_path (e_path e) root) as [nd|].
        -- eapply fill_dir_attr; eauto.
        -- destruct R as (nm & M). rewrite (mknode_attr _ _ _ _ M). apply attr_sim_refl.
      * destruct R as (_ & R). apply links_only_sim in R.
        assert (F2 : find_op q [(e, x)] = None).
        { rewrite find_op_one. rewrite path_eqb_neq in E.
          assert (E' : path_eqb (e_path e) q = false) by (apply path_eqb_neq; congruence). rewrite E'. reflexivity. }
        rewrite F2.
        destruct (lookup_path q root) as [nd|] eqn:L0.
        -- eapply attr_sim_trans; [exact R|]. specialize (Ia q nd L0). unfold spec_attr in Ia.
           destruct (find_op q ops) as [[e0 x0]|]; exact Ia.
        -- assert (F1 : find_op q ops = None).
           { apply find_op_none. intro I. apply in_map_iff in I. destruct I as (o & Eo & Io).
             assert (X : exists_at q root).
             { apply Ie. right. exists o. split; [exact Io|]. rewrite Eo. apply is_prefix_path_refl. }
             destruct X as (nd & X). congruence. }
           rewrite F1. exact R.
    + rewrite (add_path_other d _ _ _ _ _ A q P) in L. specialize (Ia q nd'' L). unfold spec_attr in Ia.
      assert (F2 : find_op q [(e, x)] = None).
      { rewrite find_op_one. destruct (path_eqb (e_path e) q) eqn:E; [|reflexivity].
        apply path_eqb_eq in E. subst q. rewrite is_prefix_path_refl in P. discriminate. }
      rewrite F2. destruct (find_op q ops) as [[e0 x0]|]; exact Ia.
Qed.

Lemma ops_okb_snoc ops o : ops_okb (ops ++ [o]) = true ->
  ops_okb ops = true /\ op_okb o = true /\ ~ In (op_path o) (map op_path ops).
Proof.
  unfold ops_okb. rewrite forallb_app, map_app. cbn [forallb map]. intro H.
  apply andb_prop in H. destruct H as [H1 H2]. apply andb_prop in H1. destruct H1 as [H1 H3].
  rewrite andb_true_r in H3. pose proof (nodup_paths_sound _ H2) as ND.
  apply NoDup_remove in ND. rewrite app_nil_r in ND. destruct ND as [ND NI].
  repeat split; [|exact H3|exact NI]. rewrite H1. cbn [andb].
  clear - H2. induction (map op_path ops) as [|p r IH]; [reflexivity|]. cbn [app nodup_paths] in *.
  apply andb_prop in H2. destruct H2 as [A B]. rewrite (IH B), andb_true_r.
  rewrite existsb_app in A. apply negb_true_iff in A. apply orb_false_iff in A. destruct A as [A _].
  rewrite A. reflexivity.
Qed.

Theorem run_adds_sem d : forall ops fs,
  ops_okb ops = true -> run_adds d (fs_init d) ops = Some fs -> sem_inv d ops (fs_root fs).
Proof.
  induction ops as [|[e x] ops IH] using rev_ind; intros fs Ok R.
  - cbn in R. injection R as <-. apply sem_inv_init.
  - rewrite run_adds_snoc in R. destruct (run_adds d (fs_init d) ops) as [fs'|] eqn:R'; [|discriminate].
    cbn [obind] in R. destruct (ops_okb_snoc _ _ Ok) as (Ok1 & Ok2 & Nd).
    apply (sem_inv_step d ops (fs_root fs') e x); [apply IH; auto|exact Ok2|exact Nd|].
    apply fs_add_add_path; [|exact R].
    unfold op_okb in Ok2. cbn [fst] in Ok2. destruct (e_path e); [discriminate|discriminate].
Qed.

(* ------------------------------------------------------------------ directory order *)
Lemma path_cmp_refl : forall p, path_cmp p p = Eq.
Proof. induction p as [|a p IH]; cbn; [reflexivity|]. rewrite str_cmp_refl. exact IH. Qed.

Lemma path_cmp_antisym : forall p q, path_cmp q p = CompOpp (path_cmp p q).
Proof.
  induction p as [|a p IH]; destruct q as [|b q]; cbn; try reflexivity.
  rewrite (str_cmp_antisym a b). destruct (str_cmp a b); cbn; [apply IH|reflexivity|reflexivity].
Qed.

Lemma path_lt_irrefl p : ~ path_lt p p.
Proof. unfold path_lt. rewrite path_cmp_refl. discriminate. Qed.

Lemma path_lt_asym p q : path_lt p q -> ~ path_lt q p.
Proof. unfold path_lt. intros H1 H2. rewrite path_cmp_antisym, H1 in H2. discriminate. Qed.

Lemma path_ltb_lt p q : path_ltb p q = true <-> path_lt p q.
Proof. unfold path_ltb, path_lt. destruct (path_cmp p q); split; intro H; try reflexivity; discriminate. Qed.

Section SortedUnique.
  Context {A : Type} (R : A -> A -> Prop).
  Hypothesis R_irrefl : forall x, ~ R x x.
  Hypothesis R_asym : forall x y, R x y -> ~ R y x.

  Lemma sorted_unique : forall l1 l2,
    StronglySorted R l1 -> StronglySorted R l2 -> (forall x, In x l1 <-> In x l2) -> l1 = l2.
  Proof.
    induction l1 as [|a r1 IH]; intros l2 S1 S2 E.
    - destruct l2 as [|b r2]; [reflexivity|]. exfalso. apply (E b). left. reflexivity.
    - destruct l2 as [|b r2]; [exfalso; apply (E a); left; reflexivity|].
      apply StronglySorted_inv in S1. destruct S1 as [S1 F1]. apply StronglySorted_inv in S2. destruct S2 as [S2 F2].
      rewrite Forall_forall in F1, F2.
      assert (Eab : a = b).
      { destruct (proj1 (E a) (or_introl eq_refl)) as [X|X]; [congruence|].
        destruct (proj2 (E b) (or_introl eq_refl)) as [Y|Y]; [exact Y|].
        exfalso. exact (R_asym _ _ (F1 _ Y) (F2 _ X)). }
      subst b. f_equal. apply IH; [exact S1|exact S2|].
      intro x. split; intro I.
      + destruct (proj1 (E x) (or_intror I)) as [X|X]; [|exact X]. subst x. exfalso. exact (R_irrefl _ (F1 _ I)).
      + destruct (proj2 (E x) (or_intror I)) as [X|X]; [|exact X]. subst x. exfalso. exact (R_irrefl _ (F2 _ I)).
  Qed.

  Lemma sorted_app : forall l1 l2, StronglySorted R l1 -> StronglySorted R l2 ->
    (forall x y, In x l1 -> In y l2 -> R x y) -> StronglySorted R (l1 ++ l2).
  Proof.
    induction l1 as [|a r IH]; intros l2 S1 S2 C; [exact S2|]. cbn [app].
    apply StronglySorted_inv in S1. destruct S1 as [S1 F1]. constructor.
    - apply IH; [exact S1|exact S2|]. intros x y Hx Hy. apply C; [right; exact Hx|exact Hy].
    - apply Forall_app. split; [exact F1|]. apply Forall_forall. intros y Hy. apply C; [left; reflexivity|exact Hy].
  Qed.
End SortedUnique.

(* the paths below a node, relative to it *)
Fixpoint rel_paths (n : tnode) : list path :=
  match n with
  | TNode _ _ ch =>
      [] :: (if is_dir n then concat (map (fun c => map (cons (node_name c)) (rel_paths c)) ch) else [])
  end.

Lemma all_paths_rel : forall n pp, all_paths pp n = map (app pp) (rel_paths n).
Proof.
  induction n as [nm a ch IH] using tnode_ind'. intro pp. cbn [all_paths rel_paths map]. rewrite app_nil_r. f_equal.
  destruct (is_dir (TNode nm a ch)); [|reflexivity].
  rewrite concat_map, map_map. f_equal. apply map_ext_in. intros c Hc. rewrite Forall_forall in IH.
  rewrite (IH c Hc), map_map. apply map_ext. intro r. rewrite <- app_assoc. reflexivity.
Qed.

Lemma all_paths_root n : all_paths [] n = rel_paths n.
Proof. rewrite all_paths_rel. apply map_id. Qed.

Lemma rel_paths_exists : forall n, snames n -> forall q, In q (rel_paths n) <-> exists_at q n.
Proof.
  induction n as [nm a ch IH] using tnode_ind'. intros Sn q. destruct (snames_inv _ _ _ Sn) as [Ss Sc].
  pose proof (sorted_names_nodup _ Ss) as ND. rewrite Forall_forall in IH, Sc.
  destruct q as [|c q].
  - split; [intros _; eexists; reflexivity|intros _; left; reflexivity].
  - cbn [rel_paths]. unfold exists_at. rewrite lookup_cons. fold (is_dir (TNode nm a ch)).
    change (ftype_eqb (a_type a) FDir) with (is_dir (TNode nm a ch)).
    split.
    + intros [X|I]; [discriminate|]. destruct (is_dir (TNode nm a ch)); [|destruct I]. cbn [negb].
      apply in_concat in I. destruct I as (blk & Hb & Hq). apply in_map_iff in Hb. destruct Hb as (x & <- & Hx).
      apply in_map_iff in Hq. destruct Hq as (q0 & Eq & Hq0). injection Eq as <- <-.
      rewrite (find_child_of_in ch x ND Hx). apply (IH x Hx (Sc x Hx)). exact Hq0.
    + intros (nd & L). destruct (is_dir (TNode nm a ch)); [|discriminate]. cbn [negb] in L. right.
      destruct (find_child c ch) as [x|] eqn:F; [|discriminate].
      pose proof (find_child_in _ _ _ F) as Hx. pose proof (find_child_name _ _ _ F) as Nx.
      apply in_concat. exists (map (cons (node_name x)) (rel_paths x)). split.
      * apply in_map_iff. exists x. auto.
      * rewrite Nx. apply in_map. apply (IH x Hx (Sc x Hx)). exists nd. exact L.
Qed.

Lemma rel_paths_sorted : forall n, snames n -> StronglySorted path_lt (rel_paths n).
Proof.
  induction n as [nm a ch IH] using tnode_ind'. intro Sn. destruct (snames_inv _ _ _ Sn) as [Ss Sc].
  cbn [rel_paths]. constructor.
  2:{ apply Forall_forall. intros y Hy. destruct (is_dir (TNode nm a ch)); [|destruct Hy].
      apply in_concat in Hy. destruct Hy as (blk & Hb & Hq). apply in_map_iff in Hb. destruct Hb as (x & <- & _).
      apply in_map_iff in Hq. destruct Hq as (q0 & <- & _). reflexivity. }
  destruct (is_dir (TNode nm a ch)); [|constructor].
  unfold names_sorted in Ss. clear Sn. induction ch as [|c r IHr]; [constructor|].
  cbn [map concat]. inversion IH as [|? ? Hc Hr]; subst. inversion Sc as [|? ? Sc1 Sc2]; subst.
  cbn [map] in Ss. apply StronglySorted_inv in Ss. destruct Ss as [Ss Fs].
  apply sorted_app.
  - specialize (Hc Sc1). clear - Hc. induction Hc as [|p l Sl IHl Fl]; cbn [map]; constructor; [exact IHl|].
    apply Forall_forall. intros y Hy. apply in_map_iff in Hy. destruct Hy as (q & <- & Hq).
    rewrite Forall_forall in Fl. unfold path_lt. cbn [path_cmp]. rewrite str_cmp_refl. apply Fl. exact Hq.
  - apply IHr; assumption.
  - intros x y Hx Hy. apply in_map_iff in Hx. destruct Hx as (q & <- & _).
    apply in_concat in Hy. destruct Hy as (blk & Hb & Hq). apply in_map_iff in Hb. destruct Hb as (c' & <- & Hc').
    apply in_map_iff in Hq. destruct Hq as (q' & <- & _).
    rewrite Forall_forall in Fs. assert (L : str_lt (node_name c) (node_name c')) by (apply Fs; apply in_map; exact Hc').
    unfold path_lt. cbn [path_cmp]. unfold str_lt in L. rewrite L. reflexivity.
Qed.

(* ------------------------------------------------------------------ hard links *)
Lemma sim_hardlink nd b : attr_sim (node_attr nd) b ->
  is_hardlink nd = ftype_eqb (a_type b) FLnk && a_hard b.
Proof.
  intros (T & _ & _ & _ & _ & L & _). unfold is_hardlink. rewrite T.
  destruct (ftype_eqb (a_type b) FLnk) eqn:E; [|reflexivity]. apply ftype_eqb_eq in E.
  destruct (L ltac:(congruence)) as (H & _). rewrite H. reflexivity.
Qed.

Lemma resolves_spec d ops root : sem_inv d ops root ->
  forall p id, resolves root p id ->
  forall fuel, spec_resolve fuel ops p <> None -> spec_resolve fuel ops p = Some id.
Proof.
  intros [Ie Ia] p id Rs. induction Rs as [p nd L Hh|p nd t L Hh Rs IH]; intros fuel Hn.
  - destruct fuel as [|f]; [contradiction|]. cbn [spec_resolve] in *.
    pose proof (Ia p nd L) as S. unfold spec_attr in S.
    destruct (find_op p ops) as [[e x]|]; [|reflexivity].
    rewrite (sim_hardlink nd _ S) in Hh. unfold op_attr in Hh. cbn [a_type a_hard] in Hh.
    destruct (e_hard e); [discriminate|reflexivity].
  - destruct fuel as [|f]; [contradiction|]. cbn [spec_resolve] in *.
    pose proof (Ia p nd L) as S. unfold spec_attr in S.
    destruct (find_op p ops) as [[e x]|].
    + pose proof (sim_hardlink nd _ S) as Hh'. rewrite Hh in Hh'. unfold op_attr in Hh'. cbn [a_type a_hard] in Hh'.
      destruct (e_hard e) eqn:Eh; [|rewrite andb_false_r in Hh'; discriminate].
      destruct S as (T & _ & _ & _ & _ & Lk & _).
      assert (Tl : a_type (node_attr nd) = FLnk).
      { unfold is_hardlink in Hh. apply andb_prop in Hh. destruct Hh as [Hh _]. apply ftype_eqb_eq. exact Hh. }
      destruct (Lk Tl) as (_ & _ & Ht). unfold op_attr in Ht. cbn [a_hardtgt] in Ht. rewrite Eh in Ht.
      destruct x as [s|]; [|contradiction]. destruct (canon_comps s) as [tp|]; [|contradiction].
      rewrite Ht in IH. apply IH. exact Hn.
    + rewrite (sim_hardlink nd _ S) in Hh. discriminate.
Qed.

Lemma pview_sim fb xa id n1 a c1 n2 b c2 : attr_sim a b ->
  pview_of_node fb xa id (TNode n1 a c1) = pview_of_node fb xa id (TNode n2 b c2).
Proof.
  intros (T & P & U & G & M & L & D). unfold pview_of_node. cbn [node_attr]. rewrite <- T, <- P, <- U, <- G, <- M.
  f_equal. destruct (a_type a) eqn:Ty; try reflexivity.
  - destruct (L eq_refl) as (_ & H & _). rewrite H. reflexivity.
  - rewrite (D (or_introl eq_refl)). reflexivity.
  - rewrite (D (or_intror eq_refl)). reflexivity.
Qed.

Definition links_resolveb (ops : list op) : bool :=
  forallb (fun o => match spec_resolve (S (length ops)) ops (op_path o) with Some _ => true | None => false end) ops.

(* ------------------------------------------------------------------ the view of the adds *)
Definition fst3 {A B C : Type} (x : A * B * C) : A := fst (fst x).

Theorem adds_denote_l d ops fs fb xa fl :
  ops_okb ops = true -> links_resolveb ops = true ->
  run_adds d (fs_init d) ops = Some fs -> denotes fb xa (fs_root fs) fl ->
  StronglySorted path_lt (map fst3 fl) /\
  (forall p, In p (map fst3 fl) <-> p = [] \/ in_closure p ops) /\
  Forall (fun x => let '(p, v, id) := x in
                   spec_resolve (S (length ops)) ops p = Some id /\ v = spec_pview fb xa d ops id) fl.
Proof.
  intros Ok Lr Run [Dp Df].
  pose proof (run_adds_sem d ops fs Ok Run) as Inv.
  assert (Sn : snames (fs_root fs)).
  { apply swf_snames. eapply run_adds_swf; [|exact Run]. apply init_swf. }
  change (map (fun x : path * pview * path => fst (fst x)) fl) with (map fst3 fl) in Dp.
  rewrite Dp, all_paths_root.
  split; [apply rel_paths_sorted; exact Sn|]. split.
  - intro p. rewrite (rel_paths_exists _ Sn p). apply (si_exists _ _ _ Inv).
  - assert (Mem : forall x, In x fl -> In (fst3 x) (rel_paths (fs_root fs))).
    { intros x Hx. rewrite <- all_paths_root, <- Dp. apply in_map. exact Hx. }
    apply Forall_forall. intros [[p v] id] Hx. rewrite Forall_forall in Df. destruct (Df _ Hx) as (Rs & nd & L & ->).
    split.
    + apply (resolves_spec d ops _ Inv p id Rs). cbn [spec_resolve].
      destruct (find_op p ops) as [[e x]|] eqn:F; [|discriminate].
      destruct (find_op_some _ _ _ F) as (Io & Ep). unfold links_resolveb in Lr. rewrite forallb_forall in Lr.
      specialize (Lr _ Io). rewrite Ep in Lr. cbn [spec_resolve] in Lr. rewrite F in Lr.
      destruct (e_hard e); [|discriminate].
      destruct x as [s|]; [|discriminate]. destruct (canon_comps s); [|discriminate].
      intro Hn. rewrite Hn in Lr. discriminate.
    + unfold spec_pview. destruct nd as [nm a ch]. apply pview_sim. apply (si_attr _ _ _ Inv id _ L).
Qed.
