(* ImgTar — end to end: archive entries -> process_tarball -> lib/fstree -> sqfs_serialize_fstree -> reader ->
   sqfs2tar's iterators -> write_tar_header.  Composition of Semantics / Reimage with ImgPost.pack_paths_roundtrip and
   with C04's archive theorems. *)
From Coq Require Import List NArith ZArith Bool Lia Sorted.
From SqfsV Require C03.Common.
From SqfsV Require C04.TarNum C04.TarHdr C04.TarHdrProofs C04.TarStream C04.TarArchiveProofs.
From SqfsV Require Import C01.GenC01 C01.Res C01.InodeModel Img.TreeModel.
From SqfsV Require Import C11.StrOrder C11.FstreeModel C11.PostModel.
From SqfsV Require Import ImgPost.Bridge ImgPost.InputOk ImgPost.PathsModel ImgPost.PathsProofs ImgPost.RoundTrip.
From SqfsV Require Import ImgTar.Model ImgTar.AddLookup ImgTar.Semantics ImgTar.Reimage.
Import ListNotations.
Local Open Scope N_scope.

(* ------------------------------------------------------------------ process_tarball without a root entry = the adds *)
Lemma pt_exec_adds kt d : forall ops fs, forallb no_root_op ops = true ->
  pt_exec kt d fs ops = run_adds d fs (adds_of ops).
Proof.
  induction ops as [|o r IH]; intros fs H; [reflexivity|]. cbn [forallb] in H. apply andb_prop in H. destruct H as [H1 H2].
  destruct o as [| |e|e x]; try discriminate; cbn [pt_exec adds_of flat_map app run_adds].
  - apply IH. exact H2.
  - destruct (fs_add d fs e x); [apply IH; exact H2|reflexivity].
Qed.

Lemma tar2sqfs_tree_adds o d vs : forallb no_root_op (pt_ops o d vs) = true ->
  tar2sqfs_tree o d vs = run_adds d (fs_init d) (adds_of_entries o d vs).
Proof. intro H. apply pt_exec_adds. exact H. Qed.

(* ------------------------------------------------------------------ payload: xattrs and contents stay assumed *)
(* the entry sqfs2tar's write_entry sees: metadata and link target from the iterator stack ([mentry]), xattr list and
   file contents from the xattr reader / data reader — taken from [r] *)
Definition attach (m : mentry) (r : TarStream.tentry) : TarStream.tentry :=
  TarStream.mkte (fst m) (snd m) (TarStream.te_xattr r) (TarStream.te_data r).

Fixpoint attach_all (out : list mentry) (rs : list TarStream.tentry) : list TarStream.tentry :=
  match out, rs with
  | m :: out', r :: rs' => attach m r :: attach_all out' rs'
  | _, _ => []
  end.

Lemma write_entries_attach : forall out rs c, Forall2 meq out rs ->
  TarStream.write_entries (attach_all out rs) c = TarStream.write_entries rs c.
Proof.
  induction out as [|m out IH]; intros rs c F; inversion F as [|? r ? rs' M F']; subst; [reflexivity|].
  cbn [attach_all]. rewrite !TarArchiveProofs.write_entries_eq.
  destruct M as (Mn & Mh & Mm & Mu & Mg & Mt & Ms & Md & Mtg).
  assert (Eh : TarStream.write_entry_hdr (attach m r) c = TarStream.write_entry_hdr r c).
  { unfold TarStream.write_entry_hdr, attach. cbn [TarStream.te_e TarStream.te_target TarStream.te_xattr].
    apply TarArchiveProofs.write_tar_header_irrel; auto. }
  assert (Eb : TarArchiveProofs.body (attach m r) = TarArchiveProofs.body r).
  { unfold TarArchiveProofs.body, attach. cbn [TarStream.te_e TarStream.te_data]. rewrite Mm, Mh.
    destruct (TarStream.is_reg (TarHdr.e_mode (TarStream.te_e r))) eqn:R; [|reflexivity].
    rewrite Ms by (rewrite Mm; exact R). reflexivity. }
  rewrite Eh, Eb, (IH rs' (c + 1) F'). reflexivity.
Qed.

Section RT.
  Variable compress : list N -> Common.cres.
  Variable uncompress : list N -> option (list N).
  Hypothesis compress_ok :
    forall b c, compress b = Common.CData c -> Common.lenN c <= Common.lenN b /\ uncompress c = Some b.
  Variable limit : N.
  Hypothesis limit_ok : limit <= 65536.

  (* what the reader sees of the image of ANY archive tar2sqfs accepts (any entry order, directories created
     implicitly and filled in later, hard links before or after their targets and through other hard links) *)
  Theorem image_view_of_adds_l : forall bs d ops fs pp fb xa img,
    ops_okb ops = true -> links_resolveb ops = true ->
    input_okb bs d ops = true ->
    run_adds d (fs_init d) ops = Some fs ->
    post_process fs = POk pp ->
    attached_okb bs fb xa pp = true ->
    serialize_fstree compress limit (to_img fb xa pp) = Ok img ->
    trace_fits img = true ->
    exists lt fl,
      read_tree uncompress bs (si_itbl img) (si_dtbl img) (si_ids img) (length (pp_inodes pp)) (si_root img) = Some lt /\
      flat_lt [] lt = map (number (pp_inodes pp)) fl /\
      StronglySorted path_lt (map fst3 fl) /\
      (forall p, In p (map fst3 fl) <-> p = [] \/ in_closure p ops) /\
      Forall (fun x => let '(p, v, id) := x in
                       spec_resolve (S (length ops)) ops p = Some id /\ v = spec_pview fb xa d ops id) fl /\
      (forall x y, In x fl -> In y fl ->
                   ino_of (pp_inodes pp) (snd x) = ino_of (pp_inodes pp) (snd y) -> snd x = snd y).
  Proof.
    intros bs d ops fs pp fb xa img Ok Lr Hin Hrun Hpost Hatt Hser Hfit.
    destruct (pack_paths_roundtrip_l compress uncompress compress_ok limit limit_ok bs d ops fs pp fb xa img
                Hin Hrun Hpost Hatt Hser Hfit) as (lt & fl & Rd & Den & Fl & Inj).
    destruct (adds_denote_l d ops fs fb xa fl Ok Lr Hrun Den) as (S1 & S2 & S3).
    exists lt, fl. repeat split; try assumption; apply S2.
  Qed.

  (* for an archive in the shape sqfs2tar emits: the entries sqfs2tar's iterator stack delivers for the image tar2sqfs
     builds are C04's [reimage_all] of the archive *)
  Theorem reimage_is_theorem_l : forall bs d vs fs pp fb xa img tbl,
    tree_shapeb vs = true -> files_attached fb vs ->
    input_okb bs d (adds_of_entries opts0 d vs) = true ->
    tar2sqfs_tree opts0 d vs = Some fs ->
    post_process fs = POk pp ->
    attached_okb bs fb xa pp = true ->
    serialize_fstree compress limit (to_img fb xa pp) = Ok img ->
    trace_fits img = true ->
    exists lt out,
      read_tree uncompress bs (si_itbl img) (si_dtbl img) (si_ids img) (length (pp_inodes pp)) (si_root img) = Some lt /\
      sqfs2tar_entries false (flat_lt [] lt) = Some out /\
      Forall2 meq out (TarStream.reimage_all tbl vs).
  Proof.
    intros bs d vs fs pp fb xa img tbl Ts Fa Hin Ht Hpost Hatt Hser Hfit.
    assert (Hrun : run_adds d (fs_init d) (adds_of_entries opts0 d vs) = Some fs).
    { rewrite <- Ht. symmetry. apply tar2sqfs_tree_adds.
      unfold tree_shapeb in Ts. apply andb_prop in Ts. destruct Ts as [Sh _].
      unfold pt_ops. rewrite forallb_forall. intros o Ho. apply in_map_iff in Ho. destruct Ho as (t & <- & Hin').
      pose proof (shape_facts vs vs [] Sh (fun u (H : In u []) => match H with end) (fun u H => H) t Hin') as F.
      rewrite (pt_op_shape d t (ef_name _ _ F)). reflexivity. }
    destruct (pack_paths_roundtrip_l compress uncompress compress_ok limit limit_ok bs d _ fs pp fb xa img
                Hin Hrun Hpost Hatt Hser Hfit) as (lt & fl & Rd & Den & Fl & Inj).
    destruct (reimage_meta_l d vs fs fb xa fl (pp_inodes pp) tbl Ts Hrun Den Fa Inj) as (out & Eo & Fo).
    exists lt, out. rewrite Fl. auto.
  Qed.

  (* conv_fixpoint with the tree building, the serializer and the walk in place of the assumed [reimage]: the archive
     sqfs2tar writes from the image tar2sqfs builds from sqfs2tar's archive of [es] is that archive, byte for byte.
     Metadata, names, order, link structure: computed by the composed models.  Xattr lists and file contents of the
     new image: taken from [reimage_all] (xattr writer order, data as read) — still assumed. *)
  Theorem conv_fixpoint_composed_l : forall bs d es fs pp fb xa img,
    Forall TarArchiveProofs.entry_ok es -> Forall TarArchiveProofs.img_shape es -> TarArchiveProofs.settled [] es ->
    let vs := TarArchiveProofs.views es in
    tree_shapeb vs = true -> files_attached fb vs ->
    input_okb bs d (adds_of_entries opts0 d vs) = true ->
    tar2sqfs_tree opts0 d vs = Some fs ->
    post_process fs = POk pp ->
    attached_okb bs fb xa pp = true ->
    serialize_fstree compress limit (to_img fb xa pp) = Ok img ->
    trace_fits img = true ->
    TarStream.read_archive (TarStream.write_archive es) = TarStream.RA_Ok vs /\
    exists lt out,
      read_tree uncompress bs (si_itbl img) (si_dtbl img) (si_ids img) (length (pp_inodes pp)) (si_root img) = Some lt /\
      sqfs2tar_entries false (flat_lt [] lt) = Some out /\
      TarStream.write_archive (attach_all out (TarStream.reimage_all [] vs)) = TarStream.write_archive es.
  Proof.
    intros bs d es fs pp fb xa img Hok Hsh Hst vs Ts Fa Hin Ht Hpost Hatt Hser Hfit.
    split; [apply TarArchiveProofs.archive_rt_l; exact Hok|].
    destruct (reimage_is_theorem_l bs d vs fs pp fb xa img [] Ts Fa Hin Ht Hpost Hatt Hser Hfit) as (lt & out & Rd & Eo & Fo).
    exists lt, out. split; [exact Rd|]. split; [exact Eo|].
    unfold TarStream.write_archive. rewrite (write_entries_attach out _ 0 Fo). f_equal.
    unfold vs. rewrite TarArchiveProofs.views_all_supported.
    - apply TarArchiveProofs.write_entries_reimage; assumption.
    - eapply Forall_impl; [|exact Hsh]. intros t S. apply (TarArchiveProofs.is_supported t S).
  Qed.

  (* ... and from ANY image listing after one round (conv_second_round): the first round's result has the per-entry
     shape and the settled xattr order; if it is in directory order with hard links behind their first name (what
     sqfs2tar's walk produces) the second round reproduces it *)
  Theorem conv_second_round_composed_l : forall bs d es fs pp fb xa img,
    Forall TarArchiveProofs.entry_ok es -> Forall TarArchiveProofs.short_name es ->
    let es1 := TarStream.reimage_all [] (TarArchiveProofs.views es) in
    let vs := TarArchiveProofs.views es1 in
    tree_shapeb vs = true -> files_attached fb vs ->
    input_okb bs d (adds_of_entries opts0 d vs) = true ->
    tar2sqfs_tree opts0 d vs = Some fs ->
    post_process fs = POk pp ->
    attached_okb bs fb xa pp = true ->
    serialize_fstree compress limit (to_img fb xa pp) = Ok img ->
    trace_fits img = true ->
    TarStream.convert es = TarStream.RA_Ok es1 /\
    TarStream.read_archive (TarStream.write_archive es1) = TarStream.RA_Ok vs /\
    exists lt out,
      read_tree uncompress bs (si_itbl img) (si_dtbl img) (si_ids img) (length (pp_inodes pp)) (si_root img) = Some lt /\
      sqfs2tar_entries false (flat_lt [] lt) = Some out /\
      TarStream.write_archive (attach_all out (TarStream.reimage_all [] vs)) = TarStream.write_archive es1.
  Proof.
    intros bs d es fs pp fb xa img Hok Hshort es1 vs Ts Fa Hin Ht Hpost Hatt Hser Hfit.
    split.
    { unfold TarStream.convert. rewrite (TarArchiveProofs.archive_rt_l es Hok). reflexivity. }
    destruct (TarArchiveProofs.round_one es [] Hok Hshort) as (Hok1 & Hsh1 & Hst1).
    exact (conv_fixpoint_composed_l bs d es1 fs pp fb xa img Hok1 Hsh1 Hst1 Ts Fa Hin Ht Hpost Hatt Hser Hfit).
  Qed.
End RT.
