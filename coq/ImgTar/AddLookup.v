(* ImgTar — what fstree_add_generic does to the nodes one can look up: the node of the add is created (mknode) or
   filled (an implicitly created directory), every proper prefix of its path is a directory that existed or is
   created with the default attributes, everything else is untouched. *)
From Coq Require Import List NArith ZArith Bool Lia.
From SqfsV Require Import C11.StrOrder C11.FstreeModel C11.PostModel C11.TreeProofs.
From SqfsV Require Import ImgPost.Bridge ImgPost.TreeInv ImgPost.ResolveInv ImgPost.BridgeProofs.
From SqfsV Require Import ImgTar.Model.
Import ListNotations.

Lemma path_eqb_eq : forall p q, path_eqb p q = true <-> p = q.
Proof.
  induction p as [|a p IH]; destruct q as [|b q]; cbn; split; intro H; try reflexivity; try discriminate.
  - apply andb_prop in H. destruct H as [H1 H2]. apply str_eqb_eq in H1. apply IH in H2. congruence.
  - injection H as -> ->. rewrite str_eqb_refl. apply IH. reflexivity.
Qed.

Lemma path_eqb_refl p : path_eqb p p = true.
Proof. apply path_eqb_eq. reflexivity. Qed.

Lemma path_eqb_neq p q : path_eqb p q = false <-> p <> q.
Proof.
  split.
  - intros H E. subst. rewrite path_eqb_refl in H. discriminate.
  - intro H. destruct (path_eqb p q) eqn:E; [|reflexivity]. apply path_eqb_eq in E. contradiction.
Qed.

Lemma is_prefix_path_refl p : is_prefix_path p p = true.
Proof. induction p as [|a p IH]; cbn; [reflexivity|]. rewrite str_eqb_refl. exact IH. Qed.

Lemma is_prefix_path_nil_r q : is_prefix_path q [] = true -> q = [].
Proof. destruct q; [reflexivity|discriminate]. Qed.

Lemma is_prefix_path_cons a q b p :
  is_prefix_path (a :: q) (b :: p) = true <-> a = b /\ is_prefix_path q p = true.
Proof.
  cbn. split.
  - intro H. apply andb_prop in H. destruct H as [H1 H2]. apply str_eqb_eq in H1. auto.
  - intros [-> H]. rewrite str_eqb_refl. exact H.
Qed.

(* a look-up below the node itself only reads "is a directory" and the child list *)
Lemma lookup_nonempty_ext c q n1 n2 :
  is_dir n1 = is_dir n2 -> node_children n1 = node_children n2 ->
  lookup_path (c :: q) n1 = lookup_path (c :: q) n2.
Proof. intros D C. cbn [lookup_path]. rewrite D, C. reflexivity. Qed.

Lemma lookup_leaf c q n : node_children n = [] -> lookup_path (c :: q) n = None.
Proof. intro C. cbn [lookup_path]. rewrite C. destruct (negb (is_dir n)); reflexivity. Qed.

Lemma fill_dir_shape c e c' : fill_dir c e = Some c' ->
  is_dir c' = true /\ is_dir c = true /\ node_children c' = node_children c /\ node_name c' = node_name c.
Proof.
  destruct c as [nm a ch]. unfold fill_dir.
  destruct (ftype_eqb (a_type a) FDir && ftype_eqb (e_type e) FDir && a_implicit a) eqn:E; [|discriminate].
  intro H. injection H as <-. apply andb_prop in E. destruct E as [E _]. apply andb_prop in E. destruct E as [E _].
  repeat split. unfold is_dir. cbn. exact E.
Qed.

Lemma mknode_shape nm e x n : mknode nm e x = Some n -> node_children n = [] /\ node_name n = nm.
Proof.
  unfold mknode.
  destruct (if e_hard e then match x with Some x0 => canon_comps x0 | None => None end else Some []); [|discriminate].
  intro H. injection H as <-. split; reflexivity.
Qed.

Definition links_only (a' a : tattr) : Prop := a' = a \/ a' = inc_links a.

Lemma implicit_dir_attr d c : node_attr (implicit_dir d c) = implicit_attr d.
Proof. reflexivity. Qed.

(* ------------------------------------------------------------------ paths that are not a prefix of the added one *)
Lemma add_path_other d : forall comps e x n n', add_path d comps e x n = Some n' ->
  forall q, is_prefix_path q comps = false -> lookup_path q n' = lookup_path q n.
Proof.
  induction comps as [|c rest IH]; intros e x n n' H q Hq.
  - destruct n; cbn in H. destruct (negb _); discriminate.
  - destruct q as [|c' q']; [discriminate|].
    pose proof (add_path_is_dir d _ e x n n' H) as Dn'.
    destruct n as [nm a ch]. cbn [add_path] in H.
    destruct (negb (ftype_eqb (a_type a) FDir)) eqn:D; [discriminate|].
    assert (Dn : is_dir (TNode nm a ch) = true) by (unfold is_dir; cbn; apply negb_false_iff; exact D).
    destruct (str_eqb c' c) eqn:Ec.
    + apply str_eqb_eq in Ec. subst c'.
      assert (Hq' : is_prefix_path q' rest = false).
      { cbn in Hq. rewrite str_eqb_refl in Hq. exact Hq. }
      destruct rest as [|c2 rest2].
      * (* the added node itself; q' is not empty *)
        destruct q' as [|c3 q3]; [discriminate|].
        destruct (find_child c ch) as [x0|] eqn:F.
        -- destruct (fill_dir x0 e) as [x'|] eqn:Fi; [|discriminate]. injection H as <-.
           destruct (fill_dir_shape _ _ _ Fi) as (D1 & D0 & C1 & N1).
           pose proof (find_child_name _ _ _ F) as N0.
           rewrite !lookup_cons, D. cbn [negb].
           rewrite (find_child_replace_same c x' ch x0 F) by congruence. rewrite F.
           apply lookup_nonempty_ext; congruence.
        -- destruct (mknode c e x) as [xn|] eqn:M; [|discriminate]. injection H as <-.
           destruct (mknode_shape _ _ _ _ M) as (C1 & N1).
           rewrite !lookup_cons. cbn [inc_links a_type]. rewrite D. cbn [negb].
           rewrite (find_child_insert_same c xn ch N1 F), F. apply lookup_leaf. exact C1.
      * destruct (find_child c ch) as [x0|] eqn:F.
        -- destruct (add_path d (c2 :: rest2) e x x0) as [x'|] eqn:A; [|discriminate]. injection H as <-.
           pose proof (find_child_name _ _ _ F) as N0.
           assert (N1 : node_name x' = c).
           { destruct x0 as [n0 a0 ch0]. cbn [add_path] in A. destruct (negb _); [discriminate|].
             cbn in N0. subst n0.
             destruct rest2; destruct (find_child c2 ch0);
               repeat match type of A with
                      | match ?X with _ => _ end = _ => destruct X; try discriminate
                      end; injection A as <-; reflexivity. }
           rewrite !lookup_cons, D. cbn [negb].
           rewrite (find_child_replace_same c x' ch x0 F N1), F.
           apply (IH e x x0 x' A). exact Hq'.
        -- destruct (add_path d (c2 :: rest2) e x (implicit_dir d c)) as [x'|] eqn:A; [|discriminate]. injection H as <-.
           assert (N1 : node_name x' = c).
           { unfold implicit_dir in A. cbn [add_path] in A. cbn [a_type ftype_eqb negb] in A.
             destruct rest2; cbn [find_child] in A;
               repeat match type of A with
                      | match ?X with _ => _ end = _ => destruct X; try discriminate
                      end; injection A as <-; reflexivity. }
           rewrite !lookup_cons. cbn [inc_links a_type]. rewrite D. cbn [negb].
           rewrite (find_child_insert_same c x' ch N1 F), F.
           rewrite (IH e x _ x' A q' Hq').
           destruct q' as [|c3 q3]; [discriminate|]. apply lookup_leaf. reflexivity.
    + (* another child of this directory *)
      assert (Ne : c' <> c) by (apply str_eqb_neq; exact Ec).
      assert (Fe : forall ch' a', n' = TNode nm a' ch' -> a_type a' = a_type a ->
                    find_child c' ch' = find_child c' ch -> lookup_path (c' :: q') n' = lookup_path (c' :: q') (TNode nm a ch)).
      { intros ch' a' -> Ea Ef. rewrite !lookup_cons, Ea, Ef. reflexivity. }
      destruct rest as [|c2 rest2]; destruct (find_child c ch) as [x0|] eqn:F.
      * destruct (fill_dir x0 e) as [x'|] eqn:Fi; [|discriminate]. injection H as <-.
        destruct (fill_dir_shape _ _ _ Fi) as (_ & _ & _ & N1). pose proof (find_child_name _ _ _ F) as N0.
        eapply Fe; [reflexivity|reflexivity|]. apply find_child_replace_other; congruence.
      * destruct (mknode c e x) as [xn|] eqn:M; [|discriminate]. injection H as <-.
        destruct (mknode_shape _ _ _ _ M) as (_ & N1).
        eapply Fe; [reflexivity|reflexivity|]. apply find_child_insert_other. congruence.
      * destruct (add_path d (c2 :: rest2) e x x0) as [x'|] eqn:A; [|discriminate]. injection H as <-.
        pose proof (find_child_name _ _ _ F) as N0.
        assert (N1 : node_name x' = c).
        { destruct x0 as [n0 a0 ch0]. cbn [add_path] in A. destruct (negb _); [discriminate|].
          cbn in N0. subst n0.
          destruct rest2; destruct (find_child c2 ch0);
            repeat match type of A with
                   | match ?X with _ => _ end = _ => destruct X; try discriminate
                   end; injection A as <-; reflexivity. }
        eapply Fe; [reflexivity|reflexivity|]. apply find_child_replace_other; congruence.
      * destruct (add_path d (c2 :: rest2) e x (implicit_dir d c)) as [x'|] eqn:A; [|discriminate]. injection H as <-.
        assert (N1 : node_name x' = c).
        { unfold implicit_dir in A. cbn [add_path] in A. cbn [a_type ftype_eqb negb] in A.
          destruct rest2; cbn [find_child] in A;
            repeat match type of A with
                   | match ?X with _ => _ end = _ => destruct X; try discriminate
                   end; injection A as <-; reflexivity. }
        eapply Fe; [reflexivity|reflexivity|]. apply find_child_insert_other. congruence.
Qed.

Lemma add_path_name d comps e x n n' : add_path d comps e x n = Some n' -> node_name n' = node_name n.
Proof.
  destruct comps as [|c rest]; destruct n as [nm a ch]; cbn [add_path]; intro A.
  - destruct (negb _); discriminate.
  - destruct (negb _); [discriminate|].
    destruct rest; destruct (find_child c ch);
      repeat match type of A with
             | match ?X with _ => _ end = _ => destruct X; try discriminate
             end; injection A as <-; reflexivity.
Qed.

(* ------------------------------------------------------------------ the added path and its prefixes *)
Lemma add_path_prefix d : forall comps e x n n', add_path d comps e x n = Some n' ->
  forall q, is_prefix_path q comps = true ->
  exists nd', lookup_path q n' = Some nd' /\
    if path_eqb q comps
    then match lookup_path q n with
         | Some nd => fill_dir nd e = Some nd'
         | None => exists nm, mknode nm e x = Some nd'
         end
    else is_dir nd' = true /\
         links_only (node_attr nd') (match lookup_path q n with Some nd => node_attr nd | None => implicit_attr d end).
Proof.
  induction comps as [|c rest IH]; intros e x n n' H q Hq.
  - destruct n; cbn in H. destruct (negb _); discriminate.
  - pose proof (add_path_is_dir d _ e x n n' H) as Dn'.
    destruct q as [|c' q'].
    + (* the directory itself: a proper prefix *)
      exists n'. split; [reflexivity|]. cbn [path_eqb lookup_path]. split; [exact Dn'|].
      destruct n as [nm a ch]. cbn [add_path] in H. destruct (negb _); [discriminate|].
      destruct rest; destruct (find_child c ch);
        repeat match type of H with
               | match ?X with _ => _ end = _ => destruct X; try discriminate
               end; injection H as <-; cbn [node_attr]; unfold links_only; auto.
    + apply is_prefix_path_cons in Hq. destruct Hq as [-> Hq'].
      destruct n as [nm a ch]. cbn [add_path] in H.
      destruct (negb (ftype_eqb (a_type a) FDir)) eqn:D; [discriminate|].
      cbn [path_eqb]. rewrite str_eqb_refl. cbn [andb].
      destruct rest as [|c2 rest2].
      * apply is_prefix_path_nil_r in Hq'. subst q'. cbn [path_eqb].
        destruct (find_child c ch) as [x0|] eqn:F.
        -- destruct (fill_dir x0 e) as [x'|] eqn:Fi; [|discriminate]. injection H as <-.
           destruct (fill_dir_shape _ _ _ Fi) as (_ & _ & _ & N1). pose proof (find_child_name _ _ _ F) as N0.
           exists x'. rewrite !lookup_cons, D. cbn [negb].
           rewrite (find_child_replace_same c x' ch x0 F) by congruence. rewrite F. cbn [lookup_path].
           split; [reflexivity|exact Fi].
        -- destruct (mknode c e x) as [xn|] eqn:M; [|discriminate]. injection H as <-.
           destruct (mknode_shape _ _ _ _ M) as (_ & N1).
           exists xn. rewrite !lookup_cons. cbn [inc_links a_type]. rewrite D. cbn [negb].
           rewrite (find_child_insert_same c xn ch N1 F), F. cbn [lookup_path].
           split; [reflexivity|]. exists c. exact M.
      * destruct (find_child c ch) as [x0|] eqn:F.
        -- destruct (add_path d (c2 :: rest2) e x x0) as [x'|] eqn:A; [|discriminate]. injection H as <-.
           pose proof (find_child_name _ _ _ F) as N0. pose proof (add_path_name _ _ _ _ _ _ A) as N1.
           destruct (IH e x x0 x' A q' Hq') as (nd' & L & R).
           exists nd'. rewrite !lookup_cons, D. cbn [negb].
           rewrite (find_child_replace_same c x' ch x0 F) by congruence. rewrite F. split; [exact L|exact R].
        -- destruct (add_path d (c2 :: rest2) e x (implicit_dir d c)) as [x'|] eqn:A; [|discriminate]. injection H as <-.
           pose proof (add_path_name _ _ _ _ _ _ A) as N1. cbn [implicit_dir node_name] in N1.
           destruct (IH e x _ x' A q' Hq') as (nd' & L & R).
           exists nd'. rewrite !lookup_cons. cbn [inc_links a_type]. rewrite D. cbn [negb].
           rewrite (find_child_insert_same c x' ch N1 F), F. split; [exact L|].
           destruct q' as [|c3 q3].
           ++ cbn [path_eqb lookup_path] in R |- *. exact R.
           ++ rewrite (lookup_leaf c3 q3 (implicit_dir d c) eq_refl) in R. exact R.
Qed.

(* ------------------------------------------------------------------ fs_add with a path below the root *)
Lemma fs_add_add_path d fs e x fs' : e_path e <> [] -> fs_add d fs e x = Some fs' ->
  add_path d (e_path e) e x (fs_root fs) = Some (fs_root fs').
Proof.
  intros Hp H. unfold fs_add in H.
  destruct (add_generic d (fs_root fs) e x) as [r|] eqn:A; [|discriminate]. injection H as <-. cbn [fs_root].
  unfold add_generic in A.
  destruct (ftype_eqb (e_type e) FLnk && match x with None => true | Some _ => false end); [discriminate|].
  destruct (e_path e); [contradiction|exact A].
Qed.

Definition exists_at (q : path) (n : tnode) : Prop := exists nd, lookup_path q n = Some nd.

Lemma add_path_exists d comps e x n n' : add_path d comps e x n = Some n' ->
  forall q, exists_at q n' <-> exists_at q n \/ is_prefix_path q comps = true.
Proof.
  intros H q. destruct (is_prefix_path q comps) eqn:P.
  - split; [auto|]. intros _. destruct (add_path_prefix d _ _ _ _ _ H q P) as (nd' & L & _). exists nd'. exact L.
  - unfold exists_at. rewrite (add_path_other d _ _ _ _ _ H q P). split; [auto|]. intros [E|E]; [exact E|discriminate].
Qed.
