(* ImgTar — the executable composition the tie runs (Model.tar_roundtrip_entries: the view computed on the
   post-processed tree by [tree_view]) is an instance of the theorems: [tree_view] is the numbering of a list that
   [denotes] the tree the adds built, and the numbering tells the denoted nodes apart.  No bound on the input, no
   condition on the file inodes (unlike the route through the serializer, which needs both). *)
From Coq Require Import List NArith ZArith Bool Lia Sorted.
From SqfsV Require C04.TarNum C04.TarHdr C04.TarStream.
From SqfsV Require Import C01.GenC01 C01.InodeModel Img.TreeModel.
From SqfsV Require Import C11.StrOrder C11.FstreeModel C11.PostModel C11.TreeProofs C11.PostProofs.
From SqfsV Require Import ImgPost.Bridge ImgPost.TreeInv ImgPost.StructInv ImgPost.ResolveInv ImgPost.ListPos ImgPost.AllocInv ImgPost.ReorderInv
  ImgPost.BridgeProofs ImgPost.PathsModel ImgPost.PathsProofs ImgPost.RoundTrip.
From SqfsV Require Import ImgTar.Model ImgTar.AddLookup ImgTar.Semantics ImgTar.Reimage ImgTar.Compose.
Import ListNotations.
Local Open Scope N_scope.

Section TV.
  Variable fb : path -> ibody.
  Variable xa : path -> N.
  Variable root0 : tnode.
  Variable unres : list path.
  Variable st : rstate.
  Variable arr : list path.
  Hypothesis Hs : swf root0.
  Hypothesis Hq : links_queued root0 unres.
  Hypothesis Hres : resolve_all root0 unres (mkRs [] []) = POk st.
  Let root := decorate st [] root0.

  Fixpoint flat0 (p : path) (n : tnode) : list (path * pview * path) :=
    match n with
    | TNode _ a ch =>
        (p, nview fb xa root p, p) ::
        (if ftype_eqb (a_type a) FDir
         then concat (map (fun c => if is_hardlink c
                                    then let tg := match a_resolved (node_attr c) with Some tg => tg | None => [] end in
                                         [(p ++ [node_name c], nview fb xa root tg, tg)]
                                    else flat0 (p ++ [node_name c]) c) ch)
         else [])
    end.

  Lemma tree_view_flat0 : forall n p, tree_view fb xa root arr p n = map (number arr) (flat0 p n).
  Proof.
    induction n as [nm a ch IH] using tnode_ind'. intro p. cbn [tree_view flat0 map number]. f_equal.
    destruct (ftype_eqb (a_type a) FDir); [|reflexivity].
    rewrite concat_map, !map_map. f_equal. apply map_ext_in. intros c Hc.
    destruct (is_hardlink c); [reflexivity|]. rewrite Forall_forall in IH. apply IH. exact Hc.
  Qed.

  Lemma nview_node id nd0 : lookup_path id root0 = Some nd0 -> nview fb xa root id = pview_of_node fb xa id nd0.
  Proof.
    intro L. unfold nview, root. rewrite lookup_decorate, L. cbn [option_map]. destruct nd0 as [nm a ch]. reflexivity.
  Qed.

  Definition den0 (x : path * pview * path) : Prop :=
    let '(p, v, id) := x in
    resolves root0 p id /\ exists nd, lookup_path id root0 = Some nd /\ v = pview_of_node fb xa id nd.

  Lemma flat0_denotes : forall n0 p, lookup_path p root0 = Some n0 -> is_hardlink n0 = false ->
    map (fun x => fst (fst x)) (flat0 p (decorate st p n0)) = all_paths p n0 /\
    Forall den0 (flat0 p (decorate st p n0)).
  Proof.
    induction n0 as [nm a ch IH] using tnode_ind'. intros p L Hh.
    pose proof (swf_lookup p root0 _ Hs L) as W. destruct (swf_inv _ _ _ W) as (_ & Ws & _).
    pose proof (sorted_names_nodup _ Ws) as ND.
    cbn [decorate flat0 all_paths set_post a_type]. unfold is_dir. cbn [node_attr].
    assert (Head : den0 (p, nview fb xa root p, p)).
    { split; [eapply rs_here; eauto|]. eexists. split; [exact L|]. apply nview_node. exact L. }
    destruct (ftype_eqb (a_type a) FDir) eqn:Ty.
    2:{ split; [reflexivity|]. constructor; [exact Head|constructor]. }
    assert (Dn : is_dir (TNode nm a ch) = true) by (unfold is_dir; cbn; exact Ty).
    set (G := fun c => if is_hardlink c
                       then let tg := match a_resolved (node_attr c) with Some tg => tg | None => [] end in
                            [(p ++ [node_name c], nview fb xa root tg, tg)]
                       else flat0 (p ++ [node_name c]) c).
    assert (Kid : forall c, In c ch ->
      map (fun x => fst (fst x)) (G (decorate st (p ++ [node_name c]) c)) = all_paths (p ++ [node_name c]) c /\
      Forall den0 (G (decorate st (p ++ [node_name c]) c))).
    { intros c Hc. unfold G.
      assert (Lc : lookup_path (p ++ [node_name c]) root0 = Some c).
      { apply (lookup_app1 p root0 _ c L Dn). apply find_child_of_in; assumption. }
      rewrite decorate_is_hardlink, decorate_name, decorate_resolved.
      destruct (is_hardlink c) eqn:Hc_h.
      - destruct (link_target root0 unres st Hq Hres _ c Lc Hc_h) as (tg & ndt & A & Rs & Lt & Ht). rewrite A. cbv zeta.
        split.
        + cbn [map fst]. destruct c as [cn ca cch]. cbn [all_paths]. rewrite (is_hardlink_not_dir _ Hc_h). reflexivity.
        + constructor; [|constructor].
          split; [exact Rs|]. exists ndt. split; [exact Lt|]. apply nview_node. exact Lt.
      - rewrite Forall_forall in IH. apply (IH c Hc _ Lc Hc_h). }
    assert (K1 : map (fun x => fst (fst x)) (concat (map G (map (fun c => decorate st (p ++ [node_name c]) c) ch))) =
                 concat (map (fun c => all_paths (p ++ [node_name c]) c) ch)).
    { rewrite concat_map, !map_map. f_equal. apply map_ext_in. intros c Hc. apply (Kid c Hc). }
    assert (K2 : Forall den0 (concat (map G (map (fun c => decorate st (p ++ [node_name c]) c) ch)))).
    { apply Forall_concat. rewrite map_map. apply Forall_map. apply Forall_forall. intros c Hc. apply (Kid c Hc). }
    split.
    - cbn [map fst]. f_equal. exact K1.
    - constructor; [exact Head|exact K2].
  Qed.
End TV.

(* the view the tie computes is the numbering of THE list that denotes the tree, and the numbering is injective on it *)
Theorem tree_view_denotes_l fb xa d ops fs pp :
  run_adds d (fs_init d) ops = Some fs -> post_process fs = POk pp ->
  exists fl, denotes fb xa (fs_root fs) fl /\
             tree_view fb xa (pp_root pp) (pp_inodes pp) [] (pp_root pp) = map (number (pp_inodes pp)) fl /\
             (forall x y, In x fl -> In y fl ->
                          ino_of (pp_inodes pp) (snd x) = ino_of (pp_inodes pp) (snd y) -> snd x = snd y).
Proof.
  intros Hrun Hpost.
  pose proof (run_adds_swf d ops _ fs (init_swf d) Hrun) as W.
  pose proof (root0_queued d ops fs Hrun) as Q.
  pose proof (root0_dir d ops fs Hrun) as D0.
  destruct (post_process_facts fs pp (swf_snames _ W) D0 Q Hpost) as (st & R & Er & Ef & El & I & P).
  assert (H0 : is_hardlink (fs_root fs) = false).
  { destruct (is_hardlink (fs_root fs)) eqn:E; [|reflexivity]. apply is_hardlink_not_dir in E. congruence. }
  destruct (flat0_denotes fb xa (fs_root fs) (fs_unres fs) st W Q R (fs_root fs) [] eq_refl H0) as [D1 D2].
  exists (flat0 fb xa (fs_root fs) st [] (decorate st [] (fs_root fs))).
  split; [split; [exact D1|]|split].
  - eapply Forall_impl; [|exact D2]. intros [[p v] id] H. exact H.
  - rewrite Er. apply tree_view_flat0.
  - intros x y Hx Hy E. rewrite Forall_forall in D2. apply (ino_of_inj (pp_inodes pp) _ _ E).
    pose proof (D2 x Hx) as Dx. destruct x as [[p v] id]. cbn [snd]. destruct Dx as [Rs _].
    destruct (resolves_end _ _ _ Rs) as (nd & L & Hh).
    assert (Nm : numbered (pp_root pp) id).
    { exists (decorate st id nd). rewrite Er, lookup_decorate, L, decorate_is_hardlink. auto. }
    destruct (index_of_in id (pp_inodes pp) (inv_complete _ _ I id Nm)) as [k Hk]. unfold ino_of. rewrite Hk. lia.
Qed.

(* the function the tie compares with the real tar2sqfs | sqfs2tar, on an archive in sqfs2tar's shape *)
Theorem tar_roundtrip_reimage_l d vs tbl :
  tree_shapeb vs = true ->
  files_attached (fb_of (sizes_of opts0 d vs)) vs ->
  forall fs pp, tar2sqfs_tree opts0 d vs = Some fs -> post_process fs = POk pp ->
  exists out, tar_roundtrip_entries opts0 d false vs = Some out /\ Forall2 meq out (TarStream.reimage_all tbl vs).
Proof.
  intros Ts Fa fs pp Ht Hpost.
  assert (Hrun : run_adds d (fs_init d) (adds_of_entries opts0 d vs) = Some fs).
  { rewrite <- Ht. symmetry. apply tar2sqfs_tree_adds.
    unfold tree_shapeb in Ts. apply andb_prop in Ts. destruct Ts as [Sh _].
    unfold pt_ops. rewrite forallb_forall. intros o Ho. apply in_map_iff in Ho. destruct Ho as (t & <- & Hin').
    pose proof (shape_facts vs vs [] Sh (fun u (H : In u []) => match H with end) (fun u H => H) t Hin') as F.
    rewrite (pt_op_shape d t (ef_name _ _ F)). reflexivity. }
  destruct (tree_view_denotes_l (fb_of (sizes_of opts0 d vs)) (fun _ => 4294967295) d _ fs pp Hrun Hpost) as (fl & Den & Ev & Inj).
  destruct (reimage_meta_l d vs fs _ _ fl (pp_inodes pp) tbl Ts Hrun Den Fa Inj) as (out & Eo & Fo).
  exists out. split; [|exact Fo]. unfold tar_roundtrip_entries. rewrite Ht, Hpost, Ev. exact Eo.
Qed.

(* ... and on ANY archive tar2sqfs accepts (no root entry): the walk runs over the numbered semantic view of the adds *)
Theorem tar_roundtrip_view_l o d nl vs fs pp :
  let ops := adds_of_entries o d vs in
  let fb := fb_of (sizes_of o d vs) in
  forallb no_root_op (pt_ops o d vs) = true -> ops_okb ops = true -> links_resolveb ops = true ->
  tar2sqfs_tree o d vs = Some fs -> post_process fs = POk pp ->
  exists fl,
    tar_roundtrip_entries o d nl vs = sqfs2tar_entries nl (map (number (pp_inodes pp)) fl) /\
    StronglySorted path_lt (map fst3 fl) /\
    (forall p, In p (map fst3 fl) <-> p = [] \/ in_closure p ops) /\
    Forall (fun x => let '(p, v, id) := x in
                     spec_resolve (S (length ops)) ops p = Some id /\
                     v = spec_pview fb (fun _ => 4294967295) d ops id) fl /\
    (forall x y, In x fl -> In y fl ->
                 ino_of (pp_inodes pp) (snd x) = ino_of (pp_inodes pp) (snd y) -> snd x = snd y).
Proof.
  intros ops fb Nr Ok Lr Ht Hpost.
  assert (Hrun : run_adds d (fs_init d) ops = Some fs) by (rewrite <- Ht; symmetry; apply tar2sqfs_tree_adds; exact Nr).
  destruct (tree_view_denotes_l fb (fun _ => 4294967295) d ops fs pp Hrun Hpost) as (fl & Den & Ev & Inj).
  destruct (adds_denote_l d ops fs fb _ fl Ok Lr Hrun Den) as (S1 & S2 & S3).
  exists fl. split; [|repeat split; try assumption; apply S2].
  unfold tar_roundtrip_entries. rewrite Ht, Hpost. fold fb. rewrite Ev. reflexivity.
Qed.
