(* C19: sqfs_copy with matching hooks, on a well-formed object, produces a
   well-formed object made of fresh cells only, with the same abstraction and
   the same shared references, and changes nothing else except the reference
   counts of the shared objects (one more per reference). *)
From Coq Require Import List NArith Bool Arith Lia.
From SqfsV Require Import C19.ObjHeap C19.ObjHooks C19.ObjKinds C19.ObjSpec C19.ObjBase C19.ObjFrame
     C19.ObjCopyBase.
Import ListNotations.

Definition Wc (n : nat) (h : heap) : addr -> kind -> Prop :=
  fun s ks => wf_obj n h s ks /\ rc_of h s = 1%N.

(* what is known about the copy [s'] (made in heap [h0] of length [lo]) of a
   sub-object [s], seen from a later heap [g]; its cells lie in [lo, hi) *)
Definition subfacts (n : nat) (h g : heap) (s s' : addr) (k : kind) (lo hi : nat) : Prop :=
  wf_obj n g s' k /\ rc_of g s' = 1%N /\
  (forall x, In x (fp n g s') -> lo <= x < hi) /\
  NoDup (fp n g s') /\
  all_refs n g s' = all_refs n h s /\
  abs_obj n g s' = abs_obj n h s.

(* one field of the original ([v], typed [t] in heap [h]) and of the copy
   ([v'], before re-pointing), the cells [lo, mid) created for it, the pairs it
   contributes to the translation map and to the pending re-pointing list *)
Definition F1 (n : nat) (h g : heap) (lo mid : nat) (v v' : val) (t : ftype)
           (md : list (addr * addr)) (pd : list (addr * trmode)) : Prop :=
  match t, v with
  | TOwn tm, VOwn a =>
      v' = VOwn lo /\ mid = S lo /\ md = [(a, lo)] /\ pd = [(lo, tm)] /\ get g lo = get h a
  | TOwnL tm, VOwnL l =>
      v' = VOwnL (seq lo (length l)) /\ mid = lo + length l /\
      md = combine l (seq lo (length l)) /\ pd = map (fun a' => (a', tm)) (seq lo (length l)) /\
      (forall i a, nth_error l i = Some a -> get g (lo + i) = get h a)
  | TObj k, VObj s =>
      v' = VObj lo /\ lo < mid /\ md = [] /\ pd = [] /\ subfacts n h g s lo k lo mid
  | _, _ => v' = v /\ mid = lo /\ md = [] /\ pd = []
  end.

Inductive FC (n : nat) (h g : heap)
  : nat -> nat -> list val -> list val -> list ftype -> list (addr * addr) -> list (addr * trmode) -> Prop :=
| FC_nil : forall lo, FC n h g lo lo [] [] [] [] []
| FC_cons : forall lo mid hi v v' t fs fs' lay md pd mD pD,
    F1 n h g lo mid v v' t md pd ->
    FC n h g mid hi fs fs' lay mD pD ->
    FC n h g lo hi (v :: fs) (v' :: fs') (t :: lay) (mD ++ md) (pD ++ pd).

Lemma F1_le : forall n h g lo mid v v' t md pd, F1 n h g lo mid v v' t md pd -> lo <= mid.
Proof.
  intros n h g lo mid v v' t md pd H.
  destruct t, v; simpl in H; intuition lia.
Qed.

Lemma FC_le : forall n h g lo hi fs fs' lay mD pD, FC n h g lo hi fs fs' lay mD pD -> lo <= hi.
Proof.
  intros n h g lo hi fs fs' lay mD pD H. induction H; [lia|].
  apply F1_le in H. lia.
Qed.

(* facts about cells at or above L survive growth *)
Lemma subfacts_grown : forall n h g g' s s' k lo hi L R,
    subfacts n h g s s' k lo hi -> L <= lo -> hi <= length g ->
    grown L R g g' -> (forall r, In r (all_refs n h s) -> shared_ok g' r) ->
    subfacts n h g' s s' k lo hi.
Proof.
  intros n h g g' s s' k lo hi L R (Wf & Rc & In' & ND & AR & AB) HL Hhi (GL & GA & GB) Sh.
  assert (A : forall x, In x (fp n g s') -> nth_error g' x = nth_error g x).
  { intros x Hx. apply GA. specialize (In' x Hx). lia. }
  assert (EF : fp n g' s' = fp n g s') by (apply fp_frame; assumption).
  split; [|split; [|split; [|split; [|split]]]].
  - eapply wf_frame; eauto. intros r Hr. apply Sh. rewrite <- AR. assumption.
  - rewrite <- Rc. apply rc_same. apply A. eapply wf_in_fp; eauto.
  - rewrite EF. assumption.
  - rewrite EF. assumption.
  - rewrite <- AR. apply all_refs_frame; assumption.
  - rewrite <- AB. apply abs_frame; assumption.
Qed.

Lemma F1_grown : forall n h g g' lo mid v v' t md pd L R,
    F1 n h g lo mid v v' t md pd -> L <= lo -> mid <= length g ->
    grown L R g g' ->
    (forall r, In r (refs1 (all_refs n h) v) -> shared_ok g' r) ->
    F1 n h g' lo mid v v' t md pd.
Proof.
  intros n h g g' lo mid v v' t md pd L R H HL Hm G Sh.
  pose proof G as (GL & GA & GB).
  destruct t, v; simpl in *; try exact H.
  - destruct H as (-> & -> & -> & -> & E). repeat split; auto.
    rewrite <- E. apply get_same. apply GA. lia.
  - destruct H as (-> & -> & -> & -> & E). repeat split; auto.
    intros i a Hi. rewrite <- (E i a Hi). apply get_same. apply GA.
    assert (i < length l) by (apply nth_error_Some; congruence). lia.
  - destruct H as (-> & Hlt & -> & -> & S).
    split; [reflexivity|]. split; [assumption|]. split; [reflexivity|]. split; [reflexivity|].
    eapply subfacts_grown; eauto.
Qed.

Lemma trmode_eqb_eq : forall a b, trmode_eqb a b = true -> a = b.
Proof.
  intros [| |x] [| |y]; simpl; try discriminate; auto.
  revert y. induction x as [|p x IH]; intros [|q y]; try discriminate; auto.
  intro H. apply andb_prop in H. destruct H as [H1 H2].
  apply Bool.eqb_prop in H1. subst. f_equal. f_equal.
  specialize (IH y H2). congruence.
Qed.

Lemma shared_ok_grown : forall L R hs hs' s,
    shared_ok hs s -> s < L -> grown L R hs hs' -> shared_ok hs' s.
Proof.
  intros L R hs hs' s Sh Hs (_ & _ & B). eapply shared_ok_add; [exact Sh|]. apply B. assumption.
Qed.

Section Copy.
  Variable HK : kind -> hook.
  Hypothesis HKok : forall k,
      hdr_ok k (hk_hdr (HK k)) = true /\
      Forall2 (fun t a => act_ok t a = true) (LAY k) (hk_acts (HK k)).

  Definition copy_spec (fuel n : nat) : Prop :=
    forall h o k,
      wf_obj n h o k -> sep_obj n h o ->
      exists h',
        sqfs_copy HK fuel h o = Ok (h', Some (length h)) /\
        grown (length h) (all_refs n h o) h h' /\
        subfacts n h h' o (length h) k (length h) (length h').

  Section Fields.
    Variables (n fuel : nat).
    Hypothesis IHc : copy_spec fuel n.
    Variables (h : heap) (L : nat) (RO : list addr).

    (* the running heap still shows the original's cells *)
    Definition sees (hs : heap) : Prop :=
      L <= length hs /\
      (forall x, x < L -> ~ In x RO -> nth_error hs x = nth_error h x) /\
      (forall s, In s RO -> shared_ok hs s /\ s < L).

    Lemma sees_grown : forall hs hs' R, sees hs -> incl R RO -> grown L R hs hs' -> sees hs'.
    Proof.
      intros hs hs' R (S1 & S2 & S3) Inc G. pose proof G as (G1 & G2 & G3).
      split; [lia|]. split.
      - intros x Hx Nx. rewrite G3 by assumption. rewrite cnt_not_in.
        + rewrite option_map_add0. auto.
        + intro Hr. apply Nx, Inc, Hr.
      - intros s Hs. destruct (S3 s Hs) as [Sh Hl]. split; [|assumption].
        eapply shared_ok_grown; eauto.
    Qed.

    Lemma sees_get : forall hs a, sees hs -> a < L -> ~ In a RO -> get hs a = get h a.
    Proof. intros hs a (_ & S2 & _) Ha Na. apply get_same. auto. Qed.

    Lemma copy_step_ok : forall v t act hs m pend own,
        has_type (Wc n h) h own v t -> act_ok t act = true ->
        sees hs ->
        incl (refs1 (all_refs n h) v) RO ->
        (forall x, In x (fp1 (fp n h) v) -> ~ In x RO /\ x < L) ->
        NoDup (fp1 (fp n h) v) ->
        exists hs' v' md pd,
          copy_step (sqfs_copy HK fuel) (mkCS hs m pend) act v
          = Ok (Some (mkCS hs' (md ++ m) (pd ++ pend), v')) /\
          grown L (refs1 (all_refs n h) v) hs hs' /\
          F1 n h hs' (length hs) (length hs') v v' t md pd.
    Proof.
      intros v t act hs m pend own T A S Inc Fp ND.
      pose proof S as (S1 & S2 & S3).
      destruct t, v; simpl in T; try contradiction; destruct act; simpl in A; try discriminate;
        try (exists hs, VNull, [], []; split; [reflexivity|]; split; [apply grown_refl|];
             simpl; auto; fail);
        try (eexists hs, _, [], []; split; [reflexivity|]; split; [apply grown_refl|];
             simpl; auto; fail).
      - (* owned cell *)
        apply trmode_eqb_eq in A; subst tm0.
        destruct T as (lf & G & _).
        destruct (Fp a (or_introl eq_refl)) as [Na Ha].
        assert (Gs : get hs a = Some (mkC None lf)) by (rewrite sees_get; auto).
        exists (hs ++ [Live (mkC None lf)]), (VOwn (length hs)), [(a, length hs)], [(length hs, tm)].
        split; [|split].
        + simpl. rewrite (dup_leaf_ok _ _ _ Gs). reflexivity.
        + simpl. apply grown_app. assumption.
        + simpl. rewrite app_length. simpl. repeat split; auto; try lia.
          rewrite get_app_new. congruence.
      - (* owned cells *)
        apply trmode_eqb_eq in A; subst tm0.
        destruct (dup_leaves_ok l hs) as (hs' & E & Len & Old & New).
        { intros a Ha. rewrite Forall_forall in T. destruct (T a Ha) as (lf & G & _).
          destruct (Fp a Ha) as [Na Hl]. exists lf. rewrite sees_get; auto. }
        exists hs', (VOwnL (seq (length hs) (length l))), (combine l (seq (length hs) (length l))),
          (map (fun a' => (a', tm)) (seq (length hs) (length l))).
        split; [|split].
        + simpl. rewrite E. reflexivity.
        + simpl. split; [lia|]. split.
          * intros x Hx. apply Old. lia.
          * intros x Hx. unfold cnt; simpl. rewrite option_map_add0. apply Old. lia.
        + simpl. repeat split; auto.
          intros i a Hi. rewrite (New i a Hi).
          assert (Ha : In a l) by (eapply nth_error_In; eauto).
          destruct (Fp a Ha) as [Na Hl]. apply sees_get; auto.
      - (* sub-object *)
        destruct T as [Wf Rc].
        assert (Ag : forall x, In x (fp n h a) -> nth_error hs x = nth_error h x).
        { intros x Hx. destruct (Fp x Hx). auto. }
        assert (EF : fp n hs a = fp n h a) by (apply fp_frame; assumption).
        assert (ER : all_refs n hs a = all_refs n h a) by (apply all_refs_frame; assumption).
        assert (Wfs : wf_obj n hs a k).
        { eapply wf_frame; eauto. intros s Hs. apply S3. apply Inc. assumption. }
        assert (Seps : sep_obj n hs a).
        { split; rewrite EF; [assumption|]. rewrite ER. intros s Hs Hf.
          destruct (Fp s Hf) as [Ns _]. apply Ns, Inc. assumption. }
        destruct (IHc hs a k Wfs Seps) as (hs' & E & G & SF).
        exists hs', (VObj (length hs)), [], [].
        assert (G' : grown L (all_refs n h a) hs hs').
        { rewrite ER in G. destruct G as (G1 & G2 & G3). split; [assumption|]. split.
          - intros x Hx. rewrite G3 by lia. rewrite cnt_not_in; [apply option_map_add0|].
            intro Hr. destruct (S3 x (Inc x Hr)). lia.
          - intros x Hx. apply G3. lia. }
        split; [|split].
        + simpl. rewrite E. reflexivity.
        + exact G'.
        + simpl. destruct SF as (W' & R' & I' & N' & AR' & AB').
          split; [reflexivity|]. split.
          { destruct (wf_pos _ _ _ _ W') as [n' ->]. destruct W' as (rc' & fs' & G0 & _).
            eapply get_lt; eauto. }
          split; [reflexivity|]. split; [reflexivity|].
          split; [assumption|]. split; [assumption|]. split; [assumption|]. split; [assumption|].
          split; [congruence|]. rewrite AB'. apply abs_frame; assumption.
      - (* shared reference *)
        destruct (S3 a (Inc a (or_introl eq_refl))) as [Sh Hl].
        destruct (grab_ok L hs a Sh Hl S1) as (hs' & E & G & Len).
        exists hs', (VRef a), [], []. split; [|split].
        + simpl. rewrite E. reflexivity.
        + exact G.
        + simpl. auto.
    Qed.

    Lemma copy_fields_ok : forall fs lay acts hs m pend own,
        Forall2 (has_type (Wc n h) h own) fs lay ->
        Forall2 (fun t a => act_ok t a = true) lay acts ->
        sees hs ->
        incl (flat_map (refs1 (all_refs n h)) fs) RO ->
        (forall x, In x (flat_map (fp1 (fp n h)) fs) -> ~ In x RO /\ x < L) ->
        NoDup (flat_map (fp1 (fp n h)) fs) ->
        exists hs' fs' mD pD,
          copy_fields (sqfs_copy HK fuel) acts fs (mkCS hs m pend)
          = Ok (Some (mkCS hs' (mD ++ m) (pD ++ pend), fs')) /\
          grown L (flat_map (refs1 (all_refs n h)) fs) hs hs' /\
          FC n h hs' (length hs) (length hs') fs fs' lay mD pD.
    Proof.
      induction fs as [|v fs IH]; intros lay acts hs m pend own T A S Inc Fp ND.
      - inversion T; subst. inversion A; subst.
        exists hs, [], [], []. split; [reflexivity|]. split; [apply grown_refl|constructor].
      - inversion T as [|v0 t fs0 lay' Tv Tfs]; subst. inversion A as [|t0 act lay0 acts' Av Afs]; subst.
        simpl in Inc, Fp, ND.
        destruct (copy_step_ok v t act hs m pend own Tv Av S) as (hs1 & v' & md & pd & E1 & G1 & F).
        { intros x Hx. apply Inc, in_or_app. left; assumption. }
        { intros x Hx. apply Fp, in_or_app. left; assumption. }
        { eapply NoDup_app_l; eauto. }
        assert (S1 : sees hs1).
        { apply (sees_grown hs hs1 (refs1 (all_refs n h) v)); auto.
          intros x Hx. apply Inc, in_or_app. left; assumption. }
        destruct (IH lay' acts' hs1 (md ++ m) (pd ++ pend) own Tfs Afs S1)
          as (hs2 & fs' & mD & pD & E2 & G2 & FCt).
        { intros x Hx. apply Inc, in_or_app. right; assumption. }
        { intros x Hx. apply Fp, in_or_app. right; assumption. }
        { eapply NoDup_app_r; eauto. }
        exists hs2, (v' :: fs'), (mD ++ md), (pD ++ pd).
        assert (S2 : sees hs2).
        { apply (sees_grown hs1 hs2 (flat_map (refs1 (all_refs n h)) fs)); auto.
          intros x Hx. apply Inc, in_or_app. right; assumption. }
        split; [|split].
        + simpl. rewrite E1. simpl. rewrite E2. simpl. rewrite !app_assoc. reflexivity.
        + simpl. eapply grown_trans; eauto. destruct S as (? & _). assumption.
        + econstructor; [|exact FCt].
          apply (F1_grown n h hs1 hs2 (length hs) (length hs1) v v' t md pd L
                          (flat_map (refs1 (all_refs n h)) fs)).
          * exact F.
          * destruct S as (? & _). assumption.
          * lia.
          * exact G2.
          * intros r Hr. destruct S2 as (_ & _ & S3). apply S3. apply Inc, in_or_app. left; assumption.
    Qed.
  End Fields.
End Copy.
