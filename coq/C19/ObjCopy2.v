(* C19: the re-pointing pass of a copy hook and what the finished copy looks like. *)
From Coq Require Import List NArith Bool Arith Lia.
From SqfsV Require Import C19.ObjHeap C19.ObjHooks C19.ObjKinds C19.ObjSpec C19.ObjBase C19.ObjFrame
     C19.ObjCopyBase C19.ObjCopy.
Import ListNotations.

(* ---- translated leaf fields ---- *)
Lemma lval_ok_noint : forall own own' v, no_int v -> lval_ok own v -> lval_ok own' v.
Proof. intros own own' [] N L; simpl in *; auto; contradiction. Qed.

Lemma tr_val_ok : forall M own own' v,
    (forall x, In x own -> In (tr M x) own') -> lval_ok own v -> lval_ok own' (tr_val M v).
Proof. intros M own own' [] H L; simpl in *; auto. Qed.

Lemma tr_val_noint : forall M v, no_int v -> tr_val M v = v.
Proof. intros M [] H; simpl in *; auto. contradiction. Qed.

Lemma noint_tr_val : forall M v, no_int v -> no_int (tr_val M v).
Proof. intros M [] H; simpl in *; auto. Qed.

Lemma tr_fields_ok : forall M own own' tm lf,
    (forall x, In x own -> In (tr M x) own') ->
    Forall (lval_ok own) lf -> tm_ok tm lf ->
    Forall (lval_ok own') (tr_fields tm M lf) /\ tm_ok tm (tr_fields tm M lf).
Proof.
  intros M own own' tm lf H L T. destruct tm as [| |bs]; simpl in *.
  - split; [|assumption]. rewrite Forall_forall in *. intros v Hv.
    eapply lval_ok_noint; eauto.
  - split; [|exact I]. rewrite Forall_forall in *. intros v Hv.
    apply in_map_iff in Hv. destruct Hv as (w & <- & Hw). eapply tr_val_ok; eauto.
  - revert lf L T. induction bs as [|b bs IH]; intros lf L T; simpl in *.
    + split; [|assumption]. rewrite Forall_forall in *. intros w Hw. eapply lval_ok_noint; eauto.
    + destruct lf as [|v lf]; simpl in *; [split; [constructor|exact I]|].
      destruct T as [Tb Tr]. inversion L; subst.
      destruct (IH lf H3 Tr) as [A B]. split.
      * constructor; [|assumption]. destruct b; [eapply tr_val_ok; eauto|].
        eapply lval_ok_noint; eauto.
      * split; [|assumption]. intro E. subst b. auto.
Qed.

Lemma abs_lval_noint : forall own own' v, no_int v -> abs_lval own' v = abs_lval own v.
Proof. intros own own' [] H; simpl in *; auto. contradiction. Qed.

Lemma abs_tr_val : forall M own own' v,
    (forall x, In x own -> index_of (tr M x) own' = index_of x own) ->
    lval_ok own v -> abs_lval own' (tr_val M v) = abs_lval own v.
Proof. intros M own own' [] H L; simpl in *; auto. rewrite H; auto. Qed.

Lemma abs_tr_fields : forall M own own' tm lf,
    (forall x, In x own -> index_of (tr M x) own' = index_of x own) ->
    Forall (lval_ok own) lf -> tm_ok tm lf ->
    map (abs_lval own') (tr_fields tm M lf) = map (abs_lval own) lf.
Proof.
  intros M own own' tm lf H L T. destruct tm as [| |bs]; simpl in *.
  - apply map_ext_in. intros v Hv. rewrite Forall_forall in T. apply abs_lval_noint; auto.
  - rewrite map_map. apply map_ext_in. intros v Hv. rewrite Forall_forall in L.
    apply abs_tr_val; auto.
  - revert lf L T. induction bs as [|b bs IH]; intros lf L T; simpl in *.
    + apply map_ext_in. intros w Hw. rewrite Forall_forall in T. apply abs_lval_noint; auto.
    + destruct lf as [|v lf]; simpl in *; auto.
      destruct T as [Tb Tr]. inversion L; subst. f_equal; [|apply IH; assumption].
      destruct b; [apply abs_tr_val; auto|]. apply abs_lval_noint; auto.
Qed.

(* ---- the re-pointing pass over the new header-less cells ---- *)
Lemma fix_leaves_ok : forall M pend g,
    NoDup (map fst pend) ->
    (forall a tm, In (a, tm) pend -> exists lf, get g a = Some (mkC None lf)) ->
    exists g',
      fix_leaves M pend g = Ok g' /\ length g' = length g /\
      (forall x, ~ In x (map fst pend) -> nth_error g' x = nth_error g x) /\
      (forall a tm, In (a, tm) pend ->
                    exists lf, get g a = Some (mkC None lf) /\
                               get g' a = Some (mkC None (tr_fields tm M lf))).
Proof.
  induction pend as [|[a tm] pend IH]; intros g ND HL.
  - exists g. simpl. repeat split; auto. intros a tm [].
  - simpl in ND. inversion ND; subst.
    destruct (HL a tm (or_introl eq_refl)) as [lf G].
    set (g1 := upd g a (Live (mkC None (tr_fields tm M lf)))).
    destruct (IH g1 H2) as (g' & E & Len & Out & In').
    { intros b tb Hb. destruct (HL b tb (or_intror Hb)) as [lb Gb]. exists lb.
      unfold g1. rewrite get_upd_neq; auto. intro; subst b. apply H1.
      change a with (fst (a, tb)). apply in_map. assumption. }
    exists g'. split; [|split; [|split]].
    + simpl. rewrite (load_of_get _ _ _ G). simpl.
      rewrite (store_of_get _ _ _ _ G). simpl. exact E.
    + rewrite Len. apply length_upd.
    + intros x Hx. simpl in Hx. rewrite Out by (intro; apply Hx; right; assumption).
      apply nth_upd_neq. intro; subst x. apply Hx. left; reflexivity.
    + intros b tb [Eb|Hb].
      * inversion Eb; subst b tb. exists lf. split; [assumption|].
        rewrite <- (get_upd_eq g a _ (mkC None (tr_fields tm M lf)) G).
        apply get_same. apply Out. assumption.
      * destruct (In' b tb Hb) as (lb & G1 & G2). exists lb. split; [|assumption].
        rewrite <- G1. unfold g1. symmetry. apply get_upd_neq. intro; subst b. apply H1.
        change a with (fst (a, tb)). apply in_map. assumption.
Qed.

(* fix_fields only rewrites internal pointers *)
Lemma own1_tr_val : forall M v, own1 (tr_val M v) = own1 v.
Proof. intros M []; reflexivity. Qed.

Lemma owned_fix_fields : forall M acts fs, owned_of (fix_fields M acts fs) = owned_of fs.
Proof.
  intros M. unfold owned_of. induction acts as [|a acts IH]; intros fs; [destruct fs; reflexivity|].
  destruct fs as [|v fs]; [destruct a; reflexivity|].
  destruct a; simpl; rewrite ?own1_tr_val; f_equal; apply IH.
Qed.

(* ---- the translation map pairs the owner's cells positionally ---- *)
Lemma Forall2_nth : forall (A B : Type) (P : A -> B -> Prop) l l' i a,
    Forall2 P l l' -> nth_error l i = Some a -> exists a', nth_error l' i = Some a' /\ P a a'.
Proof.
  intros A B P l l' i a F. revert i. induction F; intros [|i] Hi; simpl in *; try discriminate.
  - inversion Hi; subst. eauto.
  - eauto.
Qed.

Lemma Forall2_impl : forall (A B : Type) (P Q : A -> B -> Prop) l m,
    (forall x y, P x y -> Q x y) -> Forall2 P l m -> Forall2 Q l m.
Proof. intros A B P Q l m H F. induction F; constructor; auto. Qed.

Lemma Forall2_combine_seq : forall (l : list addr) lo,
    Forall2 (fun a a' => In (a, a') (combine l (seq lo (length l)))) l (seq lo (length l)).
Proof.
  induction l as [|a l IH]; intros lo; simpl; constructor.
  - left; reflexivity.
  - eapply Forall2_impl; [|apply IH]. intros x y H. right. exact H.
Qed.

Lemma map_fst_combine_seq : forall (l : list addr) lo, map fst (combine l (seq lo (length l))) = l.
Proof. induction l as [|a l IH]; intros lo; simpl; [reflexivity|]. rewrite IH. reflexivity. Qed.

Lemma in_seq_bounds : forall x lo len, In x (seq lo len) -> lo <= x < lo + len.
Proof. intros x lo len H. apply in_seq in H. lia. Qed.

Section Maps.
  Variables (n : nat) (h g : heap).

  Lemma FC_maps : forall lo hi fs fs' lay mD pD own,
      FC n h g lo hi fs fs' lay mD pD ->
      Forall2 (has_type (Wc n h) h own) fs lay ->
      Forall2 (fun a a' => In (a, a') mD) (owned_of fs) (owned_of fs') /\
      (forall a a', In (a, a') mD -> In a (owned_of fs)) /\
      (NoDup (owned_of fs) -> NoDup (map fst mD)) /\
      (forall a', In a' (owned_of fs') -> lo <= a' < hi) /\
      NoDup (owned_of fs') /\
      (forall a' tm, In (a', tm) pD ->
                     In a' (owned_of fs') /\ exists lf, get g a' = Some (mkC None lf)) /\
      NoDup (map fst pD).
  Proof.
    intros lo hi fs fs' lay mD pD own F. induction F; intros T.
    - simpl. repeat split; auto; try constructor; try (intros ? ? []); try (intros ? []);
        try contradiction.
    - inversion T as [|v0 t0 fs0 lay0 Tv Tfs]; subst.
      destruct (IHF Tfs) as (K1 & K2 & K2' & K3 & K3' & K4 & K4').
      pose proof (F1_le _ _ _ _ _ _ _ _ _ _ H) as Hle.
      pose proof (FC_le _ _ _ _ _ _ _ _ _ _ F) as Hle2.
      (* what the head contributes *)
      assert (Hd : Forall2 (fun a a' => In (a, a') md) (own1 v) (own1 v') /\
                   map fst md = own1 v /\
                   (forall a', In a' (own1 v') -> lo <= a' < mid) /\
                   NoDup (own1 v') /\
                   map fst pd = own1 v' /\
                   (forall a' tm, In (a', tm) pd -> exists lf, get g a' = Some (mkC None lf))).
      { destruct t, v; simpl in H, Tv; try contradiction;
          try (destruct H as (-> & -> & -> & ->); simpl;
               split; [constructor|]; split; [reflexivity|]; split; [intros ? []|];
               split; [constructor|]; split; [reflexivity|]; intros ? ? []; fail).
        - destruct H as (-> & -> & -> & -> & E). simpl. destruct Tv as (lf & G & _).
          split; [constructor; [left; reflexivity|constructor]|].
          split; [reflexivity|].
          split; [intros a' [<-|[]]; lia|].
          split; [constructor; [intros []|constructor]|].
          split; [reflexivity|].
          intros a' tm0 [Ep|[]]. inversion Ep; subst. exists lf. congruence.
        - destruct H as (-> & -> & -> & -> & E). simpl.
          split; [apply Forall2_combine_seq|]. split; [apply map_fst_combine_seq|].
          split; [intros a' Ha; apply in_seq_bounds in Ha; lia|].
          split; [apply seq_NoDup|].
          split; [rewrite map_map; simpl; apply map_id|].
          intros a' tm0 Hp. apply in_map_iff in Hp. destruct Hp as (x & Ex & Hx).
          inversion Ex; subst. apply in_seq in Hx.
          destruct (nth_error l (a' - lo)) as [a|] eqn:En.
          + rewrite Forall_forall in Tv. destruct (Tv a (nth_error_In _ _ En)) as (lf & G & _).
            exists lf. rewrite <- G. replace a' with (lo + (a' - lo)) at 1 by lia. eauto.
          + apply nth_error_None in En. lia.
        - destruct H as (-> & Hlt & -> & -> & _). simpl.
          split; [constructor|]; split; [reflexivity|]; split; [intros ? []|];
            split; [constructor|]; split; [reflexivity|]; intros ? ? []. }
      destruct Hd as (H1 & H2 & H3 & H4 & H5 & H6).
      unfold owned_of in *. simpl.
      split; [|split; [|split; [|split; [|split; [|split]]]]].
      + apply Forall2_app.
        * eapply Forall2_impl; [|exact H1]. intros; apply in_or_app; right; assumption.
        * eapply Forall2_impl; [|exact K1]. intros; apply in_or_app; left; assumption.
      + intros a a' Hi. apply in_app_or in Hi. apply in_or_app. destruct Hi as [Hi|Hi].
        * right. eauto.
        * left. rewrite <- H2. change a with (fst (a, a')). apply in_map. assumption.
      + intros ND. rewrite map_app. apply NoDup_app_intro.
        * apply K2'. eapply NoDup_app_r; eauto.
        * rewrite H2. eapply NoDup_app_l; eauto.
        * intros x Hx Hy. rewrite H2 in Hy. apply in_map_iff in Hx.
          destruct Hx as ([a a'] & <- & Hp). simpl in Hy.
          eapply NoDup_app_disj; eauto.
      + intros a' Ha. apply in_app_or in Ha. destruct Ha as [Ha|Ha].
        * specialize (H3 a' Ha). lia.
        * specialize (K3 a' Ha). lia.
      + apply NoDup_app_intro; auto. intros x Hx Hy. specialize (H3 x Hx). specialize (K3 x Hy). lia.
      + intros a' tm Hp. apply in_app_or in Hp. destruct Hp as [Hp|Hp].
        * destruct (K4 a' tm Hp) as [A B]. split; [apply in_or_app; right|]; assumption.
        * split; [|eauto]. apply in_or_app. left. rewrite <- H5.
          change a' with (fst (a', tm)). apply in_map. assumption.
      + rewrite map_app. apply NoDup_app_intro; auto.
        * rewrite H5. assumption.
        * intros x Hx Hy. rewrite H5 in Hy. apply in_map_iff in Hx.
          destruct Hx as ([a' tm] & <- & Hp). simpl in Hy.
          destruct (K4 a' tm Hp) as [A _]. specialize (K3 a' A). specialize (H3 a' Hy). lia.
  Qed.
End Maps.
