(* C19: the finished copy - typing, abstraction, footprint of the new object. *)
From Coq Require Import List NArith Bool Arith Lia.
From SqfsV Require Import C19.ObjHeap C19.ObjHooks C19.ObjKinds C19.ObjSpec C19.ObjBase C19.ObjFrame
     C19.ObjCopyBase C19.ObjCopy C19.ObjCopy2.
Import ListNotations.

Lemma subfacts_frame : forall n h g g' s s' k lo hi,
    subfacts n h g s s' k lo hi ->
    (forall x, lo <= x < hi -> nth_error g' x = nth_error g x) ->
    (forall r, In r (all_refs n h s) -> shared_ok g' r) ->
    subfacts n h g' s s' k lo hi.
Proof.
  intros n h g g' s s' k lo hi (Wf & Rc & In' & ND & AR & AB) Ag Sh.
  assert (A : forall x, In x (fp n g s') -> nth_error g' x = nth_error g x).
  { intros x Hx. apply Ag. apply In'. assumption. }
  assert (EF : fp n g' s' = fp n g s') by (apply fp_frame; assumption).
  split; [|split; [|split; [|split; [|split]]]].
  - eapply wf_frame; eauto. intros r Hr. apply Sh. rewrite <- AR. assumption.
  - rewrite <- Rc. apply rc_same. apply A. eapply wf_in_fp; eauto.
  - rewrite EF. assumption.
  - rewrite EF. assumption.
  - rewrite <- AR. apply all_refs_frame; assumption.
  - rewrite <- AB. apply abs_frame; assumption.
Qed.

Lemma map_seq_ext : forall (B : Type) (f gf : addr -> B) (l : list addr) lo,
    (forall i a, nth_error l i = Some a -> f (lo + i) = gf a) ->
    map f (seq lo (length l)) = map gf l.
Proof.
  intros B f gf. induction l as [|a l IH]; intros lo H; simpl; [reflexivity|]. f_equal.
  - rewrite <- (H 0 a eq_refl). f_equal. lia.
  - apply IH. intros i x Hi. rewrite <- (H (S i) x Hi). f_equal. lia.
Qed.

Lemma fix_fields_cons : forall M act acts v fs,
    fix_fields M (act :: acts) (v :: fs)
    = (match act with ATr => tr_val M v | _ => v end) :: fix_fields M acts fs.
Proof. intros M [] acts v fs; reflexivity. Qed.

Lemma wf_fp_lt : forall n h a k x, wf_obj n h a k -> In x (fp n h a) -> x < length h.
Proof.
  induction n as [|n IH]; intros h a k x W Hx; [destruct W|].
  destruct W as (rc & fs & G & T).
  assert (Hfs : fields_of h a = fs) by (unfold fields_of; rewrite G; reflexivity).
  rewrite fp_S, Hfs in Hx. destruct Hx as [<-|Hx]; [eapply get_lt; eauto|].
  apply in_flat_map in Hx. destruct Hx as (v & Hv & Hx).
  destruct (Forall2_in_l _ _ _ _ _ _ T Hv) as (t & _ & Tv).
  destruct v; simpl in Hx; try contradiction.
  - destruct Hx as [<-|[]]. destruct t; simpl in Tv; try contradiction.
    destruct Tv as (lf & G' & _). eapply get_lt; eauto.
  - destruct t; simpl in Tv; try contradiction. rewrite Forall_forall in Tv.
    destruct (Tv x Hx) as (lf & G' & _). eapply get_lt; eauto.
  - destruct t; simpl in Tv; try contradiction. destruct Tv as [W' _]. eapply IH; eauto.
Qed.

Section Final.
  Variables (n : nat) (h g g' : heap) (M : list (addr * addr)) (own own' : list addr).
  Hypothesis Hc : forall x, In x own -> In (tr M x) own'.
  Hypothesis Hf : forall x, In x own -> index_of (tr M x) own' = index_of x own.

  Lemma F1_final : forall lo mid v v' t md pd act,
      F1 n h g lo mid v v' t md pd -> act_ok t act = true -> has_type (Wc n h) h own v t ->
      mid <= length g ->
      (forall x, lo <= x < mid -> ~ In x (own1 v') -> nth_error g' x = nth_error g x) ->
      (forall a' tm, In (a', tm) pd ->
                     exists lf, get g a' = Some (mkC None lf) /\
                                get g' a' = Some (mkC None (tr_fields tm M lf))) ->
      (forall r, In r (refs1 (all_refs n h) v) -> shared_ok g' r) ->
      let v'' := match act with ATr => tr_val M v' | _ => v' end in
      has_type (Wc n g') g' own' v'' t /\
      abs_val (abs_obj n g') g' own' v'' = abs_val (abs_obj n h) h own v /\
      (forall x, In x (fp1 (fp n g') v'') -> lo <= x < mid) /\
      NoDup (fp1 (fp n g') v'') /\
      refs1 (all_refs n g') v'' = refs1 (all_refs n h) v /\
      own1 v'' = own1 v'.
  Proof.
    intros lo mid v v' t md pd act F A T Hm Ha Hb Hd.
    destruct t, v; simpl in F, T; try contradiction; destruct act; simpl in A; try discriminate;
      try (destruct F as (-> & -> & -> & ->); simpl;
           split; [auto|]; split; [reflexivity|]; split; [intros ? []|];
           split; [constructor|]; split; reflexivity).
    - (* internal pointer *)
      destruct F as (-> & -> & -> & ->). simpl.
      split; [auto|]. split; [rewrite Hf; auto|].
      split; [intros ? []|]. split; [constructor|]. split; reflexivity.
    - (* owned cell *)
      apply trmode_eqb_eq in A; subst tm0.
      destruct F as (-> & -> & -> & -> & E). destruct T as (lf & G & L & Tm).
      destruct (Hb lo tm (or_introl eq_refl)) as (lf' & G1 & G2).
      assert (lf' = lf) by congruence. subst lf'.
      destruct (tr_fields_ok M own own' tm lf Hc L Tm) as [L' Tm'].
      simpl. split; [exists (tr_fields tm M lf); auto|].
      split.
      { unfold abs_leaf, fields_of. rewrite G2, G. simpl. f_equal. apply abs_tr_fields; auto. }
      split; [intros x [<-|[]]; lia|]. split; [constructor; [intros []|constructor]|].
      split; reflexivity.
    - (* owned cells *)
      apply trmode_eqb_eq in A; subst tm0.
      destruct F as (-> & -> & -> & -> & E). simpl.
      assert (P : forall i a, nth_error l i = Some a ->
                              exists lf, get h a = Some (mkC None lf) /\ Forall (lval_ok own) lf /\
                                         tm_ok tm lf /\
                                         get g' (lo + i) = Some (mkC None (tr_fields tm M lf))).
      { intros i a Hi. rewrite Forall_forall in T.
        destruct (T a (nth_error_In _ _ Hi)) as (lf & G & L & Tm).
        assert (Hl : i < length l) by (apply nth_error_Some; congruence).
        destruct (Hb (lo + i) tm) as (lf' & G1 & G2).
        { apply in_map_iff. exists (lo + i). split; [reflexivity|]. apply in_seq. lia. }
        rewrite (E i a Hi) in G1. assert (lf' = lf) by congruence. subst lf'.
        exists lf. auto. }
      split.
      { rewrite Forall_forall. intros x Hx. apply in_seq in Hx.
        destruct (nth_error l (x - lo)) as [a|] eqn:En; [|apply nth_error_None in En; lia].
        destruct (P _ _ En) as (lf & G & L & Tm & G').
        replace (lo + (x - lo)) with x in G' by lia.
        destruct (tr_fields_ok M own own' tm lf Hc L Tm) as [L' Tm'].
        exists (tr_fields tm M lf). auto. }
      split.
      { f_equal. apply map_seq_ext. intros i a Hi.
        destruct (P _ _ Hi) as (lf & G & L & Tm & G').
        unfold abs_leaf, fields_of. rewrite G', G. simpl. f_equal. apply abs_tr_fields; auto. }
      split; [intros x Hx; apply in_seq in Hx; lia|].
      split; [apply seq_NoDup|]. split; reflexivity.
    - (* sub-object *)
      destruct F as (-> & Hlt & -> & -> & SF). destruct T as [W0 R0]. simpl in *.
      assert (SF' : subfacts n h g' a lo k lo mid).
      { eapply subfacts_frame; eauto. }
      destruct SF' as (W' & R' & I' & N' & AR' & AB').
      split; [split; assumption|]. split; [assumption|].
      split; [assumption|]. split; [assumption|]. split; [assumption|reflexivity].
    - (* shared reference *)
      destruct F as (-> & -> & -> & ->). simpl.
      split; [apply Hd; left; reflexivity|]. split; [reflexivity|].
      split; [intros ? []|]. split; [constructor|]. split; reflexivity.
  Qed.

  Lemma FC_final : forall lo hi fs fs' lay mD pD,
      FC n h g lo hi fs fs' lay mD pD ->
      forall acts,
        Forall2 (fun t a => act_ok t a = true) lay acts ->
        Forall2 (has_type (Wc n h) h own) fs lay ->
        hi <= length g ->
        (forall x, lo <= x < hi -> ~ In x (owned_of fs') -> nth_error g' x = nth_error g x) ->
        (forall a' tm, In (a', tm) pD ->
                       exists lf, get g a' = Some (mkC None lf) /\
                                  get g' a' = Some (mkC None (tr_fields tm M lf))) ->
        (forall r, In r (flat_map (refs1 (all_refs n h)) fs) -> shared_ok g' r) ->
        Forall2 (has_type (Wc n g') g' own') (fix_fields M acts fs') lay /\
        map (abs_val (abs_obj n g') g' own') (fix_fields M acts fs')
        = map (abs_val (abs_obj n h) h own) fs /\
        (forall x, In x (flat_map (fp1 (fp n g')) (fix_fields M acts fs')) -> lo <= x < hi) /\
        NoDup (flat_map (fp1 (fp n g')) (fix_fields M acts fs')) /\
        flat_map (refs1 (all_refs n g')) (fix_fields M acts fs')
        = flat_map (refs1 (all_refs n h)) fs.
  Proof.
    intros lo hi fs fs' lay mD pD F. induction F; intros acts A T Hhi Ha Hb Hd.
    - inversion A; subst. simpl.
      split; [constructor|]. split; [reflexivity|]. split; [intros ? []|].
      split; [constructor|reflexivity].
    - inversion A as [|t0 act lay0 acts' Av Afs]; subst.
      inversion T as [|v0 t1 fs0 lay1 Tv Tfs]; subst.
      pose proof (F1_le _ _ _ _ _ _ _ _ _ _ H) as Hle.
      pose proof (FC_le _ _ _ _ _ _ _ _ _ _ F) as Hle2.
      destruct (FC_maps n h g mid hi fs fs' lay mD pD own F Tfs) as (_ & _ & _ & K3 & _ & _ & _).
      assert (O1 : forall x, In x (own1 v') -> lo <= x < mid).
      { clear -H Tv. intros x Hx. destruct t, v; simpl in H, Tv; try contradiction;
          try (destruct H as (-> & _); simpl in Hx; contradiction);
          try (destruct H as (-> & _ & _ & _); destruct v'; simpl in Hx; contradiction).
        - destruct H as (-> & -> & _). destruct Hx as [<-|[]]. lia.
        - destruct H as (-> & -> & _). simpl in Hx. apply in_seq in Hx. lia. }
      destruct (F1_final lo mid v v' t md pd act H Av Tv) as (X1 & X2 & X3 & X4 & X5 & X6).
      { lia. }
      { intros x Hx Nx. apply Ha; [lia|]. unfold owned_of; simpl. intro Hi.
        apply in_app_or in Hi. destruct Hi as [Hi|Hi]; [contradiction|].
        specialize (K3 x Hi). lia. }
      { intros a' tm Hp. apply Hb. apply in_or_app. right; assumption. }
      { intros r Hr. apply Hd. simpl. apply in_or_app. left; assumption. }
      destruct (IHF acts' Afs Tfs Hhi) as (Y1 & Y2 & Y3 & Y4 & Y5).
      { intros x Hx Nx. apply Ha; [lia|]. unfold owned_of; simpl. intro Hi.
        apply in_app_or in Hi. destruct Hi as [Hi|Hi]; [|contradiction].
        specialize (O1 x Hi). lia. }
      { intros a' tm Hp. apply Hb. apply in_or_app. left; assumption. }
      { intros r Hr. apply Hd. simpl. apply in_or_app. right; assumption. }
      rewrite fix_fields_cons. simpl.
      split; [constructor; assumption|].
      split; [f_equal; assumption|].
      split.
      { intros x Hx. apply in_app_or in Hx. destruct Hx as [Hx|Hx].
        - specialize (X3 x Hx). lia.
        - specialize (Y3 x Hx). lia. }
      split.
      { apply NoDup_app_intro; auto. intros x Hx Hy.
        specialize (X3 x Hx). specialize (Y3 x Hy). lia. }
      f_equal; assumption.
  Qed.
End Final.
