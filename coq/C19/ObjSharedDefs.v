(* C19: reader operations that go through the SHARED file and compressor, on both
   layers.  Definitions only.

   The compressor's back end is a parameter [blk : configuration -> stream state ->
   input -> new stream state * output] (cmp->do_block: for gzip the z_stream behind
   strm.state, for zstd the ZSTD context); the stream state lives in the cell the
   shared compressor object owns, and every call overwrites it.  The file's bytes
   live in the cell the shared file object owns (the descriptor / what pread returns);
   reading does not change them.

   [run_meta]: a meta reader operation "seek + read": the operand and the reader's
   state select the compressed block ([req]), the shared compressor unpacks it, the
   reader stores the block and answers ([fin]).  sqfs_meta_reader_seek / _read are of
   this form (state = block_start, next_block, offset, data_used, data[]).
   (A data reader block read through its references, the unpacked block landing in the
   reader's own data_block buffer: C19/ObjSharedData.v, run_dblock.  An xattr reader lookup
   through its two sub-object meta readers: C19/ObjSharedXrd.v, run_xlookup.) *)
From Coq Require Import List NArith Bool Arith.
From SqfsV Require Import C19.ObjHeap C19.ObjHooks C19.ObjKinds C19.ObjSpec.
Import ListNotations.

Definition is_stream_kind (k : kind) : bool := match k with KGzip | KZstd => true | _ => false end.
Definition is_flat_kind (k : kind) : bool := match k with KXz | KLz4 | KLzma => true | _ => false end.

Definition dkind (c : cell) : option kind :=
  match c_hdr c with Some hd => h_destroy hd | None => None end.

(* layer (ii): the bytes behind a shared read-only file *)
Definition file_bytes (h : heap) (fl : addr) : option (list N) :=
  match get h fl with
  | Some c =>
      match dkind c, c_fields c with
      | Some KFile, [v1; v2] =>
          match v1, v2 with
          | VOwn fd, VData _ =>
              match fields_of h fd with
              | [w] => match w with VData b => Some b | _ => None end
              | _ => None
              end
          | _, _ => None
          end
      | _, _ => None
      end
  | None => None
  end.

(* layer (i): the same from the file's view *)
Definition view_bytes (v : aval) : option (list N) :=
  match v with
  | AObj (Some KFile) _ [a1; a2] =>
      match a1, a2 with
      | ALeaf [w], AData _ => match w with AData b => Some b | _ => None end
      | _, _ => None
      end
  | _ => None
  end.

Section Ops.
  Variables P A : Type.
  Variable blk : list N -> list N -> list N -> list N * list N.
  Variable req : P -> list N -> list N -> list N.
  Variable fin : P -> list N -> list N -> list N * A.
  Variable dflt : A.

  Definition stream_state (h : heap) (zs : addr) : list N :=
    match fields_of h zs with
    | [w] => match w with VData z => z | _ => [] end
    | _ => []
    end.

  (* layer (ii): one cmp->do_block through the shared compressor object *)
  Definition cmp_block (h : heap) (cm : addr) (inp : list N) : option (heap * list N) :=
    match get h cm with
    | Some c =>
        match dkind c with
        | Some kc =>
            match c_fields c with
            | [v1; v2] =>
                match v1, v2 with
                | VOwn zs, VData cfg =>
                    if is_stream_kind kc then
                      Some (upd h zs (Live (mkC None [VData (fst (blk cfg (stream_state h zs) inp))])),
                            snd (blk cfg (stream_state h zs) inp))
                    else None
                | VNull, VData cfg => if is_stream_kind kc then Some (h, snd (blk cfg [] inp)) else None
                | _, _ => None
                end
            | [v1] =>
                match v1 with
                | VData cfg => if is_flat_kind kc then Some (h, snd (blk cfg [] inp)) else None
                | _ => None
                end
            | _ => None
            end
        | None => None
        end
    | None => None
    end.

  (* layer (i): do_block as a function of (configuration, input) *)
  Definition view_block (v : aval) (inp : list N) : option (list N) :=
    match v with
    | AObj (Some kc) _ [a1; a2] =>
        match a1, a2 with
        | ANull, AData cfg => if is_stream_kind kc then Some (snd (blk cfg [] inp)) else None
        | _, _ => None
        end
    | AObj (Some kc) _ [a1] =>
        match a1 with
        | AData cfg => if is_flat_kind kc then Some (snd (blk cfg [] inp)) else None
        | _ => None
        end
    | _ => None
    end.

  (* ---- meta reader: [D state; Ref file; Ref cmp] ---- *)
  Definition run_meta (p : P) (h : heap) (x : addr) : heap * A :=
    match get h x with
    | Some c =>
        match c_fields c with
        | [v1; v2; v3] =>
            match v1, v2, v3 with
            | VData st, VRef fl, VRef cm =>
                match file_bytes h fl with
                | Some b =>
                    match cmp_block h cm (req p st b) with
                    | Some (h1, out) =>
                        (upd h1 x (Live (mkC (c_hdr c) [VData (fst (fin p st out)); VRef fl; VRef cm])),
                         snd (fin p st out))
                    | None => (h, dflt)
                    end
                | None => (h, dflt)
                end
            | _, _, _ => (h, dflt)
            end
        | _ => (h, dflt)
        end
    | None => (h, dflt)
    end.

  Definition step_meta (env : list aval) (p : P) (a : aval) : aval * A :=
    match a, env with
    | AObj d c [a1; a2; a3], [vf; vc] =>
        match a1, a2, a3 with
        | AData st, ARef fl, ARef cm =>
            match view_bytes vf with
            | Some b =>
                match view_block vc (req p st b) with
                | Some out => (AObj d c [AData (fst (fin p st out)); ARef fl; ARef cm], snd (fin p st out))
                | None => (a, dflt)
                end
            | None => (a, dflt)
            end
        | _, _, _ => (a, dflt)
        end
    | _, _ => (a, dflt)
    end.
End Ops.
