(* C19, layer (ii): an explicit heap of cells for libsquashfs objects.
   Definitions only (proofs: ObjProofs*.v).

   Addresses are indices into a list of slots; allocation appends, a freed
   slot stays behind as a tombstone, so an address is never reused and
   use-after-free / double free are detectable.  A cell is a struct: an
   optional [sqfs_object_t] header (refcount, destroy and copy function
   pointers - [option], NULL is representable) and a list of fields.  The
   role a pointer field plays in the C struct is recorded in its tag:

     VData  plain bytes (scalars, inline arrays)        memcpy is a copy
     VNull  NULL in a pointer field
     VInt   non-owning pointer to a cell of the same object (kv_block_first,
            rbtree left/right, key_context, hash-slot -> bucket ...)
     VOwn   pointer to a header-less cell this struct must free
     VOwnL  a set of header-less cells this struct must free (tree nodes,
            string buckets)
     VObj   pointer to a reference-counted sub-object this struct must drop
            (and that nobody else references)
     VRef   counted reference to an object shared with others (file,
            compressor): taken with sqfs_grab, released with sqfs_drop

   A memcpy of a struct copies tags and addresses verbatim: two VOwn with the
   same address are an aliasing bug that shows as a double free on release. *)
From Coq Require Import List NArith Bool Arith.
Import ListNotations.

Definition addr := nat.

(* identity of the C functions stored in destroy/copy slots *)
Inductive kind :=
| KXz | KLz4 | KLzma           (* flat compressors *)
| KGzip | KZstd                (* compressors owning a library stream/context *)
| KFile                        (* read-only stdio file: owns a descriptor *)
| KMeta                        (* meta reader *)
| KFrag | KId                  (* fragment table, id table *)
| KData                        (* data reader *)
| KDir                         (* directory reader *)
| KXrd                         (* xattr reader *)
| KXwr.                        (* xattr writer *)

Definition kind_eqb (a b : kind) : bool :=
  match a, b with
  | KXz, KXz | KLz4, KLz4 | KLzma, KLzma | KGzip, KGzip | KZstd, KZstd | KFile, KFile
  | KMeta, KMeta | KFrag, KFrag | KId, KId | KData, KData | KDir, KDir | KXrd, KXrd
  | KXwr, KXwr => true
  | _, _ => false
  end.

Inductive val :=
| VData (d : list N)
| VNull
| VInt (a : addr)
| VOwn (a : addr)
| VOwnL (l : list addr)
| VObj (a : addr)
| VRef (a : addr).

Record header := mkH { h_rc : N; h_destroy : option kind; h_copy : option kind }.
Record cell := mkC { c_hdr : option header; c_fields : list val }.
Inductive slot := Live (c : cell) | Freed.
Definition heap := list slot.

Inductive crash :=
| NullCall        (* call through a NULL destroy pointer *)
| UseAfterFree    (* access to a freed cell *)
| DoubleFree      (* free of a freed cell *)
| WildPtr         (* access outside the heap *)
| BadShape.       (* the model has no meaning for this (ill-typed cell); proved unreachable *)

Inductive res (A : Type) :=
| Ok (a : A)
| Crash (c : crash)
| OutOfFuel.
Arguments Ok {A} a.
Arguments Crash {A} c.
Arguments OutOfFuel {A}.

Definition bind {A B} (r : res A) (f : A -> res B) : res B :=
  match r with
  | Ok a => f a
  | Crash c => Crash c
  | OutOfFuel => OutOfFuel
  end.
Notation "x <- e ;; f" := (bind e (fun x => f)) (at level 61, e at next level, right associativity).

(* ---- primitives ---- *)
Definition load (h : heap) (a : addr) : res cell :=
  match nth_error h a with
  | Some (Live c) => Ok c
  | Some Freed => Crash UseAfterFree
  | None => Crash WildPtr
  end.

Fixpoint upd (h : heap) (a : addr) (s : slot) : heap :=
  match h, a with
  | [], _ => []
  | _ :: t, O => s :: t
  | x :: t, S a' => x :: upd t a' s
  end.

Definition store (h : heap) (a : addr) (c : cell) : res heap :=
  match nth_error h a with
  | Some (Live _) => Ok (upd h a (Live c))
  | Some Freed => Crash UseAfterFree
  | None => Crash WildPtr
  end.

Definition alloc (h : heap) (c : cell) : heap * addr := (h ++ [Live c], length h).

Definition free (h : heap) (a : addr) : res heap :=
  match nth_error h a with
  | Some (Live _) => Ok (upd h a Freed)
  | Some Freed => Crash DoubleFree
  | None => Crash WildPtr
  end.

Fixpoint free_list (h : heap) (l : list addr) : res heap :=
  match l with
  | [] => Ok h
  | a :: t => h' <- free h a ;; free_list h' t
  end.

(* a live cell, for specifications *)
Definition get (h : heap) (a : addr) : option cell :=
  match nth_error h a with
  | Some (Live c) => Some c
  | _ => None
  end.

Definition is_freed (h : heap) (a : addr) : Prop := nth_error h a = Some Freed.

(* ---- sqfs_grab / header access ---- *)
Definition set_rc (c : cell) (rc : N) : option cell :=
  match c_hdr c with
  | Some hd => Some (mkC (Some (mkH rc (h_destroy hd) (h_copy hd))) (c_fields c))
  | None => None
  end.

(* sqfs_grab(obj): obj->refcount += 1 *)
Definition sqfs_grab (h : heap) (a : addr) : res heap :=
  c <- load h a ;;
  match c_hdr c with
  | None => Crash BadShape
  | Some hd =>
      store h a (mkC (Some (mkH (h_rc hd + 1) (h_destroy hd) (h_copy hd))) (c_fields c))
  end.

(* ---- which addresses a field owns / references ---- *)
Definition own1 (v : val) : list addr := match v with VOwn a => [a] | VOwnL l => l | _ => [] end.
Definition sub1 (v : val) : list addr := match v with VObj a => [a] | _ => [] end.
Definition ref1 (v : val) : list addr := match v with VRef a => [a] | _ => [] end.
Definition owned_of (fs : list val) : list addr := flat_map own1 fs.
Definition subs_of (fs : list val) : list addr := flat_map sub1 fs.
Definition refs_of (fs : list val) : list addr := flat_map ref1 fs.
