(* C19: operations on original and copy that go through SHARED objects.

   [ObjOps.local_op] demands that an operation leaves every cell outside the object's
   footprint identical.  No read operation of a reader meets that: it calls
   cmp->do_block on the compressor the copy shares with the original, and do_block
   works on the stream cell owned by that shared compressor.  [shared_preserving_op]
   is the weaker notion that is still sufficient:
   - cells outside the object's footprint AND outside the shared objects are untouched;
   - of every shared object the top cell (header, reference count, hooks,
     configuration, pointers) is untouched, it stays a closed well-formed object with
     the same cells, and a chosen VIEW of its abstraction is unchanged (for a gzip /
     zstd compressor: everything but the stream cell - ObjGenDefs.cfg_view); the cells
     it owns (scratch / stream state) may change;
   - answer and new abstract value are a function of the object's abstract value AND
     the views of the shared objects it references ([step] takes them as a list).
   For every schedule of such operations on the two objects of a pair (no [slack]
   needed: [pair_inv_g]) each side's answers are those of the layer-(i) machine run on
   that side's own operations, i.e. those of running that side alone. *)
From Coq Require Import List NArith Bool Arith Lia.
From SqfsV Require Import C19.ObjHeap C19.ObjHooks C19.ObjKinds C19.ObjSpec C19.ObjBase C19.ObjFrame
     C19.ObjDrop C19.ObjCopy3 C19.ObjPair C19.ObjOps C19.ObjGenDefs C19.ObjGenBase C19.ObjGenPair.
Import ListNotations.

(* a closed object all of whose cells are unchanged *)
Lemma closed_frame : forall m h h' s,
    closed_obj m h s -> (forall x, In x (fp m h s) -> nth_error h' x = nth_error h x) ->
    closed_obj m h' s /\ fp m h' s = fp m h s /\ abs_obj m h' s = abs_obj m h s.
Proof.
  intros m h h' s (ks & W & ND & AR) A.
  assert (EF : fp m h' s = fp m h s) by (apply fp_frame; assumption).
  assert (ER : all_refs m h' s = all_refs m h s) by (apply all_refs_frame; assumption).
  split; [|split; [assumption|apply abs_frame; assumption]].
  exists ks. split; [|split; [rewrite EF; assumption|rewrite ER; assumption]].
  eapply wf_frame; eauto. rewrite AR. intros ? [].
Qed.

Definition only {A} (b : bool) (l : list (bool * A)) : list (bool * A) :=
  filter (fun x => Bool.eqb (fst x) b) l.

Lemma side_only : forall A b (l : list (bool * A)), side b (only b l) = side b l.
Proof.
  intros A b l. unfold side, only. f_equal. induction l as [|x l IH]; simpl; [reflexivity|].
  destruct (Bool.eqb (fst x) b) eqn:E; simpl; [rewrite E; f_equal|]; assumption.
Qed.

Section Shared.
  Variables m n : nat.
  Variable k : kind.
  Variable view : aval -> aval.
  Variables op ans : Type.
  Variable run : op -> heap -> addr -> heap * ans.            (* layer (ii) *)
  Variable step : list aval -> op -> aval -> aval * ans.      (* layer (i) *)

  (* the views of the shared objects an object references, in reference order *)
  Definition senv (h : heap) (R : list addr) : list aval := map (fun s => view (abs_obj m h s)) R.

  Definition shared_preserving_op : Prop :=
    forall p h x h' r,
      obj_inv m n h x k -> run p h x = (h', r) ->
      length h <= length h' /\
      (forall y, y < length h -> ~ In y (fp n h x) -> ~ In y (shared_fp m h (all_refs n h x)) ->
                 nth_error h' y = nth_error h y) /\
      (forall s, In s (all_refs n h x) ->
                 nth_error h' s = nth_error h s /\ closed_obj m h' s /\ fp m h' s = fp m h s /\
                 view (abs_obj m h' s) = view (abs_obj m h s)) /\
      wf_obj n h' x k /\ NoDup (fp n h' x) /\
      (forall y, In y (fp n h' x) -> In y (fp n h x) \/ length h <= y) /\
      all_refs n h' x = all_refs n h x /\
      rc_of h' x = rc_of h x /\
      abs_obj n h' x = fst (step (senv h (all_refs n h x)) p (abs_obj n h x)) /\
      r = snd (step (senv h (all_refs n h x)) p (abs_obj n h x)).

  Hypothesis run_sp : shared_preserving_op.

  Lemma op_step_shared : forall p h x y h' r,
      pair_inv_g m n h x y k -> run p h x = (h', r) ->
      pair_inv_g m n h' x y k /\
      abs_obj n h' y = abs_obj n h y /\ rc_of h' y = rc_of h y /\ rc_of h' x = rc_of h x /\
      all_refs n h' x = all_refs n h x /\ all_refs n h' y = all_refs n h y /\
      senv h' (all_refs n h x) = senv h (all_refs n h x) /\
      senv h' (all_refs n h y) = senv h (all_refs n h y) /\
      abs_obj n h' x = fst (step (senv h (all_refs n h x)) p (abs_obj n h x)) /\
      r = snd (step (senv h (all_refs n h x)) p (abs_obj n h x)).
  Proof.
    intros p h x y h' r (Wx & Wy & E) Er.
    pose proof E as (C & (ND & D1 & D2) & Cn).
    destruct (run_sp p h x h' r (conj Wx (env_ok_app_l _ _ _ _ _ _ E)) Er)
      as (Len & Fr & Shp & Wx' & NDx' & Fp' & Rf' & Rc' & Ab' & Rr).
    assert (Lty : forall z, In z (fp n h y) -> z < length h) by (intros; eapply wf_fp_lt; eauto).
    assert (InS : forall z, In z (shared_fp m h (all_refs n h x)) ->
                            exists t, In t (all_refs n h x) /\ In z (fp m h t)).
    { intros z Hz. unfold shared_fp in Hz. apply in_flat_map in Hz. exact Hz. }
    assert (Agy : forall z, In z (fp n h y) -> nth_error h' z = nth_error h z).
    { intros z Hz. apply Fr; [auto| |].
      - intro Hx. eapply NoDup_app_disj; eauto.
      - intro Hs. destruct (InS z Hs) as (t & Ht & Hzt).
        apply (D1 t z); [apply in_or_app; auto|assumption|apply in_or_app; auto]. }
    assert (Sall : forall s, In s (all_refs n h x ++ all_refs n h y) ->
                             nth_error h' s = nth_error h s /\ closed_obj m h' s /\ fp m h' s = fp m h s /\
                             view (abs_obj m h' s) = view (abs_obj m h s)).
    { intros s Hs. destruct (in_dec Nat.eq_dec s (all_refs n h x)) as [Ix|Nx]; [apply Shp; assumption|].
      assert (A : forall z, In z (fp m h s) -> nth_error h' z = nth_error h z).
      { intros z Hz. apply Fr.
        - eapply closed_lt; [apply C; exact Hs|exact Hz].
        - intro Hx. apply (D1 s z Hs Hz). apply in_or_app; auto.
        - intro Hsf. destruct (InS z Hsf) as (t & Ht & Hzt).
          assert (Ne : t <> s) by (intro; subst; contradiction).
          apply (D2 t s z); auto. apply in_or_app; auto. }
      destruct (closed_frame m h h' s (C s Hs) A) as (C1 & EF & EA).
      split; [apply A; apply closed_in_fp; auto|]. split; [assumption|]. split; [assumption|].
      rewrite EA. reflexivity. }
    assert (EFy : fp n h' y = fp n h y) by (apply fp_frame; assumption).
    assert (ERy : all_refs n h' y = all_refs n h y) by (apply all_refs_frame; assumption).
    assert (SE : forall R, (forall s, In s R -> In s (all_refs n h x ++ all_refs n h y)) ->
                           senv h' R = senv h R).
    { intros R HR. unfold senv. apply map_ext_in. intros s Hs. apply (Sall s (HR s Hs)). }
    split; [|split; [apply abs_frame; assumption|split; [|split; [assumption|split; [assumption|
             split; [assumption|split; [|split; [|split; assumption]]]]]]]].
    - split; [assumption|]. split.
      { eapply wf_frame; eauto. intros s Hs.
        destruct (Sall s (in_or_app _ _ _ (or_intror Hs))) as (_ & C1 & _). eapply closed_shared_ok; eauto. }
      rewrite EFy, ERy, Rf'. split; [|split; [split; [|split]|]].
      + intros s Hs. apply (Sall s Hs).
      + apply NoDup_app_intro.
        * assumption.
        * eapply NoDup_app_r; eauto.
        * intros z Hz Hy. destruct (Fp' z Hz) as [Ho|Hn].
          -- eapply NoDup_app_disj; eauto.
          -- specialize (Lty z Hy). lia.
      + intros s z Hs Hz Hf. destruct (Sall s Hs) as (_ & _ & EF & _). rewrite EF in Hz.
        apply in_app_or in Hf. destruct Hf as [Hf|Hf].
        * destruct (Fp' z Hf) as [Ho|Hn].
          -- apply (D1 s z Hs Hz). apply in_or_app; auto.
          -- pose proof (closed_lt m h s z (C s Hs) Hz). lia.
        * apply (D1 s z Hs Hz). apply in_or_app; auto.
      + intros s t z Hs Ht Ne Hz. destruct (Sall s Hs) as (_ & _ & EFs & _).
        destruct (Sall t Ht) as (_ & _ & EFt & _). rewrite EFs in Hz. rewrite EFt. apply (D2 s t z); auto.
      + intros s Hs. destruct (Sall s Hs) as (Es & _). rewrite (rc_same h h' s Es). apply Cn; assumption.
    - apply rc_same. apply Agy. eapply wf_in_fp; eauto.
    - apply SE. intros s Hs. apply in_or_app; auto.
    - apply SE. intros s Hs. apply in_or_app; auto.
  Qed.

  Theorem interleaving_independent_shared : forall s h o c h' rs,
      pair_inv_g m n h o c k -> exec op ans run s h o c = (h', rs) ->
      pair_inv_g m n h' o c k /\
      rc_of h' o = rc_of h o /\ rc_of h' c = rc_of h c /\
      all_refs n h' o = all_refs n h o /\ all_refs n h' c = all_refs n h c /\
      senv h' (all_refs n h o) = senv h (all_refs n h o) /\
      senv h' (all_refs n h c) = senv h (all_refs n h c) /\
      abs_obj n h' o = fst (exec_abs op ans (step (senv h (all_refs n h o))) (side true s) (abs_obj n h o)) /\
      side true rs = snd (exec_abs op ans (step (senv h (all_refs n h o))) (side true s) (abs_obj n h o)) /\
      abs_obj n h' c = fst (exec_abs op ans (step (senv h (all_refs n h c))) (side false s) (abs_obj n h c)) /\
      side false rs = snd (exec_abs op ans (step (senv h (all_refs n h c))) (side false s) (abs_obj n h c)).
  Proof.
    induction s as [|[b p] s IH]; intros h o c h' rs P E; simpl in E.
    - inversion E; subst. simpl. auto 12.
    - destruct (run p h (if b then o else c)) as [h1 r] eqn:E1.
      destruct (exec op ans run s h1 o c) as [h2 rs2] eqn:E2. inversion E; subst h2 rs. clear E.
      destruct b.
      + destruct (op_step_shared p h o c h1 r P E1) as (P1 & Ac & Rc & Ro & Rfo & Rfc & So & Sc & Ao & Rr).
        destruct (IH h1 o c h' rs2 P1 E2) as (P2 & R1 & R2 & F1 & F2 & S1 & S2 & A1 & T1 & A2 & T2).
        rewrite Rfo, So in *. rewrite Rfc, Sc in *.
        unfold side in *. simpl. rewrite Ao in A1, T1. rewrite Ac in A2, T2.
        destruct (step (senv h (all_refs n h o)) p (abs_obj n h o)) as [a1 r1] eqn:Es. simpl in *.
        destruct (exec_abs op ans (step (senv h (all_refs n h o)))
                           (map snd (filter (fun x => Bool.eqb (fst x) true) s)) a1) as [a2 rs'] eqn:Ea.
        simpl in *. subst r.
        split; [assumption|]. split; [congruence|]. split; [congruence|]. split; [congruence|].
        split; [congruence|]. split; [congruence|]. split; [congruence|].
        split; [assumption|]. split; [f_equal; assumption|]. split; assumption.
      + destruct (op_step_shared p h c o h1 r (pair_sym_g _ _ _ _ _ _ P) E1)
          as (P1 & Ao & Ro & Rc & Rfc & Rfo & Sc & So & Ac & Rr).
        apply pair_sym_g in P1.
        destruct (IH h1 o c h' rs2 P1 E2) as (P2 & R1 & R2 & F1 & F2 & S1 & S2 & A1 & T1 & A2 & T2).
        rewrite Rfo, So in *. rewrite Rfc, Sc in *.
        unfold side in *. simpl. rewrite Ao in A1, T1. rewrite Ac in A2, T2.
        destruct (step (senv h (all_refs n h c)) p (abs_obj n h c)) as [a1 r1] eqn:Es. simpl in *.
        destruct (exec_abs op ans (step (senv h (all_refs n h c)))
                           (map snd (filter (fun x => Bool.eqb (fst x) false) s)) a1) as [a2 rs'] eqn:Ea.
        simpl in *. subst r.
        split; [assumption|]. split; [congruence|]. split; [congruence|]. split; [congruence|].
        split; [congruence|]. split; [congruence|]. split; [congruence|].
        split; [assumption|]. split; [assumption|]. split; [assumption|]. f_equal; assumption.
  Qed.

  (* each object's answers in an interleaving are the answers it gives when it is
     run alone (the other object's operations removed from the schedule) *)
  Corollary interleaving_equals_solo : forall s h o c h' rs h1 rs1 h2 rs2,
      pair_inv_g m n h o c k ->
      exec op ans run s h o c = (h', rs) ->
      exec op ans run (only true s) h o c = (h1, rs1) ->
      exec op ans run (only false s) h o c = (h2, rs2) ->
      side true rs = side true rs1 /\ side false rs = side false rs2.
  Proof.
    intros s h o c h' rs h1 rs1 h2 rs2 P E E1 E2.
    destruct (interleaving_independent_shared s h o c h' rs P E) as (_ & _ & _ & _ & _ & _ & _ & _ & T1 & _ & T2).
    destruct (interleaving_independent_shared _ h o c h1 rs1 P E1) as (_ & _ & _ & _ & _ & _ & _ & _ & U1 & _ & _).
    destruct (interleaving_independent_shared _ h o c h2 rs2 P E2) as (_ & _ & _ & _ & _ & _ & _ & _ & _ & _ & U2).
    rewrite side_only in U1, U2. split; congruence.
  Qed.
End Shared.

(* the new notion is weaker than [local_op]: every local operation is shared-preserving
   (for any view, with a machine that ignores the shared views) *)
Theorem local_is_shared_preserving : forall m n k view op ans run step,
    local_op n k op ans run step ->
    shared_preserving_op m n k view op ans run (fun _ => step).
Proof.
  intros m n k view op ans run step L p h x h' r (W & E) Er.
  pose proof E as (C & (ND & D1 & D2) & Cn).
  assert (Sep : sep_obj n h x).
  { split; [assumption|]. intros s Hs. apply (D1 s s Hs). apply closed_in_fp. auto. }
  destruct (L p h x h' r W Sep Er) as (Len & Fr & W' & (ND' & _) & Fp' & Rf & Rc & Ab & Rr).
  split; [assumption|]. split; [intros y Hy Ny _; apply Fr; assumption|].
  split; [|auto 10].
  intros s Hs.
  assert (A : forall z, In z (fp m h s) -> nth_error h' z = nth_error h z).
  { intros z Hz. apply Fr; [eapply closed_lt; eauto|]. intro Hx. apply (D1 s z Hs Hz Hx). }
  destruct (closed_frame m h h' s (C s Hs) A) as (C1 & EF & EA).
  split; [apply A; apply closed_in_fp; auto|]. split; [assumption|]. split; [assumption|].
  rewrite EA. reflexivity.
Qed.
