(* C19: sqfs_drop of a well-formed, exclusively held object WITHOUT [slack]: the
   references the object holds may be the last ones.  A shared object whose count
   reaches 0 is released through its own destroy hook (as sqfs_drop does); the drop
   frees exactly the object's footprint and the footprints of the shared objects
   that die with it, takes one count per reference from the shared objects that
   survive, touches nothing else and never crashes.  (Generalises ObjDrop.drop_ok,
   which is used here for the shared objects themselves.) *)
From Coq Require Import List NArith Bool Arith Lia.
From SqfsV Require Import C19.ObjHeap C19.ObjHooks C19.ObjKinds C19.ObjSpec C19.ObjBase C19.ObjFrame
     C19.ObjDrop C19.ObjCopy3 C19.ObjGenDefs C19.ObjGenBase.
Import ListNotations.

Lemma released_equiv_out : forall h h' F R F' R',
    (forall x, In x F <-> In x F') -> (forall x, ~ In x F -> cnt R x = cnt R' x) ->
    released h h' F R -> released h h' F' R'.
Proof.
  intros h h' F R F' R' EF ER (L & A & B). split; [assumption|]. split.
  - intros x Hx. apply A, EF; assumption.
  - intros x Hx. assert (N : ~ In x F) by (intro; apply Hx, EF; assumption).
    rewrite <- (ER x N). apply B. assumption.
Qed.

Lemma dead_fp_nil : forall m h, dead_fp m h [] = [].
Proof. reflexivity. Qed.

Lemma cnt_single : forall s, cnt [s] s = 1.
Proof. intros s. unfold cnt. simpl. destruct (Nat.eq_dec s s); congruence. Qed.

Lemma dead_single : forall h s,
    dead h [s] = if N.eqb 1 (rc_of h s) then [s] else [].
Proof.
  intros h s. unfold dead. cbn [filter]. rewrite cnt_single.
  change (N.of_nat 1) with 1%N. destruct (N.eqb 1 (rc_of h s)); reflexivity.
Qed.

Section DropG.
  Variable DK : kind -> list daction.
  Hypothesis DKok : forall k, Forall2 (fun t d => dact_ok t d = true) (LAY k) (DK k).
  Variable m : nat.     (* nesting depth of the shared objects *)

  Definition drop_spec_g (fuel n : nat) : Prop :=
    forall h a k,
      wf_obj n h a k -> env_ok m h (fp n h a) (all_refs n h a) -> (rc_of h a <= 1)%N ->
      exists h', sqfs_drop DK fuel h a = Ok h' /\
                 released h h' (fp n h a ++ dead_fp m h (all_refs n h a)) (all_refs n h a).

  (* dropping one reference to a shared object: decrement, or - if it is the last one -
     release of the shared object *)
  Lemma drop_ref_g : forall fuel h s,
      m + 1 <= fuel -> closed_obj m h s -> (1 <= rc_of h s)%N ->
      exists h', sqfs_drop DK fuel h s = Ok h' /\ released h h' (dead_fp m h [s]) [s].
  Proof.
    intros fuel h s Hf Cl Hrc. unfold dead_fp. rewrite dead_single.
    destruct (N.eqb_spec 1 (rc_of h s)) as [E1|N1].
    - destruct Cl as (ks & W & ND & AR).
      destruct (drop_ok DK DKok m fuel Hf h s ks W) as (h' & E & R).
      { split; [assumption|]. rewrite AR. intros ? []. }
      { lia. }
      { rewrite AR. intros ? []. }
      exists h'. split; [assumption|]. rewrite AR in R. simpl. rewrite app_nil_r.
      eapply released_equiv_out; [| |exact R].
      + tauto.
      + intros x Hx. unfold cnt. simpl. destruct (Nat.eq_dec s x) as [<-|_]; [|reflexivity].
        exfalso. apply Hx. eapply wf_in_fp; eauto.
    - destruct fuel as [|fuel]; [lia|].
      destruct (drop_shared DK fuel h s (closed_shared_ok _ _ _ Cl)) as (h' & E & R); [lia|].
      exists h'. split; [assumption|]. simpl. exact R.
  Qed.

  Lemma release_field_g : forall n fuel,
      drop_spec_g fuel n -> m + 1 <= fuel ->
      forall v t d h own,
        has_type (W n h) h own v t -> dact_ok t d = true ->
        env_ok m h (fp1 (fp n h) v) (refs1 (all_refs n h) v) ->
        exists h1, release_field (sqfs_drop DK fuel) d v h = Ok h1 /\
                   released h h1 (fp1 (fp n h) v ++ dead_fp m h (refs1 (all_refs n h) v))
                            (refs1 (all_refs n h) v).
  Proof.
    intros n fuel IHd Hfuel v t d h own Tv Dv E.
    destruct t, v; simpl in Tv; try contradiction; destruct d; simpl in Dv; try discriminate;
      cbn [fp1 refs1 release_field] in E |- *;
      try (exists h; split; [reflexivity|rewrite dead_fp_nil; apply released_refl]).
    - (* owned cell *)
      destruct Tv as (lf & G & _). destruct (released_free h a _ G) as (h1 & F & R).
      exists h1. split; [assumption|]. rewrite dead_fp_nil, app_nil_r. assumption.
    - (* owned cells *)
      rewrite dead_fp_nil, app_nil_r. apply released_free_list.
      + destruct E as (_ & (ND & _) & _). exact ND.
      + intros x Hx. rewrite Forall_forall in Tv. destruct (Tv x Hx) as (lf & G & _). eauto.
    - (* sub-object *)
      destruct Tv as [W1 R1]. apply IHd with (k := k); auto. rewrite R1. lia.
    - (* shared reference *)
      destruct E as (C & _ & Cn).
      destruct (drop_ref_g fuel h a Hfuel (C a (or_introl eq_refl))) as (h1 & E1 & R1).
      { specialize (Cn a (or_introl eq_refl)). rewrite cnt_single in Cn. lia. }
      exists h1. split; [assumption|]. exact R1.
  Qed.

  Lemma release_fields_g : forall n fuel,
      drop_spec_g fuel n -> m + 1 <= fuel ->
      forall fs lay das h own,
        Forall2 (has_type (W n h) h own) fs lay ->
        Forall2 (fun t d => dact_ok t d = true) lay das ->
        env_ok m h (flat_map (fp1 (fp n h)) fs) (flat_map (refs1 (all_refs n h)) fs) ->
        exists h', release_fields (sqfs_drop DK fuel) das fs h = Ok h' /\
                   released h h' (flat_map (fp1 (fp n h)) fs ++
                                  dead_fp m h (flat_map (refs1 (all_refs n h)) fs))
                            (flat_map (refs1 (all_refs n h)) fs).
  Proof.
    intros n fuel IHd Hfuel. induction fs as [|v fs IH]; intros lay das h own T D E.
    - exists h. split; [destruct das; reflexivity|]. simpl. apply released_refl.
    - inversion T as [|v0 t fs0 lay' Tv Tfs]; subst. inversion D as [|t0 d lay0 das' Dv Dfs]; subst.
      cbn [flat_map] in E |- *.
      destruct (release_field_g n fuel IHd Hfuel v t d h own Tv Dv (env_ok_app_l _ _ _ _ _ _ E))
        as (h1 & E1 & R1).
      destruct (env_survives m h h1 _ _ _ _ R1 E) as (A & B & E2 & Dd).
      assert (S1 : forall s, In s (flat_map (refs1 (all_refs n h)) fs) -> shared_ok h1 s).
      { intros s Hs. destruct (B s Hs) as (_ & _ & C1 & _). eapply closed_shared_ok; eauto. }
      destruct (fields_frame n h h1 own fs lay' A S1 Tfs) as (T1 & EF & ER).
      destruct (IH lay' das' h1 own T1 Dfs) as (h2 & E2' & R2).
      { rewrite EF, ER. exact E2. }
      exists h2. split.
      + simpl. rewrite E1. simpl. exact E2'.
      + rewrite EF, ER in R2.
        eapply released_equiv; [| |eapply released_trans; [exact R1|exact R2]].
        * intros x. rewrite !in_app_iff. pose proof (Dd x) as Hd. tauto.
        * reflexivity.
  Qed.

  Theorem drop_ok_g : forall n fuel, n + m + 1 <= fuel -> drop_spec_g fuel n.
  Proof.
    induction n as [|n IH]; intros fuel Hf h a k Wf E Hrc; [destruct Wf|].
    destruct fuel as [|fuel]; [lia|].
    assert (IHd : drop_spec_g fuel n) by (apply IH; lia).
    destruct Wf as (rc & fs & G & T).
    assert (Hfs : fields_of h a = fs) by (unfold fields_of; rewrite G; reflexivity).
    rewrite fp_S, all_refs_S, Hfs in E.
    pose proof E as (_ & (ND & D1 & _) & _). apply NoDup_cons_iff in ND. destruct ND as [Na ND'].
    unfold rc_of in Hrc. rewrite G in Hrc. simpl in Hrc.
    assert (E' : env_ok m h (flat_map (fp1 (fp n h)) fs) (flat_map (refs1 (all_refs n h)) fs)).
    { eapply env_ok_F_incl; [exact E|assumption|intros; right; assumption]. }
    destruct (release_fields_g n fuel IHd ltac:(lia) fs (LAY k) (DK k) h (a :: owned_of fs) T (DKok k) E')
      as (h1 & E1 & R1).
    assert (Ga : get h1 a = Some (mkC (Some (mkH rc (Some k) (Some k))) fs)).
    { rewrite <- G. apply get_same. destruct R1 as (_ & _ & B). rewrite B.
      - rewrite (env_F_cnt0 _ _ _ _ a E (or_introl eq_refl)). apply option_map_sub0.
      - intro Hf'. apply in_app_or in Hf'. destruct Hf' as [Hf'|Hf']; [contradiction|].
        unfold dead_fp in Hf'. apply in_flat_map in Hf'. destruct Hf' as (t & Ht & Hx).
        unfold dead in Ht. apply filter_In in Ht. destruct Ht as [Ht _].
        apply (D1 t a Ht Hx). left; reflexivity. }
    destruct (released_free h1 a _ Ga) as (h2 & E2 & R2).
    exists h2. split.
    - simpl. rewrite (load_of_get _ _ _ G). simpl.
      destruct (rc <=? 1)%N eqn:Er; [|apply N.leb_gt in Er; lia].
      unfold destroy_obj. rewrite (load_of_get _ _ _ G). simpl. rewrite E1. simpl. exact E2.
    - rewrite fp_S, all_refs_S, Hfs.
      eapply released_equiv; [| |eapply released_trans; [exact R1|exact R2]].
      + intros x. rewrite !in_app_iff. simpl. rewrite ?in_app_iff. tauto.
      + intros x. rewrite app_nil_r. reflexivity.
  Qed.
End DropG.
