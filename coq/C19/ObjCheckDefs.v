(* C19: decidable versions of the well-formedness predicates (run by the tie on
   every heap it builds from a probe's shape report, so that the theorems apply
   to exactly the heaps that are compared with the C objects).  Definitions only. *)
From Coq Require Import List NArith Bool Arith.
From SqfsV Require Import C19.ObjHeap C19.ObjHooks C19.ObjKinds C19.ObjSpec.
Import ListNotations.

Definition lval_okb (own : list addr) (v : val) : bool :=
  match v with
  | VData _ | VNull => true
  | VInt x => mem x own
  | _ => false
  end.

Definition no_intb (v : val) : bool := match v with VInt _ => false | _ => true end.

Fixpoint mask_okb (bs : list bool) (fs : list val) : bool :=
  match bs, fs with
  | b :: bs', v :: fs' => (b || no_intb v) && mask_okb bs' fs'
  | [], _ => forallb no_intb fs
  | _, [] => true
  end.

Definition tm_okb (tm : trmode) (fs : list val) : bool :=
  match tm with
  | TrNone => forallb no_intb fs
  | TrAll => true
  | TrMask bs => mask_okb bs fs
  end.

Definition leaf_okb (h : heap) (own : list addr) (tm : trmode) (a : addr) : bool :=
  match get h a with
  | Some (mkC None fs) => forallb (lval_okb own) fs && tm_okb tm fs
  | _ => false
  end.

Definition shared_okb (h : heap) (s : addr) : bool :=
  match get h s with
  | Some (mkC (Some _) _) => true
  | _ => false
  end.

Definition has_typeb (wfsub : addr -> kind -> bool) (h : heap) (own : list addr) (v : val) (t : ftype)
  : bool :=
  match t, v with
  | TData, VData _ => true
  | TInt, VNull => true
  | TInt, VInt x => mem x own
  | TOwn _, VNull => true
  | TOwn tm, VOwn a => leaf_okb h own tm a
  | TOwnL tm, VOwnL l => forallb (leaf_okb h own tm) l
  | TObj _, VNull => true
  | TObj k, VObj a => wfsub a k
  | TRef, VNull => true
  | TRef, VRef s => shared_okb h s
  | _, _ => false
  end.

Fixpoint wfb (n : nat) (h : heap) (a : addr) (k : kind) : bool :=
  match n with
  | O => false
  | S n' =>
      match get h a with
      | Some (mkC (Some (mkH _ (Some k1) (Some k2))) fs) =>
          kind_eqb k k1 && kind_eqb k k2 &&
          forallb2 (has_typeb (fun s ks => wfb n' h s ks && N.eqb (rc_of h s) 1) h (a :: owned_of fs))
                   fs (LAY k)
      | _ => false
      end
  end.

Fixpoint nodupb (l : list addr) : bool :=
  match l with
  | [] => true
  | x :: t => negb (mem x t) && nodupb t
  end.

Definition sepb (n : nat) (h : heap) (a : addr) : bool :=
  nodupb (fp n h a) && forallb (fun s => negb (mem s (fp n h a))) (all_refs n h a).

Definition slackb (h : heap) (refs : list addr) : bool :=
  forallb (fun s => N.ltb (N.of_nat (cnt refs s)) (rc_of h s)) refs.

(* everything the theorems ask of an object that is about to be copied *)
Definition copyable (n : nat) (h : heap) (a : addr) (k : kind) : bool :=
  wfb n h a k && sepb n h a && slackb h (all_refs n h a).
