(* C19: vocabulary of the release / copy theorems WITHOUT [slack] (ObjSpec.v), and of
   operations that go through shared objects.  Definitions only.

   [slack h R] demands an outside holder for every shared object for the whole life
   cycle.  It is replaced by [counted h R]: every reference the object (pair) holds
   is counted - cnt R s <= refcount(s) - which is what sqfs_grab establishes; the
   case "=" is "the object (pair) holds the LAST references", "<" is slack.  When a
   drop takes the count of a shared object to 0, sqfs_drop runs the shared object's
   destroy hook; for that to be safe the shared object itself has to be a
   well-formed object whose cells nobody else owns ([closed_obj]: well-formed to
   depth m, its footprint owned once, no references of its own - file and the five
   compressors are of this form) and the footprints of different shared objects and
   of the object (pair) are pairwise disjoint ([env_sep]).

   [dead h R]: the shared objects that die when the references R are dropped (their
   count is exactly the number of references in R); [dead_fp]: their cells. *)
From Coq Require Import List NArith Bool Arith.
From SqfsV Require Import C19.ObjHeap C19.ObjHooks C19.ObjKinds C19.ObjSpec C19.ObjCheckDefs.
Import ListNotations.

Definition counted (h : heap) (R : list addr) : Prop :=
  forall s, In s R -> (N.of_nat (cnt R s) <= rc_of h s)%N.

Definition closed_obj (m : nat) (h : heap) (s : addr) : Prop :=
  exists ks, wf_obj m h s ks /\ NoDup (fp m h s) /\ all_refs m h s = [].

(* F: cells of the object (pair); R: the references it holds *)
Definition env_sep (m : nat) (h : heap) (F R : list addr) : Prop :=
  NoDup F /\
  (forall s x, In s R -> In x (fp m h s) -> ~ In x F) /\
  (forall s t x, In s R -> In t R -> s <> t -> In x (fp m h s) -> ~ In x (fp m h t)).

Definition env_ok (m : nat) (h : heap) (F R : list addr) : Prop :=
  (forall s, In s R -> closed_obj m h s) /\ env_sep m h F R /\ counted h R.

(* one object and the shared objects it references *)
Definition obj_inv (m n : nat) (h : heap) (o : addr) (k : kind) : Prop :=
  wf_obj n h o k /\ env_ok m h (fp n h o) (all_refs n h o).

(* two objects side by side (original and copy) and the shared objects they reference;
   generalises ObjPair.pair_inv: no [slack] *)
Definition pair_inv_g (m n : nat) (h : heap) (o c : addr) (k : kind) : Prop :=
  wf_obj n h o k /\ wf_obj n h c k /\
  env_ok m h (fp n h o ++ fp n h c) (all_refs n h o ++ all_refs n h c).

Definition dead (h : heap) (R : list addr) : list addr :=
  filter (fun s => N.eqb (N.of_nat (cnt R s)) (rc_of h s)) R.

Definition dead_fp (m : nat) (h : heap) (R : list addr) : list addr :=
  flat_map (fp m h) (dead h R).

(* all cells of the shared objects *)
Definition shared_fp (m : nat) (h : heap) (R : list addr) : list addr := flat_map (fp m h) R.

(* ---- decidable versions (run by the tie on the model heaps it builds) ---- *)
Definition countedb (h : heap) (R : list addr) : bool :=
  forallb (fun s => N.leb (N.of_nat (cnt R s)) (rc_of h s)) R.

Definition closedb (m : nat) (h : heap) (s : addr) : bool :=
  existsb (fun ks => wfb m h s ks) all_kinds && nodupb (fp m h s) &&
  match all_refs m h s with [] => true | _ => false end.

Definition env_sepb (m : nat) (h : heap) (F R : list addr) : bool :=
  nodupb F &&
  forallb (fun s => forallb (fun x => negb (mem x F)) (fp m h s)) R &&
  forallb (fun s => forallb (fun t => Nat.eqb s t ||
                                      forallb (fun x => negb (mem x (fp m h t))) (fp m h s)) R) R.

Definition env_okb (m : nat) (h : heap) (F R : list addr) : bool :=
  forallb (closedb m h) R && env_sepb m h F R && countedb h R.

(* everything the general theorems ask of an object that is about to be copied *)
Definition copyable_g (m n : nat) (h : heap) (a : addr) (k : kind) : bool :=
  wfb n h a k && env_okb m h (fp n h a) (all_refs n h a).

(* ---- what an operation must preserve of a shared object: a view of its abstraction.
   For a compressor that owns a library stream (gzip, zstd) the stream cell is scratch
   space: the view keeps hooks and configuration; everything else (file, flat
   compressors) is kept whole. ---- *)
Definition cfg_view (a : aval) : aval :=
  match a with
  | AObj (Some KGzip) c [ALeaf _; cfg] => AObj (Some KGzip) c [ANull; cfg]
  | AObj (Some KZstd) c [ALeaf _; cfg] => AObj (Some KZstd) c [ANull; cfg]
  | _ => a
  end.
