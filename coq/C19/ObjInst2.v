(* C19: the in-place update of the id table's array as a local operation, for ANY function of
   (operand, old contents) -> (new contents, answer) -- in particular the real operation
   sqfs_id_table_id_to_index (C19/ObjMach.v: id_to_index), so that the hypothesis [local_op] of
   interleaving_independent / copy_ops_release is met by an operation of libsquashfs and the
   layer-(i) machine is the abstract view of a layer-(ii) heap operation.
   (Generalises ObjInst.v: run_set_local; same proof.) *)
From Coq Require Import List NArith ZArith Bool Arith Lia.
From SqfsV Require Import C19.ObjHeap C19.ObjHooks C19.ObjKinds C19.ObjSpec C19.ObjBase C19.ObjFrame
     C19.ObjDrop C19.ObjCopyBase C19.ObjCopy C19.ObjCopy3 C19.ObjPair C19.ObjOps C19.ObjInst C19.ObjMach.
Import ListNotations.

Section DataOp.
Variables P A : Type.
Variable f : P -> list N -> list N * A.
Variable dflt : A.

Definition run_data (p : P) (h : heap) (a : addr) : heap * A :=
  match fields_of h a with
  | [VData _; VOwn b] =>
      match fields_of h b with
      | [VData old] => (upd h b (Live (mkC None [VData (fst (f p old))])), snd (f p old))
      | _ => (h, dflt)
      end
  | _ => (h, dflt)
  end.

Definition step_data (p : P) (a : aval) : aval * A :=
  match a with
  | AObj d c [AData u; ALeaf [AData old]] => (AObj d c [AData u; ALeaf [AData (fst (f p old))]], snd (f p old))
  | _ => (a, dflt)
  end.

Theorem run_data_local : local_op 1 KId P A run_data step_data.
Proof.
  intros v h x h' r W S E.
  destruct W as (rc & fs & G & T).
  simpl in T. inversion T as [|v1 t1 l1 l1' T1 T']; subst. inversion T' as [|v2 t2 l2 l2' T2 T'']; subst.
  inversion T''; subst. clear T T' T''.
  destruct v1; simpl in T1; try contradiction.
  assert (Hfs : fields_of h x = [VData d; v2]) by (unfold fields_of; rewrite G; reflexivity).
  unfold run_data in E. rewrite Hfs in E.
  assert (Triv : (h', r) = (h, dflt) ->
                 step_data v (abs_obj 1 h x) = (abs_obj 1 h x, dflt) ->
                 length h <= length h' /\
                 (forall y, y < length h -> ~ In y (fp 1 h x) -> nth_error h' y = nth_error h y) /\
                 wf_obj 1 h' x KId /\ sep_obj 1 h' x /\
                 (forall y, In y (fp 1 h' x) -> In y (fp 1 h x) \/ length h <= y) /\
                 all_refs 1 h' x = all_refs 1 h x /\ rc_of h' x = rc_of h x /\
                 abs_obj 1 h' x = fst (step_data v (abs_obj 1 h x)) /\
                 r = snd (step_data v (abs_obj 1 h x))).
  { intros E0 Es. inversion E0; subst h' r. rewrite Es. simpl.
    split; [lia|]. split; [auto|]. split.
    - exists rc, [VData d; v2]. split; [assumption|]. simpl. constructor; [exact I|]. constructor; auto.
    - split; [assumption|]. split; [auto|]. auto. }
  destruct v2; simpl in T2; try contradiction.
  - (* no array *)
    apply Triv; [congruence|]. simpl. rewrite G. simpl. reflexivity.
  - destruct T2 as (lf & Gb & Lf & Tm).
    assert (Hlf : fields_of h a = lf) by (unfold fields_of; rewrite Gb; reflexivity).
    rewrite Hlf in E.
    assert (Abs : abs_obj 1 h x = AObj (Some KId) (Some KId)
                                      [AData d; ALeaf (map (abs_lval (x :: owned_of [VData d; VOwn a])) lf)]).
    { simpl. rewrite G. simpl. unfold abs_leaf. rewrite Hlf. reflexivity. }
    destruct lf as [|w [|w2 lf]].
    + apply Triv; [congruence|]. rewrite Abs. reflexivity.
    + destruct w; try (apply Triv; [congruence|]; rewrite Abs; reflexivity).
      (* the in-place overwrite *)
      inversion E; subst h' r. clear E Triv.
      destruct S as [ND DJ]. rewrite fp_S, Hfs in ND. simpl in ND.
      assert (Nxa : x <> a).
      { inversion ND; subst. intro; subst. apply H1. left; reflexivity. }
      set (h' := upd h a (Live (mkC None [VData (fst (f v d0))]))).
      assert (Gx' : get h' x = Some (mkC (Some (mkH rc (Some KId) (Some KId))) [VData d; VOwn a])).
      { unfold h'. rewrite get_upd_neq; auto. }
      assert (Ga' : get h' a = Some (mkC None [VData (fst (f v d0))])) by (eapply get_upd_eq; eauto).
      assert (Hfs' : fields_of h' x = [VData d; VOwn a]) by (unfold fields_of; rewrite Gx'; reflexivity).
      split; [unfold h'; rewrite length_upd; lia|]. split.
      { intros y Hy Ny. unfold h'. apply nth_upd_neq. intro; subst y. apply Ny.
        rewrite fp_S, Hfs. simpl. auto. }
      split.
      { exists rc, [VData d; VOwn a]. split; [assumption|]. simpl. constructor; [exact I|].
        constructor; [|constructor]. simpl. exists [VData (fst (f v d0))]. split; [assumption|].
        split; [constructor; [exact I|constructor]|]. simpl. constructor; [exact I|constructor]. }
      split.
      { split.
        - rewrite fp_S, Hfs'. simpl. exact ND.
        - rewrite all_refs_S, Hfs'. simpl. intros s []. }
      split; [intros y Hy; left; rewrite fp_S, Hfs' in Hy; rewrite fp_S, Hfs; exact Hy|].
      split; [rewrite !all_refs_S, Hfs, Hfs'; reflexivity|].
      split; [unfold rc_of; rewrite Gx', G; reflexivity|].
      rewrite Abs. simpl. rewrite Gx'. simpl. unfold abs_leaf, fields_of. rewrite Ga'. simpl. auto.
    + apply Triv; [destruct w; congruence|]. rewrite Abs.
      destruct w; reflexivity.
Qed.


End DataOp.

(* sqfs_id_table_id_to_index on the heap model: look the id up, append it if it is new *)
Definition run_id_to_index : N -> heap -> addr -> heap * (Z * N) :=
  run_data N (Z * N) (fun id t => id_to_index t id) (0%Z, 0%N).
Definition step_id_to_index : N -> aval -> aval * (Z * N) :=
  step_data N (Z * N) (fun id t => id_to_index t id) (0%Z, 0%N).

Theorem id_to_index_local : local_op 1 KId N (Z * N) run_id_to_index step_id_to_index.
Proof. apply run_data_local. Qed.

(* sqfs_id_table_index_to_id: a pure query *)
Definition run_index_to_id : N -> heap -> addr -> heap * (Z * N) :=
  run_data N (Z * N) (fun idx t => index_to_id t idx) (0%Z, 0%N).
Definition step_index_to_id : N -> aval -> aval * (Z * N) :=
  step_data N (Z * N) (fun idx t => index_to_id t idx) (0%Z, 0%N).

Theorem index_to_id_local : local_op 1 KId N (Z * N) run_index_to_id step_index_to_id.
Proof. apply run_data_local. Qed.
