(* C19: basic facts about the cell heap. *)
From Coq Require Import List NArith Bool Arith Lia.
From SqfsV Require Import C19.ObjHeap C19.ObjHooks C19.ObjKinds C19.ObjSpec.
Import ListNotations.

Lemma length_upd : forall h a s, length (upd h a s) = length h.
Proof. induction h as [|x t IH]; intros [|a] s; simpl; auto. Qed.

Lemma nth_upd_eq : forall h a s, a < length h -> nth_error (upd h a s) a = Some s.
Proof.
  induction h as [|x t IH]; intros [|a] s H; simpl in *; try lia; auto.
  apply IH. lia.
Qed.

Lemma nth_upd_neq : forall h a b s, a <> b -> nth_error (upd h a s) b = nth_error h b.
Proof.
  induction h as [|x t IH]; intros [|a] [|b] s H; simpl in *; auto; try congruence.
Qed.

Lemma nth_app_old : forall (h : heap) l a, a < length h -> nth_error (h ++ l) a = nth_error h a.
Proof. intros. apply nth_error_app1. assumption. Qed.

Lemma nth_app_new : forall (h : heap) s, nth_error (h ++ [s]) (length h) = Some s.
Proof. intros. rewrite nth_error_app2 by lia. rewrite Nat.sub_diag. reflexivity. Qed.

Lemma nth_lt : forall (h : heap) a s, nth_error h a = Some s -> a < length h.
Proof. intros h a s H. apply nth_error_Some. congruence. Qed.

(* ---- get ---- *)
Lemma get_nth : forall h a c, get h a = Some c <-> nth_error h a = Some (Live c).
Proof.
  unfold get; intros h a c; destruct (nth_error h a) as [[c'|]|]; split; intro H; congruence.
Qed.

Lemma get_lt : forall h a c, get h a = Some c -> a < length h.
Proof. intros h a c H. apply get_nth in H. eapply nth_lt; eauto. Qed.

Lemma get_same : forall h h' a, nth_error h' a = nth_error h a -> get h' a = get h a.
Proof. unfold get; intros h h' a H; rewrite H; reflexivity. Qed.

Lemma load_get : forall h a c, load h a = Ok c <-> get h a = Some c.
Proof.
  unfold load, get; intros h a c; destruct (nth_error h a) as [[c'|]|]; split; intro H;
    try congruence; inversion H; reflexivity.
Qed.

Lemma load_of_get : forall h a c, get h a = Some c -> load h a = Ok c.
Proof. intros; apply load_get; assumption. Qed.

Lemma store_of_get : forall h a c c', get h a = Some c -> store h a c' = Ok (upd h a (Live c')).
Proof. unfold store; intros h a c c' H; apply get_nth in H; rewrite H; reflexivity. Qed.

Lemma free_of_get : forall h a c, get h a = Some c -> free h a = Ok (upd h a Freed).
Proof. unfold free; intros h a c H; apply get_nth in H; rewrite H; reflexivity. Qed.

Lemma get_upd_eq : forall h a c c', get h a = Some c -> get (upd h a (Live c')) a = Some c'.
Proof.
  intros h a c c' H. apply get_nth. apply nth_upd_eq. eapply get_lt; eauto.
Qed.

Lemma get_upd_neq : forall h a b s, a <> b -> get (upd h a s) b = get h b.
Proof. intros; apply get_same; apply nth_upd_neq; assumption. Qed.

Lemma get_app_old : forall h l a c, get h a = Some c -> get (h ++ l) a = Some c.
Proof.
  intros h l a c H. rewrite <- H. apply get_same. apply nth_app_old. eapply get_lt; eauto.
Qed.

Lemma get_app_lt : forall h l a, a < length h -> get (h ++ l) a = get h a.
Proof. intros. apply get_same. apply nth_app_old. assumption. Qed.

Lemma get_app_new : forall h c, get (h ++ [Live c]) (length h) = Some c.
Proof. intros. apply get_nth. apply nth_app_new. Qed.

Lemma fields_same : forall h h' a, nth_error h' a = nth_error h a -> fields_of h' a = fields_of h a.
Proof. unfold fields_of; intros; erewrite get_same; eauto. Qed.

Lemma rc_same : forall h h' a, nth_error h' a = nth_error h a -> rc_of h' a = rc_of h a.
Proof. unfold rc_of; intros; erewrite get_same; eauto. Qed.

(* ---- refcount arithmetic on slots ---- *)
Lemma add_rc_0 : forall s, add_rc 0 s = s.
Proof.
  intros [[[[rc d c]|] fs]|]; simpl; auto. rewrite N.add_0_r. reflexivity.
Qed.

Lemma sub_rc_0 : forall s, sub_rc 0 s = s.
Proof.
  intros [[[[rc d c]|] fs]|]; simpl; auto. rewrite N.sub_0_r. reflexivity.
Qed.

Lemma add_rc_add : forall a b s, add_rc a (add_rc b s) = add_rc (b + a) s.
Proof.
  intros a b [[[[rc d c]|] fs]|]; simpl; auto.
  rewrite Nat2N.inj_add, N.add_assoc. reflexivity.
Qed.

Lemma sub_rc_sub : forall a b s, sub_rc a (sub_rc b s) = sub_rc (b + a) s.
Proof.
  intros a b [[[[rc d c]|] fs]|]; simpl; auto.
  rewrite Nat2N.inj_add, N.sub_add_distr. reflexivity.
Qed.

(* ---- lists ---- *)
Lemma cnt_app : forall l m x, cnt (l ++ m) x = cnt l x + cnt m x.
Proof. intros; unfold cnt; apply count_occ_app. Qed.

Lemma cnt_not_in : forall l x, ~ In x l -> cnt l x = 0.
Proof. intros; unfold cnt; apply count_occ_not_In; assumption. Qed.

Lemma cnt_in : forall l x, In x l -> cnt l x > 0.
Proof. intros; unfold cnt; apply count_occ_In; assumption. Qed.

Lemma NoDup_app_l : forall (A : Type) (l m : list A), NoDup (l ++ m) -> NoDup l.
Proof.
  induction l as [|x l IH]; intros m H; [constructor|].
  simpl in H. inversion H; subst. constructor.
  - intro Hi. apply H2. apply in_or_app; auto.
  - eapply IH; eauto.
Qed.

Lemma NoDup_app_r : forall (A : Type) (l m : list A), NoDup (l ++ m) -> NoDup m.
Proof.
  induction l as [|x l IH]; intros m H; simpl in H; auto. inversion H; subst. auto.
Qed.

Lemma NoDup_app_disj : forall (A : Type) (l m : list A) x, NoDup (l ++ m) -> In x l -> ~ In x m.
Proof.
  induction l as [|y l IH]; intros m x H Hi; [destruct Hi|].
  simpl in H. inversion H; subst. destruct Hi as [->|Hi].
  - intro Hm. apply H2. apply in_or_app; auto.
  - eapply IH; eauto.
Qed.

Lemma NoDup_app_intro : forall (A : Type) (l m : list A),
    NoDup l -> NoDup m -> (forall x, In x l -> ~ In x m) -> NoDup (l ++ m).
Proof.
  induction l as [|y l IH]; intros m Hl Hm Hd; simpl; auto.
  inversion Hl; subst. constructor.
  - intro Hi. apply in_app_or in Hi. destruct Hi as [Hi|Hi]; [auto|].
    eapply Hd; [left; reflexivity|exact Hi].
  - apply IH; auto. intros x Hx. apply Hd. right; assumption.
Qed.
