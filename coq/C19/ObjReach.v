(* C19: the reachable object states and their invariant.

   A state is ONE object (One h o) or an original with its copy (Two h o c).  Reachable:
     - what a constructor returns (ObjBuild.built: every builder, all parameters, counted
       references, any plain data);
     - a shared-preserving operation on a single object;
     - sqfs_copy of a single object: original and copy side by side;
     - any schedule of shared-preserving operations on the two (the operation table may change
       from one step to the next: reads, lookups, ...);
     - looking at the pair the other way round;
     - the release of one of the two (its count at most 1: the drop that destroys it): the
       survivor, a single object again - which may be copied again, and so on.
   [reachable_obj_inv]: a single reachable object satisfies [obj_inv], a reachable pair
   [pair_inv_g] - the hypotheses of copy_wellformed_general / release_safe_general /
   survivor_intact_general / copy_ops_release_shared hold in every reachable state.
   Not covered: three or more simultaneous copies of one object (the pair invariant speaks of
   two), the drop of an object whose count is above 1 (it only decrements the count). *)
From Coq Require Import List NArith Bool Arith Lia.
From SqfsV Require Import C19.ObjHeap C19.ObjHooks C19.ObjKinds C19.ObjSpec C19.ObjBase C19.ObjFrame
     C19.ObjDrop C19.ObjCopyBase C19.ObjCopy C19.ObjCopy3 C19.ObjPair C19.ObjOps
     C19.ObjGenDefs C19.ObjGenBase C19.ObjGenDrop C19.ObjGenPair C19.ObjShared
     C19.ObjBuildBase C19.ObjBuild.
Import ListNotations.

Inductive ostate := One (h : heap) (o : addr) | Two (h : heap) (o c : addr).

Section Reach.
  Variable HK : kind -> hook.
  Variables m n : nat.
  Variable k : kind.

  Inductive reach : ostate -> Prop :=
  | R_built : forall h o, built k h o -> reach (One h o)
  | R_op : forall h o view (op ans : Type) (run : op -> heap -> addr -> heap * ans)
                  (step : list aval -> op -> aval -> aval * ans) p h' r,
      reach (One h o) -> shared_preserving_op m n k view op ans run step ->
      run p h o = (h', r) -> reach (One h' o)
  | R_copy : forall h o fuel h' c,
      reach (One h o) -> n <= fuel -> sqfs_copy HK fuel h o = Ok (h', Some c) -> reach (Two h' o c)
  | R_ops : forall h o c view (op ans : Type) (run : op -> heap -> addr -> heap * ans)
                   (step : list aval -> op -> aval -> aval * ans) s h' rs,
      reach (Two h o c) -> shared_preserving_op m n k view op ans run step ->
      exec op ans run s h o c = (h', rs) -> reach (Two h' o c)
  | R_swap : forall h o c, reach (Two h o c) -> reach (Two h c o)
  | R_drop : forall h o c fuel h1,
      reach (Two h o c) -> n + m + 1 <= fuel -> (rc_of h o <= 1)%N ->
      sqfs_drop DK fuel h o = Ok h1 -> reach (One h1 c).

  Definition state_inv (st : ostate) : Prop :=
    match st with
    | One h o => obj_inv m n h o k
    | Two h o c => pair_inv_g m n h o c k
    end.

  Hypothesis HKok : hooks_ok HK = true.
  Hypothesis Hm : 1 <= m.
  Hypothesis Hn : kind_depth k <= n.

  Theorem reachable_obj_inv_l : forall st, reach st -> state_inv st.
  Proof.
    induction 1 as [h o B|h o view op ans run step p h' r _ IH Sp Er|h o fuel h' c _ IH Hf Ec
                    |h o c view op ans run step s h' rs _ IH Sp Ee|h o c _ IH|h o c fuel h1 _ IH Hf Rc Ed];
      cbn [state_inv] in *.
    - apply constructors_establish_obj_inv_l; assumption.
    - apply (shared_preserving_keeps_obj_inv m n k view op ans run step Sp p h o h' r IH Er).
    - destruct (copy_establishes_g HK HKok m n fuel h o k Hf IH) as (h2 & E2 & _ & _ & P & _).
      rewrite Ec in E2. inversion E2; subst. exact P.
    - apply (interleaving_independent_shared m n k view op ans run step Sp s h o c h' rs IH Ee).
    - apply pair_sym_g. exact IH.
    - destruct (drop_first_g m n fuel h o c k Hf IH Rc) as (h2 & E2 & _ & I & _).
      rewrite Ed in E2. inversion E2; subst. exact I.
  Qed.

  (* hence: in every reachable pair state both release orders are safe *)
  Corollary reachable_release_safe_l : forall h o c fuel,
      reach (Two h o c) -> n + m + 1 <= fuel -> (rc_of h o <= 1)%N -> (rc_of h c <= 1)%N ->
      exists h1 h2 h1',
        sqfs_drop DK fuel h o = Ok h1 /\ sqfs_drop DK fuel h1 c = Ok h2 /\
        sqfs_drop DK fuel h c = Ok h1' /\ sqfs_drop DK fuel h1' o = Ok h2.
  Proof.
    intros h o c fuel R Hf R1 R2. pose proof (reachable_obj_inv_l _ R) as P. cbn [state_inv] in P.
    destruct (release_either_order_g m n fuel h o c k Hf P R1 R2) as (h1 & h2 & h1' & h2' & A & B & C & D & E & _).
    subst h2'. exists h1, h2, h1'. auto.
  Qed.

  (* ... and a reachable single object can be copied (the copy is the next allocation) *)
  Corollary reachable_copy_ok_l : forall h o fuel,
      reach (One h o) -> n <= fuel ->
      exists h', sqfs_copy HK fuel h o = Ok (h', Some (length h)) /\ reach (Two h' o (length h)).
  Proof.
    intros h o fuel R Hf. pose proof (reachable_obj_inv_l _ R) as I. cbn [state_inv] in I.
    destruct (copy_establishes_g HK HKok m n fuel h o k Hf I) as (h' & E & _). exists h'. split; [exact E|].
    eapply R_copy; eauto.
  Qed.
End Reach.
