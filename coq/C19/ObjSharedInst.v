(* C19: the meta reader's read operation through the shared file and compressor is
   [shared_preserving_op], PROVIDED the compressor's do_block is a function of
   (configuration, input): its output may not depend on what an earlier call - of
   either holder - left in the stream state. *)
From Coq Require Import List NArith Bool Arith Lia.
From SqfsV Require Import C19.ObjHeap C19.ObjHooks C19.ObjKinds C19.ObjSpec C19.ObjBase C19.ObjFrame
     C19.ObjDrop C19.ObjCopy3 C19.ObjPair C19.ObjOps C19.ObjGenDefs C19.ObjGenBase C19.ObjGenPair
     C19.ObjShared C19.ObjSharedDefs.
Import ListNotations.

Ltac inv_F2 :=
  repeat match goal with
         | H : Forall2 _ _ (_ :: _) |- _ => inversion H; clear H; subst
         | H : Forall2 _ _ [] |- _ => inversion H; clear H; subst
         end.

(* a closed object of depth 1, taken apart *)
Lemma closed1_inv : forall h s,
    closed_obj 1 h s ->
    exists ks rc fs,
      get h s = Some (mkC (Some (mkH rc (Some ks) (Some ks))) fs) /\
      Forall2 (has_type (fun a ka => wf_obj 0 h a ka /\ rc_of h a = 1%N) h (s :: owned_of fs)) fs (LAY ks) /\
      NoDup (s :: flat_map (fp1 (fp 0 h)) fs).
Proof.
  intros h s (ks & W & ND & _). destruct W as (rc & fs & G & T). exists ks, rc, fs.
  split; [assumption|]. split; [assumption|].
  rewrite fp_S in ND. unfold fields_of in ND. rewrite G in ND. exact ND.
Qed.

Lemma file_bytes_view : forall h fl,
    closed_obj 1 h fl -> view_bytes (cfg_view (abs_obj 1 h fl)) = file_bytes h fl.
Proof.
  intros h fl Cl. destruct (closed1_inv h fl Cl) as (ks & rc & fs & G & T & _).
  unfold file_bytes. cbn [abs_obj]. rewrite G. cbn [dkind c_hdr c_fields h_destroy h_copy].
  destruct ks; cbn [LAY strtab_lay app] in T; inv_F2; try reflexivity;
    repeat match goal with
           | H : has_type _ _ _ ?v _ |- _ => destruct v; simpl in H; try contradiction; clear H
           end; try reflexivity.
  (* KFile with a descriptor cell *)
  cbn [map abs_val cfg_view view_bytes]. unfold abs_leaf.
  destruct (fields_of h a) as [|w [|w2 lf]]; cbn [map]; try reflexivity.
  destruct w; reflexivity.
Qed.

Section CmpBlock.
  Variable blk : list N -> list N -> list N -> list N * list N.
  Hypothesis blk_stateless : forall cfg z z' i, snd (blk cfg z i) = snd (blk cfg z' i).

  Lemma cmp_block_view : forall h cm inp,
      closed_obj 1 h cm ->
      view_block blk (cfg_view (abs_obj 1 h cm)) inp = option_map snd (cmp_block blk h cm inp).
  Proof.
    intros h cm inp Cl. destruct (closed1_inv h cm Cl) as (ks & rc & fs & G & T & _).
    unfold cmp_block. cbn [abs_obj]. rewrite G. cbn [dkind c_hdr c_fields h_destroy h_copy].
    destruct ks; cbn [LAY strtab_lay app] in T; inv_F2; try reflexivity;
      repeat match goal with
             | H : has_type _ _ _ ?v _ |- _ => destruct v; simpl in H; try contradiction; clear H
             end; try reflexivity;
        cbn [map abs_val]; unfold abs_leaf;
        cbn [cfg_view view_block is_stream_kind is_flat_kind option_map snd];
        try reflexivity.
    all: f_equal; apply blk_stateless.
  Qed.

  Lemma cmp_block_spec : forall h cm inp h1 out,
      closed_obj 1 h cm -> cmp_block blk h cm inp = Some (h1, out) ->
      length h1 = length h /\
      (forall y, ~ In y (fp 1 h cm) -> nth_error h1 y = nth_error h y) /\
      nth_error h1 cm = nth_error h cm /\
      closed_obj 1 h1 cm /\ fp 1 h1 cm = fp 1 h cm /\
      cfg_view (abs_obj 1 h1 cm) = cfg_view (abs_obj 1 h cm).
  Proof.
    intros h cm inp h1 out Cl E.
    assert (Same : h1 = h -> length h1 = length h /\
      (forall y, ~ In y (fp 1 h cm) -> nth_error h1 y = nth_error h y) /\
      nth_error h1 cm = nth_error h cm /\
      closed_obj 1 h1 cm /\ fp 1 h1 cm = fp 1 h cm /\
      cfg_view (abs_obj 1 h1 cm) = cfg_view (abs_obj 1 h cm)).
    { intros ->. auto 10. }
    destruct (closed1_inv h cm Cl) as (ks & rc & fs & G & T & ND).
    unfold cmp_block in E. rewrite G in E. cbn [dkind c_hdr c_fields h_destroy] in E.
    destruct fs as [|v1 [|v2 [|v3 fs]]]; try discriminate.
    - destruct v1; try discriminate. destruct (is_flat_kind ks); [|discriminate].
      inversion E; subst. apply Same; reflexivity.
    - destruct v1, v2; try discriminate; destruct (is_stream_kind ks) eqn:Ek; try discriminate;
        inversion E; subst; clear E; try (apply Same; reflexivity).
      set (c' := mkC None [VData (fst (blk d (stream_state h a) inp))]).
      assert (Lay : LAY ks = [TOwn TrNone; TData]) by (destruct ks; simpl in Ek; try discriminate; reflexivity).
      rewrite Lay in T. inv_F2. simpl in H2. destruct H2 as (lf & Ga & _).
      assert (Hfs : fields_of h cm = [VOwn a; VData d]) by (unfold fields_of; rewrite G; reflexivity).
      assert (Hfp : fp 1 h cm = [cm; a]) by (rewrite fp_S, Hfs; reflexivity).
      simpl in ND. assert (Ne : cm <> a).
      { intro; subst. inversion ND; subst. apply H1. left; reflexivity. }
      assert (G' : get (upd h a (Live c')) cm = Some (mkC (Some (mkH rc (Some ks) (Some ks))) [VOwn a; VData d])).
      { rewrite get_upd_neq by auto. assumption. }
      assert (Ga' : get (upd h a (Live c')) a = Some c') by (eapply get_upd_eq; eauto).
      assert (Hfs' : fields_of (upd h a (Live c')) cm = [VOwn a; VData d]) by (unfold fields_of; rewrite G'; reflexivity).
      assert (Hfp' : fp 1 (upd h a (Live c')) cm = [cm; a]) by (rewrite fp_S, Hfs'; reflexivity).
      split; [apply length_upd|]. split.
      { intros y Hy. apply nth_upd_neq. intro; subst. apply Hy. rewrite Hfp. simpl; auto. }
      split; [apply nth_upd_neq; auto|]. split.
      { exists ks. split; [|split].
        - exists rc, [VOwn a; VData d]. split; [assumption|]. rewrite Lay.
          constructor; [|constructor; [exact I|constructor]].
          simpl. exists [VData (fst (blk d (stream_state h a) inp))]. split; [exact Ga'|].
          split; [constructor; [exact I|constructor]|]. simpl. constructor; [exact I|constructor].
        - rewrite Hfp'. rewrite <- Hfp. destruct Cl as (? & _ & N0 & _). exact N0.
        - rewrite all_refs_S, Hfs'. reflexivity. }
      split; [rewrite Hfp', Hfp; reflexivity|].
      cbn [abs_obj]. rewrite G, G'. cbn [h_destroy h_copy map abs_val].
      destruct ks; simpl in Ek; try discriminate; reflexivity.
  Qed.
End CmpBlock.

Section MetaOp.
  Variables P A : Type.
  Variable blk : list N -> list N -> list N -> list N * list N.
  Hypothesis blk_stateless : forall cfg z z' i, snd (blk cfg z i) = snd (blk cfg z' i).
  Variable req : P -> list N -> list N -> list N.
  Variable fin : P -> list N -> list N -> list N * A.
  Variable dflt : A.

  Notation run := (run_meta P A blk req fin dflt).
  Notation step := (step_meta P A blk req fin dflt).

  Theorem run_meta_shared_preserving : shared_preserving_op 1 1 KMeta cfg_view P A run step.
  Proof.
    intros p h x h' r (W & E) Er. pose proof W as W0.
    destruct W as (rc & fs & G & T). pose proof T as T0.
    simpl in T. inversion T as [|v1 t1 l1 l1' T1 T']; subst. inversion T' as [|v2 t2 l2 l2' T2 T'']; subst.
    inversion T'' as [|v3 t3 l3 l3' T3 T''']; subst. inversion T'''; subst. clear T T' T'' T'''.
    destruct v1; simpl in T1; try contradiction. clear T1.
    assert (Hfs : fields_of h x = [VData d; v2; v3]) by (unfold fields_of; rewrite G; reflexivity).
    assert (Triv : (h', r) = (h, dflt) ->
                   step (senv 1 cfg_view h (all_refs 1 h x)) p (abs_obj 1 h x) = (abs_obj 1 h x, dflt) ->
      length h <= length h' /\
      (forall y, y < length h -> ~ In y (fp 1 h x) -> ~ In y (shared_fp 1 h (all_refs 1 h x)) ->
                 nth_error h' y = nth_error h y) /\
      (forall s, In s (all_refs 1 h x) ->
                 nth_error h' s = nth_error h s /\ closed_obj 1 h' s /\ fp 1 h' s = fp 1 h s /\
                 cfg_view (abs_obj 1 h' s) = cfg_view (abs_obj 1 h s)) /\
      wf_obj 1 h' x KMeta /\ NoDup (fp 1 h' x) /\
      (forall y, In y (fp 1 h' x) -> In y (fp 1 h x) \/ length h <= y) /\
      all_refs 1 h' x = all_refs 1 h x /\ rc_of h' x = rc_of h x /\
      abs_obj 1 h' x = fst (step (senv 1 cfg_view h (all_refs 1 h x)) p (abs_obj 1 h x)) /\
      r = snd (step (senv 1 cfg_view h (all_refs 1 h x)) p (abs_obj 1 h x))).
    { intros E0 Es. inversion E0; subst h' r. rewrite Es. simpl fst. simpl snd.
      destruct E as (C & (ND & _) & _).
      split; [lia|]. split; [auto|]. split; [intros s Hs; auto|]. auto 10. }
    assert (Abs : abs_obj 1 h x = AObj (Some KMeta) (Some KMeta)
                    [AData d; abs_val (abs_obj 0 h) h (x :: owned_of [VData d; v2; v3]) v2;
                     abs_val (abs_obj 0 h) h (x :: owned_of [VData d; v2; v3]) v3]).
    { cbn [abs_obj]. rewrite G. reflexivity. }
    unfold run_meta in Er. rewrite G in Er. cbn [c_fields c_hdr] in Er.
    destruct v2; simpl in T2; try contradiction; destruct v3; simpl in T3; try contradiction;
      try (apply Triv; [congruence|rewrite Abs, all_refs_S, Hfs; reflexivity]).
    rename a into fl. rename a0 into cm.
    assert (Hrefs : all_refs 1 h x = [fl; cm]) by (rewrite all_refs_S, Hfs; reflexivity).
    assert (Hfp : fp 1 h x = [x]) by (rewrite fp_S, Hfs; reflexivity).
    rewrite Hrefs, Hfp in *.
    pose proof E as (C & (ND & D1 & D2) & Cn).
    assert (Cfl : closed_obj 1 h fl) by (apply C; simpl; auto).
    assert (Ccm : closed_obj 1 h cm) by (apply C; simpl; auto).
    assert (Senv : senv 1 cfg_view h [fl; cm] = [cfg_view (abs_obj 1 h fl); cfg_view (abs_obj 1 h cm)]) by reflexivity.
    destruct (file_bytes h fl) as [b|] eqn:Eb.
    2:{ apply Triv; [congruence|]. rewrite Abs, Senv. cbn [step_meta abs_val].
        rewrite (file_bytes_view h fl Cfl), Eb. reflexivity. }
    destruct (cmp_block blk h cm (req p d b)) as [[h1 out]|] eqn:Ec.
    2:{ apply Triv; [congruence|]. rewrite Abs, Senv. cbn [step_meta abs_val].
        rewrite (file_bytes_view h fl Cfl), Eb.
        rewrite (cmp_block_view blk blk_stateless h cm _ Ccm), Ec. reflexivity. }
    inversion Er; subst h' r. clear Er Triv.
    destruct (cmp_block_spec blk h cm _ h1 out Ccm Ec) as (L1 & Fr1 & Top1 & Cl1 & EF1 & V1).
    assert (Nxc : ~ In x (fp 1 h cm)).
    { intro Hx. apply (D1 cm x); simpl; auto. }
    assert (Nxf : ~ In x (fp 1 h fl)).
    { intro Hx. apply (D1 fl x); simpl; auto. }
    assert (Gx1 : get h1 x = Some (mkC (Some (mkH rc (Some KMeta) (Some KMeta))) [VData d; VRef fl; VRef cm])).
    { rewrite <- G. apply get_same. apply Fr1. assumption. }
    set (st' := fst (fin p d out)).
    set (cx' := mkC (Some (mkH rc (Some KMeta) (Some KMeta))) [VData st'; VRef fl; VRef cm]).
    set (h' := upd h1 x (Live cx')).
    assert (Gx' : get h' x = Some cx') by (eapply get_upd_eq; eauto).
    assert (Oth : forall y, y <> x -> nth_error h' y = nth_error h1 y).
    { intros y Hy. unfold h'. apply nth_upd_neq. auto. }
    assert (Hfs' : fields_of h' x = [VData st'; VRef fl; VRef cm]) by (unfold fields_of; rewrite Gx'; reflexivity).
    assert (Shared : forall s, In s [fl; cm] ->
                 nth_error h' s = nth_error h s /\ closed_obj 1 h' s /\ fp 1 h' s = fp 1 h s /\
                 cfg_view (abs_obj 1 h' s) = cfg_view (abs_obj 1 h s)).
    { intros s Hs. destruct (Nat.eq_dec s cm) as [->|Ne].
      - assert (Ncx : cm <> x) by (intro; subst; apply Nxc; apply closed_in_fp; assumption).
        destruct (closed_frame 1 h1 h' cm Cl1) as (C2 & EF2 & EA2).
        { intros z Hz. apply Oth. intro; subst. rewrite EF1 in Hz. contradiction. }
        split; [rewrite Oth by assumption; assumption|]. split; [assumption|].
        split; [congruence|]. rewrite EA2. assumption.
      - assert (s = fl) by (destruct Hs as [<-|[<-|[]]]; congruence). subst s.
        assert (Af : forall z, In z (fp 1 h fl) -> nth_error h' z = nth_error h z).
        { intros z Hz. rewrite Oth by (intro; subst; contradiction). apply Fr1.
          intro Hc. apply (D2 fl cm z); simpl; auto. }
        destruct (closed_frame 1 h h' fl Cfl Af) as (C2 & EF2 & EA2).
        split; [apply Af; apply closed_in_fp; assumption|]. split; [assumption|].
        split; [assumption|]. rewrite EA2. reflexivity. }
    assert (Hfp' : fp 1 h' x = [x]) by (rewrite fp_S, Hfs'; reflexivity).
    split; [unfold h'; rewrite length_upd; lia|]. split.
    { intros y Hy Ny Ns. rewrite Oth by (intro; subst; apply Ny; simpl; auto). apply Fr1.
      intro Hc. apply Ns. unfold shared_fp. cbn [flat_map]. rewrite !in_app_iff. tauto. }
    split; [exact Shared|]. split.
    { exists rc, [VData st'; VRef fl; VRef cm]. split; [exact Gx'|]. simpl.
      constructor; [exact I|]. constructor; [|constructor; [|constructor]]; simpl.
      - destruct (Shared fl) as (_ & C2 & _); [simpl; auto|]. eapply closed_shared_ok; eauto.
      - destruct (Shared cm) as (_ & C2 & _); [simpl; auto|]. eapply closed_shared_ok; eauto. }
    split; [rewrite Hfp'; constructor; [intros []|constructor]|].
    split; [intros y Hy; left; rewrite Hfp' in Hy; exact Hy|].
    split; [rewrite all_refs_S, Hfs'; reflexivity|].
    split; [unfold rc_of; rewrite Gx', G; reflexivity|].
    rewrite Abs, Senv. cbn [step_meta abs_val].
    rewrite (file_bytes_view h fl Cfl), Eb.
    rewrite (cmp_block_view blk blk_stateless h cm _ Ccm), Ec. cbn [option_map snd fst].
    split; [|reflexivity].
    cbn [abs_obj]. rewrite Gx'. reflexivity.
  Qed.
End MetaOp.
