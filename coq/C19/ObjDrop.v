(* C19: sqfs_drop of a well-formed, exclusively held object frees exactly its
   footprint, touches nothing else except the reference counts of the shared
   objects it references, and never crashes. *)
From Coq Require Import List NArith Bool Arith Lia.
From SqfsV Require Import C19.ObjHeap C19.ObjHooks C19.ObjKinds C19.ObjSpec C19.ObjBase C19.ObjFrame.
Import ListNotations.

(* h' is h with the cells F freed and one reference dropped per occurrence in R *)
Definition released (h h' : heap) (F R : list addr) : Prop :=
  length h' = length h /\
  (forall x, In x F -> nth_error h' x = Some Freed) /\
  (forall x, ~ In x F -> nth_error h' x = option_map (sub_rc (cnt R x)) (nth_error h x)).

Lemma option_map_sub0 : forall (o : option slot), option_map (sub_rc 0) o = o.
Proof. intros [s|]; simpl; [rewrite sub_rc_0|]; reflexivity. Qed.

Lemma released_refl : forall h, released h h [] [].
Proof.
  intros h. split; [reflexivity|]. split; [intros x []|].
  intros x _. unfold cnt; simpl. rewrite option_map_sub0. reflexivity.
Qed.

Lemma released_trans : forall h h1 h2 F1 R1 F2 R2,
    released h h1 F1 R1 -> released h1 h2 F2 R2 -> released h h2 (F1 ++ F2) (R1 ++ R2).
Proof.
  intros h h1 h2 F1 R1 F2 R2 (L1 & A1 & B1) (L2 & A2 & B2). split; [congruence|]. split.
  - intros x Hx. destruct (in_dec Nat.eq_dec x F2) as [I2|N2]; [auto|].
    apply in_app_or in Hx. destruct Hx as [I1|I2]; [|contradiction].
    rewrite B2 by assumption. rewrite A1 by assumption. reflexivity.
  - intros x Hx. assert (N1 : ~ In x F1) by (intro; apply Hx, in_or_app; auto).
    assert (N2 : ~ In x F2) by (intro; apply Hx, in_or_app; auto).
    rewrite B2, B1 by assumption. rewrite cnt_app.
    destruct (nth_error h x) as [s|]; simpl; [|reflexivity]. rewrite sub_rc_sub. reflexivity.
Qed.

Lemma released_equiv : forall h h' F R F' R',
    (forall x, In x F <-> In x F') -> (forall x, cnt R x = cnt R' x) ->
    released h h' F R -> released h h' F' R'.
Proof.
  intros h h' F R F' R' EF ER (L & A & B). split; [assumption|]. split.
  - intros x Hx. apply A, EF; assumption.
  - intros x Hx. rewrite <- ER. apply B. intro; apply Hx, EF; assumption.
Qed.

Lemma released_free : forall h a c, get h a = Some c ->
    exists h', free h a = Ok h' /\ released h h' [a] [].
Proof.
  intros h a c G. exists (upd h a Freed). split; [eapply free_of_get; eauto|].
  split; [apply length_upd|]. split.
  - intros x [<-|[]]. apply nth_upd_eq. eapply get_lt; eauto.
  - intros x Hx. rewrite nth_upd_neq by (intro; subst; apply Hx; left; reflexivity).
    unfold cnt; simpl. rewrite option_map_sub0. reflexivity.
Qed.

Lemma released_free_list : forall l h,
    NoDup l -> (forall x, In x l -> exists c, get h x = Some c) ->
    exists h', free_list h l = Ok h' /\ released h h' l [].
Proof.
  induction l as [|a l IH]; intros h ND HL.
  - exists h. split; [reflexivity|apply released_refl].
  - inversion ND; subst. destruct (HL a (or_introl eq_refl)) as [c G].
    destruct (released_free h a c G) as (h1 & F1 & R1).
    destruct (IH h1 H2) as (h2 & F2 & R2).
    { intros x Hx. destruct (HL x (or_intror Hx)) as [cx Gx]. exists cx.
      rewrite <- Gx. apply get_same. destruct R1 as (_ & _ & B). rewrite B.
      - unfold cnt; simpl. apply option_map_sub0.
      - intros [<-|[]]. contradiction. }
    exists h2. split.
    + simpl. rewrite F1. simpl. exact F2.
    + apply (released_trans _ _ _ _ _ _ _ R1 R2).
Qed.

Section Drop.
  Variable DK : kind -> list daction.
  Hypothesis DKok : forall k, Forall2 (fun t d => dact_ok t d = true) (LAY k) (DK k).

  Lemma drop_shared : forall fuel h s,
      shared_ok h s -> (1 < rc_of h s)%N ->
      exists h', sqfs_drop DK (S fuel) h s = Ok h' /\ released h h' [] [s].
  Proof.
    intros fuel h s (c & hd & G & Hh) Hrc.
    unfold rc_of in Hrc. rewrite G, Hh in Hrc.
    destruct c as [hd0 fs]; simpl in Hh; subst hd0.
    eexists. split.
    - simpl. rewrite (load_of_get _ _ _ G). simpl.
      destruct (h_rc hd <=? 1)%N eqn:E; [apply N.leb_le in E; lia|].
      eapply store_of_get; eauto.
    - split; [apply length_upd|]. split; [intros x []|].
      intros x _. destruct (Nat.eq_dec s x) as [<-|Ne].
      + rewrite nth_upd_eq by (eapply get_lt; eauto). apply get_nth in G. rewrite G.
        unfold cnt; simpl. destruct (Nat.eq_dec s s); [|congruence]. reflexivity.
      + rewrite nth_upd_neq by assumption. unfold cnt; simpl.
        destruct (Nat.eq_dec s x); [congruence|]. rewrite option_map_sub0. reflexivity.
  Qed.

  Definition W (n : nat) (h : heap) : addr -> kind -> Prop :=
    fun s ks => wf_obj n h s ks /\ rc_of h s = 1%N.

  Definition drop_spec (fuel n : nat) : Prop :=
    forall h a k,
      wf_obj n h a k -> sep_obj n h a -> (rc_of h a <= 1)%N -> slack h (all_refs n h a) ->
      exists h', sqfs_drop DK fuel h a = Ok h' /\ released h h' (fp n h a) (all_refs n h a).

  Lemma slack_app_l : forall h R1 R2, slack h (R1 ++ R2) -> slack h R1.
  Proof.
    intros h R1 R2 S s Hs. specialize (S s (in_or_app _ _ _ (or_introl Hs))).
    fold (cnt (R1 ++ R2) s) in S. rewrite cnt_app in S. fold (cnt R1 s). lia.
  Qed.

  Lemma rc_of_sub : forall h h' s k,
      nth_error h' s = option_map (sub_rc k) (nth_error h s) ->
      rc_of h' s = (rc_of h s - N.of_nat k)%N.
  Proof.
    intros h h' s k E. unfold rc_of, get. rewrite E.
    destruct (nth_error h s) as [[[[hd|] fs]|]|]; simpl; reflexivity.
  Qed.

  (* moving the typing of a field list to a heap that agrees on the fields' cells *)
  Lemma fields_frame : forall n h h1 own fs lay,
      (forall x, In x (flat_map (fp1 (fp n h)) fs) -> nth_error h1 x = nth_error h x) ->
      (forall s, In s (flat_map (refs1 (all_refs n h)) fs) -> shared_ok h1 s) ->
      Forall2 (has_type (W n h) h own) fs lay ->
      Forall2 (has_type (W n h1) h1 own) fs lay /\
      flat_map (fp1 (fp n h1)) fs = flat_map (fp1 (fp n h)) fs /\
      flat_map (refs1 (all_refs n h1)) fs = flat_map (refs1 (all_refs n h)) fs.
  Proof.
    intros n h h1 own fs lay A S T. split; [|split].
    - eapply Forall2_impl_in; [|exact T]. intros v t Hv Tv.
      destruct t, v; simpl in *; auto; try contradiction.
      + eapply leaf_ok_frame; eauto. apply A. eapply in_fp1_fields; eauto. simpl; auto.
      + eapply Forall_impl_in; [|exact Tv]. intros x Hx Lx. eapply leaf_ok_frame; eauto.
        apply A. eapply in_fp1_fields; eauto.
      + destruct Tv as [W1 R1]. split.
        * eapply wf_frame; eauto.
          -- intros x Hx. apply A. eapply in_fp1_fields; eauto.
          -- intros s Hs. apply S. eapply in_refs1_fields; eauto.
        * rewrite <- R1. apply rc_same. apply A. eapply in_fp1_fields; eauto. simpl.
          eapply wf_in_fp; eauto.
      + apply S. eapply in_refs1_fields; eauto. simpl; auto.
    - apply flat_map_ext_in. intros v Hv. destruct v; simpl; auto.
      apply fp_frame. intros x Hx. apply A. eapply in_fp1_fields; eauto.
    - apply flat_map_ext_in. intros v Hv. destruct v; simpl; auto.
      apply all_refs_frame. intros x Hx. apply A. eapply in_fp1_fields; eauto.
  Qed.

  Lemma release_fields_ok : forall n fuel,
      drop_spec fuel n -> 1 <= fuel ->
      forall fs lay das h own,
        Forall2 (has_type (W n h) h own) fs lay ->
        Forall2 (fun t d => dact_ok t d = true) lay das ->
        NoDup (flat_map (fp1 (fp n h)) fs) ->
        (forall s, In s (flat_map (refs1 (all_refs n h)) fs) -> ~ In s (flat_map (fp1 (fp n h)) fs)) ->
        slack h (flat_map (refs1 (all_refs n h)) fs) ->
        exists h', release_fields (sqfs_drop DK fuel) das fs h = Ok h' /\
                   released h h' (flat_map (fp1 (fp n h)) fs) (flat_map (refs1 (all_refs n h)) fs).
  Proof.
    intros n fuel IHd Hfuel. induction fs as [|v fs IH]; intros lay das h own T D ND DJ SL.
    - exists h. split; [destruct das; reflexivity|apply released_refl].
    - inversion T as [|v0 t fs0 lay' Tv Tfs]; subst. inversion D as [|t0 d lay0 das' Dv Dfs]; subst.
      simpl in ND, DJ, SL.
      (* the first field *)
      assert (Step : exists h1, release_field (sqfs_drop DK fuel) d v h = Ok h1 /\
                                released h h1 (fp1 (fp n h) v) (refs1 (all_refs n h) v)).
      { destruct t, v; simpl in Tv; try contradiction; destruct d; simpl in Dv; try discriminate;
          simpl; try (exists h; split; [reflexivity|apply released_refl]).
        - (* owned cell *)
          destruct Tv as (lf & G & _). destruct (released_free h a _ G) as (h1 & F & R). eauto.
        - (* owned cells *)
          apply released_free_list.
          + eapply NoDup_app_l; eauto.
          + intros x Hx. rewrite Forall_forall in Tv. destruct (Tv x Hx) as (lf & G & _). eauto.
        - (* sub-object *)
          destruct Tv as [W1 R1]. apply IHd with (k := k); auto.
          + split; [eapply NoDup_app_l; eauto|].
            intros s Hs Hf. apply (DJ s); apply in_or_app; left; assumption.
          + rewrite R1. lia.
          + eapply slack_app_l; eauto.
        - (* shared reference *)
          destruct fuel as [|fuel]; [lia|]. apply drop_shared; auto.
          specialize (SL a (or_introl eq_refl)). simpl in SL.
          destruct (Nat.eq_dec a a); [|congruence]. lia. }
      destruct Step as (h1 & E1 & R1).
      (* the remaining fields see the same cells in h1 *)
      assert (A : forall x, In x (flat_map (fp1 (fp n h)) fs) -> nth_error h1 x = nth_error h x).
      { intros x Hx. destruct R1 as (_ & _ & B). rewrite B.
        - rewrite cnt_not_in; [apply option_map_sub0|].
          intro Hr. apply (DJ x); apply in_or_app; [left|right]; assumption.
        - intro Hf. eapply NoDup_app_disj; eauto. }
      assert (S1 : forall s, In s (flat_map (refs1 (all_refs n h)) fs) -> shared_ok h1 s).
      { intros s Hs. assert (Sh : shared_ok h s).
        { apply in_flat_map in Hs. destruct Hs as (v' & Hv' & Hs).
          destruct (Forall2_in_l _ _ _ _ _ _ Tfs Hv') as (t' & _ & T').
          destruct v'; simpl in Hs; try contradiction.
          - destruct t'; simpl in T'; try contradiction. destruct T' as [W' _].
            eapply wf_refs_shared; eauto.
          - destruct Hs as [<-|[]]. destruct t'; simpl in T'; try contradiction. assumption. }
        destruct R1 as (_ & _ & B). eapply shared_ok_same; [exact Sh|]. apply B.
        intro Hf. apply (DJ s); apply in_or_app; [right|left]; assumption. }
      destruct (fields_frame n h h1 own fs lay' A S1 Tfs) as (T1 & EF & ER).
      destruct (IH lay' das' h1 own T1 Dfs) as (h2 & E2 & R2).
      + rewrite EF. eapply NoDup_app_r; eauto.
      + rewrite EF, ER. intros s Hs Hf. apply (DJ s); apply in_or_app; right; assumption.
      + rewrite ER. intros s Hs.
        assert (Ns : ~ In s (fp1 (fp n h) v)).
        { intro Hf. apply (DJ s); apply in_or_app; [right|left]; assumption. }
        destruct R1 as (_ & _ & B). rewrite (rc_of_sub h h1 s _ (B s Ns)).
        specialize (SL s (in_or_app _ _ _ (or_intror Hs))).
        fold (cnt (refs1 (all_refs n h) v ++ flat_map (refs1 (all_refs n h)) fs) s) in SL.
        rewrite cnt_app in SL. fold (cnt (flat_map (refs1 (all_refs n h)) fs) s). lia.
      + exists h2. split.
        * simpl. rewrite E1. simpl. exact E2.
        * rewrite EF, ER in R2. simpl. eapply released_trans; eauto.
  Qed.

  Theorem drop_ok : forall n fuel, n + 1 <= fuel -> drop_spec fuel n.
  Proof.
    induction n as [|n IH]; intros fuel Hf h a k Wf Sep Hrc SL; [destruct Wf|].
    destruct fuel as [|fuel]; [lia|].
    assert (IHd : drop_spec fuel n) by (apply IH; lia).
    destruct Wf as (rc & fs & G & T).
    assert (Hfs : fields_of h a = fs) by (unfold fields_of; rewrite G; reflexivity).
    destruct Sep as [ND DJ]. rewrite fp_S, Hfs in ND, DJ. rewrite all_refs_S, Hfs in DJ, SL.
    unfold rc_of in Hrc. rewrite G in Hrc. simpl in Hrc.
    apply NoDup_cons_iff in ND. destruct ND as [Na ND'].
    destruct (release_fields_ok n fuel IHd ltac:(lia) fs (LAY k) (DK k) h (a :: owned_of fs))
      as (h1 & E1 & R1); auto.
    { intros s Hs Hf'. apply (DJ s Hs). right; assumption. }
    assert (Ga : get h1 a = Some (mkC (Some (mkH rc (Some k) (Some k))) fs)).
    { rewrite <- G. apply get_same. destruct R1 as (_ & _ & B). rewrite B by assumption.
      rewrite cnt_not_in; [apply option_map_sub0|].
      intro Hr. apply (DJ a Hr). left; reflexivity. }
    destruct (released_free h1 a _ Ga) as (h2 & E2 & R2).
    exists h2. split.
    - simpl. rewrite (load_of_get _ _ _ G). simpl.
      destruct (rc <=? 1)%N eqn:E; [|apply N.leb_gt in E; lia].
      unfold destroy_obj. rewrite (load_of_get _ _ _ G). simpl. rewrite E1. simpl. exact E2.
    - rewrite fp_S, all_refs_S, Hfs.
      eapply released_equiv; [| |eapply released_trans; [exact R1|exact R2]].
      + intros x. rewrite in_app_iff. simpl. tauto.
      + intros x. rewrite app_nil_r. reflexivity.
  Qed.

  (* a drop that does not release: somebody else still holds the object *)
  Lemma drop_held : forall fuel h a,
      shared_ok h a -> (1 < rc_of h a)%N ->
      exists h', sqfs_drop DK (S fuel) h a = Ok h' /\ released h h' [] [a].
  Proof. exact drop_shared. Qed.
End Drop.
