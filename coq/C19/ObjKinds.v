(* C19, layer (ii): the struct layouts of the copyable libsquashfs objects and
   the transcription of their copy / destroy hooks.  Definitions only.

   Field order below is the order of the tokens printed by props/C19/p_*.c.
   Plain-data members of a struct are merged into one TData field.

   struct                         fields
   xz/lz4/lzma_compressor_t       [D]
   gzip_compressor_t              [Own strm.state; D]
   zstd_compressor_t              [Own zctx; D]
   sqfs_file_stdio_t              [Own fd; D]
   sqfs_meta_reader_t             [D; Ref file; Ref cmp]
   sqfs_frag_table_t/id_table_t   [D; Own array.data]
   sqfs_data_reader_t             [Obj frag_tbl; Ref cmp; Ref file; Own data_block; Own frag_block; D]
   sqfs_dir_reader_t              [Obj meta_dir; Obj meta_inode; D; OwnL dcache nodes; Int dcache.root]
                                  node = [Int left; Int right; D key+value]
   sqfs_xattr_reader_t            [D; Own id_block_starts; Obj idrd; Obj kvrd]
   sqfs_xattr_writer_t            keys:   [Own bucket_ptrs.data (Int bucket ..); Own ht (Int bucket ..);
                                           OwnL buckets; D next_index]
                                  values: the same four
                                  [Own kv_pairs.data; D; OwnL kv_block_tree nodes; Int root;
                                   Int key_context; Int kv_block_first; Int kv_block_last]
                                  node = [Int left; Int right; Int next; D start,count,.. + value]
*)
From Coq Require Import List NArith Bool Arith.
From SqfsV Require Import C19.ObjHeap C19.ObjHooks.
Import ListNotations.

Definition strtab_lay : list ftype := [TOwn TrAll; TOwn TrAll; TOwnL TrNone; TData].

Definition LAY (k : kind) : list ftype :=
  match k with
  | KXz | KLz4 | KLzma => [TData]
  | KGzip | KZstd | KFile => [TOwn TrNone; TData]
  | KMeta => [TData; TRef; TRef]
  | KFrag | KId => [TData; TOwn TrNone]
  | KData => [TObj KFrag; TRef; TRef; TOwn TrNone; TOwn TrNone; TData]
  | KDir => [TObj KMeta; TObj KMeta; TData; TOwnL TrAll; TInt]
  | KXrd => [TData; TOwn TrNone; TObj KMeta; TObj KMeta]
  | KXwr => strtab_lay ++ strtab_lay ++ [TOwn TrNone; TData; TOwnL TrAll; TInt; TInt; TInt; TInt]
  end.

(* ---- the copy hooks as they are after props/C19/fixes/*.patch ---- *)
Definition strtab_copy : list action := [ADup TrAll; ADup TrAll; ADupL TrNone; AKeep].

Definition HK_fixed (k : kind) : hook :=
  match k with
  (* xz_create_copy, lz4_create_copy, lzma_create_copy: malloc + memcpy *)
  | KXz | KLz4 | KLzma => mkHook HMemcpy [AKeep]
  (* gzip_create_copy: memcpy, memset(&strm,0), deflateInit2/inflateInit;
     zstd_create_copy: memcpy, ZSTD_createCCtx; stdio_copy: memcpy, dup(fd) *)
  | KGzip | KZstd | KFile => mkHook HMemcpy [ADup TrNone; AKeep]
  (* meta_reader_copy: memcpy; cmp = sqfs_grab(cmp); file = sqfs_grab(file) *)
  | KMeta => mkHook HMemcpy [AKeep; AGrab; AGrab]
  (* frag_table_copy / id_table_copy: calloc, sqfs_object_init (F19 fix), array_init_copy *)
  | KFrag => mkHook (HInit KFrag) [AKeep; ADup TrNone]
  | KId => mkHook (HInit KId) [AKeep; ADup TrNone]
  (* data_reader_copy: memcpy; frag_tbl = sqfs_copy; data_block, frag_block malloc+memcpy; grab file, cmp *)
  | KData => mkHook HMemcpy [ACopy; AGrab; AGrab; ADup TrNone; ADup TrNone; AKeep]
  (* dir_reader_copy: memcpy; rbtree_copy(dcache) (copy_node re-links left/right, root); sqfs_copy x2 *)
  | KDir => mkHook HMemcpy [ACopy; ACopy; AKeep; ADupL TrAll; ATr]
  (* xattr_reader_copy: memcpy; kvrd, idrd = sqfs_copy if non-NULL; id_block_starts alloc_array+memcpy *)
  | KXrd => mkHook HMemcpy [AKeep; ADup TrNone; ACopy; ACopy]
  (* xattr_writer_copy: memcpy; str_table_copy x2 (array_init_copy, hash_table_clone, bucket loop
     re-pointing slots and array); array_init_copy(kv_pairs); rbtree_copy; key_context = copy,
     first = last = NULL (F20 fix); the loop re-threads first/last/next through the new nodes *)
  | KXwr => mkHook HMemcpy (strtab_copy ++ strtab_copy ++
                            [ADup TrNone; AKeep; ADupL TrAll; ATr; ATr; ATr; ATr])
  end.

(* ---- the hooks of the unpatched tree (F19, F20) ---- *)
Definition HK_old (k : kind) : hook :=
  match k with
  (* calloc + array_init_copy, no sqfs_object_init *)
  | KFrag => mkHook HZero [AKeep; ADup TrNone]
  | KId => mkHook HZero [AKeep; ADup TrNone]
  (* rbtree_copy re-links left/right/root; key_context and kv_block_first keep
     the memcpy'd value; kv_block_last ends at the new node of the first block
     (exact for one block; with more blocks the old loop also stores into the
     ORIGINAL's last node - that extra damage is not expressible here) *)
  | KXwr => mkHook HMemcpy (strtab_copy ++ strtab_copy ++
                            [ADup TrNone; AKeep; ADupL (TrMask [true; true; false; false]);
                             ATr; AKeep; AKeep; ATr])
  | k => HK_fixed k
  end.

(* ---- the destroy hooks ---- *)
Definition strtab_destroy : list daction := [DFree; DFree; DFreeL; DNone].

Definition DK (k : kind) : list daction :=
  match k with
  | KXz | KLz4 | KLzma => [DNone]
  | KGzip | KZstd | KFile => [DFree; DNone]          (* deflateEnd / ZSTD_freeCCtx / close *)
  | KMeta => [DNone; DDrop; DDrop]
  | KFrag | KId => [DNone; DFree]                    (* array_cleanup *)
  | KData => [DDrop; DDrop; DDrop; DFree; DFree; DNone]
  | KDir => [DDrop; DDrop; DNone; DFreeL; DNone]     (* rbtree_cleanup *)
  | KXrd => [DNone; DFree; DDrop; DDrop]
  | KXwr => strtab_destroy ++ strtab_destroy ++ [DFree; DNone; DFreeL; DNone; DNone; DNone; DNone]
  end.

Definition all_kinds : list kind :=
  [KXz; KLz4; KLzma; KGzip; KZstd; KFile; KMeta; KFrag; KId; KData; KDir; KXrd; KXwr].

Definition hooks_ok (HK : kind -> hook) : bool :=
  forallb (fun k => hook_ok k (LAY k) (HK k) (DK k)) all_kinds.

(* ------------------------------------------------------------------------- *)
(* Builders: a heap holding one object of a given kind in a given shape (which
   nullable members are set, how many nodes / strings / ids), plus the shared
   file and compressor it references.  Used by the examples and by the tie
   (the shape is what the probes report about the original).                 *)
(* ------------------------------------------------------------------------- *)
Definition hdr (rc : N) (k : kind) : option header := Some (mkH rc (Some k) (Some k)).
Definition leaf (fs : list val) : cell := mkC None fs.
Definition push (h : heap) (c : cell) : heap * addr := (h ++ [Live c], length h).

Fixpoint seqN (n : nat) : list N :=
  match n with O => [] | S n' => seqN n' ++ [N.of_nat n'] end.

(* shared environment: file at 0 (descriptor 1), compressor at 2 (stream 3) *)
Definition env_heap (rc_file rc_cmp : N) : heap :=
  [Live (mkC (hdr rc_file KFile) [VOwn 1; VData [7%N]]); Live (leaf [VData []]);
   Live (mkC (hdr rc_cmp KGzip) [VOwn 3; VData [9%N]]); Live (leaf [VData []])].
Definition a_file : addr := 0.
Definition a_cmp : addr := 2.

Definition opt_leaf (h : heap) (present : bool) (payload : list N) : heap * val :=
  if present then let '(h1, a) := push h (leaf [VData payload]) in (h1, VOwn a) else (h, VNull).

Definition mk_flat (k : kind) (rc : N) : heap * addr :=
  push [] (mkC (hdr rc k) [VData [1%N; 2%N; 3%N]]).

Definition mk_res (k : kind) (rc : N) : heap * addr :=
  let '(h1, r) := push [] (leaf [VData []]) in
  push h1 (mkC (hdr rc k) [VOwn r; VData [4%N; 5%N]]).

Definition mk_meta_in (h : heap) (rc : N) : heap * addr :=
  push h (mkC (hdr rc KMeta) [VData [11%N; 12%N]; VRef a_file; VRef a_cmp]).

Definition mk_meta (rc rc_file rc_cmp : N) : heap * addr :=
  mk_meta_in (env_heap rc_file rc_cmp) rc.

Definition mk_table_in (h : heap) (k : kind) (rc : N) (used : nat) : heap * addr :=
  let '(h1, b) := push h (leaf [VData (seqN used)]) in
  push h1 (mkC (hdr rc k) [VData [N.of_nat used]; VOwn b]).

Definition mk_table (k : kind) (rc : N) (used : nat) : heap * addr := mk_table_in [] k rc used.

Definition mk_data (rc : N) (frag_used : nat) (db fb : bool) (rc_file rc_cmp : N) : heap * addr :=
  let '(h1, ft) := mk_table_in (env_heap rc_file rc_cmp) KFrag 1 frag_used in
  let '(h2, vdb) := opt_leaf h1 db [21%N; 22%N] in
  let '(h3, vfb) := opt_leaf h2 fb [23%N] in
  push h3 (mkC (hdr rc KData) [VObj ft; VRef a_cmp; VRef a_file; vdb; vfb; VData [4096%N]]).

(* n tree nodes laid out as a left spine: node i has left child i+1 *)
Fixpoint mk_nodes (h : heap) (n : nat) (extra : nat -> list val) : heap * list addr :=
  match n with
  | O => (h, [])
  | S n' =>
      let '(h1, rest) := mk_nodes h n' extra in
      let child := match rest with [] => VNull | a :: _ => VInt a end in
      let '(h2, a) := push h1 (leaf ([child; VNull] ++ extra n')) in
      (h2, a :: rest)
  end.

Definition root_of (l : list addr) : val := match l with [] => VNull | a :: _ => VInt a end.
Definition last_of (l : list addr) : val := match rev l with [] => VNull | a :: _ => VInt a end.

Definition mk_dir (rc : N) (nodes : nat) (rc_file rc_cmp : N) : heap * addr :=
  let '(h1, md) := mk_meta_in (env_heap rc_file rc_cmp) 1 in
  let '(h2, mi) := mk_meta_in h1 1 in
  let '(h3, ns) := mk_nodes h2 nodes (fun i => [VData [N.of_nat i]]) in
  push h3 (mkC (hdr rc KDir) [VObj md; VObj mi; VData [1%N]; VOwnL ns; root_of ns]).

Definition mk_xrd (rc : N) (ids idrd kvrd : bool) (rc_file rc_cmp : N) : heap * addr :=
  let h0 := env_heap rc_file rc_cmp in
  let '(h1, vids) := opt_leaf h0 ids [31%N] in
  let '(h2, vid) := if idrd then let '(h, a) := mk_meta_in h1 1 in (h, VObj a) else (h1, VNull) in
  let '(h3, vkv) := if kvrd then let '(h, a) := mk_meta_in h2 1 in (h, VObj a) else (h2, VNull) in
  push h3 (mkC (hdr rc KXrd) [VData [5%N]; vids; vid; vkv]).

(* n string buckets, the index array and the hash slots pointing at them *)
Fixpoint mk_buckets (h : heap) (n : nat) : heap * list addr :=
  match n with
  | O => (h, [])
  | S n' =>
      let '(h1, rest) := mk_buckets h n' in
      let '(h2, a) := push h1 (leaf [VData [N.of_nat n'; 1%N; 65%N]]) in
      (h2, rest ++ [a])
  end.

Definition mk_strtab (h : heap) (n : nat) : heap * list val :=
  let '(h1, bs) := mk_buckets h n in
  let '(h2, arr) := push h1 (leaf (map VInt bs)) in
  let '(h3, ht) := push h2 (leaf (map VInt (rev bs))) in
  (h3, [VOwn arr; VOwn ht; VOwnL bs; VData [N.of_nat n]]).

(* the block list threads through the tree nodes: node i's next is node i-1
   (list order = reverse of the node list), first = last node built, last = first *)
Fixpoint thread_next (h : heap) (l : list addr) (prev : val) : heap :=
  match l with
  | [] => h
  | a :: t =>
      let h1 := match nth_error h a with
                | Some (Live c) =>
                    match c_fields c with
                    | l0 :: r0 :: _ :: rest => upd h a (Live (mkC None (l0 :: r0 :: prev :: rest)))
                    | _ => h
                    end
                | _ => h
                end in
      thread_next h1 t (VInt a)
  end.

Definition mk_xwr (rc : N) (keys values pairs nodes : nat) : heap * addr :=
  let '(h1, fk) := mk_strtab [] keys in
  let '(h2, fv) := mk_strtab h1 values in
  let '(h3, kv) := push h2 (leaf [VData (seqN pairs)]) in
  let '(h4, ns) := mk_nodes h3 nodes (fun i => [VNull; VData [N.of_nat i; 1%N]]) in
  let h5 := thread_next h4 ns VNull in
  let self := length h5 in
  push h5 (mkC (hdr rc KXwr)
               (fk ++ fv ++ [VOwn kv; VData [N.of_nat pairs; N.of_nat nodes]; VOwnL ns;
                             root_of ns; VInt self; last_of ns; root_of ns])).

(* ------------------------------------------------------------------------- *)
(* Classification of the copy's object graph relative to the original's: the
   model's side of the probe tokens.                                          *)
(* ------------------------------------------------------------------------- *)
Inductive ptr_state := PNull | PFresh | PAlias | POther.
Inductive inner_state := INone | IInside | IOutside.   (* t-  tC  tA *)

Inductive tok :=
| TkHdr (d c : bool) (rc : N)
| TkData (eq : bool)
| TkOwn (s : ptr_state) (empty : bool) (inner : option inner_state)
| TkOwnL (n : nat) (s : ptr_state) (inner : option inner_state)
| TkObj (s : ptr_state) (sub : list tok)
| TkRef (s : ptr_state) (rc : N)
| TkInt (s : ptr_state).        (* PFresh = into the copy, PAlias = the original's value *)

Fixpoint list_eqb (a b : list N) : bool :=
  match a, b with
  | [], [] => true
  | x :: a', y :: b' => N.eqb x y && list_eqb a' b'
  | _, _ => false
  end.

Definition mem (a : addr) (l : list addr) : bool := existsb (Nat.eqb a) l.

Definition leaf_fields (h : heap) (a : addr) : list val :=
  match get h a with Some c => c_fields c | None => [] end.

Definition leaf_empty (h : heap) (a : addr) : bool :=
  forallb (fun v => match v with VData [] => true | _ => false end) (leaf_fields h a).

(* plain payloads equal, pointer positions agree *)
Fixpoint fields_like (a b : list val) : bool :=
  match a, b with
  | [], [] => true
  | VData x :: a', VData y :: b' => list_eqb x y && fields_like a' b'
  | VNull :: a', VNull :: b' => fields_like a' b'
  | VInt _ :: a', VInt _ :: b' => fields_like a' b'
  | _, _ => false
  end.

Definition inner_of (h : heap) (own : list addr) (ls : list addr) : inner_state :=
  let ptrs := flat_map (fun a => flat_map (fun v => match v with VInt x => [x] | _ => [] end)
                                          (leaf_fields h a)) ls in
  match ptrs with
  | [] => INone
  | _ => if forallb (fun x => mem x own) ptrs then IInside else IOutside
  end.

Definition has_inner (tm : trmode) : bool := match tm with TrNone => false | _ => true end.

Definition classify_field (sub : heap -> addr -> addr -> list tok)
           (h : heap) (own_c : list addr) (t : ftype) (vo vc : val) : tok :=
  match t with
  | TData => match vo, vc with VData x, VData y => TkData (list_eqb x y) | _, _ => TkData false end
  | TInt =>
      match vo, vc with
      | VNull, VNull => TkInt PNull
      | _, VInt c => if mem c own_c then TkInt PFresh
                     else match vo with VInt o => if Nat.eqb o c then TkInt PAlias else TkInt POther
                                   | _ => TkInt POther end
      | _, _ => TkInt POther
      end
  | TOwn tm =>
      match vo, vc with
      | VNull, VNull => TkOwn PNull false None
      | VOwn o, VOwn c =>
          let st := if Nat.eqb o c then PAlias
                    else if fields_like (leaf_fields h o) (leaf_fields h c) then PFresh else POther in
          TkOwn st (leaf_empty h c) (if has_inner tm then Some (inner_of h own_c [c]) else None)
      | _, _ => TkOwn POther false None
      end
  | TOwnL tm =>
      match vo, vc with
      | VOwnL lo, VOwnL lc =>
          let st := if negb (Nat.eqb (length lo) (length lc)) then POther
                    else if existsb (fun c => mem c lo) lc then PAlias
                    else if forallb (fun p => fields_like (leaf_fields h (fst p)) (leaf_fields h (snd p)))
                                    (combine lo lc) then PFresh else POther in
          TkOwnL (length lc) st (if has_inner tm then Some (inner_of h own_c lc) else None)
      | _, _ => TkOwnL 0 POther None
      end
  | TObj _ =>
      match vo, vc with
      | VNull, VNull => TkObj PNull []
      | VObj o, VObj c => if Nat.eqb o c then TkObj PAlias [] else TkObj PFresh (sub h o c)
      | _, _ => TkObj POther []
      end
  | TRef =>
      match vo, vc with
      | VNull, VNull => TkRef PNull 0
      | VRef o, VRef c =>
          if Nat.eqb o c then
            TkRef PAlias (match get h c with
                         | Some cc => match c_hdr cc with Some hd => h_rc hd | None => 0 end
                         | None => 0 end)
          else TkRef POther 0
      | _, _ => TkRef POther 0
      end
  end.

Fixpoint classify_fields (sub : heap -> addr -> addr -> list tok) (h : heap) (own_c : list addr)
         (lay : list ftype) (fo fc : list val) : list tok :=
  match lay, fo, fc with
  | t :: lay', vo :: fo', vc :: fc' =>
      classify_field sub h own_c t vo vc :: classify_fields sub h own_c lay' fo' fc'
  | _, _, _ => []
  end.

Definition kind_of_cell (c : cell) (dflt : kind) : kind :=
  match c_hdr c with
  | Some hd => match h_destroy hd with Some k => k
                                  | None => match h_copy hd with Some k => k | None => dflt end end
  | None => dflt
  end.

(* [k]: the static type of the object (the probe knows which struct it prints) *)
Fixpoint classify (n : nat) (k : kind) (h : heap) (o c : addr) : list tok :=
  match n with
  | O => []
  | S n' =>
      match get h o, get h c with
      | Some co, Some cc =>
          let hd := match c_hdr cc with
                    | Some hd => TkHdr (match h_destroy hd with Some _ => true | None => false end)
                                      (match h_copy hd with Some _ => true | None => false end)
                                      (h_rc hd)
                    | None => TkHdr false false 0
                    end in
          let own_c := c :: owned_of (c_fields cc) in
          let sub := fun h' o' c' =>
                       classify n' (match get h' o' with Some x => kind_of_cell x KMeta | None => KMeta end)
                                h' o' c' in
          hd :: classify_fields sub h own_c (LAY k) (c_fields co) (c_fields cc)
      | _, _ => []
      end
  end.

Definition rc_of (h : heap) (a : addr) : N :=
  match get h a with
  | Some c => match c_hdr c with Some hd => h_rc hd | None => 0 end
  | None => 0
  end.

Definition live_count (h : heap) : nat :=
  length (filter (fun s => match s with Live _ => true | Freed => false end) h).
