(* C19: a data reader block read through the shared file and compressor is
   [shared_preserving_op] (same proviso as for the meta reader).

   sqfs_data_reader_t = [Obj frag_tbl; Ref cmp; Ref file; Own data_block; Own frag_block; D].
   The operation (precache_data_block / get_block): operand and reader state select the
   compressed block in the bytes of the shared file ([req]), the SHARED compressor unpacks
   it (cmp->do_block, overwriting the stream cell the compressor owns), the block lands in the
   reader's OWN data_block buffer, the reader's plain state (current block index ...) is
   updated and an answer is given ([fin]).  Fragment table and fragment buffer are not
   touched.  A reader without data_block buffer answers [dflt] (the C code allocates it at
   creation). *)
From Coq Require Import List NArith Bool Arith Lia.
From SqfsV Require Import C19.ObjHeap C19.ObjHooks C19.ObjKinds C19.ObjSpec C19.ObjBase C19.ObjFrame
     C19.ObjDrop C19.ObjCopy3 C19.ObjPair C19.ObjOps C19.ObjGenDefs C19.ObjGenBase C19.ObjGenPair
     C19.ObjShared C19.ObjSharedDefs C19.ObjSharedInst.
Import ListNotations.

Section DataOp.
  Variables P A : Type.
  Variable blk : list N -> list N -> list N -> list N * list N.
  Variable req : P -> list N -> list N -> list N.
  Variable fin : P -> list N -> list N -> list N * A.
  Variable dflt : A.

  Definition run_dblock (p : P) (h : heap) (x : addr) : heap * A :=
    match get h x with
    | Some c =>
        match c_fields c with
        | [v1; v2; v3; v4; v5; v6] =>
            match v2, v3, v4, v6 with
            | VRef cm, VRef fl, VOwn db, VData st =>
                match file_bytes h fl with
                | Some b =>
                    match cmp_block blk h cm (req p st b) with
                    | Some (h1, out) =>
                        (upd (upd h1 db (Live (mkC None [VData out]))) x
                             (Live (mkC (c_hdr c) [v1; VRef cm; VRef fl; VOwn db; v5; VData (fst (fin p st out))])),
                         snd (fin p st out))
                    | None => (h, dflt)
                    end
                | None => (h, dflt)
                end
            | _, _, _, _ => (h, dflt)
            end
        | _ => (h, dflt)
        end
    | None => (h, dflt)
    end.

  Definition step_dblock (env : list aval) (p : P) (a : aval) : aval * A :=
    match a with
    | AObj d c [a1; a2; a3; a4; a5; a6] =>
        match a2, a3, a4, a6 with
        | ARef cm, ARef fl, ALeaf _, AData st =>
            match env with
            | [vc; vf] =>
                match view_bytes vf with
                | Some b =>
                    match view_block blk vc (req p st b) with
                    | Some out =>
                        (AObj d c [a1; ARef cm; ARef fl; ALeaf [AData out]; a5; AData (fst (fin p st out))],
                         snd (fin p st out))
                    | None => (a, dflt)
                    end
                | None => (a, dflt)
                end
            | _ => (a, dflt)
            end
        | _, _, _, _ => (a, dflt)
        end
    | _ => (a, dflt)
    end.

  Hypothesis blk_stateless : forall cfg z z' i, snd (blk cfg z i) = snd (blk cfg z' i).

  Lemma abs_obj_S_get : forall n h a hd fs,
      get h a = Some (mkC (Some hd) fs) ->
      abs_obj (S n) h a = AObj (h_destroy hd) (h_copy hd) (map (abs_val (abs_obj n h) h (a :: owned_of fs)) fs).
  Proof. intros n h a hd fs G. simpl. rewrite G. reflexivity. Qed.

  Lemma abs_val_frame : forall n h h' own v,
      (forall x, In x (fp1 (fp n h) v) -> nth_error h' x = nth_error h x) ->
      abs_val (abs_obj n h') h' own v = abs_val (abs_obj n h) h own v.
  Proof.
    intros n h h' own v Af. destruct v; simpl in *; auto.
    - unfold abs_leaf. f_equal. f_equal. apply fields_same. apply Af. auto.
    - f_equal. apply map_ext_in. intros x Hx. unfold abs_leaf. f_equal. f_equal. apply fields_same.
      apply Af. assumption.
    - apply abs_frame. assumption.
  Qed.

  Lemma tobj_frag_norefs : forall h own v,
      has_type (W 1 h) h own v (TObj KFrag) -> refs1 (all_refs 1 h) v = [].
  Proof.
    intros h own v T. destruct v; simpl in T; try contradiction; try reflexivity.
    destruct T as [(rc & fs & G & T) _]. cbn [refs1]. rewrite all_refs_S. unfold fields_of. rewrite G.
    cbn [c_fields]. simpl in T. inv_F2.
    repeat match goal with
           | H : has_type _ _ _ ?v _ |- _ => destruct v; simpl in H; try contradiction; clear H
           end; reflexivity.
  Qed.

  (* one field, typed in h, seen from a heap that agrees with h on the field's cells *)
  Lemma field_frame : forall h h' own v t,
      has_type (W 1 h) h own v t ->
      (forall x, In x (fp1 (fp 1 h) v) -> nth_error h' x = nth_error h x) ->
      (forall s, In s (refs1 (all_refs 1 h) v) -> shared_ok h' s) ->
      has_type (W 1 h') h' own v t /\ fp1 (fp 1 h') v = fp1 (fp 1 h) v /\
      refs1 (all_refs 1 h') v = refs1 (all_refs 1 h) v.
  Proof.
    intros h h' own v t T Af Sf.
    destruct (fields_frame 1 h h' own [v] [t]) as (T' & EF & ER).
    - intros x Hx. simpl in Hx. rewrite app_nil_r in Hx. auto.
    - intros s Hs. simpl in Hs. rewrite app_nil_r in Hs. auto.
    - constructor; [assumption|constructor].
    - simpl in EF, ER. rewrite !app_nil_r in EF, ER. inversion T'; subst. auto.
  Qed.

  Notation run := run_dblock.
  Notation step := step_dblock.

  Theorem run_dblock_shared_preserving : shared_preserving_op 1 2 KData cfg_view P A run step.
  Proof.
    intros p h x h' r (W & E) Er. pose proof W as W0.
    destruct W as (rc & fs & G & T). pose proof T as T0.
    cbn [LAY] in T.
    inversion T as [|v1 t1 l1 l1' T1 Ta]; subst. inversion Ta as [|v2 t2 l2 l2' T2 Tb]; subst.
    inversion Tb as [|v3 t3 l3 l3' T3 Tc]; subst. inversion Tc as [|v4 t4 l4 l4' T4 Td]; subst.
    inversion Td as [|v5 t5 l5 l5' T5 Te]; subst. inversion Te as [|v6 t6 l6 l6' T6 Tf]; subst.
    inversion Tf; subst. clear T Ta Tb Tc Td Te Tf.
    set (own := x :: owned_of [v1; v2; v3; v4; v5; v6]) in *.
    assert (Hfs : fields_of h x = [v1; v2; v3; v4; v5; v6]) by (unfold fields_of; rewrite G; reflexivity).
    assert (Triv : (h', r) = (h, dflt) ->
                   step (senv 1 cfg_view h (all_refs 2 h x)) p (abs_obj 2 h x) = (abs_obj 2 h x, dflt) ->
      length h <= length h' /\
      (forall y, y < length h -> ~ In y (fp 2 h x) -> ~ In y (shared_fp 1 h (all_refs 2 h x)) ->
                 nth_error h' y = nth_error h y) /\
      (forall s, In s (all_refs 2 h x) ->
                 nth_error h' s = nth_error h s /\ closed_obj 1 h' s /\ fp 1 h' s = fp 1 h s /\
                 cfg_view (abs_obj 1 h' s) = cfg_view (abs_obj 1 h s)) /\
      wf_obj 2 h' x KData /\ NoDup (fp 2 h' x) /\
      (forall y, In y (fp 2 h' x) -> In y (fp 2 h x) \/ length h <= y) /\
      all_refs 2 h' x = all_refs 2 h x /\ rc_of h' x = rc_of h x /\
      abs_obj 2 h' x = fst (step (senv 1 cfg_view h (all_refs 2 h x)) p (abs_obj 2 h x)) /\
      r = snd (step (senv 1 cfg_view h (all_refs 2 h x)) p (abs_obj 2 h x))).
    { intros E0 Es. inversion E0; subst h' r. rewrite Es. simpl fst. simpl snd.
      destruct E as (C & (ND & _) & _).
      split; [lia|]. split; [auto|]. split; [intros s Hs; auto|]. auto 10. }
    assert (Abs : abs_obj 2 h x = AObj (Some KData) (Some KData)
                    (map (abs_val (abs_obj 1 h) h own) [v1; v2; v3; v4; v5; v6])).
    { cbn [abs_obj]. rewrite G. reflexivity. }
    unfold run_dblock in Er. rewrite G in Er. cbn [c_fields c_hdr] in Er.
    destruct v6; simpl in T6; try contradiction. clear T6.
    destruct v2; simpl in T2; try contradiction;
      [apply Triv; [congruence|rewrite Abs; reflexivity]|].
    destruct v3; simpl in T3; try contradiction;
      [apply Triv; [congruence|rewrite Abs; reflexivity]|].
    destruct v4; cbn [has_type] in T4; try contradiction;
      [apply Triv; [congruence|rewrite Abs; reflexivity]|].
    rename a into cm. rename a0 into fl. rename a1 into db. rename d into st.
    pose proof (tobj_frag_norefs h own v1 T1) as R1.
    assert (R5 : refs1 (all_refs 1 h) v5 = []) by (destruct v5; simpl in T5; try contradiction; reflexivity).
    assert (Hrefs : all_refs 2 h x = [cm; fl]).
    { rewrite all_refs_S, Hfs. cbn [flat_map refs1]. rewrite R1, R5. reflexivity. }
    set (F1 := fp1 (fp 1 h) v1) in *. set (F5 := fp1 (fp 1 h) v5) in *.
    assert (Hfp : fp 2 h x = x :: F1 ++ db :: F5 ++ []).
    { rewrite fp_S, Hfs. reflexivity. }
    rewrite Hrefs, Hfp in *.
    pose proof E as (C & (ND & D1 & D2) & Cn).
    assert (Cfl : closed_obj 1 h fl) by (apply C; simpl; auto).
    assert (Ccm : closed_obj 1 h cm) by (apply C; simpl; auto).
    assert (Senv : senv 1 cfg_view h [cm; fl] = [cfg_view (abs_obj 1 h cm); cfg_view (abs_obj 1 h fl)]) by reflexivity.
    assert (Abs4 : abs_val (abs_obj 1 h) h own (VOwn db) = ALeaf (map (abs_lval own) (fields_of h db))) by reflexivity.
    destruct (file_bytes h fl) as [b|] eqn:Eb.
    2:{ apply Triv; [congruence|]. rewrite Abs, Senv. cbn [map step_dblock]. rewrite Abs4. cbn [abs_val].
        rewrite (file_bytes_view h fl Cfl), Eb. reflexivity. }
    destruct (cmp_block blk h cm (req p st b)) as [[h1 out]|] eqn:Ec.
    2:{ apply Triv; [congruence|]. rewrite Abs, Senv. cbn [map step_dblock]. rewrite Abs4. cbn [abs_val].
        rewrite (file_bytes_view h fl Cfl), Eb.
        rewrite (cmp_block_view blk blk_stateless h cm _ Ccm), Ec. reflexivity. }
    inversion Er; subst h' r. clear Er Triv.
    destruct (cmp_block_spec blk h cm _ h1 out Ccm Ec) as (L1 & Fr1 & Top1 & Cl1 & EF1 & V1).
    (* where things are *)
    assert (InX : forall z, In z (x :: F1 ++ db :: F5 ++ []) -> ~ In z (fp 1 h cm) /\ ~ In z (fp 1 h fl)).
    { intros z Hz. split; intro Hc; [apply (D1 cm z)|apply (D1 fl z)]; simpl; auto. }
    apply NoDup_cons_iff in ND. destruct ND as [NxL NDL].
    assert (Ndb : x <> db) by (intro; subst; apply NxL; apply in_or_app; right; left; reflexivity).
    assert (In1 : forall z, In z F1 -> z <> x /\ z <> db /\ ~ In z (fp 1 h cm)).
    { intros z Hz. split; [intro; subst; apply NxL; apply in_or_app; auto|]. split.
      - intro; subst. eapply NoDup_app_disj; [exact NDL|exact Hz|left; reflexivity].
      - apply InX. right. apply in_or_app; auto. }
    assert (In5 : forall z, In z F5 -> z <> x /\ z <> db /\ ~ In z (fp 1 h cm)).
    { intros z Hz. assert (Hz' : In z (F5 ++ [])) by (apply in_or_app; auto). split.
      - intro; subst. apply NxL. apply in_or_app. right. right. assumption.
      - split.
        + intro; subst. apply NoDup_app_r in NDL. inversion NDL; subst. contradiction.
        + apply InX. right. apply in_or_app. right. right. assumption. }
    assert (Tdb : exists lf, get h db = Some (mkC None lf)) by (destruct T4 as (lf & Gd & _); eauto).
    destruct Tdb as (lfd & Gdb).
    assert (Ndbc : ~ In db (fp 1 h cm)) by (apply InX; right; apply in_or_app; right; left; reflexivity).
    assert (Nxc : ~ In x (fp 1 h cm)) by (apply InX; left; reflexivity).
    assert (Gx1 : get h1 x = get h x) by (apply get_same; apply Fr1; assumption).
    assert (Gdb1 : get h1 db = Some (mkC None lfd)) by (rewrite <- Gdb; apply get_same; apply Fr1; assumption).
    set (st' := fst (fin p st out)).
    set (fs' := [v1; VRef cm; VRef fl; VOwn db; v5; VData st']).
    set (cx' := mkC (Some (mkH rc (Some KData) (Some KData))) fs').
    set (h2 := upd h1 db (Live (mkC None [VData out]))).
    set (h' := upd h2 x (Live cx')).
    assert (Gx2 : get h2 x = get h x) by (unfold h2; rewrite get_upd_neq by auto; assumption).
    assert (Gx' : get h' x = Some cx') by (unfold h'; eapply get_upd_eq; rewrite Gx2; exact G).
    assert (Gdb' : get h' db = Some (mkC None [VData out])).
    { unfold h'. rewrite get_upd_neq by auto. unfold h2. eapply get_upd_eq; eauto. }
    assert (Oth : forall y, y <> x -> y <> db -> nth_error h' y = nth_error h1 y).
    { intros y H1 H2. unfold h', h2. rewrite !nth_upd_neq by auto. reflexivity. }
    assert (Hfs' : fields_of h' x = fs') by (unfold fields_of; rewrite Gx'; reflexivity).
    assert (Shared : forall s, In s [cm; fl] ->
                 nth_error h' s = nth_error h s /\ closed_obj 1 h' s /\ fp 1 h' s = fp 1 h s /\
                 cfg_view (abs_obj 1 h' s) = cfg_view (abs_obj 1 h s)).
    { intros s Hs. destruct (Nat.eq_dec s cm) as [->|Ne].
      - assert (Ac : forall z, In z (fp 1 h cm) -> nth_error h' z = nth_error h1 z).
        { intros z Hz. apply Oth; intro; subst; contradiction. }
        destruct (closed_frame 1 h1 h' cm Cl1) as (C2 & EF2 & EA2).
        { intros z Hz. rewrite EF1 in Hz. auto. }
        split; [rewrite Ac by (apply closed_in_fp; assumption); assumption|]. split; [assumption|].
        split; [congruence|]. rewrite EA2. assumption.
      - assert (s = fl) by (destruct Hs as [<-|[<-|[]]]; congruence). subst s.
        assert (Af : forall z, In z (fp 1 h fl) -> nth_error h' z = nth_error h z).
        { intros z Hz. rewrite Oth.
          - apply Fr1. intro Hc. apply (D2 fl cm z); simpl; auto.
          - intro; subst. apply (InX x); [left; reflexivity|assumption].
          - intro; subst. apply (InX db); [right; apply in_or_app; right; left; reflexivity|assumption]. }
        destruct (closed_frame 1 h h' fl Cfl Af) as (C2 & EF2 & EA2).
        split; [apply Af; apply closed_in_fp; assumption|]. split; [assumption|].
        split; [assumption|]. rewrite EA2. reflexivity. }
    assert (A1 : forall z, In z F1 -> nth_error h' z = nth_error h z).
    { intros z Hz. destruct (In1 z Hz) as (X1 & X2 & X3). rewrite Oth by assumption. apply Fr1; assumption. }
    assert (A5 : forall z, In z F5 -> nth_error h' z = nth_error h z).
    { intros z Hz. destruct (In5 z Hz) as (X1 & X2 & X3). rewrite Oth by assumption. apply Fr1; assumption. }
    destruct (field_frame h h' own v1 (TObj KFrag) T1 A1) as (T1' & EF1' & ER1').
    { rewrite R1. intros ? []. }
    destruct (field_frame h h' own v5 (TOwn TrNone) T5 A5) as (T5' & EF5' & ER5').
    { rewrite R5. intros ? []. }
    assert (Hfp' : fp 2 h' x = x :: F1 ++ db :: F5 ++ []).
    { rewrite fp_S, Hfs'. unfold fs'. cbn [flat_map fp1 app]. rewrite EF1', EF5'. reflexivity. }
    assert (Hrefs' : all_refs 2 h' x = [cm; fl]).
    { rewrite all_refs_S, Hfs'. unfold fs'. cbn [flat_map refs1]. rewrite ER1', ER5', R1, R5. reflexivity. }
    split; [unfold h', h2; rewrite !length_upd; lia|]. split.
    { intros y Hy Ny Ns. rewrite Oth.
      - apply Fr1. intro Hc. apply Ns. unfold shared_fp. cbn [flat_map]. rewrite !in_app_iff. tauto.
      - intro; subst; apply Ny; left; reflexivity.
      - intro; subst; apply Ny; right; apply in_or_app; right; left; reflexivity. }
    split; [exact Shared|]. split.
    { exists rc, fs'. split; [exact Gx'|]. unfold fs'. cbn [LAY].
      change (x :: owned_of [v1; VRef cm; VRef fl; VOwn db; v5; VData st']) with own.
      constructor; [exact T1'|]. constructor.
      { simpl. destruct (Shared cm) as (_ & C2 & _); [simpl; auto|]. eapply closed_shared_ok; eauto. }
      constructor.
      { simpl. destruct (Shared fl) as (_ & C2 & _); [simpl; auto|]. eapply closed_shared_ok; eauto. }
      constructor.
      { simpl. exists [VData out]. split; [exact Gdb'|]. split; [constructor; [exact I|constructor]|].
        simpl. constructor; [exact I|constructor]. }
      constructor; [exact T5'|]. constructor; [exact I|constructor]. }
    split; [rewrite Hfp'; constructor; assumption|].
    split; [intros y Hy; left; rewrite Hfp' in Hy; exact Hy|].
    split; [assumption|].
    split; [unfold rc_of; rewrite Gx', G; reflexivity|].
    rewrite Abs, Senv. cbn [map step_dblock]. rewrite Abs4. cbn [abs_val].
    rewrite (file_bytes_view h fl Cfl), Eb.
    rewrite (cmp_block_view blk blk_stateless h cm _ Ccm), Ec. cbn [option_map snd fst].
    split; [|reflexivity].
    rewrite (abs_obj_S_get 1 h' x _ _ Gx'). cbn [h_destroy h_copy]. unfold fs'. cbn [map].
    change (x :: owned_of [v1; VRef cm; VRef fl; VOwn db; v5; VData st']) with own.
    rewrite (abs_val_frame 1 h h' own v1 A1), (abs_val_frame 1 h h' own v5 A5).
    cbn [abs_val]. unfold abs_leaf at 1. unfold fields_of at 1. rewrite Gdb'. reflexivity.
  Qed.
End DataOp.

(* ---- a concrete data reader (fragment table with two entries, both buffers) on the
   environment of ObjSharedEx.v, holding the last references or not ---- *)
From SqfsV Require Import C19.ObjSharedEx C19.ObjCheckDefs.
Local Open Scope N_scope.

Definition ex_data (rcf rcc : N) : heap * addr :=
  let '(h1, ft) := mk_table_in (ex_env rcf rcc) KFrag 1 2%nat in
  let '(h2, vdb) := opt_leaf h1 true [21; 22] in
  let '(h3, vfb) := opt_leaf h2 true [23] in
  push h3 (mkC (hdr 1 KData) [VObj ft; VRef a_cmp; VRef a_file; vdb; vfb; VData [4096]]).

Definition run_dblock_ok := run_dblock N (list N) blk_ok req_ex fin_ex [].
Definition step_dblock_ok := step_dblock N (list N) blk_ok req_ex fin_ex [].

Lemma ex_data_last_holder_life :
  ex_life run_dblock_ok (ex_data 1 1) ex_sched =
  Some ([(true, [4096; 110; 120]); (false, [4096; 130; 140]);
         (true, [110; 120; 120; 130]); (false, [130; 140; 110; 120])], Some (0%nat, 0, 0)) /\
  side true (match ex_life run_dblock_ok (ex_data 1 1) (only true ex_sched) with Some (rs, _) => rs | None => [] end)
  = [[4096; 110; 120]; [110; 120; 120; 130]] /\
  side false (match ex_life run_dblock_ok (ex_data 1 1) (only false ex_sched) with Some (rs, _) => rs | None => [] end)
  = [[4096; 130; 140]; [130; 140; 110; 120]] /\
  ex_life run_dblock_ok (ex_data 3 2) ex_sched =
  Some ([(true, [4096; 110; 120]); (false, [4096; 130; 140]);
         (true, [110; 120; 120; 130]); (false, [130; 140; 110; 120])], Some (4%nat, 2, 1)) /\
  copyable_g 1 2 (fst (ex_data 1 1)) (snd (ex_data 1 1)) KData = true /\
  copyable_g 1 2 (fst (ex_data 3 2)) (snd (ex_data 3 2)) KData = true.
Proof. vm_compute. repeat split; reflexivity. Qed.
