(* C19 / containers: the comparators the code hands to rbtree_init and qsort, as models, with the
   obligation "strict weak order" of the rbtree theorems (coq/Util/RbTheorems.v: cmp_antisym, cmp_trans)
   stated and proved per comparator -- next to [cmp_u32] = dcache_key_compare of coq/Util/RbModel.v --
   and refutations for the comparator one gets by returning a truncated difference of 64 bit keys.

     cmp_inum   lib/sqfs/src/io/dir_hl.c         compare_inum   key { sqfs_u64 dev; sqfs_u64 inum; }  (rbtree)
     cmp_u64    lib/sqfs/src/xattr/xattr_writer_record.c compare_u64  key sqfs_u64                    (qsort)
     cmp_block  lib/sqfs/src/xattr/xattr_writer.c block_compare  key (start, count) into the pair array (rbtree)

   Tied to the code by props/C19/cmp_census.py (same sign as the real static function on every pair of
   every generated key set, through the extracted driver props/C19/driver_cmp.ml). *)
From Coq Require Import NArith ZArith List Bool Lia.
From SqfsV Require Import Gen.Constants Util.GenUtil Util.RbModel Util.RbOrder Util.RbBalance Util.RbTheorems Util.RbExamples.
Import ListNotations.
Local Open Scope Z_scope.

(* a < b ? -1 : (a > b ? 1 : 0) *)
Definition cmp3 (x y : N) : Z := if (x <? y)%N then -1 else if (y <? x)%N then 1 else 0.

Lemma cmp3_lt : forall x y, cmp3 x y < 0 <-> (x < y)%N.
Proof.
  intros x y. unfold cmp3.
  destruct (x <? y)%N eqn:E1; [apply N.ltb_lt in E1; split; intro; [exact E1|lia]|].
  apply N.ltb_ge in E1. destruct (y <? x)%N eqn:E2; split; intro H; lia.
Qed.

Lemma cmp3_gt : forall x y, 0 < cmp3 x y <-> (y < x)%N.
Proof.
  intros x y. unfold cmp3.
  destruct (x <? y)%N eqn:E1; [apply N.ltb_lt in E1; split; intro; lia|].
  apply N.ltb_ge in E1. destruct (y <? x)%N eqn:E2;
    [apply N.ltb_lt in E2; split; intro; [exact E2|lia]|apply N.ltb_ge in E2; split; intro; lia].
Qed.

Lemma cmp3_le : forall x y, cmp3 x y <= 0 <-> (x <= y)%N.
Proof.
  intros x y. pose proof (cmp3_gt x y). split; intro H0.
  - destruct (N.le_gt_cases x y) as [L|G]; [exact L|]. apply H in G. lia.
  - destruct (Z.le_gt_cases (cmp3 x y) 0) as [L|G]; [exact L|]. apply H in G. lia.
Qed.

Lemma cmp3_zero : forall x y, cmp3 x y = 0 <-> x = y.
Proof.
  intros x y. unfold cmp3.
  destruct (x <? y)%N eqn:E1; [apply N.ltb_lt in E1; split; intro; [discriminate|lia]|].
  apply N.ltb_ge in E1.
  destruct (y <? x)%N eqn:E2; [apply N.ltb_lt in E2; split; intro; [discriminate|lia]|].
  apply N.ltb_ge in E2. split; intro; [lia|reflexivity].
Qed.

(* ------------------------------------------------------------------ dir_hl.c compare_inum *)
Definition key_dev (k : list N) : N := rd_le (firstn 8 k).
Definition key_inum (k : list N) : N := rd_le (firstn 8 (skipn 8 k)).

(*  if (l->dev != r->dev) return l->dev < r->dev ? -1 : 1;
    return l->inum < r->inum ? -1 : (l->inum > r->inum ? 1 : 0);  *)
Definition cmp_inum (a b : list N) : Z :=
  if (key_dev a =? key_dev b)%N then cmp3 (key_inum a) (key_inum b)
  else if (key_dev a <? key_dev b)%N then -1 else 1.

(*  return l->inum - r->inum;   the sqfs_u64 difference converted to the int the comparator returns *)
Definition trunc_int (d : Z) : Z :=
  let m := d mod 4294967296 in if m <? 2147483648 then m else m - 4294967296.

Definition cmp_inum_sub (a b : list N) : Z :=
  if (key_dev a =? key_dev b)%N then trunc_int (Z.of_N (key_inum a) - Z.of_N (key_inum b))
  else if (key_dev a <? key_dev b)%N then -1 else 1.

Lemma cmp_inum_antisym : forall a b, cmp_inum a b < 0 <-> 0 < cmp_inum b a.
Proof.
  intros a b. unfold cmp_inum.
  destruct (key_dev a =? key_dev b)%N eqn:E.
  - apply N.eqb_eq in E. rewrite E, N.eqb_refl. rewrite cmp3_lt, cmp3_gt. tauto.
  - apply N.eqb_neq in E.
    destruct (key_dev b =? key_dev a)%N eqn:E'; [apply N.eqb_eq in E'; congruence|].
    destruct (key_dev a <? key_dev b)%N eqn:L; destruct (key_dev b <? key_dev a)%N eqn:L';
      try apply N.ltb_lt in L; try apply N.ltb_lt in L'; try apply N.ltb_ge in L; try apply N.ltb_ge in L';
      split; intro; lia.
Qed.

Lemma cmp_inum_le : forall a b,
  cmp_inum a b <= 0 <-> (key_dev a < key_dev b \/ (key_dev a = key_dev b /\ key_inum a <= key_inum b))%N.
Proof.
  intros a b. unfold cmp_inum.
  destruct (key_dev a =? key_dev b)%N eqn:E.
  - apply N.eqb_eq in E. rewrite cmp3_le. split; [intro; right; tauto|intros [H|[_ H]]; [lia|exact H]].
  - apply N.eqb_neq in E. destruct (key_dev a <? key_dev b)%N eqn:L.
    + apply N.ltb_lt in L. split; [intro; left; exact L|intro; lia].
    + apply N.ltb_ge in L. split; [intro; lia|intros [H|[H _]]; [lia|congruence]].
Qed.

Lemma cmp_inum_trans : forall a b c, cmp_inum a b <= 0 -> cmp_inum b c <= 0 -> cmp_inum a c <= 0.
Proof. intros a b c. rewrite !cmp_inum_le. intros [H1|[H1 H1']] [H2|[H2 H2']]; [left|left|left|right]; try lia. Qed.

(* the tree never takes two different (dev, inode) pairs for one *)
Lemma cmp_inum_zero : forall a b, cmp_inum a b = 0 <-> (key_dev a = key_dev b /\ key_inum a = key_inum b).
Proof.
  intros a b. unfold cmp_inum.
  destruct (key_dev a =? key_dev b)%N eqn:E.
  - apply N.eqb_eq in E. rewrite cmp3_zero. tauto.
  - apply N.eqb_neq in E. destruct (key_dev a <? key_dev b)%N; split; intro H; try discriminate; tauto.
Qed.

(* ------------------------------------------------------------------ xattr_writer_record.c compare_u64 *)
Definition cmp_u64 (a b : list N) : Z := cmp3 (rd_le (firstn 8 a)) (rd_le (firstn 8 b)).

Lemma cmp_u64_antisym : forall a b, cmp_u64 a b < 0 <-> 0 < cmp_u64 b a.
Proof. intros. unfold cmp_u64. rewrite cmp3_lt, cmp3_gt. tauto. Qed.

Lemma cmp_u64_trans : forall a b c, cmp_u64 a b <= 0 -> cmp_u64 b c <= 0 -> cmp_u64 a c <= 0.
Proof. intros a b c. unfold cmp_u64. rewrite !cmp3_le. lia. Qed.

(* ------------------------------------------------------------------ xattr_writer.c block_compare *)
(* context: the bytes of xwr->kv_pairs.data (8 per pair); key: (start, count)

     if (l->count != r->count) return l->count < r->count ? -1 : 1;
     if (l->start == r->start) return 0;
     return memcmp(pairs + l->start, pairs + r->start, l->count * xwr->kv_pairs.size);                 *)
Definition run_bytes (pairs : list N) (k : N * N) : list N :=
  firstnN (8 * snd k) (skipnN (8 * fst k) pairs).

Definition cmp_block (pairs : list N) (a b : N * N) : Z :=
  if negb (snd a =? snd b)%N then (if (snd a <? snd b)%N then -1 else 1)
  else if (fst a =? fst b)%N then 0
  else cmp_bytes (run_bytes pairs a) (run_bytes pairs b).

Lemma cmp_bytes_refl : forall a, cmp_bytes a a = 0.
Proof. induction a as [|x a IH]; cbn; [reflexivity|]. rewrite N.ltb_irrefl. exact IH. Qed.

(* block_compare = count first, then the bytes of the run (the shortcut for equal starts changes nothing) *)
Lemma cmp_block_eq : forall pairs a b,
  cmp_block pairs a b =
  if negb (snd a =? snd b)%N then (if (snd a <? snd b)%N then -1 else 1)
  else cmp_bytes (run_bytes pairs a) (run_bytes pairs b).
Proof.
  intros pairs [s1 c1] [s2 c2]. unfold cmp_block. cbn [fst snd].
  destruct (c1 =? c2)%N eqn:EC; cbn [negb]; [|reflexivity].
  destruct (s1 =? s2)%N eqn:ES; [|reflexivity].
  apply N.eqb_eq in EC, ES. subst. unfold run_bytes. cbn [fst snd]. symmetry. apply cmp_bytes_refl.
Qed.

Lemma cmp_block_antisym : forall pairs a b, cmp_block pairs a b < 0 <-> 0 < cmp_block pairs b a.
Proof.
  intros pairs a b. rewrite !cmp_block_eq.
  destruct (snd a =? snd b)%N eqn:E.
  - apply N.eqb_eq in E. rewrite <- E, N.eqb_refl. cbn [negb]. apply cmp_bytes_antisym.
  - apply N.eqb_neq in E. destruct (snd b =? snd a)%N eqn:E'; [apply N.eqb_eq in E'; congruence|]. cbn [negb].
    destruct (snd a <? snd b)%N eqn:L; destruct (snd b <? snd a)%N eqn:L';
      try apply N.ltb_lt in L; try apply N.ltb_lt in L'; try apply N.ltb_ge in L; try apply N.ltb_ge in L';
      split; intro; lia.
Qed.

Lemma cmp_block_le : forall pairs a b,
  cmp_block pairs a b <= 0 <->
  (snd a < snd b)%N \/ (snd a = snd b /\ cmp_bytes (run_bytes pairs a) (run_bytes pairs b) <= 0).
Proof.
  intros pairs a b. rewrite cmp_block_eq.
  destruct (snd a =? snd b)%N eqn:E; cbn [negb].
  - apply N.eqb_eq in E. split; [intro; right; tauto|intros [H|[_ H]]; [lia|exact H]].
  - apply N.eqb_neq in E. destruct (snd a <? snd b)%N eqn:L.
    + apply N.ltb_lt in L. split; [intro; left; exact L|intro; lia].
    + apply N.ltb_ge in L. split; [intro; lia|intros [H|[H _]]; [lia|congruence]].
Qed.

Lemma cmp_block_trans : forall pairs a b c,
  cmp_block pairs a b <= 0 -> cmp_block pairs b c <= 0 -> cmp_block pairs a c <= 0.
Proof.
  intros pairs a b c. rewrite !cmp_block_le. intros [H1|[H1 H1']] [H2|[H2 H2']].
  - left; lia.
  - left; lia.
  - left; lia.
  - right. split; [lia|]. eapply cmp_bytes_trans; eassumption.
Qed.

(* ------------------------------------------------------------------ what the truncated difference does *)
Definition le8 (v : N) : list N :=
  [v mod 256; (v / 256) mod 256; (v / 65536) mod 256; (v / 16777216) mod 256;
   (v / 4294967296) mod 256; (v / 1099511627776) mod 256; (v / 281474976710656) mod 256;
   (v / 72057594037927936) mod 256]%N.

Definition inum_key (dev inum : N) : list N := le8 dev ++ le8 inum.

(* the inode reference of an inode at [off] in the k-th metadata block of an inode table whose blocks are
   stored uncompressed (2 byte header + SQFS_META_BLOCK_SIZE bytes each): what dir_iterator.c passes as inode *)
Definition inode_ref (k off : N) : N := (k * (c_SQFS_META_BLOCK_SIZE + 2) * 65536 + off)%N.

Example ex_inum_key_fields : key_dev (inum_key 5 (inode_ref 11 77)) = 5%N /\ key_inum (inum_key 5 (inode_ref 11 77)) = inode_ref 11 77.
Proof. vm_compute. split; reflexivity. Qed.

(* three inode references, 3 metadata blocks apart each: "<=" is not transitive *)
Lemma cmp_inum_sub_not_transitive :
  exists a b c, cmp_inum_sub a b <= 0 /\ cmp_inum_sub b c <= 0 /\ ~ cmp_inum_sub a c <= 0.
Proof.
  exists (inum_key 0 (inode_ref 0 0)), (inum_key 0 (inode_ref 3 0)), (inum_key 0 (inode_ref 6 0)).
  split; [vm_compute; discriminate|]. split; [vm_compute; discriminate|].
  intro H. vm_compute in H. apply H. reflexivity.
Qed.

(* two different inodes (2^32 apart) compare equal: the filter would take one for a hard link of the other *)
Lemma cmp_inum_sub_merges :
  exists a b, key_inum a <> key_inum b /\ key_dev a = key_dev b /\ cmp_inum_sub a b = 0.
Proof.
  exists (inum_key 0 4294967296), (inum_key 0 8589934592).
  split; [vm_compute; discriminate|]. split; vm_compute; reflexivity.
Qed.

(* the hard link filter's tree (16 byte keys, pointer sized values) *)
Definition hl_tree0 : rbtree := snd (rbtree_init 16 8).

(* first names of five inodes in metadata blocks 0, 5, 2, 8, 11, in the order a walk meets them; the
   filter does "lookup, insert if absent" *)
Definition hl_ops : list (list N * list N) :=
  [(inum_key 0 (inode_ref 0 0), [1;1;1;1;1;1;1;1]); (inum_key 0 (inode_ref 5 0), [2;2;2;2;2;2;2;2]);
   (inum_key 0 (inode_ref 2 0), [3;3;3;3;3;3;3;3]); (inum_key 0 (inode_ref 8 0), [4;4;4;4;4;4;4;4]);
   (inum_key 0 (inode_ref 11 0), [5;5;5;5;5;5;5;5])]%N.

Example ex_hl_hypotheses :
  fst (rbtree_init 16 8) = 0 /\
  Forall (fun kv => lenN (fst kv) = rb_key_size hl_tree0 /\ lenN (snd kv) = rb_value_size hl_tree0) hl_ops /\
  rb_key_size_padded hl_tree0 = 16%N.
Proof. vm_compute. repeat split; repeat constructor. Qed.

(* with compare_inum every one of them is found again (second name -> hard link record) *)
Example ex_hl_found :
  match rb_puts cmp_inum (hl_tree0, 0%N) hl_ops with
  | Some (t, next) =>
    next = 5%N /\ map (fun kv => node_value 8 (rbtree_lookup cmp_inum t (fst kv))) hl_ops = map snd hl_ops
  | None => False
  end.
Proof. vm_compute. split; reflexivity. Qed.

(* with the truncated difference the inode in block 5 is in the tree but no longer found: its second
   name is written as an independent file *)
Lemma hl_filter_loses_inode :
  exists ops k,
    In k (map fst ops) /\
    match rb_puts cmp_inum_sub (hl_tree0, 0%N) ops with
    | Some (t, _) =>
      rbtree_lookup cmp_inum_sub t k = Leaf /\
      In k (map (fun e => firstnN 16 (e_data e)) (elements (rb_root t)))
    | None => False
    end.
Proof.
  exists hl_ops, (inum_key 0 (inode_ref 5 0)). split; [vm_compute; tauto|]. vm_compute. split; [reflexivity|tauto].
Qed.
