(* C19 / lib/util/src/str_table.c: whole interleavings on a string table and its copy.

   Audit 4, finding 12: Util/StrCopy.str_table_step_independent is ONE step, and its hypothesis
   [st_roomy a] (next_index < 2^30, pointer-sized elements, capacity <= 2^40) is not re-established
   for the successor table.  Here the run-level statement: the growth step of str_table_get_index
   re-establishes element size and capacity bound (array_append doubles within the bound - as the C
   code does), and next_index grows by at most one per get_index call, so a schedule in which each
   table receives fewer new-string requests than it has room for below 2^30 runs to the end.

   [srun]: any interleaving of get_index / get_string / get_ref_count / add_ref / del_ref on two
   tables over one bucket heap (true = first table, false = second).
   [str_table_interleaving_independent_l]: if the two tables satisfy the invariant and share no
   bucket, every call returns, both invariants and the disjointness hold at the end, and each
   table's answers and final abstract value are those of the abstract machine [abs_run] - a function
   of that table's OWN initial abstract value and its OWN operations.
   [str_table_copy_interleaving_l]: source and str_table_copy are such a pair with EQUAL abstract
   values: the copy answers every later operation exactly as the original would have. *)
From Coq Require Import NArith ZArith List Bool Lia Permutation.
From SqfsV Require Import Gen.Constants Util.GenUtil Util.FastRem Util.HashModel Util.HashBase Util.HashRows
     Util.HashInv Util.HashContracts Util.ArrayModel Util.ArrayProofs Util.StrModel Util.StrProofs Util.StrIndex
     Util.StrCopy.
Import ListNotations.
Local Open Scope N_scope.

Inductive sop :=
| OGetIndex (s : list N)
| OGetString (i : N)
| OGetRc (i : N)
| OAddRef (i : N)
| ODelRef (i : N).

Inductive sans :=
| AIndex (ret : Z) (i : N)
| AString (o : option (list N))
| ARc (rc : N)
| ADone.

Definition lift {A B} (r : sres A) (f : A -> B) : sres B :=
  match r with SOk a => SOk (f a) | SCrash => SCrash | SOutOfFuel => SOutOfFuel end.

(* one call on table t over heap h *)
Definition srun1 (h : bheap) (t : str_table) (o : sop) : sres (bheap * str_table * sans) :=
  match o with
  | OGetIndex s => lift (str_table_get_index h t s) (fun r => let '(h', t', ret, i) := r in (h', t', AIndex ret i))
  | OGetString i => lift (str_table_get_string h t i) (fun r => (h, t, AString r))
  | OGetRc i => lift (str_table_get_ref_count h t i) (fun r => (h, t, ARc r))
  | OAddRef i => lift (str_table_add_ref h t i) (fun h' => (h', t, ADone))
  | ODelRef i => lift (str_table_del_ref h t i) (fun h' => (h', t, ADone))
  end.

Fixpoint srun (s : list (bool * sop)) (h : bheap) (a b : str_table)
  : sres (bheap * str_table * str_table * list (bool * sans)) :=
  match s with
  | [] => SOk (h, a, b, [])
  | (w, o) :: r =>
    match srun1 h (if w then a else b) o with
    | SOk (h1, t1, ans) =>
      match srun r h1 (if w then t1 else a) (if w then b else t1) with
      | SOk (h2, a2, b2, rs) => SOk (h2, a2, b2, (w, ans) :: rs)
      | SCrash => SCrash
      | SOutOfFuel => SOutOfFuel
      end
    | SCrash => SCrash
    | SOutOfFuel => SOutOfFuel
    end
  end.

(* ---- the abstract machine: a table is its list (string, reference count) by index ---- *)
Fixpoint find_idx (s : list N) (l : list (list N)) : option nat :=
  match l with
  | [] => None
  | x :: r => if list_eq_dec N.eq_dec x s then Some O
              else match find_idx s r with Some i => Some (S i) | None => None end
  end.

Definition abs1 (l : list (list N * N)) (o : sop) : list (list N * N) * sans :=
  match o with
  | OGetIndex s =>
    match find_idx s (map fst l) with
    | Some i => (l, AIndex 0%Z (N.of_nat i))
    | None => (l ++ [(s, 0)], AIndex 0%Z (N.of_nat (length l)))
    end
  | OGetString i => (l, AString (option_map fst (nth_error l (N.to_nat i))))
  | OGetRc i => (l, ARc (match nth_error l (N.to_nat i) with Some (_, rc) => rc | None => 0 end))
  | OAddRef i => (set_rc (fun rc => if rc <? util_size_max then rc + 1 else rc) l i, ADone)
  | ODelRef i => (set_rc (fun rc => if 0 <? rc then rc - 1 else rc) l i, ADone)
  end.

Fixpoint abs_run (ops : list sop) (l : list (list N * N)) : list (list N * N) * list sans :=
  match ops with
  | [] => (l, [])
  | o :: r => let '(l1, x) := abs1 l o in let '(l2, xs) := abs_run r l1 in (l2, x :: xs)
  end.

Definition pick {A} (w : bool) (l : list (bool * A)) : list A :=
  map snd (filter (fun x => Bool.eqb (fst x) w) l).

Definition is_gi (o : sop) : bool := match o with OGetIndex _ => true | _ => false end.
(* upper bound for the number of new strings a list of operations can create *)
Definition new_budget (ops : list sop) : N := N.of_nat (length (filter is_gi ops)).

(* element size and capacity bound of the index array: what the growth step re-establishes *)
Definition st_sized (t : str_table) : Prop :=
  a_size (st_arr t) = util_sizeof_ptr /\ a_count (st_arr t) <= 1099511627776.

Lemma disjoint_sym : forall a b, disjoint_tables a b -> disjoint_tables b a.
Proof. intros a b D i j bid Hi Hj. exact (D j i bid Hj Hi). Qed.

Lemma find_idx_some : forall s l i, find_idx s l = Some i -> nth_error l i = Some s.
Proof.
  induction l as [|x l IH]; intros i H; [discriminate|]. cbn [find_idx] in H.
  destruct (list_eq_dec N.eq_dec x s) as [->|Ne]; [inversion H; reflexivity|].
  destruct (find_idx s l) as [j|] eqn:E; [|discriminate]. inversion H; subst. cbn. apply IH. reflexivity.
Qed.

Lemma find_idx_none : forall s l, find_idx s l = None -> ~ In s l.
Proof.
  induction l as [|x l IH]; intros H; [intros []|]. cbn [find_idx] in H.
  destruct (list_eq_dec N.eq_dec x s) as [->|Ne]; [discriminate|].
  destruct (find_idx s l) as [j|] eqn:E; [discriminate|]. intros [A|A]; [contradiction|]. exact (IH eq_refl A).
Qed.

Lemma abs_length : forall h t, str_inv h t -> N.of_nat (length (str_abs h t)) = st_next_index t.
Proof.
  intros h t I. unfold str_abs. rewrite map_length. destruct (si_arr h t I) as [Hl _].
  rewrite (si_used h t I) in Hl. exact Hl.
Qed.

(* one call on table a beside table b *)
Lemma srun1_spec : forall h a b o,
  str_inv h a -> str_inv h b -> disjoint_tables a b -> st_sized a ->
  (is_gi o = true -> st_next_index a < ht_safe_limit) ->
  exists h' a',
    srun1 h a o = SOk (h', a', snd (abs1 (str_abs h a) o)) /\
    str_abs h' a' = fst (abs1 (str_abs h a) o) /\
    str_inv h' a' /\ str_inv h' b /\ str_abs h' b = str_abs h b /\ disjoint_tables a' b /\ st_sized a' /\
    st_next_index a' <= st_next_index a + (if is_gi o then 1 else 0).
Proof.
  intros h a b o Ia Ib Hd [Hsz Hcnt] Hroom.
  assert (Hbids : forall j bid, nthN (a_data (st_arr b)) j = Some bid -> bid < bh_next h).
  { intros j bid Hj. destruct (si_idx h b Ib _ _ Hj) as (_ & _ & _ & L & _). exact L. }
  destruct o as [s|i|i|i|i]; cbn [srun1 abs1 is_gi fst snd].
  - specialize (Hroom eq_refl). fold (strings h a).
    destruct (find_idx s (strings h a)) as [n|] eqn:Ef.
    + rewrite (str_table_get_index_found h a s n Ia (find_idx_some _ _ _ Ef)). cbn [lift fst snd].
      exists h, a. split; [reflexivity|]. split; [reflexivity|]. split; [exact Ia|]. split; [exact Ib|]. split; [reflexivity|]. split; [exact Hd|]. split; [split; assumption|lia].
    + pose proof (find_idx_none _ _ Ef) as Hnin.
      destruct (str_table_get_index_new h a s Ia Hnin Hroom Hsz Hcnt)
        as (h' & a' & E & Ia' & Abs' & Nx & Hnext & Hfr & Hsz' & Hcnt' & Hdata).
      rewrite E. cbn [lift fst snd]. exists h', a'.
      destruct (str_inv_frame_own h h' b Ib ltac:(lia)) as [Ib' Ab'].
      { intros j bid Hj. apply Hfr. eapply Hbids; eauto. }
      split; [rewrite (abs_length h a Ia); reflexivity|].
      split; [exact Abs'|]. split; [exact Ia'|]. split; [exact Ib'|]. split; [exact Ab'|].
      split; [|split; [split; assumption|lia]].
      intros i j bid Hi Hj. rewrite Hdata in Hi. apply nthN_app_inv in Hi.
      destruct Hi as [Hi|[_ ->]]; [exact (Hd _ _ _ Hi Hj)|]. apply Hbids in Hj. lia.
  - rewrite (str_table_get_string_spec h a i Ia). cbn [lift]. exists h, a. split; [reflexivity|]. split; [reflexivity|]. split; [exact Ia|]. split; [exact Ib|]. split; [reflexivity|]. split; [exact Hd|]. split; [split; assumption|lia].
  - rewrite (str_table_get_ref_count_spec h a i Ia). cbn [lift]. exists h, a. split; [reflexivity|]. split; [reflexivity|]. split; [exact Ia|]. split; [exact Ib|]. split; [reflexivity|]. split; [exact Hd|]. split; [split; assumption|lia].
  - destruct (str_table_add_ref_spec h a i Ia) as (h' & E & Ia' & Abs' & _ & Hnx). rewrite E. cbn [lift].
    destruct (str_table_ref_frame h a i h' Ia (or_introl E)) as [_ Hfr].
    destruct (str_inv_frame_own h h' b Ib ltac:(lia)) as [Ib' Ab'].
    { intros j bid Hj. apply Hfr. intros j' Hj'. exact (Hd _ _ _ Hj' Hj). }
    exists h', a. split; [reflexivity|]. split; [exact Abs'|]. split; [exact Ia'|]. split; [exact Ib'|]. split; [exact Ab'|]. split; [exact Hd|]. split; [split; assumption|lia].
  - destruct (str_table_del_ref_spec h a i Ia) as (h' & E & Ia' & Abs' & _ & Hnx). rewrite E. cbn [lift].
    destruct (str_table_ref_frame h a i h' Ia (or_intror E)) as [_ Hfr].
    destruct (str_inv_frame_own h h' b Ib ltac:(lia)) as [Ib' Ab'].
    { intros j bid Hj. apply Hfr. intros j' Hj'. exact (Hd _ _ _ Hj' Hj). }
    exists h', a. split; [reflexivity|]. split; [exact Abs'|]. split; [exact Ia'|]. split; [exact Ib'|]. split; [exact Ab'|]. split; [exact Hd|]. split; [split; assumption|lia].
Qed.

Lemma new_budget_cons : forall o r, new_budget (o :: r) = (if is_gi o then 1 else 0) + new_budget r.
Proof. intros o r. unfold new_budget. cbn [filter]. destruct (is_gi o); cbn [length]; lia. Qed.

Theorem str_table_interleaving_independent_l : forall s h a b,
  str_inv h a -> str_inv h b -> disjoint_tables a b -> st_sized a -> st_sized b ->
  st_next_index a + new_budget (pick true s) < ht_safe_limit ->
  st_next_index b + new_budget (pick false s) < ht_safe_limit ->
  exists h' a' b' rs,
    srun s h a b = SOk (h', a', b', rs) /\
    str_inv h' a' /\ str_inv h' b' /\ disjoint_tables a' b' /\ st_sized a' /\ st_sized b' /\
    str_abs h' a' = fst (abs_run (pick true s) (str_abs h a)) /\
    pick true rs = snd (abs_run (pick true s) (str_abs h a)) /\
    str_abs h' b' = fst (abs_run (pick false s) (str_abs h b)) /\
    pick false rs = snd (abs_run (pick false s) (str_abs h b)).
Proof.
  induction s as [|[w o] s IH]; intros h a b Ia Ib Hd Sa Sb Ba Bb.
  - exists h, a, b, []. cbn. auto 12.
  - cbn [srun]. destruct w.
    + unfold pick in Ba, Bb. cbn [filter fst Bool.eqb map snd] in Ba, Bb. fold (pick true s) in Ba. fold (pick false s) in Bb.
      rewrite new_budget_cons in Ba.
      destruct (srun1_spec h a b o Ia Ib Hd Sa) as (h1 & a1 & E1 & Abs1 & Ia1 & Ib1 & Ab1 & Hd1 & Sa1 & Nx1).
      { intro G. rewrite G in Ba. lia. }
      rewrite E1.
      destruct (IH h1 a1 b Ia1 Ib1 Hd1 Sa1 Sb) as (h2 & a2 & b2 & rs & E2 & Ia2 & Ib2 & Hd2 & Sa2 & Sb2 & A1 & A2 & B1 & B2);
        [lia|exact Bb|].
      rewrite E2. exists h2, a2, b2, ((true, snd (abs1 (str_abs h a) o)) :: rs).
      split; [reflexivity|]. split; [exact Ia2|]. split; [exact Ib2|]. split; [exact Hd2|]. split; [exact Sa2|]. split; [exact Sb2|].
      unfold pick. cbn [filter fst Bool.eqb map snd]. fold (pick true s). fold (pick false s). fold (pick true rs). fold (pick false rs).
      cbn [abs_run]. rewrite Abs1 in A1, A2. rewrite Ab1 in B1, B2.
      destruct (abs1 (str_abs h a) o) as [l1 x]. cbn [fst snd] in *.
      destruct (abs_run (pick true s) l1) as [l2 xs]. cbn [fst snd] in *.
      split; [exact A1|]. split; [f_equal; exact A2|]. split; assumption.
    + unfold pick in Ba, Bb. cbn [filter fst Bool.eqb map snd] in Ba, Bb. fold (pick true s) in Ba. fold (pick false s) in Bb.
      rewrite new_budget_cons in Bb.
      destruct (srun1_spec h b a o Ib Ia (disjoint_sym _ _ Hd) Sb) as (h1 & b1 & E1 & Abs1 & Ib1 & Ia1 & Aa1 & Hd1 & Sb1 & Nx1).
      { intro G. rewrite G in Bb. lia. }
      rewrite E1.
      destruct (IH h1 a b1 Ia1 Ib1 (disjoint_sym _ _ Hd1) Sa Sb1) as (h2 & a2 & b2 & rs & E2 & Ia2 & Ib2 & Hd2 & Sa2 & Sb2 & A1 & A2 & B1 & B2);
        [exact Ba|lia|].
      rewrite E2. exists h2, a2, b2, ((false, snd (abs1 (str_abs h b) o)) :: rs).
      split; [reflexivity|]. split; [exact Ia2|]. split; [exact Ib2|]. split; [exact Hd2|]. split; [exact Sa2|]. split; [exact Sb2|].
      unfold pick. cbn [filter fst Bool.eqb map snd]. fold (pick true s). fold (pick false s). fold (pick true rs). fold (pick false rs).
      cbn [abs_run]. rewrite Abs1 in B1, B2. rewrite Aa1 in A1, A2.
      destruct (abs1 (str_abs h b) o) as [l1 x]. cbn [fst snd] in *.
      destruct (abs_run (pick false s) l1) as [l2 xs]. cbn [fst snd] in *.
      split; [exact A1|]. split; [exact A2|]. split; [exact B1|]. f_equal. exact B2.
Qed.

(* the copy beside its source: both start from the SAME abstract value *)
Theorem str_table_copy_interleaving_l : forall h dst src s,
  str_inv h src -> st_next_index dst = st_next_index src -> st_sized src ->
  st_next_index src + new_budget (pick true s) < ht_safe_limit ->
  st_next_index src + new_budget (pick false s) < ht_safe_limit ->
  exists h0 c h' a' c' rs,
    str_table_copy h dst src = SOk (h0, c, 0%Z) /\
    srun s h0 src c = SOk (h', a', c', rs) /\
    str_inv h' a' /\ str_inv h' c' /\ disjoint_tables a' c' /\
    str_abs h' a' = fst (abs_run (pick true s) (str_abs h src)) /\
    pick true rs = snd (abs_run (pick true s) (str_abs h src)) /\
    str_abs h' c' = fst (abs_run (pick false s) (str_abs h src)) /\
    pick false rs = snd (abs_run (pick false s) (str_abs h src)).
Proof.
  intros h dst src s I Hn [Hsz Hcnt] Ba Bc.
  assert (Hl : st_next_index src < ht_safe_limit) by lia.
  destruct (str_table_copy_equiv h dst src I Hn Hsz Hl) as (h0 & c & Ec & Ic & Ac & Nc & Hfresh & Hfr & Is & As).
  destruct (str_table_copy_disjoint h dst src h0 c I Hn Hsz Hl Ec) as [D1 _].
  (* element size and capacity of the copy's array: array_init_copy gives capacity = used *)
  assert (Sc : st_sized c).
  { unfold str_table_copy in Ec. pose proof (array_init_copy_equiv N (st_arr src) (si_arr h src I)) as Hc.
    destruct (array_init_copy N (st_arr src)) as [z arr1]. destruct z; [|inversion Ec|inversion Ec].
    destruct Hc as (_ & _ & Au & Asz & Ac').
    destruct (copy_entries (ht_foreach skey N (ht_clone skey N (st_ht src))) h (ht_clone skey N (st_ht src)) (a_data arr1))
      as [[[h1 ht2] d]| |]; inversion Ec; subst. split; cbn [st_arr a_size a_count].
    - rewrite Asz. exact Hsz.
    - rewrite Ac', (si_used h src I). pose proof ht_safe_limit_val as [Hv _]. rewrite Hv in Hl. lia. }
  assert (Bc' : st_next_index c + new_budget (pick false s) < ht_safe_limit) by (rewrite Nc; exact Bc).
  destruct (str_table_interleaving_independent_l s h0 src c Is Ic D1 (conj Hsz Hcnt) Sc Ba Bc')
    as (h' & a' & c' & rs & E & Ia & Ic' & D & _ & _ & A1 & A2 & B1 & B2).
  exists h0, c, h', a', c', rs. rewrite As in A1, A2. rewrite Ac in B1, B2. auto 12.
Qed.
