(* C19: the object constructors of the model ESTABLISH [obj_inv] - for all their parameters.

   Audit 4, finding 4: copy_wellformed_general / release_safe_general / survivor_intact_general /
   copy_ops_release_shared assume [obj_inv m n h o k]; it is preserved by copy, by shared-preserving
   operations and by the release of the partner, but it was ESTABLISHED only by evaluating
   [copyable_g] on 14 literal heaps.  Here: for every builder of ObjKinds.v and ALL its parameters -
   the object's own count, the counts of the shared file and compressor, which nullable members are
   set, the number of table entries / cached tree nodes / strings / key-value pairs - the heap it
   returns satisfies [obj_inv 1 d] (d = nesting depth of the kind), provided the references the
   object holds are counted (one per meta reader, one for the data reader).  [obj_inv] is monotone
   in both depth bounds and blind to plain data (ObjBuildBase.v), hence: for every m >= 1,
   n >= d, and whatever bytes the VData members hold ([heap_like]).

   Which C constructor a builder transcribes, and what that constructor sets (field order = LAY k):

   builder            C function(s)                                   fields / references set
   mk_flat KXz..      xz/lz4/lzma_compressor_create (comp/*.c)        sqfs_object_init(destroy, copy); [D] = config, block size, flags
   mk_res KGzip       gzip_compressor_create                          [Own strm.state <- deflateInit2/inflateInit; D = opt, block_size]
   mk_res KZstd       zstd_compressor_create                          [Own zctx <- ZSTD_createCCtx; D]
   mk_res KFile       sqfs_file_open (io/file.c, unix/win32)          [Own fd <- open(); D = size, readonly]; refcount 1
   mk_meta            sqfs_meta_reader_create(file, cmp, start, limit) [D = start, limit, block_start, next_block, offset, data_used, data[]]
                                                                      file = sqfs_grab(file); cmp = sqfs_grab(cmp): ONE count each -> 1 <= rc
   mk_table KFrag     sqfs_frag_table_create                          [D = flags; Own array.data <- array_init]; used = number of entries
   mk_table KId       sqfs_id_table_create                            the same
   mk_data            sqfs_data_reader_create(file, block_size, cmp)  [Obj frag_tbl <- sqfs_frag_table_create; Ref cmp, Ref file (grab: one count each);
                                                                      Own data_block, Own frag_block: NULL until the first read (db / fb); D = block_size ...]
   mk_dir             sqfs_dir_reader_create(super, cmp, file, flags) [Obj meta_dir, Obj meta_inode <- sqfs_meta_reader_create x2 (each grabs file and cmp:
                                                                      TWO counts each -> 2 <= rc); D = super, flags, state; OwnL dcache nodes <- rbtree_init
                                                                      (empty) then one node per dcache_add; Int dcache.root]
   mk_xrd             sqfs_xattr_reader_create + _load(super, file, cmp)  [D; Own id_block_starts <- alloc_array (ids), Obj idrd, Obj kvrd <-
                                                                      sqfs_meta_reader_create (NULL before load / without xattrs: idrd, kvrd = false)]
   mk_xwr             sqfs_xattr_writer_create                        keys, values <- str_table_init x2 ([Own bucket_ptrs.data; Own ht; OwnL buckets; D next_index]);
                                                                      [Own kv_pairs.data <- array_init; D; OwnL kv_block_tree nodes <- rbtree_init; Int root;
                                                                       Int key_context = the writer itself; Int kv_block_first / last]; no references
   A reachable object state is a builder output followed by operations, copies and releases:
   ObjReach.v. *)
From Coq Require Import List NArith Bool Arith Lia.
From SqfsV Require Import C19.ObjHeap C19.ObjHooks C19.ObjKinds C19.ObjSpec C19.ObjBase C19.ObjFrame
     C19.ObjCopy3 C19.ObjGenDefs C19.ObjGenBase C19.ObjShared C19.ObjSharedDefs C19.ObjBuildBase.
Import ListNotations.

(* ================================================================== *)
(* objects of a fixed shape: symbolic evaluation                        *)
(* ================================================================== *)
Ltac in_cases H := simpl in H; repeat (destruct H as [H|H]; [subst|]); try contradiction.
Ltac nodup_c := repeat (constructor; [simpl; intuition (try discriminate; try lia)|]); try constructor.
Ltac counted_c :=
  match goal with |- (N.of_nat (cnt ?R ?s) <= rc_of ?h ?s)%N =>
    let v := eval vm_compute in (N.of_nat (cnt R s)) in change (N.of_nat (cnt R s)) with v;
    unfold rc_of; simpl; try assumption; try lia end.

Ltac ht_c :=
  simpl;
  match goal with
  | |- True => exact I
  | |- shared_ok _ _ => do 2 eexists; split; reflexivity
  | |- leaf_ok _ _ _ _ => eexists; split; [reflexivity|split; simpl; repeat constructor]
  | |- _ /\ rc_of _ _ = _ => split; [wf_c|reflexivity]
  | |- In _ _ => simpl; tauto
  end
with wf_c :=
  simpl; do 2 eexists; split; [reflexivity|]; repeat (apply Forall2_cons; [ht_c|]); apply Forall2_nil.

Ltac closed_c :=
  first [exists KFile; split; [wf_c|split; [simpl; nodup_c|reflexivity]]
        |exists KGzip; split; [wf_c|split; [simpl; nodup_c|reflexivity]]].

Ltac env_c :=
  simpl fp; simpl all_refs; split; [|split; [split; [|split]|]];
  [ intros s Hs; in_cases Hs; closed_c
  | nodup_c
  | intros s x Hs Hx Hf'; in_cases Hs; in_cases Hx; in_cases Hf'; discriminate
  | intros s t x Hs Ht Ne Hx Hy; in_cases Hs; in_cases Ht; in_cases Hx; in_cases Hy; try discriminate; congruence
  | intros s Hs; in_cases Hs; counted_c ].

Ltac inv_c := split; [wf_c|env_c].

Lemma flat_inv : forall k rc, is_flat_kind k = true -> obj_inv 1 1 (fst (mk_flat k rc)) (snd (mk_flat k rc)) k.
Proof. intros k rc Hk. destruct k; try discriminate; unfold mk_flat, push; simpl fst; simpl snd; inv_c. Qed.

Definition is_res_kind (k : kind) : bool := match k with KGzip | KZstd | KFile => true | _ => false end.
Lemma res_inv : forall k rc, is_res_kind k = true -> obj_inv 1 1 (fst (mk_res k rc)) (snd (mk_res k rc)) k.
Proof. intros k rc Hk. destruct k; try discriminate; unfold mk_res, push; simpl fst; simpl snd; inv_c. Qed.

Definition is_table_kind (k : kind) : bool := match k with KFrag | KId => true | _ => false end.
Lemma table_inv : forall k rc used, is_table_kind k = true ->
  obj_inv 1 1 (fst (mk_table k rc used)) (snd (mk_table k rc used)) k.
Proof. intros k rc used Hk. destruct k; try discriminate; unfold mk_table, mk_table_in, push; simpl fst; simpl snd; inv_c. Qed.

Lemma meta_inv : forall rc rcf rcc, (1 <= rcf)%N -> (1 <= rcc)%N ->
  obj_inv 1 1 (fst (mk_meta rc rcf rcc)) (snd (mk_meta rc rcf rcc)) KMeta.
Proof. intros rc rcf rcc Hf Hc. unfold mk_meta, mk_meta_in, env_heap, push. simpl fst. simpl snd. inv_c. Qed.

Lemma data_inv : forall rc fu db fb rcf rcc, (1 <= rcf)%N -> (1 <= rcc)%N ->
  obj_inv 1 2 (fst (mk_data rc fu db fb rcf rcc)) (snd (mk_data rc fu db fb rcf rcc)) KData.
Proof.
  intros rc fu db fb rcf rcc Hf Hc. destruct db, fb; unfold mk_data, mk_table_in, opt_leaf, env_heap, push; simpl fst; simpl snd; inv_c.
Qed.

Definition b2n (b : bool) : N := if b then 1%N else 0%N.
Lemma xrd_inv : forall rc ids idrd kvrd rcf rcc, (b2n idrd + b2n kvrd <= rcf)%N -> (b2n idrd + b2n kvrd <= rcc)%N ->
  obj_inv 1 2 (fst (mk_xrd rc ids idrd kvrd rcf rcc)) (snd (mk_xrd rc ids idrd kvrd rcf rcc)) KXrd.
Proof.
  intros rc ids idrd kvrd rcf rcc Hf Hc.
  destruct ids, idrd, kvrd; unfold mk_xrd, mk_meta_in, opt_leaf, env_heap, push; simpl fst; simpl snd; simpl in Hf, Hc; inv_c.
Qed.

(* ================================================================== *)
(* directory reader: any number of cached nodes                         *)
(* ================================================================== *)
(* ---- lists ---- *)
Lemma nth_map_seq : forall (A : Type) (f : nat -> A) n s i, i < n -> nth_error (map f (seq s n)) i = Some (f (s + i)).
Proof.
  intros A f. induction n as [|n IH]; intros s i Hi; [lia|]. destruct i as [|i]; simpl.
  - f_equal. f_equal. lia.
  - rewrite IH by lia. f_equal. f_equal. lia.
Qed.

Lemma nth_mid : forall (A : Type) (pre mid post : list A) i, i < length mid ->
    nth_error (pre ++ mid ++ post) (length pre + i) = nth_error mid i.
Proof.
  intros A pre mid post i Hi. rewrite nth_error_app2 by lia. replace (length pre + i - length pre) with i by lia.
  apply nth_error_app1. exact Hi.
Qed.

(* ---- mk_nodes ---- *)
Definition node_cell (base : nat) (extra : nat -> list val) (i : nat) : slot :=
  Live (leaf ([match i with O => VNull | S j => VInt (base + j) end; VNull] ++ extra i)).
Definition node_cells (base : nat) (extra : nat -> list val) (n : nat) : list slot :=
  map (node_cell base extra) (seq 0 n).

Lemma node_cells_length : forall b e n, length (node_cells b e n) = n.
Proof. intros. unfold node_cells. rewrite map_length, seq_length. reflexivity. Qed.

Lemma mk_nodes_spec : forall n h extra,
    mk_nodes h n extra = (h ++ node_cells (length h) extra n, rev (seq (length h) n)).
Proof.
  induction n as [|n IH]; intros h extra.
  - simpl. rewrite app_nil_r. reflexivity.
  - cbn [mk_nodes]. rewrite IH. unfold push. rewrite app_length, node_cells_length.
    rewrite seq_S, rev_app_distr. cbn [rev app]. f_equal.
    rewrite <- app_assoc. f_equal. unfold node_cells. rewrite seq_S, map_app. cbn [map]. f_equal. f_equal.
    unfold node_cell. f_equal. f_equal. f_equal.
    destruct n as [|j]; [reflexivity|]. rewrite seq_S, rev_app_distr. reflexivity.
Qed.

Lemma root_of_cases : forall l, root_of l = VNull \/ exists a, In a l /\ root_of l = VInt a.
Proof. intros [|a l]; [left; reflexivity|right; exists a; simpl; auto]. Qed.
Lemma last_of_cases : forall l, last_of l = VNull \/ exists a, In a l /\ last_of l = VInt a.
Proof.
  intros l. unfold last_of. destruct (rev l) as [|a r] eqn:E; [left; reflexivity|right].
  exists a. split; [|reflexivity]. apply in_rev. rewrite E. left. reflexivity.
Qed.

Definition plain_val (v : val) : Prop := match v with VData _ | VNull => True | _ => False end.

(* a node of the spine inside a heap [pre ++ node_cells ++ post] *)
Lemma node_leaf_ok : forall pre extra n post own i,
    (forall j, Forall plain_val (extra j)) -> i < n ->
    (forall j, j < n -> In (length pre + j) own) ->
    leaf_ok (pre ++ node_cells (length pre) extra n ++ post) own TrAll (length pre + i).
Proof.
  intros pre extra n post own i Hex Hi Hown. unfold leaf_ok.
  eexists. split.
  - apply get_nth. rewrite nth_mid by (rewrite node_cells_length; exact Hi).
    unfold node_cells. rewrite nth_map_seq by exact Hi. reflexivity.
  - split; [|exact I]. simpl. constructor; [|constructor; [exact I|]].
    + destruct i as [|j]; simpl; [exact I|]. apply Hown. lia.
    + eapply Forall_impl; [|apply Hex]. intros v Hv. destruct v; simpl in *; auto; contradiction.
Qed.

Lemma fields_new : forall h c, fields_of (h ++ [Live c]) (length h) = c_fields c.
Proof. intros. unfold fields_of. rewrite get_app_new. reflexivity. Qed.

Lemma dir_inv : forall rc nodes rcf rcc, (2 <= rcf)%N -> (2 <= rcc)%N ->
  obj_inv 1 2 (fst (mk_dir rc nodes rcf rcc)) (snd (mk_dir rc nodes rcf rcc)) KDir.
Proof.
  intros rc nodes rcf rcc Hf Hc. unfold mk_dir, mk_meta_in, env_heap, push. cbn [app length].
  rewrite mk_nodes_spec. cbn [length]. set (extra := fun i : nat => [VData [N.of_nat i]]).
  set (pre := [Live (mkC (hdr rcf KFile) [VOwn 1; VData [7%N]]); Live (leaf [VData []]);
               Live (mkC (hdr rcc KGzip) [VOwn 3; VData [9%N]]); Live (leaf [VData []]);
               Live (mkC (hdr 1 KMeta) [VData [11%N; 12%N]; VRef a_file; VRef a_cmp]);
               Live (mkC (hdr 1 KMeta) [VData [11%N; 12%N]; VRef a_file; VRef a_cmp])]).
  change 6 with (length pre). set (ns := rev (seq (length pre) nodes)).
  set (cells := node_cells (length pre) extra nodes).
  set (selfc := mkC (hdr rc KDir) [VObj 4; VObj 5; VData [1%N]; VOwnL ns; root_of ns]).
  cbn [fst snd]. set (H := (pre ++ cells) ++ [Live selfc]).
  assert (Lself : length (pre ++ cells) = 6 + nodes) by (rewrite app_length; unfold cells; rewrite node_cells_length; reflexivity).
  set (self := length (pre ++ cells)) in *.
  assert (Gself : get H self = Some selfc) by (apply get_app_new).
  assert (Fself : fields_of H self = c_fields selfc) by (apply fields_new).
  assert (Hns : forall a, In a ns <-> exists j, j < nodes /\ a = 6 + j).
  { intro a. unfold ns. rewrite <- in_rev, in_seq. change (length pre) with 6. split.
    - intros [A B]. exists (a - 6). lia.
    - intros (j & A & ->). lia. }
  assert (Hpre : H = pre ++ cells ++ [Live selfc]) by (unfold H; rewrite <- app_assoc; reflexivity).
  (* the two meta readers and the shared objects sit in the explicit prefix *)
  assert (Wm : forall a, a = 4 \/ a = 5 -> wf_obj 1 H a KMeta /\ rc_of H a = 1%N /\ fp 1 H a = [a] /\ all_refs 1 H a = [0; 2]).
  { intros a Ha. unfold H. destruct Ha as [-> | ->]; (split; [|split; [|split]]); try reflexivity; wf_c. }
  assert (Cl : forall s, s = 0 \/ s = 2 -> closed_obj 1 H s /\ fp 1 H s = [s; S s]).
  { intros s Hs. unfold H. destruct Hs as [-> | ->]; (split; [closed_c|reflexivity]). }
  assert (RC : rc_of H 0 = rcf /\ rc_of H 2 = rcc) by (split; reflexivity).
  clearbody H. clearbody self.
  assert (FP : fp 2 H self = self :: 4 :: 5 :: ns).
  { rewrite fp_S, Fself. unfold selfc. cbn [c_fields flat_map fp1].
    rewrite (proj1 (proj2 (proj2 (Wm 4 (or_introl eq_refl))))), (proj1 (proj2 (proj2 (Wm 5 (or_intror eq_refl))))).
    destruct (root_of_cases ns) as [-> | (a & _ & ->)]; simpl; rewrite !app_nil_r; reflexivity. }
  assert (AR : all_refs 2 H self = [0; 2; 0; 2]).
  { rewrite all_refs_S, Fself. unfold selfc. cbn [c_fields flat_map refs1].
    rewrite (proj2 (proj2 (proj2 (Wm 4 (or_introl eq_refl))))), (proj2 (proj2 (proj2 (Wm 5 (or_intror eq_refl))))).
    destruct (root_of_cases ns) as [-> | (a & _ & ->)]; reflexivity. }
  split.
  - exists rc, (c_fields selfc). split; [exact Gself|]. unfold selfc. cbn [c_fields LAY owned_of flat_map own1 app].
    rewrite app_nil_r.
    apply Forall2_cons; [split; apply (Wm 4); auto|]. apply Forall2_cons; [split; apply (Wm 5); auto|].
    apply Forall2_cons; [exact I|]. apply Forall2_cons; [|apply Forall2_cons; [|apply Forall2_nil]].
    + cbn [has_type]. apply Forall_forall. intros a Ha. apply Hns in Ha. destruct Ha as (j & Hj & ->).
      rewrite Hpre. change 6 with (length pre). apply node_leaf_ok; [intro; unfold extra; repeat constructor|exact Hj|].
      intros j' Hj'. right. apply in_or_app. left. apply Hns. exists j'. auto.
    + destruct (root_of_cases ns) as [-> | (a & Ia & ->)]; [exact I|]. cbn [has_type]. right. apply in_or_app. left. exact Ia.
  - rewrite FP, AR. split; [|split; [split; [|split]|]].
    + intros s Hs. in_cases Hs; apply Cl; auto.
    + constructor; [|constructor; [|constructor]].
      * intros [A|[A|A]]; [lia|lia|]. apply Hns in A. destruct A as (j & Hj & A). lia.
      * intros [A|A]; [lia|]. apply Hns in A. destruct A as (j & _ & A). lia.
      * intro A. apply Hns in A. destruct A as (j & _ & A). lia.
      * unfold ns. apply NoDup_rev. apply seq_NoDup.
    + intros s x Hs Hx Hf'.
      assert (x < 4) by (in_cases Hs; [rewrite (proj2 (Cl 0 (or_introl eq_refl))) in Hx|rewrite (proj2 (Cl 2 (or_intror eq_refl))) in Hx
                                      |rewrite (proj2 (Cl 0 (or_introl eq_refl))) in Hx|rewrite (proj2 (Cl 2 (or_intror eq_refl))) in Hx]; in_cases Hx; lia).
      destruct Hf' as [A|[A|[A|A]]]; try lia. apply Hns in A. destruct A as (j & _ & A). lia.
    + intros s t x Hs Ht Ne Hx Hy.
      in_cases Hs; in_cases Ht; try congruence;
        rewrite ?(proj2 (Cl 0 (or_introl eq_refl))), ?(proj2 (Cl 2 (or_intror eq_refl))) in Hx, Hy; in_cases Hx; in_cases Hy; discriminate.
    + intros s Hs. in_cases Hs;
        match goal with |- (N.of_nat (cnt ?R ?s) <= _)%N =>
          let v := eval vm_compute in (N.of_nat (cnt R s)) in change (N.of_nat (cnt R s)) with v end;
        rewrite ?(proj1 RC), ?(proj2 RC); assumption.
Qed.

(* ================================================================== *)
(* xattr writer: any number of keys, values, pairs, block nodes         *)
(* ================================================================== *)
(* ---- string tables ---- *)
Definition bucket_cells (n : nat) : list slot :=
  map (fun i => Live (leaf [VData [N.of_nat i; 1%N; 65%N]])) (seq 0 n).
Lemma bucket_cells_length : forall n, length (bucket_cells n) = n.
Proof. intros. unfold bucket_cells. rewrite map_length, seq_length. reflexivity. Qed.

Lemma mk_buckets_spec : forall n h, mk_buckets h n = (h ++ bucket_cells n, seq (length h) n).
Proof.
  induction n as [|n IH]; intros h.
  - simpl. rewrite app_nil_r. reflexivity.
  - cbn [mk_buckets]. rewrite IH. unfold push. rewrite app_length, bucket_cells_length.
    rewrite seq_S. f_equal. rewrite <- app_assoc. f_equal. unfold bucket_cells. rewrite seq_S, map_app. reflexivity.
Qed.

Definition ext (h h' : heap) : Prop := exists X, h' = h ++ X.
Lemma ext_get : forall h h' a c, ext h h' -> get h a = Some c -> get h' a = Some c.
Proof. intros h h' a c [X ->] G. apply get_app_old. exact G. Qed.
Lemma ext_refl : forall h, ext h h. Proof. intro h. exists []. rewrite app_nil_r. reflexivity. Qed.
Lemma ext_trans : forall a b c, ext a b -> ext b c -> ext a c.
Proof. intros a b c [X ->] [Y ->]. exists (X ++ Y). rewrite app_assoc. reflexivity. Qed.
Lemma ext_app : forall h X, ext h (h ++ X). Proof. intros. exists X. reflexivity. Qed.

Lemma mk_strtab_spec : forall h n,
    exists h', mk_strtab h n = (h', [VOwn (length h + n); VOwn (length h + n + 1); VOwnL (seq (length h) n); VData [N.of_nat n]]) /\
      ext h h' /\ length h' = length h + n + 2 /\
      get h' (length h + n) = Some (leaf (map VInt (seq (length h) n))) /\
      get h' (length h + n + 1) = Some (leaf (map VInt (rev (seq (length h) n)))) /\
      (forall b, In b (seq (length h) n) -> exists d, get h' b = Some (leaf [VData d])).
Proof.
  intros h n. unfold mk_strtab. rewrite mk_buckets_spec. unfold push.
  assert (L1 : length (h ++ bucket_cells n) = length h + n) by (rewrite app_length, bucket_cells_length; reflexivity).
  rewrite !app_length, bucket_cells_length. cbn [length]. replace (length h + n + 1) with (length h + n + 1) by lia.
  eexists. split; [reflexivity|]. split; [|split; [|split; [|split]]].
  - eapply ext_trans; [apply ext_app|]. eapply ext_trans; apply ext_app.
  - rewrite !app_length, bucket_cells_length. simpl. lia.
  - apply get_app_old. rewrite <- L1. apply get_app_new.
  - replace (length h + n + 1) with (length ((h ++ bucket_cells n) ++ [Live (leaf (map VInt (seq (length h) n)))]))
      by (rewrite app_length, L1; simpl; lia).
    apply get_app_new.
  - intros b Hb. apply in_seq in Hb. replace b with (length h + (b - length h)) by lia.
    eexists. apply get_app_old. apply get_app_old. apply get_nth.
    rewrite <- (app_nil_r (bucket_cells n)). rewrite nth_mid by (rewrite bucket_cells_length; lia).
    unfold bucket_cells. rewrite nth_map_seq by lia. reflexivity.
Qed.

(* ---- thread_next ---- *)
Lemma thread_next_spec : forall l h prev, NoDup l ->
    (forall a, In a l -> exists l0 r0 x rest, get h a = Some (leaf (l0 :: r0 :: x :: rest))) ->
    length (thread_next h l prev) = length h /\
    (forall b, ~ In b l -> nth_error (thread_next h l prev) b = nth_error h b) /\
    (forall a, In a l -> exists l0 r0 x rest p,
        get h a = Some (leaf (l0 :: r0 :: x :: rest)) /\
        get (thread_next h l prev) a = Some (leaf (l0 :: r0 :: p :: rest)) /\
        (p = prev \/ exists b, In b l /\ p = VInt b)).
Proof.
  induction l as [|a t IH]; intros h prev ND Hc.
  - simpl. split; [reflexivity|]. split; [reflexivity|]. intros a [].
  - inversion ND as [|? ? Na NDt]; subst.
    destruct (Hc a (or_introl eq_refl)) as (l0 & r0 & x & rest & Ga).
    cbn [thread_next]. pose proof Ga as Ga'. apply get_nth in Ga'. rewrite Ga'. cbn [c_fields leaf].
    set (h1 := upd h a (Live (mkC None (l0 :: r0 :: prev :: rest)))).
    assert (Hc1 : forall b, In b t -> exists l0 r0 x rest, get h1 b = Some (leaf (l0 :: r0 :: x :: rest))).
    { intros b Hb. destruct (Hc b (or_intror Hb)) as (l1 & r1 & x1 & rest1 & Gb). exists l1, r1, x1, rest1.
      unfold h1. rewrite get_upd_neq; [exact Gb|]. intro; subst. contradiction. }
    destruct (IH h1 (VInt a) NDt Hc1) as (Len & Out & Inn).
    assert (La : a < length h) by (eapply get_lt; eauto).
    split; [rewrite Len; unfold h1; apply length_upd|]. split.
    + intros b Hb. rewrite Out by (intro; apply Hb; right; assumption).
      unfold h1. apply nth_upd_neq. intro; subst. apply Hb. left. reflexivity.
    + intros b [<-|Hb].
      * exists l0, r0, x, rest, prev. split; [exact Ga|]. split; [|left; reflexivity].
        apply get_nth. rewrite Out by exact Na. unfold h1. apply nth_upd_eq. exact La.
      * destruct (Inn b Hb) as (l1 & r1 & x1 & rest1 & p & G1 & G2 & Hp).
        exists l1, r1, x1, rest1, p. split; [|split; [exact G2|]].
        -- rewrite <- G1. unfold h1. symmetry. apply get_upd_neq. intro; subst. contradiction.
        -- right. destruct Hp as [->|(b' & Hb' & ->)]; [exists a; split; [left; reflexivity|reflexivity]|exists b'; split; [right; assumption|reflexivity]].
Qed.

Lemma own1_root : forall l, own1 (root_of l) = []. Proof. intros [|a l]; reflexivity. Qed.
Lemma own1_last : forall l, own1 (last_of l) = []. Proof. intro l. unfold last_of. destruct (rev l); reflexivity. Qed.
Lemma fp1_root : forall sub l, fp1 sub (root_of l) = []. Proof. intros sub [|a l]; reflexivity. Qed.
Lemma fp1_last : forall sub l, fp1 sub (last_of l) = []. Proof. intros sub l. unfold last_of. destruct (rev l); reflexivity. Qed.
Lemma refs1_root : forall sub l, refs1 sub (root_of l) = []. Proof. intros sub [|a l]; reflexivity. Qed.
Lemma refs1_last : forall sub l, refs1 sub (last_of l) = []. Proof. intros sub l. unfold last_of. destruct (rev l); reflexivity. Qed.

Ltac in_norm := repeat (rewrite in_app_iff || cbn [In] || rewrite in_seq || rewrite <- in_rev).
Ltac in_norm_in H := repeat (rewrite in_app_iff in H || cbn [In] in H || rewrite in_seq in H || rewrite <- in_rev in H).

Lemma xwr_inv : forall rc keys values pairs nodes,
  obj_inv 1 1 (fst (mk_xwr rc keys values pairs nodes)) (snd (mk_xwr rc keys values pairs nodes)) KXwr.
Proof.
  intros rc keys values pairs nodes.
  destruct (mk_xwr rc keys values pairs nodes) as [HH sf] eqn:EX. cbn [fst snd]. unfold mk_xwr in EX.
  destruct (mk_strtab_spec [] keys) as (h1 & E1 & X1 & L1 & Ga1 & Gh1 & Gb1). rewrite E1 in EX. cbn [length Nat.add] in *.
  destruct (mk_strtab_spec h1 values) as (h2 & E2 & X2 & L2 & Ga2 & Gh2 & Gb2). rewrite E2 in EX. rewrite L1 in *.
  unfold push in EX. rewrite mk_nodes_spec in EX. rewrite L2 in EX.
  set (kvc := leaf [VData (seqN pairs)]) in *. set (h3 := h2 ++ [Live kvc]) in *.
  assert (L3 : length h3 = keys + 2 + values + 2 + 1) by (unfold h3; rewrite app_length, L2; simpl; lia).
  set (extra := fun i : nat => [VNull; VData [N.of_nat i; 1%N]]) in *.
  set (base := length h3) in *. set (h4 := h3 ++ node_cells base extra nodes) in *.
  set (ns := rev (seq base nodes)) in *.
  assert (Hns : forall a, In a ns <-> base <= a < base + nodes) by (intro a; unfold ns; rewrite <- in_rev, in_seq; tauto).
  assert (NDns : NoDup ns) by (apply NoDup_rev, seq_NoDup).
  assert (Gn4 : forall a, In a ns -> exists l0 rest, get h4 a = Some (leaf (l0 :: VNull :: VNull :: rest)) /\
                 (l0 = VNull \/ exists b, In b ns /\ l0 = VInt b) /\ Forall (fun v => exists d, v = VData d) rest).
  { intros a Ha. apply Hns in Ha.
    assert (exists j, j < nodes /\ a = base + j) as (j & Hj & ->) by (exists (a - base); lia).
    eexists. eexists. split.
    - apply get_nth. unfold h4.
      rewrite <- (app_nil_r (node_cells base extra nodes)). unfold base at 1.
      rewrite nth_mid by (rewrite node_cells_length; lia).
      unfold node_cells. rewrite nth_map_seq by lia. reflexivity.
    - split; [|repeat constructor; eexists; reflexivity].
      cbn [Nat.add]. destruct j as [|j]; [left; reflexivity|right]. eexists. split; [|reflexivity]. apply Hns. lia. }
  destruct (thread_next_spec ns h4 VNull NDns) as (L5 & Out5 & In5).
  { intros a Ha. destruct (Gn4 a Ha) as (l0 & rest & G & _). eauto. }
  set (h5 := thread_next h4 ns VNull) in *. set (self := length h5) in *.
  match type of EX with (h5 ++ [Live ?c], _) = _ => set (selfc := c) in * end.
  assert (EH : HH = h5 ++ [Live selfc]) by congruence. assert (Es : sf = self) by congruence. clear EX. subst HH sf.
  set (H := h5 ++ [Live selfc]).
  assert (L4 : length h4 = base + nodes) by (unfold h4; rewrite app_length, node_cells_length; reflexivity).
  assert (Lself : self = base + nodes) by (rewrite L5; exact L4).
  (* cells below the nodes survive up to the final heap *)
  assert (Low : forall a c, get h2 a = Some c -> get H a = Some c).
  { intros a c G. unfold H. apply get_app_old. apply get_nth.
    rewrite Out5.
    - apply get_nth. unfold h4, h3. apply get_app_old. apply get_app_old. exact G.
    - intro Ia. apply Hns in Ia. apply get_lt in G. lia. }
  assert (Gkv : get H (keys + 2 + values + 2) = Some kvc).
  { unfold H. apply get_app_old. apply get_nth. rewrite Out5.
    - apply get_nth. unfold h4. apply get_app_old. unfold h3. rewrite <- L2. apply get_app_new.
    - intro Ia. apply Hns in Ia. lia. }
  assert (High : forall a c, get h5 a = Some c -> get H a = Some c) by (intros a c G; apply get_app_old; exact G).
  assert (Gself : get H self = Some selfc) by apply get_app_new.
  assert (Fself : fields_of H self = c_fields selfc) by apply fields_new.
  set (bs1 := seq 0 keys) in *. set (bs2 := seq (keys + 2) values) in *.
  set (own := self :: keys :: (keys + 1) :: bs1 ++ (keys + 2 + values) :: (keys + 2 + values + 1) :: bs2 ++ (keys + 2 + values + 2) :: ns).
  assert (Eown : @cons addr self (owned_of (c_fields selfc)) = own).
  { unfold selfc, own. cbn [c_fields owned_of flat_map own1 app]. rewrite !own1_root, own1_last. cbn [app].
    rewrite ?app_nil_r. reflexivity. }
  assert (FP : fp 1 H self = own).
  { rewrite fp_S, Fself. unfold selfc, own. cbn [c_fields flat_map fp1 app]. rewrite !fp1_root, fp1_last. cbn [app].
    rewrite ?app_nil_r. reflexivity. }
  assert (AR : all_refs 1 H self = []).
  { rewrite all_refs_S, Fself. unfold selfc. cbn [c_fields flat_map refs1 app]. rewrite !refs1_root, refs1_last. reflexivity. }
  clearbody H self.
  split.
  - exists rc, (c_fields selfc). split; [exact Gself|]. rewrite Eown. unfold selfc. cbn [c_fields app LAY strtab_lay].
    repeat (apply Forall2_cons); try apply Forall2_nil; cbn [has_type]; try exact I.
    + eexists. split; [apply Low; apply (ext_get _ _ _ _ X2); exact Ga1|]. split; [|exact I].
      apply Forall_forall. intros v Hv. apply in_map_iff in Hv. destruct Hv as (b & <- & Hb). cbn [lval_ok].
      unfold own. in_norm. fold bs1 in Hb. tauto.
    + eexists. split; [apply Low; apply (ext_get _ _ _ _ X2); exact Gh1|]. split; [|exact I].
      apply Forall_forall. intros v Hv. apply in_map_iff in Hv. destruct Hv as (b & <- & Hb). cbn [lval_ok].
      apply in_rev in Hb. unfold own. in_norm. fold bs1 in Hb. tauto.
    + apply Forall_forall. intros b Hb. destruct (Gb1 b Hb) as (d & G). eexists.
      split; [apply Low; apply (ext_get _ _ _ _ X2); exact G|]. split; repeat constructor.
    + eexists. split; [apply Low; exact Ga2|]. split; [|exact I].
      apply Forall_forall. intros v Hv. apply in_map_iff in Hv. destruct Hv as (b & <- & Hb). cbn [lval_ok].
      unfold own. in_norm. fold bs2 in Hb. tauto.
    + eexists. split; [apply Low; exact Gh2|]. split; [|exact I].
      apply Forall_forall. intros v Hv. apply in_map_iff in Hv. destruct Hv as (b & <- & Hb). cbn [lval_ok].
      apply in_rev in Hb. unfold own. in_norm. fold bs2 in Hb. tauto.
    + apply Forall_forall. intros b Hb. destruct (Gb2 b Hb) as (d & G). eexists.
      split; [apply Low; exact G|]. split; repeat constructor.
    + eexists. split; [exact Gkv|]. split; repeat constructor.
    + apply Forall_forall. intros a Ha.
      destruct (In5 a Ha) as (l0 & r0 & x & rest & p & G4 & G5 & Hp).
      destruct (Gn4 a Ha) as (l0' & rest' & G4' & Hl0 & Hrest). rewrite G4 in G4'. inversion G4'; subst l0' r0 x rest'.
      eexists. split; [apply High; exact G5|split; [|exact I]].
      assert (Iown : forall b, In b ns -> In b own) by (intros b Hb; unfold own; in_norm; tauto).
      constructor; [|constructor; [exact I|constructor]].
      * destruct Hl0 as [->|(b & Hb & ->)]; [exact I|]. cbn [lval_ok]. auto.
      * destruct Hp as [->|(b & Hb & ->)]; [exact I|]. cbn [lval_ok]. auto.
      * eapply Forall_impl; [|exact Hrest]. intros v (d & ->). exact I.
    + destruct (root_of_cases ns) as [->|(b & Hb & ->)]; [exact I|]. cbn [has_type]. unfold own. in_norm. tauto.
    + unfold own. left. reflexivity.
    + destruct (last_of_cases ns) as [->|(b & Hb & ->)]; [exact I|]. cbn [has_type]. unfold own. in_norm. tauto.
    + destruct (root_of_cases ns) as [->|(b & Hb & ->)]; [exact I|]. cbn [has_type]. unfold own. in_norm. tauto.
  - rewrite FP, AR. split; [intros s []|]. split; [|intros s []]. split; [|split; [intros s x []|intros s t x []]].
    unfold own, bs1, bs2.
    repeat (apply NoDup_cons; [in_norm; rewrite ?Hns; lia|]).
    apply NoDup_app_intro; [apply seq_NoDup| |intros x Hx Hy; in_norm_in Hx; in_norm_in Hy; rewrite ?Hns in Hy; lia].
    repeat (apply NoDup_cons; [in_norm; rewrite ?Hns; lia|]).
    apply NoDup_app_intro; [apply seq_NoDup| |intros x Hx Hy; in_norm_in Hx; in_norm_in Hy; rewrite ?Hns in Hy; lia].
    apply NoDup_cons; [rewrite Hns; lia|exact NDns].
Qed.

(* ================================================================== *)
(* all constructors                                                    *)
(* ================================================================== *)
(* nesting depth of a kind: data reader -> fragment table, directory / xattr reader -> meta reader *)
Definition kind_depth (k : kind) : nat := match k with KData | KDir | KXrd => 2 | _ => 1 end.

(* the heaps the constructors of the model return, with counted references, and every heap that
   differs from one of them in plain data only *)
Inductive built : kind -> heap -> addr -> Prop :=
| B_flat : forall k rc, is_flat_kind k = true -> built k (fst (mk_flat k rc)) (snd (mk_flat k rc))
| B_res : forall k rc, is_res_kind k = true -> built k (fst (mk_res k rc)) (snd (mk_res k rc))
| B_table : forall k rc used, is_table_kind k = true -> built k (fst (mk_table k rc used)) (snd (mk_table k rc used))
| B_meta : forall rc rcf rcc, (1 <= rcf)%N -> (1 <= rcc)%N ->
    built KMeta (fst (mk_meta rc rcf rcc)) (snd (mk_meta rc rcf rcc))
| B_data : forall rc fu db fb rcf rcc, (1 <= rcf)%N -> (1 <= rcc)%N ->
    built KData (fst (mk_data rc fu db fb rcf rcc)) (snd (mk_data rc fu db fb rcf rcc))
| B_dir : forall rc nodes rcf rcc, (2 <= rcf)%N -> (2 <= rcc)%N ->
    built KDir (fst (mk_dir rc nodes rcf rcc)) (snd (mk_dir rc nodes rcf rcc))
| B_xrd : forall rc ids idrd kvrd rcf rcc,
    (b2n idrd + b2n kvrd <= rcf)%N -> (b2n idrd + b2n kvrd <= rcc)%N ->
    built KXrd (fst (mk_xrd rc ids idrd kvrd rcf rcc)) (snd (mk_xrd rc ids idrd kvrd rcf rcc))
| B_xwr : forall rc keys values pairs nodes,
    built KXwr (fst (mk_xwr rc keys values pairs nodes)) (snd (mk_xwr rc keys values pairs nodes))
| B_payload : forall k h h' o, built k h o -> heap_like h h' -> built k h' o.

Lemma built_min_inv : forall k h o, built k h o -> obj_inv 1 (kind_depth k) h o k.
Proof.
  induction 1.
  - replace (kind_depth k) with 1 by (destruct k; try discriminate; reflexivity). apply flat_inv; assumption.
  - replace (kind_depth k) with 1 by (destruct k; try discriminate; reflexivity). apply res_inv; assumption.
  - replace (kind_depth k) with 1 by (destruct k; try discriminate; reflexivity). apply table_inv; assumption.
  - apply meta_inv; assumption.
  - apply data_inv; assumption.
  - apply dir_inv; assumption.
  - apply xrd_inv; assumption.
  - apply xwr_inv.
  - eapply obj_inv_payload_independent; eauto.
Qed.

Theorem constructors_establish_obj_inv_l : forall k h o, built k h o ->
    forall m n, 1 <= m -> kind_depth k <= n -> obj_inv m n h o k.
Proof. intros k h o B m n Hm Hn. eapply obj_inv_mono; [exact Hm|exact Hn|]. apply built_min_inv. exact B. Qed.

(* the counting condition is not an artefact: a meta reader whose file or compressor carries no
   count for it is outside [obj_inv] *)
Lemma meta_counting_necessary : forall rc rcf rcc,
    obj_inv 1 1 (fst (mk_meta rc rcf rcc)) (snd (mk_meta rc rcf rcc)) KMeta -> (1 <= rcf)%N /\ (1 <= rcc)%N.
Proof.
  intros rc rcf rcc (_ & _ & _ & Cn). unfold mk_meta, mk_meta_in, env_heap, push in Cn. simpl fst in Cn. simpl snd in Cn.
  simpl all_refs in Cn. split.
  - apply (Cn 0). simpl. auto.
  - apply (Cn 2). simpl. auto.
Qed.
