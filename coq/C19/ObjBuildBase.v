(* C19: three facts about [obj_inv] that the constructor theorems (ObjBuild.v) and the
   reachability theorem (ObjReach.v) need.

   (1) Depth.  [wf_obj n], [fp n], [all_refs n], [closed_obj m] are stable once the depth bound
       covers the object: obj_inv m n -> obj_inv m' n' for m <= m', n <= n'.
   (2) Payload.  Plain data (VData: scalars, inline arrays, the bytes behind a file descriptor, a
       compressor's configuration and stream state, tree keys, string buckets) plays no part in
       [obj_inv]: two heaps that agree cell by cell up to the CONTENTS of VData fields
       ([heap_like]) satisfy it together.
   (3) One object alone.  A shared-preserving operation applied to a single object (no copy
       beside it) keeps [obj_inv]. *)
From Coq Require Import List NArith Bool Arith Lia.
From SqfsV Require Import C19.ObjHeap C19.ObjHooks C19.ObjKinds C19.ObjSpec C19.ObjBase C19.ObjFrame
     C19.ObjCopy3 C19.ObjGenDefs C19.ObjGenBase C19.ObjShared.
Import ListNotations.

(* ================================================================== *)
(* (1) depth                                                           *)
(* ================================================================== *)
Lemma has_type_impl : forall (P Q : addr -> kind -> Prop) h own v t,
    (forall s k, P s k -> Q s k) -> has_type P h own v t -> has_type Q h own v t.
Proof. intros P Q h own v t PQ H. destruct t, v; simpl in *; auto. Qed.

Lemma wf_mono : forall n h a k, wf_obj n h a k -> wf_obj (S n) h a k.
Proof.
  induction n as [|n IH]; intros h a k W; [destruct W|].
  destruct W as (rc & fs & G & T). exists rc, fs. split; [exact G|].
  eapply Forall2_impl_in; [|exact T]. intros v t _ Hv. eapply has_type_impl; [|exact Hv].
  intros s ks [W1 R1]. split; [apply IH; exact W1|exact R1].
Qed.

Lemma fp_refs_mono : forall n h a k, wf_obj n h a k ->
    fp (S n) h a = fp n h a /\ all_refs (S n) h a = all_refs n h a.
Proof.
  induction n as [|n IH]; intros h a k W; [destruct W|].
  destruct W as (rc & fs & G & T).
  assert (Hfs : fields_of h a = fs) by (unfold fields_of; rewrite G; reflexivity).
  rewrite (fp_S (S n)), (fp_S n), (all_refs_S (S n)), (all_refs_S n), Hfs.
  split; [f_equal|]; apply flat_map_ext_in; intros v Hv;
    destruct (Forall2_in_l _ _ _ _ _ _ T Hv) as (t & _ & Tv);
    destruct v; simpl; auto; destruct t; simpl in Tv; try contradiction;
    destruct Tv as [W1 _]; apply (IH _ _ _ W1).
Qed.

Lemma closed_mono : forall m h s, closed_obj m h s ->
    closed_obj (S m) h s /\ fp (S m) h s = fp m h s.
Proof.
  intros m h s (ks & W & ND & AR). destruct (fp_refs_mono m h s ks W) as [EF ER].
  split; [|exact EF]. exists ks. split; [apply wf_mono; exact W|]. rewrite EF, ER. auto.
Qed.

Lemma obj_inv_S_n : forall m n h o k, obj_inv m n h o k -> obj_inv m (S n) h o k.
Proof.
  intros m n h o k (W & E). destruct (fp_refs_mono n h o k W) as [EF ER].
  split; [apply wf_mono; exact W|]. rewrite EF, ER. exact E.
Qed.

Lemma obj_inv_S_m : forall m n h o k, obj_inv m n h o k -> obj_inv (S m) n h o k.
Proof.
  intros m n h o k (W & C & (ND & D1 & D2) & Cn). split; [exact W|].
  assert (EF : forall s, In s (all_refs n h o) -> fp (S m) h s = fp m h s).
  { intros s Hs. apply (closed_mono m h s (C s Hs)). }
  split; [|split; [split; [|split]|]].
  - intros s Hs. apply (closed_mono m h s (C s Hs)).
  - exact ND.
  - intros s x Hs Hx. rewrite (EF s Hs) in Hx. apply (D1 s x Hs Hx).
  - intros s t x Hs Ht Ne Hx. rewrite (EF s Hs) in Hx. rewrite (EF t Ht). apply (D2 s t x Hs Ht Ne Hx).
  - exact Cn.
Qed.

Theorem obj_inv_mono : forall m n m' n' h o k,
    m <= m' -> n <= n' -> obj_inv m n h o k -> obj_inv m' n' h o k.
Proof.
  intros m n m' n' h o k Hm Hn I.
  induction Hm as [|m' Hm IHm]; [|apply obj_inv_S_m; exact IHm].
  induction Hn as [|n' Hn IHn]; [exact I|apply obj_inv_S_n; exact IHn].
Qed.

(* ================================================================== *)
(* (2) payload                                                         *)
(* ================================================================== *)
Definition val_like (v w : val) : Prop :=
  match v, w with VData _, VData _ => True | _, _ => v = w end.

Definition slot_like (s t : slot) : Prop :=
  match s, t with
  | Live c, Live d => c_hdr c = c_hdr d /\ Forall2 val_like (c_fields c) (c_fields d)
  | Freed, Freed => True
  | _, _ => False
  end.

Definition heap_like (h h' : heap) : Prop := Forall2 slot_like h h'.

Lemma val_like_refl : forall v, val_like v v.
Proof. intros []; simpl; auto. Qed.

Lemma heap_like_refl : forall h, heap_like h h.
Proof.
  induction h as [|s h IH]; constructor; [|exact IH]. destruct s as [c|]; simpl; [|exact I].
  split; [reflexivity|]. induction (c_fields c); constructor; auto using val_like_refl.
Qed.

Lemma like_nth : forall h h' a, heap_like h h' ->
    match nth_error h a, nth_error h' a with
    | Some s, Some t => slot_like s t
    | None, None => True
    | _, _ => False
    end.
Proof.
  intros h h' a L. revert a. induction L as [|s t h h' Hs L IH]; intros [|a]; simpl; auto. apply IH.
Qed.

Lemma like_get : forall h h' a c, heap_like h h' -> get h a = Some c ->
    exists d, get h' a = Some d /\ c_hdr d = c_hdr c /\ Forall2 val_like (c_fields c) (c_fields d).
Proof.
  intros h h' a c L G. pose proof (like_nth h h' a L) as N. apply get_nth in G. rewrite G in N.
  destruct (nth_error h' a) as [[d|]|] eqn:E; try contradiction. destruct N as [Hh Hf].
  exists d. split; [apply get_nth; exact E|]. auto.
Qed.

Lemma like_get_none : forall h h' a, heap_like h h' -> get h a = None -> get h' a = None.
Proof.
  intros h h' a L G. pose proof (like_nth h h' a L) as N. unfold get in *.
  destruct (nth_error h a) as [[c|]|]; try discriminate;
    destruct (nth_error h' a) as [[d|]|]; try contradiction; reflexivity.
Qed.

Lemma like_fields : forall h h' a, heap_like h h' -> Forall2 val_like (fields_of h a) (fields_of h' a).
Proof.
  intros h h' a L. unfold fields_of. destruct (get h a) as [c|] eqn:G.
  - destruct (like_get h h' a c L G) as (d & G' & _ & F). rewrite G'. exact F.
  - rewrite (like_get_none h h' a L G). constructor.
Qed.

Lemma like_rc : forall h h' a, heap_like h h' -> rc_of h' a = rc_of h a.
Proof.
  intros h h' a L. unfold rc_of. destruct (get h a) as [c|] eqn:G.
  - destruct (like_get h h' a c L G) as (d & G' & Hh & _). rewrite G', Hh. reflexivity.
  - rewrite (like_get_none h h' a L G). reflexivity.
Qed.

Lemma like_flat_map : forall (f g : val -> list addr) fs fs',
    Forall2 val_like fs fs' -> (forall d, f (VData d) = [] /\ g (VData d) = []) ->
    (forall v, f v = g v) -> flat_map g fs' = flat_map f fs.
Proof.
  intros f g fs fs' F D E. induction F as [|v w fs fs' Hv F IH]; [reflexivity|]. simpl. rewrite IH. f_equal.
  destruct v, w; simpl in Hv; try (inversion Hv; subst; symmetry; apply E); try contradiction.
  destruct (D d) as [-> _]. destruct (D d0) as [_ ->]. reflexivity.
Qed.

Lemma like_fp_refs : forall n h h' a, heap_like h h' ->
    fp n h' a = fp n h a /\ all_refs n h' a = all_refs n h a.
Proof.
  induction n as [|n IH]; intros h h' a L; [split; reflexivity|].
  rewrite !fp_S, !all_refs_S. pose proof (like_fields h h' a L) as F. split; [f_equal|].
  - apply like_flat_map; [exact F|intros d; split; reflexivity|].
    intros v. destruct v; simpl; auto. symmetry. apply (IH h h' a0 L).
  - apply like_flat_map; [exact F|intros d; split; reflexivity|].
    intros v. destruct v; simpl; auto. symmetry. apply (IH h h' a0 L).
Qed.

Lemma like_owned : forall fs fs', Forall2 val_like fs fs' -> owned_of fs' = owned_of fs.
Proof.
  intros fs fs' F. unfold owned_of. apply like_flat_map; [exact F|intros; split; reflexivity|reflexivity].
Qed.

Lemma like_mask : forall bs fs fs', Forall2 val_like fs fs' -> mask_ok bs fs -> mask_ok bs fs'.
Proof.
  induction bs as [|b bs IH]; intros fs fs' F M.
  - simpl in *. induction F as [|v w fs fs' Hv F IHF]; [constructor|]. inversion M; subst.
    constructor; [|auto]. destruct v, w; simpl in *; try discriminate; auto.
  - destruct F as [|v w fs fs' Hv F]; [exact I|]. simpl in *. destruct M as [M1 M2]. split; [|eapply IH; eauto].
    intro Hb. specialize (M1 Hb). destruct v, w; simpl in *; try discriminate; auto.
Qed.

Lemma like_leaf : forall h h' own tm a, heap_like h h' -> leaf_ok h own tm a -> leaf_ok h' own tm a.
Proof.
  intros h h' own tm a L (fs & G & Lv & Tm). destruct (like_get h h' a _ L G) as (d & G' & Hh & F).
  simpl in Hh, F. destruct d as [hd fs']. simpl in *. subst hd. exists fs'. split; [exact G'|]. split.
  - clear Tm G G'. induction F as [|v w fs fs' Hv F IH]; [constructor|]. inversion Lv; subst.
    constructor; [|auto]. destruct v, w; simpl in *; try discriminate; try contradiction; auto;
      inversion Hv; subst; assumption.
  - destruct tm; simpl in *; [|exact I|eapply like_mask; eauto].
    clear Lv G G'. induction F as [|v w fs fs' Hv F IH]; [constructor|]. inversion Tm; subst.
    constructor; [|auto]. destruct v, w; simpl in *; try discriminate; auto.
Qed.

Lemma like_wf : forall n h h' a k, heap_like h h' -> wf_obj n h a k -> wf_obj n h' a k.
Proof.
  induction n as [|n IH]; intros h h' a k L W; [destruct W|].
  destruct W as (rc & fs & G & T). destruct (like_get h h' a _ L G) as (d & G' & Hh & F).
  destruct d as [hd fs']. simpl in Hh, F. subst hd. exists rc, fs'. split; [exact G'|].
  rewrite (like_owned fs fs' F). set (own := a :: owned_of fs) in *. clearbody own.
  clear G G'. revert T. generalize (LAY k). induction F as [|v w fs fs' Hv F IHF]; intros lay T.
  - inversion T; subst. constructor.
  - inversion T as [|? t ? lay' Tv T']; subst. constructor; [|apply IHF; exact T'].
    destruct t, v, w; simpl in *; try discriminate; try contradiction; auto;
      try (inversion Hv; subst); auto.
    + eapply like_leaf; eauto.
    + eapply Forall_impl; [|exact Tv]. intros x Hx. eapply like_leaf; eauto.
    + destruct Tv as [W1 R1]. split; [eapply IH; eauto|]. rewrite (like_rc h h' _ L). exact R1.
    + destruct Tv as (c & hd & G & Hc). destruct (like_get h h' _ _ L G) as (d & G' & Hh & _).
      exists d, hd. split; [exact G'|congruence].
Qed.

Theorem obj_inv_payload_independent : forall m n h h' o k,
    heap_like h h' -> obj_inv m n h o k -> obj_inv m n h' o k.
Proof.
  intros m n h h' o k L (W & C & (ND & D1 & D2) & Cn).
  destruct (like_fp_refs n h h' o L) as [EF ER].
  assert (EFm : forall s, fp m h' s = fp m h s) by (intro s; apply (like_fp_refs m h h' s L)).
  split; [eapply like_wf; eauto|]. rewrite EF, ER. split; [|split; [split; [|split]|]].
  - intros s Hs. destruct (C s Hs) as (ks & Ws & NDs & ARs). exists ks.
    split; [eapply like_wf; eauto|]. rewrite EFm. split; [exact NDs|].
    rewrite (proj2 (like_fp_refs m h h' s L)). exact ARs.
  - exact ND.
  - intros s x Hs Hx. rewrite EFm in Hx. apply (D1 s x Hs Hx).
  - intros s t x Hs Ht Ne Hx. rewrite EFm in Hx. rewrite EFm. apply (D2 s t x Hs Ht Ne Hx).
  - intros s Hs. rewrite (like_rc h h' s L). apply Cn; exact Hs.
Qed.

(* ================================================================== *)
(* (3) a shared-preserving operation on one object alone               *)
(* ================================================================== *)
Theorem shared_preserving_keeps_obj_inv :
  forall m n k view (op ans : Type) (run : op -> heap -> addr -> heap * ans)
         (step : list aval -> op -> aval -> aval * ans),
    shared_preserving_op m n k view op ans run step ->
    forall p h x h' r, obj_inv m n h x k -> run p h x = (h', r) ->
      obj_inv m n h' x k /\ rc_of h' x = rc_of h x /\ all_refs n h' x = all_refs n h x.
Proof.
  intros m n k view op ans run step Sp p h x h' r I Er.
  destruct (Sp p h x h' r I Er) as (Len & Fr & Shp & Wx' & NDx' & Fp' & Rf' & Rc' & _ & _).
  destruct I as (W & C & (ND & D1 & D2) & Cn).
  split; [|split; assumption]. split; [exact Wx'|]. rewrite Rf'. split; [|split; [split; [|split]|]].
  - intros s Hs. apply (Shp s Hs).
  - exact NDx'.
  - intros s z Hs Hz Hf. destruct (Shp s Hs) as (_ & _ & EF & _). rewrite EF in Hz.
    destruct (Fp' z Hf) as [Ho|Hn]; [exact (D1 s z Hs Hz Ho)|].
    pose proof (closed_lt m h s z (C s Hs) Hz). lia.
  - intros s t z Hs Ht Ne Hz. destruct (Shp s Hs) as (_ & _ & EFs & _).
    destruct (Shp t Ht) as (_ & _ & EFt & _). rewrite EFs in Hz. rewrite EFt. apply (D2 s t z); auto.
  - intros s Hs. destruct (Shp s Hs) as (Es & _). rewrite (rc_same h h' s Es). apply Cn; exact Hs.
Qed.

(* either side of a pair satisfies the single-object invariant *)
Lemma pair_inv_obj_l : forall m n h o c k, pair_inv_g m n h o c k -> obj_inv m n h o k.
Proof. intros m n h o c k (W & _ & E). split; [exact W|]. eapply env_ok_app_l; eauto. Qed.
