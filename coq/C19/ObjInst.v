(* C19: [run_set] is a local operation; the whole life cycle theorem. *)
From Coq Require Import List NArith Bool Arith Lia.
From SqfsV Require Import C19.ObjHeap C19.ObjHooks C19.ObjKinds C19.ObjSpec C19.ObjBase C19.ObjFrame
     C19.ObjDrop C19.ObjCopyBase C19.ObjCopy C19.ObjCopy3 C19.ObjPair C19.ObjOps.
From SqfsV Require Export C19.ObjInstDefs.
Import ListNotations.

Lemma abs_lval_data : forall own w d, abs_lval own w = AData d -> w = VData d.
Proof. intros own w d H; destruct w; simpl in H; congruence. Qed.

Theorem run_set_local : local_op 1 KId (list N) (list N) run_set step_set.
Proof.
  intros v h x h' r W S E.
  destruct W as (rc & fs & G & T).
  simpl in T. inversion T as [|v1 t1 l1 l1' T1 T']; subst. inversion T' as [|v2 t2 l2 l2' T2 T'']; subst.
  inversion T''; subst. clear T T' T''.
  destruct v1; simpl in T1; try contradiction.
  assert (Hfs : fields_of h x = [VData d; v2]) by (unfold fields_of; rewrite G; reflexivity).
  unfold run_set in E. rewrite Hfs in E.
  assert (Triv : (h', r) = (h, []) ->
                 step_set v (abs_obj 1 h x) = (abs_obj 1 h x, []) ->
                 length h <= length h' /\
                 (forall y, y < length h -> ~ In y (fp 1 h x) -> nth_error h' y = nth_error h y) /\
                 wf_obj 1 h' x KId /\ sep_obj 1 h' x /\
                 (forall y, In y (fp 1 h' x) -> In y (fp 1 h x) \/ length h <= y) /\
                 all_refs 1 h' x = all_refs 1 h x /\ rc_of h' x = rc_of h x /\
                 abs_obj 1 h' x = fst (step_set v (abs_obj 1 h x)) /\
                 r = snd (step_set v (abs_obj 1 h x))).
  { intros E0 Es. inversion E0; subst h' r. rewrite Es. simpl.
    split; [lia|]. split; [auto|]. split.
    - exists rc, [VData d; v2]. split; [assumption|]. simpl. constructor; [exact I|]. constructor; auto.
    - split; [assumption|]. split; [auto|]. auto. }
  destruct v2; simpl in T2; try contradiction.
  - (* no array *)
    apply Triv; [congruence|]. simpl. rewrite G. simpl. reflexivity.
  - destruct T2 as (lf & Gb & Lf & Tm).
    assert (Hlf : fields_of h a = lf) by (unfold fields_of; rewrite Gb; reflexivity).
    rewrite Hlf in E.
    assert (Abs : abs_obj 1 h x = AObj (Some KId) (Some KId)
                                      [AData d; ALeaf (map (abs_lval (x :: owned_of [VData d; VOwn a])) lf)]).
    { simpl. rewrite G. simpl. unfold abs_leaf. rewrite Hlf. reflexivity. }
    destruct lf as [|w [|w2 lf]].
    + apply Triv; [congruence|]. rewrite Abs. reflexivity.
    + destruct w; try (apply Triv; [congruence|]; rewrite Abs; reflexivity).
      (* the in-place overwrite *)
      inversion E; subst h' r. clear E Triv.
      destruct S as [ND DJ]. rewrite fp_S, Hfs in ND. simpl in ND.
      assert (Nxa : x <> a).
      { inversion ND; subst. intro; subst. apply H1. left; reflexivity. }
      set (h' := upd h a (Live (mkC None [VData v]))).
      assert (Gx' : get h' x = Some (mkC (Some (mkH rc (Some KId) (Some KId))) [VData d; VOwn a])).
      { unfold h'. rewrite get_upd_neq; auto. }
      assert (Ga' : get h' a = Some (mkC None [VData v])) by (eapply get_upd_eq; eauto).
      assert (Hfs' : fields_of h' x = [VData d; VOwn a]) by (unfold fields_of; rewrite Gx'; reflexivity).
      split; [unfold h'; rewrite length_upd; lia|]. split.
      { intros y Hy Ny. unfold h'. apply nth_upd_neq. intro; subst y. apply Ny.
        rewrite fp_S, Hfs. simpl. auto. }
      split.
      { exists rc, [VData d; VOwn a]. split; [assumption|]. simpl. constructor; [exact I|].
        constructor; [|constructor]. simpl. exists [VData v]. split; [assumption|].
        split; [constructor; [exact I|constructor]|]. simpl. constructor; [exact I|constructor]. }
      split.
      { split.
        - rewrite fp_S, Hfs'. simpl. exact ND.
        - rewrite all_refs_S, Hfs'. simpl. intros s []. }
      split; [intros y Hy; left; rewrite fp_S, Hfs' in Hy; rewrite fp_S, Hfs; exact Hy|].
      split; [rewrite !all_refs_S, Hfs, Hfs'; reflexivity|].
      split; [unfold rc_of; rewrite Gx', G; reflexivity|].
      rewrite Abs. simpl. rewrite Gx'. simpl. unfold abs_leaf, fields_of. rewrite Ga'. simpl. auto.
    + apply Triv; [destruct w; congruence|]. rewrite Abs.
      destruct w; reflexivity.
Qed.

(* ---- copy, any schedule of local operations, release in either order ---- *)
Theorem life_cycle : forall HK, hooks_ok HK = true ->
  forall (n : nat) (k : kind) (op ans : Type)
         (run : op -> heap -> addr -> heap * ans) (step : op -> aval -> aval * ans),
    local_op n k op ans run step ->
    forall fuel h o s,
      n + 1 <= fuel -> wf_obj n h o k -> sep_obj n h o -> slack h (all_refs n h o) ->
      (rc_of h o <= 1)%N ->
      exists h1 h2 rs h3 h4,
        sqfs_copy HK fuel h o = Ok (h1, Some (length h)) /\
        exec op ans run s h1 o (length h) = (h2, rs) /\
        side true rs = snd (exec_abs op ans step (side true s) (abs_obj n h o)) /\
        side false rs = snd (exec_abs op ans step (side false s) (abs_obj n h o)) /\
        sqfs_drop DK fuel h2 o = Ok h3 /\ sqfs_drop DK fuel h3 (length h) = Ok h4 /\
        (exists h3', sqfs_drop DK fuel h2 (length h) = Ok h3' /\ sqfs_drop DK fuel h3' o = Ok h4) /\
        released h2 h4 (fp n h2 o ++ fp n h2 (length h)) (all_refs n h2 o ++ all_refs n h2 (length h)).
Proof.
  intros HK OK n k op ans run step Loc fuel h o s Hf W S SL Rc.
  destruct (copy_establishes HK OK n fuel h o k ltac:(lia) W S SL)
    as (h1 & E1 & G & SF & P & EF & AO).
  destruct SF as (Wc & Rcc & _ & _ & _ & AC).
  destruct (exec op ans run s h1 o (length h)) as [h2 rs] eqn:E2.
  destruct (ObjOps.interleaving_independent n k op ans run step Loc s h1 o (length h) h2 rs P E2)
    as (P2 & R1 & R2 & _ & S1 & _ & S2).
  assert (Ro : rc_of h1 o = rc_of h o).
  { apply rc_same. destruct G as (_ & _ & G3). rewrite G3.
    - rewrite cnt_not_in; [apply option_map_add0|]. destruct S as [_ DJ]. intro Hr.
      apply (DJ o Hr). eapply wf_in_fp; eauto.
    - eapply wf_fp_lt; eauto. eapply wf_in_fp; eauto. }
  destruct (release_either_order HK OK n fuel h2 o (length h) k Hf P2)
    as (h3 & h4 & h3' & h4' & D1 & D2 & D3 & D4 & Eq & Rel).
  { rewrite R1, Ro. assumption. }
  { rewrite R2, Rcc. lia. }
  exists h1, h2, rs, h3, h4. split; [assumption|]. split; [exact E2|].
  split; [rewrite S1, AO; reflexivity|]. split; [rewrite S2, AC; reflexivity|].
  split; [assumption|]. split; [assumption|]. split; [|assumption].
  exists h3'. subst h4'. auto.
Qed.
