(* C19, layer (ii): sqfs_copy / sqfs_drop over the cell heap, driven by a
   per-kind transcription of the C copy and destroy hooks.  Definitions only.

   A copy hook is transcribed as: how the header of the new struct is
   produced, and - field by field - what happens after the struct was
   duplicated (memcpy / field-wise assignment of the same values):

     AKeep      nothing: the memcpy'd value stays (for a pointer: an ALIAS)
     ADup tm    if non-NULL: allocate a new cell with the same contents
                (malloc+memcpy, array_init_copy, hash_table_clone, dup(fd),
                deflateInit2/ZSTD_createCCtx of an equivalent state); [tm] says
                which of the new cell's pointer fields the hook re-points into
                the copy
     ADupL tm   the same for every cell of a set (copy_node, bucket loop)
     ACopy      field = sqfs_copy(orig->field)          (if non-NULL)
     AGrab      field = sqfs_grab(field)
     ATr        the hook re-points this internal pointer into the copy

   The re-pointing (tree left/right, bucket pointers, kv_block_first/last/next,
   key_context) is the translation of an address of the original through the
   old-cell -> new-cell map built while duplicating. *)
From Coq Require Import List NArith Bool Arith.
From SqfsV Require Import C19.ObjHeap.
Import ListNotations.

Inductive trmode := TrNone | TrAll | TrMask (m : list bool).

Inductive ftype :=
| TData
| TInt
| TOwn (tm : trmode)      (* owned header-less cell; tm: where it may hold internal pointers *)
| TOwnL (tm : trmode)
| TObj (k : kind)         (* owned sub-object whose hooks are those of kind k *)
| TRef.

Inductive action := AKeep | ADup (tm : trmode) | ADupL (tm : trmode) | ACopy | AGrab | ATr.
Inductive hdr_action :=
| HMemcpy             (* header bytes copied from the original *)
| HInit (k : kind)    (* sqfs_object_init(copy, destroy_k, copy_k) *)
| HZero.              (* calloc and nothing else: refcount 0, destroy NULL, copy NULL *)
Record hook := mkHook { hk_hdr : hdr_action; hk_acts : list action }.

Inductive daction := DNone | DFree | DFreeL | DDrop.

(* ---- translation of internal pointers ---- *)
Fixpoint assoc (m : list (addr * addr)) (a : addr) : option addr :=
  match m with
  | [] => None
  | (x, y) :: t => if Nat.eqb x a then Some y else assoc t a
  end.
Definition tr (m : list (addr * addr)) (a : addr) : addr :=
  match assoc m a with Some b => b | None => a end.
Definition tr_val (m : list (addr * addr)) (v : val) : val :=
  match v with VInt a => VInt (tr m a) | _ => v end.
Fixpoint tr_mask (m : list (addr * addr)) (bs : list bool) (fs : list val) : list val :=
  match bs, fs with
  | b :: bs', v :: fs' => (if b then tr_val m v else v) :: tr_mask m bs' fs'
  | _, _ => fs
  end.
Definition tr_fields (tm : trmode) (m : list (addr * addr)) (fs : list val) : list val :=
  match tm with
  | TrNone => fs
  | TrAll => map (tr_val m) fs
  | TrMask bs => tr_mask m bs fs
  end.

(* ---- duplicating header-less cells ---- *)
Definition dup_leaf (h : heap) (a : addr) : res (heap * addr) :=
  c <- load h a ;;
  match c_hdr c with
  | Some _ => Crash BadShape
  | None => Ok (h ++ [Live c], length h)
  end.

Fixpoint dup_leaves (h : heap) (l : list addr) : res (heap * list addr) :=
  match l with
  | [] => Ok (h, [])
  | a :: t =>
      r <- dup_leaf h a ;;
      let '(h1, a') := r in
      r2 <- dup_leaves h1 t ;;
      let '(h2, t') := r2 in
      Ok (h2, a' :: t')
  end.

Record cstate := mkCS {
  cs_h : heap;
  cs_m : list (addr * addr);            (* old cell -> new cell *)
  cs_pend : list (addr * trmode)        (* new cells whose pointers still need re-pointing *)
}.

Section Semantics.
  Variable HK : kind -> hook.            (* the copy hooks *)
  Variable DK : kind -> list daction.    (* the destroy hooks *)

  Definition copy_step (rec : heap -> addr -> res (heap * option addr))
             (st : cstate) (act : action) (v : val) : res (option (cstate * val)) :=
    match act, v with
    | AKeep, _ => Ok (Some (st, v))
    | ATr, VInt _ => Ok (Some (st, v))
    | ATr, VNull => Ok (Some (st, v))
    | ADup _, VNull => Ok (Some (st, v))
    | ADup tm, VOwn a =>
        r <- dup_leaf (cs_h st) a ;;
        let '(h1, a') := r in
        Ok (Some (mkCS h1 ((a, a') :: cs_m st) ((a', tm) :: cs_pend st), VOwn a'))
    | ADupL tm, VOwnL l =>
        r <- dup_leaves (cs_h st) l ;;
        let '(h1, l') := r in
        Ok (Some (mkCS h1 (combine l l' ++ cs_m st)
                       (map (fun a' => (a', tm)) l' ++ cs_pend st), VOwnL l'))
    | ACopy, VNull => Ok (Some (st, v))
    | ACopy, VObj a =>
        r <- rec (cs_h st) a ;;
        match r with
        | (h1, Some a') => Ok (Some (mkCS h1 (cs_m st) (cs_pend st), VObj a'))
        | (_, None) => Ok None
        end
    | AGrab, VNull => Ok (Some (st, v))
    | AGrab, VRef a =>
        h1 <- sqfs_grab (cs_h st) a ;;
        Ok (Some (mkCS h1 (cs_m st) (cs_pend st), v))
    | _, _ => Crash BadShape
    end.

  Fixpoint copy_fields (rec : heap -> addr -> res (heap * option addr))
           (acts : list action) (fs : list val) (st : cstate)
    : res (option (cstate * list val)) :=
    match acts, fs with
    | act :: acts', v :: fs' =>
        r <- copy_step rec st act v ;;
        match r with
        | None => Ok None
        | Some (st1, v') =>
            r2 <- copy_fields rec acts' fs' st1 ;;
            match r2 with
            | None => Ok None
            | Some (st2, fs2) => Ok (Some (st2, v' :: fs2))
            end
        end
    | _, _ => Ok (Some (st, fs))       (* fields without an action: memcpy'd, kept *)
    end.

  Fixpoint fix_leaves (m : list (addr * addr)) (pend : list (addr * trmode)) (h : heap) : res heap :=
    match pend with
    | [] => Ok h
    | (a, tm) :: t =>
        c <- load h a ;;
        h1 <- store h a (mkC (c_hdr c) (tr_fields tm m (c_fields c))) ;;
        fix_leaves m t h1
    end.

  Fixpoint fix_fields (m : list (addr * addr)) (acts : list action) (fs : list val) : list val :=
    match acts, fs with
    | ATr :: acts', v :: fs' => tr_val m v :: fix_fields m acts' fs'
    | _ :: acts', v :: fs' => v :: fix_fields m acts' fs'
    | _, _ => fs
    end.

  Definition new_header (ha : hdr_action) (hd : header) : header :=
    match ha with
    | HMemcpy => hd
    | HInit k => mkH 1 (Some k) (Some k)
    | HZero => mkH 0 None None
    end.

  (* one copy hook; a failing sub-copy makes the C hook unwind and return NULL
     (the unwinding itself is not modelled: the heap is returned unchanged) *)
  Definition copy_obj (rec : heap -> addr -> res (heap * option addr))
             (hk : hook) (h : heap) (o : addr) : res (heap * option addr) :=
    co <- load h o ;;
    match c_hdr co with
    | None => Crash BadShape
    | Some hd =>
        let c := length h in
        let hd' := new_header (hk_hdr hk) hd in
        let h1 := h ++ [Live (mkC (Some hd') (c_fields co))] in
        r <- copy_fields rec (hk_acts hk) (c_fields co) (mkCS h1 [(o, c)] []) ;;
        match r with
        | None => Ok (h, None)
        | Some (st, fs') =>
            h2 <- fix_leaves (cs_m st) (cs_pend st) (cs_h st) ;;
            h3 <- store h2 c (mkC (Some hd') (fix_fields (cs_m st) (hk_acts hk) fs')) ;;
            Ok (h3, Some c)
        end
    end.

  (* sqfs_copy: if (orig->copy != NULL) { copy = orig->copy(orig); if (copy) copy->refcount = 1; } *)
  Fixpoint sqfs_copy (n : nat) (h : heap) (o : addr) : res (heap * option addr) :=
    match n with
    | O => OutOfFuel
    | S n' =>
        co <- load h o ;;
        match c_hdr co with
        | None => Crash BadShape
        | Some hd =>
            match h_copy hd with
            | None => Ok (h, None)
            | Some k =>
                r <- copy_obj (sqfs_copy n') (HK k) h o ;;
                match r with
                | (h1, None) => Ok (h1, None)
                | (h1, Some c) =>
                    cc <- load h1 c ;;
                    match set_rc cc 1 with
                    | None => Crash BadShape
                    | Some cc' => h2 <- store h1 c cc' ;; Ok (h2, Some c)
                    end
                end
            end
        end
    end.

  (* ---- destroy hooks and sqfs_drop ---- *)
  Definition release_field (dropf : heap -> addr -> res heap) (da : daction) (v : val) (h : heap)
    : res heap :=
    match da, v with
    | DNone, _ => Ok h
    | _, VNull => Ok h                       (* free(NULL), sqfs_drop(NULL) *)
    | DFree, VOwn a | DFree, VObj a | DFree, VRef a | DFree, VInt a => free h a
    | DFreeL, VOwnL l => free_list h l
    | DDrop, VObj a | DDrop, VRef a | DDrop, VOwn a | DDrop, VInt a => dropf h a
    | _, _ => Crash BadShape
    end.

  Fixpoint release_fields (dropf : heap -> addr -> res heap) (das : list daction) (fs : list val)
           (h : heap) : res heap :=
    match das, fs with
    | da :: das', v :: fs' =>
        h1 <- release_field dropf da v h ;;
        release_fields dropf das' fs' h1
    | _, _ => Ok h
    end.

  Definition destroy_obj (dropf : heap -> addr -> res heap) (das : list daction) (h : heap) (a : addr)
    : res heap :=
    c <- load h a ;;
    h1 <- release_fields dropf das (c_fields c) h ;;
    free h1 a.

  (* sqfs_drop: if (refcount <= 1) obj->destroy(obj); else refcount -= 1; *)
  Fixpoint sqfs_drop (n : nat) (h : heap) (a : addr) : res heap :=
    match n with
    | O => OutOfFuel
    | S n' =>
        c <- load h a ;;
        match c_hdr c with
        | None => Crash BadShape
        | Some hd =>
            if (h_rc hd <=? 1)%N then
              match h_destroy hd with
              | None => Crash NullCall
              | Some k => destroy_obj (sqfs_drop n') (DK k) h a
              end
            else
              store h a (mkC (Some (mkH (h_rc hd - 1) (h_destroy hd) (h_copy hd))) (c_fields c))
        end
    end.

  (* an operation that follows every internal pointer of the object (what a
     lookup through key_context / the block list / the tree does) *)
  Fixpoint touch_vals (h : heap) (fs : list val) : res unit :=
    match fs with
    | [] => Ok tt
    | VInt a :: t => _ <- load h a ;; touch_vals h t
    | _ :: t => touch_vals h t
    end.

  Fixpoint touch_leaves (h : heap) (l : list addr) : res unit :=
    match l with
    | [] => Ok tt
    | a :: t => c <- load h a ;; _ <- touch_vals h (c_fields c) ;; touch_leaves h t
    end.

  Definition touch_obj (h : heap) (a : addr) : res unit :=
    c <- load h a ;;
    _ <- touch_vals h (c_fields c) ;;
    touch_leaves h (owned_of (c_fields c)).
End Semantics.

(* ---- when does a transcribed hook do the right thing for a struct layout ---- *)
Definition trmode_eqb (a b : trmode) : bool :=
  match a, b with
  | TrNone, TrNone => true
  | TrAll, TrAll => true
  | TrMask x, TrMask y => (fix eqb (x y : list bool) := match x, y with
                                                        | [], [] => true
                                                        | p :: x', q :: y' => Bool.eqb p q && eqb x' y'
                                                        | _, _ => false
                                                        end) x y
  | _, _ => false
  end.

Definition act_ok (t : ftype) (a : action) : bool :=
  match t, a with
  | TData, AKeep => true
  | TInt, ATr => true
  | TOwn tm, ADup tm' => trmode_eqb tm tm'
  | TOwnL tm, ADupL tm' => trmode_eqb tm tm'
  | TObj _, ACopy => true
  | TRef, AGrab => true
  | _, _ => false
  end.

Definition dact_ok (t : ftype) (d : daction) : bool :=
  match t, d with
  | TData, DNone | TInt, DNone => true
  | TOwn _, DFree => true
  | TOwnL _, DFreeL => true
  | TObj _, DDrop | TRef, DDrop => true
  | _, _ => false
  end.

Fixpoint forallb2 {A B} (f : A -> B -> bool) (l : list A) (m : list B) : bool :=
  match l, m with
  | [], [] => true
  | a :: l', b :: m' => f a b && forallb2 f l' m'
  | _, _ => false
  end.

Definition hdr_ok (k : kind) (ha : hdr_action) : bool :=
  match ha with
  | HMemcpy => true
  | HInit k' => kind_eqb k k'
  | HZero => false
  end.

Definition hook_ok (k : kind) (lay : list ftype) (hk : hook) (das : list daction) : bool :=
  hdr_ok k (hk_hdr hk) && forallb2 act_ok lay (hk_acts hk) && forallb2 dact_ok lay das.
