(* C19: basic facts for the theorems without [slack]: a shared object survives a
   change of its reference count; what a release leaves of the rest of the
   environment ([env_survives]). *)
From Coq Require Import List NArith Bool Arith Lia.
From SqfsV Require Import C19.ObjHeap C19.ObjHooks C19.ObjKinds C19.ObjSpec C19.ObjBase C19.ObjFrame
     C19.ObjDrop C19.ObjCopy3 C19.ObjGenDefs.
Import ListNotations.

Lemma counted_app_l : forall h R1 R2, counted h (R1 ++ R2) -> counted h R1.
Proof.
  intros h R1 R2 C s Hs. specialize (C s (in_or_app _ _ _ (or_introl Hs))).
  rewrite cnt_app in C. lia.
Qed.

Lemma slack_counted : forall h R, slack h R -> counted h R.
Proof. intros h R S s Hs. specialize (S s Hs). fold (cnt R s) in S. lia. Qed.

Lemma slack_dead_nil : forall h R, slack h R -> dead h R = [].
Proof.
  intros h R S. unfold dead.
  assert (H : forall l, (forall s, In s l -> In s R) ->
                        filter (fun s => N.eqb (N.of_nat (cnt R s)) (rc_of h s)) l = []).
  { induction l as [|s l IH]; intros Hl; simpl; [reflexivity|].
    pose proof (S s (Hl s (or_introl eq_refl))) as Hs. fold (cnt R s) in Hs.
    destruct (N.eqb_spec (N.of_nat (cnt R s)) (rc_of h s)) as [E|_]; [lia|].
    apply IH. intros; apply Hl; right; assumption. }
  apply H. auto.
Qed.

Lemma closed_in_fp : forall m h s, closed_obj m h s -> In s (fp m h s).
Proof. intros m h s (ks & W & _). eapply wf_in_fp; eauto. Qed.

Lemma closed_shared_ok : forall m h s, closed_obj m h s -> shared_ok h s.
Proof.
  intros m h s (ks & W & _). destruct (wf_pos _ _ _ _ W) as [m' ->].
  destruct W as (rc & fs & G & _). eexists; eexists; split; [exact G|reflexivity].
Qed.

Lemma closed_lt : forall m h s x, closed_obj m h s -> In x (fp m h s) -> x < length h.
Proof. intros m h s x (ks & W & _) Hx. eapply wf_fp_lt; eauto. Qed.

Lemma env_ok_app_l : forall m h F1 F2 R1 R2, env_ok m h (F1 ++ F2) (R1 ++ R2) -> env_ok m h F1 R1.
Proof.
  intros m h F1 F2 R1 R2 (C & (ND & D1 & D2) & Cn). split; [|split; [split; [|split]|]].
  - intros s Hs. apply C. apply in_or_app; auto.
  - eapply NoDup_app_l; eauto.
  - intros s x Hs Hx Hf. apply (D1 s x); [apply in_or_app; auto|assumption|apply in_or_app; auto].
  - intros s t x Hs Ht. apply D2; apply in_or_app; auto.
  - eapply counted_app_l; eauto.
Qed.

Lemma env_ok_F_incl : forall m h F F' R,
    env_ok m h F R -> NoDup F' -> (forall x, In x F' -> In x F) -> env_ok m h F' R.
Proof.
  intros m h F F' R (C & (ND & D1 & D2) & Cn) ND' I. split; [assumption|]. split; [|assumption].
  split; [assumption|]. split; [|assumption].
  intros s x Hs Hx Hf. apply (D1 s x Hs Hx). apply I; assumption.
Qed.

Lemma env_ref_not_F : forall m h F R s, env_ok m h F R -> In s R -> ~ In s F.
Proof.
  intros m h F R s (C & (_ & D1 & _) & _) Hs. apply (D1 s s Hs). apply closed_in_fp. auto.
Qed.

Lemma env_F_cnt0 : forall m h F R x, env_ok m h F R -> In x F -> cnt R x = 0.
Proof.
  intros m h F R x E Hx. apply cnt_not_in. intro Hr. exact (env_ref_not_F _ _ _ _ _ E Hr Hx).
Qed.

Lemma env_fp_cnt0 : forall m h F R s x,
    env_ok m h F R -> In s R -> In x (fp m h s) -> x <> s -> cnt R x = 0.
Proof.
  intros m h F R s x (C & (_ & _ & D2) & _) Hs Hx Ne. apply cnt_not_in. intro Hr.
  apply (D2 x s x Hr Hs Ne); [apply closed_in_fp; auto|assumption].
Qed.

(* a well-formed object whose top cell changes in the reference count only *)
Lemma wf_hdr_change : forall n h h' a k,
    wf_obj n h a k -> NoDup (fp n h a) ->
    (forall rc fs, get h a = Some (mkC (Some (mkH rc (Some k) (Some k))) fs) ->
                   exists rc', get h' a = Some (mkC (Some (mkH rc' (Some k) (Some k))) fs)) ->
    (forall x, In x (fp n h a) -> x <> a -> nth_error h' x = nth_error h x) ->
    (forall s, In s (all_refs n h a) -> shared_ok h' s) ->
    wf_obj n h' a k /\ fp n h' a = fp n h a /\ all_refs n h' a = all_refs n h a /\
    abs_obj n h' a = abs_obj n h a.
Proof.
  intros [|n] h h' a k W ND Hd Fr Sh; [destruct W|].
  destruct W as (rc & fs & G & T).
  destruct (Hd rc fs G) as [rc' G'].
  assert (Hfs : fields_of h a = fs) by (unfold fields_of; rewrite G; reflexivity).
  assert (Hfs' : fields_of h' a = fs) by (unfold fields_of; rewrite G'; reflexivity).
  rewrite fp_S, Hfs in ND, Fr. rewrite all_refs_S, Hfs in Sh.
  apply NoDup_cons_iff in ND. destruct ND as [Na ND].
  assert (A : forall x, In x (flat_map (fp1 (fp n h)) fs) -> nth_error h' x = nth_error h x).
  { intros x Hx. apply Fr; [right; assumption|]. intro; subst. contradiction. }
  destruct (fields_frame n h h' (a :: owned_of fs) fs (LAY k) A Sh T) as (T' & EF & ER).
  split; [|split; [|split]].
  - exists rc', fs. split; [assumption|exact T'].
  - rewrite !fp_S, Hfs, Hfs', EF. reflexivity.
  - rewrite !all_refs_S, Hfs, Hfs', ER. reflexivity.
  - simpl. rewrite G, G'. simpl. f_equal. apply map_ext_in. intros v Hv.
    destruct v; simpl; auto.
    + unfold abs_leaf. f_equal. f_equal. apply fields_same. apply A.
      eapply in_fp1_fields; eauto. simpl; auto.
    + f_equal. apply map_ext_in. intros x Hx. unfold abs_leaf. f_equal. f_equal.
      apply fields_same. apply A. eapply in_fp1_fields; eauto.
    + apply abs_frame. intros x Hx. apply A. eapply in_fp1_fields; eauto.
Qed.

Lemma hdr_of_sub : forall h h' a j k,
    nth_error h' a = option_map (sub_rc j) (nth_error h a) ->
    forall rc fs, get h a = Some (mkC (Some (mkH rc (Some k) (Some k))) fs) ->
                  exists rc', get h' a = Some (mkC (Some (mkH rc' (Some k) (Some k))) fs).
Proof.
  intros h h' a j k E rc fs G. apply get_nth in G. rewrite G in E. simpl in E.
  eexists. apply get_nth. exact E.
Qed.

Lemma hdr_of_add : forall h h' a j k,
    nth_error h' a = option_map (add_rc j) (nth_error h a) ->
    forall rc fs, get h a = Some (mkC (Some (mkH rc (Some k) (Some k))) fs) ->
                  exists rc', get h' a = Some (mkC (Some (mkH rc' (Some k) (Some k))) fs).
Proof.
  intros h h' a j k E rc fs G. apply get_nth in G. rewrite G in E. simpl in E.
  eexists. apply get_nth. exact E.
Qed.

(* a closed object whose reference count changed (and nothing else) is still closed *)
Lemma closed_hdr_change : forall m h h' s,
    closed_obj m h s ->
    (forall k rc fs, get h s = Some (mkC (Some (mkH rc (Some k) (Some k))) fs) ->
                     exists rc', get h' s = Some (mkC (Some (mkH rc' (Some k) (Some k))) fs)) ->
    (forall x, In x (fp m h s) -> x <> s -> nth_error h' x = nth_error h x) ->
    closed_obj m h' s /\ fp m h' s = fp m h s /\ abs_obj m h' s = abs_obj m h s.
Proof.
  intros m h h' s (ks & W & ND & AR) Hd Fr.
  destruct (wf_hdr_change m h h' s ks W ND (Hd ks) Fr) as (W' & EF & ER & EA).
  { rewrite AR. intros ? []. }
  split; [|split; assumption]. exists ks. split; [assumption|]. split; [rewrite EF; assumption|].
  rewrite ER. assumption.
Qed.

(* ---- what a release leaves of the rest of the environment ----
   h1 is h after releasing cells F1 and references R1 (the shared objects that died
   with them included); F2 / R2 are the cells and references of something else that
   shared the environment with it. *)
Lemma env_survives : forall m h h1 F1 R1 F2 R2,
    released h h1 (F1 ++ dead_fp m h R1) R1 ->
    env_ok m h (F1 ++ F2) (R1 ++ R2) ->
    (forall x, In x F2 -> nth_error h1 x = nth_error h x) /\
    (forall s, In s R2 ->
               nth_error h1 s = option_map (sub_rc (cnt R1 s)) (nth_error h s) /\
               (forall x, In x (fp m h s) -> x <> s -> nth_error h1 x = nth_error h x) /\
               closed_obj m h1 s /\ fp m h1 s = fp m h s /\ abs_obj m h1 s = abs_obj m h s /\
               rc_of h1 s = (rc_of h s - N.of_nat (cnt R1 s))%N) /\
    env_ok m h1 F2 R2 /\
    (forall x, In x (dead_fp m h R1) \/ In x (dead_fp m h1 R2) <-> In x (dead_fp m h (R1 ++ R2))).
Proof.
  intros m h h1 F1 R1 F2 R2 (Len & Fr & Ot) E.
  pose proof E as (C & (ND & D1 & D2) & Cn).
  assert (Self : forall s, In s (R1 ++ R2) -> In s (fp m h s)).
  { intros s Hs. apply closed_in_fp. auto. }
  assert (NotDead : forall s x, In s R2 -> In x (fp m h s) -> ~ In x (dead_fp m h R1)).
  { intros s x Hs Hx Hd. unfold dead_fp in Hd. apply in_flat_map in Hd. destruct Hd as (t & Ht & Hx').
    unfold dead in Ht. apply filter_In in Ht. destruct Ht as [Ht1 Ht2]. apply N.eqb_eq in Ht2.
    destruct (Nat.eq_dec t s) as [->|Ne].
    - pose proof (Cn s (in_or_app _ _ _ (or_intror Hs))) as Hc. rewrite cnt_app in Hc.
      pose proof (cnt_in R2 s Hs). lia.
    - apply (D2 t s x); auto; apply in_or_app; auto. }
  assert (A2 : forall x, In x F2 -> nth_error h1 x = nth_error h x).
  { intros x Hx. rewrite Ot.
    - assert (Z : cnt R1 x = 0).
      { apply cnt_not_in. intro Hr.
        apply (env_ref_not_F _ _ _ _ _ E (in_or_app _ _ _ (or_introl Hr))). apply in_or_app; auto. }
      rewrite Z. apply option_map_sub0.
    - intro Hf. apply in_app_or in Hf. destruct Hf as [Hf|Hf].
      + eapply NoDup_app_disj; eauto.
      + unfold dead_fp in Hf. apply in_flat_map in Hf. destruct Hf as (t & Ht & Hx').
        unfold dead in Ht. apply filter_In in Ht. destruct Ht as [Ht1 _].
        apply (D1 t x); [apply in_or_app; auto|assumption|apply in_or_app; auto]. }
  assert (B : forall s, In s R2 ->
               nth_error h1 s = option_map (sub_rc (cnt R1 s)) (nth_error h s) /\
               (forall x, In x (fp m h s) -> x <> s -> nth_error h1 x = nth_error h x) /\
               closed_obj m h1 s /\ fp m h1 s = fp m h s /\ abs_obj m h1 s = abs_obj m h s /\
               rc_of h1 s = (rc_of h s - N.of_nat (cnt R1 s))%N).
  { intros s Hs. pose proof (in_or_app R1 R2 s (or_intror Hs)) as Hs'.
    assert (B1 : nth_error h1 s = option_map (sub_rc (cnt R1 s)) (nth_error h s)).
    { apply Ot. intro Hf. apply in_app_or in Hf. destruct Hf as [Hf|Hf].
      - apply (D1 s s Hs' (Self s Hs')). apply in_or_app; auto.
      - exact (NotDead s s Hs (Self s Hs') Hf). }
    assert (B2 : forall x, In x (fp m h s) -> x <> s -> nth_error h1 x = nth_error h x).
    { intros x Hx Ne. rewrite Ot.
      - assert (Z : cnt R1 x = 0).
        { apply cnt_not_in. intro Hr. pose proof (in_or_app R1 R2 x (or_introl Hr)) as Hr'.
          apply (D2 x s x Hr' Hs' Ne (Self x Hr') Hx). }
        rewrite Z. apply option_map_sub0.
      - intro Hf. apply in_app_or in Hf. destruct Hf as [Hf|Hf].
        + apply (D1 s x Hs' Hx). apply in_or_app; auto.
        + exact (NotDead s x Hs Hx Hf). }
    destruct (closed_hdr_change m h h1 s (C s Hs')) as (C1 & EF & EA).
    { intros k rc fs. eapply hdr_of_sub; eauto. }
    { exact B2. }
    split; [assumption|]. split; [assumption|]. split; [assumption|]. split; [assumption|].
    split; [assumption|]. eapply rc_of_sub; eauto. }
  split; [assumption|]. split; [assumption|]. split.
  - split; [intros s Hs; apply (B s Hs)|]. split; [split; [|split]|].
    + eapply NoDup_app_r; eauto.
    + intros s x Hs Hx Hf. destruct (B s Hs) as (_ & _ & _ & EF & _). rewrite EF in Hx.
      apply (D1 s x); [apply in_or_app; auto|assumption|apply in_or_app; auto].
    + intros s t x Hs Ht Ne Hx. destruct (B s Hs) as (_ & _ & _ & EFs & _).
      destruct (B t Ht) as (_ & _ & _ & EFt & _). rewrite EFs in Hx. rewrite EFt.
      apply (D2 s t x); auto; apply in_or_app; auto.
    + intros s Hs. destruct (B s Hs) as (_ & _ & _ & _ & _ & Rc). rewrite Rc.
      pose proof (Cn s (in_or_app _ _ _ (or_intror Hs))) as Hc. rewrite cnt_app in Hc. lia.
  - intros x. unfold dead_fp. split.
    + intros [Hx|Hx]; apply in_flat_map in Hx; destruct Hx as (t & Ht & Hx);
        unfold dead in Ht; apply filter_In in Ht; destruct Ht as [Ht1 Ht2]; apply N.eqb_eq in Ht2;
        apply in_flat_map; exists t.
      * split; [|assumption]. unfold dead. apply filter_In.
        pose proof (in_or_app R1 R2 t (or_introl Ht1)) as Ht'. split; [assumption|].
        apply N.eqb_eq. pose proof (Cn t Ht') as Hc. rewrite cnt_app in *. lia.
      * destruct (B t Ht1) as (_ & _ & _ & EF & _ & Rc). rewrite EF in Hx. split; [|assumption].
        unfold dead. apply filter_In.
        pose proof (in_or_app R1 R2 t (or_intror Ht1)) as Ht'. split; [assumption|].
        apply N.eqb_eq. pose proof (Cn t Ht') as Hc. rewrite cnt_app in *. lia.
    + intros Hx. apply in_flat_map in Hx. destruct Hx as (t & Ht & Hx).
      unfold dead in Ht. apply filter_In in Ht. destruct Ht as [Ht1 Ht2]. apply N.eqb_eq in Ht2.
      rewrite cnt_app in Ht2.
      destruct (in_dec Nat.eq_dec t R2) as [I2|N2].
      * right. destruct (B t I2) as (_ & _ & _ & EF & _ & Rc). apply in_flat_map. exists t.
        split; [|rewrite EF; assumption]. unfold dead. apply filter_In. split; [assumption|].
        apply N.eqb_eq. lia.
      * left. apply in_flat_map. exists t. split; [|assumption]. unfold dead. apply filter_In.
        apply in_app_or in Ht1. destruct Ht1 as [I1|I2]; [|contradiction]. split; [assumption|].
        apply N.eqb_eq. rewrite (cnt_not_in R2 t N2) in Ht2. lia.
Qed.
