(* C19, layer (i): pure abstract state machines of the copyable kinds whose
   answers are not already the subject of another property's reader model: the
   id table, the fragment table and the recording half of the xattr writer.
   [copy] on this layer is the identity on the state.  Definitions only.

   The machines mirror id_table.c, frag_table.c, xattr_writer_record.c at the
   level of their observable answers (return code, index/value out-parameters);
   allocation failure is not modelled; the xattr writer machine assumes the
   documented begin / add* / end protocol (the generator of the tie keeps to it). *)
From Coq Require Import List NArith ZArith Bool.
From SqfsV Require Import Gen.Constants.
Import ListNotations.
Local Open Scope N_scope.

(* ---------------- id table ---------------- *)
Definition idtbl := list N.

Fixpoint find_from (x : N) (l : list N) (i : N) : option N :=
  match l with
  | [] => None
  | y :: t => if N.eqb x y then Some i else find_from x t (i + 1)
  end.

(* answer: return code, *out.  The overflow refusal at 0x10000 entries is C01's
   subject (F04) and not modelled: the tie stays far below that many ids. *)
Definition id_to_index (t : idtbl) (id : N) : idtbl * (Z * N) :=
  match find_from id t 0 with
  | Some i => (t, (0%Z, i mod 65536))
  | None => (t ++ [id], (0%Z, N.of_nat (length t) mod 65536))
  end.

Definition index_to_id (t : idtbl) (idx : N) : idtbl * (Z * N) :=
  match nth_error t (N.to_nat idx) with
  | Some id => (t, (0%Z, id))
  | None => (t, (c_SQFS_ERROR_OUT_OF_BOUNDS, 4294967295))
  end.

(* ---------------- fragment table ---------------- *)
Definition fragtbl := list (N * N).     (* start offset, size word *)

Definition frag_append (t : fragtbl) (loc size : N) : fragtbl * (Z * N) :=
  (t ++ [(loc, size)], (0%Z, N.of_nat (length t) mod 4294967296)).

Fixpoint replace_nth {A} (l : list A) (i : nat) (x : A) : list A :=
  match l, i with
  | [], _ => []
  | _ :: t, O => x :: t
  | y :: t, S i' => y :: replace_nth t i' x
  end.

Definition frag_set (t : fragtbl) (idx loc size : N) : fragtbl * Z :=
  if N.ltb idx (N.of_nat (length t)) then (replace_nth t (N.to_nat idx) (loc, size), 0%Z)
  else (t, c_SQFS_ERROR_OUT_OF_BOUNDS).

(* answer: return code, start, size, pad *)
Definition frag_lookup (t : fragtbl) (idx : N) : Z * option (N * N * N) :=
  match nth_error t (N.to_nat idx) with
  | Some (loc, size) => (0%Z, Some (loc, size, 0))
  | None => (c_SQFS_ERROR_OUT_OF_BOUNDS, None)
  end.

Definition frag_size (t : fragtbl) : N := N.of_nat (length t).

(* ---------------- xattr writer (recording) ---------------- *)
Record xwr := mkXwr {
  x_keys : list (list N);           (* str_table of keys, index = position *)
  x_values : list (list N);         (* str_table of values *)
  x_pairs : list (N * N);           (* kv_pairs[0 .. used): (key index, value index) *)
  x_start : N;                      (* kv_start *)
  x_blocks : list (N * N)           (* recorded blocks in insertion order: start, count *)
}.

Definition xwr_empty : xwr := mkXwr [] [] [] 0 [].

Fixpoint bytes_eqb (a b : list N) : bool :=
  match a, b with
  | [], [] => true
  | x :: a', y :: b' => N.eqb x y && bytes_eqb a' b'
  | _, _ => false
  end.

Fixpoint str_find (s : list N) (l : list (list N)) (i : N) : option N :=
  match l with
  | [] => None
  | y :: t => if bytes_eqb s y then Some i else str_find s t (i + 1)
  end.

(* str_table_get_index *)
Definition str_index (l : list (list N)) (s : list N) : list (list N) * N :=
  match str_find s l 0 with
  | Some i => (l, i)
  | None => (l ++ [s], N.of_nat (length l))
  end.

Fixpoint is_prefix (p s : list N) : bool :=
  match p, s with
  | [], _ => true
  | x :: p', y :: s' => N.eqb x y && is_prefix p' s'
  | _, [] => false
  end.

(* "user." "trusted." "security." *)
Definition xattr_prefixes : list (list N) :=
  [[117; 115; 101; 114; 46];
   [116; 114; 117; 115; 116; 101; 100; 46];
   [115; 101; 99; 117; 114; 105; 116; 121; 46]].

(* sqfs_get_xattr_prefix_id(key) >= 0 *)
Definition key_supported (key : list N) : bool :=
  existsb (fun p => is_prefix p key && Nat.ltb (length p) (length key)) xattr_prefixes.

Definition xwr_begin (w : xwr) : xwr * Z :=
  (mkXwr (x_keys w) (x_values w) (x_pairs w) (N.of_nat (length (x_pairs w))) (x_blocks w), 0%Z).

Definition pair_eqb (a b : N * N) : bool := N.eqb (fst a) (fst b) && N.eqb (snd a) (snd b).

(* the scan of the block being recorded: identical pair -> nothing; same key -> replace *)
Fixpoint scan_pairs (l : list (N * N)) (kv : N * N) : option (list (N * N)) :=
  match l with
  | [] => None
  | e :: t =>
      if pair_eqb e kv then Some l
      else if N.eqb (fst e) (fst kv) then Some (kv :: t)
      else match scan_pairs t kv with Some t' => Some (e :: t') | None => None end
  end.

Definition xwr_add (w : xwr) (key value : list N) : xwr * Z :=
  if negb (key_supported key) then (w, c_SQFS_ERROR_UNSUPPORTED)
  else
    let '(ks, ki) := str_index (x_keys w) key in
    let '(vs, vi) := str_index (x_values w) value in
    let st := N.to_nat (x_start w) in
    let old := firstn st (x_pairs w) in
    let cur := skipn st (x_pairs w) in
    let cur' := match scan_pairs cur (ki, vi) with Some c => c | None => cur ++ [(ki, vi)] end in
    (mkXwr ks vs (old ++ cur') (x_start w) (x_blocks w), 0%Z).

Definition pair_leb (a b : N * N) : bool :=
  N.ltb (fst a) (fst b) || (N.eqb (fst a) (fst b) && N.leb (snd a) (snd b)).

Fixpoint insert_sorted (x : N * N) (l : list (N * N)) : list (N * N) :=
  match l with
  | [] => [x]
  | y :: t => if pair_leb x y then x :: l else y :: insert_sorted x t
  end.

Definition sort_pairs (l : list (N * N)) : list (N * N) := fold_right insert_sorted [] l.

Fixpoint pairs_eqb (a b : list (N * N)) : bool :=
  match a, b with
  | [], [] => true
  | x :: a', y :: b' => pair_eqb x y && pairs_eqb a' b'
  | _, _ => false
  end.

Definition block_content (pairs : list (N * N)) (b : N * N) : list (N * N) :=
  firstn (N.to_nat (snd b)) (skipn (N.to_nat (fst b)) pairs).

Fixpoint find_block (pairs : list (N * N)) (blk : list (N * N)) (bs : list (N * N)) (i : N) : option N :=
  match bs with
  | [] => None
  | b :: t => if pairs_eqb (block_content pairs b) blk then Some i else find_block pairs blk t (i + 1)
  end.

(* answer: return code, *out *)
Definition xwr_end (w : xwr) : xwr * (Z * N) :=
  let st := N.to_nat (x_start w) in
  let old := firstn st (x_pairs w) in
  let cur := sort_pairs (skipn st (x_pairs w)) in
  match cur with
  | [] => (w, (0%Z, 4294967295))
  | _ =>
      match find_block old cur (x_blocks w) 0 with
      | Some i => (mkXwr (x_keys w) (x_values w) old (x_start w) (x_blocks w), (0%Z, i))
      | None =>
          (mkXwr (x_keys w) (x_values w) (old ++ cur) (x_start w)
                 (x_blocks w ++ [(x_start w, N.of_nat (length cur))]),
           (0%Z, N.of_nat (length (x_blocks w))))
      end
  end.

(* the copy operation of layer (i) *)
Definition copy_state {A : Type} (s : A) : A * A := (s, s).
