(* C19: following the internal pointers of a well-formed object never leaves
   its own live cells; and the witnesses for the hooks of the unpatched tree. *)
From Coq Require Import List NArith Bool Arith Lia.
From SqfsV Require Import C19.ObjHeap C19.ObjHooks C19.ObjKinds C19.ObjSpec C19.ObjBase C19.ObjFrame.
Import ListNotations.

Lemma touch_vals_ok : forall h own fs,
    (forall x, In x own -> exists c, get h x = Some c) ->
    Forall (fun v => match v with VInt x => In x own | _ => True end) fs ->
    touch_vals h fs = Ok tt.
Proof.
  intros h own fs L F. induction F as [|v fs Hv F IH]; simpl; [reflexivity|].
  destruct v; auto. destruct (L a Hv) as [c G]. rewrite (load_of_get _ _ _ G). simpl. exact IH.
Qed.

Lemma wf_own_live : forall n h a k fs rc,
    get h a = Some (mkC (Some (mkH rc (Some k) (Some k))) fs) ->
    Forall2 (has_type (fun s ks => wf_obj n h s ks /\ rc_of h s = 1%N) h (a :: owned_of fs)) fs (LAY k) ->
    forall x, In x (a :: owned_of fs) -> exists c, get h x = Some c.
Proof.
  intros n h a k fs rc G T x [<-|Hx]; [eauto|].
  unfold owned_of in Hx. apply in_flat_map in Hx. destruct Hx as (v & Hv & Hx).
  destruct (Forall2_in_l _ _ _ _ _ _ T Hv) as (t & _ & Tv).
  destruct v; simpl in Hx; try contradiction.
  - destruct Hx as [<-|[]]. destruct t; simpl in Tv; try contradiction.
    destruct Tv as (lf & G' & _). eauto.
  - destruct t; simpl in Tv; try contradiction. rewrite Forall_forall in Tv.
    destruct (Tv x Hx) as (lf & G' & _). eauto.
Qed.

Lemma typed_ints_inside : forall W h own fs lay,
    Forall2 (has_type W h own) fs lay ->
    Forall (fun v => match v with VInt x => In x own | _ => True end) fs.
Proof.
  intros W h own fs lay T. induction T; constructor; auto.
  destruct y, x; simpl in H |- *; auto; contradiction.
Qed.

Theorem touch_wf_ok : forall n h a k, wf_obj n h a k -> touch_obj h a = Ok tt.
Proof.
  intros [|n] h a k W; [destruct W|]. destruct W as (rc & fs & G & T).
  pose proof (wf_own_live n h a k fs rc G T) as Live.
  unfold touch_obj. rewrite (load_of_get _ _ _ G). simpl.
  assert (F1 : Forall (fun v => match v with VInt x => In x (a :: owned_of fs) | _ => True end) fs).
  { eapply typed_ints_inside; eauto. }
  rewrite (touch_vals_ok h (a :: owned_of fs) fs Live F1). simpl.
  assert (LF : forall x, In x (owned_of fs) ->
                         exists lf, get h x = Some (mkC None lf) /\ Forall (lval_ok (a :: owned_of fs)) lf).
  { intros x Hx. unfold owned_of in Hx. apply in_flat_map in Hx. destruct Hx as (v & Hv & Hx).
    destruct (Forall2_in_l _ _ _ _ _ _ T Hv) as (t & _ & Tv).
    destruct v; simpl in Hx; try contradiction.
    - destruct Hx as [<-|[]]. destruct t; simpl in Tv; try contradiction.
      destruct Tv as (lf & G' & L & _). eauto.
    - destruct t; simpl in Tv; try contradiction. rewrite Forall_forall in Tv.
      destruct (Tv x Hx) as (lf & G' & L & _). eauto. }
  revert LF. generalize (owned_of fs) at 1 3. intros l. induction l as [|x l IH]; intros LF; simpl; [reflexivity|].
  destruct (LF x (or_introl eq_refl)) as (lf & G' & L). rewrite (load_of_get _ _ _ G'). simpl.
  rewrite (touch_vals_ok h (a :: owned_of fs) lf Live).
  - simpl. apply IH. intros y Hy. apply LF. right; assumption.
  - eapply Forall_impl; [|exact L]. intros v Hv. destruct v; simpl in *; auto.
Qed.
