(* C19: the boolean checkers of ObjGenDefs.v imply the hypotheses of the general
   theorems (the tie runs them on every model heap it builds). *)
From Coq Require Import List NArith Bool Arith Lia.
From SqfsV Require Import C19.ObjHeap C19.ObjHooks C19.ObjKinds C19.ObjSpec C19.ObjBase
     C19.ObjCheckDefs C19.ObjCheck C19.ObjGenDefs.
Import ListNotations.

Lemma countedb_ok : forall h R, countedb h R = true -> counted h R.
Proof.
  intros h R H s Hs. unfold countedb in H. rewrite forallb_forall in H.
  apply N.leb_le. apply H. assumption.
Qed.

Lemma closedb_ok : forall m h s, closedb m h s = true -> closed_obj m h s.
Proof.
  intros m h s H. unfold closedb in H. apply andb_prop in H. destruct H as [H H3].
  apply andb_prop in H. destruct H as [H1 H2].
  apply existsb_exists in H1. destruct H1 as (ks & _ & W). exists ks.
  split; [apply wfb_ok; assumption|]. split; [apply nodupb_ok; assumption|].
  destruct (all_refs m h s); [reflexivity|discriminate].
Qed.

Lemma not_mem : forall x l, negb (mem x l) = true -> ~ In x l.
Proof. intros x l H Hi. apply mem_in in Hi. rewrite Hi in H. discriminate. Qed.

Lemma env_sepb_ok : forall m h F R, env_sepb m h F R = true -> env_sep m h F R.
Proof.
  intros m h F R H. unfold env_sepb in H. apply andb_prop in H. destruct H as [H H3].
  apply andb_prop in H. destruct H as [H1 H2].
  rewrite forallb_forall in H2, H3. split; [apply nodupb_ok; assumption|]. split.
  - intros s x Hs Hx. specialize (H2 s Hs). rewrite forallb_forall in H2. apply not_mem. auto.
  - intros s t x Hs Ht Ne Hx. specialize (H3 s Hs). rewrite forallb_forall in H3.
    specialize (H3 t Ht). apply orb_prop in H3. destruct H3 as [H3|H3].
    + apply Nat.eqb_eq in H3. contradiction.
    + rewrite forallb_forall in H3. apply not_mem. auto.
Qed.

Lemma env_okb_ok : forall m h F R, env_okb m h F R = true -> env_ok m h F R.
Proof.
  intros m h F R H. unfold env_okb in H. apply andb_prop in H. destruct H as [H H3].
  apply andb_prop in H. destruct H as [H1 H2]. rewrite forallb_forall in H1.
  split; [intros s Hs; apply closedb_ok; auto|]. split; [apply env_sepb_ok; assumption|].
  apply countedb_ok; assumption.
Qed.

Lemma copyable_g_ok : forall m n h a k, copyable_g m n h a k = true -> obj_inv m n h a k.
Proof.
  intros m n h a k H. unfold copyable_g in H. apply andb_prop in H. destruct H as [H1 H2].
  split; [apply wfb_ok; assumption|apply env_okb_ok; assumption].
Qed.
