(* C19: sqfs_copy is correct for every well-formed object of every depth. *)
From Coq Require Import List NArith Bool Arith Lia.
From SqfsV Require Import C19.ObjHeap C19.ObjHooks C19.ObjKinds C19.ObjSpec C19.ObjBase C19.ObjFrame
     C19.ObjCopyBase C19.ObjCopy C19.ObjCopy2 C19.ObjCopy3.
Import ListNotations.

Lemma kind_eqb_eq : forall a b, kind_eqb a b = true -> a = b.
Proof. intros [] []; simpl; intro H; try discriminate; reflexivity. Qed.

Lemma Forall2_tr : forall M (l l' : list addr),
    NoDup (map fst M) -> Forall2 (fun a a' => In (a, a') M) l l' ->
    Forall2 (fun a a' => tr M a = a') l l'.
Proof.
  intros M l l' ND F. eapply Forall2_impl; [|exact F]. intros a a' H. apply tr_in; assumption.
Qed.

Lemma Forall2_tr_in : forall M (l l' : list addr) x,
    Forall2 (fun a a' => tr M a = a') l l' -> In x l -> In (tr M x) l'.
Proof.
  intros M l l' x F. induction F; intros Hi; simpl in *; [contradiction|].
  destruct Hi as [<-|Hi]; [left; auto|right; auto].
Qed.

Lemma Forall2_tr_nth : forall M (l l' : list addr) i a,
    Forall2 (fun a a' => tr M a = a') l l' -> nth_error l i = Some a ->
    nth_error l' i = Some (tr M a).
Proof.
  intros M l l' i a F Hi. destruct (Forall2_nth _ _ _ _ _ _ _ F Hi) as (a' & Hn & E).
  congruence.
Qed.

Lemma own1_sub_fp1 : forall sub v x, In x (own1 v) -> In x (fp1 sub v).
Proof. intros sub [] x H; simpl in *; auto; contradiction. Qed.

Lemma owned_sub_fp : forall sub fs x, In x (owned_of fs) -> In x (flat_map (fp1 sub) fs).
Proof.
  intros sub fs x H. unfold owned_of in H. apply in_flat_map in H. destruct H as (v & Hv & H).
  apply in_flat_map. exists v. split; [assumption|]. apply own1_sub_fp1; assumption.
Qed.

Lemma NoDup_own1 : forall sub v, NoDup (fp1 sub v) -> NoDup (own1 v).
Proof. intros sub [] H; simpl in *; auto; constructor. Qed.

Lemma NoDup_owned : forall sub fs, NoDup (flat_map (fp1 sub) fs) -> NoDup (owned_of fs).
Proof.
  intros sub. unfold owned_of. induction fs as [|v fs IH]; intros ND; simpl in *; [constructor|].
  apply NoDup_app_intro.
  - eapply NoDup_own1. eapply NoDup_app_l; eauto.
  - apply IH. eapply NoDup_app_r; eauto.
  - intros x Hx Hy. eapply NoDup_app_disj; [exact ND| |].
    + apply own1_sub_fp1; eassumption.
    + apply (owned_sub_fp sub fs x). exact Hy.
Qed.

Section Top.
  Variable HK : kind -> hook.
  Hypothesis HKok : forall k,
      hdr_ok k (hk_hdr (HK k)) = true /\
      Forall2 (fun t a => act_ok t a = true) (LAY k) (hk_acts (HK k)).

  Lemma new_header_kinds : forall k rc,
      h_destroy (new_header (hk_hdr (HK k)) (mkH rc (Some k) (Some k))) = Some k /\
      h_copy (new_header (hk_hdr (HK k)) (mkH rc (Some k) (Some k))) = Some k.
  Proof.
    intros k rc. destruct (HKok k) as [Hh _]. destruct (hk_hdr (HK k)); simpl in *; auto.
    - apply kind_eqb_eq in Hh. subst. auto.
    - discriminate.
  Qed.

  Theorem copy_ok : forall n fuel, n <= fuel -> copy_spec HK fuel n.
  Proof.
    induction n as [|n IHn]; intros fuel Hfuel h o k W Sep; [destruct W|].
    destruct fuel as [|fuel]; [lia|].
    assert (IHc : copy_spec HK fuel n) by (apply IHn; lia).
    pose proof W as Wall.
    destruct W as (rc & fs & G & T).
    assert (Hfs : fields_of h o = fs) by (unfold fields_of; rewrite G; reflexivity).
    destruct Sep as [ND DJ]. rewrite fp_S, Hfs in ND, DJ. rewrite all_refs_S, Hfs in DJ.
    apply NoDup_cons_iff in ND. destruct ND as [No ND].
    destruct (HKok k) as [Hh Ha].
    destruct (new_header_kinds k rc) as [Hd1 Hd2].
    set (L := length h) in *.
    set (hd' := new_header (hk_hdr (HK k)) (mkH rc (Some k) (Some k))) in *.
    set (h1 := h ++ [Live (mkC (Some hd') fs)]).
    set (RO := flat_map (refs1 (all_refs n h)) fs) in *.
    set (own := o :: owned_of fs).
    assert (Sh : forall s, In s RO -> shared_ok h s /\ s < L).
    { intros s Hs. assert (S0 : shared_ok h s).
      { eapply wf_refs_shared; [exact Wall|]. rewrite all_refs_S, Hfs. exact Hs. }
      split; [assumption|]. destruct S0 as (c0 & hd0 & G0 & _). eapply get_lt; eauto. }
    assert (Flt : forall x, In x (flat_map (fp1 (fp n h)) fs) -> ~ In x RO /\ x < L).
    { intros x Hx. split.
      - intro Hr. apply (DJ x Hr). right; assumption.
      - eapply wf_fp_lt; [exact Wall|]. rewrite fp_S, Hfs. right; assumption. }
    assert (S1 : sees h L RO h1).
    { split; [unfold h1; rewrite app_length; simpl; lia|]. split.
      - intros x Hx _. unfold h1. apply nth_app_old. assumption.
      - intros s Hs. destruct (Sh s Hs) as [(c0 & hd0 & G0 & E0) Hl]. split; [|assumption].
        exists c0, hd0. split; [|assumption]. unfold h1. eapply get_app_old; eauto. }
    destruct (copy_fields_ok HK n fuel IHc h L RO fs (LAY k) (hk_acts (HK k)) h1 [(o, L)] [] own
                             T Ha S1) as (h2 & fs' & mD & pD & E2 & G2 & F);
      [intros x Hx; exact Hx|exact Flt|exact ND|].
    assert (Len1 : length h1 = S L) by (unfold h1; rewrite app_length; simpl; lia).
    rewrite Len1 in F.
    pose proof (FC_le _ _ _ _ _ _ _ _ _ _ F) as Hle.
    destruct (FC_maps n h h2 (S L) (length h2) fs fs' (LAY k) mD pD own F T)
      as (K1 & K2 & K2' & K3 & K3' & K4 & K4').
    set (M := mD ++ [(o, L)]).
    set (own' := L :: owned_of fs').
    (* the translation map pairs own with own' *)
    assert (NDown : NoDup own).
    { unfold own. constructor.
      - intro Hi. apply No. apply owned_sub_fp. assumption.
      - eapply NoDup_owned; eauto. }
    assert (NDM : NoDup (map fst M)).
    { unfold M. rewrite map_app. simpl. apply NoDup_app_intro.
      - apply K2'. inversion NDown; assumption.
      - constructor; [intros []|constructor].
      - intros x Hx [<-|[]]. apply in_map_iff in Hx. destruct Hx as ([a a'] & <- & Hp).
        inversion NDown; subst. apply H1. simpl. eauto. }
    assert (Pair : Forall2 (fun a a' => tr M a = a') own own').
    { apply Forall2_tr; [assumption|]. unfold own, own'. constructor.
      - unfold M. apply in_or_app. right. left. reflexivity.
      - eapply Forall2_impl; [|exact K1]. intros a a' Hi. unfold M. apply in_or_app. left; assumption. }
    assert (NDown' : NoDup own').
    { unfold own'. constructor; [|assumption]. intro Hi. specialize (K3 _ Hi). lia. }
    assert (Hc : forall x, In x own -> In (tr M x) own') by (intros; eapply Forall2_tr_in; eauto).
    assert (Hf : forall x, In x own -> index_of (tr M x) own' = index_of x own).
    { intros x Hx. apply index_of_tr; auto. intros i a Hi. eapply Forall2_tr_nth; eauto. }
    (* re-pointing pass *)
    destruct (fix_leaves_ok M pD h2 K4') as (h3 & E3 & Len3 & Out3 & In3).
    { intros a tm Hp. destruct (K4 a tm Hp) as [_ X]. exact X. }
    assert (Pge : forall x, In x (map fst pD) -> S L <= x < length h2).
    { intros x Hx. apply in_map_iff in Hx. destruct Hx as ([a tm] & <- & Hp).
      destruct (K4 a tm Hp) as [A _]. apply K3. assumption. }
    pose proof G2 as (G2a & G2b & G2c).
    assert (Gc3 : get h3 L = Some (mkC (Some hd') fs)).
    { apply get_nth. rewrite Out3 by (intro Hx; apply Pge in Hx; lia).
      rewrite G2b by lia. unfold h1, L. apply nth_app_new. }
    set (fs'' := fix_fields M (hk_acts (HK k)) fs').
    set (h4 := upd h3 L (Live (mkC (Some hd') fs''))).
    set (h5 := upd h4 L (Live (mkC (Some (mkH 1 (h_destroy hd') (h_copy hd'))) fs''))).
    assert (Gc4 : get h4 L = Some (mkC (Some hd') fs'')) by (eapply get_upd_eq; eauto).
    assert (Len5 : length h5 = length h2).
    { unfold h5, h4. rewrite !length_upd. assumption. }
    assert (Gc5 : get h5 L = Some (mkC (Some (mkH 1 (Some k) (Some k))) fs'')).
    { unfold h5. rewrite <- Hd1 at 1. rewrite <- Hd2 at 1. eapply get_upd_eq; eauto. }
    assert (Oth5 : forall x, x <> L -> nth_error h5 x = nth_error h3 x).
    { intros x Hx. unfold h5, h4. rewrite !nth_upd_neq by auto. reflexivity. }
    exists h5. split; [|split].
    - (* the computation *)
      simpl. rewrite (load_of_get _ _ _ G). simpl.
      unfold copy_obj. rewrite (load_of_get _ _ _ G). simpl.
      fold L. fold hd'. fold h1. rewrite E2. simpl. rewrite app_nil_r. fold M. rewrite E3. simpl.
      fold fs''. rewrite (store_of_get _ _ _ _ Gc3). simpl. fold h4.
      rewrite (load_of_get _ _ _ Gc4). simpl. rewrite (store_of_get _ _ _ _ Gc4). reflexivity.
    - (* old cells: reference counts only *)
      split; [rewrite Len5; lia|]. split; [intros x Hx; fold L in Hx; lia|].
      intros x Hx. fold L in Hx. rewrite Oth5 by lia.
      rewrite Out3 by (intro Hi; apply Pge in Hi; lia).
      rewrite G2c by assumption. rewrite all_refs_S, Hfs. fold RO.
      unfold h1. rewrite nth_app_old by assumption. reflexivity.
    - (* the new object *)
      assert (Sh5 : forall r, In r RO -> shared_ok h5 r).
      { intros r Hr. destruct (Sh r Hr) as [S0 Hl].
        eapply shared_ok_add; [exact S0|]. rewrite Oth5 by lia.
        rewrite Out3 by (intro Hi; apply Pge in Hi; lia).
        rewrite G2c by assumption. unfold h1. rewrite nth_app_old by assumption. reflexivity. }
      destruct (FC_final n h h2 h5 M own own' Hc Hf (S L) (length h2) fs fs' (LAY k) mD pD F
                         (hk_acts (HK k)) Ha T) as (Z1 & Z2 & Z3 & Z4 & Z5).
      { lia. }
      { intros x Hx Nx. rewrite Oth5 by lia. apply Out3. intro Hi.
        apply in_map_iff in Hi. destruct Hi as ([a tm] & <- & Hp).
        destruct (K4 a tm Hp) as [A _]. apply Nx. assumption. }
      { intros a' tm Hp. destruct (In3 a' tm Hp) as (lf & Ga & Gb). exists lf. split; [assumption|].
        rewrite <- Gb. apply get_same. apply Oth5.
        assert (In a' (map fst pD)) by (change a' with (fst (a', tm)); apply in_map; assumption).
        apply Pge in H. lia. }
      { exact Sh5. }
      fold fs'' in Z1, Z2, Z3, Z4, Z5.
      assert (Own'' : L :: owned_of fs'' = own').
      { unfold own', fs''. rewrite owned_fix_fields. reflexivity. }
      assert (Hfs5 : fields_of h5 L = fs'') by (unfold fields_of; rewrite Gc5; reflexivity).
      split; [|split; [|split; [|split; [|split]]]].
      + exists 1%N, fs''. split; [exact Gc5|]. rewrite <- Own'' in Z1. exact Z1.
      + unfold rc_of. rewrite Gc5. reflexivity.
      + intros x Hx. rewrite fp_S, Hfs5 in Hx. rewrite Len5. destruct Hx as [<-|Hx]; [lia|].
        specialize (Z3 x Hx). lia.
      + rewrite fp_S, Hfs5. constructor; [|assumption]. intro Hi. specialize (Z3 _ Hi). lia.
      + rewrite !all_refs_S, Hfs5, Hfs. exact Z5.
      + simpl. fold L. rewrite Gc5, G. simpl. f_equal. rewrite <- Own'' in Z2. exact Z2.
  Qed.
End Top.
