(* C19: a concrete operation of the id table on both layers (overwrite the id
   array in place, answer the old contents) - the instance that shows the
   hypotheses of the interleaving theorem are satisfiable.  Definitions only. *)
From Coq Require Import List NArith Bool Arith.
From SqfsV Require Import C19.ObjHeap C19.ObjHooks C19.ObjKinds C19.ObjSpec.
Import ListNotations.

Definition run_set (v : list N) (h : heap) (a : addr) : heap * list N :=
  match fields_of h a with
  | [VData _; VOwn b] =>
      match fields_of h b with
      | [VData old] => (upd h b (Live (mkC None [VData v])), old)
      | _ => (h, [])
      end
  | _ => (h, [])
  end.

Definition step_set (v : list N) (a : aval) : aval * list N :=
  match a with
  | AObj d c [AData u; ALeaf [AData old]] => (AObj d c [AData u; ALeaf [AData v]], old)
  | _ => (a, [])
  end.
