(* C19: operations on original and copy, arbitrarily interleaved.  An operation
   is any heap transformer that (a) touches only cells of the object it is
   applied to and fresh cells, (b) keeps that object well-formed, and (c) is -
   answer and new abstract value - a function of the object's abstract value
   (layer (i)).  For every schedule the answers on either side are those of the
   layer-(i) machine started from the abstract value at copy time, and the pair
   invariant (hence safe release in either order) is maintained. *)
From Coq Require Import List NArith Bool Arith Lia.
From SqfsV Require Import C19.ObjHeap C19.ObjHooks C19.ObjKinds C19.ObjSpec C19.ObjBase C19.ObjFrame
     C19.ObjDrop C19.ObjCopy3 C19.ObjPair.
Import ListNotations.

Section Interleave.
  Variable n : nat.
  Variable k : kind.
  Variables op ans : Type.
  Variable run : op -> heap -> addr -> heap * ans.     (* layer (ii) *)
  Variable step : op -> aval -> aval * ans.            (* layer (i) *)

  Definition local_op : Prop :=
    forall p h x h' r,
      wf_obj n h x k -> sep_obj n h x -> run p h x = (h', r) ->
      length h <= length h' /\
      (forall y, y < length h -> ~ In y (fp n h x) -> nth_error h' y = nth_error h y) /\
      wf_obj n h' x k /\ sep_obj n h' x /\
      (forall y, In y (fp n h' x) -> In y (fp n h x) \/ length h <= y) /\
      all_refs n h' x = all_refs n h x /\
      rc_of h' x = rc_of h x /\
      abs_obj n h' x = fst (step p (abs_obj n h x)) /\
      r = snd (step p (abs_obj n h x)).

  Hypothesis run_local : local_op.

  Lemma pair_sep_l : forall h x y, pair_inv n h x y k -> sep_obj n h x.
  Proof.
    intros h x y (_ & _ & ND & DJ & _). split; [eapply NoDup_app_l; eauto|].
    intros s Hs Hf. apply (DJ s); apply in_or_app; auto.
  Qed.

  Lemma op_step : forall p h x y h' r,
      pair_inv n h x y k -> run p h x = (h', r) ->
      pair_inv n h' x y k /\
      abs_obj n h' y = abs_obj n h y /\ rc_of h' y = rc_of h y /\ rc_of h' x = rc_of h x /\
      abs_obj n h' x = fst (step p (abs_obj n h x)) /\
      r = snd (step p (abs_obj n h x)).
  Proof.
    intros p h x y h' r P E. pose proof (pair_sep_l _ _ _ P) as Sx.
    destruct P as (Wx & Wy & ND & DJ & SL).
    destruct (run_local p h x h' r Wx Sx E) as (Len & Fr & Wx' & Sx' & Fp' & Rf' & Rc' & Ab' & Rr).
    assert (Lty : forall z, In z (fp n h y) -> z < length h) by (intros; eapply wf_fp_lt; eauto).
    assert (Agy : forall z, In z (fp n h y) -> nth_error h' z = nth_error h z).
    { intros z Hz. apply Fr; [auto|]. intro Hx. eapply NoDup_app_disj; eauto. }
    assert (Shr : forall s, In s (all_refs n h x ++ all_refs n h y) ->
                            shared_ok h s /\ nth_error h' s = nth_error h s).
    { intros s Hs. assert (S0 : shared_ok h s).
      { apply in_app_or in Hs. destruct Hs as [Hs|Hs];
          [exact (wf_refs_shared n h x k s Wx Hs)|exact (wf_refs_shared n h y k s Wy Hs)]. }
      split; [assumption|]. apply Fr.
      - destruct S0 as (c0 & hd0 & G0 & _). eapply get_lt; eauto.
      - intro Hf. apply (DJ s Hs). apply in_or_app; auto. }
    assert (EFy : fp n h' y = fp n h y) by (apply fp_frame; assumption).
    assert (ERy : all_refs n h' y = all_refs n h y) by (apply all_refs_frame; assumption).
    split; [|split; [apply abs_frame; assumption|split; [|auto]]].
    - split; [assumption|]. split.
      { eapply wf_frame; eauto. intros s Hs.
        destruct (Shr s (in_or_app _ _ _ (or_intror Hs))) as [(c0 & hd0 & G0 & E0) Es].
        exists c0, hd0. split; [|assumption]. rewrite <- G0. apply get_same; assumption. }
      rewrite EFy, ERy, Rf'. split; [|split].
      + apply NoDup_app_intro.
        * destruct Sx'; assumption.
        * eapply NoDup_app_r; eauto.
        * intros z Hz Hy. destruct (Fp' z Hz) as [Ho|Hn].
          -- eapply NoDup_app_disj; eauto.
          -- specialize (Lty z Hy). lia.
      + intros s Hs Hf. apply in_app_or in Hf. destruct Hf as [Hf|Hf].
        * apply in_app_or in Hs. destruct Hs as [Hs|Hs].
          -- destruct Sx' as [_ D']. rewrite Rf' in D'. apply (D' s Hs Hf).
          -- destruct (Fp' s Hf) as [Ho|Hn].
             ++ apply (DJ s); apply in_or_app; auto.
             ++ destruct (Shr s (in_or_app _ _ _ (or_intror Hs))) as [(c0 & hd0 & G0 & _) _].
                apply get_lt in G0. lia.
        * apply (DJ s Hs). apply in_or_app; auto.
      + intros s Hs. destruct (Shr s Hs) as [_ Es]. rewrite (rc_same h h' s Es). apply SL; assumption.
    - apply rc_same. apply Agy. eapply wf_in_fp; eauto.
  Qed.

  (* a schedule: true = the operation goes to the original, false = to the copy *)
  Fixpoint exec (s : list (bool * op)) (h : heap) (o c : addr) : heap * list (bool * ans) :=
    match s with
    | [] => (h, [])
    | (b, p) :: t =>
        let '(h1, r) := run p h (if b then o else c) in
        let '(h2, rs) := exec t h1 o c in
        (h2, (b, r) :: rs)
    end.

  Fixpoint exec_abs (s : list op) (a : aval) : aval * list ans :=
    match s with
    | [] => (a, [])
    | p :: t =>
        let '(a1, r) := step p a in
        let '(a2, rs) := exec_abs t a1 in
        (a2, r :: rs)
    end.

  Definition side {A} (b : bool) (l : list (bool * A)) : list A :=
    map snd (filter (fun x => Bool.eqb (fst x) b) l).

  Theorem interleaving_independent : forall s h o c h' rs,
      pair_inv n h o c k -> exec s h o c = (h', rs) ->
      pair_inv n h' o c k /\
      rc_of h' o = rc_of h o /\ rc_of h' c = rc_of h c /\
      abs_obj n h' o = fst (exec_abs (side true s) (abs_obj n h o)) /\
      side true rs = snd (exec_abs (side true s) (abs_obj n h o)) /\
      abs_obj n h' c = fst (exec_abs (side false s) (abs_obj n h c)) /\
      side false rs = snd (exec_abs (side false s) (abs_obj n h c)).
  Proof.
    induction s as [|[b p] s IH]; intros h o c h' rs P E; simpl in E.
    - inversion E; subst. simpl. auto 10.
    - destruct (run p h (if b then o else c)) as [h1 r] eqn:E1.
      destruct (exec s h1 o c) as [h2 rs2] eqn:E2. inversion E; subst h2 rs. clear E.
      destruct b.
      + destruct (op_step p h o c h1 r P E1) as (P1 & Ac & Rc & Ro & Ao & Rr).
        destruct (IH h1 o c h' rs2 P1 E2) as (P2 & R1 & R2 & A1 & S1 & A2 & S2).
        unfold side in *. simpl. rewrite Ao in A1, S1. rewrite Ac in A2, S2.
        destruct (step p (abs_obj n h o)) as [a1 r1] eqn:Es. simpl in *.
        destruct (exec_abs (map snd (filter (fun x => Bool.eqb (fst x) true) s)) a1) as [a2 rs'] eqn:Ea.
        simpl in *. subst r. split; [assumption|]. split; [congruence|]. split; [congruence|].
        split; [assumption|]. split; [f_equal; assumption|]. split; assumption.
      + destruct (op_step p h c o h1 r (pair_sym _ _ _ _ _ P) E1) as (P1 & Ao & Ro & Rc & Ac & Rr).
        apply pair_sym in P1.
        destruct (IH h1 o c h' rs2 P1 E2) as (P2 & R1 & R2 & A1 & S1 & A2 & S2).
        unfold side in *. simpl. rewrite Ao in A1, S1. rewrite Ac in A2, S2.
        destruct (step p (abs_obj n h c)) as [a1 r1] eqn:Es. simpl in *.
        destruct (exec_abs (map snd (filter (fun x => Bool.eqb (fst x) false) s)) a1) as [a2 rs'] eqn:Ea.
        simpl in *. subst r. split; [assumption|]. split; [congruence|]. split; [congruence|].
        split; [assumption|]. split; [assumption|]. split; [assumption|]. f_equal; assumption.
  Qed.
End Interleave.
