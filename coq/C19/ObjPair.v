(* C19: original and copy together - the invariant the copy establishes, and
   release of both in either order. *)
From Coq Require Import List NArith Bool Arith Lia.
From SqfsV Require Import C19.ObjHeap C19.ObjHooks C19.ObjKinds C19.ObjSpec C19.ObjBase C19.ObjFrame
     C19.ObjDrop C19.ObjCopyBase C19.ObjCopy C19.ObjCopy2 C19.ObjCopy3 C19.ObjCopy4.
Import ListNotations.

(* two objects side by side: both well-formed, no cell in common, no shared
   object inside either, and neither holds the last reference to anything *)
Definition pair_inv (n : nat) (h : heap) (o c : addr) (k : kind) : Prop :=
  wf_obj n h o k /\ wf_obj n h c k /\
  NoDup (fp n h o ++ fp n h c) /\
  (forall s, In s (all_refs n h o ++ all_refs n h c) -> ~ In s (fp n h o ++ fp n h c)) /\
  slack h (all_refs n h o ++ all_refs n h c).

Lemma forallb2_Forall2 : forall (A B : Type) (f : A -> B -> bool) l m,
    forallb2 f l m = true -> Forall2 (fun a b => f a b = true) l m.
Proof.
  intros A B f. induction l as [|a l IH]; intros [|b m] H; simpl in H; try discriminate; constructor.
  - apply andb_prop in H. tauto.
  - apply IH. apply andb_prop in H. tauto.
Qed.

Lemma hooks_ok_all : forall HK, hooks_ok HK = true -> forall k, hook_ok k (LAY k) (HK k) (DK k) = true.
Proof.
  intros HK H k. unfold hooks_ok in H. rewrite forallb_forall in H. apply H.
  destruct k; simpl; tauto.
Qed.

Lemma hooks_ok_copy : forall HK, hooks_ok HK = true -> forall k,
      hdr_ok k (hk_hdr (HK k)) = true /\
      Forall2 (fun t a => act_ok t a = true) (LAY k) (hk_acts (HK k)).
Proof.
  intros HK H k. pose proof (hooks_ok_all HK H k) as E. unfold hook_ok in E.
  apply andb_prop in E. destruct E as [E E3]. apply andb_prop in E. destruct E as [E1 E2].
  split; [assumption|]. apply forallb2_Forall2. assumption.
Qed.

Lemma hooks_ok_destroy : forall HK, hooks_ok HK = true -> forall k,
      Forall2 (fun t d => dact_ok t d = true) (LAY k) (DK k).
Proof.
  intros HK H k. pose proof (hooks_ok_all HK H k) as E. unfold hook_ok in E.
  apply andb_prop in E. destruct E as [_ E3]. apply forallb2_Forall2. assumption.
Qed.

Lemma heap_ext : forall (h h' : heap), (forall x, nth_error h x = nth_error h' x) -> h = h'.
Proof.
  induction h as [|s h IH]; intros [|s' h'] H; auto.
  - specialize (H 0). discriminate.
  - specialize (H 0). discriminate.
  - f_equal.
    + specialize (H 0). simpl in H. congruence.
    + apply IH. intros x. apply (H (S x)).
Qed.

Lemma rc_of_add : forall h h' s k,
    nth_error h' s = option_map (add_rc k) (nth_error h s) -> shared_ok h s ->
    rc_of h' s = (rc_of h s + N.of_nat k)%N.
Proof.
  intros h h' s k E (c & hd & G & Hh). unfold rc_of at 1. unfold get. rewrite E.
  apply get_nth in G. rewrite G. simpl. unfold rc_of, get. rewrite G.
  destruct c as [[hd0|] fs]; simpl in *; [reflexivity|discriminate].
Qed.

Section Pair.
  Variable HK : kind -> hook.
  Hypothesis HKok : hooks_ok HK = true.

  (* ---- the copy establishes the invariant ---- *)
  Theorem copy_establishes : forall n fuel h o k,
      n <= fuel ->
      wf_obj n h o k -> sep_obj n h o -> slack h (all_refs n h o) ->
      exists h',
        sqfs_copy HK fuel h o = Ok (h', Some (length h)) /\
        grown (length h) (all_refs n h o) h h' /\
        subfacts n h h' o (length h) k (length h) (length h') /\
        pair_inv n h' o (length h) k /\
        fp n h' o = fp n h o /\ abs_obj n h' o = abs_obj n h o.
  Proof.
    intros n fuel h o k Hfuel W Sep SL.
    destruct (copy_ok HK (hooks_ok_copy HK HKok) n fuel Hfuel h o k W Sep) as (h' & E & G & SF).
    exists h'. split; [assumption|]. split; [assumption|]. split; [assumption|].
    destruct Sep as [ND DJ]. pose proof G as (G1 & _ & G3).
    pose proof SF as (Wc' & Rc' & In' & ND' & AR' & AB').
    assert (Lt : forall x, In x (fp n h o) -> x < length h) by (intros; eapply wf_fp_lt; eauto).
    assert (Ag : forall x, In x (fp n h o) -> nth_error h' x = nth_error h x).
    { intros x Hx. rewrite G3 by auto. rewrite cnt_not_in; [apply option_map_add0|].
      intro Hr. apply (DJ x Hr Hx). }
    assert (Sh : forall s, In s (all_refs n h o) -> shared_ok h s /\ s < length h).
    { intros s Hs. assert (S0 : shared_ok h s) by (eapply wf_refs_shared; eauto).
      split; [assumption|]. destruct S0 as (c0 & hd0 & G0 & _). eapply get_lt; eauto. }
    assert (Sh' : forall s, In s (all_refs n h o) -> shared_ok h' s).
    { intros s Hs. destruct (Sh s Hs) as [S0 Hl]. eapply shared_ok_add; [exact S0|]. apply G3; assumption. }
    assert (EF : fp n h' o = fp n h o) by (apply fp_frame; assumption).
    assert (ER : all_refs n h' o = all_refs n h o) by (apply all_refs_frame; assumption).
    split; [|split; [assumption|apply abs_frame; assumption]].
    split; [eapply wf_frame; eauto|]. split; [assumption|].
    rewrite EF, ER, AR'. split; [|split].
    - apply NoDup_app_intro; auto. intros x Hx Hy. specialize (Lt x Hx). specialize (In' x Hy). lia.
    - intros s Hs Hf. assert (Hs' : In s (all_refs n h o)) by (apply in_app_or in Hs; tauto).
      apply in_app_or in Hf. destruct Hf as [Hf|Hf].
      + apply (DJ s Hs' Hf).
      + destruct (Sh s Hs') as [_ Hl]. specialize (In' s Hf). lia.
    - intros s Hs. assert (Hs' : In s (all_refs n h o)) by (apply in_app_or in Hs; tauto).
      destruct (Sh s Hs') as [S0 Hl].
      rewrite (rc_of_add h h' s _ (G3 s Hl) S0).
      specialize (SL s Hs'). fold (cnt (all_refs n h o) s) in SL.
      fold (cnt (all_refs n h o ++ all_refs n h o) s). rewrite cnt_app. lia.
  Qed.

  (* ---- release ---- *)
  Lemma pair_sym : forall n h o c k, pair_inv n h o c k -> pair_inv n h c o k.
  Proof.
    intros n h o c k (W1 & W2 & ND & DJ & SL). split; [assumption|]. split; [assumption|].
    split; [|split].
    - apply NoDup_app_intro.
      + eapply NoDup_app_r; eauto.
      + eapply NoDup_app_l; eauto.
      + intros x Hx Hy. eapply NoDup_app_disj; eauto.
    - intros s Hs Hf. apply (DJ s).
      + apply in_app_or in Hs. apply in_or_app. tauto.
      + apply in_app_or in Hf. apply in_or_app. tauto.
    - intros s Hs. assert (Hs' : In s (all_refs n h o ++ all_refs n h c)).
      { apply in_app_or in Hs. apply in_or_app. tauto. }
      specialize (SL s Hs'). fold (cnt (all_refs n h o ++ all_refs n h c) s) in SL.
      fold (cnt (all_refs n h c ++ all_refs n h o) s). rewrite cnt_app in *. lia.
  Qed.

  (* dropping the first of the two leaves the second exactly as it was *)
  Lemma drop_first : forall n fuel h o c k,
      n + 1 <= fuel -> pair_inv n h o c k -> (rc_of h o <= 1)%N ->
      exists h1,
        sqfs_drop DK fuel h o = Ok h1 /\
        released h h1 (fp n h o) (all_refs n h o) /\
        wf_obj n h1 c k /\ sep_obj n h1 c /\ slack h1 (all_refs n h1 c) /\
        rc_of h1 c = rc_of h c /\
        fp n h1 c = fp n h c /\ all_refs n h1 c = all_refs n h c /\
        abs_obj n h1 c = abs_obj n h c.
  Proof.
    intros n fuel h o c k Hfuel (W1 & W2 & ND & DJ & SL) Hrc.
    destruct (drop_ok DK (hooks_ok_destroy HK HKok) n fuel Hfuel h o k W1) as (h1 & E & R); auto.
    { split; [eapply NoDup_app_l; eauto|]. intros s Hs Hf. apply (DJ s); apply in_or_app; auto. }
    { eapply slack_app_l; eauto. }
    exists h1. split; [assumption|]. split; [assumption|].
    destruct R as (Len & Fr & Ot).
    assert (Ag : forall x, In x (fp n h c) -> nth_error h1 x = nth_error h x).
    { intros x Hx. rewrite Ot.
      - rewrite cnt_not_in; [apply option_map_sub0|]. intro Hr.
        apply (DJ x); apply in_or_app; auto.
      - intro Hf. eapply NoDup_app_disj; eauto. }
    assert (Sh : forall s, In s (all_refs n h c) -> shared_ok h1 s).
    { intros s Hs. eapply shared_ok_same; [eapply wf_refs_shared; eauto|]. apply Ot.
      intro Hf. apply (DJ s); apply in_or_app; auto. }
    assert (EF : fp n h1 c = fp n h c) by (apply fp_frame; assumption).
    assert (ER : all_refs n h1 c = all_refs n h c) by (apply all_refs_frame; assumption).
    split; [eapply wf_frame; eauto|]. unfold sep_obj. rewrite EF, ER.
    split; [|split; [|split; [|split; [reflexivity|split; [reflexivity|apply abs_frame; assumption]]]]].
    - split; [eapply NoDup_app_r; eauto|]. intros s Hs Hf. apply (DJ s); apply in_or_app; auto.
    - intros s Hs.
      assert (Ns : ~ In s (fp n h o)) by (intro Hf; apply (DJ s); apply in_or_app; auto).
      rewrite (rc_of_sub h h1 s _ (Ot s Ns)).
      specialize (SL s (in_or_app _ _ _ (or_intror Hs))).
      fold (cnt (all_refs n h o ++ all_refs n h c) s) in SL. rewrite cnt_app in SL.
      fold (cnt (all_refs n h c) s). lia.
    - apply rc_same. apply Ag. eapply wf_in_fp; eauto.
  Qed.

  Theorem release_both : forall n fuel h o c k,
      n + 1 <= fuel -> pair_inv n h o c k -> (rc_of h o <= 1)%N -> (rc_of h c <= 1)%N ->
      exists h1 h2,
        sqfs_drop DK fuel h o = Ok h1 /\ sqfs_drop DK fuel h1 c = Ok h2 /\
        released h h2 (fp n h o ++ fp n h c) (all_refs n h o ++ all_refs n h c).
  Proof.
    intros n fuel h o c k Hfuel P R1 R2.
    destruct (drop_first n fuel h o c k Hfuel P R1)
      as (h1 & E1 & Rel1 & W & S & SL & Rc & EF & ER & _).
    destruct (drop_ok DK (hooks_ok_destroy HK HKok) n fuel Hfuel h1 c k W S) as (h2 & E2 & Rel2);
      [rewrite Rc; assumption|assumption|].
    exists h1, h2. split; [assumption|]. split; [assumption|].
    rewrite EF, ER in Rel2. eapply released_trans; eauto.
  Qed.

  (* both orders are safe and end in the same heap *)
  Theorem release_either_order : forall n fuel h o c k,
      n + 1 <= fuel -> pair_inv n h o c k -> (rc_of h o <= 1)%N -> (rc_of h c <= 1)%N ->
      exists h1 h2 h1' h2',
        sqfs_drop DK fuel h o = Ok h1 /\ sqfs_drop DK fuel h1 c = Ok h2 /\
        sqfs_drop DK fuel h c = Ok h1' /\ sqfs_drop DK fuel h1' o = Ok h2' /\
        h2' = h2 /\
        released h h2 (fp n h o ++ fp n h c) (all_refs n h o ++ all_refs n h c).
  Proof.
    intros n fuel h o c k Hfuel P R1 R2.
    destruct (release_both n fuel h o c k Hfuel P R1 R2) as (h1 & h2 & E1 & E2 & Rel).
    destruct (release_both n fuel h c o k Hfuel (pair_sym _ _ _ _ _ P) R2 R1)
      as (h1' & h2' & E1' & E2' & Rel').
    exists h1, h2, h1', h2'. repeat (split; [assumption|]). split; [|assumption].
    assert (Rel'' : released h h2' (fp n h o ++ fp n h c) (all_refs n h o ++ all_refs n h c)).
    { eapply released_equiv; [| |exact Rel'].
      - intros x. rewrite !in_app_iff. tauto.
      - intros x. rewrite !cnt_app. lia. }
    destruct Rel as (L1 & A1 & B1). destruct Rel'' as (L2 & A2 & B2).
    apply heap_ext. intros x.
    destruct (in_dec Nat.eq_dec x (fp n h o ++ fp n h c)) as [I|N].
    - rewrite A1, A2 by assumption. reflexivity.
    - rewrite B1, B2 by assumption. reflexivity.
  Qed.
End Pair.
