(* C19, layer (ii): specification vocabulary - well-formed objects, footprints,
   reference counts, the pointer-free abstraction.  Definitions only. *)
From Coq Require Import List NArith Bool Arith.
From SqfsV Require Import C19.ObjHeap C19.ObjHooks C19.ObjKinds.
Import ListNotations.

(* a header-less cell may hold plain data and pointers into its owner's cells *)
Definition lval_ok (own : list addr) (v : val) : Prop :=
  match v with
  | VData _ | VNull => True
  | VInt x => In x own
  | _ => False
  end.

Definition no_int (v : val) : Prop := match v with VInt _ => False | _ => True end.

Fixpoint mask_ok (bs : list bool) (fs : list val) : Prop :=
  match bs, fs with
  | b :: bs', v :: fs' => (b = false -> no_int v) /\ mask_ok bs' fs'
  | [], _ => Forall no_int fs
  | _, [] => True
  end.

(* pointers only where the copy hook re-points them *)
Definition tm_ok (tm : trmode) (fs : list val) : Prop :=
  match tm with
  | TrNone => Forall no_int fs
  | TrAll => True
  | TrMask bs => mask_ok bs fs
  end.

Definition leaf_ok (h : heap) (own : list addr) (tm : trmode) (a : addr) : Prop :=
  exists fs, get h a = Some (mkC None fs) /\ Forall (lval_ok own) fs /\ tm_ok tm fs.

(* a shared object: alive and carrying a header *)
Definition shared_ok (h : heap) (s : addr) : Prop :=
  exists c hd, get h s = Some c /\ c_hdr c = Some hd.

Definition has_type (wfsub : addr -> kind -> Prop) (h : heap) (own : list addr) (v : val) (t : ftype)
  : Prop :=
  match t, v with
  | TData, VData _ => True
  | TInt, VNull => True
  | TInt, VInt x => In x own
  | TOwn _, VNull => True
  | TOwn tm, VOwn a => leaf_ok h own tm a
  | TOwnL tm, VOwnL l => Forall (leaf_ok h own tm) l
  | TObj _, VNull => True
  | TObj k, VObj a => wfsub a k
  | TRef, VNull => True
  | TRef, VRef s => shared_ok h s
  | _, _ => False
  end.

Definition fields_of (h : heap) (a : addr) : list val :=
  match get h a with Some c => c_fields c | None => [] end.

(* every cell the object must release: itself, its header-less cells, its
   sub-objects' cells (in field order) *)
Definition fp1 (sub : addr -> list addr) (v : val) : list addr :=
  match v with
  | VOwn x => [x]
  | VOwnL l => l
  | VObj s => sub s
  | _ => []
  end.

Fixpoint fp (n : nat) (h : heap) (a : addr) : list addr :=
  match n with
  | O => []
  | S n' => a :: flat_map (fp1 (fp n' h)) (fields_of h a)
  end.

(* every counted reference to a shared object held by the object (with multiplicity) *)
Definition refs1 (sub : addr -> list addr) (v : val) : list addr :=
  match v with
  | VRef s => [s]
  | VObj s => sub s
  | _ => []
  end.

Fixpoint all_refs (n : nat) (h : heap) (a : addr) : list addr :=
  match n with
  | O => []
  | S n' => flat_map (refs1 (all_refs n' h)) (fields_of h a)
  end.

(* well-formed object of kind k: typed fields, sub-objects exclusively owned
   (refcount 1), hooks in place.  [n] bounds the nesting depth. *)
Fixpoint wf_obj (n : nat) (h : heap) (a : addr) (k : kind) : Prop :=
  match n with
  | O => False
  | S n' =>
      exists rc fs,
        get h a = Some (mkC (Some (mkH rc (Some k) (Some k))) fs) /\
        Forall2 (has_type (fun s ks => wf_obj n' h s ks /\ rc_of h s = 1%N) h (a :: owned_of fs)) fs (LAY k)
  end.

(* the whole footprint is owned once, and no shared object lies inside it *)
Definition sep_obj (n : nat) (h : heap) (a : addr) : Prop :=
  NoDup (fp n h a) /\ forall s, In s (all_refs n h a) -> ~ In s (fp n h a).

(* somebody else holds a reference to every shared object too: the object's
   own references never are the last ones *)
Definition slack (h : heap) (refs : list addr) : Prop :=
  forall s, In s refs -> (N.of_nat (count_occ Nat.eq_dec refs s) < rc_of h s)%N.

(* ---- pointer-free abstraction (the value a copy must preserve) ---- *)
Inductive aval :=
| AData (d : list N)
| ANull
| AInt (pos : option nat)             (* position of the target among the owner's cells *)
| ALeaf (fs : list aval)
| ALeaves (ls : list aval)
| AObj (d c : option kind) (fs : list aval)
| ARef (s : addr).                    (* identity of the shared object *)

Fixpoint index_of (a : addr) (l : list addr) : option nat :=
  match l with
  | [] => None
  | x :: t => if Nat.eqb x a then Some O
              else match index_of a t with Some i => Some (S i) | None => None end
  end.

Definition abs_lval (own : list addr) (v : val) : aval :=
  match v with
  | VData d => AData d
  | VInt x => AInt (index_of x own)
  | _ => ANull
  end.

Definition abs_leaf (h : heap) (own : list addr) (a : addr) : aval :=
  ALeaf (map (abs_lval own) (fields_of h a)).

Definition abs_val (sub : addr -> aval) (h : heap) (own : list addr) (v : val) : aval :=
  match v with
  | VData d => AData d
  | VNull => ANull
  | VInt x => AInt (index_of x own)
  | VOwn a => abs_leaf h own a
  | VOwnL l => ALeaves (map (abs_leaf h own) l)
  | VObj a => sub a
  | VRef s => ARef s
  end.

Fixpoint abs_obj (n : nat) (h : heap) (a : addr) : aval :=
  match n with
  | O => ANull
  | S n' =>
      match get h a with
      | Some (mkC (Some hd) fs) =>
          AObj (h_destroy hd) (h_copy hd) (map (abs_val (abs_obj n' h) h (a :: owned_of fs)) fs)
      | _ => ANull
      end
  end.

(* refcount arithmetic on a slot *)
Definition add_rc (k : nat) (s : slot) : slot :=
  match s with
  | Live (mkC (Some hd) fs) => Live (mkC (Some (mkH (h_rc hd + N.of_nat k) (h_destroy hd) (h_copy hd))) fs)
  | _ => s
  end.
Definition sub_rc (k : nat) (s : slot) : slot :=
  match s with
  | Live (mkC (Some hd) fs) => Live (mkC (Some (mkH (h_rc hd - N.of_nat k) (h_destroy hd) (h_copy hd))) fs)
  | _ => s
  end.

Definition cnt (l : list addr) (x : addr) : nat := count_occ Nat.eq_dec l x.

Definition depth : nat := 3.   (* dir reader -> meta reader -> file/compressor *)
