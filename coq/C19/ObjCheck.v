(* C19: the boolean checkers imply the specification predicates. *)
From Coq Require Import List NArith Bool Arith Lia.
From SqfsV Require Import C19.ObjHeap C19.ObjHooks C19.ObjKinds C19.ObjSpec C19.ObjBase
     C19.ObjCheckDefs C19.ObjCopy4 C19.ObjPair.
Import ListNotations.

Lemma mem_in : forall x l, mem x l = true <-> In x l.
Proof.
  intros x l. unfold mem. rewrite existsb_exists. split.
  - intros (y & Hy & E). apply Nat.eqb_eq in E. subst. assumption.
  - intros H. exists x. split; [assumption|apply Nat.eqb_refl].
Qed.

Lemma no_intb_ok : forall v, no_intb v = true -> no_int v.
Proof. intros [] H; simpl in *; auto; discriminate. Qed.

Lemma forallb_Forall : forall (A : Type) (f : A -> bool) (P : A -> Prop) l,
    (forall x, f x = true -> P x) -> forallb f l = true -> Forall P l.
Proof.
  intros A f P l H. induction l as [|x l IH]; intro E; simpl in E; constructor.
  - apply H. apply andb_prop in E. tauto.
  - apply IH. apply andb_prop in E. tauto.
Qed.

Lemma mask_okb_ok : forall bs fs, mask_okb bs fs = true -> mask_ok bs fs.
Proof.
  induction bs as [|b bs IH]; intros fs H; simpl in *.
  - eapply forallb_Forall; [apply no_intb_ok|exact H].
  - destruct fs as [|v fs]; [exact I|]. apply andb_prop in H. destruct H as [H1 H2].
    split; [|apply IH; assumption]. intro E. subst b. simpl in H1. apply no_intb_ok; assumption.
Qed.

Lemma tm_okb_ok : forall tm fs, tm_okb tm fs = true -> tm_ok tm fs.
Proof.
  intros [| |bs] fs H; simpl in *; auto.
  - eapply forallb_Forall; [apply no_intb_ok|exact H].
  - apply mask_okb_ok; assumption.
Qed.

Lemma lval_okb_ok : forall own v, lval_okb own v = true -> lval_ok own v.
Proof. intros own [] H; simpl in *; auto; try discriminate. apply mem_in; assumption. Qed.

Lemma leaf_okb_ok : forall h own tm a, leaf_okb h own tm a = true -> leaf_ok h own tm a.
Proof.
  intros h own tm a H. unfold leaf_okb in H. destruct (get h a) as [[[hd|] fs]|] eqn:G; try discriminate.
  apply andb_prop in H. destruct H as [H1 H2]. exists fs. split; [exact G|]. split.
  - eapply forallb_Forall; [apply lval_okb_ok|exact H1].
  - apply tm_okb_ok; assumption.
Qed.

Lemma shared_okb_ok : forall h s, shared_okb h s = true -> shared_ok h s.
Proof.
  intros h s H. unfold shared_okb in H. destruct (get h s) as [[[hd|] fs]|] eqn:G; try discriminate.
  eexists; eexists; split; [exact G|reflexivity].
Qed.

Lemma kind_eqb_refl_eq : forall a b, kind_eqb a b = true -> a = b.
Proof. exact kind_eqb_eq. Qed.

Lemma wfb_ok : forall n h a k, wfb n h a k = true -> wf_obj n h a k.
Proof.
  induction n as [|n IH]; intros h a k H; simpl in H; [discriminate|].
  destruct (get h a) as [[[[rc [k1|] [k2|]]|] fs]|] eqn:G; try discriminate.
  apply andb_prop in H. destruct H as [H H3]. apply andb_prop in H. destruct H as [H1 H2].
  apply kind_eqb_eq in H1. apply kind_eqb_eq in H2. subst k1 k2.
  exists rc, fs. split; [exact G|].
  apply forallb2_Forall2 in H3. eapply ObjCopy2.Forall2_impl; [|exact H3].
  intros v t T. destruct t, v; simpl in *; auto; try discriminate.
  - apply (proj1 (mem_in a0 (a :: owned_of fs))). exact T.
  - apply leaf_okb_ok; assumption.
  - eapply forallb_Forall; [apply leaf_okb_ok|exact T].
  - apply andb_prop in T. destruct T as [T1 T2]. split; [apply IH; assumption|].
    apply N.eqb_eq; assumption.
  - apply shared_okb_ok; assumption.
Qed.

Lemma nodupb_ok : forall l, nodupb l = true -> NoDup l.
Proof.
  induction l as [|x l IH]; intro H; simpl in H; constructor.
  - apply andb_prop in H. destruct H as [H _]. intro Hi. apply mem_in in Hi. rewrite Hi in H. discriminate.
  - apply IH. apply andb_prop in H. tauto.
Qed.

Lemma sepb_ok : forall n h a, sepb n h a = true -> sep_obj n h a.
Proof.
  intros n h a H. unfold sepb in H. apply andb_prop in H. destruct H as [H1 H2]. split.
  - apply nodupb_ok; assumption.
  - rewrite forallb_forall in H2. intros s Hs Hf. specialize (H2 s Hs).
    apply mem_in in Hf. rewrite Hf in H2. discriminate.
Qed.

Lemma slackb_ok : forall h refs, slackb h refs = true -> slack h refs.
Proof.
  intros h refs H s Hs. unfold slackb in H. rewrite forallb_forall in H.
  specialize (H s Hs). apply N.ltb_lt in H. exact H.
Qed.

Lemma copyable_ok : forall n h a k,
    copyable n h a k = true -> wf_obj n h a k /\ sep_obj n h a /\ slack h (all_refs n h a).
Proof.
  intros n h a k H. unfold copyable in H. apply andb_prop in H. destruct H as [H H3].
  apply andb_prop in H. destruct H as [H1 H2].
  split; [apply wfb_ok; assumption|]. split; [apply sepb_ok; assumption|apply slackb_ok; assumption].
Qed.
