(* C19: the whole life cycle without [slack] and with operations that go through the
   shared objects: copy; any schedule of shared-preserving operations on original and
   copy; release in either order - also when the pair holds the last references to
   file and compressor. *)
From Coq Require Import List NArith Bool Arith Lia.
From SqfsV Require Import C19.ObjHeap C19.ObjHooks C19.ObjKinds C19.ObjSpec C19.ObjBase C19.ObjFrame
     C19.ObjDrop C19.ObjCopyBase C19.ObjCopy C19.ObjCopy3 C19.ObjPair C19.ObjOps
     C19.ObjTouch C19.ObjGenDefs C19.ObjGenBase C19.ObjGenDrop C19.ObjGenPair C19.ObjShared.
Import ListNotations.

Theorem life_cycle_shared : forall HK, hooks_ok HK = true ->
  forall (m n : nat) (k : kind) (view : aval -> aval) (op ans : Type)
         (run : op -> heap -> addr -> heap * ans) (step : list aval -> op -> aval -> aval * ans),
    shared_preserving_op m n k view op ans run step ->
    forall fuel h o s,
      n + m + 1 <= fuel -> obj_inv m n h o k -> (rc_of h o <= 1)%N ->
      exists h1 h2 rs h3 h4,
        sqfs_copy HK fuel h o = Ok (h1, Some (length h)) /\
        exec op ans run s h1 o (length h) = (h2, rs) /\
        side true rs = snd (exec_abs op ans (step (senv m view h (all_refs n h o))) (side true s) (abs_obj n h o)) /\
        side false rs = snd (exec_abs op ans (step (senv m view h (all_refs n h o))) (side false s) (abs_obj n h o)) /\
        pair_inv_g m n h2 o (length h) k /\
        sqfs_drop DK fuel h2 o = Ok h3 /\ sqfs_drop DK fuel h3 (length h) = Ok h4 /\
        (exists h3', sqfs_drop DK fuel h2 (length h) = Ok h3' /\ sqfs_drop DK fuel h3' o = Ok h4) /\
        released h2 h4 ((fp n h2 o ++ fp n h2 (length h)) ++
                        dead_fp m h2 (all_refs n h2 o ++ all_refs n h2 (length h)))
                 (all_refs n h2 o ++ all_refs n h2 (length h)).
Proof.
  intros HK OK m n k view op ans run step Sp fuel h o s Hf I Rc.
  destruct (copy_establishes_g HK OK m n fuel h o k ltac:(lia) I)
    as (h1 & E1 & G & SF & P & EF & ER & AO & Ro & Sh).
  destruct SF as (Wc & Rcc & _ & _ & ARc & AC).
  destruct (exec op ans run s h1 o (length h)) as [h2 rs] eqn:E2.
  destruct (interleaving_independent_shared m n k view op ans run step Sp s h1 o (length h) h2 rs P E2)
    as (P2 & R1 & R2 & _ & _ & _ & _ & _ & S1 & _ & S2).
  assert (SE : senv m view h1 (all_refs n h o) = senv m view h (all_refs n h o)).
  { unfold senv. apply map_ext_in. intros x Hx. destruct (Sh x Hx) as (_ & EA & _). rewrite EA. reflexivity. }
  rewrite ER, SE, AO in S1. rewrite ARc, SE, AC in S2.
  destruct (release_either_order_g m n fuel h2 o (length h) k Hf P2)
    as (h3 & h4 & h3' & h4' & D1 & D2 & D3 & D4 & Eq & Rel).
  { rewrite R1, Ro. assumption. }
  { rewrite R2, Rcc. lia. }
  exists h1, h2, rs, h3, h4. split; [assumption|]. split; [exact E2|].
  split; [assumption|]. split; [assumption|]. split; [assumption|].
  split; [assumption|]. split; [assumption|]. split; [|assumption].
  exists h3'. subst h4'. auto.
Qed.

(* after the first release the survivor is exactly what it was - well-formed, same
   abstraction, internal pointers alive - and every shared object it references is
   still alive with the same cells and the same abstraction, its count reduced by the
   references the released object held *)
Theorem survivor_intact_g : forall m n fuel h o c k,
    n + m + 1 <= fuel -> pair_inv_g m n h o c k -> (rc_of h o <= 1)%N ->
    exists h1,
      sqfs_drop DK fuel h o = Ok h1 /\
      wf_obj n h1 c k /\ abs_obj n h1 c = abs_obj n h c /\ touch_obj h1 c = Ok tt /\
      obj_inv m n h1 c k /\ all_refs n h1 c = all_refs n h c /\
      (forall s, In s (all_refs n h c) ->
                 closed_obj m h1 s /\ fp m h1 s = fp m h s /\ abs_obj m h1 s = abs_obj m h s /\
                 rc_of h1 s = (rc_of h s - N.of_nat (cnt (all_refs n h o) s))%N).
Proof.
  intros m n fuel h o c k Hf P R.
  destruct (drop_first_g m n fuel h o c k Hf P R) as (h1 & E & _ & I & _ & _ & ER & A & Sh & _).
  exists h1. split; [assumption|]. pose proof I as (W & _). split; [assumption|]. split; [assumption|].
  split; [eapply ObjTouch.touch_wf_ok; eauto|]. auto.
Qed.
