(* C19: frame lemmas - footprint, references, well-formedness and abstraction
   of an object depend only on the cells of its footprint. *)
From Coq Require Import List NArith Bool Arith Lia.
From SqfsV Require Import C19.ObjHeap C19.ObjHooks C19.ObjKinds C19.ObjSpec C19.ObjBase.
Import ListNotations.

Lemma flat_map_ext_in : forall (A B : Type) (f g : A -> list B) l,
    (forall x, In x l -> f x = g x) -> flat_map f l = flat_map g l.
Proof.
  induction l as [|x l IH]; intros H; simpl; auto.
  rewrite H by (left; reflexivity). rewrite IH; auto. intros; apply H; right; assumption.
Qed.

Lemma Forall2_impl_in : forall (A B : Type) (P Q : A -> B -> Prop) l m,
    (forall x y, In x l -> P x y -> Q x y) -> Forall2 P l m -> Forall2 Q l m.
Proof.
  intros A B P Q l m H F. induction F; constructor.
  - apply H; [left; reflexivity|assumption].
  - apply IHF. intros; eapply H; eauto. right; assumption.
Qed.

Lemma Forall_impl_in : forall (A : Type) (P Q : A -> Prop) l,
    (forall x, In x l -> P x -> Q x) -> Forall P l -> Forall Q l.
Proof.
  intros A P Q l H F. induction F; constructor.
  - apply H; [left; reflexivity|assumption].
  - apply IHF. intros; apply H; [right|]; assumption.
Qed.

Lemma Forall2_in_l : forall (A B : Type) (P : A -> B -> Prop) l m x,
    Forall2 P l m -> In x l -> exists y, In y m /\ P x y.
Proof.
  intros A B P l m x F. induction F; intros Hi; simpl in Hi; [contradiction|].
  destruct Hi as [E|Hi].
  - subst. eexists; split; [left; reflexivity|eassumption].
  - destruct (IHF Hi) as (t & ? & ?). exists t; split; [right|]; assumption.
Qed.

Lemma in_fp1_fields : forall sub fs v x, In v fs -> In x (fp1 sub v) -> In x (flat_map (fp1 sub) fs).
Proof. intros. apply in_flat_map. eauto. Qed.

Lemma in_refs1_fields : forall sub fs v x, In v fs -> In x (refs1 sub v) -> In x (flat_map (refs1 sub) fs).
Proof. intros. apply in_flat_map. eauto. Qed.

Lemma fp_S : forall n h a, fp (S n) h a = a :: flat_map (fp1 (fp n h)) (fields_of h a).
Proof. reflexivity. Qed.

Lemma all_refs_S : forall n h a, all_refs (S n) h a = flat_map (refs1 (all_refs n h)) (fields_of h a).
Proof. reflexivity. Qed.

Lemma wf_pos : forall n h a k, wf_obj n h a k -> exists n', n = S n'.
Proof. intros [|n] h a k H; [destruct H|eauto]. Qed.

Lemma wf_in_fp : forall n h a k, wf_obj n h a k -> In a (fp n h a).
Proof. intros n h a k H. destruct (wf_pos _ _ _ _ H) as [n' ->]. left; reflexivity. Qed.

Lemma fp_frame : forall n h h' a,
    (forall x, In x (fp n h a) -> nth_error h' x = nth_error h x) -> fp n h' a = fp n h a.
Proof.
  induction n as [|n IH]; intros h h' a H; [reflexivity|].
  rewrite !fp_S in *.
  assert (Hf : fields_of h' a = fields_of h a) by (apply fields_same, H; left; reflexivity).
  rewrite Hf. f_equal. apply flat_map_ext_in. intros v Hv.
  destruct v; simpl; auto. apply IH. intros x Hx. apply H. right.
  eapply in_fp1_fields; eauto.
Qed.

Lemma all_refs_frame : forall n h h' a,
    (forall x, In x (fp n h a) -> nth_error h' x = nth_error h x) -> all_refs n h' a = all_refs n h a.
Proof.
  induction n as [|n IH]; intros h h' a H; [reflexivity|].
  rewrite !all_refs_S. rewrite fp_S in H.
  assert (Hf : fields_of h' a = fields_of h a) by (apply fields_same, H; left; reflexivity).
  rewrite Hf. apply flat_map_ext_in. intros v Hv.
  destruct v; simpl; auto. apply IH. intros x Hx. apply H. right.
  eapply in_fp1_fields; eauto.
Qed.

Lemma leaf_ok_frame : forall h h' own tm a,
    leaf_ok h own tm a -> nth_error h' a = nth_error h a -> leaf_ok h' own tm a.
Proof.
  intros h h' own tm a (fs & Hg & Hl & Ht) E. exists fs. split; [|auto].
  rewrite <- Hg. apply get_same; assumption.
Qed.

Lemma wf_frame : forall n h h' a k,
    wf_obj n h a k ->
    (forall x, In x (fp n h a) -> nth_error h' x = nth_error h x) ->
    (forall s, In s (all_refs n h a) -> shared_ok h' s) ->
    wf_obj n h' a k.
Proof.
  induction n as [|n IH]; intros h h' a k W Hfp Hrefs; [destruct W|].
  destruct W as (rc & fs & Hg & Hty).
  assert (Hfs : fields_of h a = fs) by (unfold fields_of; rewrite Hg; reflexivity).
  rewrite fp_S, Hfs in Hfp. rewrite all_refs_S, Hfs in Hrefs.
  exists rc, fs. split.
  - rewrite <- Hg. apply get_same. apply Hfp. left; reflexivity.
  - eapply Forall2_impl_in; [|exact Hty].
    intros v t Hv T. destruct t, v; simpl in *; auto; try contradiction.
    + eapply leaf_ok_frame; eauto. apply Hfp. right. eapply in_fp1_fields; eauto. simpl; auto.
    + eapply Forall_impl_in; [|exact T]. intros x Hx Lx. eapply leaf_ok_frame; eauto.
      apply Hfp. right. eapply in_fp1_fields; eauto.
    + destruct T as [W1 R1]. split.
      * apply IH with (h := h); auto.
        -- intros x Hx. apply Hfp. right. eapply in_fp1_fields; eauto.
        -- intros s Hs. apply Hrefs. eapply in_refs1_fields; eauto.
      * rewrite <- R1. apply rc_same. apply Hfp. right. eapply in_fp1_fields; eauto.
        simpl. eapply wf_in_fp; eauto.
    + apply Hrefs. eapply in_refs1_fields; eauto. simpl; auto.
Qed.

Lemma abs_frame : forall n h h' a,
    (forall x, In x (fp n h a) -> nth_error h' x = nth_error h x) -> abs_obj n h' a = abs_obj n h a.
Proof.
  induction n as [|n IH]; intros h h' a H; [reflexivity|].
  rewrite fp_S in H. simpl.
  assert (Hg : get h' a = get h a) by (apply get_same, H; left; reflexivity).
  rewrite Hg. destruct (get h a) as [[[hd|] fs]|] eqn:G; auto.
  assert (Hfs : fields_of h a = fs) by (unfold fields_of; rewrite G; reflexivity).
  rewrite Hfs in H. f_equal. apply map_ext_in. intros v Hv.
  destruct v; simpl; auto.
  - unfold abs_leaf. f_equal. f_equal. apply fields_same. apply H. right.
    eapply in_fp1_fields; eauto. simpl; auto.
  - f_equal. apply map_ext_in. intros x Hx. unfold abs_leaf. f_equal. f_equal.
    apply fields_same. apply H. right. eapply in_fp1_fields; eauto.
  - apply IH. intros x Hx. apply H. right. eapply in_fp1_fields; eauto.
Qed.

Lemma shared_ok_same : forall h h' s k,
    shared_ok h s -> nth_error h' s = option_map (sub_rc k) (nth_error h s) -> shared_ok h' s.
Proof.
  intros h h' s k (c & hd & G & Hh) E. apply get_nth in G. rewrite G in E. simpl in E.
  destruct c as [[hd0|] fs]; simpl in *; try congruence. inversion Hh; subst.
  eexists; eexists; split; [apply get_nth; exact E|reflexivity].
Qed.

Lemma shared_ok_add : forall h h' s k,
    shared_ok h s -> nth_error h' s = option_map (add_rc k) (nth_error h s) -> shared_ok h' s.
Proof.
  intros h h' s k (c & hd & G & Hh) E. apply get_nth in G. rewrite G in E. simpl in E.
  destruct c as [[hd0|] fs]; simpl in *; try congruence. inversion Hh; subst.
  eexists; eexists; split; [apply get_nth; exact E|reflexivity].
Qed.

(* the references of a well-formed object are alive *)
Lemma wf_refs_shared : forall n h a k s, wf_obj n h a k -> In s (all_refs n h a) -> shared_ok h s.
Proof.
  induction n as [|n IH]; intros h a k s W Hs; [destruct W|].
  destruct W as (rc & fs & Hg & Hty).
  assert (Hfs : fields_of h a = fs) by (unfold fields_of; rewrite Hg; reflexivity).
  rewrite all_refs_S, Hfs in Hs. apply in_flat_map in Hs. destruct Hs as (v & Hv & Hs).
  assert (exists t, In t (LAY k) /\
                    has_type (fun s ks => wf_obj n h s ks /\ rc_of h s = 1%N) h (a :: owned_of fs) v t).
  { eapply Forall2_in_l; eauto. }
  destruct H as (t & _ & T). destruct v; simpl in Hs; try contradiction.
  - destruct t; simpl in T; try contradiction. destruct T as [W1 _]. eapply IH; eauto.
  - destruct Hs as [<-|[]]. destruct t; simpl in T; try contradiction. assumption.
Qed.
