(* C19: building blocks of the copy proof - how the primitive steps of a copy
   hook change the heap. *)
From Coq Require Import List NArith Bool Arith Lia.
From SqfsV Require Import C19.ObjHeap C19.ObjHooks C19.ObjKinds C19.ObjSpec C19.ObjBase C19.ObjFrame.
Import ListNotations.

Lemma option_map_add0 : forall (o : option slot), option_map (add_rc 0) o = o.
Proof. intros [s|]; simpl; [rewrite add_rc_0|]; reflexivity. Qed.

(* [grown L R hs hs']: hs' is hs with cells appended, every cell at or above L
   untouched, and below L one reference added per occurrence in R *)
Definition grown (L : nat) (R : list addr) (hs hs' : heap) : Prop :=
  length hs <= length hs' /\
  (forall x, L <= x < length hs -> nth_error hs' x = nth_error hs x) /\
  (forall x, x < L -> nth_error hs' x = option_map (add_rc (cnt R x)) (nth_error hs x)).

Lemma grown_refl : forall L hs, grown L [] hs hs.
Proof.
  intros L hs. split; [lia|]. split; [auto|].
  intros x _. unfold cnt; simpl. rewrite option_map_add0. reflexivity.
Qed.

Lemma grown_trans : forall L R1 R2 h1 h2 h3,
    L <= length h1 -> grown L R1 h1 h2 -> grown L R2 h2 h3 -> grown L (R1 ++ R2) h1 h3.
Proof.
  intros L R1 R2 h1 h2 h3 HL (L1 & A1 & B1) (L2 & A2 & B2). split; [lia|]. split.
  - intros x Hx. rewrite A2 by lia. apply A1; lia.
  - intros x Hx. rewrite B2, B1 by assumption. rewrite cnt_app.
    destruct (nth_error h1 x) as [s|]; simpl; [|reflexivity]. rewrite add_rc_add. reflexivity.
Qed.

Lemma grown_app : forall L hs s, L <= length hs -> grown L [] hs (hs ++ [s]).
Proof.
  intros L hs s HL. split; [rewrite app_length; simpl; lia|]. split.
  - intros x Hx. apply nth_app_old. lia.
  - intros x Hx. unfold cnt; simpl. rewrite option_map_add0. apply nth_app_old. lia.
Qed.

Lemma grown_weaken : forall L R R' hs hs',
    (forall x, cnt R x = cnt R' x) -> grown L R hs hs' -> grown L R' hs hs'.
Proof.
  intros L R R' hs hs' E (A & B & C). split; [assumption|]. split; [assumption|].
  intros x Hx. rewrite <- E. auto.
Qed.

(* ---- dup_leaf / dup_leaves ---- *)
Lemma dup_leaf_ok : forall hs a fs,
    get hs a = Some (mkC None fs) ->
    dup_leaf hs a = Ok (hs ++ [Live (mkC None fs)], length hs).
Proof.
  intros hs a fs G. unfold dup_leaf. rewrite (load_of_get _ _ _ G). reflexivity.
Qed.

Lemma dup_leaves_ok : forall l hs,
    (forall a, In a l -> exists fs, get hs a = Some (mkC None fs)) ->
    exists hs',
      dup_leaves hs l = Ok (hs', seq (length hs) (length l)) /\
      length hs' = length hs + length l /\
      (forall x, x < length hs -> nth_error hs' x = nth_error hs x) /\
      (forall i a, nth_error l i = Some a -> get hs' (length hs + i) = get hs a).
Proof.
  induction l as [|a l IH]; intros hs HL.
  - exists hs. simpl. repeat split; auto; try lia. intros [|i] a H; discriminate.
  - destruct (HL a (or_introl eq_refl)) as [fs G].
    destruct (IH (hs ++ [Live (mkC None fs)])) as (hs' & E & Len & Old & New).
    { intros x Hx. destruct (HL x (or_intror Hx)) as [fx Gx]. exists fx.
      eapply get_app_old; eauto. }
    rewrite app_length in *. simpl in *.
    exists hs'. split; [|split; [|split]].
    + rewrite (dup_leaf_ok _ _ _ G). simpl. rewrite E. simpl.
      replace (length hs + 1) with (S (length hs)) by lia. reflexivity.
    + lia.
    + intros x Hx. rewrite Old by lia. apply nth_app_old; assumption.
    + intros [|i] y Hy; simpl in Hy.
      * inversion Hy; subst. rewrite Nat.add_0_r. rewrite G.
        rewrite <- (get_app_new hs (mkC None fs)). apply get_same. apply Old. lia.
      * replace (length hs + S i) with (length hs + 1 + i) by lia. rewrite (New i y Hy).
        destruct (HL y) as [fy Gy]; [right; eapply nth_error_In; eauto|].
        rewrite Gy. eapply get_app_old; eauto.
Qed.

(* ---- sqfs_grab ---- *)
Lemma grab_ok : forall L hs s,
    shared_ok hs s -> s < L -> L <= length hs ->
    exists hs', sqfs_grab hs s = Ok hs' /\ grown L [s] hs hs' /\ length hs' = length hs.
Proof.
  intros L hs s (c & hd & G & Hh) Hs HL.
  destruct c as [hd0 fs]; simpl in Hh; subst hd0.
  eexists. split; [|split].
  - unfold sqfs_grab. rewrite (load_of_get _ _ _ G). simpl. eapply store_of_get; eauto.
  - split; [rewrite length_upd; lia|]. split.
    + intros x Hx. apply nth_upd_neq. lia.
    + intros x Hx. destruct (Nat.eq_dec s x) as [<-|Ne].
      * rewrite nth_upd_eq by (eapply get_lt; eauto). apply get_nth in G. rewrite G.
        unfold cnt; simpl. destruct (Nat.eq_dec s s); [|congruence]. reflexivity.
      * rewrite nth_upd_neq by assumption. unfold cnt; simpl.
        destruct (Nat.eq_dec s x); [congruence|]. rewrite option_map_add0. reflexivity.
  - apply length_upd.
Qed.

(* ---- translation map ---- *)
Lemma assoc_in : forall m a b, NoDup (map fst m) -> In (a, b) m -> assoc m a = Some b.
Proof.
  induction m as [|[x y] m IH]; intros a b ND Hi; [destruct Hi|].
  simpl in *. inversion ND; subst. destruct Hi as [E|Hi].
  - inversion E; subst. rewrite Nat.eqb_refl. reflexivity.
  - destruct (Nat.eqb x a) eqn:Ex.
    + apply Nat.eqb_eq in Ex; subst. exfalso. apply H1.
      change a with (fst (a, b)). apply in_map. assumption.
    + apply IH; assumption.
Qed.

Lemma tr_in : forall m a b, NoDup (map fst m) -> In (a, b) m -> tr m a = b.
Proof. intros. unfold tr. erewrite assoc_in; eauto. Qed.

(* ---- positions ---- *)
Lemma index_of_nth : forall l i x,
    NoDup l -> nth_error l i = Some x -> index_of x l = Some i.
Proof.
  induction l as [|y l IH]; intros [|i] x ND H; simpl in *; try discriminate.
  - inversion H; subst. rewrite Nat.eqb_refl. reflexivity.
  - inversion ND; subst. destruct (Nat.eqb y x) eqn:E.
    + apply Nat.eqb_eq in E; subst. exfalso. apply H2. eapply nth_error_In; eauto.
    + rewrite (IH i x H3 H). reflexivity.
Qed.

Lemma in_nth_error : forall (l : list addr) x, In x l -> exists i, nth_error l i = Some x.
Proof. intros l x H. apply In_nth_error. assumption. Qed.

Lemma index_of_tr : forall m own own' x,
    NoDup own -> NoDup own' ->
    (forall i a, nth_error own i = Some a -> nth_error own' i = Some (tr m a)) ->
    In x own -> index_of (tr m x) own' = index_of x own.
Proof.
  intros m own own' x ND ND' H Hx.
  destruct (in_nth_error _ _ Hx) as [i Hi].
  rewrite (index_of_nth own i x ND Hi).
  apply index_of_nth; auto.
Qed.
