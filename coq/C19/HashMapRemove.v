(* C19 / lib/util/src/hash_table.c: the REMOVE clause of the map view (audit 4, finding 8).

   Util/HashMapView.v shows that the table is a finite map keyed by (hash, equivalence class of the
   callback) as far as insert and search are concerned; hash_table_remove_entry was only shown to
   keep [wf].  Here: tombstoning the entry at slot a
     - keeps [uniq] (at most one live entry answers any search),
     - makes the search for its class answer NULL (the key is gone - across the tombstone: the
       probing sequence does not stop at it), and
     - leaves every other live entry findable by exactly the searches that found it before. *)
From Coq Require Import NArith ZArith List Bool Lia Permutation.
From SqfsV Require Import Util.GenUtil Util.FastRem Util.HashModel Util.HashBase Util.HashRows Util.HashInv
     Util.HashContracts Util.HashMapView.
Import ListNotations.
Local Open Scope N_scope.

Section REMOVE.
Variables K V : Type.
Variable keq : K -> K -> bool.
Hypothesis keq_sym : forall a b, keq a b = true -> keq b a = true.
Hypothesis keq_trans : forall a b c, keq a b = true -> keq b c = true -> keq a c = true.

Theorem ht_remove_map_view : forall (t : htab K V) a h k d,
  wf K V t -> h < two32 -> nthN (ht_table K V t) a = Some (SPresent h k d) ->
  uniq K V keq (livel K V (ht_table K V t)) ->
  let t' := ht_remove_entry K V t a in
  wf K V t' /\
  uniq K V keq (livel K V (ht_table K V t')) /\
  (forall key, keq key k = true -> ht_search K V keq t' h key = Ok None) /\
  (forall h1 k1 d1 key, h1 < two32 ->
     In (h1, k1, d1) (livel K V (ht_table K V t)) -> (h1, k1, d1) <> (h, k, d) -> keq key k1 = true ->
     exists a1, ht_search K V keq t' h1 key = Ok (Some a1) /\ ht_entry K V t' a1 = Some (h1, k1, d1)).
Proof.
  intros t a h k d W Hh Hn U t'.
  destruct (ht_remove_spec K V t a h k d W Hn) as (W' & rest & P & Lv). fold t' in W', Lv.
  pose proof (uniq_remove K V keq (h, k, d) rest _ P U) as U'.
  split; [exact W'|]. split; [rewrite Lv; exact U'|]. split.
  - intros key Hk. destruct (ht_search_spec K V keq t' h key W' Hh) as (r & E & Hr). rewrite E.
    destruct r as [a1|]; [exfalso|reflexivity]. destruct Hr as (k1 & d1 & Hs & Hk1).
    assert (Hin : In (h, k1, d1) rest) by (rewrite <- Lv; apply livel_In; eauto).
    pose proof (uniq_perm K V keq _ _ P U h key) as Hu. cbn [filter] in Hu.
    assert (E0 : ematch K V keq h key (h, k, d) = true) by (unfold ematch; cbn; rewrite N.eqb_refl; exact Hk).
    rewrite E0 in Hu. cbn [length] in Hu.
    assert (In (h, k1, d1) (filter (ematch K V keq h key) rest)).
    { apply filter_In. split; [exact Hin|]. unfold ematch. cbn. rewrite N.eqb_refl. exact Hk1. }
    destruct (filter (ematch K V keq h key) rest); [contradiction|cbn in Hu; lia].
  - intros h1 k1 d1 key Hh1 Hin Ne Hk.
    assert (Hin' : In (h1, k1, d1) (livel K V (ht_table K V t'))).
    { rewrite Lv. apply (Permutation_in _ P) in Hin. destruct Hin as [Heq|Hin]; [congruence|exact Hin]. }
    rewrite <- Lv in U'.
    exact (ht_search_unique K V keq t' h1 key k1 d1 W' Hh1 U' Hin' Hk).
Qed.
End REMOVE.
