(* C19: an xattr reader lookup is [shared_preserving_op].

   sqfs_xattr_reader_t = [D; Own id_block_starts; Obj idrd; Obj kvrd]: the lookup
   (get_desc; seek_kv; read_key / read_value) runs an operation of the id meta reader
   (descriptor of the xattr set) and then - with an operand computed from that answer - an
   operation of the key/value meta reader.  Both sub-readers are exclusively owned meta
   readers that reference the SAME shared file and compressor, so this is the situation of
   the pair theorem INSIDE one object: the second sub-operation runs on a compressor whose
   stream cell the first one has just overwritten.

   Generic in the meta reader operation: any [shared_preserving_op 1 1 KMeta] (e.g.
   ObjSharedInst.run_meta_shared_preserving) lifts to the xattr reader. *)
From Coq Require Import List NArith Bool Arith Lia.
From SqfsV Require Import C19.ObjHeap C19.ObjHooks C19.ObjKinds C19.ObjSpec C19.ObjBase C19.ObjFrame
     C19.ObjDrop C19.ObjCopy3 C19.ObjPair C19.ObjOps C19.ObjGenDefs C19.ObjGenBase C19.ObjGenPair
     C19.ObjShared C19.ObjSharedDefs C19.ObjSharedInst C19.ObjSharedData.
Import ListNotations.

Definition is_aref (a : aval) : bool := match a with ARef _ => true | _ => false end.
Definition nrefs (a : aval) : nat :=
  match a with AObj _ _ fs => length (filter is_aref fs) | _ => 0 end.

Lemma nrefs_abs1 : forall h a hd fs,
    get h a = Some (mkC (Some hd) fs) -> nrefs (abs_obj 1 h a) = length (all_refs 1 h a).
Proof.
  intros h a hd fs G. rewrite (abs_obj_S_get 0 h a hd fs G). rewrite all_refs_S. unfold fields_of. rewrite G.
  cbn [nrefs c_fields]. clear G. generalize (a :: owned_of fs). intros own.
  induction fs as [|v fs IH]; [reflexivity|]. cbn [map filter flat_map]. rewrite app_length, <- IH.
  destruct v; reflexivity.
Qed.

Lemma firstn_map_app : forall (A B : Type) (f : A -> B) l1 l2, firstn (length l1) (map f l1 ++ map f l2) = map f l1.
Proof.
  intros A B f l1 l2. rewrite <- (map_length f l1). rewrite firstn_app, Nat.sub_diag, firstn_all. simpl.
  apply app_nil_r.
Qed.

Lemma skipn_map_app : forall (A B : Type) (f : A -> B) l1 l2, skipn (length l1) (map f l1 ++ map f l2) = map f l2.
Proof.
  intros A B f l1 l2. rewrite <- (map_length f l1). rewrite skipn_app, Nat.sub_diag, skipn_all. reflexivity.
Qed.

Section Frame.
  Variables m n : nat.
  Variable k : kind.
  Variable view : aval -> aval.
  Variables op ans : Type.
  Variable run : op -> heap -> addr -> heap * ans.
  Variable step : list aval -> op -> aval -> aval * ans.
  Hypothesis run_sp : shared_preserving_op m n k view op ans run step.

  (* what an operation on x leaves of its neighbour y and of all shared objects of the pair
     (the facts op_step_shared establishes on the way) *)
  Lemma op_step_shared_frame : forall p h x y h' r,
      pair_inv_g m n h x y k -> run p h x = (h', r) ->
      (forall z, In z (fp n h y) -> nth_error h' z = nth_error h z) /\
      fp n h' y = fp n h y /\
      (forall s, In s (all_refs n h x ++ all_refs n h y) ->
                 nth_error h' s = nth_error h s /\ closed_obj m h' s /\ fp m h' s = fp m h s /\
                 view (abs_obj m h' s) = view (abs_obj m h s)).
  Proof.
    intros p h x y h' r (Wx & Wy & E) Er.
    pose proof E as (C & (ND & D1 & D2) & Cn).
    destruct (run_sp p h x h' r (conj Wx (env_ok_app_l _ _ _ _ _ _ E)) Er)
      as (Len & Fr & Shp & Wx' & NDx' & Fp' & Rf' & Rc' & Ab' & Rr).
    assert (Lty : forall z, In z (fp n h y) -> z < length h) by (intros; eapply wf_fp_lt; eauto).
    assert (InS : forall z, In z (shared_fp m h (all_refs n h x)) ->
                            exists t, In t (all_refs n h x) /\ In z (fp m h t)).
    { intros z Hz. unfold shared_fp in Hz. apply in_flat_map in Hz. exact Hz. }
    assert (Agy : forall z, In z (fp n h y) -> nth_error h' z = nth_error h z).
    { intros z Hz. apply Fr; [auto| |].
      - intro Hx. eapply NoDup_app_disj; eauto.
      - intro Hs. destruct (InS z Hs) as (t & Ht & Hzt).
        apply (D1 t z); [apply in_or_app; auto|assumption|apply in_or_app; auto]. }
    split; [assumption|]. split; [apply fp_frame; assumption|].
    intros s Hs. destruct (in_dec Nat.eq_dec s (all_refs n h x)) as [Ix|Nx]; [apply Shp; assumption|].
    assert (A : forall z, In z (fp m h s) -> nth_error h' z = nth_error h z).
    { intros z Hz. apply Fr.
      - eapply closed_lt; [apply C; exact Hs|exact Hz].
      - intro Hx. apply (D1 s z Hs Hz). apply in_or_app; auto.
      - intro Hsf. destruct (InS z Hsf) as (t & Ht & Hzt).
        assert (Ne : t <> s) by (intro; subst; contradiction).
        apply (D2 t s z); auto. apply in_or_app; auto. }
    destruct (closed_frame m h h' s (C s Hs) A) as (C1 & EF & EA).
    split; [apply A; apply closed_in_fp; auto|]. split; [assumption|]. split; [assumption|].
    rewrite EA. reflexivity.
  Qed.
End Frame.

Lemma shared_fp_app : forall m h R1 R2 y,
    In y (shared_fp m h (R1 ++ R2)) <-> In y (shared_fp m h R1) \/ In y (shared_fp m h R2).
Proof. intros. unfold shared_fp. rewrite flat_map_app, in_app_iff. tauto. Qed.

Lemma abs1_is_obj : forall h a k, wf_obj 1 h a k -> exists dd cc ff, abs_obj 1 h a = AObj dd cc ff.
Proof.
  intros h a k (rc & fs & G & _). rewrite (abs_obj_S_get 0 h a _ _ G). eauto.
Qed.

Section XrdOp.
  Variables P1 A1 : Type.
  Variable view : aval -> aval.
  Variable runM : P1 -> heap -> addr -> heap * A1.
  Variable stepM : list aval -> P1 -> aval -> aval * A1.
  Hypothesis runM_sp : shared_preserving_op 1 1 KMeta view P1 A1 runM stepM.
  Variable P : Type.
  Variable sel1 : P -> list N -> P1.
  Variable sel2 : P -> list N -> A1 -> P1.
  Variable dflt : A1 * A1.

  Definition run_xlookup (p : P) (h : heap) (x : addr) : heap * (A1 * A1) :=
    match fields_of h x with
    | [v1; v2; v3; v4] =>
        match v1, v3, v4 with
        | VData d, VObj ia, VObj ka =>
            let '(h1, a1) := runM (sel1 p d) h ia in
            let '(h2, a2) := runM (sel2 p d a1) h1 ka in
            (h2, (a1, a2))
        | _, _, _ => (h, dflt)
        end
    | _ => (h, dflt)
    end.

  Definition step_xlookup (env : list aval) (p : P) (a : aval) : aval * (A1 * A1) :=
    match a with
    | AObj dd c [a1; a2; a3; a4] =>
        match a1, a3, a4 with
        | AData d, AObj _ _ _, AObj _ _ _ =>
            let '(a3', r1) := stepM (firstn (nrefs a3) env) (sel1 p d) a3 in
            let '(a4', r2) := stepM (skipn (nrefs a3) env) (sel2 p d r1) a4 in
            (AObj dd c [a1; a2; a3'; a4'], (r1, r2))
        | _, _, _ => (a, dflt)
        end
    | _ => (a, dflt)
    end.

  Notation run := run_xlookup.
  Notation step := step_xlookup.

  Theorem run_xlookup_shared_preserving : shared_preserving_op 1 2 KXrd view P (A1 * A1) run step.
  Proof.
    intros p h x h' r (W & E) Er. pose proof W as W0.
    destruct W as (rc & fs & G & T). pose proof T as T0. cbn [LAY] in T.
    inversion T as [|v1 t1 l1 l1' T1 Ta]; subst. inversion Ta as [|v2 t2 l2 l2' T2 Tb]; subst.
    inversion Tb as [|v3 t3 l3 l3' T3 Tc]; subst. inversion Tc as [|v4 t4 l4 l4' T4 Td]; subst.
    inversion Td; subst. clear T Ta Tb Tc Td.
    set (own := x :: owned_of [v1; v2; v3; v4]) in *.
    assert (Hfs : fields_of h x = [v1; v2; v3; v4]) by (unfold fields_of; rewrite G; reflexivity).
    assert (Triv : (h', r) = (h, dflt) ->
                   step (senv 1 view h (all_refs 2 h x)) p (abs_obj 2 h x) = (abs_obj 2 h x, dflt) ->
      length h <= length h' /\
      (forall y, y < length h -> ~ In y (fp 2 h x) -> ~ In y (shared_fp 1 h (all_refs 2 h x)) ->
                 nth_error h' y = nth_error h y) /\
      (forall s, In s (all_refs 2 h x) ->
                 nth_error h' s = nth_error h s /\ closed_obj 1 h' s /\ fp 1 h' s = fp 1 h s /\
                 view (abs_obj 1 h' s) = view (abs_obj 1 h s)) /\
      wf_obj 2 h' x KXrd /\ NoDup (fp 2 h' x) /\
      (forall y, In y (fp 2 h' x) -> In y (fp 2 h x) \/ length h <= y) /\
      all_refs 2 h' x = all_refs 2 h x /\ rc_of h' x = rc_of h x /\
      abs_obj 2 h' x = fst (step (senv 1 view h (all_refs 2 h x)) p (abs_obj 2 h x)) /\
      r = snd (step (senv 1 view h (all_refs 2 h x)) p (abs_obj 2 h x))).
    { intros E0 Es. inversion E0; subst h' r. rewrite Es. simpl fst. simpl snd.
      destruct E as (C & (ND & _) & _).
      split; [lia|]. split; [auto|]. split; [intros s Hs; auto|]. auto 10. }
    assert (Abs : abs_obj 2 h x = AObj (Some KXrd) (Some KXrd)
                    (map (abs_val (abs_obj 1 h) h own) [v1; v2; v3; v4])).
    { cbn [abs_obj]. rewrite G. reflexivity. }
    unfold run_xlookup in Er. rewrite Hfs in Er.
    destruct v1; simpl in T1; try contradiction. clear T1.
    destruct v3; cbn [has_type] in T3; try contradiction;
      [apply Triv; [congruence|rewrite Abs; reflexivity]|].
    destruct T3 as [Wi Rci]. destruct (abs1_is_obj h a KMeta Wi) as (di & ci & fi & Eai).
    destruct v4; cbn [has_type] in T4; try contradiction;
      [apply Triv; [congruence|rewrite Abs; cbn [map abs_val step_xlookup]; rewrite Eai; reflexivity]|].
    destruct T4 as [Wk Rck]. destruct (abs1_is_obj h a0 KMeta Wk) as (dk & ck & fk & Eak).
    rename a into ia. rename a0 into ka.
    assert (R2 : refs1 (all_refs 1 h) v2 = []) by (destruct v2; simpl in T2; try contradiction; reflexivity).
    set (F2 := fp1 (fp 1 h) v2) in *.
    assert (Hfp : fp 2 h x = x :: F2 ++ fp 1 h ia ++ fp 1 h ka).
    { rewrite fp_S, Hfs. cbn [flat_map fp1 app]. rewrite app_nil_r. reflexivity. }
    assert (Hrefs : all_refs 2 h x = all_refs 1 h ia ++ all_refs 1 h ka).
    { rewrite all_refs_S, Hfs. cbn [flat_map refs1 app]. rewrite R2, app_nil_r. reflexivity. }
    rewrite Hfp, Hrefs in *.
    set (Fi := fp 1 h ia) in *. set (Fk := fp 1 h ka) in *.
    set (Ri := all_refs 1 h ia) in *. set (Rk := all_refs 1 h ka) in *.
    pose proof E as (C & (ND & D1 & D2) & Cn).
    apply NoDup_cons_iff in ND. destruct ND as [NxL NDL].
    assert (NDik : NoDup (Fi ++ Fk)) by (eapply NoDup_app_r; eauto).
    assert (Epair : env_ok 1 h (Fi ++ Fk) (Ri ++ Rk)).
    { eapply env_ok_F_incl; [exact E|assumption|]. intros z Hz. right. apply in_or_app; auto. }
    assert (P0 : pair_inv_g 1 1 h ia ka KMeta) by (split; [assumption|split; assumption]).
    destruct (runM (sel1 p d) h ia) as [h1 a1] eqn:E1.
    destruct (runM (sel2 p d a1) h1 ka) as [h2 a2] eqn:E2.
    inversion Er; subst h' r. clear Er Triv.
    (* first sub-operation: the id reader *)
    destruct (runM_sp _ h ia h1 a1 (conj Wi (env_ok_app_l _ _ _ _ _ _ Epair)) E1)
      as (Len1 & Fr1 & _ & _ & _ & Fpi1 & _ & _ & Abi1 & Rr1).
    destruct (op_step_shared 1 1 KMeta view P1 A1 runM stepM runM_sp _ h ia ka h1 a1 P0 E1)
      as (P1' & Ak1 & Rck1 & Rci1 & Rfi1 & Rfk1 & _ & Sek1 & _ & _).
    destruct (op_step_shared_frame 1 1 KMeta view P1 A1 runM stepM runM_sp _ h ia ka h1 a1 P0 E1)
      as (Agk1 & EFk1 & Sall1).
    (* second sub-operation: the key/value reader, on the heap the first one left *)
    pose proof (pair_sym_g _ _ _ _ _ _ P1') as Q1. pose proof Q1 as (Wk1 & Wi1 & Eq1).
    destruct (runM_sp _ h1 ka h2 a2 (conj Wk1 (env_ok_app_l _ _ _ _ _ _ Eq1)) E2)
      as (Len2 & Fr2 & _ & _ & _ & Fpk2 & _ & _ & Abk2 & Rr2).
    destruct (op_step_shared 1 1 KMeta view P1 A1 runM stepM runM_sp _ h1 ka ia h2 a2 Q1 E2)
      as (P2' & Ai2 & Rci2 & Rck2 & Rfk2 & Rfi2 & _ & _ & _ & _).
    destruct (op_step_shared_frame 1 1 KMeta view P1 A1 runM stepM runM_sp _ h1 ka ia h2 a2 Q1 E2)
      as (Agi2 & EFi2 & Sall2).
    fold Fk in EFk1. fold Ri in Rfi1. fold Rk in Rfk1, Sek1.
    rewrite Rfk1, Rfi1 in Sall2. rewrite Rfk1 in Rfk2. rewrite Rfi1 in Rfi2.
    rewrite Rfk1, Sek1, Ak1 in Abk2, Rr2.
    (* everything of x that is not a sub-reader is untouched *)
    assert (Lt : forall z, z = x \/ In z F2 -> z < length h).
    { intros z Hz. eapply wf_fp_lt; [exact W0|]. rewrite Hfp. destruct Hz as [->|Hz]; [left; reflexivity|].
      right. apply in_or_app; auto. }
    assert (NotSub : forall z, z = x \/ In z F2 -> ~ In z Fi /\ ~ In z Fk).
    { intros z [->|Hz].
      - split; intro Hc; apply NxL; apply in_or_app; right; apply in_or_app; auto.
      - split; intro Hc; eapply NoDup_app_disj; [exact NDL|exact Hz|apply in_or_app; eauto| exact NDL|exact Hz|apply in_or_app; eauto]. }
    assert (InOld : forall z, z = x \/ In z F2 -> In z (x :: F2 ++ Fi ++ Fk)).
    { intros z [->|Hz]; [left; reflexivity|right; apply in_or_app; auto]. }
    assert (NotSh : forall z s, z = x \/ In z F2 -> In s (Ri ++ Rk) -> ~ In z (fp 1 h s)).
    { intros z s Hz Hs Hc. apply (D1 s z Hs Hc). apply InOld; assumption. }
    assert (Other : forall z, z = x \/ In z F2 -> nth_error h2 z = nth_error h z).
    { intros z Hz. destruct (NotSub z Hz) as [Ni Nk]. pose proof (Lt z Hz) as Lz.
      rewrite Fr2; [apply Fr1; [assumption|assumption|]|lia|rewrite EFk1; assumption|].
      - intro Hc. unfold shared_fp in Hc. apply in_flat_map in Hc. destruct Hc as (s & Hs & Hc).
        apply (NotSh z s Hz); [apply in_or_app; auto|assumption].
      - rewrite Rfk1. intro Hc. unfold shared_fp in Hc. apply in_flat_map in Hc. destruct Hc as (s & Hs & Hc).
        destruct (Sall1 s (in_or_app _ _ _ (or_intror Hs))) as (_ & _ & EFs & _). rewrite EFs in Hc.
        apply (NotSh z s Hz); [apply in_or_app; auto|assumption]. }
    assert (Gx2 : get h2 x = Some (mkC (Some (mkH rc (Some KXrd) (Some KXrd))) [VData d; v2; VObj ia; VObj ka])).
    { rewrite <- G. apply get_same. apply Other. auto. }
    assert (Hfs2 : fields_of h2 x = [VData d; v2; VObj ia; VObj ka]) by (unfold fields_of; rewrite Gx2; reflexivity).
    assert (A2 : forall z, In z F2 -> nth_error h2 z = nth_error h z) by (intros; apply Other; auto).
    destruct (field_frame h h2 own v2 (TOwn TrNone) T2 A2) as (T2' & EF2 & ER2).
    { rewrite R2. intros ? []. }
    assert (Shared : forall s, In s (Ri ++ Rk) ->
                 nth_error h2 s = nth_error h s /\ closed_obj 1 h2 s /\ fp 1 h2 s = fp 1 h s /\
                 view (abs_obj 1 h2 s) = view (abs_obj 1 h s)).
    { intros s Hs. destruct (Sall1 s Hs) as (N1 & _ & F1 & V1).
      destruct (Sall2 s) as (N2 & C2 & F2' & V2).
      { apply in_app_or in Hs. apply in_or_app. tauto. }
      split; [congruence|]. split; [assumption|]. split; congruence. }
    set (Fi2 := fp 1 h2 ia) in *. set (Fk2 := fp 1 h2 ka) in *.
    assert (Hfp2 : fp 2 h2 x = x :: F2 ++ Fi2 ++ Fk2).
    { rewrite fp_S, Hfs2. cbn [flat_map fp1 app]. rewrite EF2, app_nil_r. reflexivity. }
    assert (Hrefs2 : all_refs 2 h2 x = Ri ++ Rk).
    { rewrite all_refs_S, Hfs2. cbn [flat_map refs1 app]. rewrite ER2, R2, app_nil_r, Rfi2, Rfk2. reflexivity. }
    assert (Ini : forall z, In z Fi2 -> In z Fi \/ length h <= z).
    { intros z Hz. rewrite EFi2 in Hz. apply Fpi1. assumption. }
    assert (Ink : forall z, In z Fk2 -> In z Fk \/ length h <= z).
    { intros z Hz. destruct (Fpk2 z Hz) as [Ho|Hn]; [left; rewrite EFk1 in Ho; assumption|right; lia]. }
    pose proof P2' as (Wk2 & Wi2 & (_ & (ND2 & _) & _)).
    split; [lia|]. split.
    { intros y Hy Ny Ns. rewrite Fr2, Fr1; auto.
      - intro Hc. apply Ny. right. apply in_or_app. right. apply in_or_app; auto.
      - intro Hc. apply Ns. apply shared_fp_app. auto.
      - lia.
      - rewrite EFk1. intro Hc. apply Ny. right. apply in_or_app. right. apply in_or_app; auto.
      - rewrite Rfk1. intro Hc. apply Ns. apply shared_fp_app. right.
        unfold shared_fp in *. apply in_flat_map in Hc. destruct Hc as (s & Hs & Hc). apply in_flat_map.
        exists s. split; [assumption|].
        destruct (Sall1 s (in_or_app _ _ _ (or_intror Hs))) as (_ & _ & EFs & _). rewrite <- EFs. assumption. }
    split; [exact Shared|]. split.
    { exists rc, [VData d; v2; VObj ia; VObj ka]. split; [exact Gx2|]. cbn [LAY].
      change (x :: owned_of [VData d; v2; VObj ia; VObj ka]) with own.
      constructor; [exact I|]. constructor; [exact T2'|]. constructor.
      { cbn [has_type]. split; [assumption|]. congruence. }
      constructor; [|constructor]. cbn [has_type]. split; [assumption|]. congruence. }
    split.
    { rewrite Hfp2. constructor.
      - intro Hc. apply in_app_or in Hc. destruct Hc as [Hc|Hc].
        + apply NxL. apply in_or_app; auto.
        + assert (Lx : x < length h) by (apply Lt; auto).
          apply in_app_or in Hc. destruct Hc as [Hc|Hc]; [destruct (Ini x Hc)|destruct (Ink x Hc)]; try lia;
            apply NxL; apply in_or_app; right; apply in_or_app; auto.
      - apply NoDup_app_intro.
        + eapply NoDup_app_l; eauto.
        + apply NoDup_app_intro.
          * eapply NoDup_app_r; eauto.
          * eapply NoDup_app_l; eauto.
          * intros z Hz Hy. eapply NoDup_app_disj; [exact ND2|exact Hy|exact Hz].
        + intros z Hz Hc. pose proof (Lt z (or_intror Hz)) as Lz. destruct (NotSub z (or_intror Hz)) as [Ni Nk].
          apply in_app_or in Hc. destruct Hc as [Hc|Hc]; [destruct (Ini z Hc)|destruct (Ink z Hc)]; try lia; contradiction. }
    split.
    { intros y Hy. rewrite Hfp2 in Hy. destruct Hy as [<-|Hy]; [left; left; reflexivity|].
      apply in_app_or in Hy. destruct Hy as [Hy|Hy]; [left; right; apply in_or_app; auto|].
      apply in_app_or in Hy. destruct Hy as [Hy|Hy]; [destruct (Ini y Hy)|destruct (Ink y Hy)]; auto;
        left; right; apply in_or_app; right; apply in_or_app; auto. }
    split; [assumption|].
    split; [unfold rc_of; rewrite Gx2, G; reflexivity|].
    (* answers *)
    assert (Hn : nrefs (abs_obj 1 h ia) = length Ri).
    { destruct Wi as (rci & fsi & Gi & _). eapply nrefs_abs1; eauto. }
    assert (Hs1 : firstn (nrefs (abs_obj 1 h ia)) (senv 1 view h (Ri ++ Rk)) = senv 1 view h Ri).
    { rewrite Hn. unfold senv. rewrite map_app. apply firstn_map_app. }
    assert (Hs2 : skipn (nrefs (abs_obj 1 h ia)) (senv 1 view h (Ri ++ Rk)) = senv 1 view h Rk).
    { rewrite Hn. unfold senv. rewrite map_app. apply skipn_map_app. }
    fold Ri in Abi1, Rr1. 
    rewrite Abs. cbn [map abs_val step_xlookup].
    rewrite Eai in Hs1, Hs2, Abi1, Rr1 |- *. rewrite Eak in Abk2, Rr2 |- *. cbn [step_xlookup].
    rewrite Hs1, Hs2.
    destruct (stepM (senv 1 view h Ri) (sel1 p d) (AObj di ci fi)) as [a3' r1] eqn:Es1.
    cbn [fst snd] in Abi1, Rr1. subst r1.
    destruct (stepM (senv 1 view h Rk) (sel2 p d a1) (AObj dk ck fk)) as [a4' r2] eqn:Es2.
    cbn [fst snd] in Abk2, Rr2. subst r2. cbn [fst snd].
    split; [|reflexivity].
    rewrite (abs_obj_S_get 1 h2 x _ _ Gx2). cbn [h_destroy h_copy map abs_val].
    change (x :: owned_of [VData d; v2; VObj ia; VObj ka]) with own.
    rewrite (abs_val_frame 1 h h2 own v2 A2). rewrite Ai2, Abi1, Abk2. reflexivity.
  Qed.
End XrdOp.

(* ---- a concrete xattr reader (id_block_starts, both sub-readers) on the environment of
   ObjSharedEx.v; the lookup runs the meta reader operation of ObjSharedEx.v (run_ok) on the
   id reader and then, at an offset computed from that answer, on the key/value reader ---- *)
From SqfsV Require Import C19.ObjSharedEx C19.ObjCheckDefs.
Local Open Scope N_scope.

Definition ex_xrd (rcf rcc : N) : heap * addr :=
  let '(h1, vids) := opt_leaf (ex_env rcf rcc) true [31] in
  let '(h2, ia) := mk_meta_in h1 1 in
  let '(h3, ka) := mk_meta_in h2 1 in
  push h3 (mkC (hdr 1 KXrd) [VData [5]; vids; VObj ia; VObj ka]).

Definition sel1_ex (p : N) (d : list N) : N := p.
Definition sel2_ex (p : N) (d : list N) (a1 : list N) : N := (last a1 0 / 10 + 1) mod 3.

Definition run_xl_ok := run_xlookup N (list N) run_ok N sel1_ex sel2_ex ([], []).
Definition step_xl_ok := step_xlookup N (list N) step_ok N sel1_ex sel2_ex ([], []).
Definition run_xl_bad := run_xlookup N (list N) run_bad N sel1_ex sel2_ex ([], []).

Definition ex_life_g (ans : Type) (run : N -> heap -> addr -> heap * ans) (p : heap * addr) (s : list (bool * N))
  : option (list (bool * ans) * option (nat * N * N)) :=
  let '(h, o) := p in
  match sqfs_copy HK_fixed 3 h o with
  | Ok (h1, Some c) =>
      let '(h2, rs) := exec N ans run s h1 o c in
      Some (rs, match sqfs_drop DK 4 h2 o with
                | Ok h3 => match sqfs_drop DK 4 h3 c with
                           | Ok h4 => Some (live_count h4, rc_of h4 a_file, rc_of h4 a_cmp)
                           | _ => None
                           end
                | _ => None
                end)
  | _ => None
  end.

Definition ex_xsched : list (bool * N) := [(true, 0); (false, 2); (true, 1)].

Lemma ex_xrd_lookup_life :
  ex_life_g _ run_xl_ok (ex_xrd 2 2) ex_xsched =
  Some ([(true, ([11; 12; 110; 120], [11; 12; 120; 130])); (false, ([11; 12; 130; 140], [11; 12; 110; 120]));
         (true, ([110; 120; 120; 130], [120; 130; 130; 140]))], Some (0%nat, 0, 0)) /\
  side true (match ex_life_g _ run_xl_ok (ex_xrd 2 2) (only true ex_xsched) with Some (rs, _) => rs | None => [] end)
  = [([11; 12; 110; 120], [11; 12; 120; 130]); ([110; 120; 120; 130], [120; 130; 130; 140])] /\
  side false (match ex_life_g _ run_xl_ok (ex_xrd 2 2) (only false ex_xsched) with Some (rs, _) => rs | None => [] end)
  = [([11; 12; 130; 140], [11; 12; 110; 120])] /\
  ex_life_g _ run_xl_ok (ex_xrd 3 4) ex_xsched =
  Some ([(true, ([11; 12; 110; 120], [11; 12; 120; 130])); (false, ([11; 12; 130; 140], [11; 12; 110; 120]));
         (true, ([110; 120; 120; 130], [120; 130; 130; 140]))], Some (4%nat, 1, 2)) /\
  copyable_g 1 2 (fst (ex_xrd 2 2)) (snd (ex_xrd 2 2)) KXrd = true /\
  copyable_g 1 2 (fst (ex_xrd 3 4)) (snd (ex_xrd 3 4)) KXrd = true /\
  (* with the stateful back end already the FIRST lookup is wrong inside one object: the key/value
     reader's block is unpacked on top of what the id reader's block left in the stream *)
  side false (match ex_life_g _ run_xl_bad (ex_xrd 2 2) ex_xsched with Some (rs, _) => rs | None => [] end)
  <> side false (match ex_life_g _ run_xl_bad (ex_xrd 2 2) (only false ex_xsched) with Some (rs, _) => rs | None => [] end).
Proof. vm_compute. repeat split; try reflexivity. discriminate. Qed.
