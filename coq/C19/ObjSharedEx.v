(* C19: concrete instances for the theorems of ObjGen*.v / ObjShared*.v: heaps in which the
   object (pair) holds the LAST references to file and compressor, a meta reader read through
   the shared compressor with a back end whose output is a function of (configuration, input),
   and one whose output depends on what the previous call left in the stream. *)
From Coq Require Import List NArith Bool Arith.
From SqfsV Require Import C19.ObjHeap C19.ObjHooks C19.ObjKinds C19.ObjSpec C19.ObjCheckDefs
     C19.ObjGenDefs C19.ObjOps C19.ObjSharedDefs C19.ObjShared C19.ObjSharedInst.
Import ListNotations.
Local Open Scope N_scope.

(* do_block as it should be: output = function of configuration and input (here: add the
   configured constant to every byte); the stream state it leaves behind is the last input *)
Definition blk_ok (cfg z inp : list N) : list N * list N := (inp, map (fun b => b + hd 0 cfg) inp).
(* do_block that does not reset its stream (seed C10-3: inflateReset moved behind the inflate
   call; F22: the copy's stream not the original's): the output drags in the previous input *)
Definition blk_bad (cfg z inp : list N) : list N * list N := (inp, z ++ inp).

Lemma blk_ok_stateless : forall cfg z z' i, snd (blk_ok cfg z i) = snd (blk_ok cfg z' i).
Proof. reflexivity. Qed.

(* seek to offset p, read two bytes through the compressor; the reader keeps the block and
   answers old state ++ block *)
Definition req_ex (p : N) (st b : list N) : list N := firstn 2 (skipn (N.to_nat p) b).
Definition fin_ex (p : N) (st out : list N) : list N * list N := (out, st ++ out).

Definition run_ok := run_meta N (list N) blk_ok req_ex fin_ex [].
Definition step_ok := step_meta N (list N) blk_ok req_ex fin_ex [].
Definition run_bad := run_meta N (list N) blk_bad req_ex fin_ex [].

(* file (5 bytes behind the descriptor) with count rcf, gzip compressor (configuration 100)
   with count rcc, one meta reader referencing both *)
Definition ex_env (rcf rcc : N) : heap :=
  [Live (mkC (hdr rcf KFile) [VOwn 1%nat; VData [7]]); Live (leaf [VData [10; 20; 30; 40; 50]]);
   Live (mkC (hdr rcc KGzip) [VOwn 3%nat; VData [100]]); Live (leaf [VData []])].
Definition ex_meta (rcf rcc : N) : heap * addr := mk_meta_in (ex_env rcf rcc) 1.

Definition ex_sched : list (bool * N) := [(true, 0); (false, 2); (true, 1); (false, 0)].

(* copy; schedule; drop original, drop copy: the answers, and (live cells, count of the file,
   count of the compressor) at the end *)
Definition ex_life (run : N -> heap -> addr -> heap * list N) (p : heap * addr) (s : list (bool * N))
  : option (list (bool * list N) * option (nat * N * N)) :=
  let '(h, o) := p in
  match sqfs_copy HK_fixed 3 h o with
  | Ok (h1, Some c) =>
      let '(h2, rs) := exec N (list N) run s h1 o c in
      Some (rs, match sqfs_drop DK 4 h2 o with
                | Ok h3 => match sqfs_drop DK 4 h3 c with
                           | Ok h4 => Some (live_count h4, rc_of h4 a_file, rc_of h4 a_cmp)
                           | _ => None
                           end
                | _ => None
                end)
  | _ => None
  end.

Lemma ex_meta_last_holder_life :
  ex_life run_ok (ex_meta 1 1) ex_sched =
  Some ([(true, [11; 12; 110; 120]); (false, [11; 12; 130; 140]);
         (true, [110; 120; 120; 130]); (false, [130; 140; 110; 120])], Some (0%nat, 0, 0)) /\
  side true (match ex_life run_ok (ex_meta 1 1) (only true ex_sched) with Some (rs, _) => rs | None => [] end)
  = [[11; 12; 110; 120]; [110; 120; 120; 130]] /\
  side false (match ex_life run_ok (ex_meta 1 1) (only false ex_sched) with Some (rs, _) => rs | None => [] end)
  = [[11; 12; 130; 140]; [130; 140; 110; 120]].
Proof. vm_compute. repeat split; reflexivity. Qed.

Lemma ex_meta_outside_holder_life :
  ex_life run_ok (ex_meta 2 3) ex_sched =
  Some ([(true, [11; 12; 110; 120]); (false, [11; 12; 130; 140]);
         (true, [110; 120; 120; 130]); (false, [130; 140; 110; 120])], Some (4%nat, 1, 2)).
Proof. vm_compute. reflexivity. Qed.

(* the proviso is necessary: with the stateful back end the copy's answers in the
   interleaving are not the answers it gives alone *)
Lemma ex_stateful_breaks :
  exists rs rs1 fin fin1,
    ex_life run_bad (ex_meta 1 1) ex_sched = Some (rs, fin) /\
    ex_life run_bad (ex_meta 1 1) (only false ex_sched) = Some (rs1, fin1) /\
    side false rs = [[11; 12; 10; 20; 30; 40]; [10; 20; 30; 40; 20; 30; 10; 20]] /\
    side false rs1 = [[11; 12; 30; 40]; [30; 40; 30; 40; 10; 20]] /\
    side false rs <> side false rs1.
Proof. vm_compute. do 4 eexists. repeat split; try reflexivity. discriminate. Qed.

Lemma blk_bad_not_stateless : ~ (forall cfg z z' i, snd (blk_bad cfg z i) = snd (blk_bad cfg z' i)).
Proof. intro H. specialize (H [] [1] [] []). discriminate. Qed.
