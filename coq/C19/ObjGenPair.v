(* C19: original and copy together, WITHOUT [slack]: the copy establishes the general
   pair invariant [pair_inv_g] from [obj_inv]; the pair can be released in either
   order also when it holds the last references to file / compressor; the survivor
   of the first release is intact and its shared objects are alive.
   (Generalises ObjPair.v.) *)
From Coq Require Import List NArith Bool Arith Lia.
From SqfsV Require Import C19.ObjHeap C19.ObjHooks C19.ObjKinds C19.ObjSpec C19.ObjBase C19.ObjFrame
     C19.ObjDrop C19.ObjCopyBase C19.ObjCopy C19.ObjCopy2 C19.ObjCopy3 C19.ObjCopy4 C19.ObjPair
     C19.ObjGenDefs C19.ObjGenBase C19.ObjGenDrop.
Import ListNotations.

(* the destroy hooks match the layouts (no reference to any table of copy hooks) *)
Lemma DK_ok : forall k, Forall2 (fun t d => dact_ok t d = true) (LAY k) (DK k).
Proof. apply (hooks_ok_destroy HK_fixed). vm_compute. reflexivity. Qed.

Lemma env_ok_equiv : forall m h F R F' R',
    env_ok m h F R -> NoDup F' -> (forall x, In x F' <-> In x F) ->
    (forall x, In x R' <-> In x R) -> (forall x, cnt R' x = cnt R x) -> env_ok m h F' R'.
Proof.
  intros m h F R F' R' (C & (ND & D1 & D2) & Cn) ND' EF ER EC. split; [|split; [split; [|split]|]].
  - intros s Hs. apply C, ER; assumption.
  - assumption.
  - intros s x Hs Hx Hf. apply (D1 s x); [apply ER|idtac|apply EF]; assumption.
  - intros s t x Hs Ht. apply D2; apply ER; assumption.
  - intros s Hs. rewrite EC. apply Cn, ER; assumption.
Qed.

Lemma dead_fp_equiv : forall m h R R' x,
    (forall y, In y R <-> In y R') -> (forall y, cnt R y = cnt R' y) ->
    In x (dead_fp m h R) -> In x (dead_fp m h R').
Proof.
  intros m h R R' x ER EC Hx. unfold dead_fp in *. apply in_flat_map in Hx. destruct Hx as (t & Ht & Hx).
  apply in_flat_map. exists t. split; [|assumption]. unfold dead in *. apply filter_In in Ht.
  apply filter_In. destruct Ht as [H1 H2]. split; [apply ER; assumption|]. rewrite <- EC. assumption.
Qed.

Lemma pair_sym_g : forall m n h o c k, pair_inv_g m n h o c k -> pair_inv_g m n h c o k.
Proof.
  intros m n h o c k (W1 & W2 & E). split; [assumption|]. split; [assumption|].
  eapply env_ok_equiv; [exact E| | | |].
  - destruct E as (_ & (ND & _) & _). apply NoDup_app_intro.
    + eapply NoDup_app_r; eauto.
    + eapply NoDup_app_l; eauto.
    + intros x Hx Hy. eapply NoDup_app_disj; eauto.
  - intros x. rewrite !in_app_iff. tauto.
  - intros x. rewrite !in_app_iff. tauto.
  - intros x. rewrite !cnt_app. lia.
Qed.

(* one more holder of a shared object that is not about to die *)
Lemma env_ok_extra : forall m h F R s,
    env_ok m h F R -> In s R -> (N.of_nat (cnt R s) < rc_of h s)%N -> env_ok m h (F ++ []) (R ++ [s]).
Proof.
  intros m h F R s (C & (ND & D1 & D2) & Cn) Hs Hc.
  assert (I : forall t, In t (R ++ [s]) -> In t R).
  { intros t Ht. apply in_app_or in Ht. destruct Ht as [Ht|[<-|[]]]; assumption. }
  split; [|split; [split; [|split]|]].
  - intros t Ht. apply C, I; assumption.
  - rewrite app_nil_r. assumption.
  - intros t x Ht Hx Hf. rewrite app_nil_r in Hf. apply (D1 t x); auto.
  - intros t u x Ht Hu. apply D2; auto.
  - intros t Ht. rewrite cnt_app. unfold cnt at 2. simpl. destruct (Nat.eq_dec s t) as [<-|Ne].
    + lia.
    + specialize (Cn t (I t Ht)). lia.
Qed.

(* ---- how to read [released h h2 (F ++ dead_fp m h R) R] ---- *)
Lemma released_reading : forall m h h2 F R,
    released h h2 (F ++ dead_fp m h R) R -> env_ok m h F R ->
    (* every cell of the object (pair) is freed *)
    (forall x, In x F -> is_freed h2 x) /\
    (* a shared object whose last holder it was is freed, with all its cells *)
    (forall s, In s R -> N.of_nat (cnt R s) = rc_of h s -> forall x, In x (fp m h s) -> is_freed h2 x) /\
    (* a shared object with an outside holder is intact and has its count back *)
    (forall s, In s R -> (N.of_nat (cnt R s) < rc_of h s)%N ->
               closed_obj m h2 s /\ fp m h2 s = fp m h s /\ abs_obj m h2 s = abs_obj m h s /\
               rc_of h2 s = (rc_of h s - N.of_nat (cnt R s))%N) /\
    (* nothing else changed *)
    (forall x, ~ In x F -> ~ In x (shared_fp m h R) -> nth_error h2 x = nth_error h x).
Proof.
  intros m h h2 F R Rel E. pose proof Rel as (Len & Fr & Ot). pose proof E as (C & (ND & D1 & D2) & Cn).
  split; [|split; [|split]].
  - intros x Hx. apply Fr. apply in_or_app; auto.
  - intros s Hs Hc x Hx. apply Fr. apply in_or_app. right. unfold dead_fp. apply in_flat_map.
    exists s. split; [|assumption]. unfold dead. apply filter_In. split; [assumption|].
    apply N.eqb_eq; assumption.
  - intros s Hs Hc.
    destruct (env_survives m h h2 F R [] [s] Rel (env_ok_extra m h F R s E Hs Hc)) as (_ & B & _ & _).
    destruct (B s (or_introl eq_refl)) as (_ & _ & C2 & EF & EA & Rc). auto.
  - intros x Nf Ns. rewrite Ot.
    + assert (Z : cnt R x = 0).
      { apply cnt_not_in. intro Hr. apply Ns. unfold shared_fp. apply in_flat_map. exists x.
        split; [assumption|]. apply closed_in_fp. auto. }
      rewrite Z. apply option_map_sub0.
    + intro Hf. apply in_app_or in Hf. destruct Hf as [Hf|Hf]; [contradiction|].
      apply Ns. unfold dead_fp in Hf. unfold shared_fp. apply in_flat_map in Hf.
      destruct Hf as (t & Ht & Hx). apply in_flat_map. exists t. split; [|assumption].
      unfold dead in Ht. apply filter_In in Ht. tauto.
Qed.

Section PairG.
  Variable HK : kind -> hook.
  Hypothesis HKok : hooks_ok HK = true.
  Variable m : nat.

  (* ---- the copy establishes the general invariant ---- *)
  Theorem copy_establishes_g : forall n fuel h o k,
      n <= fuel -> obj_inv m n h o k ->
      exists h',
        sqfs_copy HK fuel h o = Ok (h', Some (length h)) /\
        grown (length h) (all_refs n h o) h h' /\
        subfacts n h h' o (length h) k (length h) (length h') /\
        pair_inv_g m n h' o (length h) k /\
        fp n h' o = fp n h o /\ all_refs n h' o = all_refs n h o /\ abs_obj n h' o = abs_obj n h o /\
        rc_of h' o = rc_of h o /\
        (forall s, In s (all_refs n h o) ->
                   fp m h' s = fp m h s /\ abs_obj m h' s = abs_obj m h s /\
                   rc_of h' s = (rc_of h s + N.of_nat (cnt (all_refs n h o) s))%N).
  Proof.
    intros n fuel h o k Hfuel (W & E). pose proof E as (C & (ND & D1 & D2) & Cn).
    assert (Sep : sep_obj n h o).
    { split; [assumption|]. intros s Hs. apply (D1 s s Hs). apply closed_in_fp. auto. }
    destruct (copy_ok HK (hooks_ok_copy HK HKok) n fuel Hfuel h o k W Sep) as (h' & Ec & G & SF).
    exists h'. split; [assumption|]. split; [assumption|]. split; [assumption|].
    pose proof G as (G1 & _ & G3). pose proof SF as (Wc' & Rc' & In' & ND' & AR' & AB').
    assert (Lt : forall x, In x (fp n h o) -> x < length h) by (intros; eapply wf_fp_lt; eauto).
    assert (Ag : forall x, In x (fp n h o) -> nth_error h' x = nth_error h x).
    { intros x Hx. rewrite G3 by auto. rewrite (env_F_cnt0 _ _ _ _ x E Hx). apply option_map_add0. }
    assert (B : forall s, In s (all_refs n h o) ->
                          closed_obj m h' s /\ fp m h' s = fp m h s /\ abs_obj m h' s = abs_obj m h s /\
                          rc_of h' s = (rc_of h s + N.of_nat (cnt (all_refs n h o) s))%N).
    { intros s Hs. pose proof (C s Hs) as Cs.
      assert (S1 : nth_error h' s = option_map (add_rc (cnt (all_refs n h o) s)) (nth_error h s)).
      { apply G3. eapply closed_lt; [exact Cs|]. apply closed_in_fp; assumption. }
      destruct (closed_hdr_change m h h' s Cs) as (C1 & EF & EA).
      { intros k0 rc fs. eapply hdr_of_add; eauto. }
      { intros x Hx Ne. rewrite G3 by (eapply closed_lt; eauto).
        rewrite (env_fp_cnt0 _ _ _ _ s x E Hs Hx Ne). apply option_map_add0. }
      split; [assumption|]. split; [assumption|]. split; [assumption|].
      apply rc_of_add; [assumption|]. eapply closed_shared_ok; eauto. }
    assert (Sh' : forall s, In s (all_refs n h o) -> shared_ok h' s).
    { intros s Hs. destruct (B s Hs) as (C1 & _). eapply closed_shared_ok; eauto. }
    assert (EF : fp n h' o = fp n h o) by (apply fp_frame; assumption).
    assert (ER : all_refs n h' o = all_refs n h o) by (apply all_refs_frame; assumption).
    split; [|split; [assumption|split; [assumption|split; [apply abs_frame; assumption|split]]]].
    - split; [eapply wf_frame; eauto|]. split; [assumption|].
      rewrite EF, ER, AR'.
      assert (I : forall s, In s (all_refs n h o ++ all_refs n h o) -> In s (all_refs n h o)).
      { intros s Hs. apply in_app_or in Hs. tauto. }
      split; [|split; [split; [|split]|]].
      + intros s Hs. apply (B s (I s Hs)).
      + apply NoDup_app_intro; auto. intros x Hx Hy. specialize (Lt x Hx). specialize (In' x Hy). lia.
      + intros s x Hs Hx Hf. destruct (B s (I s Hs)) as (_ & EFs & _). rewrite EFs in Hx.
        apply in_app_or in Hf. destruct Hf as [Hf|Hf].
        * apply (D1 s x (I s Hs) Hx Hf).
        * pose proof (closed_lt m h s x (C s (I s Hs)) Hx). specialize (In' x Hf). lia.
      + intros s t x Hs Ht Ne Hx. destruct (B s (I s Hs)) as (_ & EFs & _).
        destruct (B t (I t Ht)) as (_ & EFt & _). rewrite EFs in Hx. rewrite EFt.
        apply (D2 s t x); auto.
      + intros s Hs. destruct (B s (I s Hs)) as (_ & _ & _ & Rc). rewrite Rc. rewrite cnt_app.
        specialize (Cn s (I s Hs)). lia.
    - apply rc_same. apply Ag. eapply wf_in_fp; eauto.
    - intros s Hs. destruct (B s Hs) as (_ & X1 & X2 & X3). auto.
  Qed.
End PairG.

Section ReleaseG.
  Variable m : nat.

  (* dropping the first of the two leaves the second exactly as it was, its shared
     objects alive *)
  Lemma drop_first_g : forall n fuel h o c k,
      n + m + 1 <= fuel -> pair_inv_g m n h o c k -> (rc_of h o <= 1)%N ->
      exists h1,
        sqfs_drop DK fuel h o = Ok h1 /\
        released h h1 (fp n h o ++ dead_fp m h (all_refs n h o)) (all_refs n h o) /\
        obj_inv m n h1 c k /\
        rc_of h1 c = rc_of h c /\
        fp n h1 c = fp n h c /\ all_refs n h1 c = all_refs n h c /\
        abs_obj n h1 c = abs_obj n h c /\
        (forall s, In s (all_refs n h c) ->
                   closed_obj m h1 s /\ fp m h1 s = fp m h s /\ abs_obj m h1 s = abs_obj m h s /\
                   rc_of h1 s = (rc_of h s - N.of_nat (cnt (all_refs n h o) s))%N) /\
        (forall x, In x (dead_fp m h (all_refs n h o)) \/ In x (dead_fp m h1 (all_refs n h c))
                   <-> In x (dead_fp m h (all_refs n h o ++ all_refs n h c))).
  Proof.
    intros n fuel h o c k Hfuel (W1 & W2 & E) Hrc.
    destruct (drop_ok_g DK DK_ok m n fuel Hfuel h o k W1 (env_ok_app_l _ _ _ _ _ _ E) Hrc) as (h1 & Ed & Rel).
    exists h1. split; [assumption|]. split; [assumption|].
    destruct (env_survives m h h1 _ _ _ _ Rel E) as (A & B & E2 & Dd).
    assert (Sh : forall s, In s (all_refs n h c) -> shared_ok h1 s).
    { intros s Hs. destruct (B s Hs) as (_ & _ & C1 & _). eapply closed_shared_ok; eauto. }
    assert (EF : fp n h1 c = fp n h c) by (apply fp_frame; assumption).
    assert (ER : all_refs n h1 c = all_refs n h c) by (apply all_refs_frame; assumption).
    split; [split; [eapply wf_frame; eauto|rewrite EF, ER; assumption]|].
    split; [apply rc_same; apply A; eapply wf_in_fp; eauto|].
    split; [assumption|]. split; [assumption|]. split; [apply abs_frame; assumption|].
    split; [|assumption].
    intros s Hs. destruct (B s Hs) as (_ & _ & X1 & X2 & X3 & X4). auto.
  Qed.

  Theorem release_both_g : forall n fuel h o c k,
      n + m + 1 <= fuel -> pair_inv_g m n h o c k -> (rc_of h o <= 1)%N -> (rc_of h c <= 1)%N ->
      exists h1 h2,
        sqfs_drop DK fuel h o = Ok h1 /\ sqfs_drop DK fuel h1 c = Ok h2 /\
        released h h2 ((fp n h o ++ fp n h c) ++ dead_fp m h (all_refs n h o ++ all_refs n h c))
                 (all_refs n h o ++ all_refs n h c).
  Proof.
    intros n fuel h o c k Hfuel P R1 R2.
    destruct (drop_first_g n fuel h o c k Hfuel P R1)
      as (h1 & E1 & Rel1 & (W & E) & Rc & EF & ER & _ & _ & Dd).
    destruct (drop_ok_g DK DK_ok m n fuel Hfuel h1 c k W E) as (h2 & E2 & Rel2); [rewrite Rc; assumption|].
    exists h1, h2. split; [assumption|]. split; [assumption|].
    rewrite EF, ER in Rel2.
    eapply released_equiv; [| |eapply released_trans; [exact Rel1|exact Rel2]].
    - intros x. rewrite !in_app_iff. pose proof (Dd x). tauto.
    - reflexivity.
  Qed.

  (* both orders are safe and end in the same heap *)
  Theorem release_either_order_g : forall n fuel h o c k,
      n + m + 1 <= fuel -> pair_inv_g m n h o c k -> (rc_of h o <= 1)%N -> (rc_of h c <= 1)%N ->
      exists h1 h2 h1' h2',
        sqfs_drop DK fuel h o = Ok h1 /\ sqfs_drop DK fuel h1 c = Ok h2 /\
        sqfs_drop DK fuel h c = Ok h1' /\ sqfs_drop DK fuel h1' o = Ok h2' /\
        h2' = h2 /\
        released h h2 ((fp n h o ++ fp n h c) ++ dead_fp m h (all_refs n h o ++ all_refs n h c))
                 (all_refs n h o ++ all_refs n h c).
  Proof.
    intros n fuel h o c k Hfuel P R1 R2.
    destruct (release_both_g n fuel h o c k Hfuel P R1 R2) as (h1 & h2 & E1 & E2 & Rel).
    destruct (release_both_g n fuel h c o k Hfuel (pair_sym_g _ _ _ _ _ _ P) R2 R1)
      as (h1' & h2' & E1' & E2' & Rel').
    exists h1, h2, h1', h2'. repeat (split; [assumption|]). split; [|assumption].
    assert (Rel'' : released h h2' ((fp n h o ++ fp n h c) ++ dead_fp m h (all_refs n h o ++ all_refs n h c))
                             (all_refs n h o ++ all_refs n h c)).
    { eapply released_equiv; [| |exact Rel'].
      - intros x. rewrite !in_app_iff. split.
        + intros [[H|H]|H]; auto. right.
          eapply dead_fp_equiv; [| |exact H]; intros y; [rewrite !in_app_iff; tauto|rewrite !cnt_app; lia].
        + intros [[H|H]|H]; auto. right.
          eapply dead_fp_equiv; [| |exact H]; intros y; [rewrite !in_app_iff; tauto|rewrite !cnt_app; lia].
      - intros x. rewrite !cnt_app. lia. }
    destruct Rel as (L1 & A1 & B1). destruct Rel'' as (L2 & A2 & B2).
    apply heap_ext. intros x.
    destruct (in_dec Nat.eq_dec x ((fp n h o ++ fp n h c) ++ dead_fp m h (all_refs n h o ++ all_refs n h c)))
      as [I|N].
    - rewrite A1, A2 by assumption. reflexivity.
    - rewrite B1, B2 by assumption. reflexivity.
  Qed.
End ReleaseG.
