(* C04 — model of lib/tar/src/iterator.c: is_sparse_region, the file stream
   handed out by the tar iterator (strm_get_buffered_data / strm_advance_buffer),
   it_next (record_size / padding accounting, canonicalize_name, entry
   construction), and of the main loops of bin/sqfs2tar/src/sqfs2tar.c
   (write_entry incl. the xattr list reversal / write_file_data /
   terminate_archive) and
   bin/tar2sqfs/src/process_tarball.c (mtime clamp, --root-becomes).
   Definitions only. *)
From Coq Require Import List NArith ZArith Bool.
From SqfsV Require Import C04.TarNum C04.TarHdr C18.CanonModel.
Import ListNotations.
Local Open Scope N_scope.

(* ---------- is_sparse_region ---------- *)
(* first loop: an entry whose [offset, offset+count) contains the position *)
Fixpoint find_data (m : list (N * N)) (pos : N) : option N :=
  match m with
  | [] => None
  | (o, c) :: r =>
    if (o <=? pos) && (pos - o <? c) then Some (c - (pos - o)) else find_data r pos
  end.

(* second loop: distance to the nearest entry that starts behind the position *)
Fixpoint next_start (m : list (N * N)) (pos count : N) : N :=
  match m with
  | [] => count
  | (o, _) :: r =>
    next_start r pos (if (pos <? o) && (o - pos <? count) then o - pos else count)
  end.

(* (is hole, count); called with pos < fsize only *)
Definition region (m : list (N * N)) (fsize pos : N) : bool * N :=
  match m with
  | [] => (false, fsize - pos)
  | _ =>
    match find_data m pos with
    | Some c => (false, N.min c (fsize - pos))      (* clipped to the file size: fix F24 *)
    | None => (true, next_start m pos (fsize - pos))
    end
  end.

(* ---------- the file stream ---------- *)
(* One consumer step = get_buffered_data(want) followed by advance_buffer(n),
   1 <= n <= size.  The three numbers of a schedule entry are (want-1,
   chunk-1, take-1): what the consumer asks for, how much the underlying
   stream has buffered, how much the consumer uses.  [data] are the bytes of
   the record not yet consumed. *)
Inductive sres :=
| S_Done (out : list N) (data : list N) (pos : N)   (* end of file reported *)
| S_Corrupt (out : list N)                          (* underlying stream ended: SQFS_ERROR_CORRUPTED *)
| S_More (out : list N) (data : list N) (pos : N).  (* schedule exhausted *)

Definition BUFSZ : N := 4096.   (* sizeof(tar_istream_t.buffer) *)

Fixpoint stream_go (sched : list (N * N * N)) (m : list (N * N)) (fsize pos : N)
         (data out : list N) : sres :=
  if fsize <=? pos then S_Done out data pos
  else
    let '(hole, diff) := region m fsize pos in
    if diff =? 0 then S_Done out data pos
    else
      match sched with
      | [] => S_More out data pos
      | (w, ch, tk) :: sched' =>
        let diff := N.min diff (w + 1) in
        if hole then
          let size := N.min diff BUFSZ in
          let n := N.min (tk + 1) size in
          stream_go sched' m fsize (pos + n) data (out ++ repeat 0 (N.to_nat n))
        else
          match data with
          | [] => S_Corrupt out
          | _ =>
            let avail := N.min (ch + 1) (N.of_nat (length data)) in
            let size := N.min avail diff in
            let n := N.to_nat (N.min (tk + 1) size) in
            stream_go sched' m fsize (pos + N.of_nat n) (skipn n data) (out ++ firstn n data)
          end
      end.

(* the greedy consumer (what sqfs_istream_splice does on a fully buffered
   stream) *)
Definition greedy (n : nat) : list (N * N * N) := repeat (two64, two64, two64) n.

(* ---------- specification of hole expansion ---------- *)
(* map sorted, non-overlapping, inside the file *)
Fixpoint wf_map (pos : N) (m : list (N * N)) (fsize : N) : Prop :=
  match m with
  | [] => pos <= fsize
  | (o, c) :: r => pos <= o /\ wf_map (o + c) r fsize
  end.

Fixpoint map_bytes (m : list (N * N)) : N :=
  match m with [] => 0 | (_, c) :: r => c + map_bytes r end.

Fixpoint expand (pos : N) (m : list (N * N)) (data : list N) (fsize : N) : list N :=
  match m with
  | [] => repeat 0 (N.to_nat (fsize - pos))
  | (o, c) :: r =>
    repeat 0 (N.to_nat (o - pos)) ++ firstn (N.to_nat c) data ++
    expand (o + c) r (skipn (N.to_nat c) data) fsize
  end.

(* ---------- archive level ---------- *)
Record tentry := mkte {
  te_e : entry;
  te_target : option (list N);
  te_xattr : list xattr;
  te_data : list N
}.

Definition is_reg (m : N) : bool := ftype m =? S_IFREG.

(* sqfs2tar's write_entry, header part.  [te_xattr t] is the xattr list in the
   order the image stores it (what it->read_xattr returns).  The tar reader
   builds its list back to front, so write_entry reverses the list before it
   hands it to write_tar_header (fix F23): records [b,a] read back as [a,b]. *)
Definition write_entry_hdr (t : tentry) (counter : N) : wres :=
  write_tar_header (te_e t) (te_target t) (rev (te_xattr t)) counter.

(* the unrepaired write_entry handed the image's list over as it was *)
Definition write_entry_hdr_old (t : tentry) (counter : N) : wres :=
  write_tar_header (te_e t) (te_target t) (te_xattr t) counter.

(* sqfs2tar: write_entry for every entry, skipping what tar cannot express *)
Fixpoint write_entries (es : list tentry) (counter : N) : list N :=
  match es with
  | [] => []
  | t :: r =>
    match write_entry_hdr t counter with
    | W_Unsupported => write_entries r (counter + 1)
    | W_Ok b =>
      b ++ (if is_reg (e_mode (te_e t)) && negb (e_hardlink (te_e t))
            then te_data t ++ padding (e_size (te_e t)) else [])
        ++ write_entries r (counter + 1)
    end
  end.

Definition write_archive (es : list tentry) : list N := write_entries es 0 ++ zeros 1024.

(* the same loop around the unrepaired write_entry (refutation witness only) *)
Fixpoint write_entries_old (es : list tentry) (counter : N) : list N :=
  match es with
  | [] => []
  | t :: r =>
    match write_entry_hdr_old t counter with
    | W_Unsupported => write_entries_old r (counter + 1)
    | W_Ok b =>
      b ++ (if is_reg (e_mode (te_e t)) && negb (e_hardlink (te_e t))
            then te_data t ++ padding (e_size (te_e t)) else [])
        ++ write_entries_old r (counter + 1)
    end
  end.

Definition write_archive_old (es : list tentry) : list N := write_entries_old es 0 ++ zeros 1024.

Inductive ra_res :=
| RA_Ok (es : list tentry)
| RA_Err
| RA_Crash        (* NULL name handed to canonicalize_name *)
| RA_Fuel.

Definition entry_of (d : dec_hdr) (name : list N) : entry :=
  let mode := if d_hl d then S_IFLNK + 511 else d_mode d in
  mkentry name mode (d_uid d) (d_gid d) (if is_reg mode then d_actual d else 0)
          (d_mtime d) (d_dev d) (d_hl d).

(* it_next + the consumer reading a regular file to its end *)
Fixpoint read_entries (fuel : nat) (s : list N) : ra_res :=
  match fuel with
  | O => RA_Fuel
  | S f =>
    match read_header s with
    | RH_Eof => RA_Ok []
    | RH_Err => RA_Err
    | RH_Fuel => RA_Fuel
    | RH_Ok d rest =>
      let rs := d_record d in
      let skip_rest (consumed : N) :=
          skipn (round_pad rs) (skipN ((rs + two64 - consumed) mod two64) (skipN consumed rest)) in
      if d_unknown d then read_entries f (skip_rest 0)
      else
        match d_name d with
        | None => RA_Crash
        | Some nm =>
          match canon_model nm with
          | CanonOk name =>
            let e := entry_of d name in
            let cont (data : list N) (consumed : N) :=
                match read_entries f (skip_rest consumed) with
                | RA_Ok es => RA_Ok (mkte e (d_link d) (d_xattr d) data :: es)
                | x => x
                end in
            if is_reg (e_mode e) then
              match stream_go (greedy (2 * length (d_sparse d) + 2 +
                                       N.to_nat (N.min (d_actual d / BUFSZ) 256)))
                              (d_sparse d) (d_actual d) 0 rest [] with
              | S_Done out data' _ =>
                cont out (N.of_nat (length rest) - N.of_nat (length data'))
              | S_Corrupt _ => RA_Err
              | S_More _ _ _ => RA_Fuel     (* hole larger than the model is willing to expand *)
              end
            else cont [] 0
          | _ => RA_Err
          end
        end
    end
  end.

Definition read_archive (s : list N) : ra_res := read_entries (S (length s)) s.

(* ---------- tar2sqfs: process_tarball's per-entry transformation ---------- *)
Definition clamp_mtime (t : Z) : Z :=
  if (t <? 0)%Z then 0%Z else if (4294967295 <? t)%Z then 4294967295%Z else t.

(* ---------- the order in which the image keeps the xattrs of an inode ----------
   lib/sqfs/src/xattr/xattr_writer_record.c: every key string gets an index in a
   string table at its first appearance (sqfs_xattr_writer_add_kv, called by
   tar2sqfs' copy_xattr for the decoded list front to back, entry after entry in
   archive order); sqfs_xattr_writer_end sorts the pairs of the inode by
   (key index, value index).  For pairwise different keys (the writer merges
   pairs with equal keys; an image never holds two) that is: the keys some
   earlier entry already used first, in table order, then the new keys in list
   order.  [tbl] is the string table. *)
Definition key_mem (tbl : list (list N)) (k : list N) : bool := existsb (list_eqb k) tbl.

Fixpoint key_pos (tbl : list (list N)) (k : list N) : nat :=
  match tbl with
  | [] => O
  | x :: r => if list_eqb x k then O else S (key_pos r k)
  end.

Fixpoint xins (tbl : list (list N)) (x : xattr) (l : list xattr) : list xattr :=
  match l with
  | [] => [x]
  | y :: r => if Nat.leb (key_pos tbl (fst x)) (key_pos tbl (fst y)) then x :: l else y :: xins tbl x r
  end.

Definition xsort (tbl : list (list N)) (l : list xattr) : list xattr := fold_right (xins tbl) [] l.

Definition store_xattrs (tbl : list (list N)) (xs : list xattr) : list (list N) * list xattr :=
  let old := filter (fun x => key_mem tbl (fst x)) xs in
  let nw := filter (fun x => negb (key_mem tbl (fst x))) xs in
  (tbl ++ map fst nw, xsort tbl old ++ nw).

(* One entry on its way tar iterator -> tar2sqfs -> image -> sqfs2tar's
   iterator, i.e. what sqfs2tar's write_entry is handed for an entry the tar
   iterator delivered: the time stamp is clamped to 32 bit (process_tarball),
   a directory gets its trailing '/' back (bin/sqfs2tar/src/iterator.c), link
   target and file contents are kept, the xattrs are [xs] (the order the
   xattr writer gives them, see reimage_all).  The tree building in between
   (fstree, image codec) is not modelled: that this is what the tools do is
   checked by the tool-level oracle. *)
Definition is_dir (m : N) : bool := ftype m =? S_IFDIR.

Definition reimage (t : tentry) (xs : list xattr) : tentry :=
  let e := te_e t in
  mkte (mkentry (if is_dir (e_mode e) then e_name e ++ [47] else e_name e)
                (e_mode e) (e_uid e) (e_gid e) (e_size e) (clamp_mtime (e_mtime e))
                (e_rdev e) (e_hardlink e))
       (te_target t) xs (te_data t).

(* tar2sqfs over the entries the tar iterator delivers, in archive order *)
Fixpoint reimage_all (tbl : list (list N)) (vs : list tentry) : list tentry :=
  match vs with
  | [] => []
  | v :: r =>
    let st := store_xattrs tbl (te_xattr v) in
    reimage v (snd st) :: reimage_all (fst st) r
  end.

(* one conversion round at archive level: sqfs2tar writes the entries of an
   image, tar2sqfs reads the archive into a new image *)
Definition convert (es : list tentry) : ra_res :=
  match read_archive (write_archive es) with
  | RA_Ok vs => RA_Ok (reimage_all [] vs)
  | x => x
  end.

(* the same with the unrepaired sqfs2tar *)
Definition convert_old (es : list tentry) : ra_res :=
  match read_archive (write_archive_old es) with
  | RA_Ok vs => RA_Ok (reimage_all [] vs)
  | x => x
  end.

(* --root-becomes <root>: None = entry dropped; Some (is_root, name, link) *)
Definition strip_root (root name : list N) : option (bool * list N) :=
  if is_prefix root name then
    match skipn (length root) name with
    | [] => Some (true, name)
    | x :: r => if x =? 47 then Some (false, r) else None
    end
  else None.

(* link retargeting after fix F21: a canonicalised copy decides, the target
   itself is only replaced when it lies below the new root *)
Definition retarget (root link : list N) : list N :=
  match canon_model link with
  | CanonOk c =>
    if is_prefix root c then
      match skipn (length root) c with
      | x :: r => if x =? 47 then x :: r else link
      | [] => link
      end
    else link
  | _ => link
  end.

(* the behaviour of the unpatched code, kept for the refutation witness: the
   target is canonicalised in place and the result kept even on failure *)
Definition retarget_old (root link : list N) : list N :=
  match canon_model link with
  | CanonOk c =>
    if is_prefix root c then
      match skipn (length root) c with
      | x :: r => if x =? 47 then x :: r else c
      | [] => c
      end
    else c
  | CanonFail buf => buf
  | CanonFuel => link
  end.
