(* Header round trip: read_header (write_tar_header e ...) = the entry. *)
From Coq Require Import List NArith ZArith Bool Lia.
From SqfsV Require Import C04.TarNum C04.TarNumProofs C04.TarHdr.
Import ListNotations.
Local Open Scope N_scope.

(* ================= list helpers ================= *)
Lemma firstn_app_exact {A} n (a b : list A) : length a = n -> firstn n (a ++ b) = a.
Proof.
  intro H. subst n. rewrite firstn_app, Nat.sub_diag, firstn_all. simpl. apply app_nil_r.
Qed.

Lemma skipn_app_exact {A} n (a b : list A) : length a = n -> skipn n (a ++ b) = b.
Proof.
  intro H. subst n. rewrite skipn_app, Nat.sub_diag, skipn_all. reflexivity.
Qed.

Lemma take_app n (a b : list N) : length a = n -> take n (a ++ b) = (a, b).
Proof. intro H. unfold take. rewrite firstn_app_exact, skipn_app_exact by exact H. reflexivity. Qed.

Lemma In_firstn {A} n : forall (l : list A) x, In x (firstn n l) -> In x l.
Proof.
  induction n as [|n IH]; intros l x H; [contradiction|].
  destruct l as [|a l]; [contradiction|]. cbn [firstn] in H. destruct H as [->|H]; [left; reflexivity|].
  right. apply IH. exact H.
Qed.

Lemma zeros_length n : length (zeros n) = n.
Proof. apply repeat_length. Qed.

Lemma pad_length n s : length (pad n s) = n.
Proof.
  unfold pad. rewrite app_length, zeros_length.
  pose proof (firstn_le_length n s). lia.
Qed.

Definition no_nul (s : list N) : Prop := ~ In 0 s.

Lemma cstr_app_nul s r : no_nul s -> cstr (s ++ 0 :: r) = s.
Proof.
  induction s as [|c s IH]; intro H; cbn [app cstr].
  - reflexivity.
  - destruct (c =? 0) eqn:E.
    + apply N.eqb_eq in E. exfalso. apply H. left. exact E.
    + f_equal. apply IH. intro Hin. apply H. right. exact Hin.
Qed.

Lemma cstr_no_nul s : no_nul s -> cstr s = s.
Proof.
  induction s as [|c s IH]; intro H; cbn [cstr]; [reflexivity|].
  destruct (c =? 0) eqn:E.
  - apply N.eqb_eq in E. exfalso. apply H. left. exact E.
  - f_equal. apply IH. intro Hin. apply H. right. exact Hin.
Qed.

Lemma cstr_zeros n : cstr (zeros n) = [].
Proof. destruct n; reflexivity. Qed.

(* a C string shorter than its field reads back *)
Lemma cstr_pad n s : no_nul s -> (length s <= n)%nat -> cstr (pad n s) = s.
Proof.
  intros Hn Hl. unfold pad. rewrite firstn_all2 by exact Hl.
  destruct (n - length s)%nat eqn:E.
  - simpl. rewrite app_nil_r. apply cstr_no_nul. exact Hn.
  - cbn [zeros repeat]. apply cstr_app_nul. exact Hn.
Qed.

Lemma all_zero_app a b : all_zero (a ++ b) = all_zero a && all_zero b.
Proof. induction a as [|c a IH]; cbn [app all_zero]; [reflexivity|]. rewrite IH. apply andb_assoc. Qed.

Lemma all_zero_In l x : In x l -> x <> 0 -> all_zero l = false.
Proof.
  induction l as [|c l IH]; intros Hin Hx; [contradiction|]. cbn [all_zero].
  destruct Hin as [->|Hin].
  - apply N.eqb_neq in Hx. rewrite Hx. reflexivity.
  - rewrite (IH Hin Hx). apply andb_false_r.
Qed.

Lemma list_eqb_refl l : list_eqb l l = true.
Proof. induction l; cbn [list_eqb]; [reflexivity|]. rewrite N.eqb_refl. exact IHl. Qed.

Lemma Forall_pad n s : Forall byte_ok s -> Forall byte_ok (pad n s).
Proof.
  intro H. unfold pad. apply Forall_app; split.
  - apply Forall_forall. intros x Hx. apply In_firstn in Hx. rewrite Forall_forall in H. auto.
  - unfold zeros. apply Forall_forall. intros x Hx. apply repeat_spec in Hx. subst. unfold byte_ok. lia.
Qed.

Lemma Forall_zeros n : Forall byte_ok (zeros n).
Proof. apply Forall_forall. intros x Hx. apply repeat_spec in Hx. subst. unfold byte_ok. lia. Qed.

Lemma sum_zeros n : sum (zeros n) = 0.
Proof. induction n; cbn [zeros repeat sum]; [reflexivity|]. fold (zeros n). rewrite IHn. reflexivity. Qed.

(* ================= decimal numbers ================= *)
Lemma dec_digits_length k v : length (dec_digits k v) = k.
Proof. induction k; cbn [dec_digits length]; congruence. Qed.

Lemma dec_length v : length (dec v) = ndigits v.
Proof. apply dec_digits_length. Qed.

Lemma ndig_go_bounds f v : (1 <= ndig_go f v <= S f)%nat.
Proof.
  revert v; induction f as [|f IH]; intro v; cbn [ndig_go]; [lia|].
  destruct (v <? 10); [lia|]. specialize (IH (v / 10)). lia.
Qed.

Lemma ndigits_bounds v : (1 <= ndigits v <= 21)%nat.
Proof. apply ndig_go_bounds. Qed.

Lemma dec_digit_range k v : 48 <= 48 + (v / 10 ^ N.of_nat k) mod 10 <= 57.
Proof.
  assert (Hm : (v / 10 ^ N.of_nat k) mod 10 < 10) by (apply N.mod_lt; discriminate).
  revert Hm. generalize ((v / 10 ^ N.of_nat k) mod 10). intros n Hm. lia.
Qed.

Lemma dec_digits_all k v : Forall (fun c => 48 <= c <= 57) (dec_digits k v).
Proof. induction k; cbn [dec_digits]; constructor; [apply dec_digit_range|assumption]. Qed.

Lemma dec_all v : Forall (fun c => 48 <= c <= 57) (dec v).
Proof. apply dec_digits_all. Qed.

Lemma dec_bytes v : Forall byte_ok (dec v).
Proof. eapply Forall_impl; [|apply dec_all]. unfold byte_ok. intros; cbv beta in *; lia. Qed.

Lemma dec_no_nul v : no_nul (dec v).
Proof.
  intro H. pose proof (dec_all v) as Ha. rewrite Forall_forall in Ha. specialize (Ha _ H). cbv beta in Ha. lia.
Qed.

Lemma Forall_digits_no x l : Forall (fun c => 48 <= c <= 57) l -> (x < 48 \/ 57 < x) -> ~ In x l.
Proof. intros Ha Hx Hin. rewrite Forall_forall in Ha. specialize (Ha _ Hin). cbv beta in Ha. lia. Qed.

(* v < 10 ^ ndigits v, as long as 21 digits are enough *)
Lemma ndig_go_upper f : forall v, v < 10 ^ N.of_nat (S f) -> v < 10 ^ N.of_nat (ndig_go f v).
Proof.
  induction f as [|f IH]; intros v H; cbn [ndig_go].
  - exact H.
  - destruct (v <? 10) eqn:E.
    + apply N.ltb_lt in E. exact E.
    + apply N.ltb_ge in E.
      assert (Hd : v / 10 < 10 ^ N.of_nat (S f)).
      { apply N.div_lt_upper_bound; [discriminate|].
        rewrite (Nat2N.inj_succ (S f)), N.pow_succ_r' in H. exact H. }
      specialize (IH _ Hd).
      rewrite Nat2N.inj_succ, N.pow_succ_r'.
      pose proof (N.div_mod v 10). pose proof (N.mod_lt v 10). lia.
Qed.

Lemma ndigits_upper v : v < two64 -> v < 10 ^ N.of_nat (ndigits v).
Proof.
  intro H. apply ndig_go_upper. eapply N.lt_trans; [exact H|]. vm_compute. reflexivity.
Qed.

Lemma ndig_go_mono f : forall v w, v <= w -> (ndig_go f v <= ndig_go f w)%nat.
Proof.
  induction f as [|f IH]; intros v w H; cbn [ndig_go]; [lia|].
  destruct (v <? 10) eqn:E1; destruct (w <? 10) eqn:E2.
  - lia.
  - pose proof (ndig_go_bounds f (w / 10)). lia.
  - apply N.ltb_lt in E2. apply N.ltb_ge in E1. lia.
  - apply le_n_S. apply IH. apply N.div_le_mono; [discriminate|exact H].
Qed.

(* strtol's digit loop over a printed number *)
Lemma digits_go_dec k : forall v acc cnt t,
  (match t with c :: _ => is_digit c = false | [] => True end) ->
  digits_go (dec_digits k v ++ t) acc cnt =
  (acc * 10 ^ N.of_nat k + v mod 10 ^ N.of_nat k, (cnt + k)%nat).
Proof.
  induction k as [|k IH]; intros v acc cnt t Ht.
  - cbn [dec_digits app]. rewrite N.mod_1_r, Nat.add_0_r.
    change (10 ^ N.of_nat 0) with 1. rewrite N.mul_1_r, N.add_0_r.
    destruct t as [|c t]; cbn [digits_go]; [reflexivity|]. rewrite Ht. reflexivity.
  - cbn [dec_digits app digits_go].
    set (d := (v / 10 ^ N.of_nat k) mod 10).
    assert (Hd : d < 10) by (apply N.mod_lt; discriminate).
    assert (Hdig : is_digit (48 + d) = true).
    { unfold is_digit. apply andb_true_intro; split; apply N.leb_le; lia. }
    rewrite Hdig. rewrite IH by exact Ht.
    rewrite Nat2N.inj_succ, (mod_pow_succ 10 v (N.of_nat k)) by lia. fold d.
    rewrite N.pow_succ_r'. f_equal; [|lia].
    replace (48 + d - 48) with d by lia. lia.
Qed.

(* ================= structure of one header block ================= *)
Local Opaque pad zeros.
Definition hdr_pre (name : list N) (mode uid gid size : N) (mtime : Z) : list N :=
  pad 100 name ++ write_number mode 8 ++ write_number uid 8 ++
  write_number gid 8 ++ write_number size 12 ++ write_number_signed mtime 12.

Definition hdr_post (uid gid type : N) (link : list N) (maj min : N) : list N :=
  type :: pad 100 link ++ magic_old ++ version_old ++
  pad 32 (dec uid) ++ pad 32 (dec gid) ++
  write_number maj 8 ++ write_number min 8 ++ zeros 167.

Lemma hdr_bytes_eq name mode uid gid size mtime type link maj min :
  hdr_bytes name mode uid gid size mtime type link maj min =
  hdr_pre name mode uid gid size mtime ++
  chksum_field (sum (hdr_pre name mode uid gid size mtime) + 256 +
                sum (hdr_post uid gid type link maj min)) ++
  hdr_post uid gid type link maj min.
Proof. reflexivity. Qed.

Lemma hdr_pre_length name mode uid gid size mtime :
  length (hdr_pre name mode uid gid size mtime) = 148%nat.
Proof.
  unfold hdr_pre. rewrite !app_length, pad_length.
  rewrite !write_number_length, write_number_signed_length by lia. reflexivity.
Qed.

Lemma hdr_post_length uid gid type link maj min :
  length (hdr_post uid gid type link maj min) = 356%nat.
Proof.
  unfold hdr_post. cbn [length]. rewrite !app_length, !pad_length, zeros_length.
  rewrite !write_number_length by lia. reflexivity.
Qed.

Lemma hdr_pre_bytes name mode uid gid size mtime :
  Forall byte_ok name -> Forall byte_ok (hdr_pre name mode uid gid size mtime).
Proof.
  intro H. unfold hdr_pre. repeat (apply Forall_app; split);
    try apply write_number_bytes; try apply write_number_signed_bytes.
  apply Forall_pad. exact H.
Qed.

Lemma hdr_post_bytes uid gid type link maj min :
  type < 256 -> Forall byte_ok link -> Forall byte_ok (hdr_post uid gid type link maj min).
Proof.
  intros Ht H. unfold hdr_post. constructor; [exact Ht|].
  repeat (apply Forall_app; split); try apply write_number_bytes; try apply Forall_zeros;
    try (apply Forall_pad; first [exact H | apply dec_bytes]).
  - repeat constructor; unfold byte_ok; lia.
  - repeat constructor; unfold byte_ok; lia.
Qed.

Lemma hdr_length name mode uid gid size mtime type link maj min :
  length (hdr_bytes name mode uid gid size mtime type link maj min) = 512%nat.
Proof.
  rewrite hdr_bytes_eq, !app_length, hdr_pre_length, hdr_post_length, chksum_field_length. reflexivity.
Qed.

Lemma hdr_checksum name mode uid gid size mtime type link maj min :
  checksum (hdr_bytes name mode uid gid size mtime type link maj min) =
  sum (hdr_pre name mode uid gid size mtime) + 256 + sum (hdr_post uid gid type link maj min).
Proof.
  rewrite hdr_bytes_eq. unfold checksum.
  rewrite firstn_app_exact by apply hdr_pre_length.
  rewrite app_assoc. rewrite skipn_app_exact.
  - reflexivity.
  - rewrite app_length, hdr_pre_length, chksum_field_length. reflexivity.
Qed.

Lemma hdr_checksum_small name mode uid gid size mtime type link maj min :
  Forall byte_ok name -> Forall byte_ok link -> type < 256 ->
  sum (hdr_pre name mode uid gid size mtime) + 256 + sum (hdr_post uid gid type link maj min) < 262144.
Proof.
  intros Hn Hl Ht.
  pose proof (sum_bound _ (hdr_pre_bytes name mode uid gid size mtime Hn)) as H1.
  pose proof (sum_bound _ (hdr_post_bytes uid gid type link maj min Ht Hl)) as H2.
  rewrite hdr_pre_length in H1. rewrite hdr_post_length in H2.
  change (N.of_nat 148) with 148 in H1. change (N.of_nat 356) with 356 in H2. lia.
Qed.

Lemma parse_raw_hdr name mode uid gid size mtime type link maj min :
  parse_raw (hdr_bytes name mode uid gid size mtime type link maj min) =
  mkraw (pad 100 name) (write_number mode 8) (write_number uid 8) (write_number gid 8)
        (write_number size 12) (write_number_signed mtime 12)
        (chksum_field (sum (hdr_pre name mode uid gid size mtime) + 256 +
                       sum (hdr_post uid gid type link maj min)))
        type (pad 100 link) magic_old version_old (pad 32 (dec uid)) (pad 32 (dec gid))
        (write_number maj 8) (write_number min 8) (zeros 167).
Proof.
  rewrite hdr_bytes_eq.
  set (c := sum (hdr_pre name mode uid gid size mtime) + 256 + sum (hdr_post uid gid type link maj min)).
  unfold parse_raw, hdr_pre, hdr_post. rewrite <- !app_assoc.
  rewrite (take_app 100) by apply pad_length. cbv beta iota.
  rewrite (take_app 8) by (apply write_number_length; lia). cbv beta iota.
  rewrite (take_app 8) by (apply write_number_length; lia). cbv beta iota.
  rewrite (take_app 8) by (apply write_number_length; lia). cbv beta iota.
  rewrite (take_app 12) by (apply write_number_length; lia). cbv beta iota.
  rewrite (take_app 12) by (apply write_number_signed_length; lia). cbv beta iota.
  rewrite (take_app 8) by apply chksum_field_length. cbv beta iota.
  change (type :: pad 100 link ++ ?r) with ([type] ++ pad 100 link ++ r).
  rewrite (take_app 1) by reflexivity. cbv beta iota.
  rewrite (take_app 100) by apply pad_length. cbv beta iota.
  rewrite (take_app 6) by reflexivity. cbv beta iota.
  rewrite (take_app 2) by reflexivity. cbv beta iota.
  rewrite (take_app 32) by apply pad_length. cbv beta iota.
  rewrite (take_app 32) by apply pad_length. cbv beta iota.
  rewrite (take_app 8) by (apply write_number_length; lia). cbv beta iota.
  rewrite (take_app 8) by (apply write_number_length; lia). cbv beta iota.
  reflexivity.
Qed.

Lemma hdr_not_zero name mode uid gid size mtime type link maj min :
  all_zero (hdr_bytes name mode uid gid size mtime type link maj min) = false.
Proof.
  apply (all_zero_In _ 117); [|discriminate].
  rewrite hdr_bytes_eq. apply in_or_app. right. apply in_or_app. right.
  unfold hdr_post. right. apply in_or_app. right. apply in_or_app. left. left. reflexivity.
Qed.

Lemma hdr_version name mode uid gid size mtime type link maj min :
  check_version (parse_raw (hdr_bytes name mode uid gid size mtime type link maj min)) = V_PRE_POSIX.
Proof. rewrite parse_raw_hdr. reflexivity. Qed.

Lemma hdr_checksum_valid name mode uid gid size mtime type link maj min :
  Forall byte_ok name -> Forall byte_ok link -> type < 256 ->
  let h := hdr_bytes name mode uid gid size mtime type link maj min in
  checksum_valid h (parse_raw h) = true.
Proof.
  intros Hn Hl Ht h. unfold h, checksum_valid. rewrite parse_raw_hdr. cbn [h_chksum].
  rewrite read_chksum_field by (apply hdr_checksum_small; assumption).
  rewrite hdr_checksum. apply N.eqb_refl.
Qed.

(* ================= decode_header on a written block ================= *)
Definition only_name_link (fl : list pflag) : Prop :=
  has P_SIZE fl = false /\ has P_UID fl = false /\ has P_GID fl = false /\
  has P_DEV_MAJ fl = false /\ has P_DEV_MIN fl = false /\ has P_MTIME fl = false /\
  has P_SPARSE_1X fl = false.

Definition decode_spec (fl : list pflag) (out : dec_hdr) (name : list N) (mode uid gid size : N)
           (mtime : Z) (type : N) (link : list N) (maj min : N) : dec_hdr :=
  let out := if has P_NAME fl then out else set_name out (Some name) in
  let out := set_record out size in
  let out := set_uid out uid in
  let out := set_gid out gid in
  let out := set_dev out (makedev maj (dev_minor (d_dev out))) in
  let out := set_dev out (makedev (dev_major (d_dev out)) min) in
  let out := set_mtime out mtime in
  let out := set_mode out mode in
  let out := if ((type =? T_LINK) || (type =? T_SLINK)) && negb (has P_SLINK fl)
             then set_link out (Some link) else out in
  let out := set_unknown out false in
  if (type =? 0) || (type =? T_FILE) || (type =? T_GNU_SPARSE) then set_mode out (d_mode out + S_IFREG)
  else if type =? T_LINK then set_hl out true
  else if type =? T_SLINK then set_mode out (S_IFLNK + 511)
  else if type =? T_CHR then set_mode out (d_mode out + S_IFCHR)
  else if type =? T_BLK then set_mode out (d_mode out + S_IFBLK)
  else if type =? T_DIR then set_mode out (d_mode out + S_IFDIR)
  else if type =? T_FIFO then set_mode out (d_mode out + S_IFIFO)
  else set_unknown out true.

Definition mtime_ok (t : Z) : Prop := (- Z.of_N two63 < t < Z.of_N two63)%Z.

Lemma decode_header_hdr fl out name mode uid gid size mtime type link maj min :
  only_name_link fl ->
  no_nul name -> (length name <= 100)%nat -> no_nul link -> (length link <= 100)%nat ->
  mode < 4096 -> uid < lim8 -> gid < lim8 -> size < two64 -> mtime_ok mtime ->
  maj < lim8 -> min < lim8 ->
  decode_header (parse_raw (hdr_bytes name mode uid gid size mtime type link maj min)) fl out V_PRE_POSIX
  = Some (decode_spec fl out name mode uid gid size mtime type link maj min).
Proof.
  intros (F1 & F2 & F3 & F4 & F5 & F6 & F7) Hn Hnl Hl Hll Hmode Huid Hgid Hsize Hmt Hmaj Hmin.
  rewrite parse_raw_hdr. unfold decode_header, decode_spec.
  cbn [h_name h_mode h_uid h_gid h_size h_mtime h_type h_link h_devmajor h_devminor h_tail].
  rewrite F1, F2, F3, F4, F5, F6.
  rewrite (cstr_pad 100 name Hn Hnl), (cstr_pad 100 link Hl Hll).
  rewrite (read_write_number_12 size Hsize).
  rewrite (read_write_number_8 uid Huid), (read_write_number_8 gid Hgid).
  rewrite (read_write_number_8 maj Hmaj), (read_write_number_8 min Hmin).
  destruct (read_write_signed_12 mtime Hmt) as (f & Hf1 & Hf2). rewrite Hf1.
  rewrite (read_write_number_8 mode) by (unfold lim8, two56; lia).
  cbn [obind]. rewrite Hf2.
  rewrite (N.mod_small mode 4096 Hmode).
  reflexivity.
Qed.

(* ================= one iteration of read_header's loop ================= *)
Definition good_block (h : list N) : Prop :=
  length h = 512%nat /\ all_zero h = false /\
  check_version (parse_raw h) = V_PRE_POSIX /\ checksum_valid h (parse_raw h) = true.

Lemma hdr_good name mode uid gid size mtime type link maj min :
  Forall byte_ok name -> Forall byte_ok link -> type < 256 ->
  good_block (hdr_bytes name mode uid gid size mtime type link maj min).
Proof.
  intros. repeat split.
  - apply hdr_length.
  - apply hdr_not_zero.
  - apply hdr_version.
  - apply hdr_checksum_valid; assumption.
Qed.

Ltac rh_start G :=
  destruct G as (GL & GZ & GV & GC);
  cbn [rh_loop];
  rewrite (firstn_app_exact 512) by exact GL;
  rewrite (skipn_app_exact 512) by exact GL;
  rewrite GL; change (Nat.eqb 512 0) with false; change (Nat.ltb 512 512) with false; cbv beta iota;
  rewrite GZ, GV, GC; cbn [negb]; cbv beta iota.

Lemma rh_step_K f h s fl out sz buf s2 :
  good_block h -> h_type (parse_raw h) = T_GNU_SLINK ->
  read_number (h_size (parse_raw h)) = Some sz -> 1 <= sz -> sz <= MAX_LEN ->
  record_to_memory s sz = Some (buf, s2) ->
  rh_loop (S f) (h ++ s) fl out false =
  rh_loop f s2 (P_SLINK :: fl) (set_link out (Some (cstr buf))) false.
Proof.
  intros G Ht Hsz H1 H2 Hr. rh_start G. rewrite Ht. cbn [N.eqb Pos.eqb T_GNU_SLINK].
  change (T_GNU_SLINK =? T_GNU_SLINK) with true. cbv beta iota.
  rewrite Hsz.
  assert (E1 : (sz <? 1) = false) by (apply N.ltb_ge; exact H1).
  assert (E2 : (MAX_LEN <? sz) = false) by (apply N.ltb_ge; exact H2).
  rewrite E1, E2. cbn [orb]. rewrite Hr. reflexivity.
Qed.

Lemma rh_step_L f h s fl out sz buf s2 :
  good_block h -> h_type (parse_raw h) = T_GNU_PATH ->
  read_number (h_size (parse_raw h)) = Some sz -> 1 <= sz -> sz <= MAX_LEN ->
  record_to_memory s sz = Some (buf, s2) ->
  rh_loop (S f) (h ++ s) fl out false =
  rh_loop f s2 (P_NAME :: fl) (set_name out (Some (cstr buf))) false.
Proof.
  intros G Ht Hsz H1 H2 Hr. rh_start G. rewrite Ht.
  change (T_GNU_PATH =? T_GNU_SLINK) with false.
  change (T_GNU_PATH =? T_GNU_PATH) with true. cbv beta iota.
  rewrite Hsz.
  assert (E1 : (sz <? 1) = false) by (apply N.ltb_ge; exact H1).
  assert (E2 : (MAX_LEN <? sz) = false) by (apply N.ltb_ge; exact H2).
  rewrite E1, E2. cbn [orb]. rewrite Hr. reflexivity.
Qed.

Lemma rh_step_X f h s fl out sz fl' out' s2 :
  good_block h -> h_type (parse_raw h) = T_PAX ->
  read_number (h_size (parse_raw h)) = Some sz -> 1 <= sz -> sz <= MAX_LEN ->
  read_pax_header s sz dec0 = Some (fl', out', s2) ->
  rh_loop (S f) (h ++ s) fl out false = rh_loop f s2 fl' out' false.
Proof.
  intros G Ht Hsz H1 H2 Hr. rh_start G. rewrite Ht.
  change (T_PAX =? T_GNU_SLINK) with false. change (T_PAX =? T_GNU_PATH) with false.
  change (T_PAX =? T_PAX_GLOBAL) with false. change (T_PAX =? T_PAX) with true. cbv beta iota.
  rewrite Hsz.
  assert (E1 : (sz <? 1) = false) by (apply N.ltb_ge; exact H1).
  assert (E2 : (MAX_LEN <? sz) = false) by (apply N.ltb_ge; exact H2).
  rewrite E1, E2. cbn [orb]. rewrite Hr. reflexivity.
Qed.

Definition plain_type (t : N) : Prop :=
  t <> T_GNU_SLINK /\ t <> T_GNU_PATH /\ t <> T_PAX_GLOBAL /\ t <> T_PAX /\ t <> T_GNU_SPARSE.

Lemma rh_step_final f h s fl out :
  good_block h -> plain_type (h_type (parse_raw h)) ->
  rh_loop (S f) (h ++ s) fl out false = finish_header h (parse_raw h) V_PRE_POSIX s fl out.
Proof.
  intros G (T1 & T2 & T3 & T4 & T5). rh_start G.
  apply N.eqb_neq in T1, T2, T3, T4, T5. rewrite T1, T2, T3, T4, T5. reflexivity.
Qed.

(* ================= extension records ================= *)
Local Transparent zeros.
Lemma padding_length len : length (padding len) = round_pad len.
Proof.
  unfold padding, round_pad. destruct (len mod 512 =? 0); [reflexivity|]. apply zeros_length.
Qed.
Local Opaque zeros.

Lemma record_to_memory_exact payload s :
  record_to_memory (payload ++ padding (N.of_nat (length payload)) ++ s) (N.of_nat (length payload))
  = Some (payload, s).
Proof.
  unfold record_to_memory.
  assert (E : (N.of_nat (length (payload ++ padding (N.of_nat (length payload)) ++ s)) <?
               N.of_nat (length payload)) = false).
  { apply N.ltb_ge. rewrite app_length. lia. }
  rewrite E. rewrite Nat2N.id.
  rewrite firstn_app_exact, skipn_app_exact by reflexivity.
  rewrite skipn_app_exact by apply padding_length. reflexivity.
Qed.

Lemma write_header_ext orig len nm ty :
  write_header (with_reg_mode orig len) nm None ty =
  hdr_bytes (firstn 99 nm) 420 (e_uid orig) (e_gid orig) len (e_mtime orig) ty [] 0 0.
Proof. reflexivity. Qed.

Lemma In_firstn_Forall {A} (P : A -> Prop) n l : Forall P l -> Forall P (firstn n l).
Proof.
  intro H. apply Forall_forall. intros x Hx. apply In_firstn in Hx. rewrite Forall_forall in H. auto.
Qed.

Lemma ext_hdr_facts orig len nm ty :
  Forall byte_ok nm -> ty < 256 -> len < two64 ->
  let hb := write_header (with_reg_mode orig len) nm None ty in
  good_block hb /\ h_type (parse_raw hb) = ty /\ read_number (h_size (parse_raw hb)) = Some len.
Proof.
  intros Hn Ht Hl hb. unfold hb. rewrite write_header_ext. split; [|split].
  - apply hdr_good; [apply In_firstn_Forall; exact Hn|constructor|exact Ht].
  - rewrite parse_raw_hdr. reflexivity.
  - rewrite parse_raw_hdr. cbn [h_size]. apply read_write_number_12. exact Hl.
Qed.

(* a 'K' record in front of the stream *)
Lemma rh_ext_K f orig payload nm s fl out :
  Forall byte_ok nm -> (1 <= length payload)%nat -> N.of_nat (length payload) <= MAX_LEN ->
  rh_loop (S f) (write_ext_header orig payload T_GNU_SLINK nm ++ s) fl out false =
  rh_loop f s (P_SLINK :: fl) (set_link out (Some (cstr payload))) false.
Proof.
  intros Hn H1 H2. unfold write_ext_header. rewrite <- !app_assoc.
  destruct (ext_hdr_facts orig (N.of_nat (length payload)) nm T_GNU_SLINK Hn) as (G & Ht & Hs).
  - reflexivity.
  - unfold MAX_LEN, two64 in *. lia.
  - eapply rh_step_K; eauto; [lia|]. apply record_to_memory_exact.
Qed.

Lemma rh_ext_L f orig payload nm s fl out :
  Forall byte_ok nm -> (1 <= length payload)%nat -> N.of_nat (length payload) <= MAX_LEN ->
  rh_loop (S f) (write_ext_header orig payload T_GNU_PATH nm ++ s) fl out false =
  rh_loop f s (P_NAME :: fl) (set_name out (Some (cstr payload))) false.
Proof.
  intros Hn H1 H2. unfold write_ext_header. rewrite <- !app_assoc.
  destruct (ext_hdr_facts orig (N.of_nat (length payload)) nm T_GNU_PATH Hn) as (G & Ht & Hs).
  - reflexivity.
  - unfold MAX_LEN, two64 in *. lia.
  - eapply rh_step_L; eauto; [lia|]. apply record_to_memory_exact.
Qed.

(* ================= PAX records written by write_schily_xattr ================= *)
Lemma num_digits_eq n : num_digits n = N.of_nat (ndigits n).
Proof. unfold num_digits. rewrite dec_length. reflexivity. Qed.

Lemma num_digits_mono a b : a <= b -> num_digits a <= num_digits b.
Proof.
  intro H. rewrite !num_digits_eq. apply N2Z.inj_le. rewrite !nat_N_Z. apply Nat2Z.inj_le.
  apply ndig_go_mono. exact H.
Qed.

Lemma num_digits_le21 a : num_digits a <= 21.
Proof. rewrite num_digits_eq. pose proof (ndigits_bounds a). lia. Qed.

Lemma pdl_go_fix fuel : forall len old,
  old <= num_digits (len + old) -> 21 < old + N.of_nat fuel ->
  num_digits (len + pdl_go fuel len old) = pdl_go fuel len old.
Proof.
  induction fuel as [|f IH]; intros len old Hinv Hm.
  - pose proof (num_digits_le21 (len + old)). cbn in Hm. lia.
  - cbn [pdl_go]. destruct (num_digits (len + old) =? old) eqn:E.
    + apply N.eqb_eq in E. rewrite E. exact E.
    + apply N.eqb_neq in E. apply IH.
      * apply num_digits_mono. lia.
      * rewrite Nat2N.inj_succ in Hm. lia.
Qed.

Lemma prefix_digit_len_fix len : num_digits (len + prefix_digit_len len) = prefix_digit_len len.
Proof. apply pdl_go_fix; [lia|reflexivity]. Qed.

Definition rec_len (key value : list N) : N :=
  let len0 := 13 + N.of_nat (length key) + N.of_nat (length value) + 3 in
  len0 + prefix_digit_len len0.

Lemma schily_record_eq key value :
  schily_record (key, value) =
  dec (rec_len key value) ++ [32] ++ str_schily ++ key ++ [61] ++ value ++ [10].
Proof. reflexivity. Qed.

Lemma schily_record_length key value :
  N.of_nat (length (schily_record (key, value))) = rec_len key value.
Proof.
  rewrite schily_record_eq. rewrite !app_length, dec_length.
  change (length [32]) with 1%nat. change (length [61]) with 1%nat. change (length [10]) with 1%nat.
  change (length str_schily) with 13%nat.
  unfold rec_len.
  set (len0 := 13 + N.of_nat (length key) + N.of_nat (length value) + 3).
  pose proof (prefix_digit_len_fix len0) as Hf. rewrite num_digits_eq in Hf.
  rewrite !Nat2N.inj_add. rewrite Hf. unfold len0. lia.
Qed.

Lemma take_key_app k v :
  (forall c, In c k -> c <> 0 /\ c <> 61) -> take_key (k ++ 61 :: v) = (k, 61 :: v).
Proof.
  induction k as [|c k IH]; intro H.
  - reflexivity.
  - cbn [app take_key]. destruct (H c (or_introl eq_refl)) as (H0 & H1).
    apply N.eqb_neq in H0, H1. rewrite H0, H1. cbn [orb].
    rewrite IH; [reflexivity|]. intros x Hx. apply H. right. exact Hx.
Qed.

Definition key_ok (k : list N) : Prop := forall c, In c k -> c <> 0 /\ c <> 61.

Lemma strtol_dec len t :
  len < two64 ->
  strtol (dec len ++ 32 :: t) = (Z.of_N len, ndigits len).
Proof.
  intro Hl. unfold strtol, dec.
  pose proof (ndigits_bounds len) as Hb. destruct (ndigits len) as [|k] eqn:Ek; [lia|].
  cbn [dec_digits app skip_spaces_n].
  set (d := (len / 10 ^ N.of_nat k) mod 10).
  assert (Hd : d < 10) by (apply N.mod_lt; discriminate).
  assert (Hs : is_space (48 + d) = false).
  { unfold is_space. apply orb_false_intro; [apply N.eqb_neq; lia|].
    apply andb_false_intro2. apply N.leb_gt. lia. }
  rewrite Hs.
  assert (E45 : (48 + d =? 45) = false) by (apply N.eqb_neq; lia).
  assert (E43 : (48 + d =? 43) = false) by (apply N.eqb_neq; lia).
  rewrite E45, E43.
  change ((48 + d) :: dec_digits k len ++ 32 :: t) with (dec_digits (S k) len ++ 32 :: t).
  rewrite digits_go_dec by reflexivity.
  rewrite <- Ek. rewrite N.mod_small by (apply ndigits_upper; exact Hl).
  cbn [Nat.add]. rewrite Ek. reflexivity.
Qed.

Lemma nth_app_exact {A} (a : list A) x b d : nth (length a) (a ++ x :: b) d = x.
Proof. rewrite app_nth2 by lia. rewrite Nat.sub_diag. reflexivity. Qed.

Lemma pax_line_schily key value rest :
  key_ok key -> rec_len key value < two64 ->
  pax_line (schily_record (key, value) ++ rest) =
  PL_Ok (str_schily ++ key) value (length (schily_record (key, value))).
Proof.
  intros Hk Hlen.
  pose proof (schily_record_length key value) as HL.
  set (len := rec_len key value) in *.
  set (R := schily_record (key, value)) in *.
  set (body := str_schily ++ key ++ 61 :: value).
  assert (HR : R = dec len ++ 32 :: body ++ [10]).
  { unfold R, body. rewrite schily_record_eq. fold len. cbn [app]. rewrite <- !app_assoc. reflexivity. }
  assert (Hlen_nat : length R = (ndigits len + 1 + length body + 1)%nat).
  { rewrite HR. rewrite app_length, dec_length. cbn [length]. rewrite app_length. cbn [length]. lia. }
  unfold pax_line.
  assert (Hst : strtol (R ++ rest) = (Z.of_N len, ndigits len)).
  { rewrite HR. rewrite <- app_assoc. cbn [app]. apply strtol_dec. exact Hlen. }
  rewrite Hst.
  pose proof (ndigits_bounds len) as Hb. destruct (ndigits len) as [|k] eqn:Ek; [lia|].
  assert (Hnth : nth (S k) (R ++ rest) 0 = 32).
  { rewrite HR, <- app_assoc. cbn [app]. rewrite <- Ek, <- dec_length. apply nth_app_exact. }
  rewrite Hnth. change (is_space 32) with true. cbn [negb orb].
  assert (Hpos : (Z.of_N len <=? 0)%Z = false).
  { apply Z.leb_gt. lia. }
  rewrite Hpos.
  assert (Hfit : (Z.of_nat (length (R ++ rest)) <? Z.of_N len)%Z = false).
  { apply Z.ltb_ge. rewrite app_length. lia. }
  rewrite Hfit.
  assert (Hto : Z.to_nat (Z.of_N len) = length R) by lia.
  rewrite Hto.
  assert (Hline : firstn (length R - 1) (R ++ rest) = dec len ++ 32 :: body).
  { assert (E : R ++ rest = (dec len ++ 32 :: body) ++ 10 :: rest).
    { rewrite HR. rewrite <- !app_assoc. cbn [app]. rewrite <- app_assoc. reflexivity. }
    rewrite E. apply firstn_app_exact.
    rewrite app_length, dec_length. cbn [length]. lia. }
  rewrite Hline.
  assert (Hleb : Nat.leb (length R) (S k) = false) by (apply Nat.leb_gt; lia).
  rewrite Hleb.
  assert (Hsk : skipn (S k) (dec len ++ 32 :: body) = 32 :: body).
  { apply skipn_app_exact. rewrite dec_length. exact Ek. }
  rewrite Hsk. unfold body at 1. cbn [str_schily app skip_spaces_n].
  change (is_space 32) with true. change (is_space 83) with false. cbv beta iota.
  assert (Hsk2 : skipn (S (S k)) (dec len ++ 32 :: body) = body).
  { change (dec len ++ 32 :: body) with (dec len ++ [32] ++ body). rewrite app_assoc.
    apply skipn_app_exact. rewrite app_length, dec_length, Ek. cbn [length]. lia. }
  rewrite Hsk2. unfold body. rewrite app_assoc. rewrite take_key_app.
  - reflexivity.
  - intros c Hc. apply in_app_or in Hc. destruct Hc as [Hc|Hc]; [|apply Hk; exact Hc].
    cbn [str_schily In] in Hc. repeat (destruct Hc as [<-|Hc]; [split; discriminate|]). contradiction.
Qed.

Lemma is_prefix_app a b : is_prefix a (a ++ b) = true.
Proof. induction a; cbn [is_prefix app]; [reflexivity|]. rewrite N.eqb_refl. exact IHa. Qed.

Lemma pax_apply_schily st key value :
  pax_apply st (str_schily ++ key) value =
  Some (ps_set st None (set_xattr (ps_out st) ((key, value) :: d_xattr (ps_out st)))).
Proof.
  unfold pax_apply.
  (* every exact-match key of the table starts with another character than 'S' *)
  cbn [str_schily app s_uid s_gid s_path s_size s_linkpath s_mtime s_gnu_sparse_ list_eqb].
  change (83 =? 117) with false. change (83 =? 103) with false. change (83 =? 112) with false.
  change (83 =? 115) with false. change (83 =? 108) with false. change (83 =? 109) with false.
  change (83 =? 71) with false. cbn [andb]. cbv beta iota.
  change (83 :: 67 :: 72 :: 73 :: 76 :: 89 :: 46 :: 120 :: 97 :: 116 :: 116 :: 114 :: 46 :: key)
    with (s_schily_xattr ++ 46 :: key).
  unfold prefixed. rewrite is_prefix_app.
  rewrite skipn_app_exact by reflexivity. reflexivity.
Qed.

Lemma set_xattr_twice d a b : set_xattr (set_xattr d a) b = set_xattr d b.
Proof. reflexivity. Qed.

Lemma set_xattr_id d : set_xattr d (d_xattr d) = d.
Proof. destruct d; reflexivity. Qed.
Lemma d_xattr_set d v : d_xattr (set_xattr d v) = v.
Proof. reflexivity. Qed.

Definition xattr_ok (x : xattr) : Prop :=
  key_ok (fst x) /\ rec_len (fst x) (snd x) < two64.

Lemma pax_loop_schily xs : forall fuel st,
  Forall xattr_ok xs -> (length xs < fuel)%nat ->
  pax_loop fuel (schily_payload xs) st =
  Some (mkps (ps_fl st) (set_xattr (ps_out st) (rev xs ++ d_xattr (ps_out st))) (ps_off st) (ps_started st)).
Proof.
  induction xs as [|[key value] xs IH]; intros fuel st Hok Hf.
  - destruct fuel; [cbn in Hf; lia|]. cbn [schily_payload map concat pax_loop rev app].
    rewrite set_xattr_id. destruct st; reflexivity.
  - destruct fuel; [cbn in Hf; lia|]. inversion Hok as [|? ? (Hk & Hl) Hok']; subst.
    cbn [fst snd] in Hk, Hl.
    change (schily_payload ((key, value) :: xs)) with (schily_record (key, value) ++ schily_payload xs).
    cbn [pax_loop].
    assert (Hne : schily_record (key, value) ++ schily_payload xs <> []).
    { rewrite schily_record_eq. pose proof (ndigits_bounds (rec_len key value)) as Hb.
      unfold dec. destruct (ndigits (rec_len key value)); [lia|]. cbn [dec_digits app]. discriminate. }
    destruct (schily_record (key, value) ++ schily_payload xs) eqn:El; [contradiction|].
    rewrite <- El. rewrite pax_line_schily by assumption.
    rewrite pax_apply_schily. rewrite skipn_app_exact by reflexivity.
    rewrite IH by (try assumption; cbn [length] in Hf; lia).
    destruct st as [fl out off started]. cbn [ps_set ps_fl ps_out ps_off ps_started].
    rewrite d_xattr_set, set_xattr_twice. cbn [rev]. rewrite <- app_assoc. reflexivity.
Qed.

Lemma schily_payload_length_ge xs : (length xs <= length (schily_payload xs))%nat.
Proof.
  induction xs as [|[k v] xs IH]; [cbn; lia|].
  change (schily_payload ((k, v) :: xs)) with (schily_record (k, v) ++ schily_payload xs).
  rewrite app_length. rewrite schily_record_eq, app_length. cbn [length app].
  pose proof (ndigits_bounds (rec_len k v)). rewrite dec_length. lia.
Qed.

(* the 'x' record in front of the stream: the reader prepends every record, so
   the list it builds is the reverse of the list the writer was given *)
Lemma rh_ext_X f orig xs nm s fl out :
  Forall byte_ok nm -> xs <> [] -> Forall xattr_ok xs ->
  N.of_nat (length (schily_payload xs)) <= MAX_LEN ->
  rh_loop (S f) (write_ext_header orig (schily_payload xs) T_PAX nm ++ s) fl out false =
  rh_loop f s [] (set_xattr dec0 (rev xs)) false.
Proof.
  intros Hn Hne Hok Hmax. unfold write_ext_header. rewrite <- !app_assoc.
  set (payload := schily_payload xs) in *.
  destruct (ext_hdr_facts orig (N.of_nat (length payload)) nm T_PAX Hn) as (G & Ht & Hs).
  - reflexivity.
  - unfold MAX_LEN, two64 in *. lia.
  - eapply rh_step_X; eauto.
    + pose proof (schily_payload_length_ge xs). fold payload in H.
      destruct xs; [contradiction|]. cbn [length] in H. lia.
    + unfold read_pax_header. rewrite record_to_memory_exact.
      unfold payload. rewrite pax_loop_schily; [cbn [ps_out dec0 d_xattr]; rewrite app_nil_r; reflexivity|exact Hok|].
      pose proof (schily_payload_length_ge xs). lia.
Qed.

(* ================= device numbers ================= *)
Lemma makedev_small M m1 m0 : M < 4096 -> m1 < 4096 -> m0 < 256 ->
  makedev M (m1 * 256 + m0) = M * 256 + m1 * 1048576 + m0.
Proof.
  intros HM H1 H0. unfold makedev, two32.
  rewrite (N.mod_small M) by lia. rewrite (N.mod_small (m1 * 256 + m0)) by lia.
  rewrite (N.div_small M 4096) by exact HM. rewrite (N.mod_small M 4096) by exact HM.
  assert (E1 : (m1 * 256 + m0) / 256 = m1).
  { rewrite N.div_add_l by discriminate. rewrite (N.div_small m0 256) by exact H0. lia. }
  assert (E2 : (m1 * 256 + m0) mod 256 = m0).
  { rewrite N.add_comm, N.mod_add by discriminate. apply N.mod_small. exact H0. }
  rewrite E1, E2. change (2 ^ 44) with 17592186044416. change (2 ^ 8) with 256.
  change (2 ^ 20) with 1048576. lia.
Qed.

Lemma dev_major_small M : M < 4096 -> dev_major (M * 256) = M.
Proof.
  intro HM. unfold dev_major.
  rewrite (N.div_small (M * 256) (2 ^ 44)) by (change (2 ^ 44) with 17592186044416; lia).
  change (2 ^ 8) with 256. rewrite N.div_mul by discriminate.
  change (0 mod 2 ^ 20 * 2 ^ 12) with 0. change (2 ^ 12) with 4096.
  rewrite N.mod_small by exact HM. reflexivity.
Qed.

Lemma dev_split d : d < two32 ->
  exists M m1 m0, M < 4096 /\ m1 < 4096 /\ m0 < 256 /\
    d = M * 256 + m1 * 1048576 + m0 /\ dev_major d = M /\ dev_minor d = m1 * 256 + m0.
Proof.
  intro Hd. unfold two32 in Hd.
  exists ((d / 256) mod 4096), (d / 1048576), (d mod 256).
  assert (H0 : d mod 256 < 256) by (apply N.mod_lt; discriminate).
  assert (HM : (d / 256) mod 4096 < 4096) by (apply N.mod_lt; discriminate).
  assert (H1 : d / 1048576 < 4096) by (apply N.div_lt_upper_bound; [discriminate|lia]).
  assert (Ed : d = (d / 256) mod 4096 * 256 + d / 1048576 * 1048576 + d mod 256).
  { pose proof (N.div_mod d 256). pose proof (N.div_mod (d / 256) 4096).
    assert (E : d / 256 / 4096 = d / 1048576) by (rewrite N.div_div by discriminate; reflexivity).
    rewrite E in *. lia. }
  repeat split; try assumption.
  - unfold dev_major. rewrite (N.div_small d (2 ^ 44)) by (change (2 ^ 44) with 17592186044416; lia).
    change (0 mod 2 ^ 20 * 2 ^ 12) with 0. reflexivity.
  - unfold dev_minor. change (2 ^ 20) with 1048576. change (2 ^ 8) with 256.
    rewrite (N.mod_small (d / 1048576)) by (change (2 ^ 24) with 16777216; lia). reflexivity.
Qed.

Lemma int_to_u64_small x : x < 2147483648 -> int_to_u64 x = x.
Proof. intro H. unfold int_to_u64. apply N.ltb_lt in H. rewrite H. reflexivity. Qed.

Lemma dev_rt d : d < two32 ->
  let maj := int_to_u64 (dev_major d) in
  let min := int_to_u64 (dev_minor d) in
  maj < 4096 /\ min < 1048576 /\
  makedev (dev_major (makedev maj (dev_minor 0))) min = d.
Proof.
  intros Hd maj min. destruct (dev_split d Hd) as (M & m1 & m0 & HM & H1 & H0 & Ed & Emaj & Emin).
  unfold maj, min. rewrite Emaj, Emin. rewrite !int_to_u64_small by lia.
  split; [exact HM|]. split; [lia|].
  change (dev_minor 0) with 0.
  replace 0 with (0 * 256 + 0) at 1 by reflexivity.
  rewrite (makedev_small M 0 0) by lia.
  replace (M * 256 + 0 * 1048576 + 0) with (M * 256) by lia.
  rewrite dev_major_small by exact HM. rewrite makedev_small by assumption. lia.
Qed.

(* ================= header round trip ================= *)
Definition rh_any (n : nat) (s : list N) (fl : list pflag) (out : dec_hdr) (r : rh_result) : Prop :=
  forall f, (n <= f)%nat -> rh_loop f s fl out false = r.

Lemma rh_any_weaken n m s fl out r : (n <= m)%nat -> rh_any n s fl out r -> rh_any m s fl out r.
Proof. intros H Ha f Hf. apply Ha. lia. Qed.

Lemma rh_any_K n orig payload nm s fl out r :
  Forall byte_ok nm -> (1 <= length payload)%nat -> N.of_nat (length payload) <= MAX_LEN ->
  rh_any n s (P_SLINK :: fl) (set_link out (Some (cstr payload))) r ->
  rh_any (S n) (write_ext_header orig payload T_GNU_SLINK nm ++ s) fl out r.
Proof. intros ? ? ? H f Hf. destruct f; [lia|]. rewrite rh_ext_K by assumption. apply H. lia. Qed.

Lemma rh_any_L n orig payload nm s fl out r :
  Forall byte_ok nm -> (1 <= length payload)%nat -> N.of_nat (length payload) <= MAX_LEN ->
  rh_any n s (P_NAME :: fl) (set_name out (Some (cstr payload))) r ->
  rh_any (S n) (write_ext_header orig payload T_GNU_PATH nm ++ s) fl out r.
Proof. intros ? ? ? H f Hf. destruct f; [lia|]. rewrite rh_ext_L by assumption. apply H. lia. Qed.

Lemma rh_any_X n orig xs nm s fl out r :
  Forall byte_ok nm -> xs <> [] -> Forall xattr_ok xs ->
  N.of_nat (length (schily_payload xs)) <= MAX_LEN ->
  rh_any n s [] (set_xattr dec0 (rev xs)) r ->
  rh_any (S n) (write_ext_header orig (schily_payload xs) T_PAX nm ++ s) fl out r.
Proof. intros ? ? ? ? H f Hf. destruct f; [lia|]. rewrite rh_ext_X by assumption. apply H. lia. Qed.

Lemma d_sparse_decode_spec fl out name mode uid gid size mtime type link maj min :
  d_sparse (decode_spec fl out name mode uid gid size mtime type link maj min) = d_sparse out.
Proof.
  unfold decode_spec.
  repeat match goal with |- context [if ?c then _ else _] => destruct c end; reflexivity.
Qed.

Lemma rh_any_final name mode uid gid size mtime type link maj min s fl out :
  Forall byte_ok name -> Forall byte_ok link -> type < 256 -> plain_type type ->
  only_name_link fl -> d_sparse out = [] ->
  no_nul name -> (length name <= 100)%nat -> no_nul link -> (length link <= 100)%nat ->
  mode < 4096 -> uid < lim8 -> gid < lim8 -> size < two64 -> mtime_ok mtime ->
  maj < lim8 -> min < lim8 ->
  rh_any 1 (hdr_bytes name mode uid gid size mtime type link maj min ++ s) fl out
    (RH_Ok (let d := decode_spec fl out name mode uid gid size mtime type link maj min in
            set_actual d (d_record d)) s).
Proof.
  intros Hbn Hbl Ht Hpt Hfl Hsp Hn Hnl Hl Hll Hmode Huid Hgid Hsize Hmt Hmaj Hmin f Hf.
  destruct f; [lia|].
  rewrite rh_step_final.
  - unfold finish_header. rewrite decode_header_hdr by assumption.
    destruct Hfl as (_ & _ & _ & _ & _ & _ & F7). rewrite F7.
    rewrite d_sparse_decode_spec, Hsp. reflexivity.
  - apply hdr_good; assumption.
  - rewrite parse_raw_hdr. exact Hpt.
Qed.

Lemma byte_ok_str_dec prefix v : Forall byte_ok prefix -> Forall byte_ok (prefix ++ dec v).
Proof. intro H. apply Forall_app; split; [exact H|apply dec_bytes]. Qed.

Lemma no_nul_app a b : no_nul a -> no_nul b -> no_nul (a ++ b).
Proof. intros Ha Hb H. apply in_app_or in H. destruct H; [apply Ha|apply Hb]; assumption. Qed.

Definition str_ok (s : list N) : Prop := no_nul s /\ Forall byte_ok s.

(* what the caller of write_tar_header must guarantee (sqfs2tar does) *)
Record wf_entry (e : entry) (target : option (list N)) (xs : list xattr) : Prop := {
  wf_name : str_ok (e_name e);
  wf_name_len : N.of_nat (length (e_name e)) <= MAX_LEN;
  wf_mode : e_mode e < 65536;
  wf_uid : e_uid e < lim8;
  wf_gid : e_gid e < lim8;
  wf_size : e_size e < two64;
  wf_mtime : mtime_ok (e_mtime e);
  wf_rdev : e_rdev e < two32;
  wf_target : e_hardlink e = true \/ ftype (e_mode e) = S_IFLNK ->
              exists t, target = Some t /\ str_ok t /\ N.of_nat (length t) <= MAX_LEN;
  wf_xattr : Forall xattr_ok xs;
  wf_xattr_len : N.of_nat (length (schily_payload xs)) <= MAX_LEN
}.

(* the header as read_header delivers it: the xattr list comes back REVERSED
   (every PAX record is prepended to the list) *)
Definition decoded_of (e : entry) (target : option (list N)) (xs : list xattr) : dec_hdr :=
  if e_hardlink e then
    mkdec (Some (e_name e)) target [] 0 0 false true [] (perm (e_mode e))
          (e_uid e) (e_gid e) 0 (e_mtime e)
  else
    let t := ftype (e_mode e) in
    let sz := if t =? S_IFREG then e_size e else 0 in
    mkdec (Some (e_name e)) (if t =? S_IFLNK then target else None) [] sz sz false false (rev xs)
          (if t =? S_IFLNK then S_IFLNK + 511 else perm (e_mode e) + t)
          (e_uid e) (e_gid e)
          (if (t =? S_IFCHR) || (t =? S_IFBLK) then e_rdev e else 0) (e_mtime e).

Lemma decoded_xattr e target xs :
  d_xattr (decoded_of e target xs) = if e_hardlink e then [] else rev xs.
Proof. unfold decoded_of. destruct (e_hardlink e); reflexivity. Qed.

Lemma perm_lt m : perm m < 4096.
Proof. unfold perm. apply N.mod_lt. discriminate. Qed.

Lemma str_gnu_bytes v p : In p [str_gnu_target; str_gnu_name; str_gnu_data; str_pax_xattr; str_hardlink_] ->
  Forall byte_ok (p ++ dec v) /\ no_nul (p ++ dec v) /\ (length (p ++ dec v) <= 99)%nat.
Proof.
  intro Hp. assert (Hb : Forall byte_ok p /\ no_nul p /\ (length p <= 10)%nat).
  { cbn [In] in Hp.
    repeat (destruct Hp as [<-|Hp];
            [split; [repeat constructor; unfold byte_ok; lia|split; [|cbn; lia]];
             intro Hin; cbn in Hin; repeat (destruct Hin as [Hin|Hin]; [discriminate|]); exact Hin|]).
    contradiction. }
  destruct Hb as (B1 & B2 & B3). split; [apply byte_ok_str_dec; exact B1|]. split.
  - apply no_nul_app; [exact B2|apply dec_no_nul].
  - rewrite app_length, dec_length. pose proof (ndigits_bounds v). lia.
Qed.

Lemma leb_100_false (l : list N) : Nat.leb 100 (length l) = false -> (length l <= 99)%nat.
Proof. intro H. apply Nat.leb_gt in H. lia. Qed.
Lemma leb_100_true (l : list N) : Nat.leb 100 (length l) = true -> (1 <= length l)%nat.
Proof. intro H. apply Nat.leb_le in H. lia. Qed.

Lemma only_nl_nil : only_name_link []. Proof. repeat split. Qed.
Lemma only_nl_name fl : only_name_link fl -> only_name_link (P_NAME :: fl).
Proof. intros (?&?&?&?&?&?&?). repeat split; cbn [has existsb pflag_eqb orb]; assumption. Qed.
Lemma only_nl_slink fl : only_name_link fl -> only_name_link (P_SLINK :: fl).
Proof. intros (?&?&?&?&?&?&?). repeat split; cbn [has existsb pflag_eqb orb]; assumption. Qed.

Lemma lim8_gt x : x < 4096 -> x < lim8.
Proof. unfold lim8, two56. lia. Qed.

Lemma plain_LINK : plain_type T_LINK. Proof. repeat split; discriminate. Qed.

Lemma header_rt_hardlink e t xs counter rest :
  wf_entry e (Some t) xs -> e_hardlink e = true ->
  rh_any 3 (write_hard_link e t counter ++ rest) [] dec0
         (RH_Ok (decoded_of e (Some t) xs) rest).
Proof.
  intros W Hh. destruct W as [[Wn1 Wn2] Wnl Wmode Wuid Wgid Wsize Wmt Wrdev Wt _ _].
  destruct (Wt (or_introl Hh)) as (t' & Et & (Wt1 & Wt2) & Wtl). injection Et as <-.
  unfold write_hard_link, decoded_of. rewrite Hh.
  destruct (str_gnu_bytes counter str_gnu_target) as (A1 & A2 & A3); [cbn; tauto|].
  destruct (str_gnu_bytes counter str_gnu_name) as (B1 & B2 & B3); [cbn; tauto|].
  destruct (str_gnu_bytes counter str_gnu_data) as (C1 & C2 & C3); [cbn; tauto|].
  destruct (str_gnu_bytes counter str_hardlink_) as (D1 & D2 & D3); [cbn; tauto|].
  pose proof (perm_lt (e_mode e)) as Hp.
  destruct (Nat.leb 100 (length t)) eqn:Lt; destruct (Nat.leb 100 (length (e_name e))) eqn:Ln;
    rewrite <- ?app_assoc; cbn [app].
  - (* long target, long name *)
    apply rh_any_K; [assumption|apply leb_100_true; assumption|assumption|].
    apply rh_any_L; [assumption|apply leb_100_true; assumption|assumption|].
    rewrite !cstr_no_nul by assumption.
    eapply eq_ind; [apply rh_any_final|]; try assumption; try (apply lim8_gt; lia);
      try (unfold two64; lia); try lia.
    + reflexivity.
    + apply plain_LINK.
    + apply only_nl_name, only_nl_slink, only_nl_nil.
    + reflexivity.
    + reflexivity.
  - (* long target, short name *)
    apply (rh_any_weaken 2); [lia|].
    apply rh_any_K; [assumption|apply leb_100_true; assumption|assumption|].
    rewrite !cstr_no_nul by assumption. apply leb_100_false in Ln.
    eapply eq_ind; [apply rh_any_final|]; try assumption; try (apply lim8_gt; lia);
      try (unfold two64; lia); try lia.
    + reflexivity.
    + apply plain_LINK.
    + apply only_nl_slink, only_nl_nil.
    + reflexivity.
    + reflexivity.
  - (* short target, long name *)
    apply (rh_any_weaken 2); [lia|].
    apply rh_any_L; [assumption|apply leb_100_true; assumption|assumption|].
    rewrite !cstr_no_nul by assumption. apply leb_100_false in Lt.
    eapply eq_ind; [apply rh_any_final|]; try assumption; try (apply lim8_gt; lia);
      try (unfold two64; lia); try lia.
    + reflexivity.
    + apply plain_LINK.
    + apply only_nl_name, only_nl_nil.
    + reflexivity.
    + reflexivity.
  - apply (rh_any_weaken 1); [lia|]. apply leb_100_false in Lt, Ln.
    eapply eq_ind; [apply rh_any_final|]; try assumption; try (apply lim8_gt; lia);
      try (unfold two64; lia); try lia.
    + reflexivity.
    + apply plain_LINK.
    + apply only_nl_nil.
    + reflexivity.
    + reflexivity.
Qed.
Lemma type_of_mode_cases m ty : type_of_mode m = Some ty ->
  (ftype m = S_IFCHR /\ ty = T_CHR) \/ (ftype m = S_IFBLK /\ ty = T_BLK) \/
  (ftype m = S_IFLNK /\ ty = T_SLINK) \/ (ftype m = S_IFREG /\ ty = T_FILE) \/
  (ftype m = S_IFDIR /\ ty = T_DIR) \/ (ftype m = S_IFIFO /\ ty = T_FIFO).
Proof.
  unfold type_of_mode. intro H.
  destruct (ftype m =? S_IFCHR) eqn:E1; [apply N.eqb_eq in E1; injection H as <-; tauto|].
  destruct (ftype m =? S_IFBLK) eqn:E2; [apply N.eqb_eq in E2; injection H as <-; tauto|].
  destruct (ftype m =? S_IFLNK) eqn:E3; [apply N.eqb_eq in E3; injection H as <-; tauto|].
  destruct (ftype m =? S_IFREG) eqn:E4; [apply N.eqb_eq in E4; injection H as <-; tauto|].
  destruct (ftype m =? S_IFDIR) eqn:E5; [apply N.eqb_eq in E5; injection H as <-; tauto|].
  destruct (ftype m =? S_IFIFO) eqn:E6; [apply N.eqb_eq in E6; injection H as <-; tauto|].
  discriminate.
Qed.


Lemma firstn99 (l : list N) : (length l <= 99)%nat -> firstn 99 l = l.
Proof. apply firstn_all2. Qed.

Lemma final_nonlink e nm ty rest fl out :
  e_mode e < 65536 -> e_uid e < lim8 -> e_gid e < lim8 -> e_size e < two64 ->
  mtime_ok (e_mtime e) -> e_rdev e < two32 ->
  type_of_mode (e_mode e) = Some ty -> ftype (e_mode e) <> S_IFLNK ->
  Forall byte_ok nm -> no_nul nm -> (length nm <= 99)%nat ->
  only_name_link fl -> d_sparse out = [] -> d_dev out = 0 ->
  rh_any 1 (write_header e nm None ty ++ rest) fl out
    (RH_Ok (mkdec (if has P_NAME fl then d_name out else Some nm) (d_link out) []
                  (if ftype (e_mode e) =? S_IFREG then e_size e else 0)
                  (if ftype (e_mode e) =? S_IFREG then e_size e else 0)
                  false (d_hl out) (d_xattr out)
                  (perm (e_mode e) + ftype (e_mode e)) (e_uid e) (e_gid e)
                  (if (ftype (e_mode e) =? S_IFCHR) || (ftype (e_mode e) =? S_IFBLK)
                   then e_rdev e else 0) (e_mtime e)) rest).
Proof.
  intros Wmode Wuid Wgid Wsize Wmt Wrdev Hty Hnl Hb Hn Hl Hfl Hsp Hdev.
  pose proof (perm_lt (e_mode e)) as Hp.
  destruct (dev_rt (e_rdev e) Wrdev) as (V1 & V2 & V3).
  unfold write_header. rewrite (firstn99 nm Hl).
  assert (Z0 : makedev (dev_major (makedev 0 (dev_minor 0))) 0 = 0) by reflexivity.
  assert (V2' : int_to_u64 (dev_minor (e_rdev e)) < lim8) by (unfold lim8, two56; lia).
  assert (V1' : int_to_u64 (dev_major (e_rdev e)) < lim8) by (unfold lim8, two56; lia).
  destruct (type_of_mode_cases _ _ Hty) as [(Ef & ->)|[(Ef & ->)|[(Ef & ->)|[(Ef & ->)|[(Ef & ->)|(Ef & ->)]]]]];
    try contradiction; rewrite Ef;
    cbn [N.eqb Pos.eqb S_IFCHR S_IFBLK S_IFREG S_IFDIR S_IFIFO orb];
    (eapply eq_ind; [apply rh_any_final|]; try eassumption; try (apply lim8_gt; lia);
      try (unfold two64; lia); try lia;
      match goal with
      | |- Forall byte_ok [] => constructor
      | |- _ < 256 => reflexivity
      | |- plain_type _ => repeat split; discriminate
      | |- no_nul [] => intro H; exact H
      | |- (length [] <= _)%nat => cbn; lia
      | |- RH_Ok _ _ = _ =>
        destruct out as [o1 o2 o3 o4 o5 o6 o7 o8 o9 o10 o11 o12 o13]; cbn in Hsp, Hdev; subst o3 o12;
        unfold decode_spec; destruct (has P_NAME fl);
        cbv zeta;
        cbn [d_name d_link d_sparse d_actual d_record d_unknown d_hl d_xattr d_mode d_uid d_gid d_dev d_mtime
             set_name set_link set_sparse set_actual set_record set_unknown set_hl set_xattr set_mode
             set_uid set_gid set_dev set_mtime N.eqb Pos.eqb orb andb negb
             T_LINK T_SLINK T_FILE T_CHR T_BLK T_DIR T_FIFO T_GNU_SPARSE];
        rewrite ?V3, ?Z0; reflexivity
      end).
Qed.


Lemma final_symlink e nm (lk : list N) rest fl out :
  e_mode e < 65536 -> e_uid e < lim8 -> e_gid e < lim8 -> mtime_ok (e_mtime e) ->
  ftype (e_mode e) = S_IFLNK ->
  Forall byte_ok nm -> no_nul nm -> (length nm <= 99)%nat ->
  Forall byte_ok lk -> no_nul lk -> (length lk <= 99)%nat ->
  only_name_link fl -> d_sparse out = [] -> d_dev out = 0 ->
  rh_any 1 (write_header e nm (Some lk) T_SLINK ++ rest) fl out
    (RH_Ok (mkdec (if has P_NAME fl then d_name out else Some nm)
                  (if has P_SLINK fl then d_link out else Some lk) []
                  0 0 false (d_hl out) (d_xattr out)
                  (S_IFLNK + 511) (e_uid e) (e_gid e) 0 (e_mtime e)) rest).
Proof.
  intros Wmode Wuid Wgid Wmt Ef Hb Hn Hl Hbl Hnl Hll Hfl Hsp Hdev.
  pose proof (perm_lt (e_mode e)) as Hp.
  unfold write_header. rewrite (firstn99 nm Hl). rewrite Ef.
  cbn [N.eqb Pos.eqb S_IFCHR S_IFBLK S_IFREG S_IFLNK orb].
  assert (Z0 : makedev (dev_major (makedev 0 (dev_minor 0))) 0 = 0) by reflexivity.
  eapply eq_ind; [apply rh_any_final|]; try eassumption; try (apply lim8_gt; lia);
    try (unfold two64; lia); try lia;
    match goal with
    | |- _ < 256 => reflexivity
    | |- plain_type _ => repeat split; discriminate
    | |- RH_Ok _ _ = _ =>
      destruct out as [o1 o2 o3 o4 o5 o6 o7 o8 o9 o10 o11 o12 o13]; cbn in Hsp, Hdev; subst o3 o12;
      unfold decode_spec; destruct (has P_NAME fl); destruct (has P_SLINK fl);
      cbv zeta;
      cbn [d_name d_link d_sparse d_actual d_record d_unknown d_hl d_xattr d_mode d_uid d_gid d_dev d_mtime
           set_name set_link set_sparse set_actual set_record set_unknown set_hl set_xattr set_mode
           set_uid set_gid set_dev set_mtime N.eqb Pos.eqb orb andb negb
           T_LINK T_SLINK T_FILE T_CHR T_BLK T_DIR T_FIFO T_GNU_SPARSE];
      rewrite ?Z0; reflexivity
    end.
Qed.

(* the same with the link name carried by a 'K' record *)
Lemma final_symlink_long e nm rest fl out :
  e_mode e < 65536 -> e_uid e < lim8 -> e_gid e < lim8 -> mtime_ok (e_mtime e) ->
  ftype (e_mode e) = S_IFLNK ->
  Forall byte_ok nm -> no_nul nm -> (length nm <= 99)%nat ->
  only_name_link fl -> has P_SLINK fl = true -> d_sparse out = [] -> d_dev out = 0 ->
  rh_any 1 (write_header e nm None T_SLINK ++ rest) fl out
    (RH_Ok (mkdec (if has P_NAME fl then d_name out else Some nm) (d_link out) []
                  0 0 false (d_hl out) (d_xattr out)
                  (S_IFLNK + 511) (e_uid e) (e_gid e) 0 (e_mtime e)) rest).
Proof.
  intros Wmode Wuid Wgid Wmt Ef Hb Hn Hl Hfl Hsl Hsp Hdev.
  pose proof (perm_lt (e_mode e)) as Hp.
  unfold write_header. rewrite (firstn99 nm Hl). rewrite Ef.
  cbn [N.eqb Pos.eqb S_IFCHR S_IFBLK S_IFREG S_IFLNK orb].
  assert (Z0 : makedev (dev_major (makedev 0 (dev_minor 0))) 0 = 0) by reflexivity.
  eapply eq_ind; [apply rh_any_final|]; try eassumption; try (apply lim8_gt; lia);
    try (unfold two64; lia); try lia;
    match goal with
    | |- Forall byte_ok [] => constructor
    | |- _ < 256 => reflexivity
    | |- plain_type _ => repeat split; discriminate
    | |- no_nul [] => intro H; exact H
    | |- (length [] <= _)%nat => cbn; lia
    | |- RH_Ok _ _ = _ =>
      destruct out as [o1 o2 o3 o4 o5 o6 o7 o8 o9 o10 o11 o12 o13]; cbn in Hsp, Hdev; subst o3 o12;
      unfold decode_spec; rewrite Hsl; destruct (has P_NAME fl);
      cbv zeta;
      cbn [d_name d_link d_sparse d_actual d_record d_unknown d_hl d_xattr d_mode d_uid d_gid d_dev d_mtime
           set_name set_link set_sparse set_actual set_record set_unknown set_hl set_xattr set_mode
           set_uid set_gid set_dev set_mtime N.eqb Pos.eqb orb andb negb
           T_LINK T_SLINK T_FILE T_CHR T_BLK T_DIR T_FIFO T_GNU_SPARSE];
      rewrite ?Z0; reflexivity
    end.
Qed.


Ltac red_out :=
  cbn [has existsb pflag_eqb orb
       d_name d_link d_sparse d_actual d_record d_unknown d_hl d_xattr d_mode d_uid d_gid d_dev d_mtime
       set_name set_link set_sparse set_actual set_record set_unknown set_hl set_xattr set_mode
       set_uid set_gid set_dev set_mtime dec0].

Lemma header_rt_nonlink e target xs counter rest ty :
  wf_entry e target xs -> e_hardlink e = false ->
  type_of_mode (e_mode e) = Some ty -> ftype (e_mode e) <> S_IFLNK ->
  forall b, write_tar_header e target xs counter = W_Ok b ->
  rh_any 4 (b ++ rest) [] dec0 (RH_Ok (decoded_of e target xs) rest).
Proof.
  intros W Hh Hty Hnl b Hb.
  destruct W as [[Wn1 Wn2] Wnl Wmode Wuid Wgid Wsize Wmt Wrdev Wt Wx Wxl].
  unfold write_tar_header in Hb. rewrite Hh, Hty in Hb.
  assert (Hnl' := Hnl). apply N.eqb_neq in Hnl'. rewrite Hnl' in Hb.
  unfold decoded_of. rewrite Hh, Hnl'. cbv zeta.
  destruct (str_gnu_bytes counter str_gnu_name) as (B1 & B2 & B3); [cbn; tauto|].
  destruct (str_gnu_bytes counter str_gnu_data) as (C1 & C2 & C3); [cbn; tauto|].
  destruct (str_gnu_bytes counter str_pax_xattr) as (D1 & D2 & D3); [cbn; tauto|].
  destruct xs as [|x xs']; destruct (Nat.leb 100 (length (e_name e))) eqn:Ln;
    cbv zeta in Hb;
    apply (f_equal (fun w => match w with W_Ok x => x | _ => [] end)) in Hb;
    cbv beta iota in Hb; subst b;
    rewrite <- ?app_assoc; cbn [app].
  - apply (rh_any_weaken 2); [lia|].
    apply rh_any_L; [assumption|apply leb_100_true; assumption|assumption|].
    eapply eq_ind; [apply final_nonlink; try eassumption;
                    [apply only_nl_name, only_nl_nil|reflexivity|reflexivity]|].
    red_out. rewrite cstr_no_nul by assumption. reflexivity.
  - apply (rh_any_weaken 1); [lia|]. apply leb_100_false in Ln.
    eapply eq_ind; [apply final_nonlink; try eassumption;
                    [apply only_nl_nil|reflexivity|reflexivity]|].
    red_out. reflexivity.
  - apply (rh_any_weaken 3); [lia|].
    apply rh_any_X; [assumption|discriminate|assumption|assumption|].
    apply rh_any_L; [assumption|apply leb_100_true; assumption|assumption|].
    eapply eq_ind; [apply final_nonlink; try eassumption;
                    [apply only_nl_name, only_nl_nil|reflexivity|reflexivity]|].
    red_out. rewrite cstr_no_nul by assumption. reflexivity.
  - apply (rh_any_weaken 2); [lia|]. apply leb_100_false in Ln.
    apply rh_any_X; [assumption|discriminate|assumption|assumption|].
    eapply eq_ind; [apply final_nonlink; try eassumption;
                    [apply only_nl_nil|reflexivity|reflexivity]|].
    red_out. reflexivity.
Qed.

Lemma header_rt_symlink e target xs counter rest :
  wf_entry e target xs -> e_hardlink e = false -> ftype (e_mode e) = S_IFLNK ->
  forall b, write_tar_header e target xs counter = W_Ok b ->
  rh_any 4 (b ++ rest) [] dec0 (RH_Ok (decoded_of e target xs) rest).
Proof.
  intros W Hh Ef b Hb.
  destruct W as [[Wn1 Wn2] Wnl Wmode Wuid Wgid Wsize Wmt Wrdev Wt Wx Wxl].
  destruct (Wt (or_intror Ef)) as (t & -> & (Wt1 & Wt2) & Wtl).
  assert (Hty : type_of_mode (e_mode e) = Some T_SLINK).
  { unfold type_of_mode. rewrite Ef. reflexivity. }
  unfold write_tar_header in Hb. rewrite Hh, Hty in Hb.
  assert (Ef' : (ftype (e_mode e) =? S_IFLNK) = true) by (rewrite Ef; reflexivity).
  rewrite Ef' in Hb.
  unfold decoded_of. rewrite Hh, Ef'. cbv zeta. rewrite Ef.
  cbn [N.eqb Pos.eqb S_IFLNK S_IFREG S_IFCHR S_IFBLK orb].
  destruct (str_gnu_bytes counter str_gnu_name) as (B1 & B2 & B3); [cbn; tauto|].
  destruct (str_gnu_bytes counter str_gnu_data) as (C1 & C2 & C3); [cbn; tauto|].
  destruct (str_gnu_bytes counter str_pax_xattr) as (D1 & D2 & D3); [cbn; tauto|].
  destruct (str_gnu_bytes counter str_gnu_target) as (A1 & A2 & A3); [cbn; tauto|].
  destruct xs as [|x xs']; destruct (Nat.leb 100 (length t)) eqn:Lt;
    destruct (Nat.leb 100 (length (e_name e))) eqn:Ln;
    cbv zeta in Hb;
    apply (f_equal (fun w => match w with W_Ok x => x | _ => [] end)) in Hb;
    cbv beta iota in Hb; subst b;
    rewrite <- ?app_assoc; cbn [app];
    try apply leb_100_false in Lt; try apply leb_100_false in Ln.
  - apply (rh_any_weaken 3); [lia|].
    apply rh_any_K; [assumption|apply leb_100_true; assumption|assumption|].
    apply rh_any_L; [assumption|apply leb_100_true; assumption|assumption|].
    eapply eq_ind; [apply final_symlink_long; try eassumption;
                    [apply only_nl_name, only_nl_slink, only_nl_nil|reflexivity|reflexivity|reflexivity]|].
    red_out. rewrite !cstr_no_nul by assumption. reflexivity.
  - apply (rh_any_weaken 2); [lia|].
    apply rh_any_K; [assumption|apply leb_100_true; assumption|assumption|].
    eapply eq_ind; [apply final_symlink_long; try eassumption;
                    [apply only_nl_slink, only_nl_nil|reflexivity|reflexivity|reflexivity]|].
    red_out. rewrite !cstr_no_nul by assumption. reflexivity.
  - apply (rh_any_weaken 2); [lia|].
    apply rh_any_L; [assumption|apply leb_100_true; assumption|assumption|].
    eapply eq_ind; [apply final_symlink; try eassumption;
                    [apply only_nl_name, only_nl_nil|reflexivity|reflexivity]|].
    red_out. rewrite !cstr_no_nul by assumption. reflexivity.
  - apply (rh_any_weaken 1); [lia|].
    eapply eq_ind; [apply final_symlink; try eassumption;
                    [apply only_nl_nil|reflexivity|reflexivity]|].
    red_out. reflexivity.
  - apply rh_any_X; [assumption|discriminate|assumption|assumption|].
    apply rh_any_K; [assumption|apply leb_100_true; assumption|assumption|].
    apply rh_any_L; [assumption|apply leb_100_true; assumption|assumption|].
    eapply eq_ind; [apply final_symlink_long; try eassumption;
                    [apply only_nl_name, only_nl_slink, only_nl_nil|reflexivity|reflexivity|reflexivity]|].
    red_out. rewrite !cstr_no_nul by assumption. reflexivity.
  - apply (rh_any_weaken 3); [lia|].
    apply rh_any_X; [assumption|discriminate|assumption|assumption|].
    apply rh_any_K; [assumption|apply leb_100_true; assumption|assumption|].
    eapply eq_ind; [apply final_symlink_long; try eassumption;
                    [apply only_nl_slink, only_nl_nil|reflexivity|reflexivity|reflexivity]|].
    red_out. rewrite !cstr_no_nul by assumption. reflexivity.
  - apply (rh_any_weaken 3); [lia|].
    apply rh_any_X; [assumption|discriminate|assumption|assumption|].
    apply rh_any_L; [assumption|apply leb_100_true; assumption|assumption|].
    eapply eq_ind; [apply final_symlink; try eassumption;
                    [apply only_nl_name, only_nl_nil|reflexivity|reflexivity]|].
    red_out. rewrite !cstr_no_nul by assumption. reflexivity.
  - apply (rh_any_weaken 2); [lia|].
    apply rh_any_X; [assumption|discriminate|assumption|assumption|].
    eapply eq_ind; [apply final_symlink; try eassumption;
                    [apply only_nl_nil|reflexivity|reflexivity]|].
    red_out. reflexivity.
Qed.

Lemma app_length_ge_last (a b : list N) : (length b <= length (a ++ b))%nat.
Proof. rewrite app_length. lia. Qed.

Lemma write_tar_header_length e target xs counter b :
  write_tar_header e target xs counter = W_Ok b -> (512 <= length b)%nat.
Proof.
  unfold write_tar_header. destruct (e_hardlink e).
  - intro H. apply (f_equal (fun w => match w with W_Ok x => x | _ => [] end)) in H.
    cbv beta iota in H. subst b. unfold write_hard_link.
    eapply Nat.le_trans; [|apply app_length_ge_last].
    eapply Nat.le_trans; [|apply app_length_ge_last]. rewrite hdr_length. lia.
  - destruct (type_of_mode (e_mode e)); [|discriminate]. cbv zeta. intro H.
    apply (f_equal (fun w => match w with W_Ok x => x | _ => [] end)) in H.
    cbv beta iota in H. subst b.
    eapply Nat.le_trans; [|apply app_length_ge_last].
    eapply Nat.le_trans; [|apply app_length_ge_last].
    eapply Nat.le_trans; [|apply app_length_ge_last].
    unfold write_header. rewrite hdr_length. lia.
Qed.

(* decode (encode e) = e with the xattr list reversed, whatever follows in the stream *)
Theorem header_rt_l e target xs counter rest b :
  wf_entry e target xs ->
  write_tar_header e target xs counter = W_Ok b ->
  read_header (b ++ rest) = RH_Ok (decoded_of e target xs) rest.
Proof.
  intros W Hb. unfold read_header.
  pose proof (write_tar_header_length _ _ _ _ _ Hb) as Hlen.
  assert (Hf : (4 <= S (length (b ++ rest)))%nat) by (rewrite app_length; lia).
  destruct (e_hardlink e) eqn:Hh.
  - destruct (wf_target _ _ _ W (or_introl Hh)) as (t & -> & _).
    unfold write_tar_header in Hb. rewrite Hh in Hb.
    apply (f_equal (fun w => match w with W_Ok x => x | _ => [] end)) in Hb.
    cbv beta iota in Hb. subst b.
    apply (header_rt_hardlink e t xs counter rest W Hh). lia.
  - destruct (type_of_mode (e_mode e)) as [ty|] eqn:Hty.
    + destruct (N.eq_dec (ftype (e_mode e)) S_IFLNK) as [Ef|Ef].
      * apply (header_rt_symlink e target xs counter rest W Hh Ef b Hb). exact Hf.
      * apply (header_rt_nonlink e target xs counter rest ty W Hh Hty Ef b Hb). exact Hf.
    + unfold write_tar_header in Hb. rewrite Hh, Hty in Hb. discriminate.
Qed.

Theorem header_rt_full e target xs counter rest b :
  wf_entry e target xs ->
  write_tar_header e target xs counter = W_Ok b ->
  read_header (b ++ rest) = RH_Ok (decoded_of e target xs) rest /\
  d_xattr (decoded_of e target xs) = (if e_hardlink e then [] else rev xs).
Proof. intros W H. split; [apply (header_rt_l _ _ _ _ _ _ W H)|apply decoded_xattr]. Qed.

(* sockets (and every other mode tar has no type for) are refused without
   output — this is what fix F22 establishes *)
Lemma unsupported_iff e target xs counter :
  write_tar_header e target xs counter = W_Unsupported <->
  e_hardlink e = false /\ type_of_mode (e_mode e) = None.
Proof.
  unfold write_tar_header. destruct (e_hardlink e).
  - split; [discriminate|intros (H & _); discriminate].
  - destruct (type_of_mode (e_mode e)); split; try discriminate; try tauto.
    intros (_ & H); discriminate.
Qed.

(* for a 16-bit mode the decoded mode of a non-link is the entry's mode *)
Lemma mode_recompose m : m < 65536 -> perm m + ftype m = m.
Proof.
  intro H. unfold perm, ftype.
  assert (E : (m / 4096) mod 16 = m / 4096).
  { apply N.mod_small. apply N.div_lt_upper_bound; [discriminate|]. lia. }
  rewrite E. pose proof (N.div_mod m 4096). lia.
Qed.
