(* C04 — sqfs2tar --subdir: keep_entry / next() select exactly the entries the
   manual promises and the stripped names are the paths relative to the selected
   directory (never colliding).  String level first (no assumption on the
   strings), then component level through C18's split_slash / join. *)
From Coq Require Import List NArith Bool Arith Lia.
From SqfsV Require Import C04.TarHdr C04.SubdirModel C18.CanonModel C18.CanonSpec C18.CanonProofs.
Import ListNotations.
Local Open Scope N_scope.

(* ---------- strings ---------- *)
Lemma isp_refl a : is_prefix a a = true.
Proof. induction a as [|x a IH]; simpl; [reflexivity|]. rewrite N.eqb_refl. exact IH. Qed.

Lemma isp_app a b : is_prefix a (a ++ b) = true.
Proof. induction a as [|x a IH]; simpl; [reflexivity|]. rewrite N.eqb_refl. exact IH. Qed.

Lemma isp_split a : forall b, is_prefix a b = true -> exists t, b = a ++ t.
Proof.
  induction a as [|x a IH]; intros b H; simpl in *.
  - exists b. reflexivity.
  - destruct b as [|y b]; [discriminate|].
    apply andb_true_iff in H as [H1 H2]. apply N.eqb_eq in H1. subst y.
    destruct (IH _ H2) as [t ->]. exists t. reflexivity.
Qed.

Lemma slash_at_app a t : slash_at (a ++ t) (length a) = match t with c :: _ => c =? slash | [] => false end.
Proof.
  unfold slash_at. induction a as [|x a IH]; simpl.
  - destruct t; reflexivity.
  - exact IH.
Qed.

(* the pair of tests keep_entry makes on the longer string = "a, then '/', then anything" *)
Lemma prefix_slash_iff a b :
  (is_prefix a b = true /\ slash_at b (length a) = true) <-> exists t, b = a ++ slash :: t.
Proof.
  split.
  - intros [H1 H2]. destruct (isp_split _ _ H1) as [t ->].
    rewrite slash_at_app in H2. destruct t as [|c t]; [discriminate|].
    apply N.eqb_eq in H2. subst c. exists t. reflexivity.
  - intros [t ->]. split; [apply isp_app|]. rewrite slash_at_app. reflexivity.
Qed.

Definition str_below (a b : list N) : Prop := exists t, b = a ++ slash :: t.

Lemma str_below_len a b : str_below a b -> (length a < length b)%nat.
Proof. intros [t ->]. rewrite app_length. simpl. lia. Qed.

Lemma keep_one_iff p n :
  keep_one p n = true <-> n = p \/ str_below p n \/ str_below n p.
Proof.
  unfold keep_one. destruct (Nat.leb_spec (length n) (length p)) as [L|L].
  - rewrite andb_true_iff, orb_true_iff. split.
    + intros [[E|E] P].
      * left. apply Nat.eqb_eq in E. destruct (isp_split _ _ P) as [t ->].
        rewrite app_length in E. destruct t; [rewrite app_nil_r; reflexivity|simpl in E; lia].
      * right; right. apply prefix_slash_iff. split; assumption.
    + intros [->|[B|B]].
      * split; [left; apply Nat.eqb_refl|apply isp_refl].
      * apply str_below_len in B. lia.
      * apply prefix_slash_iff in B as [B1 B2]. split; [right; exact B2|exact B1].
  - rewrite andb_true_iff. split.
    + intros [S P]. right; left. apply prefix_slash_iff. split; assumption.
    + intros [->|[B|B]].
      * lia.
      * apply prefix_slash_iff in B as [B1 B2]. split; assumption.
      * apply str_below_len in B. lia.
Qed.

(* ---------- components ---------- *)
Definition noslash (c : list N) : Prop := has_slash c = false.
(* a path = a non-empty list of '/'-free components (C18's [good] adds: non-empty components) *)
Definition wfp (cs : list (list N)) : Prop := cs <> [] /\ Forall noslash cs.

Lemma join_cons2 c r : r <> [] -> join (c :: r) = c ++ slash :: join r.
Proof. destruct r; [congruence|reflexivity]. Qed.

Lemma join_app ps r : ps <> [] -> r <> [] -> join (ps ++ r) = join ps ++ slash :: join r.
Proof.
  induction ps as [|c ps IH]; intros H1 H2; [congruence|].
  destruct ps as [|d ps].
  - simpl app. rewrite join_cons2 by exact H2. reflexivity.
  - change ((c :: d :: ps) ++ r) with (c :: ((d :: ps) ++ r)).
    rewrite join_cons2 by (simpl; discriminate).
    rewrite IH by (try discriminate; exact H2).
    rewrite (join_cons2 c (d :: ps)) by discriminate.
    rewrite <- app_assoc. reflexivity.
Qed.

Lemma split_join cs : wfp cs -> split_slash (join cs) = cs.
Proof.
  intros [H1 H2]. induction cs as [|c cs IH]; [congruence|].
  inversion H2 as [|? ? Hc Hcs]; subst.
  destruct cs as [|d cs].
  - simpl. apply split_noslash. exact Hc.
  - rewrite join_cons2 by discriminate. rewrite split_app.
    rewrite (split_noslash c Hc). rewrite IH by (try discriminate; exact Hcs). reflexivity.
Qed.

Lemma join_inj cs ps : wfp cs -> wfp ps -> join cs = join ps -> cs = ps.
Proof. intros Hc Hp E. rewrite <- (split_join cs Hc), <- (split_join ps Hp), E. reflexivity. Qed.

Definition comp_below (ps cs : list (list N)) : Prop := exists r, r <> [] /\ cs = ps ++ r.

Lemma str_below_comps ps cs : wfp ps -> wfp cs -> (str_below (join ps) (join cs) <-> comp_below ps cs).
Proof.
  intros Hp Hc. split.
  - intros [t E]. exists (split_slash t). split; [apply split_slash_nonnil|].
    rewrite <- (split_join cs Hc), E, split_app, (split_join ps Hp). reflexivity.
  - intros [r [Hr ->]]. exists (join r). apply join_app; [apply Hp|exact Hr].
Qed.

Lemma list_eqb_iff a b : list_eqb a b = true <-> a = b.
Proof.
  revert b; induction a as [|x a IH]; intros [|y b]; simpl; split; intro H; try reflexivity; try discriminate.
  - apply andb_true_iff in H as [H1 H2]. apply N.eqb_eq in H1. apply IH in H2. congruence.
  - inversion H; subst. rewrite N.eqb_refl. apply IH. reflexivity.
Qed.

Lemma list_list_eqb_iff a b : list_list_eqb a b = true <-> a = b.
Proof.
  revert b; induction a as [|x a IH]; intros [|y b]; simpl; split; intro H; try reflexivity; try discriminate.
  - apply andb_true_iff in H as [H1 H2]. apply list_eqb_iff in H1. apply IH in H2. congruence.
  - inversion H; subst. apply andb_true_iff. split; [apply list_eqb_iff|apply IH]; reflexivity.
Qed.

Lemma below_b_iff a b : below_b a b = true <-> comp_below a b.
Proof.
  revert b; induction a as [|x a IH]; intros b.
  - destruct b as [|y b]; simpl; split.
    + discriminate.
    + intros [r [Hr E]]. simpl in E. congruence.
    + intros _. exists (y :: b). split; [discriminate|reflexivity].
    + reflexivity.
  - destruct b as [|y b]; simpl; split.
    + discriminate.
    + intros [r [_ E]]. discriminate.
    + intro H. apply andb_true_iff in H as [H1 H2]. apply list_eqb_iff in H1. subst y.
      apply IH in H2 as [r [Hr ->]]. exists r. split; [exact Hr|reflexivity].
    + intros [r [Hr E]]. inversion E; subst. apply andb_true_iff. split; [apply list_eqb_iff; reflexivity|].
      apply IH. exists r. split; [exact Hr|reflexivity].
Qed.

(* keep_entry's loop body decides exactly the documented selection *)
Theorem keep_one_selects ps cs : wfp ps -> wfp cs -> keep_one (join ps) (join cs) = subdir_selects ps cs.
Proof.
  intros Hp Hc. apply eq_true_iff_eq. rewrite keep_one_iff. unfold subdir_selects.
  rewrite !orb_true_iff, list_list_eqb_iff, !below_b_iff.
  rewrite (str_below_comps ps cs Hp Hc), (str_below_comps cs ps Hc Hp).
  split.
  - intros [E|[B|B]]; [left; left; symmetry; apply join_inj; assumption|left; right; exact B|right; exact B].
  - intros [[E|B]|B]; [left; subst; reflexivity|right; left; exact B|right; right; exact B].
Qed.

Lemma comp_below_len ps cs : wfp ps -> comp_below ps cs -> (length (join ps) < length (join cs))%nat.
Proof.
  intros Hp [r [Hr ->]]. rewrite join_app by (try apply Hp; exact Hr). rewrite app_length. simpl. lia.
Qed.

Lemma skipn_app_exact {A} (a b : list A) : skipn (length a) (a ++ b) = b.
Proof. induction a; simpl; auto. Qed.

Lemma skipn_S_app {A} (a : list A) x b : skipn (S (length a)) (a ++ x :: b) = b.
Proof. induction a; simpl; auto. Qed.

Lemma strip_relative ps r : ps <> [] -> r <> [] ->
  skipn (S (length (join ps))) (join (ps ++ r)) = join r.
Proof. intros Hp Hr. rewrite join_app by assumption. apply skipn_S_app. Qed.

(* ---------- next(): what is emitted under which name ---------- *)
Lemma suffix_wfp ps r : Forall noslash (ps ++ r) -> r <> [] -> wfp r.
Proof. intros H Hr. split; [exact Hr|]. apply Forall_app in H. apply H. Qed.

(* one --subdir without --keep-as-dir: exactly what is strictly below the selected path, under its relative name *)
Theorem s2t_name_single ps cs rb d : wfp ps -> wfp cs ->
  s2t_name [join ps] false rb d (join cs) =
  match subdir_strip ps cs with
  | Some r => Some (with_dir_slash d (with_root rb (join r)))
  | None => None
  end.
Proof.
  intros Hp Hc. unfold s2t_name, keep_entry, strip_of, subdir_strip. cbn [existsb].
  rewrite orb_false_r, keep_one_selects by assumption. unfold subdir_selects.
  destruct (below_b ps cs) eqn:B.
  - rewrite orb_true_r. cbn [orb].
    pose proof (proj1 (below_b_iff ps cs) B) as CB.
    pose proof (comp_below_len ps cs Hp CB) as L.
    destruct (Nat.leb_spec (length (join cs)) (length (join ps))); [lia|].
    destruct CB as [r [Hr ->]]. rewrite skipn_app_exact, strip_relative by (try apply Hp; exact Hr). reflexivity.
  - rewrite orb_false_r.
    destruct (list_list_eqb ps cs) eqn:E.
    + apply list_list_eqb_iff in E. subst cs. cbn [orb]. rewrite Nat.leb_refl. reflexivity.
    + cbn [orb]. destruct (below_b cs ps) eqn:B2; [|reflexivity].
      apply below_b_iff in B2. pose proof (comp_below_len cs ps Hc B2) as L.
      destruct (Nat.leb_spec (length (join cs)) (length (join ps))); [reflexivity|lia].
Qed.

Lemma existsb_map_join (f : list N -> bool) (g : list (list N) -> bool) subs :
  Forall (fun ps => f (join ps) = g ps) subs -> existsb f (map join subs) = existsb g subs.
Proof. induction 1 as [|ps subs H _ IH]; simpl; [reflexivity|]. rewrite H, IH. reflexivity. Qed.

(* --keep-as-dir or several --subdir: the selected paths, what is below them, what leads to them, under their own names *)
Theorem s2t_name_keep subs cs k rb d : subs <> [] -> Forall wfp subs -> wfp cs ->
  strip_of (map join subs) k = None ->
  s2t_name (map join subs) k rb d (join cs) =
  if existsb (fun ps => subdir_selects ps cs) subs then Some (with_dir_slash d (with_root rb (join cs))) else None.
Proof.
  intros Hn Hs Hc St. unfold s2t_name. rewrite St.
  assert (K : keep_entry (map join subs) (join cs) = existsb (fun ps => subdir_selects ps cs) subs).
  { unfold keep_entry. destruct subs as [|p0 subs']; [congruence|]. cbn [map].
    change (existsb (fun p => keep_one p (join cs)) (map join (p0 :: subs')) = existsb (fun ps => subdir_selects ps cs) (p0 :: subs')).
    apply existsb_map_join. eapply Forall_impl; [|exact Hs]. intros ps Hp. apply keep_one_selects; assumption. }
  rewrite K. reflexivity.
Qed.

(* no --subdir: everything, under its own name *)
Theorem s2t_name_all k rb d n : s2t_name [] k rb d n = Some (with_dir_slash d (with_root rb n)).
Proof. reflexivity. Qed.

(* ---------- the emitted names never collide ---------- *)
Lemma with_root_inj rb x y : with_root rb x = with_root rb y -> x = y.
Proof. destruct rb as [r|]; simpl; [|auto]. intro H. apply app_inv_head in H. congruence. Qed.

Lemma good_last c : good c -> exists l x, c = l ++ [x] /\ x <> slash.
Proof.
  intros [Hn Hs]. destruct (exists_last Hn) as [l [x ->]]. exists l, x. split; [reflexivity|].
  intro E. subst x. rewrite has_slash_app in Hs. simpl in Hs. rewrite orb_true_r in Hs. discriminate.
Qed.

Lemma join_last r : r <> [] -> Forall good r -> exists l x, join r = l ++ [x] /\ x <> slash.
Proof.
  induction r as [|c r IH]; intros Hn Hg; [congruence|]. inversion Hg as [|? ? Hc Hr]; subst.
  destruct r as [|c' r'].
  - simpl. apply good_last. exact Hc.
  - destruct (IH ltac:(discriminate) Hr) as [l [x [E Hx]]].
    rewrite join_cons2 by discriminate. rewrite E. exists (c ++ slash :: l), x. split; [|exact Hx].
    rewrite <- app_assoc. reflexivity.
Qed.

Lemma decorated_inj rb r1 r2 d1 d2 : r1 <> [] -> r2 <> [] -> Forall good r1 -> Forall good r2 ->
  with_dir_slash d1 (with_root rb (join r1)) = with_dir_slash d2 (with_root rb (join r2)) -> join r1 = join r2.
Proof.
  intros N1 N2 G1 G2 H.
  destruct (join_last r1 N1 G1) as [l1 [x1 [E1 X1]]]. destruct (join_last r2 N2 G2) as [l2 [x2 [E2 X2]]].
  assert (R : forall l x, exists l', with_root rb (l ++ [x]) = l' ++ [x]).
  { intros l x. destruct rb as [r|]; simpl; [exists (r ++ slash :: l); rewrite <- app_assoc; reflexivity|exists l; reflexivity]. }
  destruct d1, d2; simpl in H.
  - apply app_inj_tail in H as [H _]. apply with_root_inj in H. exact H.
  - rewrite E2 in H. destruct (R l2 x2) as [l' El]. rewrite El in H. apply app_inj_tail in H as [_ H]. congruence.
  - rewrite E1 in H. destruct (R l1 x1) as [l' El]. rewrite El in H. apply app_inj_tail in H as [_ H]. congruence.
  - apply with_root_inj in H. exact H.
Qed.

Lemma good_noslash cs : Forall good cs -> Forall noslash cs.
Proof. apply Forall_impl. intros c [_ H]. exact H. Qed.

(* two different entries below the selected directory never get the same member name, whatever --root-becomes and
   whichever of them is a directory *)
Theorem strip_names_never_collide ps c1 c2 r1 r2 rb d1 d2 :
  Forall good c1 -> Forall good c2 ->
  subdir_strip ps c1 = Some r1 -> subdir_strip ps c2 = Some r2 ->
  with_dir_slash d1 (with_root rb (join r1)) = with_dir_slash d2 (with_root rb (join r2)) -> c1 = c2.
Proof.
  unfold subdir_strip. intros G1 G2 S1 S2 H.
  destruct (below_b ps c1) eqn:B1; [|discriminate]. destruct (below_b ps c2) eqn:B2; [|discriminate].
  apply below_b_iff in B1 as [q1 [Q1 ->]]. apply below_b_iff in B2 as [q2 [Q2 ->]].
  rewrite skipn_app_exact in S1, S2. inversion S1; inversion S2; subst r1 r2.
  apply Forall_app in G1 as [_ G1]. apply Forall_app in G2 as [_ G2].
  apply decorated_inj in H; try assumption.
  apply join_inj in H; [congruence| |]; (split; [assumption|apply good_noslash; assumption]).
Qed.

(* the same for kept names *)
Theorem kept_names_never_collide c1 c2 rb d1 d2 : c1 <> [] -> c2 <> [] -> Forall good c1 -> Forall good c2 ->
  with_dir_slash d1 (with_root rb (join c1)) = with_dir_slash d2 (with_root rb (join c2)) -> c1 = c2.
Proof.
  intros N1 N2 G1 G2 H. apply decorated_inj in H; try assumption.
  apply join_inj in H; [assumption| |]; (split; [assumption|apply good_noslash; assumption]).
Qed.

(* ---------- examples, and the seeded mistake ---------- *)
Definition s_lib : list N := [108; 105; 98].
Definition s_lib64 : list N := [108; 105; 98; 54; 52].
Definition s_libconf : list N := [108; 105; 98; 46; 99; 111; 110; 102].
Definition s_li : list N := [108; 105].
Definition s_a : list N := [97].

Lemma wfp_dec cs : cs <> [] -> forallb (fun c => negb (has_slash c)) cs = true -> wfp cs.
Proof.
  intros Hn H. split; [exact Hn|]. apply Forall_forall. intros c Hc.
  rewrite forallb_forall in H. specialize (H c Hc). unfold noslash. destruct (has_slash c); [discriminate|reflexivity].
Qed.

Lemma keep_one_noslash_refuted_proof :
  exists ps cs, wfp ps /\ wfp cs /\ keep_one_noslash (join ps) (join cs) = true /\ subdir_selects ps cs = false
                /\ skipn (S (length (join ps))) (join cs) = [52; slash; 97].
Proof.
  exists [s_lib], [s_lib64; s_a]. repeat split; try (apply wfp_dec; [discriminate|reflexivity]); reflexivity.
Qed.
