(* C04 — model of lib/tar/src/number.c (read_number / read_octal /
   read_binary), the number writers of lib/tar/src/write_header.c
   (write_number / write_binary / write_number_signed / update_checksum) and
   lib/tar/src/checksum.c.  A header field is the [list N] of its bytes
   (exactly [digits] of them).  64-bit wrap of the C code is written out with
   [mod 2^64].  Definitions only. *)
From Coq Require Import List NArith ZArith Bool.
Import ListNotations.
Local Open Scope N_scope.

Definition two64 : N := 18446744073709551616.
Definition two63 : N := 9223372036854775808.
Definition two56 : N := 72057594037927936.
Definition oct_limit : N := 2305843009213693951. (* 0x1FFFFFFFFFFFFFFF *)

(* isspace / isdigit of the "C" locale *)
Definition is_space (c : N) : bool := (c =? 32) || ((9 <=? c) && (c <=? 13)).
Definition is_digit (c : N) : bool := (48 <=? c) && (c <=? 57).
Definition is_odigit (c : N) : bool := (48 <=? c) && (c <=? 55).

Fixpoint drop_spaces (l : list N) : list N :=
  match l with
  | c :: r => if is_space c then drop_spaces r else l
  | [] => []
  end.

(* second loop of read_octal: stops at the first non-octal character or at
   the end of the field; refuses when the accumulator already exceeds 2^61-1 *)
Fixpoint oct_go (acc : N) (l : list N) : option N :=
  match l with
  | c :: r =>
    if is_odigit c then
      if oct_limit <? acc then None else oct_go (acc * 8 + (c - 48)) r
    else Some acc
  | [] => Some acc
  end.

Definition read_octal (f : list N) : option N := oct_go 0 (drop_spaces f).

(* loop body of read_binary after the first-byte special case:
   ov = (result >> 56) & 0xFF must be 0 or 0xFF; result = (result << 8) | x *)
Fixpoint bin_go (result : N) (l : list N) : option N :=
  match l with
  | [] => Some result
  | x :: r =>
    let ov := (result / two56) mod 256 in
    if (ov =? 0) || (ov =? 255) then bin_go ((result * 256 + x) mod two64) r
    else None
  end.

Definition read_binary (f : list N) : option N :=
  match f with
  | [] => Some 0
  | x :: r =>
    if x =? 255 then bin_go (two64 - 1) r
    else
      let x' := x mod 128 in
      if (Nat.ltb 7 (length r)) && negb (x' =? 0) then None
      else bin_go x' r
  end.

Definition read_number (f : list N) : option N :=
  match f with
  | x :: _ => if 128 <=? x then read_binary f else read_octal f
  | [] => read_octal f
  end.

(* ---- writers ---- *)

(* k octal digits of v, most significant first ("%0*lo" for v < 8^k) *)
Fixpoint oct_digits (k : nat) (v : N) : list N :=
  match k with
  | O => []
  | S k' => (48 + (v / 8 ^ N.of_nat k') mod 8) :: oct_digits k' v
  end.

(* k bytes of v, most significant first *)
Fixpoint be (k : nat) (v : N) : list N :=
  match k with
  | O => []
  | S k' => ((v / 256 ^ N.of_nat k') mod 256) :: be k' v
  end.

Definition set_high (b : N) : N := if b <? 128 then b + 128 else b.

Definition write_binary (v : N) (digits : nat) : list N :=
  match be digits v with
  | [] => []
  | b :: r => set_high b :: r
  end.

(* digits is sizeof(field): 8 or 12 in every call of the C code *)
Definition write_number (v : N) (digits : nat) : list N :=
  let mask := 8 ^ N.of_nat (digits - 1) - 1 in
  if v <=? mask then oct_digits (digits - 1) v ++ [32]
  else if v <=? 8 ^ N.of_nat digits - 1 then oct_digits digits v
  else write_binary v digits.

(* value is a sqfs_s64; -(2^63) is excluded by the callers' theorems
   (negating it is undefined behaviour in C) *)
Definition write_number_signed (v : Z) (digits : nat) : list N :=
  if (v <? 0)%Z then write_binary (Z.to_N (Z.of_N two64 + v)) digits
  else write_number (Z.to_N v) digits.

(* decode_header's interpretation of the mtime field *)
Definition s64_of_u64 (f : N) : Z :=
  if two63 <=? f then (- Z.of_N (two64 - f))%Z else Z.of_N f.

(* ---- checksum ---- *)
Fixpoint sum (l : list N) : N :=
  match l with [] => 0 | x :: r => x + sum r end.

(* tar_compute_checksum: the 8 bytes of the chksum field count as spaces *)
Definition checksum (h : list N) : N :=
  sum (firstn 148 h) + 8 * 32 + sum (skipn 156 h).

(* update_checksum: "%06o", then chksum[6] = 0, chksum[7] = ' ' *)
Definition chksum_field (c : N) : list N := oct_digits 6 c ++ [0; 32].
