(* C04 — sqfs2tar's entry selection and name rewriting: bin/sqfs2tar/src/iterator.c
   keep_entry() and the part of next() that follows it (the "skip the selected
   directory and what leads to it" test, the --subdir prefix strip, the
   --root-becomes prefix, the trailing '/' of directories, create_root_entry's
   name).  Names are C strings = NUL-free byte lists; [subs] are the --subdir
   arguments AFTER canonicalize_name (options.c), [rb] the --root-becomes
   argument after options.c ("." for "./").  Sockets (dropped below the hard link
   filter) and the hard link filter itself are not part of this model.
   Definitions only. *)
From Coq Require Import List NArith Bool Arith.
From SqfsV Require Import C04.TarHdr C18.CanonModel C18.CanonSpec.
Import ListNotations.
Local Open Scope N_scope.

(* s[k] == '/' for k <= strlen s  (s[strlen s] is the NUL) *)
Definition slash_at (s : list N) (k : nat) : bool :=
  match nth_error s k with Some c => c =? slash | None => false end.

(* one iteration of keep_entry's loop: subdirs.strings[i] = p, ent->name = n.
   strncmp(p, n, k) == 0 with k <= both lengths = the first k bytes agree *)
Definition keep_one (p n : list N) : bool :=
  if (length n <=? length p)%nat then
    ((length n =? length p)%nat || slash_at p (length n)) && is_prefix n p
  else
    slash_at n (length p) && is_prefix p n.

Definition keep_entry (subs : list (list N)) (n : list N) : bool :=
  match subs with
  | [] => true
  | _ => existsb (fun p => keep_one p n) subs
  end.

(* subdirs.count == 1 && !keep_as_dir *)
Definition strip_of (subs : list (list N)) (keep_as_dir : bool) : option (list N) :=
  match subs with
  | [p] => if keep_as_dir then None else Some p
  | _ => None
  end.

Definition with_root (rb : option (list N)) (x : list N) : list N :=
  match rb with Some r => r ++ slash :: x | None => x end.

Definition with_dir_slash (isdir : bool) (x : list N) : list N :=
  if isdir then x ++ [slash] else x.

(* next() for one entry the recursive iterator delivers: None = not emitted *)
Definition s2t_name (subs : list (list N)) (keep_as_dir : bool) (rb : option (list N))
           (isdir : bool) (n : list N) : option (list N) :=
  if keep_entry subs n then
    match strip_of subs keep_as_dir with
    | Some p =>
      if (length n <=? length p)%nat then None
      else Some (with_dir_slash isdir (with_root rb (skipn (S (length p)) n)))
    | None => Some (with_dir_slash isdir (with_root rb n))
    end
  else None.

(* the member names of the archive, in order, for the entries of the walk *)
Fixpoint s2t_names_go (subs : list (list N)) (keep_as_dir : bool) (rb : option (list N))
         (ents : list (list N * bool)) : list (list N) :=
  match ents with
  | [] => []
  | (n, d) :: r =>
    match s2t_name subs keep_as_dir rb d n with
    | Some x => x :: s2t_names_go subs keep_as_dir rb r
    | None => s2t_names_go subs keep_as_dir rb r
    end
  end.

Definition s2t_names (subs : list (list N)) (keep_as_dir : bool) (rb : option (list N))
           (ents : list (list N * bool)) : list (list N) :=
  match rb with
  | Some r => (r ++ [slash]) :: s2t_names_go subs (keep_as_dir || (1 <? length subs)%nat) rb ents   (* create_root_entry *)
  | None => s2t_names_go subs (keep_as_dir || (1 <? length subs)%nat) rb ents
  end.

(* ---------- what the manual promises, on component lists ---------- *)
Fixpoint list_list_eqb (a b : list (list N)) : bool :=
  match a, b with
  | [], [] => true
  | x :: a', y :: b' => list_eqb x y && list_list_eqb a' b'
  | _, _ => false
  end.

(* a is a proper prefix of b, component by component *)
Fixpoint below_b (a b : list (list N)) : bool :=
  match a, b with
  | [], _ :: _ => true
  | x :: a', y :: b' => list_eqb x y && below_b a' b'
  | _, _ => false
  end.

(* -k / several --subdir: the selected directory, what is below it, what leads to it *)
Definition subdir_selects (ps cs : list (list N)) : bool :=
  list_list_eqb ps cs || below_b ps cs || below_b cs ps.

(* one --subdir without -k: what is strictly below it, named relative to it *)
Definition subdir_strip (ps cs : list (list N)) : option (list (list N)) :=
  if below_b ps cs then Some (skipn (length ps) cs) else None.

(* the seeded mistake (C04-6): no '/' test in front of the prefix compare *)
Definition keep_one_noslash (p n : list N) : bool :=
  if (length n <=? length p)%nat then
    ((length n =? length p)%nat || slash_at p (length n)) && is_prefix n p
  else
    is_prefix p n.
