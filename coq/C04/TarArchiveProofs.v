(* Archive level: record accounting, read (write es) = es, conversion fixpoint. *)
From Coq Require Import List NArith ZArith Bool Lia ZifyBool ZifyNat ZifyN.
From SqfsV Require Import C04.TarNum C04.TarNumProofs C04.TarHdr C04.TarHdrProofs
     C04.TarStream C04.TarStreamProofs C18.CanonModel C18.CanonSpec C18.CanonProofs.
Import ListNotations.
Local Open Scope N_scope.

(* ================= 512-byte record accounting ================= *)
Definition blocks (l : list N) : Prop := exists k, length l = (512 * k)%nat.

Lemma blocks_nil : blocks []. Proof. exists O. reflexivity. Qed.

Lemma blocks_app a b : blocks a -> blocks b -> blocks (a ++ b).
Proof. intros [k Hk] [j Hj]. exists (k + j)%nat. rewrite app_length. lia. Qed.

Lemma blocks_hdr name mode uid gid size mtime type link maj min :
  blocks (hdr_bytes name mode uid gid size mtime type link maj min).
Proof. exists 1%nat. rewrite hdr_length. reflexivity. Qed.

Lemma padded_blocks (payload : list N) :
  blocks (payload ++ padding (N.of_nat (length payload))).
Proof.
  unfold blocks. rewrite app_length, padding_length. unfold round_pad.
  set (len := N.of_nat (length payload)).
  pose proof (N.div_mod len 512 ltac:(discriminate)) as Hd.
  pose proof (N.mod_lt len 512 ltac:(discriminate)) as Hm.
  destruct (len mod 512 =? 0) eqn:E.
  - apply N.eqb_eq in E. exists (N.to_nat (len / 512)). lia.
  - apply N.eqb_neq in E. exists (N.to_nat (len / 512) + 1)%nat. lia.
Qed.

Lemma blocks_ext orig payload ty nm : blocks (write_ext_header orig payload ty nm).
Proof.
  unfold write_ext_header. apply blocks_app; [apply blocks_hdr|apply padded_blocks].
Qed.

Lemma blocks_header e target xs counter b :
  write_tar_header e target xs counter = W_Ok b -> blocks b.
Proof.
  unfold write_tar_header. destruct (e_hardlink e).
  - intro H. apply (f_equal (fun w => match w with W_Ok x => x | _ => [] end)) in H.
    cbv beta iota in H. subst b. unfold write_hard_link.
    apply blocks_app; [|apply blocks_app; [|apply blocks_hdr]];
      match goal with |- blocks (if ?c then _ else _) => destruct c end;
      try apply blocks_nil; apply blocks_ext.
  - destruct (type_of_mode (e_mode e)); [|discriminate]. cbv zeta. intro H.
    apply (f_equal (fun w => match w with W_Ok x => x | _ => [] end)) in H.
    cbv beta iota in H. subst b.
    apply blocks_app; [|apply blocks_app; [|apply blocks_app]].
    + destruct xs; [apply blocks_nil|apply blocks_ext].
    + destruct (if ftype (e_mode e) =? S_IFLNK then target else None) as [t|]; [|apply blocks_nil].
      destruct (Nat.leb 100 (length t)); [apply blocks_ext|apply blocks_nil].
    + destruct (Nat.leb 100 (length (e_name e))); [apply blocks_ext|apply blocks_nil].
    + unfold write_header. apply blocks_hdr.
Qed.

Definition data_ok (t : tentry) : Prop :=
  is_reg (e_mode (te_e t)) && negb (e_hardlink (te_e t)) = true ->
  N.of_nat (length (te_data t)) = e_size (te_e t).

Lemma blocks_entries es : forall counter,
  Forall data_ok es -> blocks (write_entries es counter).
Proof.
  induction es as [|t es IH]; intros counter H; cbn [write_entries]; [apply blocks_nil|].
  inversion H as [|? ? Ht Hes]; subst.
  destruct (write_tar_header (te_e t) (te_target t) (te_xattr t) counter) as [b|] eqn:E.
  - apply blocks_app; [eapply blocks_header; exact E|]. apply blocks_app; [|apply IH; exact Hes].
    destruct (is_reg (e_mode (te_e t)) && negb (e_hardlink (te_e t))) eqn:R; [|apply blocks_nil].
    rewrite <- (Ht R). apply padded_blocks.
  - apply IH. exact Hes.
Qed.

Local Transparent zeros.
Theorem archive_len_512_l es :
  Forall data_ok es -> (length (write_archive es) mod 512 = 0)%nat.
Proof.
  intro H. unfold write_archive.
  assert (B : blocks (write_entries es 0 ++ zeros 1024)).
  { apply blocks_app; [apply blocks_entries; exact H|]. exists 2%nat. apply zeros_length. }
  destruct B as [k Hk]. rewrite Hk. rewrite Nat.mul_comm. apply Nat.mod_mul. discriminate.
Qed.

(* ================= reading back what was written ================= *)
Lemma read_header_end : read_header (zeros 1024) = RH_Eof.
Proof. vm_compute. reflexivity. Qed.
Local Opaque zeros.

Lemma skipN_eq n s : skipN n s = skipn (N.to_nat n) s.
Proof.
  unfold skipN. destruct (N.of_nat (length s) <=? n) eqn:E; [|reflexivity].
  apply N.leb_le in E. symmetry. apply skipn_all2. lia.
Qed.

(* the consumer reads a plain (map-less) file: exactly the record *)
Lemma stream_plain k data rest :
  (2 <= k)%nat -> N.of_nat (length data) < two64 ->
  stream_go (greedy k) [] (N.of_nat (length data)) 0 (data ++ rest) [] =
  S_Done data rest (N.of_nat (length data)).
Proof.
  intros Hk Hs. destruct k as [|[|k]]; try lia. unfold greedy. cbn [repeat].
  destruct data as [|d data].
  - reflexivity.
  - set (all := (d :: data) ++ rest). set (size := N.of_nat (length (d :: data))) in *.
    assert (Hsz : 1 <= size) by (unfold size; cbn [length]; lia).
    cbn [stream_go].
    assert (E1 : (size <=? 0) = false) by (apply N.leb_gt; lia). rewrite E1.
    cbn [region]. assert (E2 : (size - 0 =? 0) = false) by (apply N.eqb_neq; lia). rewrite E2.
    unfold all at 1. cbn [app]. fold all.
    assert (Hall : N.of_nat (length all) = size + N.of_nat (length rest)).
    { unfold all, size. rewrite app_length. lia. }
    assert (En : N.to_nat (N.min (two64 + 1) (N.min (N.min (two64 + 1) (N.of_nat (length all)))
                                             (N.min (size - 0) (two64 + 1)))) = length (d :: data)).
    { unfold size in *. lia. }
    change (d :: data ++ rest) with all. rewrite En.
    unfold all. rewrite firstn_app_exact, skipn_app_exact by reflexivity.
    cbn [stream_go]. fold size.
    assert (E3 : (size <=? 0 + size) = true) by (apply N.leb_le; lia). rewrite E3.
    cbn [app]. rewrite N.add_0_l. reflexivity.
Qed.

Definition supported (t : tentry) : bool :=
  e_hardlink (te_e t) ||
  match type_of_mode (e_mode (te_e t)) with Some _ => true | None => false end.

Definition canon_name (s : list N) : list N :=
  match canon_model s with CanonOk n => n | _ => [] end.

(* what the tar iterator reports for a written entry *)
Definition view (t : tentry) : tentry :=
  let d := decoded_of (te_e t) (te_target t) (te_xattr t) in
  let e' := entry_of d (canon_name (e_name (te_e t))) in
  mkte e' (d_link d) (d_xattr d) (if is_reg (e_mode e') then te_data t else []).

Definition views (es : list tentry) : list tentry :=
  flat_map (fun t => if supported t then [view t] else []) es.

Definition entry_ok (t : tentry) : Prop :=
  wf_entry (te_e t) (te_target t) (te_xattr t) /\ data_ok t /\
  (exists n, canon_model (e_name (te_e t)) = CanonOk n).

Lemma supported_ok t counter :
  supported t = true ->
  exists b, write_tar_header (te_e t) (te_target t) (te_xattr t) counter = W_Ok b.
Proof.
  unfold supported, write_tar_header. destruct (e_hardlink (te_e t)); [eauto|].
  destruct (type_of_mode (e_mode (te_e t))); [eauto|discriminate].
Qed.

Lemma unsupported_none t counter :
  supported t = false ->
  write_tar_header (te_e t) (te_target t) (te_xattr t) counter = W_Unsupported.
Proof.
  unfold supported. intro H. apply unsupported_iff. apply orb_false_elim in H. destruct H as [H1 H2].
  split; [exact H1|]. destruct (type_of_mode (e_mode (te_e t))); [discriminate|reflexivity].
Qed.

Lemma is_reg_decoded e target xs n :
  e_mode e < 65536 ->
  is_reg (e_mode (entry_of (decoded_of e target xs) n)) = is_reg (e_mode e) && negb (e_hardlink e).
Proof.
  intro Hm. unfold decoded_of, entry_of. destruct (e_hardlink e).
  - cbn [d_hl e_mode]. rewrite andb_false_r. reflexivity.
  - cbn [d_hl d_mode e_mode negb]. rewrite andb_true_r. unfold is_reg.
    destruct (ftype (e_mode e) =? S_IFLNK) eqn:E.
    + apply N.eqb_eq in E. rewrite E. reflexivity.
    + rewrite mode_recompose by exact Hm. reflexivity.
Qed.

Lemma decoded_facts e target xs :
  let d := decoded_of e target xs in
  d_unknown d = false /\ d_name d = Some (e_name e) /\ d_sparse d = [] /\
  d_record d = (if is_reg (e_mode e) && negb (e_hardlink e) then e_size e else 0) /\
  d_actual d = d_record d.
Proof.
  unfold decoded_of, is_reg. destruct (e_hardlink e); cbn; [rewrite andb_false_r; tauto|].
  rewrite andb_true_r. tauto.
Qed.

Theorem read_entries_written es : forall fuel counter,
  Forall entry_ok es -> (length (filter supported es) < fuel)%nat ->
  read_entries fuel (write_entries es counter ++ zeros 1024) = RA_Ok (views es).
Proof.
  induction es as [|t es IH]; intros fuel counter Hok Hf.
  - destruct fuel; [lia|]. cbn [write_entries app read_entries views flat_map].
    rewrite read_header_end. reflexivity.
  - inversion Hok as [|? ? (W & Hd & (n & Hn)) Hes]; subst.
    cbn [filter] in Hf.
    cbn [write_entries views flat_map]. destruct (supported t) eqn:Hs.
    2:{ rewrite (unsupported_none t counter Hs). cbn [app]. apply IH; [exact Hes|exact Hf]. }
    destruct fuel; [cbn in Hf; lia|]. cbn [length] in Hf.
    destruct (supported_ok t counter Hs) as (b & Hb). rewrite Hb.
    set (e := te_e t) in *. set (d := decoded_of e (te_target t) (te_xattr t)).
    set (tail := write_entries es (counter + 1) ++ zeros 1024).
    set (body := if is_reg (e_mode e) && negb (e_hardlink e)
                 then te_data t ++ padding (e_size e) else []).
    replace ((b ++ body ++ write_entries es (counter + 1)) ++ zeros 1024)
      with (b ++ (body ++ tail)) by (unfold tail; rewrite <- !app_assoc; reflexivity).
    cbn [read_entries]. rewrite (header_rt_l e (te_target t) (te_xattr t) counter (body ++ tail) b W Hb).
    fold d. destruct (decoded_facts e (te_target t) (te_xattr t)) as (F1 & F2 & F3 & F4 & F5).
    fold d in F1, F2, F3, F4, F5. rewrite F1, F2, Hn.
    pose proof (is_reg_decoded e (te_target t) (te_xattr t) n (wf_mode _ _ _ W)) as Hreg. fold d in Hreg.
    rewrite Hreg. cbn [app]. unfold view. fold e. fold d. unfold canon_name. rewrite Hn. rewrite Hreg.
    rewrite F5, F4, F3.
    specialize (IH fuel (counter + 1) Hes ltac:(lia)). fold tail in IH.
    destruct (is_reg (e_mode e) && negb (e_hardlink e)) eqn:R.
    + (* regular file: header, data, padding *)
      pose proof (Hd R) as Hlen. fold e in Hlen. unfold body.
      rewrite <- Hlen. rewrite <- app_assoc.
      rewrite stream_plain; [| cbn [length Nat.mul Nat.add]; apply le_n_S, le_n_S, Nat.le_0_l | rewrite Hlen; apply (wf_size _ _ _ W)].
      rewrite !skipN_eq.
      replace (N.of_nat (length (te_data t ++ padding (N.of_nat (length (te_data t))) ++ tail)) -
               N.of_nat (length (padding (N.of_nat (length (te_data t))) ++ tail)))
        with (N.of_nat (length (te_data t))) by (rewrite !app_length; lia).
      rewrite Nat2N.id. rewrite skipn_app_exact by reflexivity.
      replace ((N.of_nat (length (te_data t)) + two64 - N.of_nat (length (te_data t))) mod two64) with 0.
      2:{ replace (N.of_nat (length (te_data t)) + two64 - N.of_nat (length (te_data t))) with two64 by lia.
          symmetry. apply N.mod_same. discriminate. }
      cbn [N.to_nat skipn]. rewrite skipn_app_exact by apply padding_length.
      rewrite IH. reflexivity.
    + unfold body. cbn [app]. rewrite !skipN_eq.
      replace ((0 + two64 - 0) mod two64) with 0 by reflexivity.
      cbn [N.to_nat skipn]. change (round_pad 0) with 0%nat. cbn [skipn].
      rewrite IH. reflexivity.
Qed.

Lemma written_length es : forall c,
  (length (filter supported es) <= length (write_entries es c))%nat.
Proof.
  induction es as [|t es IH]; intros c; [cbn; lia|].
  cbn [filter write_entries]. destruct (supported t) eqn:Hs.
  - destruct (supported_ok t c Hs) as (b & Hb). rewrite Hb.
    pose proof (write_tar_header_length _ _ _ _ _ Hb).
    specialize (IH (c + 1)). rewrite !app_length. cbn [length]. lia.
  - rewrite (unsupported_none t c Hs). apply IH.
Qed.

Theorem archive_rt_l es :
  Forall entry_ok es -> read_archive (write_archive es) = RA_Ok (views es).
Proof.
  intro H. unfold read_archive, write_archive. apply read_entries_written; [exact H|].
  rewrite app_length. pose proof (written_length es 0). lia.
Qed.

(* ================= tar2sqfs --root-becomes link retargeting (fix F21) ================= *)
(* a target that is not below the new root is stored untouched *)
Lemma is_prefix_firstn root : forall c, is_prefix root c = true -> firstn (length root) c = root.
Proof.
  induction root as [|a root IH]; intros c P; [reflexivity|].
  destruct c as [|b c]; [discriminate|]. cbn [is_prefix] in P. apply andb_prop in P. destruct P as [P1 P2].
  apply N.eqb_eq in P1. subst. cbn [length firstn]. f_equal. apply IH. exact P2.
Qed.

Lemma retarget_untouched root link :
  (forall r, canon_result link <> Some (root ++ 47 :: r)) -> retarget root link = link.
Proof.
  intro H. unfold retarget. unfold canon_result in H.
  destruct (canon_model link) as [c| |]; try reflexivity.
  destruct (is_prefix root c) eqn:P; [|reflexivity].
  destruct (skipn (length root) c) as [|x r] eqn:S; [reflexivity|].
  destruct (x =? 47) eqn:Ex; [|reflexivity]. apply N.eqb_eq in Ex. subst x.
  exfalso. apply (H r). f_equal.
  rewrite <- (firstn_skipn (length root) c) at 1. rewrite S. f_equal. apply is_prefix_firstn. exact P.
Qed.

(* a target below the new root is made absolute inside the image *)
Lemma retarget_prefixed root link r :
  canon_result link = Some (root ++ 47 :: r) -> retarget root link = 47 :: r.
Proof.
  intro H. unfold retarget. unfold canon_result in H.
  destruct (canon_model link) as [c| |]; try discriminate. injection H as ->.
  rewrite is_prefix_app. rewrite skipn_app_exact by reflexivity. reflexivity.
Qed.

(* the unpatched code: the half-rewritten buffer of a refused canonicalisation
   is stored ("./a/../b" becomes "a/a/../b"), and an absolute target outside
   the new root loses its leading slash ("/etc/x" becomes "etc/x") *)
Lemma retarget_old_refuted :
  exists root link, (forall r, canon_result link <> Some (root ++ 47 :: r)) /\ retarget_old root link <> link.
Proof.
  exists [114], [46;47;97;47;46;46;47;98]. split.
  - intros r. vm_compute. discriminate.
  - vm_compute. discriminate.
Qed.

Lemma retarget_old_refuted_abs :
  exists root link, (forall r, canon_result link <> Some (root ++ 47 :: r)) /\ retarget_old root link <> link.
Proof.
  exists [114], [47;101;116;99]. split.
  - intros r. vm_compute. intro H. discriminate.
  - vm_compute. discriminate.
Qed.
