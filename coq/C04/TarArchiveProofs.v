(* Archive level: record accounting, read (write es) = es, conversion fixpoint. *)
From Coq Require Import List NArith ZArith Bool Lia ZifyBool ZifyNat ZifyN Permutation.
From SqfsV Require Import C04.TarNum C04.TarNumProofs C04.TarHdr C04.TarHdrProofs
     C04.TarStream C04.TarStreamProofs C18.CanonModel C18.CanonSpec C18.CanonProofs.
Import ListNotations.
Local Open Scope N_scope.

(* ================= 512-byte record accounting ================= *)
Definition blocks (l : list N) : Prop := exists k, length l = (512 * k)%nat.

Lemma blocks_nil : blocks []. Proof. exists O. reflexivity. Qed.

Lemma blocks_app a b : blocks a -> blocks b -> blocks (a ++ b).
Proof. intros [k Hk] [j Hj]. exists (k + j)%nat. rewrite app_length. lia. Qed.

Lemma blocks_hdr name mode uid gid size mtime type link maj min :
  blocks (hdr_bytes name mode uid gid size mtime type link maj min).
Proof. exists 1%nat. rewrite hdr_length. reflexivity. Qed.

Lemma padded_blocks (payload : list N) :
  blocks (payload ++ padding (N.of_nat (length payload))).
Proof.
  unfold blocks. rewrite app_length, padding_length. unfold round_pad.
  set (len := N.of_nat (length payload)).
  pose proof (N.div_mod len 512 ltac:(discriminate)) as Hd.
  pose proof (N.mod_lt len 512 ltac:(discriminate)) as Hm.
  destruct (len mod 512 =? 0) eqn:E.
  - apply N.eqb_eq in E. exists (N.to_nat (len / 512)). lia.
  - apply N.eqb_neq in E. exists (N.to_nat (len / 512) + 1)%nat. lia.
Qed.

Lemma blocks_ext orig payload ty nm : blocks (write_ext_header orig payload ty nm).
Proof.
  unfold write_ext_header. apply blocks_app; [apply blocks_hdr|apply padded_blocks].
Qed.

Lemma blocks_header e target xs counter b :
  write_tar_header e target xs counter = W_Ok b -> blocks b.
Proof.
  unfold write_tar_header. destruct (e_hardlink e).
  - intro H. apply (f_equal (fun w => match w with W_Ok x => x | _ => [] end)) in H.
    cbv beta iota in H. subst b. unfold write_hard_link.
    apply blocks_app; [|apply blocks_app; [|apply blocks_hdr]];
      match goal with |- blocks (if ?c then _ else _) => destruct c end;
      try apply blocks_nil; apply blocks_ext.
  - destruct (type_of_mode (e_mode e)); [|discriminate]. cbv zeta. intro H.
    apply (f_equal (fun w => match w with W_Ok x => x | _ => [] end)) in H.
    cbv beta iota in H. subst b.
    apply blocks_app; [|apply blocks_app; [|apply blocks_app]].
    + destruct xs; [apply blocks_nil|apply blocks_ext].
    + destruct (if ftype (e_mode e) =? S_IFLNK then target else None) as [t|]; [|apply blocks_nil].
      destruct (Nat.leb 100 (length t)); [apply blocks_ext|apply blocks_nil].
    + destruct (Nat.leb 100 (length (e_name e))); [apply blocks_ext|apply blocks_nil].
    + unfold write_header. apply blocks_hdr.
Qed.

Definition data_ok (t : tentry) : Prop :=
  is_reg (e_mode (te_e t)) && negb (e_hardlink (te_e t)) = true ->
  N.of_nat (length (te_data t)) = e_size (te_e t).

Lemma blocks_entries es : forall counter,
  Forall data_ok es -> blocks (write_entries es counter).
Proof.
  induction es as [|t es IH]; intros counter H; cbn [write_entries]; [apply blocks_nil|].
  inversion H as [|? ? Ht Hes]; subst.
  destruct (write_entry_hdr t counter) as [b|] eqn:E.
  - apply blocks_app; [eapply blocks_header; exact E|]. apply blocks_app; [|apply IH; exact Hes].
    destruct (is_reg (e_mode (te_e t)) && negb (e_hardlink (te_e t))) eqn:R; [|apply blocks_nil].
    rewrite <- (Ht R). apply padded_blocks.
  - apply IH. exact Hes.
Qed.

Local Transparent zeros.
Theorem archive_len_512_l es :
  Forall data_ok es -> (length (write_archive es) mod 512 = 0)%nat.
Proof.
  intro H. unfold write_archive.
  assert (B : blocks (write_entries es 0 ++ zeros 1024)).
  { apply blocks_app; [apply blocks_entries; exact H|]. exists 2%nat. apply zeros_length. }
  destruct B as [k Hk]. rewrite Hk. rewrite Nat.mul_comm. apply Nat.mod_mul. discriminate.
Qed.

(* ================= reading back what was written ================= *)
Lemma read_header_end : read_header (zeros 1024) = RH_Eof.
Proof. vm_compute. reflexivity. Qed.
Local Opaque zeros.

Lemma skipN_eq n s : skipN n s = skipn (N.to_nat n) s.
Proof.
  unfold skipN. destruct (N.of_nat (length s) <=? n) eqn:E; [|reflexivity].
  apply N.leb_le in E. symmetry. apply skipn_all2. lia.
Qed.

(* the consumer reads a plain (map-less) file: exactly the record *)
Lemma stream_plain k data rest :
  (2 <= k)%nat -> N.of_nat (length data) < two64 ->
  stream_go (greedy k) [] (N.of_nat (length data)) 0 (data ++ rest) [] =
  S_Done data rest (N.of_nat (length data)).
Proof.
  intros Hk Hs. destruct k as [|[|k]]; try lia. unfold greedy. cbn [repeat].
  destruct data as [|d data].
  - reflexivity.
  - set (all := (d :: data) ++ rest). set (size := N.of_nat (length (d :: data))) in *.
    assert (Hsz : 1 <= size) by (unfold size; cbn [length]; lia).
    cbn [stream_go].
    assert (E1 : (size <=? 0) = false) by (apply N.leb_gt; lia). rewrite E1.
    cbn [region]. assert (E2 : (size - 0 =? 0) = false) by (apply N.eqb_neq; lia). rewrite E2.
    unfold all at 1. cbn [app]. fold all.
    assert (Hall : N.of_nat (length all) = size + N.of_nat (length rest)).
    { unfold all, size. rewrite app_length. lia. }
    assert (En : N.to_nat (N.min (two64 + 1) (N.min (N.min (two64 + 1) (N.of_nat (length all)))
                                             (N.min (size - 0) (two64 + 1)))) = length (d :: data)).
    { unfold size in *. lia. }
    change (d :: data ++ rest) with all. rewrite En.
    unfold all. rewrite firstn_app_exact, skipn_app_exact by reflexivity.
    cbn [stream_go]. fold size.
    assert (E3 : (size <=? 0 + size) = true) by (apply N.leb_le; lia). rewrite E3.
    cbn [app]. rewrite N.add_0_l. reflexivity.
Qed.

Definition supported (t : tentry) : bool :=
  e_hardlink (te_e t) ||
  match type_of_mode (e_mode (te_e t)) with Some _ => true | None => false end.

Definition canon_name (s : list N) : list N :=
  match canon_model s with CanonOk n => n | _ => [] end.

(* what the tar iterator reports for an entry sqfs2tar wrote: write_entry
   hands write_tar_header the reversed xattr list, read_header reverses it
   once more *)
Definition view (t : tentry) : tentry :=
  let d := decoded_of (te_e t) (te_target t) (rev (te_xattr t)) in
  let e' := entry_of d (canon_name (e_name (te_e t))) in
  mkte e' (d_link d) (d_xattr d) (if is_reg (e_mode e') then te_data t else []).

(* the xattrs come back in the order the image stores them (hard link records
   carry none) *)
Lemma view_xattr t :
  te_xattr (view t) = if e_hardlink (te_e t) then [] else te_xattr t.
Proof.
  unfold view, decoded_of. cbn [te_xattr]. destruct (e_hardlink (te_e t)); cbn [d_xattr]; [reflexivity|].
  apply rev_involutive.
Qed.

Definition views (es : list tentry) : list tentry :=
  flat_map (fun t => if supported t then [view t] else []) es.

Definition entry_ok (t : tentry) : Prop :=
  wf_entry (te_e t) (te_target t) (te_xattr t) /\ data_ok t /\
  (exists n, canon_model (e_name (te_e t)) = CanonOk n).

(* reversing the xattr list keeps the caller's obligations *)
Lemma schily_payload_rev_length xs :
  length (schily_payload (rev xs)) = length (schily_payload xs).
Proof.
  unfold schily_payload. induction xs as [|x xs IH]; [reflexivity|].
  cbn [rev map concat]. rewrite map_app, concat_app, !app_length, IH. cbn [map concat].
  rewrite app_nil_r. lia.
Qed.

Lemma wf_entry_rev e target xs : wf_entry e target xs -> wf_entry e target (rev xs).
Proof.
  intros [W1 W2 W3 W4 W5 W6 W7 W8 W9 W10 W11]. constructor; try assumption.
  - apply Forall_rev. exact W10.
  - rewrite schily_payload_rev_length. exact W11.
Qed.

Lemma supported_ok t counter :
  supported t = true ->
  exists b, write_entry_hdr t counter = W_Ok b.
Proof.
  unfold supported, write_entry_hdr, write_tar_header. destruct (e_hardlink (te_e t)); [eauto|].
  destruct (type_of_mode (e_mode (te_e t))); [eauto|discriminate].
Qed.

Lemma unsupported_none t counter :
  supported t = false ->
  write_entry_hdr t counter = W_Unsupported.
Proof.
  unfold supported, write_entry_hdr. intro H. apply unsupported_iff. apply orb_false_elim in H. destruct H as [H1 H2].
  split; [exact H1|]. destruct (type_of_mode (e_mode (te_e t))); [discriminate|reflexivity].
Qed.

Lemma is_reg_decoded e target xs n :
  e_mode e < 65536 ->
  is_reg (e_mode (entry_of (decoded_of e target xs) n)) = is_reg (e_mode e) && negb (e_hardlink e).
Proof.
  intro Hm. unfold decoded_of, entry_of. destruct (e_hardlink e).
  - cbn [d_hl e_mode]. rewrite andb_false_r. reflexivity.
  - cbn [d_hl d_mode e_mode negb]. rewrite andb_true_r. unfold is_reg.
    destruct (ftype (e_mode e) =? S_IFLNK) eqn:E.
    + apply N.eqb_eq in E. rewrite E. reflexivity.
    + rewrite mode_recompose by exact Hm. reflexivity.
Qed.

Lemma decoded_facts e target xs :
  let d := decoded_of e target xs in
  d_unknown d = false /\ d_name d = Some (e_name e) /\ d_sparse d = [] /\
  d_record d = (if is_reg (e_mode e) && negb (e_hardlink e) then e_size e else 0) /\
  d_actual d = d_record d.
Proof.
  unfold decoded_of, is_reg. destruct (e_hardlink e); cbn; [rewrite andb_false_r; tauto|].
  rewrite andb_true_r. tauto.
Qed.

Theorem read_entries_written es : forall fuel counter,
  Forall entry_ok es -> (length (filter supported es) < fuel)%nat ->
  read_entries fuel (write_entries es counter ++ zeros 1024) = RA_Ok (views es).
Proof.
  induction es as [|t es IH]; intros fuel counter Hok Hf.
  - destruct fuel; [lia|]. cbn [write_entries app read_entries views flat_map].
    rewrite read_header_end. reflexivity.
  - inversion Hok as [|? ? (W & Hd & (n & Hn)) Hes]; subst.
    cbn [filter] in Hf.
    cbn [write_entries views flat_map]. destruct (supported t) eqn:Hs.
    2:{ rewrite (unsupported_none t counter Hs). cbn [app]. apply IH; [exact Hes|exact Hf]. }
    destruct fuel; [cbn in Hf; lia|]. cbn [length] in Hf.
    destruct (supported_ok t counter Hs) as (b & Hb). rewrite Hb.
    apply wf_entry_rev in W. unfold write_entry_hdr in Hb.
    set (e := te_e t) in *. set (d := decoded_of e (te_target t) (rev (te_xattr t))).
    set (tail := write_entries es (counter + 1) ++ zeros 1024).
    set (body := if is_reg (e_mode e) && negb (e_hardlink e)
                 then te_data t ++ padding (e_size e) else []).
    replace ((b ++ body ++ write_entries es (counter + 1)) ++ zeros 1024)
      with (b ++ (body ++ tail)) by (unfold tail; rewrite <- !app_assoc; reflexivity).
    cbn [read_entries]. rewrite (header_rt_l e (te_target t) (rev (te_xattr t)) counter (body ++ tail) b W Hb).
    fold d. destruct (decoded_facts e (te_target t) (rev (te_xattr t))) as (F1 & F2 & F3 & F4 & F5).
    fold d in F1, F2, F3, F4, F5. rewrite F1, F2, Hn.
    pose proof (is_reg_decoded e (te_target t) (rev (te_xattr t)) n (wf_mode _ _ _ W)) as Hreg. fold d in Hreg.
    rewrite Hreg. cbn [app]. unfold view. fold e. fold d. unfold canon_name. rewrite Hn. rewrite Hreg.
    rewrite F5, F4, F3.
    specialize (IH fuel (counter + 1) Hes ltac:(lia)). fold tail in IH.
    destruct (is_reg (e_mode e) && negb (e_hardlink e)) eqn:R.
    + (* regular file: header, data, padding *)
      pose proof (Hd R) as Hlen. fold e in Hlen. unfold body.
      rewrite <- Hlen. rewrite <- app_assoc.
      rewrite stream_plain; [| cbn [length Nat.mul Nat.add]; apply le_n_S, le_n_S, Nat.le_0_l | rewrite Hlen; apply (wf_size _ _ _ W)].
      rewrite !skipN_eq.
      replace (N.of_nat (length (te_data t ++ padding (N.of_nat (length (te_data t))) ++ tail)) -
               N.of_nat (length (padding (N.of_nat (length (te_data t))) ++ tail)))
        with (N.of_nat (length (te_data t))) by (rewrite !app_length; lia).
      rewrite Nat2N.id. rewrite skipn_app_exact by reflexivity.
      replace ((N.of_nat (length (te_data t)) + two64 - N.of_nat (length (te_data t))) mod two64) with 0.
      2:{ replace (N.of_nat (length (te_data t)) + two64 - N.of_nat (length (te_data t))) with two64 by lia.
          symmetry. apply N.mod_same. discriminate. }
      cbn [N.to_nat skipn]. rewrite skipn_app_exact by apply padding_length.
      rewrite IH. reflexivity.
    + unfold body. cbn [app]. rewrite !skipN_eq.
      replace ((0 + two64 - 0) mod two64) with 0 by reflexivity.
      cbn [N.to_nat skipn]. change (round_pad 0) with 0%nat. cbn [skipn].
      rewrite IH. reflexivity.
Qed.

Lemma written_length es : forall c,
  (length (filter supported es) <= length (write_entries es c))%nat.
Proof.
  induction es as [|t es IH]; intros c; [cbn; lia|].
  cbn [filter write_entries]. destruct (supported t) eqn:Hs.
  - destruct (supported_ok t c Hs) as (b & Hb). rewrite Hb.
    unfold write_entry_hdr in Hb. pose proof (write_tar_header_length _ _ _ _ _ Hb).
    specialize (IH (c + 1)). rewrite !app_length. cbn [length]. lia.
  - rewrite (unsupported_none t c Hs). apply IH.
Qed.

Theorem archive_rt_l es :
  Forall entry_ok es -> read_archive (write_archive es) = RA_Ok (views es).
Proof.
  intro H. unfold read_archive, write_archive. apply read_entries_written; [exact H|].
  rewrite app_length. pose proof (written_length es 0). lia.
Qed.

(* ================= tar2sqfs --root-becomes link retargeting (fix F21) ================= *)
(* a target that is not below the new root is stored untouched *)
Lemma is_prefix_firstn root : forall c, is_prefix root c = true -> firstn (length root) c = root.
Proof.
  induction root as [|a root IH]; intros c P; [reflexivity|].
  destruct c as [|b c]; [discriminate|]. cbn [is_prefix] in P. apply andb_prop in P. destruct P as [P1 P2].
  apply N.eqb_eq in P1. subst. cbn [length firstn]. f_equal. apply IH. exact P2.
Qed.

Lemma retarget_untouched root link :
  (forall r, canon_result link <> Some (root ++ 47 :: r)) -> retarget root link = link.
Proof.
  intro H. unfold retarget. unfold canon_result in H.
  destruct (canon_model link) as [c| |]; try reflexivity.
  destruct (is_prefix root c) eqn:P; [|reflexivity].
  destruct (skipn (length root) c) as [|x r] eqn:S; [reflexivity|].
  destruct (x =? 47) eqn:Ex; [|reflexivity]. apply N.eqb_eq in Ex. subst x.
  exfalso. apply (H r). f_equal.
  rewrite <- (firstn_skipn (length root) c) at 1. rewrite S. f_equal. apply is_prefix_firstn. exact P.
Qed.

(* a target below the new root is made absolute inside the image *)
Lemma retarget_prefixed root link r :
  canon_result link = Some (root ++ 47 :: r) -> retarget root link = 47 :: r.
Proof.
  intro H. unfold retarget. unfold canon_result in H.
  destruct (canon_model link) as [c| |]; try discriminate. injection H as ->.
  rewrite is_prefix_app. rewrite skipn_app_exact by reflexivity. reflexivity.
Qed.

(* the unpatched code: the half-rewritten buffer of a refused canonicalisation
   is stored ("./a/../b" becomes "a/a/../b"), and an absolute target outside
   the new root loses its leading slash ("/etc/x" becomes "etc/x") *)
Lemma retarget_old_refuted :
  exists root link, (forall r, canon_result link <> Some (root ++ 47 :: r)) /\ retarget_old root link <> link.
Proof.
  exists [114], [46;47;97;47;46;46;47;98]. split.
  - intros r. vm_compute. discriminate.
  - vm_compute. discriminate.
Qed.

Lemma retarget_old_refuted_abs :
  exists root link, (forall r, canon_result link <> Some (root ++ 47 :: r)) /\ retarget_old root link <> link.
Proof.
  exists [114], [47;101;116;99]. split.
  - intros r. vm_compute. intro H. discriminate.
  - vm_compute. discriminate.
Qed.

(* one entry, sqfs2tar's write_entry -> read_header: the xattrs come back in
   the order the image stores them *)
Lemma entry_rt_l t counter rest b :
  wf_entry (te_e t) (te_target t) (te_xattr t) ->
  write_entry_hdr t counter = W_Ok b ->
  exists d, read_header (b ++ rest) = RH_Ok d rest /\
            d = decoded_of (te_e t) (te_target t) (rev (te_xattr t)) /\
            d_xattr d = if e_hardlink (te_e t) then [] else te_xattr t.
Proof.
  intros W Hb. apply wf_entry_rev in W. unfold write_entry_hdr in Hb.
  eexists. split; [apply (header_rt_l _ _ _ _ rest _ W Hb)|]. split; [reflexivity|].
  rewrite decoded_xattr, rev_involutive. reflexivity.
Qed.

(* ================= the conversion fixpoint ================= *)
(* what write_tar_header looks at: two entries that agree on it produce the
   same bytes *)
Lemma write_ext_header_irrel o1 o2 payload ty nm :
  e_uid o1 = e_uid o2 -> e_gid o1 = e_gid o2 -> e_mtime o1 = e_mtime o2 ->
  write_ext_header o1 payload ty nm = write_ext_header o2 payload ty nm.
Proof.
  intros Hu Hg Hm. unfold write_ext_header. rewrite !write_header_ext, Hu, Hg, Hm. reflexivity.
Qed.

Definition is_dev (m : N) : bool := (ftype m =? S_IFCHR) || (ftype m =? S_IFBLK).

Lemma write_header_irrel e1 e2 nm sl ty :
  e_mode e1 = e_mode e2 -> e_uid e1 = e_uid e2 -> e_gid e1 = e_gid e2 -> e_mtime e1 = e_mtime e2 ->
  (is_reg (e_mode e1) = true -> e_size e1 = e_size e2) ->
  (is_dev (e_mode e1) = true -> e_rdev e1 = e_rdev e2) ->
  write_header e1 nm sl ty = write_header e2 nm sl ty.
Proof.
  intros Hm Hu Hg Ht Hs Hd. unfold write_header. unfold is_reg, is_dev in *. rewrite <- Hm, <- Hu, <- Hg, <- Ht.
  destruct (ftype (e_mode e1) =? S_IFREG); [rewrite (Hs eq_refl)|];
    (destruct ((ftype (e_mode e1) =? S_IFCHR) || (ftype (e_mode e1) =? S_IFBLK));
     [rewrite (Hd eq_refl)|]); reflexivity.
Qed.

Lemma write_tar_header_irrel e1 e2 tg1 tg2 xs1 xs2 c :
  e_name e1 = e_name e2 -> e_hardlink e1 = e_hardlink e2 ->
  e_mode e1 = e_mode e2 -> e_uid e1 = e_uid e2 -> e_gid e1 = e_gid e2 -> e_mtime e1 = e_mtime e2 ->
  (is_reg (e_mode e1) = true -> e_size e1 = e_size e2) ->
  (is_dev (e_mode e1) = true -> e_rdev e1 = e_rdev e2) ->
  (e_hardlink e1 = true \/ ftype (e_mode e1) = S_IFLNK -> tg1 = tg2) ->
  (e_hardlink e1 = false -> xs1 = xs2) ->
  write_tar_header e1 tg1 xs1 c = write_tar_header e2 tg2 xs2 c.
Proof.
  intros Hn Hh Hm Hu Hg Ht Hs Hd Htg Hx. unfold write_tar_header. rewrite <- Hh.
  destruct (e_hardlink e1) eqn:E.
  - rewrite <- (Htg (or_introl eq_refl)). unfold write_hard_link.
    rewrite <- Hn, <- Hm, <- Hu, <- Hg, <- Ht.
    rewrite (write_ext_header_irrel e1 e2 _ T_GNU_SLINK _ Hu Hg Ht).
    rewrite (write_ext_header_irrel e1 e2 _ T_GNU_PATH _ Hu Hg Ht). reflexivity.
  - rewrite <- (Hx eq_refl). rewrite <- Hm. destruct (type_of_mode (e_mode e1)) as [ty|]; [|reflexivity].
    cbv zeta. rewrite <- Hn.
    assert (Etg : (if ftype (e_mode e1) =? S_IFLNK then tg1 else None) =
                  (if ftype (e_mode e1) =? S_IFLNK then tg2 else None)).
    { destruct (ftype (e_mode e1) =? S_IFLNK) eqn:El; [|reflexivity].
      apply N.eqb_eq in El. apply Htg. right. exact El. }
    rewrite <- Etg.
    rewrite (write_ext_header_irrel e1 e2 _ T_PAX _ Hu Hg Ht).
    rewrite (write_ext_header_irrel e1 e2 _ T_GNU_PATH _ Hu Hg Ht).
    assert (Ek : forall t, write_ext_header e1 t T_GNU_SLINK (str_gnu_target ++ dec c) =
                           write_ext_header e2 t T_GNU_SLINK (str_gnu_target ++ dec c)).
    { intro t. apply write_ext_header_irrel; assumption. }
    assert (Ew : forall nm sl, write_header e1 nm sl ty = write_header e2 nm sl ty).
    { intros nm sl. apply write_header_irrel; assumption. }
    destruct (if ftype (e_mode e1) =? S_IFLNK then tg1 else None) as [t|];
      [rewrite Ek|]; rewrite Ew; reflexivity.
Qed.

(* the shape of an entry as sqfs2tar sees it in an image that tar2sqfs wrote:
   canonical name (directories with the trailing '/' sqfs2tar adds), 32-bit
   time stamp, links with the mode every reader forces on them, nothing tar
   cannot express *)
Record img_shape (t : tentry) : Prop := {
  is_supported : supported t = true;
  is_name : exists c, canon_model (e_name (te_e t)) = CanonOk c /\
                      e_name (te_e t) = if is_dir (e_mode (te_e t)) then c ++ [47] else c;
  is_mtime : clamp_mtime (e_mtime (te_e t)) = e_mtime (te_e t);
  is_linkmode : e_hardlink (te_e t) = true \/ ftype (e_mode (te_e t)) = S_IFLNK ->
                e_mode (te_e t) = S_IFLNK + 511
}.

Definition body (t : tentry) : list N :=
  if is_reg (e_mode (te_e t)) && negb (e_hardlink (te_e t))
  then te_data t ++ padding (e_size (te_e t)) else [].

Lemma write_entries_eq t r counter :
  write_entries (t :: r) counter =
  match write_entry_hdr t counter with
  | W_Unsupported => write_entries r (counter + 1)
  | W_Ok b => b ++ body t ++ write_entries r (counter + 1)
  end.
Proof. reflexivity. Qed.

(* mode of the entry the tar iterator delivers *)
Lemma view_mode t :
  e_mode (te_e t) < 65536 -> img_shape t -> e_mode (te_e (view t)) = e_mode (te_e t).
Proof.
  intros Hm S. unfold view, entry_of, decoded_of. cbn [te_e e_mode].
  destruct (e_hardlink (te_e t)) eqn:Hh; cbn [d_hl d_mode].
  - symmetry. apply (is_linkmode t S). left. exact Hh.
  - destruct (ftype (e_mode (te_e t)) =? S_IFLNK) eqn:El.
    + apply N.eqb_eq in El. symmetry. apply (is_linkmode t S). right. exact El.
    + apply mode_recompose. exact Hm.
Qed.

Lemma view_facts t :
  let e := te_e t in let v := view t in
  e_hardlink (te_e v) = e_hardlink e /\ e_uid (te_e v) = e_uid e /\ e_gid (te_e v) = e_gid e /\
  e_mtime (te_e v) = e_mtime e /\ e_name (te_e v) = canon_name (e_name e) /\
  (e_hardlink e = true \/ ftype (e_mode e) = S_IFLNK -> te_target v = te_target t) /\
  (is_reg (e_mode e) && negb (e_hardlink e) = true -> e_size (te_e v) = e_size e) /\
  (is_dev (e_mode e) = true -> e_hardlink e = false -> e_rdev (te_e v) = e_rdev e).
Proof.
  cbv zeta. unfold view, entry_of, decoded_of, is_reg, is_dev. cbn [te_e te_target].
  destruct (e_hardlink (te_e t)) eqn:Hh;
    cbn [d_hl d_uid d_gid d_mtime d_link d_mode d_actual d_dev e_hardlink e_uid e_gid e_mtime e_name e_size e_rdev e_mode].
  - repeat split; try reflexivity; try discriminate. rewrite andb_false_r. discriminate.
  - repeat split; try reflexivity.
    + intros [H|H]; [discriminate|]. rewrite H. reflexivity.
    + rewrite andb_true_r. intro R. rewrite R.
      assert (El : (ftype (e_mode (te_e t)) =? S_IFLNK) = false).
      { apply N.eqb_eq in R. rewrite R. reflexivity. }
      rewrite El. apply N.eqb_eq in R.
      assert (Er : is_reg (perm (e_mode (te_e t)) + ftype (e_mode (te_e t))) = true).
      { unfold is_reg. rewrite R. unfold ftype, perm.
        pose proof (N.mod_lt (e_mode (te_e t)) 4096 ltac:(discriminate)) as Hp.
        replace ((e_mode (te_e t) mod 4096 + S_IFREG) / 4096) with 8.
        - reflexivity.
        - unfold S_IFREG. apply N.div_unique with (r := e_mode (te_e t) mod 4096); lia. }
      unfold is_reg in Er. rewrite Er. reflexivity.
    + intros D _. rewrite D. reflexivity.
Qed.

(* one entry through sqfs2tar -> tar iterator -> tar2sqfs -> image: sqfs2tar
   writes the same bytes for it again *)
Lemma reimage_view_same t xs counter :
  e_mode (te_e t) < 65536 -> img_shape t ->
  (e_hardlink (te_e t) = false -> xs = te_xattr t) ->
  write_entry_hdr (reimage (view t) xs) counter = write_entry_hdr t counter /\
  body (reimage (view t) xs) = body t.
Proof.
  intros Hm S Hxs. pose proof (view_mode t Hm S) as Emode.
  destruct (view_facts t) as (Fh & Fu & Fg & Ft & Fn & Ftg & Fs & Fd).
  destruct (is_name t S) as (c & Hc & Hname).
  assert (Ename : e_name (te_e (reimage (view t) xs)) = e_name (te_e t)).
  { unfold reimage. cbn [te_e e_name]. rewrite Emode, Fn. unfold canon_name. rewrite Hc. symmetry. exact Hname. }
  assert (Elm : e_hardlink (te_e t) = true -> is_reg (e_mode (te_e t)) = false).
  { intro Hh. rewrite (is_linkmode t S (or_introl Hh)). reflexivity. }
  split.
  - unfold write_entry_hdr. apply write_tar_header_irrel.
    + exact Ename.
    + unfold reimage. cbn [te_e e_hardlink]. exact Fh.
    + unfold reimage. cbn [te_e e_mode]. exact Emode.
    + unfold reimage. cbn [te_e e_uid]. exact Fu.
    + unfold reimage. cbn [te_e e_gid]. exact Fg.
    + unfold reimage. cbn [te_e e_mtime]. rewrite Ft. apply (is_mtime t S).
    + unfold reimage. cbn [te_e e_mode e_size]. rewrite Emode. intro R. apply Fs. rewrite R.
      destruct (e_hardlink (te_e t)) eqn:Hh; [|reflexivity]. rewrite (Elm eq_refl) in R. discriminate.
    + unfold reimage. cbn [te_e e_mode e_rdev]. rewrite Emode. intro D. apply Fd; [exact D|].
      destruct (e_hardlink (te_e t)) eqn:Hh; [|reflexivity].
      unfold is_dev in D. rewrite (is_linkmode t S (or_introl Hh)) in D. discriminate.
    + unfold reimage. cbn [te_e te_target e_mode e_hardlink]. rewrite Emode, Fh. exact Ftg.
    + unfold reimage. cbn [te_e te_xattr e_hardlink]. rewrite Fh. intro Hh. rewrite (Hxs Hh). reflexivity.
  - unfold body, reimage. cbn [te_e te_data e_mode e_hardlink e_size]. rewrite Emode, Fh.
    destruct (is_reg (e_mode (te_e t)) && negb (e_hardlink (te_e t))) eqn:R; [|reflexivity].
    rewrite (Fs eq_refl). unfold view. cbn [te_data].
    change (entry_of _ _) with (te_e (view t)). rewrite Emode.
    apply andb_prop in R. destruct R as [R _]. rewrite R. reflexivity.
Qed.

Lemma views_all_supported es :
  Forall (fun t => supported t = true) es -> views es = map view es.
Proof.
  induction es as [|t es IH]; intro H; [reflexivity|]. inversion H as [|? ? Ht Hes]; subst.
  unfold views in *. cbn [flat_map map]. rewrite Ht. cbn [app]. rewrite IH by exact Hes. reflexivity.
Qed.

(* ---- the xattr writer's order ---- *)
Fixpoint xsorted (tbl : list (list N)) (l : list xattr) : Prop :=
  match l with
  | [] => True
  | x :: r => match r with
              | [] => True
              | y :: _ => (key_pos tbl (fst x) <= key_pos tbl (fst y))%nat
              end /\ xsorted tbl r
  end.

Lemma xins_sorted tbl x l : xsorted tbl l -> xsorted tbl (xins tbl x l).
Proof.
  induction l as [|y r IH]; intro H; cbn [xins]; [cbn; tauto|].
  destruct (Nat.leb (key_pos tbl (fst x)) (key_pos tbl (fst y))) eqn:E.
  - apply Nat.leb_le in E. cbn [xsorted]. split; [exact E|exact H].
  - apply Nat.leb_gt in E. cbn [xsorted] in H. destruct H as [H1 H2]. specialize (IH H2).
    cbn [xsorted]. split; [|exact IH].
    destruct r as [|z r']; cbn [xins].
    + lia.
    + destruct (Nat.leb (key_pos tbl (fst x)) (key_pos tbl (fst z))); lia.
Qed.

Lemma xsort_sorted tbl l : xsorted tbl (xsort tbl l).
Proof. induction l as [|x l IH]; cbn [xsort fold_right]; [exact I|]. apply xins_sorted. exact IH. Qed.

Lemma xsort_of_sorted tbl l : xsorted tbl l -> xsort tbl l = l.
Proof.
  induction l as [|x r IH]; intro H; [reflexivity|]. cbn [xsorted] in H. destruct H as [H1 H2].
  change (xsort tbl (x :: r)) with (xins tbl x (xsort tbl r)). rewrite (IH H2).
  destruct r as [|y r']; [reflexivity|]. cbn [xins]. apply Nat.leb_le in H1. rewrite H1. reflexivity.
Qed.

Lemma xins_Forall (P : xattr -> Prop) tbl x l : P x -> Forall P l -> Forall P (xins tbl x l).
Proof.
  intros Hx. induction l as [|y r IH]; intro H; cbn [xins]; [repeat constructor; exact Hx|].
  inversion H; subst. destruct (Nat.leb _ _); constructor; auto.
Qed.

Lemma xsort_Forall (P : xattr -> Prop) tbl l : Forall P l -> Forall P (xsort tbl l).
Proof.
  induction l as [|x l IH]; intro H; [constructor|]. inversion H; subst.
  change (xsort tbl (x :: l)) with (xins tbl x (xsort tbl l)). apply xins_Forall; auto.
Qed.

Lemma filter_all {A} (f : A -> bool) l : Forall (fun x => f x = true) l -> filter f l = l.
Proof. induction 1 as [|x l Hx Hl IH]; cbn [filter]; [reflexivity|]. rewrite Hx, IH. reflexivity. Qed.

Lemma filter_none {A} (f : A -> bool) l : Forall (fun x => f x = false) l -> filter f l = [].
Proof. induction 1 as [|x l Hx Hl IH]; cbn [filter]; [reflexivity|]. rewrite Hx. exact IH. Qed.

Lemma filter_Forall_true {A} (f : A -> bool) l : Forall (fun x => f x = true) (filter f l).
Proof. apply Forall_forall. intros x Hx. apply filter_In in Hx. apply Hx. Qed.

(* storing what was stored changes nothing: same table, same order *)
Lemma store_xattrs_idem tbl xs :
  store_xattrs tbl (snd (store_xattrs tbl xs)) = store_xattrs tbl xs.
Proof.
  unfold store_xattrs. cbn [snd].
  set (f := fun x : list N * list N => key_mem tbl (fst x)).
  set (g := fun x : list N * list N => negb (key_mem tbl (fst x))).
  set (old := filter f xs). set (nw := filter g xs).
  assert (Ho : Forall (fun x => f x = true) (xsort tbl old)).
  { apply xsort_Forall. apply filter_Forall_true. }
  assert (Hn : Forall (fun x => g x = true) nw) by apply filter_Forall_true.
  assert (Ho' : Forall (fun x => g x = false) (xsort tbl old)).
  { eapply Forall_impl; [|exact Ho]. intros x Hx. unfold g. unfold f in Hx. rewrite Hx. reflexivity. }
  assert (Hn' : Forall (fun x => f x = false) nw).
  { eapply Forall_impl; [|exact Hn]. intros x Hx. unfold g in Hx. unfold f.
    destruct (key_mem tbl (fst x)); [discriminate|reflexivity]. }
  rewrite !filter_app. unfold xattr in *.
  rewrite (filter_all f _ Ho), (filter_none f _ Hn'), (filter_none g _ Ho'), (filter_all g _ Hn).
  rewrite app_nil_r. cbn [app]. rewrite xsort_of_sorted by apply xsort_sorted. reflexivity.
Qed.

Lemma store_xattrs_nil tbl : store_xattrs tbl [] = (tbl ++ [], []).
Proof. reflexivity. Qed.

(* the xattr lists of an image are the ones the xattr writer produces for
   this sequence of entries (hard link records carry no xattrs) *)
Fixpoint settled (tbl : list (list N)) (es : list tentry) : Prop :=
  match es with
  | [] => True
  | t :: r =>
    let xs := if e_hardlink (te_e t) then [] else te_xattr t in
    snd (store_xattrs tbl xs) = xs /\ settled (fst (store_xattrs tbl xs)) r
  end.

Lemma write_entries_reimage es : forall tbl counter,
  Forall entry_ok es -> Forall img_shape es -> settled tbl es ->
  write_entries (reimage_all tbl (map view es)) counter = write_entries es counter.
Proof.
  induction es as [|t es IH]; intros tbl counter Hok Hsh Hst; [reflexivity|].
  inversion Hok as [|? ? (W & _ & _) Hok']; inversion Hsh as [|? ? S Hsh']; subst.
  cbn [settled] in Hst. destruct Hst as [Hx Hst].
  cbn [map reimage_all]. rewrite !write_entries_eq. rewrite view_xattr.
  destruct (reimage_view_same t (snd (store_xattrs tbl (if e_hardlink (te_e t) then [] else te_xattr t)))
                              counter (wf_mode _ _ _ W) S) as (Eh & Eb).
  { intro Hh. rewrite Hx, Hh. reflexivity. }
  rewrite Eh, Eb, IH by assumption. reflexivity.
Qed.

(* tar -> sqfs -> tar -> sqfs: the second archive is the first, byte for byte *)
Theorem conv_fixpoint_l es :
  Forall entry_ok es -> Forall img_shape es -> settled [] es ->
  exists es', convert es = RA_Ok es' /\ write_archive es' = write_archive es.
Proof.
  intros Hok Hsh Hst. unfold convert. rewrite (archive_rt_l es Hok).
  eexists. split; [reflexivity|].
  rewrite views_all_supported.
  - unfold write_archive. rewrite write_entries_reimage by assumption. reflexivity.
  - eapply Forall_impl; [|exact Hsh]. intros t S. apply (is_supported t S).
Qed.

(* ================= one round reaches that shape ================= *)
(* characters of a canonicalised name: those of the input, and '/' *)
Section CanonChars.
  Variable P : N -> Prop.
  Hypothesis P_slash : P 47.

  Lemma split_slash_chars s : Forall P s -> Forall (Forall P) (split_slash s).
  Proof.
    induction s as [|c r IH]; intro H; cbn [split_slash]; [repeat constructor|].
    inversion H as [|? ? Hc Hr]; subst. specialize (IH Hr).
    destruct (N.eqb c slash); [constructor; [constructor|exact IH]|].
    destruct (split_slash r) as [|h t]; [repeat constructor; exact Hc|].
    inversion IH; subst. constructor; [constructor; assumption|assumption].
  Qed.

  Lemma join_chars cs : Forall (Forall P) cs -> Forall P (join cs).
  Proof.
    induction cs as [|c r IH]; intro H; [constructor|]. inversion H as [|? ? Hc Hr]; subst.
    rewrite join_cons. apply Forall_app. split; [exact Hc|].
    destruct r as [|c' r']; [constructor|]. unfold pj. constructor; [exact P_slash|apply IH; exact Hr].
  Qed.

  Lemma Forall_filter {A} (Q : A -> Prop) f l : Forall Q l -> Forall Q (filter f l).
  Proof.
    intro H. apply Forall_forall. intros x Hx. apply filter_In in Hx. rewrite Forall_forall in H. apply H, Hx.
  Qed.

  Lemma canon_chars s r : canon_result s = Some r -> Forall P s -> Forall P r.
  Proof.
    rewrite canon_refines_l. intros H Hs. destruct (spec_comps s r H) as (cs & -> & _ & _ & ->).
    apply join_chars. unfold comps. apply Forall_filter, Forall_filter, split_slash_chars. exact Hs.
  Qed.
End CanonChars.

Lemma canon_model_result s c : canon_model s = CanonOk c <-> canon_result s = Some c.
Proof.
  unfold canon_result. destruct (canon_model s); split; intro H; try discriminate; injection H as ->; reflexivity.
Qed.

Lemma canon_str_ok s c : canon_model s = CanonOk c -> str_ok s -> str_ok c.
Proof.
  intros H [H0 Hb]. apply canon_model_result in H.
  assert (HP : Forall (fun x => x <> 0 /\ byte_ok x) c).
  { assert (P47 : (47 <> 0 /\ byte_ok 47)) by (split; [discriminate|reflexivity]).
    apply (canon_chars (fun x => x <> 0 /\ byte_ok x) P47 s c H).
    apply Forall_forall. intros x Hx. split; [intro E; subst; exact (H0 Hx)|].
    rewrite Forall_forall in Hb. apply Hb, Hx. }
  rewrite Forall_forall in HP. split.
  - intro Hin. destruct (HP 0 Hin) as [Hne _]. apply Hne. reflexivity.
  - apply Forall_forall. intros x Hx. apply (HP x Hx).
Qed.

(* a canonical name stays what it is, with or without a trailing '/' *)
Lemma canon_of_canonical s c : canon_model s = CanonOk c ->
  canon_model c = CanonOk c /\ canon_model (c ++ [47]) = CanonOk c.
Proof.
  intro H. apply canon_model_result in H. apply canon_idem_l in H.
  split; apply canon_model_result; [exact H|].
  rewrite canon_refines_l in *. unfold canon_spec in *.
  assert (E : comps (c ++ [47]) = comps c).
  { unfold comps. change [47] with (slash :: []). rewrite split_app, filter_app. cbn [split_slash filter nonempty].
    apply app_nil_r. }
  rewrite E. exact H.
Qed.

Lemma clamp_idem x : clamp_mtime (clamp_mtime x) = clamp_mtime x.
Proof.
  unfold clamp_mtime. destruct (x <? 0)%Z eqn:E1; [reflexivity|].
  destruct (4294967295 <? x)%Z eqn:E2; [reflexivity|]. rewrite E1, E2. reflexivity.
Qed.

Lemma clamp_ok x : mtime_ok (clamp_mtime x).
Proof.
  unfold clamp_mtime, mtime_ok, two63. destruct (x <? 0)%Z eqn:E1; [lia|].
  destruct (4294967295 <? x)%Z eqn:E2; lia.
Qed.

(* mode of the entry the tar iterator delivers, without the shape hypothesis *)
Lemma view_mode_gen t :
  e_mode (te_e t) < 65536 ->
  e_mode (te_e (view t)) =
  if e_hardlink (te_e t) || (ftype (e_mode (te_e t)) =? S_IFLNK) then S_IFLNK + 511 else e_mode (te_e t).
Proof.
  intro Hm. unfold view, entry_of, decoded_of. cbn [te_e e_mode].
  destruct (e_hardlink (te_e t)); cbn [d_hl d_mode orb]; [reflexivity|].
  destruct (ftype (e_mode (te_e t)) =? S_IFLNK); [reflexivity|]. apply mode_recompose. exact Hm.
Qed.

Definition short_name (t : tentry) : Prop := N.of_nat (length (e_name (te_e t))) < MAX_LEN.

Lemma reimage_view_shape t xs :
  entry_ok t -> supported t = true -> img_shape (reimage (view t) xs).
Proof.
  intros (W & _ & (c & Hc)) Hs.
  pose proof (view_mode_gen t (wf_mode _ _ _ W)) as Em.
  destruct (view_facts t) as (Fh & Fu & Fg & Ft & Fn & Ftg & Fs & Fd).
  destruct (canon_of_canonical _ _ Hc) as (C1 & C2).
  constructor.
  - unfold supported, reimage. cbn [te_e e_hardlink e_mode]. rewrite Fh, Em.
    unfold supported in Hs. destruct (e_hardlink (te_e t)); [reflexivity|]. cbn [orb] in *.
    destruct (ftype (e_mode (te_e t)) =? S_IFLNK); [reflexivity|exact Hs].
  - exists c. unfold reimage. cbn [te_e e_name e_mode]. rewrite Fn. unfold canon_name. rewrite Hc.
    destruct (is_dir (e_mode (te_e (view t)))); [split; [exact C2|reflexivity]|split; [exact C1|reflexivity]].
  - unfold reimage. cbn [te_e e_mtime]. apply clamp_idem.
  - unfold reimage. cbn [te_e e_hardlink e_mode]. rewrite Fh, Em.
    destruct (e_hardlink (te_e t)); cbn [orb]; [reflexivity|].
    destruct (ftype (e_mode (te_e t)) =? S_IFLNK) eqn:El; [reflexivity|].
    intros [H|H]; [discriminate|]. apply N.eqb_neq in El. contradiction.
Qed.

Lemma reimage_view_ok t xs :
  entry_ok t -> short_name t ->
  Forall xattr_ok xs -> length (schily_payload xs) = length (schily_payload (te_xattr (view t))) ->
  entry_ok (reimage (view t) xs).
Proof.
  intros (W & Hd & (c & Hc)) Hshort Hxok Hxlen.
  pose proof (view_mode_gen t (wf_mode _ _ _ W)) as Em.
  destruct (view_facts t) as (Fh & Fu & Fg & Ft & Fn & Ftg & Fs & Fd).
  destruct (canon_of_canonical _ _ Hc) as (C1 & C2).
  pose proof (canon_str_ok _ _ Hc (wf_name _ _ _ W)) as (Sc1 & Sc2).
  assert (Hclen : (length c <= length (e_name (te_e t)))%nat).
  { apply canon_no_grow_l. apply canon_model_result. exact Hc. }
  assert (Hm' : e_mode (te_e (view t)) < 65536).
  { rewrite Em. destruct (e_hardlink (te_e t) || (ftype (e_mode (te_e t)) =? S_IFLNK));
      [reflexivity|apply (wf_mode _ _ _ W)]. }
  assert (Hreg : is_reg (e_mode (te_e (view t))) = is_reg (e_mode (te_e t)) && negb (e_hardlink (te_e t))).
  { apply (is_reg_decoded (te_e t) (te_target t) (rev (te_xattr t)) (canon_name (e_name (te_e t)))
                          (wf_mode _ _ _ W)). }
  assert (Hname : e_name (te_e (reimage (view t) xs)) =
                  if is_dir (e_mode (te_e (view t))) then c ++ [47] else c).
  { unfold reimage. cbn [te_e e_name]. rewrite Fn. unfold canon_name. rewrite Hc. reflexivity. }
  split; [|split].
  - constructor.
    + rewrite Hname. destruct (is_dir (e_mode (te_e (view t)))); [|split; assumption]. split.
      * apply no_nul_app; [exact Sc1|]. intros [E|[]]. discriminate.
      * apply Forall_app. split; [exact Sc2|]. repeat constructor.
    + rewrite Hname. unfold short_name in Hshort.
      destruct (is_dir (e_mode (te_e (view t)))); [rewrite app_length; cbn [length]|]; lia.
    + unfold reimage. cbn [te_e e_mode]. exact Hm'.
    + unfold reimage. cbn [te_e e_uid]. rewrite Fu. apply (wf_uid _ _ _ W).
    + unfold reimage. cbn [te_e e_gid]. rewrite Fg. apply (wf_gid _ _ _ W).
    + unfold reimage, view, entry_of. cbn [te_e e_size].
      match goal with |- (if ?b then _ else _) < _ => destruct b; [|reflexivity] end.
      unfold decoded_of. destruct (e_hardlink (te_e t)); cbn [d_actual]; [reflexivity|].
      destruct (ftype (e_mode (te_e t)) =? S_IFREG); [apply (wf_size _ _ _ W)|reflexivity].
    + unfold reimage. cbn [te_e e_mtime]. apply clamp_ok.
    + unfold reimage, view, entry_of, decoded_of. cbn [te_e e_rdev].
      destruct (e_hardlink (te_e t)); cbn [d_dev]; [reflexivity|].
      match goal with |- (if ?b then _ else _) < _ => destruct b; [apply (wf_rdev _ _ _ W)|reflexivity] end.
    + unfold reimage. cbn [te_e te_target e_hardlink e_mode]. rewrite Fh, Em. intro H.
      assert (H' : e_hardlink (te_e t) = true \/ ftype (e_mode (te_e t)) = S_IFLNK).
      { destruct (e_hardlink (te_e t)); [left; reflexivity|]. cbn [orb] in H.
        destruct (ftype (e_mode (te_e t)) =? S_IFLNK) eqn:El; [right; apply N.eqb_eq; exact El|].
        destruct H as [H|H]; [discriminate|]. apply N.eqb_neq in El. contradiction. }
      rewrite (Ftg H'). apply (wf_target _ _ _ W H').
    + unfold reimage. cbn [te_xattr]. exact Hxok.
    + unfold reimage. cbn [te_xattr]. rewrite Hxlen, view_xattr.
      destruct (e_hardlink (te_e t)); [cbn; unfold MAX_LEN; lia|apply (wf_xattr_len _ _ _ W)].
  - unfold data_ok, reimage. cbn [te_e te_data e_mode e_hardlink e_size]. rewrite Fh.
    intro R. apply andb_prop in R. destruct R as [R1 R2]. rewrite Hreg in R1.
    rewrite (Fs R1). unfold view. cbn [te_data].
    change (entry_of _ _) with (te_e (view t)). rewrite Hreg, R1. apply Hd. exact R1.
  - exists c. rewrite Hname. destruct (is_dir (e_mode (te_e (view t)))); assumption.
Qed.

(* the stored list is a rearrangement of the decoded one *)
Lemma xins_perm tbl x l : Permutation (xins tbl x l) (x :: l).
Proof.
  induction l as [|y r IH]; cbn [xins]; [apply Permutation_refl|].
  destruct (Nat.leb _ _); [apply Permutation_refl|].
  eapply Permutation_trans; [apply perm_skip; exact IH|apply perm_swap].
Qed.

Lemma xsort_perm tbl l : Permutation (xsort tbl l) l.
Proof.
  induction l as [|x l IH]; [apply Permutation_refl|].
  change (xsort tbl (x :: l)) with (xins tbl x (xsort tbl l)).
  eapply Permutation_trans; [apply xins_perm|apply perm_skip; exact IH].
Qed.

Lemma filter_split_perm {A} (f : A -> bool) l :
  Permutation (filter f l ++ filter (fun x => negb (f x)) l) l.
Proof.
  induction l as [|x l IH]; [apply Permutation_refl|]. cbn [filter].
  destruct (f x); cbn [negb app]; [apply perm_skip; exact IH|].
  eapply Permutation_trans; [apply Permutation_sym, Permutation_middle|apply perm_skip; exact IH].
Qed.

Lemma store_xattrs_perm tbl xs : Permutation (snd (store_xattrs tbl xs)) xs.
Proof.
  unfold store_xattrs. cbn [snd].
  eapply Permutation_trans; [apply Permutation_app_tail, xsort_perm|].
  apply (filter_split_perm (fun x => key_mem tbl (fst x))).
Qed.

Lemma schily_payload_perm xs ys :
  Permutation xs ys -> length (schily_payload xs) = length (schily_payload ys).
Proof.
  unfold schily_payload. induction 1 as [|x l l' H IH|x y l|l l' l'' H1 IH1 H2 IH2];
    cbn [map concat]; rewrite ?app_length; lia.
Qed.

(* any image at all: the first round may change the archive (sockets vanish,
   symlink permissions become 0777, time stamps are clamped, names are
   canonicalised, the xattrs of an inode are rearranged into the order of the
   new image's key table), the second round changes nothing *)
Lemma round_one es : forall tbl,
  Forall entry_ok es -> Forall short_name es ->
  let es1 := reimage_all tbl (views es) in
  Forall entry_ok es1 /\ Forall img_shape es1 /\ settled tbl es1.
Proof.
  induction es as [|t es IH]; intros tbl Hok Hsh; cbv zeta; [repeat split; constructor|].
  inversion Hok as [|? ? Ht Hes]; inversion Hsh as [|? ? St Ses]; subst.
  unfold views in *. cbn [flat_map].
  destruct (supported t) eqn:Hs; cbn [app]; [|apply IH; assumption].
  cbn [reimage_all].
  set (st := store_xattrs tbl (te_xattr (view t))).
  destruct (IH (fst st) Hes Ses) as (I1 & I2 & I3).
  assert (Hperm : Permutation (snd st) (te_xattr (view t))) by apply store_xattrs_perm.
  split; [|split].
  - constructor; [|exact I1]. apply reimage_view_ok; try assumption.
    + eapply Permutation_Forall; [apply Permutation_sym; exact Hperm|].
      rewrite view_xattr. destruct Ht as (W & _). destruct (e_hardlink (te_e t)); [constructor|apply (wf_xattr _ _ _ W)].
    + apply schily_payload_perm. exact Hperm.
  - constructor; [|exact I2]. apply reimage_view_shape; assumption.
  - cbn [settled].
    change (te_xattr (reimage (view t) (snd st))) with (snd st).
    change (e_hardlink (te_e (reimage (view t) (snd st)))) with (e_hardlink (te_e (view t))).
    assert (E : (if e_hardlink (te_e (view t)) then [] else snd st) = snd st).
    { destruct (e_hardlink (te_e (view t))) eqn:Hh; [|reflexivity].
      unfold st. rewrite view_xattr.
      destruct (view_facts t) as (Fh & _). rewrite Fh in Hh. rewrite Hh. reflexivity. }
    rewrite E. unfold st at 1 2 3. rewrite store_xattrs_idem. fold st. split; [reflexivity|exact I3].
Qed.

Theorem conv_second_round_l es :
  Forall entry_ok es -> Forall short_name es ->
  exists es1 es2, convert es = RA_Ok es1 /\ convert es1 = RA_Ok es2 /\
                  write_archive es2 = write_archive es1.
Proof.
  intros Hok Hsh.
  assert (H1 : convert es = RA_Ok (reimage_all [] (views es))).
  { unfold convert. rewrite (archive_rt_l es Hok). reflexivity. }
  destruct (round_one es [] Hok Hsh) as (Hok1 & Hsh1 & Hst1).
  destruct (conv_fixpoint_l _ Hok1 Hsh1 Hst1) as (es2 & H2 & H3).
  exists (reimage_all [] (views es)), es2. repeat split; assumption.
Qed.

(* ================= the unrepaired sqfs2tar ================= *)
Lemma list_eqb_false a b : list_eqb a b = false -> a <> b.
Proof. intros H E. subst. rewrite list_eqb_refl in H. discriminate. Qed.

(* ---- boolean checkers for the hypotheses (used by the examples) ---- *)
Definition str_okb (s : list N) : bool := forallb (fun c => negb (c =? 0) && (c <? 256)) s.
Definition xattr_okb (x : xattr) : bool :=
  forallb (fun c => negb (c =? 0) && negb (c =? 61)) (fst x) && (rec_len (fst x) (snd x) <? two64).

Definition entry_okb (t : tentry) : bool :=
  let e := te_e t in
  str_okb (e_name e) && (N.of_nat (length (e_name e)) <=? MAX_LEN) && (e_mode e <? 65536) &&
  (e_uid e <? lim8) && (e_gid e <? lim8) && (e_size e <? two64) &&
  (- Z.of_N two63 <? e_mtime e)%Z && (e_mtime e <? Z.of_N two63)%Z && (e_rdev e <? two32) &&
  (if e_hardlink e || (ftype (e_mode e) =? S_IFLNK)
   then match te_target t with
        | Some tg => str_okb tg && (N.of_nat (length tg) <=? MAX_LEN)
        | None => false
        end
   else true) &&
  forallb xattr_okb (te_xattr t) && (N.of_nat (length (schily_payload (te_xattr t))) <=? MAX_LEN) &&
  (if is_reg (e_mode e) && negb (e_hardlink e) then N.of_nat (length (te_data t)) =? e_size e else true) &&
  match canon_model (e_name e) with CanonOk _ => true | _ => false end.

Lemma str_okb_sound s : str_okb s = true -> str_ok s.
Proof.
  unfold str_okb. rewrite forallb_forall. intro H. split.
  - intro Hin. specialize (H 0 Hin). discriminate.
  - apply Forall_forall. intros x Hx. specialize (H x Hx). apply andb_prop in H. destruct H as [_ H].
    apply N.ltb_lt. exact H.
Qed.

Lemma entry_okb_sound t : entry_okb t = true -> entry_ok t.
Proof.
  unfold entry_okb. cbv zeta. intro H.
  apply andb_prop in H; destruct H as [H Bcanon].
  apply andb_prop in H; destruct H as [H Bdata].
  apply andb_prop in H; destruct H as [H Bpay].
  apply andb_prop in H; destruct H as [H Bx].
  apply andb_prop in H; destruct H as [H Btg].
  apply andb_prop in H; destruct H as [H Brdev].
  apply andb_prop in H; destruct H as [H Bmt2].
  apply andb_prop in H; destruct H as [H Bmt1].
  apply andb_prop in H; destruct H as [H Bsize].
  apply andb_prop in H; destruct H as [H Bgid].
  apply andb_prop in H; destruct H as [H Buid].
  apply andb_prop in H; destruct H as [H Bmode].
  apply andb_prop in H; destruct H as [Bname Blen].
  split; [|split].
  - constructor.
    + apply str_okb_sound. exact Bname.
    + apply N.leb_le. exact Blen.
    + apply N.ltb_lt. exact Bmode.
    + apply N.ltb_lt. exact Buid.
    + apply N.ltb_lt. exact Bgid.
    + apply N.ltb_lt. exact Bsize.
    + unfold mtime_ok. apply Z.ltb_lt in Bmt1, Bmt2. split; assumption.
    + apply N.ltb_lt. exact Brdev.
    + intro Hl.
      assert (E : e_hardlink (te_e t) || (ftype (e_mode (te_e t)) =? S_IFLNK) = true).
      { destruct Hl as [Hl|Hl]; rewrite Hl; [reflexivity|]. rewrite N.eqb_refl. apply orb_true_r. }
      rewrite E in Btg. destruct (te_target t) as [tg|]; [|discriminate].
      apply andb_prop in Btg. destruct Btg as [T1 T2]. exists tg. split; [reflexivity|].
      split; [apply str_okb_sound; exact T1|apply N.leb_le; exact T2].
    + apply Forall_forall. intros x Hx. rewrite forallb_forall in Bx. specialize (Bx x Hx).
      unfold xattr_okb in Bx. apply andb_prop in Bx. destruct Bx as [K1 K2]. split.
      * intros c Hc. rewrite forallb_forall in K1. specialize (K1 c Hc). apply andb_prop in K1.
        destruct K1 as [K1 K1']. split; intro E; subst; discriminate.
      * apply N.ltb_lt. exact K2.
    + apply N.leb_le. exact Bpay.
  - unfold data_ok. intro R. rewrite R in Bdata. apply N.eqb_eq. exact Bdata.
  - destruct (canon_model (e_name (te_e t))) as [c| |]; try discriminate. exists c. reflexivity.
Qed.

Definition img_shapeb (t : tentry) : bool :=
  let e := te_e t in
  supported t &&
  match canon_model (e_name e) with
  | CanonOk c => list_eqb (e_name e) (if is_dir (e_mode e) then c ++ [47] else c)
  | _ => false
  end &&
  (clamp_mtime (e_mtime e) =? e_mtime e)%Z &&
  (if e_hardlink e || (ftype (e_mode e) =? S_IFLNK) then e_mode e =? S_IFLNK + 511 else true).

Lemma list_eqb_true a : forall b, list_eqb a b = true -> a = b.
Proof.
  induction a as [|x a IH]; intros [|y b] H; cbn [list_eqb] in H; try discriminate; [reflexivity|].
  apply andb_prop in H. destruct H as [H1 H2]. apply N.eqb_eq in H1. subst. f_equal. apply IH. exact H2.
Qed.

Lemma img_shapeb_sound t : img_shapeb t = true -> img_shape t.
Proof.
  unfold img_shapeb. cbv zeta. intro H.
  apply andb_prop in H; destruct H as [H Blm].
  apply andb_prop in H; destruct H as [H Bmt].
  apply andb_prop in H; destruct H as [Bsup Bname].
  constructor.
  - exact Bsup.
  - destruct (canon_model (e_name (te_e t))) as [c| |]; try discriminate. exists c.
    split; [reflexivity|apply list_eqb_true; exact Bname].
  - apply Z.eqb_eq. exact Bmt.
  - intro Hl.
    assert (E : e_hardlink (te_e t) || (ftype (e_mode (te_e t)) =? S_IFLNK) = true).
    { destruct Hl as [Hl|Hl]; rewrite Hl; [reflexivity|]. rewrite N.eqb_refl. apply orb_true_r. }
    rewrite E in Blm. apply N.eqb_eq. exact Blm.
Qed.

(* ---- the witness: one file with two xattrs ---- *)
Definition x_user_a : xattr := ([117;115;101;114;46;97], [1]).   (* user.a *)
Definition x_user_b : xattr := ([117;115;101;114;46;98], [2]).   (* user.b *)
Definition osc_entry (xs : list xattr) : tentry :=
  mkte (mkentry [102] (S_IFREG + 420) 0 0 1 5%Z 0 false) None xs [104].
Definition osc_a : list tentry := [osc_entry [x_user_a; x_user_b]].
Definition osc_b : list tentry := [osc_entry [x_user_b; x_user_a]].

(* the repaired sqfs2tar on the same image *)
Lemma new_sqfs2tar_stable : convert osc_a = RA_Ok osc_a.
Proof. vm_compute. reflexivity. Qed.

(* ---- boolean checker for [settled] ---- *)
Fixpoint xlist_eqb (a b : list xattr) : bool :=
  match a, b with
  | [], [] => true
  | (k1, v1) :: a', (k2, v2) :: b' => list_eqb k1 k2 && list_eqb v1 v2 && xlist_eqb a' b'
  | _, _ => false
  end.

Lemma xlist_eqb_true a : forall b, xlist_eqb a b = true -> a = b.
Proof.
  induction a as [|[k1 v1] a IH]; intros [|[k2 v2] b] H; cbn [xlist_eqb] in H; try discriminate; [reflexivity|].
  apply andb_prop in H. destruct H as [H H3]. apply andb_prop in H. destruct H as [H1 H2].
  apply list_eqb_true in H1, H2. subst. f_equal. apply IH. exact H3.
Qed.

Fixpoint settledb (tbl : list (list N)) (es : list tentry) : bool :=
  match es with
  | [] => true
  | t :: r =>
    let xs := if e_hardlink (te_e t) then [] else te_xattr t in
    xlist_eqb (snd (store_xattrs tbl xs)) xs && settledb (fst (store_xattrs tbl xs)) r
  end.

Lemma settledb_sound es : forall tbl, settledb tbl es = true -> settled tbl es.
Proof.
  induction es as [|t es IH]; intros tbl H; [exact I|]. cbn [settledb settled] in *.
  apply andb_prop in H. destruct H as [H1 H2]. split; [apply xlist_eqb_true; exact H1|apply IH; exact H2].
Qed.

(* Without the reversal in sqfs2tar's write_entry every conversion round swaps
   the xattr order: the image in the right shape is NOT a fixpoint, the
   archives alternate with period 2 (the defect F23). *)
Lemma old_sqfs2tar_oscillates :
  Forall entry_ok osc_a /\ Forall img_shape osc_a /\ settled [] osc_a /\
  convert_old osc_a = RA_Ok osc_b /\ convert_old osc_b = RA_Ok osc_a /\
  write_archive_old osc_b <> write_archive_old osc_a.
Proof.
  split; [|split; [|split; [|split; [|split]]]].
  - constructor; [|constructor]. apply entry_okb_sound. vm_compute. reflexivity.
  - constructor; [|constructor]. apply img_shapeb_sound. vm_compute. reflexivity.
  - apply settledb_sound. vm_compute. reflexivity.
  - vm_compute. reflexivity.
  - vm_compute. reflexivity.
  - apply list_eqb_false. vm_compute. reflexivity.
Qed.

(* two files sharing keys: the first round only rearranges the xattrs of the
   second file into the order of the new image's key table (user.b was seen
   first), the second round changes nothing *)
Definition settle_a : list tentry :=
  [mkte (mkentry [102] (S_IFREG + 420) 0 0 1 5%Z 0 false) None [x_user_b] [104];
   mkte (mkentry [103] (S_IFREG + 420) 0 0 1 5%Z 0 false) None [x_user_a; x_user_b] [105]].
Definition settle_b : list tentry :=
  [mkte (mkentry [102] (S_IFREG + 420) 0 0 1 5%Z 0 false) None [x_user_b] [104];
   mkte (mkentry [103] (S_IFREG + 420) 0 0 1 5%Z 0 false) None [x_user_b; x_user_a] [105]].

Lemma xattr_order_settles :
  convert settle_a = RA_Ok settle_b /\ convert settle_b = RA_Ok settle_b /\
  write_archive settle_b <> write_archive settle_a.
Proof.
  split; [|split].
  - vm_compute. reflexivity.
  - vm_compute. reflexivity.
  - apply list_eqb_false. vm_compute. reflexivity.
Qed.
